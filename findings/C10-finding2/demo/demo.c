/* finding2 demo: queries that make iodined emit malformed DNS messages */
#include "srvharness.h"

static int report(const char *what, int expect_to_bind)
{
	char why[400];
	struct dnsinfo di;
	int bad = 0, i;

	if (srv_nout == 0)
		printf("  %-44s (nothing emitted)\n", what);
	for (i = 0; i < srv_nout; i++) {
		struct srv_dgram *d = &srv_out[i];
		const char *kind = d->fd == SRV_BIND_FD ? "forwarded query" : "answer";
		(void) expect_to_bind;
		if (dnscheck(d->data, d->len, &di, why, sizeof(why))) {
			printf("  %-44s %s, %d bytes, MALFORMED: %s\n", what, kind, d->len, why);
			bad = 1;
		} else {
			printf("  %-44s %s, %d bytes, ok (name %d bytes)\n", what, kind, d->len, di.qnamelen);
		}
	}
	srv_nout = 0;
	return bad;
}

int main(void)
{
	unsigned char wn[600], pkt[1024];
	int n, len, bad = 0, i;

	srv_init("t.co", "secret");

	/* 0. sanity: an ordinary 'z' (case check) query gets a good answer */
	n = srv_wirename(wn, "zabcDEF.t.co");
	len = srv_mkquery(pkt, 0x1234, wn, n, T_TXT);
	srv_feed(pkt, len, 4000, 0);
	bad |= report("ordinary query zabcDEF.t.co", 0);

	/* 1. four ordinary labels (63,63,63,57 bytes) in front of t.co: every
	      label is legal, the name is 254 characters as a dotted string,
	      256 bytes on the wire */
	n = 0;
	for (i = 0; i < 4; i++) {
		int l = i < 3 ? 63 : 57;
		wn[n++] = l;
		memset(wn + n, i == 0 ? 'z' : 'a' + i, l);
		n += l;
	}
	n += srv_wirename(wn + n, "t.co");
	len = srv_mkquery(pkt, 0x2345, wn, n, T_TXT);
	srv_feed(pkt, len, 4001, 0);
	bad |= report("query with a 256-byte name", 0);

	/* 2. a label whose length byte is 0x46: RFC 1035 reserves the 01 label
	      type, readname() takes it for a 70-byte label */
	n = 0;
	wn[n++] = 0x46;
	memset(wn + n, 'z', 70); n += 70;
	n += srv_wirename(wn + n, "t.co");
	len = srv_mkquery(pkt, 0x3456, wn, n, T_NULL);
	srv_feed(pkt, len, 4002, 0);
	bad |= report("query with a 70-byte \"label\" (NULL)", 0);
	len = srv_mkquery(pkt, 0x3457, wn, n, T_NS);
	srv_feed(pkt, len, 4002, 0);
	bad |= report("same name, NS query", 0);

	/* 3. the same kind of name outside the tunnel domain, iodined -b 5353:
	      the query iodined forwards to the local DNS server */
	n = 0;
	wn[n++] = 0x46;
	memset(wn + n, 'w', 70); n += 70;
	n += srv_wirename(wn + n, "example.org");
	len = srv_mkquery(pkt, 0x4567, wn, n, T_A);
	bind_port = 5353;
	srv_feed(pkt, len, 4003, SRV_BIND_FD);
	bad |= report("70-byte \"label\" under example.org, -b", 1);

	printf(bad ? "FAIL\n" : "PASS\n");
	return bad;
}
