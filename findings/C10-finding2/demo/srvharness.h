/* The real iodined.c compiled into a test program (build with -Dmain=iodined_main).
 * recvmsg() and sendto() are intercepted with ld --wrap: srv_feed() hands one
 * datagram to tunnel_dns() exactly as if it had arrived on the DNS socket, and
 * everything the server sends is collected in srv_out[].
 */
#ifndef SRVHARNESS_H
#define SRVHARNESS_H
#include "iodined.c"
#undef main
#include "dnscheck.h"

#define SRV_DNS_FD 5
#define SRV_BIND_FD 6

struct srv_dgram { int fd; int len; unsigned char data[8192]; struct sockaddr_in to; };
static struct srv_dgram srv_out[64];
static int srv_nout;

static unsigned char srv_in[8192];
static int srv_inlen;
static int srv_inport;

ssize_t __wrap_sendto(int fd, const void *buf, size_t len, int flags,
		      const struct sockaddr *to, socklen_t tolen);
ssize_t __wrap_sendto(int fd, const void *buf, size_t len, int flags,
		      const struct sockaddr *to, socklen_t tolen)
{
	struct srv_dgram *d;
	(void) flags; (void) tolen;
	if (srv_nout < 64) {
		d = &srv_out[srv_nout++];
		d->fd = fd;
		d->len = len > sizeof(d->data) ? (int) sizeof(d->data) : (int) len;
		memcpy(d->data, buf, d->len);
		memcpy(&d->to, to, sizeof(d->to));
	}
	return len;
}

ssize_t __wrap_recvmsg(int fd, struct msghdr *msg, int flags);
ssize_t __wrap_recvmsg(int fd, struct msghdr *msg, int flags)
{
	struct sockaddr_in *from = (struct sockaddr_in *) msg->msg_name;
	struct cmsghdr *cm;
	struct in_pktinfo pi;
	(void) fd; (void) flags;

	memset(msg->msg_name, 0, msg->msg_namelen);
	from->sin_family = AF_INET;
	from->sin_port = htons(srv_inport);
	from->sin_addr.s_addr = inet_addr("127.0.0.2");
	msg->msg_namelen = sizeof(*from);

	/* destination address, as IP_PKTINFO would report it */
	memset(&pi, 0, sizeof(pi));
	pi.ipi_addr.s_addr = inet_addr("127.0.0.1");
	memset(msg->msg_control, 0, msg->msg_controllen);
	cm = CMSG_FIRSTHDR(msg);
	cm->cmsg_level = IPPROTO_IP;
	cm->cmsg_type = IP_PKTINFO;
	cm->cmsg_len = CMSG_LEN(sizeof(pi));
	memcpy(CMSG_DATA(cm), &pi, sizeof(pi));
	msg->msg_controllen = CMSG_SPACE(sizeof(pi));

	memcpy(msg->msg_iov[0].iov_base, srv_in, srv_inlen);
	return srv_inlen;
}

static struct dnsfd srv_fds = { SRV_DNS_FD, -1 };

static void srv_init(const char *td, const char *pw)
{
	topdomain = strdup(td);
	memset(password, 0, sizeof(password));
	strncpy(password, pw, sizeof(password) - 1);
	my_ip = inet_addr("10.9.0.1");
	my_mtu = 1130;
	netmask = 27;
	ns_ip = INADDR_ANY;
	check_ip = 1;
	debug = 0;
	created_users = init_users(my_ip, netmask);
	srand(7);
}

/* deliver one datagram to the server; bind_fd 0 = no -b forwarding */
static void srv_feed(const unsigned char *pkt, int len, int port, int bind_fd)
{
	memcpy(srv_in, pkt, len);
	srv_inlen = len;
	srv_inport = port;
	tunnel_dns(-1, SRV_DNS_FD, &srv_fds, bind_fd);
}

/* build a plain query: header, the given wire-format name, type, class IN */
static int srv_mkquery(unsigned char *out, unsigned id, const unsigned char *wname,
		       int wnamelen, unsigned type)
{
	int n = 0;
	memset(out, 0, 12);
	out[0] = id >> 8; out[1] = id; out[2] = 0x01; out[5] = 1;
	n = 12;
	memcpy(out + n, wname, wnamelen); n += wnamelen;
	out[n++] = type >> 8; out[n++] = type; out[n++] = 0; out[n++] = 1;
	return n;
}

/* dotted text (no escapes) -> wire name; returns length */
static int srv_wirename(unsigned char *out, const char *dotted)
{
	int n = 0;
	while (*dotted) {
		const char *e = strchr(dotted, '.');
		int l = e ? (int) (e - dotted) : (int) strlen(dotted);
		out[n++] = l;
		memcpy(out + n, dotted, l); n += l;
		dotted += l;
		if (*dotted == '.') dotted++;
	}
	out[n++] = 0;
	return n;
}
#endif
