/* Strict RFC 1035 well-formedness check of one DNS message, for the demos.
 *
 * dnscheck(msg, len, &info, why, sizeof(why)) returns 0 when the message is
 * well formed, -1 otherwise (reason in why):
 *   - section counts match the records present, nothing is left over
 *   - every name: labels of 1..63 bytes, at most 255 bytes expanded,
 *     compression pointers point strictly backwards to a label boundary
 *   - each RDLENGTH stays inside the message and equals the data size
 *     (names in NS/CNAME/MX/SRV rdata end exactly at RDLENGTH, A is 4 bytes,
 *     TXT is tiled by its length-prefixed strings)
 * info gets id, flags, counts, the question (expanded wire name, type) and
 * for the first answer record its type and (if it holds a name) that name.
 */
#ifndef DNSCHECK_H
#define DNSCHECK_H
#include <stdio.h>
#include <string.h>

struct dnsinfo {
	unsigned id, qr, qd, an, ns, ar;
	unsigned char qname[300]; int qnamelen;	/* expanded wire form */
	unsigned qtype;
	unsigned atype;				/* type of first answer RR */
	unsigned char aname[300]; int anamelen;	/* owner of first answer */
	unsigned char rname[300]; int rnamelen;	/* name in rdata of first answer */
};

static unsigned char dc_lblstart[65536];	/* 1 = a label begins here */

/* Parses the name at *off. Writes the expanded wire form (with the final
   root byte) to out (may be NULL). Returns 0 ok. */
static int dc_name(const unsigned char *m, int len, int *off,
		   unsigned char *out, int *outlen, char *why, size_t wl)
{
	int p = *off, total = 0, jumped = 0, hops = 0;
	int limit = *off;	/* pointers must point before the name they are in */

	for (;;) {
		unsigned c;
		if (p >= len) { snprintf(why, wl, "name runs past the end of the message (offset %d)", p); return -1; }
		c = m[p];
		if ((c & 0xc0) == 0xc0) {
			int tgt;
			if (p + 1 >= len) { snprintf(why, wl, "cut compression pointer at %d", p); return -1; }
			tgt = ((c & 0x3f) << 8) | m[p + 1];
			if (!jumped) { dc_lblstart[p] = 1; *off = p + 2; }
			if (tgt >= limit) { snprintf(why, wl, "compression pointer at %d points forward/to itself (%d)", p, tgt); return -1; }
			if (!dc_lblstart[tgt]) { snprintf(why, wl, "compression pointer at %d -> %d is not a label boundary", p, tgt); return -1; }
			limit = tgt; p = tgt; jumped = 1;
			if (++hops > 64) { snprintf(why, wl, "pointer loop"); return -1; }
			continue;
		}
		if (c & 0xc0) { snprintf(why, wl, "reserved label type 0x%02x at %d", c, p); return -1; }
		if (!jumped) dc_lblstart[p] = 1;
		if (c == 0) {
			if (out) out[total] = 0;
			total++;
			if (!jumped) *off = p + 1;
			break;
		}
		if (p + 1 + (int) c > len) { snprintf(why, wl, "label at %d runs past the end", p); return -1; }
		if (total + 1 + (int) c + 1 > 255) { snprintf(why, wl, "name longer than 255 bytes"); return -1; }
		if (out) memcpy(out + total, m + p, c + 1);
		total += c + 1;
		p += c + 1;
	}
	if (total > 255) { snprintf(why, wl, "name is %d bytes (> 255)", total); return -1; }
	if (outlen) *outlen = total;
	return 0;
}

static int dnscheck(const unsigned char *m, int len, struct dnsinfo *di,
		    char *why, size_t wl)
{
	int off = 12, sec, i;
	unsigned cnt[4];
	struct dnsinfo dummy;

	if (!di) di = &dummy;
	memset(di, 0, sizeof(*di));
	memset(dc_lblstart, 0, sizeof(dc_lblstart));
	why[0] = 0;
	if (len < 12) { snprintf(why, wl, "shorter than a header (%d)", len); return -1; }
	di->id = (m[0] << 8) | m[1];
	di->qr = m[2] >> 7;
	for (i = 0; i < 4; i++) cnt[i] = (m[4 + 2*i] << 8) | m[5 + 2*i];
	di->qd = cnt[0]; di->an = cnt[1]; di->ns = cnt[2]; di->ar = cnt[3];

	for (i = 0; i < (int) cnt[0]; i++) {
		unsigned char nm[300]; int nl;
		if (dc_name(m, len, &off, nm, &nl, why, wl)) { char w2[200]; snprintf(w2, sizeof(w2), "question %d: %s", i, why); snprintf(why, wl, "%s", w2); return -1; }
		if (off + 4 > len) { snprintf(why, wl, "question %d: type/class cut off", i); return -1; }
		if (i == 0) { memcpy(di->qname, nm, nl); di->qnamelen = nl; di->qtype = (m[off] << 8) | m[off+1]; }
		off += 4;
	}
	for (sec = 1; sec < 4; sec++) for (i = 0; i < (int) cnt[sec]; i++) {
		unsigned char nm[300]; int nl; unsigned type, rdlen; int rdend, q;
		char w2[300];
		static const char *sn[] = { "", "answer", "authority", "additional" };
		if (dc_name(m, len, &off, nm, &nl, why, wl)) goto recerr;
		if (off + 10 > len) { snprintf(why, wl, "fixed part cut off (record announced by the count is missing)"); goto recerr; }
		type = (m[off] << 8) | m[off+1];
		rdlen = (m[off+8] << 8) | m[off+9];
		off += 10;
		rdend = off + rdlen;
		if (rdend > len) { snprintf(why, wl, "RDLENGTH %u runs past the end of the message", rdlen); goto recerr; }
		if (sec == 1 && i == 0) { di->atype = type; memcpy(di->aname, nm, nl); di->anamelen = nl; }
		q = off;
		switch (type) {
		case 1: /* A */
			if (rdlen != 4) { snprintf(why, wl, "A record with RDLENGTH %u", rdlen); goto recerr; }
			break;
		case 2: case 5: case 15: case 33: /* NS CNAME MX SRV */
			if (type == 15) q += 2;
			if (type == 33) q += 6;
			if (q > rdend) { snprintf(why, wl, "rdata too short"); goto recerr; }
			if (dc_name(m, len, &q, nm, &nl, why, wl)) goto recerr;
			if (q != rdend) { snprintf(why, wl, "RDLENGTH %u but the data is %d bytes", rdlen, q - off); goto recerr; }
			if (sec == 1 && i == 0) { memcpy(di->rname, nm, nl); di->rnamelen = nl; }
			break;
		case 16: /* TXT */
			if (rdlen == 0) { snprintf(why, wl, "empty TXT rdata"); goto recerr; }
			while (q < rdend) q += 1 + m[q];
			if (q != rdend) { snprintf(why, wl, "TXT strings do not tile the rdata (RDLENGTH %u)", rdlen); goto recerr; }
			break;
		default:
			break;
		}
		off = rdend;
		continue;
recerr:
		snprintf(w2, sizeof(w2), "%s record %d: %s", sn[sec], i, why);
		snprintf(why, wl, "%s", w2);
		return -1;
	}
	if (off != len) { snprintf(why, wl, "%d bytes left over after the announced records", len - off); return -1; }
	return 0;
}

/* expanded wire name -> printable dotted text */
static const char *dc_dotted(const unsigned char *wn, int wl)
{
	static char out[4][1200]; static int k;
	char *o = out[k = (k + 1) & 3]; int p = 0, n = 0;
	while (p < wl && wn[p]) {
		int l = wn[p++], j;
		for (j = 0; j < l; j++, p++)
			n += sprintf(o + n, (wn[p] > 32 && wn[p] < 127 && wn[p] != '.') ? "%c" : "\\%03o", wn[p]);
		o[n++] = '.';
	}
	o[n] = 0;
	return o;
}
#endif
