#!/bin/sh
# usage: run.sh <iodine source tree root>
# exit 0 = PASS (every emitted datagram is a well-formed DNS message)
# exit 1 = FAIL
TREE=${1:?usage: run.sh <tree>}
TREE=$(cd "$TREE" && pwd) || exit 2
HERE=$(cd "$(dirname "$0")" && pwd)
TMP=$(mktemp -d) || exit 2
trap 'rm -rf "$TMP"' EXIT
S=$TREE/src

sed -e 's/\([Bb][Aa][Ss][Ee]64\)/\1u/g ; s/0123456789+/0123456789_/' \
	< "$S/base64.c" > "$TMP/base64u.c" || exit 2

${CC:-cc} -std=gnu99 -O0 -g -w -D_GNU_SOURCE -DLINUX -DGITREVISION='"demo"' \
	-Dmain=iodined_main -I"$S" -I"$HERE" \
	-o "$TMP/demo" "$HERE/demo.c" \
	"$S/dns.c" "$S/read.c" "$S/encoding.c" "$S/base32.c" "$S/base64.c" \
	"$TMP/base64u.c" "$S/base128.c" "$S/common.c" "$S/login.c" "$S/md5.c" \
	"$S/tun.c" "$S/user.c" "$S/fw_query.c" \
	-Wl,--wrap=sendto -Wl,--wrap=recvmsg -lz || { echo "build failed"; exit 2; }

"$TMP/demo"
