/*
 * C20 / finding1 demo: with -b, a query for the root name "." (for example
 * the ". NS" priming query every resolver sends, or ". SOA" / ". DNSKEY")
 * is a query for a name outside the tunnel domain, yet iodined never relays
 * it to the local DNS port, so the asker never gets a reply.
 * Control: "com" and "example.org" are relayed and answered.
 */
#include "fwharness.h"

static void
one(int a, unsigned short id, const char *dotted, unsigned short type, const char *label)
{
	unsigned char fwd[1024], rep[1024], got[70000];
	int len, gotlen = 0, who;

	len = h_ask(a, id, dotted, type, fwd, sizeof(fwd));
	if (len < 0) {
		FAIL("%s (id %u): nothing was relayed to the local DNS port", label, id);
		return;
	}
	if (!h_same_question(fwd, len, id, dotted, type)) {
		FAIL("%s (id %u): relayed with a different id, name or type", label, id);
		return;
	}
	OK("%s (id %u): relayed with the same id, name and type", label, id);

	len = h_mkreply(rep, id, 0x85, 0x80, dotted, type, a);
	who = h_reply(rep, len, got, &gotlen);
	if (who == a && gotlen == len && !memcmp(got, rep, len))
		OK("%s (id %u): reply reached the asker unchanged", label, id);
	else
		FAIL("%s (id %u): reply went to %d, %d bytes (expected asker %d, %d bytes)",
		     label, id, who, gotlen, a, len);
}

int
main(void)
{
	h_setup();

	one(0, 0x1001, "example.org", T_A, "example.org A");
	one(1, 0x1002, "com", T_NS, "com NS");
	one(2, 0x1003, "", T_NS, ". NS");
	one(3, 0x1004, "", 6 /* SOA */, ". SOA");
	one(4, 0x1005, "", 48 /* DNSKEY */, ". DNSKEY");

	printf(failures ? "FAIL (%d)\n" : "PASS\n", failures);
	return failures ? 1 : 0;
}
