/*
 * Tiny harness around the real iodined.c forwarding code (-b).
 *
 * The including file is compiled with -Dmain=iodined_main so that iodined.c's
 * main() does not clash; the static functions tunnel_dns(), forward_query()
 * and tunnel_bind() are then called directly.  All traffic goes over loopback
 * UDP sockets: no tun device, no root.
 *
 *   asker[i]  --query-->  dns_fds.v4fd  [tunnel_dns]  bind_fd --> upstream
 *   asker[i]  <--reply--  dns_fds.v4fd  [tunnel_bind] bind_fd <-- upstream
 */
#include "iodined.c"
#undef main

#include <poll.h>

#define NASKERS 40
static int asker[NASKERS];
static int upstream;		/* plays the local DNS server on the -b port */
static int h_bind_fd;
static struct dnsfd h_fds;
static struct sockaddr_in h_srvaddr;	/* where askers send to */
static struct sockaddr_in h_bindaddr;	/* where upstream replies to */
static int failures;

#define FAIL(...) do { printf("  FAIL: " __VA_ARGS__); printf("\n"); failures++; } while (0)
#define OK(...)   do { printf("  ok:   " __VA_ARGS__); printf("\n"); } while (0)

static int
h_udp(struct sockaddr_in *out)
{
	struct sockaddr_in a;
	socklen_t al = sizeof(a);
	int fd = socket(AF_INET, SOCK_DGRAM, 0);
	if (fd < 0) { perror("socket"); exit(2); }
	memset(&a, 0, sizeof(a));
	a.sin_family = AF_INET;
	a.sin_addr.s_addr = htonl(INADDR_LOOPBACK);
	if (bind(fd, (struct sockaddr *) &a, sizeof(a)) < 0) { perror("bind"); exit(2); }
	if (getsockname(fd, (struct sockaddr *) &a, &al) < 0) { perror("getsockname"); exit(2); }
	fcntl(fd, F_SETFL, fcntl(fd, F_GETFL) | O_NONBLOCK);
	if (out) *out = a;
	return fd;
}

static void
h_setup(void)
{
	struct sockaddr_in up;
	int i;

	topdomain = "t.example.com";
	debug = 0;
	fw_query_init();

	h_fds.v4fd = h_udp(&h_srvaddr);
	h_fds.v6fd = -1;
	h_bind_fd = h_udp(&h_bindaddr);
	upstream = h_udp(&up);
	bind_port = ntohs(up.sin_port);
	for (i = 0; i < NASKERS; i++)
		asker[i] = h_udp(NULL);
}

/* recv with a timeout in ms; returns length or -1 if nothing arrived */
static int
h_recv(int fd, unsigned char *buf, int buflen, int ms)
{
	struct pollfd p;
	p.fd = fd;
	p.events = POLLIN;
	if (poll(&p, 1, ms) <= 0)
		return -1;
	return recv(fd, buf, buflen, 0);
}

/* Build a plain query: header, name in wire format (given as bytes incl.
   the final 0), type, class IN.  No EDNS. */
static int
h_mkquery(unsigned char *buf, unsigned short id, const unsigned char *wname,
	  int wnamelen, unsigned short type)
{
	int n = 0;
	buf[n++] = id >> 8; buf[n++] = id & 0xff;
	buf[n++] = 0x01; buf[n++] = 0x00;	/* RD */
	buf[n++] = 0; buf[n++] = 1;		/* QDCOUNT */
	buf[n++] = 0; buf[n++] = 0;
	buf[n++] = 0; buf[n++] = 0;
	buf[n++] = 0; buf[n++] = 0;
	memcpy(buf + n, wname, wnamelen); n += wnamelen;
	buf[n++] = type >> 8; buf[n++] = type & 0xff;
	buf[n++] = 0; buf[n++] = 1;
	return n;
}

/* dotted text -> wire format; returns length */
static int
h_wire(unsigned char *out, const char *dotted)
{
	int n = 0;
	const char *p = dotted;
	while (*p) {
		const char *e = strchr(p, '.');
		int l = e ? (int)(e - p) : (int) strlen(p);
		out[n++] = l;
		memcpy(out + n, p, l); n += l;
		p += l;
		if (*p == '.') p++;
	}
	out[n++] = 0;
	return n;
}

/* Asker a sends a query; the server handles one datagram; returns the length
   of what the local DNS server received (into fwd), or -1 if nothing. */
static int
h_ask(int a, unsigned short id, const char *dotted, unsigned short type,
      unsigned char *fwd, int fwdlen)
{
	unsigned char q[600], w[300];
	int wl, ql;

	wl = h_wire(w, dotted);
	ql = h_mkquery(q, id, w, wl, type);
	if (sendto(asker[a], q, ql, 0, (struct sockaddr *) &h_srvaddr, sizeof(h_srvaddr)) != ql) {
		perror("sendto"); exit(2);
	}
	tunnel_dns(-1, h_fds.v4fd, &h_fds, h_bind_fd);
	return h_recv(upstream, fwd, fwdlen, 100);
}

/* Check that a relayed query carries id, name (wire bytes) and type */
static int
h_same_question(const unsigned char *fwd, int len, unsigned short id,
		const char *dotted, unsigned short type)
{
	unsigned char w[300];
	int wl = h_wire(w, dotted);
	if (len < 12 + wl + 4) return 0;
	if (fwd[0] != (id >> 8) || fwd[1] != (id & 0xff)) return 0;
	if (fwd[4] != 0 || fwd[5] != 1) return 0;
	if (memcmp(fwd + 12, w, wl)) return 0;
	if (fwd[12 + wl] != (type >> 8) || fwd[12 + wl + 1] != (type & 0xff)) return 0;
	return 1;
}

/* Build a reply: header with the given two flag octets, the question, and
   one A record.  Returns length. */
static int
h_mkreply(unsigned char *buf, unsigned short id, unsigned char f1,
	  unsigned char f2, const char *dotted, unsigned short type,
	  unsigned char mark)
{
	unsigned char w[300];
	int wl = h_wire(w, dotted);
	int n = 0;
	buf[n++] = id >> 8; buf[n++] = id & 0xff;
	buf[n++] = f1; buf[n++] = f2;
	buf[n++] = 0; buf[n++] = 1;
	buf[n++] = 0; buf[n++] = 1;
	buf[n++] = 0; buf[n++] = 0;
	buf[n++] = 0; buf[n++] = 0;
	memcpy(buf + n, w, wl); n += wl;
	buf[n++] = type >> 8; buf[n++] = type & 0xff;
	buf[n++] = 0; buf[n++] = 1;
	buf[n++] = 0xc0; buf[n++] = 0x0c;
	buf[n++] = 0; buf[n++] = 1; buf[n++] = 0; buf[n++] = 1;
	buf[n++] = 0; buf[n++] = 0; buf[n++] = 0; buf[n++] = 60;
	buf[n++] = 0; buf[n++] = 4;
	buf[n++] = 192; buf[n++] = 0; buf[n++] = 2; buf[n++] = mark;
	return n;
}

/* The local DNS server sends a reply to iodined's forwarding socket, the
   server handles one datagram.  Afterwards every asker socket is polled:
   returns the index of the asker that received a datagram (its bytes in
   got/gotlen), -1 if nobody did, -2 if more than one did. */
static int
h_reply(const unsigned char *rep, int replen, unsigned char *got, int *gotlen)
{
	int i, who = -1;
	unsigned char tmp[70000];

	if (sendto(upstream, rep, replen, 0, (struct sockaddr *) &h_bindaddr, sizeof(h_bindaddr)) != replen) {
		perror("sendto"); exit(2);
	}
	tunnel_bind(h_bind_fd, &h_fds);
	for (i = 0; i < NASKERS; i++) {
		int r = h_recv(asker[i], tmp, sizeof(tmp), 0);
		if (r >= 0) {
			if (who != -1) who = -2;
			else {
				who = i;
				*gotlen = r;
				memcpy(got, tmp, r);
			}
		}
	}
	return who;
}
