/* The real client: src/client.c is compiled as part of this file so that its
 * static state can be put back to what a freshly started iodine process has. */
#include "client.c"
#include "harness.h"

/* login_calculate() reads 32 bytes of password */
static char cl_password[33] = "secret";

void
cl_reset(void)
{
	struct sockaddr_storage ns;

	/* the initialisers of client.c's statics */
	dataenc = &base32_ops;
	downenc = ' ';
	do_qtype = T_UNSET;
	send_query_sendcnt = -1;
	send_query_recvcnt = 0;
	hostname_maxlen = 0xFF;
	userid = 0;
	userid_char = 0;
	userid_char2 = 0;
	lastdownstreamtime = 0;
	lastpingtime = 0;
	lastquerytime = 0;
	outchunktime = 0;
	memset(&outpkt, 0, sizeof(outpkt));
	memset(&inpkt, 0, sizeof(inpkt));

	/* what iodine's main() does before the handshake, with its defaults */
	client_init();
	memset(&ns, 0, sizeof(ns));
	ns.ss_family = AF_INET;
	client_set_nameserver(&ns, sizeof(struct sockaddr_in));
	client_set_selecttimeout(4);
	client_set_lazymode(1);
	client_set_topdomain("t.example.org");
	client_set_hostname_maxlen(0xFF);
	client_set_password(cl_password);
}

int
cl_handshake(int fragsize)
{
	/* raw mode is skipped (-r): the property is about the DNS path */
	return client_handshake(CL_DNS, 0, fragsize == 0, fragsize);
}

void
cl_tunnel(void)
{
	client_tunnel(CL_TUN, CL_DNS);
}

void
cl_stop(void)
{
	client_stop();
}

const char *
cl_upenc(void)
{
	return dataenc->name;
}

char
cl_downenc(void)
{
	return downenc;
}

int
cl_userid(void)
{
	return userid;
}

const char *
cl_qtype(void)
{
	return client_get_qtype();
}

void
cl_force_qtype(const char *t)
{
	char tmp[16];

	strncpy(tmp, t, sizeof(tmp) - 1);
	tmp[sizeof(tmp) - 1] = 0;
	client_set_qtype(tmp);
}

void
cl_force_downenc(const char *c)
{
	char tmp[16];

	strncpy(tmp, c, sizeof(tmp) - 1);
	tmp[sizeof(tmp) - 1] = 0;
	client_set_downenc(tmp);
}
