/* Tiny deterministic world for the real iodine client and the real iodined:
 * both run as cooperative fibers in one process; select, sendto, recv, recvfrom,
 * recvmsg, time and sleep are replaced (-Wl,--wrap) by a virtual clock and datagram queues, the tun
 * device by queues, and every datagram between the two passes a simulated DNS
 * relay that applies a fixed transformation.  No sockets, no tun, no root,
 * no wall-clock waiting. */
#ifndef HARNESS_H
#define HARNESS_H

#include <stddef.h>

#define CL_DNS 10	/* client's DNS socket */
#define CL_TUN 11	/* client's tun device */
#define SV_DNS 20	/* server's DNS socket */
#define SV_TUN 21	/* server's tun device */

enum { CASE_KEEP, CASE_LOWER, CASE_UPPER, CASE_RANDOM };
enum { B8_CLEAN, B8_STRIP, B8_REJECT };
enum { P_KEEP, P_PLUS, P_UNDERSCORE };

struct side {
	int casemode;	/* letter case in names (and TXT text) */
	int bit8;	/* bytes >= 0x80: pass, clear top bit, or refuse */
	int punct;	/* '+' or '_' replaced by a blank */
};

struct relay {
	struct side q;		/* applied to the name in queries */
	struct side a;		/* applied to names / text in answers */
	unsigned types;		/* bit n set: type n allowed; n = 0 NULL, 1 PRIVATE,
				   2 TXT, 3 SRV, 4 MX, 5 CNAME, 6 A */
	int limit;		/* answers longer than this are dropped; 0 = none */
	int edns;		/* 0: OPT is removed and answers are held to 512 */
	/* statistics */
	long q_seen, q_refused, a_seen, a_dropped_size, a_refused;
	long q_plus_mangled, q_under_mangled, q_hi_stripped, q_case_changed;
};
extern struct relay relay;
void relay_clean(void);

/* virtual time */
long long now_us(void);
void h_sleep_us(long long us);

/* events that happen at a virtual time while the fibers run */
enum { EV_TUN_CLIENT, EV_TUN_SERVER, EV_STOP_CLIENT };
void at_us(long long when, int kind, const void *data, int len);

/* what was written to a tun device */
int tun_got(int fd, const void *pkt, int len);	/* 1 if exactly this packet was written */
int tun_count(int fd);
void tun_forget(void);

/* the scenario runs in the client fiber */
void scenario(void);
extern int verdict;	/* exit status the scenario decided on */
void logf_(const char *fmt, ...);

/* glue around client.c (cl.c) */
void cl_reset(void);
int cl_handshake(int fragsize);	/* 0 = autoprobe */
void cl_tunnel(void);
void cl_stop(void);
const char *cl_upenc(void);
char cl_downenc(void);
int cl_userid(void);
const char *cl_qtype(void);
void cl_force_qtype(const char *t);
void cl_force_downenc(const char *c);

/* glue around iodined.c (sv.c) */
void sv_setup(const char *topdomain, const char *password);
void sv_loop(void);
const char *sv_upenc(int user);
char sv_downenc(int user);
int sv_fragsize(int user);
unsigned sv_user_ip(int user);	/* network byte order */

#endif
