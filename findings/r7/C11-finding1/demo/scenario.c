/* Unchanged tree, forced downstream codec: iodine -T TXT -O Raw (fragment size
 * autoprobed as usual) through a relay that refuses answers whose TXT text
 * holds a byte >= 0x80 (it answers SERVFAIL instead), everything else clean.
 *
 * Real handshake, then one IP packet is offered on each side. */
#include <stdio.h>
#include <string.h>
#include <arpa/inet.h>

#include "harness.h"

static unsigned long prng = 2463534242UL;

static unsigned
prn(void)
{
	prng ^= prng << 13;
	prng ^= prng >> 17;
	prng ^= prng << 5;
	prng &= 0xffffffffUL;
	return (unsigned) prng;
}

static int
make_packet(unsigned char *p, unsigned src, unsigned dst, int payload)
{
	int i, n = 4 + 20 + payload;

	memset(p, 0, n);
	p[2] = 0x08;
	p[4] = 0x45;
	p[6] = (n - 4) >> 8;
	p[7] = (n - 4) & 0xff;
	p[12] = 64;
	p[13] = 17;
	memcpy(p + 16, &src, 4);
	memcpy(p + 20, &dst, 4);
	for (i = 24; i < n; i++)
		p[i] = prn() & 0xff;
	return n;
}

void
scenario(void)
{
	unsigned char up[2048], down[2048];
	int uplen, downlen, uid, r, upok, downok;
	long long t;

	relay_clean();
	relay.a.bit8 = B8_REJECT;

	logf_("--- relay: answers with a byte >= 0x80 in TXT text are refused (SERVFAIL)\n");
	logf_("--- client: -T TXT -O Raw\n");
	tun_forget();
	cl_reset();
	cl_force_qtype("TXT");
	cl_force_downenc("Raw");
	r = cl_handshake(0);
	uid = cl_userid();
	logf_("handshake %s; user #%d; client: type %s, upstream %s, downstream '%c'\n",
	      r == 0 ? "completed" : "failed", uid, cl_qtype(), cl_upenc(), cl_downenc());
	if (r != 0) {
		logf_("the client gave up: nothing was settled on, property not violated here\n");
		verdict = 0;
		return;
	}
	logf_("                               server: upstream %s, downstream '%c', fragsize %d\n",
	      sv_upenc(uid), sv_downenc(uid), sv_fragsize(uid));

	uplen = make_packet(up, sv_user_ip(uid), inet_addr("10.9.8.7"), 300);
	downlen = make_packet(down, inet_addr("10.9.8.7"), sv_user_ip(uid), 300);
	t = now_us();
	at_us(t + 1000000, EV_TUN_CLIENT, up, uplen);
	at_us(t + 4000000, EV_TUN_SERVER, down, downlen);
	at_us(t + 50000000, EV_STOP_CLIENT, NULL, 0);
	cl_tunnel();

	upok = tun_got(SV_TUN, up, uplen);
	downok = tun_got(CL_TUN, down, downlen);
	logf_("packet offered at the client: %s at the server's tun\n",
	      upok ? "came out intact" : "did NOT come out");
	logf_("packet offered at the server: %s at the client's tun\n",
	      downok ? "came out intact" : "did NOT come out");
	logf_("relay refused %ld of %ld answers\n", relay.a_refused, relay.a_seen);
	if (!upok || !downok) {
		logf_("VIOLATED: handshake completed with downstream codec Raw and fragment size %d "
		      "through a relay that refuses every Raw answer; packets offered after it "
		      "were not delivered\n", sv_fragsize(uid));
		verdict = 1;
	} else {
		logf_("property holds in this case\n");
		verdict = 0;
	}
}
