#!/bin/sh
# usage: run.sh <source tree root>
# exit 0: property holds in the demonstrated case, 1: violated, 2: build/harness trouble
tree=${1:?usage: run.sh <source tree root>}
src=$(cd "$tree/src" 2>/dev/null && pwd) || { echo "no $tree/src"; exit 2; }
here=$(cd "$(dirname "$0")" && pwd)
tmp=$(mktemp -d) || exit 2
trap 'rm -rf "$tmp"' EXIT

# base64u.c is generated from base64.c, as in src/Makefile
{ echo '/* generated */'
  sed -e 's/\([Bb][Aa][Ss][Ee]64\)/\1u/g ; s/0123456789+/0123456789_/' < "$src/base64.c"
} > "$tmp/base64u.c" || exit 2

wrap=-Wl,--wrap=select,--wrap=sendto,--wrap=recvfrom,--wrap=recv,--wrap=recvmsg,--wrap=time,--wrap=sleep,--wrap=syslog

cc -std=gnu99 -O1 -g -w -D_GNU_SOURCE -DLINUX -DGITREVISION='"demo"' \
	-I"$src" -I"$here" -o "$tmp/demo" \
	"$here/harness.c" "$here/cl.c" "$here/sv.c" "$here/scenario.c" \
	"$src/base32.c" "$src/base64.c" "$tmp/base64u.c" "$src/base128.c" \
	"$src/common.c" "$src/dns.c" "$src/encoding.c" "$src/login.c" \
	"$src/md5.c" "$src/read.c" "$src/user.c" "$src/util.c" "$src/fw_query.c" \
	-lz $wrap > "$tmp/build.log" 2>&1 || { cat "$tmp/build.log"; echo "build failed"; exit 2; }

timeout 50 "$tmp/demo" "$tmp/programs.log"
rc=$?
if [ "$rc" != 0 ] && [ "$rc" != 1 ]; then
	echo "harness trouble (status $rc); last lines the programs printed:"
	tail -n 30 "$tmp/programs.log" 2>/dev/null
	exit 2
fi
if [ -n "$DEMO_VERBOSE" ]; then
	echo "--- what iodine and iodined printed:"
	cat "$tmp/programs.log"
fi
exit $rc
