/* See harness.h.  Scheduler, virtual clock, datagram queues, tun stubs and the
 * simulated DNS relay. */
#define _GNU_SOURCE
#include <stdio.h>
#include <stdlib.h>
#include <stdarg.h>
#include <string.h>
#include <ctype.h>
#include <time.h>
#include <unistd.h>
#include <ucontext.h>
#include <sys/types.h>
#include <sys/select.h>
#include <sys/socket.h>
#include <sys/mman.h>
#include <netinet/in.h>
#include <arpa/inet.h>

#include "harness.h"

#define T0 1700000000LL
#define NFD 32

/* ------------------------------------------------------------------ log */

static FILE *logfp;

void
logf_(const char *fmt, ...)
{
	va_list ap;

	va_start(ap, fmt);
	vfprintf(stdout, fmt, ap);
	va_end(ap);
	fflush(stdout);
}

/* --------------------------------------------------------------- queues */

struct dgram {
	struct dgram *next;
	int len;
	unsigned char data[1];
};
struct queue {
	struct dgram *head, *tail;
	int n;
};
static struct queue queues[NFD];	/* waiting to be read from fd */
static struct queue written[NFD];	/* written to (tun) fd */

static void
q_push(struct queue *q, const void *data, int len)
{
	struct dgram *d = malloc(sizeof(*d) + len);

	d->next = NULL;
	d->len = len;
	memcpy(d->data, data, len);
	if (q->tail)
		q->tail->next = d;
	else
		q->head = d;
	q->tail = d;
	q->n++;
}

static int
q_pop(struct queue *q, void *buf, int buflen)
{
	struct dgram *d = q->head;
	int n;

	if (!d)
		return -1;
	q->head = d->next;
	if (!q->head)
		q->tail = NULL;
	q->n--;
	n = d->len < buflen ? d->len : buflen;
	memcpy(buf, d->data, n);
	free(d);
	return n;
}

static void
q_clear(struct queue *q)
{
	char tmp[1];

	while (q->n > 0)
		q_pop(q, tmp, 0);
}

/* ----------------------------------------------------- fibers and clock */

struct fiber {
	const char *name;
	ucontext_t ctx;
	void (*fn)(void);
	int blocked;
	int finished;
	fd_set want;
	int nfds;
	int has_deadline;
	long long deadline;
	int result;
	fd_set ready;
};
static struct fiber fibers[2];	/* 0 = server, 1 = client */
static struct fiber *cur;
static ucontext_t sched_ctx;
static long long clock_us;

struct event {
	long long at;
	int kind;
	int len;
	unsigned char *data;
};
static struct event events[256];
static int nevents;

int verdict = 2;

long long
now_us(void)
{
	return clock_us;
}

void
at_us(long long when, int kind, const void *data, int len)
{
	struct event *e;

	if (nevents >= 256) {
		logf_("harness: too many events\n");
		exit(2);
	}
	e = &events[nevents++];
	e->at = when;
	e->kind = kind;
	e->len = len;
	e->data = NULL;
	if (len > 0) {
		e->data = malloc(len);
		memcpy(e->data, data, len);
	}
}

static int
ready_set(const fd_set *want, int nfds, fd_set *out)
{
	int fd, n = 0;

	FD_ZERO(out);
	for (fd = 0; fd < nfds && fd < NFD; fd++)
		if (FD_ISSET(fd, want) && queues[fd].n > 0) {
			FD_SET(fd, out);
			n++;
		}
	return n;
}

int __wrap_select(int nfds, fd_set *r, fd_set *w, fd_set *e, struct timeval *tv);

int
__wrap_select(int nfds, fd_set *r, fd_set *w, fd_set *e, struct timeval *tv)
{
	struct fiber *me = cur;
	fd_set rd;
	int n;

	(void) w;
	(void) e;
	if (!me) {
		logf_("harness: select outside a fiber\n");
		exit(2);
	}
	FD_ZERO(&me->want);
	if (r)
		me->want = *r;
	n = ready_set(&me->want, nfds, &rd);
	if (n > 0) {
		*r = rd;
		return n;
	}
	me->nfds = nfds;
	me->has_deadline = tv != NULL;
	me->deadline = clock_us;
	if (tv)
		me->deadline += (long long) tv->tv_sec * 1000000LL + tv->tv_usec;
	me->blocked = 1;
	swapcontext(&me->ctx, &sched_ctx);
	if (r)
		*r = me->ready;
	return me->result;
}

void
h_sleep_us(long long us)
{
	struct timeval tv;

	tv.tv_sec = us / 1000000LL;
	tv.tv_usec = us % 1000000LL;
	__wrap_select(0, NULL, NULL, NULL, &tv);
}

unsigned int __wrap_sleep(unsigned int s);
unsigned int
__wrap_sleep(unsigned int s)
{
	h_sleep_us((long long) s * 1000000LL);
	return 0;
}

time_t __wrap_time(time_t *t);
time_t
__wrap_time(time_t *t)
{
	time_t v = (time_t) (T0 + clock_us / 1000000LL);

	if (t)
		*t = v;
	return v;
}

void __wrap_syslog(int pri, const char *fmt, ...);
void
__wrap_syslog(int pri, const char *fmt, ...)
{
	(void) pri;
	(void) fmt;
}

static void
resume(struct fiber *f, int result, const fd_set *ready)
{
	f->blocked = 0;
	f->result = result;
	if (ready)
		f->ready = *ready;
	else
		FD_ZERO(&f->ready);
	cur = f;
	swapcontext(&sched_ctx, &f->ctx);
	cur = NULL;
}

static void
fiber_entry(int idx)
{
	struct fiber *f = &fibers[idx];

	f->fn();
	f->finished = 1;
	f->blocked = 0;
	for (;;)
		swapcontext(&f->ctx, &sched_ctx);
}

static void
fiber_start(int idx, const char *name, void (*fn)(void))
{
	struct fiber *f = &fibers[idx];
	size_t sz = 32u << 20;
	void *stack;

	stack = mmap(NULL, sz, PROT_READ | PROT_WRITE,
		     MAP_PRIVATE | MAP_ANONYMOUS, -1, 0);
	if (stack == MAP_FAILED) {
		perror("mmap");
		exit(2);
	}
	memset(f, 0, sizeof(*f));
	f->name = name;
	f->fn = fn;
	getcontext(&f->ctx);
	f->ctx.uc_stack.ss_sp = stack;
	f->ctx.uc_stack.ss_size = sz;
	f->ctx.uc_link = &sched_ctx;
	makecontext(&f->ctx, (void (*)(void)) fiber_entry, 1, idx);
	/* run it until it blocks for the first time */
	cur = f;
	swapcontext(&sched_ctx, &f->ctx);
	cur = NULL;
}

static void
run_event(struct event *e)
{
	switch (e->kind) {
	case EV_TUN_CLIENT:
		q_push(&queues[CL_TUN], e->data, e->len);
		break;
	case EV_TUN_SERVER:
		q_push(&queues[SV_TUN], e->data, e->len);
		break;
	case EV_STOP_CLIENT:
		cl_stop();
		break;
	}
	free(e->data);
}

static void
schedule(void)
{
	long steps = 0;

	while (!fibers[1].finished) {
		struct fiber *f;
		fd_set rd;
		long long t;
		int i, n, who, ev;

		if (++steps > 20000000L || clock_us > 4LL * 3600 * 1000000LL) {
			logf_("harness: scenario does not end\n");
			exit(2);
		}

		/* someone who can read now? server first */
		for (i = 0; i < 2; i++) {
			f = &fibers[i];
			if (!f->blocked)
				continue;
			n = ready_set(&f->want, f->nfds, &rd);
			if (n > 0) {
				resume(f, n, &rd);
				break;
			}
		}
		if (i < 2)
			continue;

		/* nobody: let time pass until the next timeout or event */
		who = -1;
		ev = -1;
		for (i = 0; i < 2; i++) {
			f = &fibers[i];
			if (f->blocked && f->has_deadline &&
			    (who < 0 || f->deadline < fibers[who].deadline))
				who = i;
		}
		for (i = 0; i < nevents; i++)
			if (ev < 0 || events[i].at < events[ev].at)
				ev = i;
		if (who < 0 && ev < 0) {
			logf_("harness: everybody waits for ever\n");
			exit(2);
		}
		if (ev >= 0 && who >= 0 && events[ev].at > fibers[who].deadline)
			ev = -1;	/* the timeout comes first */
		t = ev >= 0 ? events[ev].at : fibers[who].deadline;
		if (t > clock_us)
			clock_us = t;
		if (ev >= 0) {
			struct event e = events[ev];

			events[ev] = events[--nevents];
			run_event(&e);
		} else {
			resume(&fibers[who], 0, NULL);
		}
	}
}

/* ------------------------------------------------------------------ tun */

int open_tun(const char *dev);
void close_tun(int fd);
int write_tun(int fd, char *data, size_t len);
ssize_t read_tun(int fd, char *buf, size_t len);
int tun_setip(const char *ip, const char *other, int netbits);
int tun_setmtu(const unsigned mtu);

int open_tun(const char *dev) { (void) dev; return -1; }
void close_tun(int fd) { (void) fd; }
int tun_setip(const char *ip, const char *other, int netbits)
{
	(void) ip; (void) other; (void) netbits;
	return 0;
}
int tun_setmtu(const unsigned mtu) { (void) mtu; return 0; }

int
write_tun(int fd, char *data, size_t len)
{
	if (fd >= 0 && fd < NFD)
		q_push(&written[fd], data, (int) len);
	return 0;
}

ssize_t
read_tun(int fd, char *buf, size_t len)
{
	if (fd < 0 || fd >= NFD)
		return -1;
	return q_pop(&queues[fd], buf, (int) len);
}

int
tun_got(int fd, const void *pkt, int len)
{
	struct dgram *d;

	for (d = written[fd].head; d; d = d->next)
		if (d->len == len && memcmp(d->data, pkt, len) == 0)
			return 1;
	return 0;
}

int
tun_count(int fd)
{
	return written[fd].n;
}

void
tun_forget(void)
{
	q_clear(&written[CL_TUN]);
	q_clear(&written[SV_TUN]);
	q_clear(&queues[CL_TUN]);
	q_clear(&queues[SV_TUN]);
}

/* ---------------------------------------------------------------- relay */

struct relay relay;

static unsigned long rng_state = 88172645463325252UL;

static unsigned
rng(void)
{
	rng_state ^= rng_state << 13;
	rng_state ^= rng_state >> 7;
	rng_state ^= rng_state << 17;
	return (unsigned) (rng_state >> 11);
}

void
relay_clean(void)
{
	memset(&relay, 0, sizeof(relay));
	relay.types = 0x7f;
	relay.limit = 0;
	relay.edns = 1;
}

static int eff_limit[65536];	/* per query id: size limit for its answer */

static int
type_index(int t)
{
	switch (t) {
	case 10:	return 0;	/* NULL */
	case 65399:	return 1;	/* PRIVATE */
	case 16:	return 2;	/* TXT */
	case 33:	return 3;	/* SRV */
	case 15:	return 4;	/* MX */
	case 5:		return 5;	/* CNAME */
	case 1:		return 6;	/* A */
	}
	return -1;
}

/* apply one side's transformation to n bytes; returns 1 if it must be refused */
static int
xform(unsigned char *c, int n, const struct side *s, int count)
{
	int i, refuse = 0;

	for (i = 0; i < n; i++) {
		unsigned char ch = c[i];

		if (ch >= 0x80) {
			if (s->bit8 == B8_STRIP) {
				ch &= 0x7f;
				if (count)
					relay.q_hi_stripped++;
			} else if (s->bit8 == B8_REJECT) {
				refuse = 1;
			}
		}
		if (s->punct == P_PLUS && ch == '+') {
			ch = ' ';
			if (count)
				relay.q_plus_mangled++;
		}
		if (s->punct == P_UNDERSCORE && ch == '_') {
			ch = ' ';
			if (count)
				relay.q_under_mangled++;
		}
		if (isascii(ch) && isalpha(ch)) {
			unsigned char o = ch;

			switch (s->casemode) {
			case CASE_LOWER:	ch = tolower(ch); break;
			case CASE_UPPER:	ch = toupper(ch); break;
			case CASE_RANDOM:
				ch = (rng() & 1) ? toupper(ch) : tolower(ch);
				break;
			}
			if (count && o != ch)
				relay.q_case_changed++;
		}
		c[i] = ch;
	}
	return refuse;
}

/* walk an uncompressed name at p, transforming its labels; returns the
   position behind it, or -1 */
static int
xform_name(unsigned char *b, int len, int p, const struct side *s, int *refuse, int count)
{
	while (p < len) {
		int l = b[p];

		if (l == 0)
			return p + 1;
		if ((l & 0xc0) == 0xc0)
			return p + 2;
		if (p + 1 + l > len)
			return -1;
		if (s && xform(b + p + 1, l, s, count))
			*refuse = 1;
		p += 1 + l;
	}
	return -1;
}

/* an empty answer with this rcode to a question that ends at qend */
static void
error_to_client(const unsigned char *msg, int qend, int rcode)
{
	unsigned char out[600];

	if (qend > (int) sizeof(out))
		return;
	memcpy(out, msg, qend);
	out[2] = 0x80 | (msg[2] & 0x01);	/* QR, keep RD */
	out[3] = 0x80 | (rcode & 0x0f);		/* RA, rcode */
	out[4] = 0; out[5] = 1;
	out[6] = out[7] = out[8] = out[9] = out[10] = out[11] = 0;
	q_push(&queues[CL_DNS], out, qend);
}

static void
relay_query(const void *data, int len)
{
	unsigned char b[4096];
	int p, qend, type, idx, refuse = 0, has_opt, id;

	if (len < 17 || len > (int) sizeof(b))
		return;
	memcpy(b, data, len);
	relay.q_seen++;
	id = (b[0] << 8) | b[1];

	p = xform_name(b, len, 12, NULL, &refuse, 0);
	if (p < 0 || p + 4 > len)
		return;
	qend = p + 4;
	type = (b[p] << 8) | b[p + 1];
	idx = type_index(type);
	if (idx >= 0 && !(relay.types & (1u << idx))) {
		relay.q_refused++;
		error_to_client(b, qend, 4);	/* NOTIMP */
		return;
	}
	xform_name(b, len, 12, &relay.q, &refuse, 1);
	if (refuse) {
		relay.q_refused++;
		error_to_client(b, qend, 2);	/* SERVFAIL */
		return;
	}
	has_opt = (b[10] << 8 | b[11]) > 0;
	if (has_opt && !relay.edns) {
		b[10] = b[11] = 0;
		len = qend;
		has_opt = 0;
	}
	if (has_opt)
		eff_limit[id] = relay.limit;
	else
		eff_limit[id] = (relay.limit && relay.limit < 512) ? relay.limit : 512;

	q_push(&queues[SV_DNS], b, len);
}

static void
relay_answer(const void *data, int len)
{
	static unsigned char b[65536];
	int p, qend, id, an, i, refuse = 0;

	if (len < 12 || len > (int) sizeof(b))
		return;
	memcpy(b, data, len);
	relay.a_seen++;
	id = (b[0] << 8) | b[1];
	if (eff_limit[id] && len > eff_limit[id]) {
		relay.a_dropped_size++;
		return;
	}
	p = xform_name(b, len, 12, NULL, &refuse, 0);
	if (p < 0 || p + 4 > len)
		return;
	qend = p + 4;
	p = qend;
	an = (b[6] << 8) | b[7];
	for (i = 0; i < an && p < len; i++) {
		int type, rdlen, rd, e;

		p = xform_name(b, len, p, NULL, &refuse, 0);
		if (p < 0 || p + 10 > len)
			break;
		type = (b[p] << 8) | b[p + 1];
		rdlen = (b[p + 8] << 8) | b[p + 9];
		rd = p + 10;
		if (rd + rdlen > len)
			break;
		e = rd + rdlen;
		switch (type) {
		case 5:		/* CNAME */
			xform_name(b, e, rd, &relay.a, &refuse, 0);
			break;
		case 15:	/* MX */
			xform_name(b, e, rd + 2, &relay.a, &refuse, 0);
			break;
		case 33:	/* SRV */
			xform_name(b, e, rd + 6, &relay.a, &refuse, 0);
			break;
		case 16:	/* TXT */
			while (rd < e) {
				int l = b[rd];

				if (rd + 1 + l > e)
					break;
				if (xform(b + rd + 1, l, &relay.a, 0))
					refuse = 1;
				rd += 1 + l;
			}
			break;
		default:	/* NULL, PRIVATE, ...: opaque */
			break;
		}
		p = e;
	}
	if (refuse) {
		relay.a_refused++;
		error_to_client(b, qend, 2);
		return;
	}
	q_push(&queues[CL_DNS], b, len);
}

/* ------------------------------------------------------------- sockets */

ssize_t __wrap_sendto(int fd, const void *buf, size_t len, int flags,
		      const struct sockaddr *to, socklen_t tolen);
ssize_t __wrap_recvfrom(int fd, void *buf, size_t len, int flags,
			struct sockaddr *from, socklen_t *fromlen);
ssize_t __wrap_recv(int fd, void *buf, size_t len, int flags);
ssize_t __wrap_recvmsg(int fd, struct msghdr *msg, int flags);

ssize_t
__wrap_sendto(int fd, const void *buf, size_t len, int flags,
	      const struct sockaddr *to, socklen_t tolen)
{
	(void) flags; (void) to; (void) tolen;
	if (fd == CL_DNS)
		relay_query(buf, (int) len);
	else if (fd == SV_DNS)
		relay_answer(buf, (int) len);
	return (ssize_t) len;
}

static void
fake_peer(struct sockaddr *from, socklen_t *fromlen)
{
	struct sockaddr_in sin;

	if (!from || !fromlen)
		return;
	memset(&sin, 0, sizeof(sin));
	sin.sin_family = AF_INET;
	sin.sin_port = htons(5353);
	sin.sin_addr.s_addr = inet_addr("192.0.2.53");
	if (*fromlen >= sizeof(sin)) {
		memset(from, 0, *fromlen);
		memcpy(from, &sin, sizeof(sin));
		*fromlen = sizeof(sin);
	}
}

ssize_t
__wrap_recvfrom(int fd, void *buf, size_t len, int flags,
		struct sockaddr *from, socklen_t *fromlen)
{
	(void) flags;
	if (fd < 0 || fd >= NFD)
		return -1;
	fake_peer(from, fromlen);
	return q_pop(&queues[fd], buf, (int) len);
}

ssize_t
__wrap_recv(int fd, void *buf, size_t len, int flags)
{
	return __wrap_recvfrom(fd, buf, len, flags, NULL, NULL);
}

ssize_t
__wrap_recvmsg(int fd, struct msghdr *msg, int flags)
{
	socklen_t l = msg->msg_namelen;
	ssize_t r;

	(void) flags;
	if (fd < 0 || fd >= NFD || msg->msg_iovlen < 1)
		return -1;
	r = q_pop(&queues[fd], msg->msg_iov[0].iov_base,
		  (int) msg->msg_iov[0].iov_len);
	fake_peer((struct sockaddr *) msg->msg_name, &l);
	msg->msg_namelen = l;
	msg->msg_controllen = 0;
	msg->msg_flags = 0;
	return r;
}

/* ----------------------------------------------------------------- main */

int
main(int argc, char **argv)
{
	const char *logname = argc > 1 ? argv[1] : "/dev/null";

	/* the programs' own chatter goes to a file, ours to stdout */
	logfp = freopen(logname, "w", stderr);
	(void) logfp;
	setvbuf(stderr, NULL, _IONBF, 0);

	srand(12345);
	relay_clean();
	sv_setup("t.example.org", "secret");

	fiber_start(0, "iodined", sv_loop);
	fiber_start(1, "iodine", scenario);
	schedule();

	return verdict;
}
