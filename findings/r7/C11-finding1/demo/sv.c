/* The real server: src/iodined.c is compiled as part of this file (its main()
 * renamed and never called); sv_setup() does the part of main() that matters
 * here and sv_loop() runs the real tunnel() loop. */
#define main iodined_main
#include "iodined.c"
#undef main
#include "harness.h"

void
sv_setup(const char *top, const char *pw)
{
	topdomain = strdup(top);
	memset(password, 0, sizeof(password));
	strncpy(password, pw, sizeof(password) - 1);
	my_ip = inet_addr("10.0.0.1");
	netmask = 27;
	my_mtu = 1130;
	check_ip = 1;
	ns_ip = INADDR_ANY;
	bind_port = 0;
	debug = 0;
	created_users = init_users(my_ip, netmask);
	fw_query_init();
	running = 1;
}

void
sv_loop(void)
{
	struct dnsfd fds;

	fds.v4fd = SV_DNS;
	fds.v6fd = -1;
	tunnel(SV_TUN, &fds, 0, 0);
}

const char *
sv_upenc(int user)
{
	return users[user].encoder ? users[user].encoder->name : "(none)";
}

char
sv_downenc(int user)
{
	return users[user].downenc;
}

int
sv_fragsize(int user)
{
	return users[user].fragsize;
}

unsigned
sv_user_ip(int user)
{
	return users[user].tun_ip;
}
