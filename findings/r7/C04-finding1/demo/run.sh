#!/bin/sh
# usage: run.sh <source tree root>
# exit 0: property holds in the demonstrated case, 1: violated, 2: build/harness trouble
if [ $# -ne 1 ] || [ ! -f "$1/src/iodined.c" ]; then
	echo "usage: $0 <iodine source tree root>" >&2
	exit 2
fi
TREE=$(cd "$1" && pwd) || exit 2
HERE=$(cd "$(dirname "$0")" && pwd) || exit 2
SRC="$TREE/src"
WORK=$(mktemp -d) || exit 2
trap 'rm -rf "$WORK"' EXIT INT TERM

CC=${CC:-cc}
CFLAGS="-std=c99 -g -O0 -w -DLINUX -D_GNU_SOURCE -DGITREVISION=\"demo\" -I$SRC -I$HERE"

# base64u.c is generated from base64.c, exactly as src/Makefile does it
{
	echo '/* No use in editing, produced by Makefile! */'
	sed -e 's/\([Bb][Aa][Ss][Ee]64\)/\1u/g ; s/0123456789+/0123456789_/' < "$SRC/base64.c"
} > "$WORK/base64u.c" || exit 2

OBJS=""
for f in tun dns read encoding login base32 base64 base128 md5 common user fw_query; do
	$CC $CFLAGS -c "$SRC/$f.c" -o "$WORK/$f.o" >"$WORK/cc.log" 2>&1 || { cat "$WORK/cc.log"; echo "build of $f.c failed" >&2; exit 2; }
	OBJS="$OBJS $WORK/$f.o"
done
$CC $CFLAGS -c "$WORK/base64u.c" -o "$WORK/base64u.o" >"$WORK/cc.log" 2>&1 || { cat "$WORK/cc.log"; exit 2; }
OBJS="$OBJS $WORK/base64u.o"

# demo.c #includes the tree's iodined.c (main renamed) so that the server's
# static functions can be driven directly
$CC $CFLAGS -c "$HERE/demo.c" -o "$WORK/demo.o" >"$WORK/cc.log" 2>&1 || { cat "$WORK/cc.log"; echo "build of demo.c failed" >&2; exit 2; }

$CC -o "$WORK/demo" "$WORK/demo.o" $OBJS \
	-Wl,--wrap=time -Wl,--wrap=recvmsg -Wl,--wrap=sendto -Wl,--wrap=syslog \
	-Wl,--wrap=read_tun -Wl,--wrap=write_tun \
	-lz >"$WORK/cc.log" 2>&1 || { cat "$WORK/cc.log"; echo "link failed" >&2; exit 2; }

timeout 50 "$WORK/demo"
rc=$?
case $rc in
0|1) exit $rc ;;
*) echo "harness ended with status $rc" >&2; exit 2 ;;
esac
