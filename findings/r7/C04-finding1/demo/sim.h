/*
 * Simulated world for driving the real iodined code without sockets, tun
 * device, root or wall clock.
 *
 * The including file has already done
 *     #define main iodined_main
 *     #include "iodined.c"
 * so every static function and variable of the server is in scope here.
 * libc / tun calls the server makes are redirected with -Wl,--wrap=... :
 *     time, recvmsg, sendto, syslog, read_tun, write_tun
 *
 * Requests are real DNS queries built with the project's own dns_encode()
 * and build_hostname(), handed to tunnel_dns() through the wrapped recvmsg();
 * everything the server sends is recorded by the wrapped sendto().
 */

#include <stdarg.h>
#include <sys/socket.h>

#define TOPDOMAIN "t.example.org"
#define DNS_FD 7
#define TUN_FD 9

/* ---------------- clock ---------------- */
static time_t sim_now = 1700000000;

time_t __wrap_time(time_t *t);
time_t __wrap_time(time_t *t)
{
	if (t)
		*t = sim_now;
	return sim_now;
}

/* ---------------- syslog: silence ---------------- */
void __wrap_syslog(int pri, const char *fmt, ...);
void __wrap_syslog(int pri, const char *fmt, ...)
{
	(void) pri; (void) fmt;
}

/* ---------------- datagrams sent by the server ---------------- */
struct sent_dgram {
	int fd;
	struct sockaddr_in to;
	int len;
	unsigned char data[8192];
};
#define MAX_SENT 256
static struct sent_dgram sim_sent[MAX_SENT];
static int sim_nsent;

ssize_t __wrap_sendto(int fd, const void *buf, size_t len, int flags,
		      const struct sockaddr *to, socklen_t tolen);
ssize_t __wrap_sendto(int fd, const void *buf, size_t len, int flags,
		      const struct sockaddr *to, socklen_t tolen)
{
	struct sent_dgram *s;

	(void) flags; (void) tolen;
	if (sim_nsent >= MAX_SENT || len > sizeof(s->data)) {
		fprintf(stderr, "harness: sendto log overflow\n");
		exit(2);
	}
	s = &sim_sent[sim_nsent++];
	s->fd = fd;
	memset(&s->to, 0, sizeof(s->to));
	memcpy(&s->to, to, sizeof(struct sockaddr_in));
	s->len = (int) len;
	memcpy(s->data, buf, len);
	return (ssize_t) len;
}

/* ---------------- datagram the server is about to receive ---------------- */
static unsigned char sim_rx[8192];
static int sim_rxlen;
static struct sockaddr_in sim_rxfrom;

ssize_t __wrap_recvmsg(int fd, struct msghdr *msg, int flags);
ssize_t __wrap_recvmsg(int fd, struct msghdr *msg, int flags)
{
	(void) fd; (void) flags;
	memset(msg->msg_name, 0, sizeof(struct sockaddr_storage));
	memcpy(msg->msg_name, &sim_rxfrom, sizeof(sim_rxfrom));
	msg->msg_namelen = sizeof(sim_rxfrom);
	memcpy(msg->msg_iov[0].iov_base, sim_rx, sim_rxlen);
	msg->msg_controllen = 0;
	msg->msg_flags = 0;
	return sim_rxlen;
}

/* ---------------- tun device ---------------- */
static unsigned char sim_tun_in[4096];
static int sim_tun_inlen;
static int sim_tun_written;

ssize_t __wrap_read_tun(int tun_fd, char *buf, size_t len);
ssize_t __wrap_read_tun(int tun_fd, char *buf, size_t len)
{
	(void) tun_fd; (void) len;
	memcpy(buf, sim_tun_in, sim_tun_inlen);
	return sim_tun_inlen;
}

int __wrap_write_tun(int tun_fd, char *data, size_t len);
int __wrap_write_tun(int tun_fd, char *data, size_t len)
{
	(void) tun_fd; (void) data; (void) len;
	sim_tun_written++;
	return 0;
}

/* ---------------- helpers ---------------- */
static struct dnsfd sim_fds = { DNS_FD, -1 };
static unsigned short sim_next_id = 0x2000;
static unsigned short sim_cmc = 1;

static struct sockaddr_in sim_addr(const char *ip, int port)
{
	struct sockaddr_in a;

	memset(&a, 0, sizeof(a));
	a.sin_family = AF_INET;
	a.sin_port = htons(port);
	a.sin_addr.s_addr = inet_addr(ip);
	return a;
}

static int sim_same_host(const struct sockaddr_in *a, const struct sockaddr_in *b)
{
	return a->sin_family == b->sin_family &&
	       a->sin_addr.s_addr == b->sin_addr.s_addr;
}

static const char *sim_fmt(const struct sockaddr_in *a)
{
	static char buf[4][64];
	static int n;
	char *b = buf[n++ & 3];

	snprintf(b, 64, "%s:%d", inet_ntoa(a->sin_addr), ntohs(a->sin_port));
	return b;
}

static void sim_server_start(const char *server_ip, int bits)
{
	topdomain = TOPDOMAIN;
	memset(password, 0, sizeof(password));
	strcpy(password, "correct horse");
	check_ip = 1;		/* the default */
	my_mtu = 1130;
	my_ip = inet_addr(server_ip);
	netmask = bits;
	ns_ip = INADDR_ANY;
	debug = 0;
	srand(12345);
	fw_query_init();
	created_users = init_users(my_ip, netmask);
}

/* Deliver one DNS query (type NULL) for "hostname" from "from" to the server.
   Returns the index of the first datagram the server sent while handling it,
   or -1 if it sent nothing. *idp gets the query id. */
static int sim_query(const struct sockaddr_in *from, const char *hostname,
		     unsigned short *idp)
{
	struct query q;
	int before = sim_nsent;
	int len;

	memset(&q, 0, sizeof(q));
	q.type = T_NULL;
	q.id = sim_next_id++;
	if (q.id == 0)
		q.id = sim_next_id++;
	if (idp)
		*idp = q.id;
	len = dns_encode((char *) sim_rx, sizeof(sim_rx), &q, QR_QUERY,
			 hostname, strlen(hostname));
	if (len <= 0) {
		fprintf(stderr, "harness: dns_encode failed for %s\n", hostname);
		exit(2);
	}
	sim_rxlen = len;
	sim_rxfrom = *from;
	tunnel_dns(TUN_FD, DNS_FD, &sim_fds, 0);
	return sim_nsent > before ? before : -1;
}

/* Deliver a raw (non-DNS) datagram to the DNS socket. */
static int sim_raw(const struct sockaddr_in *from, const void *data, int len)
{
	int before = sim_nsent;

	memcpy(sim_rx, data, len);
	sim_rxlen = len;
	sim_rxfrom = *from;
	tunnel_dns(TUN_FD, DNS_FD, &sim_fds, 0);
	return sim_nsent > before ? before : -1;
}

/* Decode the NULL answer in a sent datagram; returns rdata length or <0 */
static int sim_answer(int idx, char *out, int outlen, unsigned short *idp)
{
	struct query q;
	int n;

	memset(&q, 0, sizeof(q));
	n = dns_decode(out, outlen, &q, QR_ANSWER,
		       (char *) sim_sent[idx].data, sim_sent[idx].len);
	if (idp)
		*idp = q.id;
	return n;
}

/* "<cmd>" + base32(data) + dots + topdomain, as the client builds it */
static void sim_b32_name(char *name, size_t namelen, char cmd,
			 const void *data, int datalen)
{
	memset(name, 0, namelen);
	name[0] = cmd;
	build_hostname(name + 1, namelen - 1, data, datalen, TOPDOMAIN,
		       &base32_ops, 255 - 1);
}

/* Version handshake; returns the userid given, stores the login seed */
static int sim_version(const struct sockaddr_in *from, int *seed)
{
	char name[512];
	char ans[4096];
	unsigned char data[6];
	int idx, n;

	data[0] = (PROTOCOL_VERSION >> 24) & 0xff;
	data[1] = (PROTOCOL_VERSION >> 16) & 0xff;
	data[2] = (PROTOCOL_VERSION >> 8) & 0xff;
	data[3] = PROTOCOL_VERSION & 0xff;
	data[4] = (sim_cmc >> 8) & 0xff;
	data[5] = sim_cmc & 0xff;
	sim_cmc++;
	sim_b32_name(name, sizeof(name), 'v', data, 6);
	idx = sim_query(from, name, NULL);
	if (idx < 0)
		return -1;
	n = sim_answer(idx, ans, sizeof(ans), NULL);
	if (n < 9 || memcmp(ans, "VACK", 4) != 0)
		return -1;
	*seed = ((ans[4] & 0xff) << 24) | ((ans[5] & 0xff) << 16) |
		((ans[6] & 0xff) << 8) | (ans[7] & 0xff);
	return ans[8] & 0xff;
}

/* Login; returns 1 if the server accepted the password */
static int sim_login(const struct sockaddr_in *from, int userid, int seed)
{
	char name[512];
	char ans[4096];
	unsigned char data[19];
	int idx, n;

	data[0] = userid;
	login_calculate((char *) data + 1, 16, password, seed);
	data[17] = (sim_cmc >> 8) & 0xff;
	data[18] = sim_cmc & 0xff;
	sim_cmc++;
	sim_b32_name(name, sizeof(name), 'l', data, 19);
	idx = sim_query(from, name, NULL);
	if (idx < 0)
		return 0;
	n = sim_answer(idx, ans, sizeof(ans), NULL);
	if (n <= 0)
		return 0;
	ans[n] = 0;
	/* "serverip-clientip-mtu-netmask" */
	return strchr(ans, '-') != NULL;
}

/* Switch the session to lazy mode ("o<user>l<cmc>"); 1 if confirmed */
static int sim_lazy(const struct sockaddr_in *from, int userid)
{
	char name[512];
	char ans[4096];
	int idx, n;

	snprintf(name, sizeof(name), "o%cl%c%c%c.%s", b32_5to8(userid),
		 b32_5to8((sim_cmc >> 10) & 31), b32_5to8((sim_cmc >> 5) & 31),
		 b32_5to8(sim_cmc & 31), TOPDOMAIN);
	sim_cmc++;
	idx = sim_query(from, name, NULL);
	if (idx < 0)
		return 0;
	n = sim_answer(idx, ans, sizeof(ans), NULL);
	return n == 4 && memcmp(ans, "Lazy", 4) == 0;
}

/* Ping; returns index of first datagram sent in response, or -1 */
static int sim_ping(const struct sockaddr_in *from, int userid,
		    unsigned short *idp)
{
	char name[512];
	unsigned char data[4];

	data[0] = userid;
	data[1] = 0;	/* acks downstream 0/0 */
	data[2] = (sim_cmc >> 8) & 0xff;
	data[3] = sim_cmc & 0xff;
	sim_cmc++;
	sim_b32_name(name, sizeof(name), 'p', data, 4);
	return sim_query(from, name, idp);
}

/* A small IPv4/ICMP-looking packet with the 4-byte tun header in front */
static int sim_ip_packet(unsigned char *buf, in_addr_t src, in_addr_t dst,
			 const char *payload)
{
	struct ip *hdr;
	int plen = strlen(payload);

	memset(buf, 0, 4 + sizeof(struct ip));
	buf[2] = 0x08;	/* ethertype IPv4 */
	buf[3] = 0x00;
	hdr = (struct ip *) (buf + 4);
	hdr->ip_v = 4;
	hdr->ip_hl = 5;
	hdr->ip_len = htons(sizeof(struct ip) + plen);
	hdr->ip_ttl = 64;
	hdr->ip_p = 1;
	hdr->ip_src.s_addr = src;
	hdr->ip_dst.s_addr = dst;
	memcpy(buf + 4 + sizeof(struct ip), payload, plen);
	return 4 + sizeof(struct ip) + plen;
}

/* A packet shows up on the server's tun device */
static int sim_tun_packet(const unsigned char *pkt, int len)
{
	int before = sim_nsent;

	memcpy(sim_tun_in, pkt, len);
	sim_tun_inlen = len;
	tunnel_tun(TUN_FD, &sim_fds);
	return sim_nsent > before ? before : -1;
}

/* Does this compressed blob inflate to exactly pkt? */
static int sim_is_payload(const void *z, int zlen, const unsigned char *pkt, int len)
{
	unsigned char out[8192];
	unsigned long outlen = sizeof(out);

	if (zlen <= 0)
		return 0;
	if (uncompress(out, &outlen, z, zlen) != Z_OK)
		return 0;
	return (int) outlen == len && memcmp(out, pkt, len) == 0;
}

/* Does sent datagram idx carry pkt, as a DNS-mode data answer (2 header
   bytes + compressed packet in NULL rdata) or as a raw-mode data datagram? */
static int sim_carries(int idx, const unsigned char *pkt, int len)
{
	struct sent_dgram *s = &sim_sent[idx];
	char ans[8192];
	int n;

	if (s->len > RAW_HDR_LEN &&
	    memcmp(s->data, raw_header, RAW_HDR_IDENT_LEN) == 0 &&
	    RAW_HDR_GET_CMD(s->data) == RAW_HDR_CMD_DATA)
		return sim_is_payload(s->data + RAW_HDR_LEN, s->len - RAW_HDR_LEN, pkt, len);

	if (s->len < (int) sizeof(HEADER) || !(s->data[2] & 0x80))
		return 0;
	n = sim_answer(idx, ans, sizeof(ans), NULL);
	if (n <= 2)
		return 0;
	return sim_is_payload(ans + 2, n - 2, pkt, len);
}
