/*
 * C04 / finding on the UNCHANGED tree: tunnel_tun() routes every frame read
 * from the tun device by the four octets at offset 16 of the packet - the
 * IPv4 destination field - without looking at the frame's protocol (ethertype
 * in the 4-byte tun header) or the IP version nibble. In an IPv6 packet those
 * four octets are octets 8..11 of the SOURCE address. An IPv6 frame that is
 * not addressed to any tunnel address is therefore delivered to the session
 * whose tunnel address happens to equal them, instead of being dropped.
 *
 * exit 0: frame dropped (property holds), 1: frame delivered to a session,
 * 2: harness trouble
 */
#define main iodined_main
#include "iodined.c"
#undef main

#include "sim.h"

static void trouble(const char *what)
{
	printf("HARNESS TROUBLE: %s\n", what);
	exit(2);
}

int main(void)
{
	struct sockaddr_in a = sim_addr("192.0.2.10", 40000);
	unsigned char frame[4 + 40 + 8];
	unsigned char *ip6 = frame + 4;
	int seed, ua, mark, i, hits = 0;

	sim_server_start("10.9.0.1", 27);
	ua = sim_version(&a, &seed);
	if (ua != 0 || !sim_login(&a, ua, seed))
		trouble("handshake failed");
	if (!sim_lazy(&a, ua))
		trouble("lazy mode refused");
	sim_ping(&a, ua, NULL);		/* held by the server */
	printf("session A: user 0, %s, tunnel address 10.9.0.2 (0a 09 00 02)\n",
	       sim_fmt(&a));

	/* ICMPv6 router solicitation fe80::a09:2:0:1 -> ff02::2, as the
	   server host itself emits on its tun interface when IPv6 is enabled */
	memset(frame, 0, sizeof(frame));
	frame[2] = 0x86; frame[3] = 0xdd;		/* tun header: IPv6 */
	ip6[0] = 0x60;					/* version 6 */
	ip6[5] = 8;					/* payload length */
	ip6[6] = 58;					/* ICMPv6 */
	ip6[7] = 255;
	ip6[8] = 0xfe; ip6[9] = 0x80;			/* src fe80:: */
	ip6[16] = 0x0a; ip6[17] = 0x09; ip6[18] = 0x00; ip6[19] = 0x02;
	ip6[23] = 0x01;
	ip6[24] = 0xff; ip6[25] = 0x02; ip6[39] = 0x02;	/* dst ff02::2 */
	ip6[40] = 133;					/* router solicitation */

	mark = sim_nsent;
	sim_tun_packet(frame, sizeof(frame));
	sim_now++;
	sim_ping(&a, ua, NULL);

	for (i = mark; i < sim_nsent; i++)
		if (sim_carries(i, frame, sizeof(frame))) {
			hits++;
			printf("  datagram #%d to %s carries the IPv6 frame\n", i,
			       sim_fmt(&sim_sent[i].to));
		}

	if (hits) {
		printf("VIOLATED: an IPv6 frame from tun (fe80::a09:2:0:1 -> ff02::2), "
		       "addressed to no tunnel address, was sent to session A because "
		       "octets 8..11 of its source address equal 10.9.0.2\n");
		return 1;
	}
	printf("OK: the IPv6 frame was dropped\n");
	return 0;
}
