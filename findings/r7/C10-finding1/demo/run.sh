#!/bin/sh
# usage: run.sh <source tree root>
# exit 0: property holds in the demonstrated case, 1: violated, 2: build/harness trouble
TREE="$1"
if [ -z "$TREE" ] || [ ! -f "$TREE/src/iodined.c" ]; then
	echo "usage: $0 <iodine source tree root>" >&2
	exit 2
fi
TREE=$(cd "$TREE" && pwd)
HERE=$(cd "$(dirname "$0")" && pwd)
WORK=$(mktemp -d) || exit 2
trap 'rm -rf "$WORK"' EXIT INT TERM

# private copy of the sources; nothing is written into the tree
mkdir "$WORK/src" || exit 2
cp "$TREE"/src/*.c "$TREE"/src/*.h "$WORK/src/" || exit 2
# base64u.c is generated from base64.c, exactly as src/Makefile does
{ echo '/* No use in editing, produced by Makefile! */'
  sed -e 's/\([Bb][Aa][Ss][Ee]64\)/\1u/g ; s/0123456789+/0123456789_/' < "$WORK/src/base64.c"
} > "$WORK/src/base64u.c" || exit 2
cp "$HERE/harness.c" "$HERE/srvsim.h" "$HERE/dnscheck.h" "$WORK/" || exit 2

CC=${CC:-cc}
CFLAGS="-std=c99 -g -O0 -w -D_GNU_SOURCE -DLINUX -DGITREVISION=\"demo\" -I$WORK/src -I$WORK"
cd "$WORK" || exit 2
OBJS=""
for f in tun dns read encoding login base32 base64 base64u base128 md5 common user fw_query; do
	$CC $CFLAGS -c "src/$f.c" -o "$f.o" 2> "cc.$f.log" || { cat "cc.$f.log" >&2; echo "build failed: $f.c" >&2; exit 2; }
	OBJS="$OBJS $f.o"
done
$CC $CFLAGS -c harness.c -o harness.o 2> cc.harness.log || { cat cc.harness.log >&2; echo "build failed: harness.c" >&2; exit 2; }
$CC harness.o $OBJS -o harness -Wl,--wrap=recvmsg -Wl,--wrap=sendto -lz 2> ld.log || { cat ld.log >&2; echo "link failed" >&2; exit 2; }

./harness
rc=$?
case $rc in
	0|1) exit $rc ;;
	*) echo "harness ended with status $rc" >&2; exit 2 ;;
esac
