/*
 * Drives the real iodined code without sockets: iodined.c is #included (its
 * main() renamed), recvmsg() and sendto() are replaced at link time with
 * -Wl,--wrap. Queries are built here by hand (not with iodine's encoder),
 * every datagram the server passes to sendto() is recorded.
 */
#ifndef SRVSIM_H
#define SRVSIM_H

#define main iodined_main
#include "iodined.c"
#undef main

#include "dnscheck.h"

/* ---- datagram waiting to be "received" ---- */
static unsigned char sim_in[4096];
static int sim_inlen;
static struct sockaddr_storage sim_from;
static socklen_t sim_fromlen;
static struct sockaddr_storage sim_local;	/* address the query was sent to */

/* ---- datagrams the server sent ---- */
#define SIM_MAXOUT 64
static struct sim_out {
	unsigned char data[65536];
	int len;
	struct sockaddr_storage to;
} sim_out[SIM_MAXOUT];
static int sim_nout;

/* ---- queries fed so far, for the echo check ---- */
#define SIM_MAXQ 256
static struct sim_q {
	unsigned id;
	unsigned type;
	unsigned char name[256];
	int namelen;
} sim_q[SIM_MAXQ];
static int sim_nq;

ssize_t __wrap_recvmsg(int fd, struct msghdr *msg, int flags);
ssize_t __wrap_sendto(int fd, const void *buf, size_t len, int flags,
		      const struct sockaddr *to, socklen_t tolen);

ssize_t __wrap_recvmsg(int fd, struct msghdr *msg, int flags)
{
	struct cmsghdr *cmsg;
	int n = sim_inlen;

	(void) fd; (void) flags;
	if (n <= 0)
		return -1;
	memcpy(msg->msg_iov[0].iov_base, sim_in, n);
	memcpy(msg->msg_name, &sim_from, sim_fromlen);
	msg->msg_namelen = sim_fromlen;

	/* what the kernel delivers with IP_PKTINFO / IPV6_RECVPKTINFO set */
	cmsg = CMSG_FIRSTHDR(msg);
	if (sim_local.ss_family == AF_INET) {
		struct in_pktinfo pi;
		memset(&pi, 0, sizeof(pi));
		pi.ipi_addr = ((struct sockaddr_in *) &sim_local)->sin_addr;
		pi.ipi_spec_dst = pi.ipi_addr;
		cmsg->cmsg_level = IPPROTO_IP;
		cmsg->cmsg_type = IP_PKTINFO;
		cmsg->cmsg_len = CMSG_LEN(sizeof(pi));
		memcpy(CMSG_DATA(cmsg), &pi, sizeof(pi));
		msg->msg_controllen = CMSG_SPACE(sizeof(pi));
	} else {
		struct in6_pktinfo pi;
		memset(&pi, 0, sizeof(pi));
		pi.ipi6_addr = ((struct sockaddr_in6 *) &sim_local)->sin6_addr;
		cmsg->cmsg_level = IPPROTO_IPV6;
		cmsg->cmsg_type = IPV6_PKTINFO;
		cmsg->cmsg_len = CMSG_LEN(sizeof(pi));
		memcpy(CMSG_DATA(cmsg), &pi, sizeof(pi));
		msg->msg_controllen = CMSG_SPACE(sizeof(pi));
	}
	sim_inlen = 0;
	return n;
}

ssize_t __wrap_sendto(int fd, const void *buf, size_t len, int flags,
		      const struct sockaddr *to, socklen_t tolen)
{
	(void) fd; (void) flags;
	if (sim_nout < SIM_MAXOUT && len <= sizeof(sim_out[0].data)) {
		memcpy(sim_out[sim_nout].data, buf, len);
		sim_out[sim_nout].len = len;
		memset(&sim_out[sim_nout].to, 0, sizeof(sim_out[0].to));
		memcpy(&sim_out[sim_nout].to, to, tolen);
		sim_nout++;
	}
	return len;
}

static void sim_addr4(struct sockaddr_storage *ss, const char *ip, int port)
{
	struct sockaddr_in *a = (struct sockaddr_in *) ss;
	memset(ss, 0, sizeof(*ss));
	a->sin_family = AF_INET;
	a->sin_port = htons(port);
	inet_pton(AF_INET, ip, &a->sin_addr);
}

static void sim_addr6(struct sockaddr_storage *ss, const char *ip, int port)
{
	struct sockaddr_in6 *a = (struct sockaddr_in6 *) ss;
	memset(ss, 0, sizeof(*ss));
	a->sin6_family = AF_INET6;
	a->sin6_port = htons(port);
	inet_pton(AF_INET6, ip, &a->sin6_addr);
}

/* Hand-made query: header, one question, optionally an EDNS0 OPT record.
   name is dotted, namelen octets long (octets may be anything but '.'). */
static int sim_mkquery(unsigned char *pkt, unsigned id, const unsigned char *name,
		       int namelen, unsigned type, int edns)
{
	int o = 0, i = 0;

	pkt[o++] = id >> 8; pkt[o++] = id & 0xff;
	pkt[o++] = 0x01; pkt[o++] = 0x00;		/* RD */
	pkt[o++] = 0; pkt[o++] = 1;			/* QDCOUNT */
	pkt[o++] = 0; pkt[o++] = 0;
	pkt[o++] = 0; pkt[o++] = 0;
	pkt[o++] = 0; pkt[o++] = edns ? 1 : 0;	/* ARCOUNT */
	while (i < namelen) {
		int j = i;
		while (j < namelen && name[j] != '.')
			j++;
		pkt[o++] = j - i;
		memcpy(pkt + o, name + i, j - i);
		o += j - i;
		i = j + 1;
	}
	pkt[o++] = 0;
	pkt[o++] = type >> 8; pkt[o++] = type & 0xff;
	pkt[o++] = 0; pkt[o++] = 1;			/* IN */
	if (edns) {
		static const unsigned char opt[11] =
			{ 0, 0, 41, 0x10, 0, 0, 0, 0x80, 0, 0, 0 };
		memcpy(pkt + o, opt, sizeof(opt));
		o += sizeof(opt);
	}
	return o;
}

/* Queue one query and let the server's tunnel_dns() handle it. */
static void sim_feed(struct dnsfd *fds, unsigned id, const unsigned char *name,
		     int namelen, unsigned type,
		     const struct sockaddr_storage *from, const struct sockaddr_storage *local)
{
	int fd;

	sim_inlen = sim_mkquery(sim_in, id, name, namelen, type, 1);
	sim_from = *from;
	sim_fromlen = (from->ss_family == AF_INET) ? sizeof(struct sockaddr_in)
						    : sizeof(struct sockaddr_in6);
	sim_local = *local;

	if (sim_nq < SIM_MAXQ) {
		sim_q[sim_nq].id = id;
		sim_q[sim_nq].type = type;
		memcpy(sim_q[sim_nq].name, name, namelen);
		sim_q[sim_nq].namelen = namelen;
		sim_nq++;
	}
	fd = (from->ss_family == AF_INET) ? fds->v4fd : fds->v6fd;
	tunnel_dns(-1, fd, fds, 0);
}

static void sim_printname(const unsigned char *n, int len)
{
	int i;
	for (i = 0; i < len; i++)
		if (n[i] >= 0x21 && n[i] < 0x7f)
			putchar(n[i]);
		else
			printf("\\%03o", n[i]);
}

/* Checks datagrams [first, sim_nout): well-formed, and an answer that
   repeats id, name (octet for octet) and type of one of the queries fed.
   Returns the number of violations and prints one line for each. */
static int sim_check_from(int first)
{
	int bad = 0;
	int i, k;

	for (i = first; i < sim_nout; i++) {
		struct dnsck_info inf;

		if (dnsck_parse(sim_out[i].data, sim_out[i].len, &inf)) {
			printf("VIOLATION: datagram %d (%d octets, id %u) is not a well-formed DNS message: %s\n",
			       i, sim_out[i].len, inf.id, inf.err);
			bad++;
			continue;
		}
		if (!inf.qr || inf.qdcount != 1) {
			printf("VIOLATION: datagram %d is not an answer with one question\n", i);
			bad++;
			continue;
		}
		for (k = 0; k < sim_nq; k++)
			if (sim_q[k].id == inf.id && sim_q[k].type == inf.qtype &&
			    sim_q[k].namelen == inf.qnamelen &&
			    !memcmp(sim_q[k].name, inf.qname, inf.qnamelen))
				break;
		if (k == sim_nq) {
			printf("VIOLATION: datagram %d answers id %u type %u name ", i, inf.id, inf.qtype);
			sim_printname(inf.qname, inf.qnamelen);
			printf(" but no query with this id, name and type was ever received\n");
			for (k = 0; k < sim_nq; k++)
				if (sim_q[k].id == inf.id) {
					printf("           (the query with id %u asked for ", inf.id);
					sim_printname(sim_q[k].name, sim_q[k].namelen);
					printf(")\n");
				}
			bad++;
		}
	}
	return bad;
}

static void sim_server_init(const char *domain)
{
	topdomain = strdup(domain);
	my_ip = inet_addr("10.9.0.1");
	netmask = 27;
	my_mtu = 1130;
	check_ip = 1;
	ns_ip = INADDR_ANY;
	bind_port = 0;
	debug = 0;
	strcpy(password, "secret");
	created_users = init_users(my_ip, netmask);
	fw_query_init();
	srand(1);
}

#endif
