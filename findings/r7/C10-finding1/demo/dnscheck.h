/*
 * Independent, strict RFC 1035 message checker used by the demonstrations.
 * It shares no code with iodine.
 *
 *   dnsck_parse(msg, len, &info)  -> 0 if well-formed, -1 otherwise
 *                                    (info.err says what is wrong)
 *
 * Checked: header present; every name has labels of 1..63 octets and at most
 * 255 octets in total; compression pointers point backwards to the start of
 * a label that was parsed before; every RDLENGTH stays inside the message
 * and is used up exactly by the typed RDATA (names for CNAME/NS/MX/SRV,
 * 4 octets for A, length-prefixed strings for TXT, root owner for OPT);
 * the section counts equal the records present, i.e. the last record ends
 * exactly at the end of the datagram.
 */
#ifndef DNSCK_H
#define DNSCK_H

#include <stdio.h>
#include <string.h>
#include <stdarg.h>

#define DNSCK_MAXNAME 256

struct dnsck_info {
	unsigned id;
	int qr;
	unsigned qdcount, ancount, nscount, arcount;
	/* first question */
	unsigned char qname[DNSCK_MAXNAME];	/* labels joined with '.', raw octets */
	int qnamelen;
	unsigned qtype;
	unsigned qclass;
	/* first answer; for NS and CNAME also the name in its RDATA */
	unsigned antype;
	unsigned char anname[DNSCK_MAXNAME];
	int annamelen;
	char err[300];
};

struct dnsck_state {
	const unsigned char *m;
	int len;
	unsigned char labelstart[65536];
	struct dnsck_info *info;
};

static int dnsck_fail(struct dnsck_state *s, const char *fmt, ...)
{
	va_list ap;
	va_start(ap, fmt);
	vsnprintf(s->info->err, sizeof(s->info->err), fmt, ap);
	va_end(ap);
	return -1;
}

/* Parses the name at *off. Writes the dotted form (raw octets) to out (may
   be NULL). Advances *off behind the name as it is stored at that place. */
static int dnsck_name(struct dnsck_state *s, int *off, unsigned char *out, int *outlen, const char *what)
{
	int pos = *off;
	int after = -1;		/* where parsing continues, set at first pointer */
	int wire = 0;		/* octets of the uncompressed name */
	int hops = 0;
	int olen = 0;

	for (;;) {
		unsigned b;

		if (pos >= s->len)
			return dnsck_fail(s, "%s: name runs past the end of the message (offset %d)", what, pos);
		b = s->m[pos];
		if (b == 0) {
			s->labelstart[pos] = 1;
			wire += 1;
			pos++;
			break;
		}
		if ((b & 0xc0) == 0xc0) {
			int target;

			if (pos + 1 >= s->len)
				return dnsck_fail(s, "%s: compression pointer cut off at offset %d", what, pos);
			target = ((b & 0x3f) << 8) | s->m[pos + 1];
			if (target >= pos)
				return dnsck_fail(s, "%s: compression pointer at offset %d points forwards (to %d)", what, pos, target);
			if (!s->labelstart[target])
				return dnsck_fail(s, "%s: compression pointer at offset %d points to offset %d, which is not the start of a label", what, pos, target);
			if (++hops > 64)
				return dnsck_fail(s, "%s: compression pointer loop", what);
			if (after < 0)
				after = pos + 2;
			pos = target;
			continue;
		}
		if (b & 0xc0)
			return dnsck_fail(s, "%s: label type 0x%02x at offset %d is not a length", what, b, pos);
		/* ordinary label, 1..63 */
		if (pos + 1 + (int) b > s->len)
			return dnsck_fail(s, "%s: label of %u octets at offset %d runs past the end of the message", what, b, pos);
		s->labelstart[pos] = 1;
		wire += 1 + b;
		if (wire + 1 > 255)
			return dnsck_fail(s, "%s: name is longer than 255 octets", what);
		if (out) {
			if (olen)
				out[olen++] = '.';
			memcpy(out + olen, s->m + pos + 1, b);
			olen += b;
		}
		pos += 1 + b;
	}
	if (after < 0)
		after = pos;
	*off = after;
	if (outlen)
		*outlen = olen;
	return 0;
}

static int dnsck_u16(struct dnsck_state *s, int off)
{
	return (s->m[off] << 8) | s->m[off + 1];
}

static int dnsck_rr(struct dnsck_state *s, int *off, const char *section, int idx, unsigned *typeout)
{
	char what[64];
	unsigned type, rdlen;
	int rdstart, rdend, p;
	int ownerstart = *off;

	snprintf(what, sizeof(what), "%s record %d", section, idx);
	if (*off >= s->len)
		return dnsck_fail(s, "%s is missing: the header counts more records than the message holds", what);
	if (dnsck_name(s, off, NULL, NULL, what))
		return -1;
	if (*off + 10 > s->len)
		return dnsck_fail(s, "%s: fixed part cut off", what);
	type = dnsck_u16(s, *off);
	rdlen = dnsck_u16(s, *off + 8);
	rdstart = *off + 10;
	rdend = rdstart + rdlen;
	if (typeout)
		*typeout = type;
	if (rdend > s->len)
		return dnsck_fail(s, "%s: RDLENGTH %u runs past the end of the message", what, rdlen);
	p = rdstart;
	switch (type) {
	case 1: /* A */
		if (rdlen != 4)
			return dnsck_fail(s, "%s: A record with RDLENGTH %u", what, rdlen);
		break;
	case 2: /* NS */
	case 5: /* CNAME */
	case 12: /* PTR */
		if (rdlen == 0)
			return dnsck_fail(s, "%s: RDLENGTH 0, no name in RDATA", what);
		if (dnsck_name(s, &p, typeout ? s->info->anname : NULL,
			       typeout ? &s->info->annamelen : NULL, what))
			return -1;
		if (p != rdend)
			return dnsck_fail(s, "%s: RDLENGTH %u but the name in RDATA takes %d octets", what, rdlen, p - rdstart);
		break;
	case 15: /* MX */
		if (rdlen < 3)
			return dnsck_fail(s, "%s: MX RDATA too short (%u)", what, rdlen);
		p += 2;
		if (dnsck_name(s, &p, NULL, NULL, what))
			return -1;
		if (p != rdend)
			return dnsck_fail(s, "%s: RDLENGTH %u but MX RDATA takes %d octets", what, rdlen, p - rdstart);
		break;
	case 33: /* SRV */
		if (rdlen < 7)
			return dnsck_fail(s, "%s: SRV RDATA too short (%u)", what, rdlen);
		p += 6;
		if (dnsck_name(s, &p, NULL, NULL, what))
			return -1;
		if (p != rdend)
			return dnsck_fail(s, "%s: RDLENGTH %u but SRV RDATA takes %d octets", what, rdlen, p - rdstart);
		break;
	case 16: /* TXT */
		if (rdlen == 0)
			return dnsck_fail(s, "%s: TXT without any string", what);
		while (p < rdend) {
			unsigned l = s->m[p];
			if (p + 1 + (int) l > rdend)
				return dnsck_fail(s, "%s: TXT string of %u octets at offset %d overruns RDLENGTH", what, l, p);
			p += 1 + l;
		}
		break;
	case 41: /* OPT */
		if (s->m[ownerstart] != 0)
			return dnsck_fail(s, "%s: OPT owner is not the root", what);
		while (p < rdend) {
			if (p + 4 > rdend)
				return dnsck_fail(s, "%s: OPT option header cut off", what);
			p += 4 + dnsck_u16(s, p + 2);
		}
		if (p != rdend)
			return dnsck_fail(s, "%s: OPT options overrun RDLENGTH", what);
		break;
	default:
		break;
	}
	*off = rdend;
	return 0;
}

static int dnsck_parse(const void *msg, int len, struct dnsck_info *info)
{
	static struct dnsck_state st;
	struct dnsck_state *s = &st;
	int off;
	unsigned i;

	memset(info, 0, sizeof(*info));
	memset(s->labelstart, 0, sizeof(s->labelstart));
	s->m = msg;
	s->len = len;
	s->info = info;

	if (len < 12)
		return dnsck_fail(s, "shorter than a DNS header (%d octets)", len);
	if (len > 65535)
		return dnsck_fail(s, "longer than 65535 octets");
	info->id = dnsck_u16(s, 0);
	info->qr = (s->m[2] >> 7) & 1;
	info->qdcount = dnsck_u16(s, 4);
	info->ancount = dnsck_u16(s, 6);
	info->nscount = dnsck_u16(s, 8);
	info->arcount = dnsck_u16(s, 10);
	off = 12;

	for (i = 0; i < info->qdcount; i++) {
		unsigned char nm[DNSCK_MAXNAME];
		int nl = 0;

		if (off >= len)
			return dnsck_fail(s, "question %u is missing", i);
		if (dnsck_name(s, &off, nm, &nl, "question"))
			return -1;
		if (off + 4 > len)
			return dnsck_fail(s, "question %u: type/class cut off", i);
		if (i == 0) {
			memcpy(info->qname, nm, nl);
			info->qnamelen = nl;
			info->qtype = dnsck_u16(s, off);
			info->qclass = dnsck_u16(s, off + 2);
		}
		off += 4;
	}
	for (i = 0; i < info->ancount; i++) {
		unsigned t;
		if (dnsck_rr(s, &off, "answer", i, i == 0 ? &t : NULL))
			return -1;
		if (i == 0)
			info->antype = t;
	}
	for (i = 0; i < info->nscount; i++)
		if (dnsck_rr(s, &off, "authority", i, NULL))
			return -1;
	for (i = 0; i < info->arcount; i++)
		if (dnsck_rr(s, &off, "additional", i, NULL))
			return -1;
	if (off != len)
		return dnsck_fail(s, "%d octets left over behind the last record the header counts", len - off);
	return 0;
}

#endif
