/*
 * Queries whose QNAME carries a length octet of 64..127 (top bits 01, a
 * label type RFC 1035 reserves; it is not a legal length). iodined's
 * readname() takes the octet for the length of a long label, putname()
 * later refuses labels of more than 63 octets - and the callers ignore that:
 * the reply goes out without the name.
 *
 * exit 0: every reply sent is well-formed, 1: a malformed reply was sent
 */
#include "srvsim.h"

int main(void)
{
	struct sockaddr_storage from4, local4;
	struct dnsfd fds;
	unsigned char name[256];
	int len, bad = 0, first;

	sim_server_init("t.example.com");
	fds.v4fd = 3;
	fds.v6fd = -1;
	sim_addr4(&from4, "192.0.2.7", 40000);
	sim_addr4(&local4, "192.0.2.1", 53);

	/* control: a 63-octet label is legal and is echoed */
	memset(name, 'a', 63);
	len = 63 + snprintf((char *) name + 63, sizeof(name) - 63, ".t.example.com");
	first = sim_nout;
	sim_feed(&fds, 0x1001, name, len, T_NS, &from4, &local4);
	printf("-- NS query with a 63-octet label: %d reply\n", sim_nout - first);
	bad += sim_check_from(first);

	/* length octet 70 = 0x46 */
	memset(name, 'a', 70);
	len = 70 + snprintf((char *) name + 70, sizeof(name) - 70, ".t.example.com");
	first = sim_nout;
	sim_feed(&fds, 0x1002, name, len, T_NS, &from4, &local4);
	printf("-- NS query with length octet 0x46 in the name: %d reply\n", sim_nout - first);
	bad += sim_check_from(first);

	/* the same in a tunnel query ('z' = echo test, needs no login) */
	memset(name, 'a', 70);
	name[0] = 'z';
	first = sim_nout;
	sim_feed(&fds, 0x1003, name, len, T_NULL, &from4, &local4);
	printf("-- NULL 'z' query with length octet 0x46 in the name: %d reply\n", sim_nout - first);
	bad += sim_check_from(first);

	first = sim_nout;
	sim_feed(&fds, 0x1004, name, len, T_CNAME, &from4, &local4);
	printf("-- CNAME 'z' query with length octet 0x46 in the name: %d reply\n", sim_nout - first);
	bad += sim_check_from(first);

	if (bad) {
		printf("RESULT: %d malformed repl(y/ies) sent\n", bad);
		return 1;
	}
	printf("RESULT: nothing malformed was sent\n");
	return 0;
}
