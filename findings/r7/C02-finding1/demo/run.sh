#!/bin/sh
# usage: run.sh <source tree root>
# Builds the real iodine client and server from <tree>/src together with the
# simulator in this directory (in a temporary directory, the tree is not
# written to), runs the scenario of scenario.c and reports:
#   exit 0  property held     exit 1  property violated     exit 2  trouble
# SIM_TRACE=1 in the environment shows every datagram and tun event on stderr.

HERE=$(cd "$(dirname "$0")" && pwd)
TREE=$1
if [ -z "$TREE" ] || [ ! -f "$TREE/src/iodined.c" ] || [ ! -f "$TREE/src/client.c" ]; then
	echo "usage: $0 <source tree root>" >&2
	exit 2
fi
SRC=$(cd "$TREE/src" && pwd)

T=$(mktemp -d) || exit 2
trap 'rm -rf "$T"' EXIT INT TERM

CC=${CC:-cc}
CFLAGS="-std=gnu99 -g -O0 -w -DLINUX -DGITREVISION=\"sim\" -D_GNU_SOURCE -U_FORTIFY_SOURCE -I$SRC -I$HERE"

# base64u.c is generated from base64.c by src/Makefile; same recipe here
{
	echo '/* generated */'
	sed -e 's/\([Bb][Aa][Ss][Ee]64\)/\1u/g ; s/0123456789+/0123456789_/' < "$SRC/base64.c"
} > "$T/base64u.c" || exit 2

for f in tun dns read encoding login base32 base64 base128 md5 common client user fw_query; do
	$CC $CFLAGS -c "$SRC/$f.c" -o "$T/$f.o" 2> "$T/cc.log" || { cat "$T/cc.log"; echo "build failed: $f.c"; exit 2; }
done
$CC $CFLAGS -c "$T/base64u.c" -o "$T/base64u.o" 2> "$T/cc.log" || { cat "$T/cc.log"; echo "build failed: base64u.c"; exit 2; }
for f in srv_glue sim scenario; do
	$CC $CFLAGS -c "$HERE/$f.c" -o "$T/$f.o" 2> "$T/cc.log" || { cat "$T/cc.log"; echo "build failed: $f.c"; exit 2; }
done

WRAP="-Wl,--wrap=select -Wl,--wrap=sendto -Wl,--wrap=recvfrom -Wl,--wrap=recvmsg"
WRAP="$WRAP -Wl,--wrap=read -Wl,--wrap=write -Wl,--wrap=time -Wl,--wrap=sleep"
WRAP="$WRAP -Wl,--wrap=syslog -Wl,--wrap=tun_setip -Wl,--wrap=tun_setmtu"

$CC -o "$T/sim" "$T"/*.o $WRAP -lz 2> "$T/cc.log" || { cat "$T/cc.log"; echo "link failed"; exit 2; }

if [ -n "$SIM_TRACE" ]; then
	timeout 55 "$T/sim"
else
	timeout 55 "$T/sim" 2> "$T/stderr.log"
fi
rc=$?
case $rc in
0|1)	exit $rc ;;
*)	echo "simulator ended with status $rc"
	[ -f "$T/stderr.log" ] && tail -20 "$T/stderr.log"
	exit 2 ;;
esac
