/* The whole of src/iodined.c, unchanged, with its main() set aside: the
 * simulator sets the few globals that main() would have set from the command
 * line "iodined -f -P secret 10.0.0.1/27 t.example" and then calls the real
 * tunnel() select loop. */
#define main iodined_main_unused
#include "iodined.c"
#undef main

void sim_server_main(int tun_fd, int dns_fd);

void sim_server_main(int tun_fd, int dns_fd)
{
	struct dnsfd fds;

	(void) iodined_main_unused;

	topdomain = strdup("t.example");
	strncpy(password, "secret", sizeof(password) - 1);
	my_ip = inet_addr("10.0.0.1");
	netmask = 27;
	my_mtu = 1130;
	check_ip = 1;
	ns_ip = INADDR_ANY;
	debug = getenv("SIM_SERVER_DEBUG") ? atoi(getenv("SIM_SERVER_DEBUG")) : 0;
	running = 1;

	fw_query_init();
	created_users = init_users(my_ip, netmask);

	fds.v4fd = dns_fd;
	fds.v6fd = -1;

	tunnel(tun_fd, &fds, 0, 0);
}
