/* Scenario for the finding (the same run as for m1, judged strictly):
 * ONE downstream datagram is duplicated and its second copy
 * arrives three seconds late; everything else is delivered intact and
 * promptly.  Then the tunnel has to carry packets in both directions again.
 *
 *  t=20.0 .. 22.5  six small packets #1..#6 for the client arrive on the
 *                  server's tun device, half a second apart (downstream
 *                  seqnos 1..6).  The reply that carries #1 is duplicated by
 *                  the path; the copy is held back.
 *  t=23.0          the held copy arrives at the client (the only fault); its
 *                  DNS id is still among the last 16 the client sent, its
 *                  seqno 1 is five behind, which the client takes for new.
 *  t=24.0          a large packet #7 (four downstream fragments at -m 200)
 *  t=25.0 ...      one small packet per second in each direction
 *                  (#8, #9, ... downstream, #101, #102, ... upstream)
 *
 * Verdict (strict reading): everything that is offered half a second or more
 * after the last fault has to come out at the other end exactly once, in order
 * and within 5 s.
 */
#include <stdio.h>
#include <string.h>
#include "sim.h"

const char *scenario_qtype = "NULL";
int scenario_lazy = 1;
int scenario_fragsize = 200;
int scenario_interval = 4;
int scenario_maxlen = 255;
usec_t scenario_end = 75 * USEC;

#define T_FIRST		(20 * USEC)
#define T_LATECOPY	(23 * USEC)
#define T_BIG		(24 * USEC)
#define T_STEADY	(25 * USEC)
#define T_LASTOFFER	(65 * USEC)
#define T_JUDGE_FROM	(T_LATECOPY + USEC / 2)
#define MAX_TRANSIT	(5 * USEC)

#define SMALL 40
#define BIG 600

static int step;
static int dup_armed;
static int dup_done;
#define FIRST_STEADY 8
static int next_down = FIRST_STEADY, next_up = 101;

int scenario_net(int dir, const unsigned char *buf, int len, usec_t *delays, int max)
{
	(void) buf; (void) max;
	delays[0] = LATENCY;
	if (dir == TO_CLIENT && dup_armed && !dup_done && len >= 100) {
		/* the answer that carries packet #1: a second copy turns up
		   at T_LATECOPY */
		dup_done = 1;
		delays[1] = T_LATECOPY - sim_now();
		return 2;
	}
	return 1;
}

usec_t scenario_tick(usec_t now)
{
	if (step == 0) {
		int i;

		if (now < T_FIRST - USEC)
			return T_FIRST - USEC;
		if (!sim_handshake_done()) {
			printf("HARNESS TROUBLE: handshake not finished in time\n");
			return NEVER;
		}
		dup_armed = 1;
		for (i = 0; i < 6; i++)
			sim_offer(SERVER, 1 + i, SMALL, T_FIRST + i * USEC / 2);
		sim_offer(SERVER, 7, BIG, T_BIG);
		step = 1;
		return T_STEADY;
	}
	if (step == 1) {
		usec_t t;

		if (now < T_STEADY)
			return T_STEADY;
		for (t = T_STEADY; t <= T_LASTOFFER; t += USEC) {
			sim_offer(SERVER, next_down++, SMALL, t);
			sim_offer(CLIENT, next_up++, SMALL, t + USEC / 2);
		}
		step = 2;
	}
	return NEVER;
}

/* Packets 'side' accepted at or after T_JUDGE_FROM (and early enough to be
   through before the end) must appear in the other side's deliveries exactly
   once, in order, in time. */
static int judge(int side, const char *name)
{
	int other = !side;
	int i, j, bad = 0, judged = 0;
	int lastpos = -1;

	for (i = 0; i < sim_accepted_count(side); i++) {
		int id = sim_accepted_id(side, i);
		usec_t t = sim_accepted_time(side, i);
		int hits = 0, pos = -1;

		if (t < T_JUDGE_FROM || t > scenario_end - MAX_TRANSIT)
			continue;
		judged++;
		for (j = 0; j < sim_delivered_count(other); j++)
			if (sim_delivered_id(other, j) == id) {
				hits++;
				pos = j;
			}
		if (hits == 0) {
			if (!bad)
				printf("VIOLATED: %s packet #%d, accepted from tun at t=%.3f s "
				       "(%.1f s after the last fault), was never delivered\n",
				       name, id, t / 1e6, (t - T_LATECOPY) / 1e6);
			bad++;
		} else if (hits > 1) {
			printf("VIOLATED: %s packet #%d delivered %d times\n", name, id, hits);
			bad++;
		} else {
			if (pos < lastpos) {
				printf("VIOLATED: %s packet #%d delivered out of order\n", name, id);
				bad++;
			}
			lastpos = pos;
			if (sim_delivered_time(other, pos) - t > MAX_TRANSIT) {
				printf("VIOLATED: %s packet #%d took %.1f s\n", name, id,
				       (sim_delivered_time(other, pos) - t) / 1e6);
				bad++;
			}
		}
	}
	printf("%s: %d packets accepted from tun in the judged period, %d not delivered properly\n",
	       name, judged, bad);
	if (judged == 0 && side == CLIENT) {
		printf("VIOLATED: %s: nothing was accepted from tun in the judged period\n", name);
		bad++;
	}
	return bad;
}

int scenario_verdict(void)
{
	int bad = 0;
	int i, offered_late = 0, seen_late = 0;

	if (step < 2)
		return 2;

	printf("last fault (late duplicate of one downstream datagram) at t=%.1f s; "
	       "judging packets offered from t=%.1f s on\n",
	       T_LATECOPY / 1e6, T_JUDGE_FROM / 1e6);

	bad += judge(CLIENT, "upstream");
	bad += judge(SERVER, "downstream");

	/* The server stops reading its tun device when it cannot get rid of
	   what it holds (back-pressure), so also count what was offered. */
	for (i = FIRST_STEADY; i < next_down; i++) {
		usec_t t = T_STEADY + (i - FIRST_STEADY) * USEC;
		int j;

		if (t < T_JUDGE_FROM || t > scenario_end - MAX_TRANSIT)
			continue;
		offered_late++;
		for (j = 0; j < sim_delivered_count(CLIENT); j++)
			if (sim_delivered_id(CLIENT, j) == i) {
				seen_late++;
				break;
			}
	}
	printf("downstream: %d packets put on the server's tun device in the judged period, "
	       "%d reached the client's tun device\n", offered_late, seen_late);
	if (seen_late < offered_late) {
		printf("VIOLATED: %d downstream packets offered 0.5 s or more after the last "
		       "fault never came out of the client\n",
		       offered_late - seen_late);
		bad++;
	}
	if (sim_client_exit_time() != NEVER) {
		printf("VIOLATED: the client gave up and left its tunnel loop at t=%.1f s\n",
		       sim_client_exit_time() / 1e6);
		bad++;
	}

	if (bad) {
		printf("RESULT: property C02 violated in this run\n");
		return 1;
	}
	printf("RESULT: property C02 held in this run\n");
	return 0;
}
