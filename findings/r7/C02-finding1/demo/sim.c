/* Deterministic simulator that runs the REAL iodine client (client_handshake()
 * and client_tunnel() of src/client.c) and the REAL iodined server (tunnel()
 * of src/iodined.c, with everything below it) as two fibres in one process.
 *
 * Nothing touches a real socket, tun device or clock: the linker replaces
 *   select sendto recvfrom recvmsg read write time sleep syslog
 *   tun_setip tun_setmtu
 * by the __wrap_ functions below (-Wl,--wrap=...).  A fibre that calls
 * select() is parked; the scheduler wakes it when one of its descriptors has
 * become readable or its timeout has run out in VIRTUAL time.  Handling a
 * datagram takes no virtual time; a datagram takes LATENCY to cross the path
 * unless the scenario decides otherwise.
 *
 * The tun devices carry numbered IP packets with incompressible payload, so
 * the simulator knows exactly which packets each program accepted from its
 * tun device and which it wrote to it, in which order and when.
 */
#define _GNU_SOURCE
#include <stdio.h>
#include <stdlib.h>
#include <stdarg.h>
#include <string.h>
#include <errno.h>
#include <time.h>
#include <unistd.h>
#include <ucontext.h>
#include <sys/types.h>
#include <sys/select.h>
#include <sys/socket.h>
#include <netinet/in.h>
#include <arpa/inet.h>

#include "common.h"
#include "client.h"
#include "sim.h"

#define EPOCH 1700000000L

#define DNSFD(side) (40 + 10 * (side))
#define TUNFD(side) (41 + 10 * (side))

#define ST_RUN 1
#define ST_BLOCKED 2
#define ST_DONE 3

#define STACKSZ (8 * 1024 * 1024)

struct fiber {
	ucontext_t ctx;
	char *stack;
	int state;
	int want_dns, want_tun;
	int got_dns, got_tun;
	usec_t deadline;
};

static struct fiber fib[2];
static ucontext_t sched_ctx;
static int cur = -1;
static usec_t now_us;
static int trace_on;
static int handshake_done;
static usec_t client_exit_time = NEVER;
static int query_count;

/* provided by srv_glue.c */
void sim_server_main(int tun_fd, int dns_fd);

/* ------------------------------------------------------------ helpers */

usec_t sim_now(void) { return now_us; }
int sim_handshake_done(void) { return handshake_done; }
usec_t sim_client_exit_time(void) { return client_exit_time; }
int sim_query_count(void) { return query_count; }

void sim_trace(const char *fmt, ...)
{
	va_list ap;

	if (!trace_on)
		return;
	fprintf(stderr, "[%10.4f] ", now_us / 1e6);
	va_start(ap, fmt);
	vfprintf(stderr, fmt, ap);
	va_end(ap);
	fprintf(stderr, "\n");
}

static void die(const char *msg)
{
	printf("HARNESS TROUBLE: %s\n", msg);
	fflush(stdout);
	exit(2);
}

/* ------------------------------------------------------------ datagrams */

struct dgram {
	usec_t at;
	long serial;
	int len;
	unsigned char *data;
};

struct dq {
	struct dgram *v;
	int n, cap;
};

static struct dq netq[2];	/* index: direction */
static long serial;

static void dq_put(struct dq *q, usec_t at, const void *data, int len)
{
	int i;

	if (q->n == q->cap) {
		q->cap = q->cap ? q->cap * 2 : 64;
		q->v = realloc(q->v, q->cap * sizeof(*q->v));
		if (!q->v)
			die("out of memory");
	}
	i = q->n;
	while (i > 0 && q->v[i - 1].at > at) {
		q->v[i] = q->v[i - 1];
		i--;
	}
	q->v[i].at = at;
	q->v[i].serial = serial++;
	q->v[i].len = len;
	q->v[i].data = malloc(len ? len : 1);
	memcpy(q->v[i].data, data, len);
	q->n++;
}

static int dq_ready(struct dq *q)
{
	return q->n > 0 && q->v[0].at <= now_us;
}

static int dq_get(struct dq *q, void *buf, int buflen)
{
	int len;

	if (!dq_ready(q))
		return -1;
	len = q->v[0].len;
	if (len > buflen)
		len = buflen;
	memcpy(buf, q->v[0].data, len);
	free(q->v[0].data);
	memmove(&q->v[0], &q->v[1], (q->n - 1) * sizeof(*q->v));
	q->n--;
	return len;
}

static void describe(const unsigned char *buf, int len, char *out, int outlen)
{
	/* first label(s) of the question name, for the trace */
	int pos = 12, o = 0;

	if (len < 13) {
		snprintf(out, outlen, "(short)");
		return;
	}
	while (pos < len && buf[pos] && o < outlen - 2 && o < 24) {
		int l = buf[pos++];
		if (l & 0xc0)
			break;
		while (l-- > 0 && pos < len && o < outlen - 2 && o < 24) {
			unsigned char c = buf[pos++];
			out[o++] = (c >= 33 && c < 127) ? c : '?';
		}
		out[o++] = '.';
	}
	out[o] = 0;
}

/* ------------------------------------------------------------ tun devices */

#define PKT_HDR (4 + 20)
#define PKT_META 12

struct tunpkt {
	usec_t at;
	int id;
	int size;
};

struct tunlog {
	int *id;
	usec_t *t;
	int n, cap;
};

static struct {
	struct tunpkt *v;
	int n, cap;
} tunq[2];

/* A sender that always has a next packet for the tun device, but not at an
   infinite rate: the next one is there GEN_GAP after the previous one was
   read (200 packets per second, far more than the tunnel carries). */
#define GEN_GAP (5 * MSEC)

static struct {
	usec_t start, end;
	usec_t avail;		/* when the next packet is there */
	int size, next_id, count;
} gen[2];

static struct tunlog accepted[2], delivered[2];

static void log_add(struct tunlog *l, int id)
{
	if (l->n == l->cap) {
		l->cap = l->cap ? l->cap * 2 : 256;
		l->id = realloc(l->id, l->cap * sizeof(int));
		l->t = realloc(l->t, l->cap * sizeof(usec_t));
		if (!l->id || !l->t)
			die("out of memory");
	}
	l->id[l->n] = id;
	l->t[l->n] = now_us;
	l->n++;
}

int sim_accepted_count(int side) { return accepted[side].n; }
int sim_accepted_id(int side, int n) { return accepted[side].id[n]; }
usec_t sim_accepted_time(int side, int n) { return accepted[side].t[n]; }
int sim_delivered_count(int side) { return delivered[side].n; }
int sim_delivered_id(int side, int n) { return delivered[side].id[n]; }
usec_t sim_delivered_time(int side, int n) { return delivered[side].t[n]; }
int sim_generator_count(int side) { return gen[side].count; }

void sim_offer(int side, int id, int size, usec_t at)
{
	int i;

	if (tunq[side].n == tunq[side].cap) {
		tunq[side].cap = tunq[side].cap ? tunq[side].cap * 2 : 64;
		tunq[side].v = realloc(tunq[side].v, tunq[side].cap * sizeof(struct tunpkt));
		if (!tunq[side].v)
			die("out of memory");
	}
	i = tunq[side].n;
	while (i > 0 && tunq[side].v[i - 1].at > at) {
		tunq[side].v[i] = tunq[side].v[i - 1];
		i--;
	}
	tunq[side].v[i].at = at;
	tunq[side].v[i].id = id;
	tunq[side].v[i].size = size;
	tunq[side].n++;
}

void sim_generator(int side, usec_t start, usec_t end, int size, int first_id)
{
	gen[side].start = start;
	gen[side].end = end;
	gen[side].size = size;
	gen[side].next_id = first_id;
	gen[side].count = 0;
	gen[side].avail = start;
}

static int gen_active(int side)
{
	return gen[side].end > gen[side].start &&
	       now_us >= gen[side].start && now_us < gen[side].end &&
	       now_us >= gen[side].avail;
}

static int tun_ready(int side)
{
	if (tunq[side].n > 0 && tunq[side].v[0].at <= now_us)
		return 1;
	return gen_active(side);
}

static usec_t tun_next_time(int side)
{
	usec_t t = NEVER;

	if (tunq[side].n > 0)
		t = tunq[side].v[0].at;
	if (gen[side].end > gen[side].start && now_us < gen[side].end) {
		usec_t g = gen[side].avail > gen[side].start ? gen[side].avail : gen[side].start;

		if (g > now_us && g < gen[side].end && g < t)
			t = g;
	}
	return t;
}

static unsigned int prng(unsigned int *s)
{
	*s = *s * 1103515245u + 12345u;
	return (*s >> 16) & 0xff;
}

static int build_packet(unsigned char *p, int side, int id, int size)
{
	unsigned int seed = 0x9e3779b9u ^ (unsigned int) id;
	int total = PKT_HDR + PKT_META + size;
	int i;
	/* the tunnel network of the simulated server is 10.0.0.1/27,
	   its first client gets 10.0.0.2 */
	static const unsigned char srv_ip[4] = { 10, 0, 0, 1 };
	static const unsigned char cli_ip[4] = { 10, 0, 0, 2 };

	memset(p, 0, PKT_HDR);
	p[2] = 0x08;			/* tun header: ethertype IPv4 */
	p[4] = 0x45;
	p[6] = ((total - 4) >> 8) & 0xff;
	p[7] = (total - 4) & 0xff;
	p[12] = 64;
	p[13] = 17;
	memcpy(p + 16, side == CLIENT ? cli_ip : srv_ip, 4);	/* source */
	memcpy(p + 20, side == CLIENT ? srv_ip : cli_ip, 4);	/* destination */
	memcpy(p + PKT_HDR, "IODX", 4);
	p[PKT_HDR + 4] = (id >> 24) & 0xff;
	p[PKT_HDR + 5] = (id >> 16) & 0xff;
	p[PKT_HDR + 6] = (id >> 8) & 0xff;
	p[PKT_HDR + 7] = id & 0xff;
	p[PKT_HDR + 8] = (size >> 24) & 0xff;
	p[PKT_HDR + 9] = (size >> 16) & 0xff;
	p[PKT_HDR + 10] = (size >> 8) & 0xff;
	p[PKT_HDR + 11] = size & 0xff;
	for (i = 0; i < size; i++)
		p[PKT_HDR + PKT_META + i] = prng(&seed);
	return total;
}

static ssize_t tun_read(int side, void *buf, size_t len)
{
	static unsigned char pkt[70000];
	int id, size, total;

	if (tunq[side].n > 0 && tunq[side].v[0].at <= now_us) {
		id = tunq[side].v[0].id;
		size = tunq[side].v[0].size;
		memmove(&tunq[side].v[0], &tunq[side].v[1],
			(tunq[side].n - 1) * sizeof(struct tunpkt));
		tunq[side].n--;
	} else if (gen_active(side)) {
		id = gen[side].next_id++;
		size = gen[side].size;
		gen[side].count++;
		gen[side].avail = now_us + GEN_GAP;
	} else {
		errno = EAGAIN;
		return -1;
	}
	total = build_packet(pkt, side, id, size);
	if ((size_t) total > len)
		total = len;
	memcpy(buf, pkt, total);
	log_add(&accepted[side], id);
	sim_trace("%s tun: ACCEPTED packet #%d (%d bytes)",
		  side == CLIENT ? "client" : "server", id, total);
	return total;
}

static ssize_t tun_write(int side, const void *buf, size_t len)
{
	static unsigned char pkt[70000];
	const unsigned char *p = buf;
	int id = -1;

	if (len >= PKT_HDR + PKT_META && !memcmp(p + PKT_HDR, "IODX", 4)) {
		int size, total;

		id = (p[PKT_HDR + 4] << 24) | (p[PKT_HDR + 5] << 16) |
		     (p[PKT_HDR + 6] << 8) | p[PKT_HDR + 7];
		size = (p[PKT_HDR + 8] << 24) | (p[PKT_HDR + 9] << 16) |
		       (p[PKT_HDR + 10] << 8) | p[PKT_HDR + 11];
		if (size < 0 || size > 65000) {
			id = -1;
		} else {
			/* the packet came from the other side */
			total = build_packet(pkt, !side, id, size);
			if ((size_t) total != len || memcmp(pkt + 4, p + 4, len - 4))
				id = -1;	/* damaged */
		}
	}
	log_add(&delivered[side], id);
	sim_trace("%s tun: DELIVERED packet #%d (%d bytes)",
		  side == CLIENT ? "client" : "server", id, (int) len);
	return len;
}

/* ------------------------------------------------------------ wrapped libc */

time_t __wrap_time(time_t *t);
unsigned int __wrap_sleep(unsigned int s);
int __wrap_select(int n, fd_set *r, fd_set *w, fd_set *e, struct timeval *tv);
ssize_t __wrap_sendto(int fd, const void *buf, size_t len, int flags,
		      const struct sockaddr *to, socklen_t tolen);
ssize_t __wrap_recvfrom(int fd, void *buf, size_t len, int flags,
			struct sockaddr *from, socklen_t *fromlen);
ssize_t __wrap_recvmsg(int fd, struct msghdr *msg, int flags);
ssize_t __wrap_read(int fd, void *buf, size_t len);
ssize_t __wrap_write(int fd, const void *buf, size_t len);
ssize_t __real_read(int fd, void *buf, size_t len);
ssize_t __real_write(int fd, const void *buf, size_t len);
void __wrap_syslog(int prio, const char *fmt, ...);
int __wrap_tun_setip(const char *ip, const char *other, int netbits);
int __wrap_tun_setmtu(const unsigned mtu);

time_t __wrap_time(time_t *t)
{
	time_t v = EPOCH + (time_t) (now_us / USEC);

	if (t)
		*t = v;
	return v;
}

static void park(usec_t deadline, int want_dns, int want_tun)
{
	struct fiber *f = &fib[cur];

	f->want_dns = want_dns;
	f->want_tun = want_tun;
	f->deadline = deadline;
	f->got_dns = f->got_tun = 0;
	f->state = ST_BLOCKED;
	swapcontext(&f->ctx, &sched_ctx);
}

unsigned int __wrap_sleep(unsigned int s)
{
	park(now_us + s * USEC, 0, 0);
	return 0;
}

int __wrap_select(int n, fd_set *r, fd_set *w, fd_set *e, struct timeval *tv)
{
	struct fiber *f = &fib[cur];
	int me = cur;
	int cnt = 0;
	usec_t deadline = NEVER;

	(void) n; (void) w; (void) e;
	if (tv)
		deadline = now_us + tv->tv_sec * USEC + tv->tv_usec;
	park(deadline, r && FD_ISSET(DNSFD(me), r), r && FD_ISSET(TUNFD(me), r));
	if (r) {
		FD_ZERO(r);
		if (f->got_dns) {
			FD_SET(DNSFD(me), r);
			cnt++;
		}
		if (f->got_tun) {
			FD_SET(TUNFD(me), r);
			cnt++;
		}
	}
	return cnt;
}

static int side_of_dnsfd(int fd)
{
	if (fd == DNSFD(CLIENT)) return CLIENT;
	if (fd == DNSFD(SERVER)) return SERVER;
	return -1;
}

ssize_t __wrap_sendto(int fd, const void *buf, size_t len, int flags,
		      const struct sockaddr *to, socklen_t tolen)
{
	int side = side_of_dnsfd(fd);
	int dir, n, i;
	usec_t delays[8];
	char what[64];

	(void) flags; (void) to; (void) tolen;
	if (side < 0)
		die("sendto() on a descriptor that is not simulated");
	dir = (side == CLIENT) ? TO_SERVER : TO_CLIENT;
	if (side == CLIENT)
		query_count++;
	n = scenario_net(dir, buf, (int) len, delays, 8);
	if (trace_on) {
		describe(buf, (int) len, what, sizeof(what));
		sim_trace("%s %4d bytes %-26s %s", dir == TO_SERVER ? "C->S" : "S->C",
			  (int) len, what,
			  n == 0 ? "LOST" : n > 1 ? "DUPLICATED" :
			  delays[0] != LATENCY ? "DELAYED" : "");
	}
	for (i = 0; i < n; i++)
		dq_put(&netq[dir], now_us + delays[i], buf, (int) len);
	return len;
}

static void fill_addr(struct sockaddr_in *sin, int side)
{
	memset(sin, 0, sizeof(*sin));
	sin->sin_family = AF_INET;
	sin->sin_port = htons(side == CLIENT ? 40000 : 53);
	sin->sin_addr.s_addr = inet_addr(side == CLIENT ? "192.0.2.2" : "192.0.2.1");
}

ssize_t __wrap_recvfrom(int fd, void *buf, size_t len, int flags,
			struct sockaddr *from, socklen_t *fromlen)
{
	int side = side_of_dnsfd(fd);
	int r;

	(void) flags;
	if (side != CLIENT)
		die("recvfrom() on a descriptor that is not simulated");
	r = dq_get(&netq[TO_CLIENT], buf, (int) len);
	if (r < 0) {
		errno = EAGAIN;
		return -1;
	}
	if (from && fromlen && *fromlen >= sizeof(struct sockaddr_in)) {
		fill_addr((struct sockaddr_in *) from, SERVER);
		*fromlen = sizeof(struct sockaddr_in);
	}
	return r;
}

ssize_t __wrap_recvmsg(int fd, struct msghdr *msg, int flags)
{
	int side = side_of_dnsfd(fd);
	int r;

	(void) flags;
	if (side != SERVER)
		die("recvmsg() on a descriptor that is not simulated");
	r = dq_get(&netq[TO_SERVER], msg->msg_iov[0].iov_base,
		   (int) msg->msg_iov[0].iov_len);
	if (r < 0) {
		errno = EAGAIN;
		return -1;
	}
	if (msg->msg_name && msg->msg_namelen >= sizeof(struct sockaddr_in)) {
		memset(msg->msg_name, 0, msg->msg_namelen);
		fill_addr((struct sockaddr_in *) msg->msg_name, CLIENT);
		msg->msg_namelen = sizeof(struct sockaddr_in);
	}
	msg->msg_controllen = 0;
	msg->msg_flags = 0;
	return r;
}

ssize_t __wrap_read(int fd, void *buf, size_t len)
{
	if (fd == TUNFD(CLIENT)) return tun_read(CLIENT, buf, len);
	if (fd == TUNFD(SERVER)) return tun_read(SERVER, buf, len);
	return __real_read(fd, buf, len);
}

ssize_t __wrap_write(int fd, const void *buf, size_t len)
{
	if (fd == TUNFD(CLIENT)) return tun_write(CLIENT, buf, len);
	if (fd == TUNFD(SERVER)) return tun_write(SERVER, buf, len);
	return __real_write(fd, buf, len);
}

void __wrap_syslog(int prio, const char *fmt, ...)
{
	(void) prio; (void) fmt;
}

int __wrap_tun_setip(const char *ip, const char *other, int netbits)
{
	sim_trace("client: tun_setip(%s, %s, %d)", ip, other, netbits);
	return 0;
}

int __wrap_tun_setmtu(const unsigned mtu)
{
	(void) mtu;
	return 0;
}

/* ------------------------------------------------------------ the fibres */

/* login_calculate() reads 32 bytes of password, as iodine.c provides them */
static char client_password[33] = "secret";

static void client_main(void)
{
	struct sockaddr_storage ns;
	char qtype[16];
	int r;

	memset(&ns, 0, sizeof(ns));
	fill_addr((struct sockaddr_in *) &ns, SERVER);

	client_init();
	client_set_nameserver(&ns, sizeof(struct sockaddr_in));
	client_set_topdomain("t.example");
	client_set_password(client_password);
	snprintf(qtype, sizeof(qtype), "%s", scenario_qtype);
	if (client_set_qtype(qtype))
		die("bad query type in scenario");
	client_set_selecttimeout(scenario_interval);
	client_set_lazymode(scenario_lazy);
	client_set_hostname_maxlen(scenario_maxlen);

	r = client_handshake(DNSFD(CLIENT), 0, 0, scenario_fragsize);
	if (r)
		die("the handshake failed on a clean path");
	handshake_done = 1;
	sim_trace("client: handshake done, entering client_tunnel()");

	client_tunnel(TUNFD(CLIENT), DNSFD(CLIENT));

	client_exit_time = now_us;
	sim_trace("client: client_tunnel() RETURNED (the client has given up)");
	fib[CLIENT].state = ST_DONE;
	swapcontext(&fib[CLIENT].ctx, &sched_ctx);
}

static void server_main(void)
{
	sim_server_main(TUNFD(SERVER), DNSFD(SERVER));
	sim_trace("server: tunnel() RETURNED");
	fib[SERVER].state = ST_DONE;
	swapcontext(&fib[SERVER].ctx, &sched_ctx);
}

static void start_fiber(int i, void (*fn)(void))
{
	fib[i].stack = malloc(STACKSZ);
	if (!fib[i].stack)
		die("out of memory");
	getcontext(&fib[i].ctx);
	fib[i].ctx.uc_stack.ss_sp = fib[i].stack;
	fib[i].ctx.uc_stack.ss_size = STACKSZ;
	fib[i].ctx.uc_link = &sched_ctx;
	makecontext(&fib[i].ctx, fn, 0);
	fib[i].state = ST_RUN;
}

static void resume(int i)
{
	cur = i;
	fib[i].state = ST_RUN;
	swapcontext(&sched_ctx, &fib[i].ctx);
	cur = -1;
}

int main(void)
{
	usec_t want = 0;
	long rounds = 0;
	int i;

	trace_on = getenv("SIM_TRACE") != NULL;
	setvbuf(stdout, NULL, _IOLBF, 0);
	srand(20240607);

	/* the server first, so that it is parked in select() when the client
	   sends its first query */
	start_fiber(SERVER, server_main);
	resume(SERVER);
	start_fiber(CLIENT, client_main);
	resume(CLIENT);

	want = scenario_tick(now_us);

	while (now_us < scenario_end) {
		int progress = 0;
		usec_t next;

		if (++rounds > 200000000L)
			die("simulation does not terminate");

		for (i = 0; i < 2; i++) {
			struct fiber *f = &fib[i];
			int d, t;

			if (f->state != ST_BLOCKED)
				continue;
			d = f->want_dns && dq_ready(&netq[i == CLIENT ? TO_CLIENT : TO_SERVER]);
			t = f->want_tun && tun_ready(i);
			if (d || t || f->deadline <= now_us) {
				f->got_dns = d;
				f->got_tun = t;
				resume(i);
				progress = 1;
			}
		}
		if (progress)
			continue;

		/* nobody can run: let virtual time pass */
		next = want;
		for (i = 0; i < 2; i++) {
			struct fiber *f = &fib[i];
			struct dq *q = &netq[i == CLIENT ? TO_CLIENT : TO_SERVER];

			if (f->state != ST_BLOCKED)
				continue;
			if (f->deadline < next)
				next = f->deadline;
			if (f->want_dns && q->n > 0 && q->v[0].at < next)
				next = q->v[0].at;
			if (f->want_tun && tun_next_time(i) < next)
				next = tun_next_time(i);
		}
		/* a descriptor a fibre is not waiting for now may be asked for
		   later without any timeout in between; time passes anyway */
		if (next >= NEVER)
			break;
		if (next <= now_us)
			next = now_us + 1;
		if (next > scenario_end)
			next = scenario_end;
		now_us = next;
		want = scenario_tick(now_us);
	}

	return scenario_verdict();
}
