/* Deterministic two-fibre simulator for the real iodine client and server.
 * See sim.c.  A demonstration supplies scenario.c with the functions at the
 * bottom of this file. */
#ifndef SIM_H
#define SIM_H

typedef long long usec_t;

#define USEC 1000000LL
#define MSEC 1000LL
#define NEVER ((usec_t) 1 << 60)

/* direction / side */
#define TO_SERVER 0	/* client -> server (upstream) */
#define TO_CLIENT 1	/* server -> client (downstream) */
#define CLIENT 0
#define SERVER 1

/* one-way latency of the clean path */
#define LATENCY (2 * MSEC)

usec_t sim_now(void);

/* Put an IP packet with number 'id' and 'size' bytes of incompressible
   payload into the tun device of 'side' at time 'at'; the program on that
   side reads it when its select loop asks for the tun device. */
void sim_offer(int side, int id, int size, usec_t at);

/* From 'start' to 'end' the tun device of 'side' always has a next packet
   ('size' bytes payload, ids counting up from 'first_id'). */
void sim_generator(int side, usec_t start, usec_t end, int size, int first_id);
int sim_generator_count(int side);	/* packets handed out by the generator */

/* Packets the program on 'side' read from its tun device (accepted) */
int sim_accepted_count(int side);
int sim_accepted_id(int side, int n);
usec_t sim_accepted_time(int side, int n);

/* Packets the program on 'side' wrote to its tun device (delivered) */
int sim_delivered_count(int side);
int sim_delivered_id(int side, int n);
usec_t sim_delivered_time(int side, int n);

int sim_handshake_done(void);
usec_t sim_client_exit_time(void);	/* NEVER while client_tunnel() runs */
int sim_query_count(void);		/* datagrams the client sent so far */
void sim_trace(const char *fmt, ...);

/* ---- supplied by the demonstration ---- */

/* client configuration */
extern const char *scenario_qtype;	/* "NULL", "TXT", ... */
extern int scenario_lazy;		/* 1 = lazy mode */
extern int scenario_fragsize;		/* -m value */
extern int scenario_interval;		/* -I value */
extern int scenario_maxlen;		/* -M value */
extern usec_t scenario_end;		/* stop the simulation here */

/* Fate of one datagram: fill delays[] (relative to now) for every copy that
   is to arrive and return the number of copies (0 = lost, 1 = normal). */
int scenario_net(int dir, const unsigned char *buf, int len, usec_t *delays, int max);

/* Called whenever virtual time has advanced; returns the next time it wants
   to be called at the latest (NEVER if it does not care). */
usec_t scenario_tick(usec_t now);

/* 0 = property held, 1 = violated (a line saying what has been printed) */
int scenario_verdict(void);

#endif
