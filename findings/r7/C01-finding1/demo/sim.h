/* Tiny deterministic discrete-event simulation around the real iodine client
 * (client.c) and server (iodined.c): each runs as a fiber, virtual time only,
 * datagrams and tun devices are in-memory queues. */
#ifndef SIM_H
#define SIM_H

#include <stddef.h>

#define EP_SRV 0
#define EP_C0  1
#define EP_C1  2
#define NEP    3

#define DNS_FD(ep) (100 + 10 * (ep))
#define TUN_FD(ep) (101 + 10 * (ep))

#define TOPDOMAIN "t.example"
#define PASSWORD  "secret"
#define SERVER_IP "10.0.0.1"

/* virtual clock, milliseconds */
extern long sim_now;

/* --- fibers --- */
int  sim_spawn(const char *name, int ep, void (*fn)(void *), void *arg);
void sim_run(void);			/* runs until sim_stop() */
void sim_stop(void);
void sim_sleep(long ms);		/* from a scenario fiber */
/* wait until cond() != 0 or timeout; returns cond() */
int  sim_wait(int (*cond)(void), long timeout_ms);

/* --- network: decide the fate of a datagram. Return number of copies to
 * deliver (0 = lost); *delay_ms is the one-way latency (preset to default) */
typedef int (*sim_netfilter_t)(int from_ep, int to_ep,
			       const unsigned char *d, int len, long *delay_ms);
extern sim_netfilter_t sim_netfilter;

/* put one more copy of a datagram on the wire (a late duplicate) */
void sim_net_inject(int to_ep, int from_ep, const unsigned char *d, int len, long delay_ms);

/* first label of the question name of a DNS datagram (NUL terminated copy) */
int sim_qname(const unsigned char *d, int len, char *out, int outlen);

/* --- tun devices --- */
void sim_tun_offer(int ep, const unsigned char *pkt, int len);	/* packet arrives on ep's tun */
int  sim_tun_pending(int ep);
int  sim_tun_written(int ep);		/* number of write_tun() calls on ep */
const unsigned char *sim_tun_written_pkt(int ep, int idx, int *len);
int  sim_violations(void);
int  sim_was_offered(int ep, const unsigned char *pkt, int len);

/* --- the two sides (srv_unit.c / cli_unit.c) --- */
void srv_fiber(void *arg);
int  srv_in_offset(int user);
int  srv_in_len(int user);
int  srv_out_len(int user);
int  srv_outq_filled(int user);
unsigned srv_user_ip(int user);

struct cli_cfg {
	int ep;
	int fragsize;
	int lazy;
	const char *qtype;
	int maxlen;
};
void cli0_fiber(void *arg);
int  cli0_in_tunnel(void);
int  cli0_is_sending(void);
int  cli0_userid(void);
void cli1_fiber(void *arg);
int  cli1_in_tunnel(void);
int  cli1_is_sending(void);
int  cli1_userid(void);

/* helpers for scenarios */
void sim_fill_random(unsigned char *p, int len, unsigned *seed);
/* builds a pseudo IPv4 packet as read from a Linux tun (4 byte header + IP) */
void sim_make_packet(unsigned char *p, int len, unsigned src, unsigned dst,
		     unsigned *seed);

#endif
