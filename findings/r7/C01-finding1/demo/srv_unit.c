/* The real server: iodined.c is included verbatim (its main() renamed), so
 * that its static tunnel()/handle_null_request()/... run unmodified. */
#define main iodined_real_main
#include "iodined.c"
#undef main

#include "sim.h"

void srv_fiber(void *arg)
{
	struct dnsfd fds;

	(void) arg;
	fds.v4fd = DNS_FD(EP_SRV);
	fds.v6fd = -1;

	topdomain = TOPDOMAIN;
	memset(password, 0, sizeof(password));
	snprintf(password, sizeof(password), "%s", PASSWORD);
	check_ip = 1;
	debug = getenv("SRVDEBUG") ? atoi(getenv("SRVDEBUG")) : 0;
	netmask = 27;
	my_mtu = 1130;
	my_ip = inet_addr(SERVER_IP);
	ns_ip = INADDR_ANY;
	bind_port = 0;
	fw_query_init();
	created_users = init_users(my_ip, netmask);
	running = 1;

	tunnel(TUN_FD(EP_SRV), &fds, 0, 0);
}

int srv_in_offset(int u) { return users[u].inpacket.offset; }
int srv_in_len(int u) { return users[u].inpacket.len; }
int srv_out_len(int u) { return users[u].outpacket.len; }
int srv_outq_filled(int u) { return users[u].outpacketq_filled; }
unsigned srv_user_ip(int u) { return users[u].tun_ip; }
