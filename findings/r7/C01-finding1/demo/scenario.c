/* Finding on the UNCHANGED tree: one late duplicate of a downstream answer is
 * enough to make the client glue fragments of two different packets.
 *
 * Downstream packets carry a 3-bit seqno. The client treats its current seqno
 * and the three before it as "recent" (duplicates, ignored); any other seqno
 * is "new". A duplicate of the first fragment of packet X (seqno s) that
 * arrives five packets late (current seqno s+5) is therefore taken for the
 * start of a new packet: the client rewinds to seqno s, fragment 0, and keeps
 * that fragment. Seen from s, the server's real seqnos s+5, s+6, s+7 (= s-3,
 * s-2, s-1) are "recent duplicates": the client ignores those packets and the
 * server's dataless answers do not correct it either. Packet Y then gets
 * seqno s+8 == s: the client calls Y's first fragment a duplicate fragment
 * but ACKS it (s/0), the server moves on, and the client appends Y's second
 * fragment to X's first one.
 * (Four packets late does not work: the server's next dataless answer carries
 * seqno s+4, which is "new" from s, and resets the client.)
 *
 * zlib rejects the mix unless the adler32 of the result happens to be right.
 * X and Y here are pseudo-random packets of equal length whose first 193
 * bytes differ in three neighbouring bytes by +1,-2,+1 (adler32 cannot see
 * that) and whose remaining bytes are unrelated.
 */
#define _GNU_SOURCE
#include <stdio.h>
#include <stdlib.h>
#include <string.h>
#include <zlib.h>
#include <arpa/inet.h>

#include "sim.h"

#define FRAG 200
#define N 380			/* 2 fragments: 200 + 191 bytes of zlib stream */
#define HEAD (FRAG - 7)		/* bytes of the packet in the first fragment */

static int catch_x_f0;
static unsigned char held[4096];
static int held_len;

static int netfilter(int from, int to, const unsigned char *d, int len, long *delay)
{
	*delay = 5;
	if (catch_x_f0 && from == EP_SRV && to == EP_C0 && len > 150) {
		/* the answer that carries the first fragment of X: a relay
		   will repeat it later */
		memcpy(held, d, len);
		held_len = len;
		catch_x_f0 = 0;
	}
	return 1;
}

static int c0_up(void) { return cli0_in_tunnel(); }
static int want;
static int c0_wrote(void) { return sim_tun_written(EP_C0) >= want; }
static int srv_idle(void) { return srv_out_len(0) == 0 && srv_outq_filled(0) == 0; }

static void down(const unsigned char *p, int len, int expect)
{
	want = sim_tun_written(EP_C0) + (expect ? 1 : 0);
	sim_tun_offer(EP_SRV, p, len);
	if (expect && !sim_wait(c0_wrote, 10000)) {
		fprintf(stderr, "harness: a plain packet did not get through\n");
		exit(2);
	}
	sim_wait(srv_idle, 10000);
	sim_sleep(60);
}

static void stored(const unsigned char *p, int len)
{
	unsigned char z[N + 64];
	unsigned long zl = sizeof(z);

	compress2(z, &zl, p, len, 9);
	if (zl != (unsigned long) len + 11 || z[2] != 0x01) {
		fprintf(stderr, "harness: zlib did not store a packet verbatim\n");
		exit(2);
	}
}

static void scenario(void *arg)
{
	unsigned seed = 99;
	unsigned char small[8][60], x[N], y[N], fab[N];
	unsigned srvip = inet_addr(SERVER_IP), cliip;
	const unsigned char *p;
	int i, len, t;

	(void) arg;
	if (!sim_wait(c0_up, 60000)) {
		fprintf(stderr, "harness: client did not get through the handshake\n");
		exit(2);
	}
	cliip = srv_user_ip(0);
	sim_sleep(300);

	for (i = 0; i < 8; i++)
		sim_make_packet(small[i], sizeof(small[i]), srvip, cliip, &seed);
	sim_make_packet(x, N, srvip, cliip, &seed);
	sim_make_packet(y, N, srvip, cliip, &seed);
	for (t = 60; t < HEAD - 3; t++)
		if (x[t] < 255 && x[t + 1] >= 2 && x[t + 2] < 255)
			break;
	memcpy(y, x, HEAD);
	y[t] = x[t] + 1; y[t + 1] = x[t + 1] - 2; y[t + 2] = x[t + 2] + 1;
	memcpy(fab, x, HEAD);
	memcpy(fab + HEAD, y + HEAD, N - HEAD);
	stored(x, N);
	stored(y, N);

	/* packet X, two fragments; both arrive, X is delivered */
	catch_x_f0 = 1;
	down(x, N, 1);
	if (!held_len) {
		fprintf(stderr, "harness: did not see the first fragment of X\n");
		exit(2);
	}
	/* five small packets */
	for (i = 0; i < 5; i++)
		down(small[i], sizeof(small[i]), 1);
	/* now the relay's late copy of "X, fragment 0" turns up */
	printf("late duplicate of the answer with X's first fragment arrives at %ld ms\n", sim_now);
	sim_net_inject(EP_C0, EP_SRV, held, held_len, 1);
	sim_sleep(800);
	/* two more small packets (the client will call them duplicates) */
	for (i = 5; i < 7; i++)
		down(small[i], sizeof(small[i]), 0);
	sim_sleep(800);
	/* packet Y, same seqno as X had */
	want = sim_tun_written(EP_C0) + 1;
	sim_tun_offer(EP_SRV, y, N);
	sim_wait(c0_wrote, 15000);
	sim_wait(srv_idle, 15000);
	sim_sleep(1500);
	down(small[7], sizeof(small[7]), 0);
	sim_sleep(1500);

	printf("client wrote %d packets to its tun device:", sim_tun_written(EP_C0));
	for (i = 0; (p = sim_tun_written_pkt(EP_C0, i, &len)) != NULL; i++) {
		const char *what = "?";

		if (len == N && !memcmp(p, x, N)) what = "X";
		else if (len == N && !memcmp(p, y, N)) what = "Y";
		else if (len == N && !memcmp(p, fab, N)) what = "first fragment of X + second fragment of Y";
		else if (sim_was_offered(EP_SRV, p, len)) what = "small";
		printf(" %d (%s)", len, what);
	}
	printf("\n");
	sim_stop();
}

int main(void)
{
	static struct cli_cfg c0 = { EP_C0, FRAG, 1, "NULL", 0 };

	setvbuf(stdout, NULL, _IOLBF, 0);
	sim_netfilter = netfilter;
	sim_spawn("server", EP_SRV, srv_fiber, NULL);
	sim_spawn("client0", EP_C0, cli0_fiber, &c0);
	sim_spawn("scenario", -1, scenario, NULL);
	sim_run();

	if (sim_violations()) {
		printf("RESULT: property C01 VIOLATED (%d packets delivered that were never sent)\n",
		       sim_violations());
		return 1;
	}
	printf("RESULT: property C01 holds in this run\n");
	return 0;
}
