#!/bin/sh
# usage: run.sh <source tree root>
# exit 0: property holds in the demonstrated case, 1: violated, 2: build/harness trouble
TREE=${1:?usage: run.sh <source tree root>}
DEMO=$(cd "$(dirname "$0")" && pwd)
SRC=$(cd "$TREE/src" 2>/dev/null && pwd) || { echo "no $TREE/src" >&2; exit 2; }
T=$(mktemp -d) || exit 2
trap 'rm -rf "$T"' EXIT

CC=${CC:-gcc}
CFLAGS="-std=gnu99 -g -O1 -w -DLINUX -D_GNU_SOURCE -DGITREVISION=\"demo\" -I$SRC -I$DEMO"
WRAP="-Wl,--wrap=select,--wrap=sendto,--wrap=recvfrom,--wrap=recvmsg,--wrap=time,--wrap=sleep,--wrap=syslog"

{
	echo '/* generated as in src/Makefile */'
	sed -e 's/\([Bb][Aa][Ss][Ee]64\)/\1u/g ; s/0123456789+/0123456789_/' < "$SRC/base64.c"
} > "$T/base64u.c" || exit 2

OBJS=""
for f in dns read encoding login base32 base64 base128 md5 common user fw_query; do
	$CC $CFLAGS -c "$SRC/$f.c" -o "$T/$f.o" || exit 2
	OBJS="$OBJS $T/$f.o"
done
$CC $CFLAGS -c "$T/base64u.c" -o "$T/base64u.o" || exit 2
$CC $CFLAGS -DCLI=0 -c "$DEMO/cli_unit.c" -o "$T/cli0.o" || exit 2
$CC $CFLAGS -DCLI=1 -c "$DEMO/cli_unit.c" -o "$T/cli1.o" || exit 2
$CC $CFLAGS -c "$DEMO/srv_unit.c" -o "$T/srv.o" || exit 2
$CC $CFLAGS -c "$DEMO/sim.c" -o "$T/sim.o" || exit 2
$CC $CFLAGS -c "$DEMO/scenario.c" -o "$T/scenario.o" || exit 2
$CC -o "$T/demo" "$T/scenario.o" "$T/sim.o" "$T/srv.o" "$T/cli0.o" "$T/cli1.o" \
	$OBJS "$T/base64u.o" $WRAP -lz || exit 2

if [ -n "$DEMO_VERBOSE" ]; then
	timeout 50 "$T/demo"
else
	timeout 50 "$T/demo" 2>"$T/stderr.txt"
fi
rc=$?
case $rc in
0|1) exit $rc ;;
*)	[ -f "$T/stderr.txt" ] && tail -20 "$T/stderr.txt" >&2
	echo "harness trouble (exit status $rc)" >&2
	exit 2 ;;
esac
