/* The real client: client.c is included verbatim. Compiled once per client
 * instance (-DCLI=0 / -DCLI=1) with its few external names made unique, so
 * that two independent clients can live in one process. */
#ifndef CLI
#error "compile with -DCLI=0 or -DCLI=1"
#endif
#define CAT2(a, b) a##b
#define CAT(a, b) CAT2(a, b)
#define PFX(name) CAT(CAT(cli, CLI), CAT(_, name))

#define client_init PFX(client_init)
#define client_stop PFX(client_stop)
#define client_get_conn PFX(client_get_conn)
#define client_get_raw_addr PFX(client_get_raw_addr)
#define client_set_nameserver PFX(client_set_nameserver)
#define client_set_topdomain PFX(client_set_topdomain)
#define client_set_password PFX(client_set_password)
#define client_set_qtype PFX(client_set_qtype)
#define client_get_qtype PFX(client_get_qtype)
#define client_set_downenc PFX(client_set_downenc)
#define client_set_selecttimeout PFX(client_set_selecttimeout)
#define client_set_lazymode PFX(client_set_lazymode)
#define client_set_hostname_maxlen PFX(client_set_hostname_maxlen)
#define client_handshake PFX(client_handshake)
#define client_tunnel PFX(client_tunnel)
#define outchunkresent PFX(outchunkresent)

#include "client.c"

#include "sim.h"

static int in_tunnel;

void PFX(fiber)(void *arg)
{
	struct cli_cfg *cfg = arg;
	struct sockaddr_storage ns;
	struct sockaddr_in *a = (struct sockaddr_in *) &ns;
	char qtype[16];
	static char pw[33];	/* login_calculate() reads 32 bytes */

	memset(&ns, 0, sizeof(ns));
	a->sin_family = AF_INET;
	a->sin_addr.s_addr = inet_addr("192.0.2.1");
	a->sin_port = htons(53);

	client_init();
	client_set_nameserver(&ns, sizeof(*a));
	client_set_topdomain(TOPDOMAIN);
	snprintf(pw, sizeof(pw), "%s", PASSWORD);
	client_set_password(pw);
	client_set_selecttimeout(4);
	client_set_lazymode(cfg->lazy);
	client_set_hostname_maxlen(cfg->maxlen ? cfg->maxlen : 0xFF);
	snprintf(qtype, sizeof(qtype), "%s", cfg->qtype ? cfg->qtype : "NULL");
	client_set_qtype(qtype);

	if (client_handshake(DNS_FD(cfg->ep), 0, 0, cfg->fragsize)) {
		fprintf(stderr, "client%d: handshake failed\n", CLI);
		exit(2);
	}
	in_tunnel = 1;
	client_tunnel(TUN_FD(cfg->ep), DNS_FD(cfg->ep));
	fprintf(stderr, "client%d: tunnel ended at %ld ms\n", CLI, sim_now);
}

int PFX(in_tunnel)(void) { return in_tunnel; }
int PFX(is_sending)(void) { return is_sending(); }
int PFX(userid)(void) { return userid; }
