/* Deterministic in-process "world" for the real iodine client and server.
 *
 *  - every party (server, client 0, client 1, the scenario) is a ucontext fiber
 *  - select/sendto/recvfrom/recvmsg/time/sleep are replaced (ld --wrap)
 *  - read_tun/write_tun/... (tun.c is not linked) are defined here
 *  - time is virtual: it only moves when every fiber is blocked
 *
 * The oracle for the integrity property sits in write_tun(): whatever a party
 * writes to its tun device must be byte-identical to a packet that was read
 * from the tun device of ANOTHER party earlier.
 */
#define _GNU_SOURCE
#include <stdio.h>
#include <stdlib.h>
#include <string.h>
#include <stdarg.h>
#include <ucontext.h>
#include <sys/select.h>
#include <sys/socket.h>
#include <sys/types.h>
#include <netinet/in.h>
#include <arpa/inet.h>
#include <time.h>

#include "sim.h"

long sim_now = 0;
sim_netfilter_t sim_netfilter = NULL;

#define TIME_BASE 1700000000L
#define STACKSZ (4 * 1024 * 1024)
#define MAXFIB 8
#define TIME_LIMIT_MS (15L * 60 * 1000)

struct fiber {
	const char *name;
	int ep;			/* -1 for scenario fibers */
	ucontext_t ctx;
	void (*fn)(void *);
	void *arg;
	int started, finished;
	/* blocked state */
	int waiting;		/* 1 = in select, 2 = scenario sleep/wait */
	int want_dns, want_tun;
	long deadline;		/* -1 = none */
	int (*cond)(void);
};

static struct fiber fibers[MAXFIB];
static int nfibers;
static struct fiber *cur;
static ucontext_t sched_ctx;
static int stop_flag;

/* ---------------- datagrams ---------------- */
struct dgram {
	struct dgram *next;
	int from_ep;
	long deliver_at;
	unsigned long order;
	int len;
	unsigned char data[1];
};
static struct dgram *inbox[NEP];
static unsigned long dgram_order;

static void inbox_put(int to_ep, int from_ep, const void *d, int len, long at)
{
	struct dgram *g = malloc(sizeof(*g) + len);
	struct dgram **pp;

	g->from_ep = from_ep;
	g->deliver_at = at;
	g->order = dgram_order++;
	g->len = len;
	memcpy(g->data, d, len);
	/* keep sorted by (deliver_at, order) */
	for (pp = &inbox[to_ep]; *pp; pp = &(*pp)->next)
		if ((*pp)->deliver_at > at)
			break;
	g->next = *pp;
	*pp = g;
}

void sim_net_inject(int to_ep, int from_ep, const unsigned char *d, int len, long delay_ms)
{
	inbox_put(to_ep, from_ep, d, len, sim_now + delay_ms);
}

static int inbox_ready(int ep)
{
	return inbox[ep] && inbox[ep]->deliver_at <= sim_now;
}

static struct dgram *inbox_get(int ep)
{
	struct dgram *g = inbox[ep];

	if (!g || g->deliver_at > sim_now)
		return NULL;
	inbox[ep] = g->next;
	return g;
}

static void ep_addr(int ep, struct sockaddr_in *a)
{
	memset(a, 0, sizeof(*a));
	a->sin_family = AF_INET;
	if (ep == EP_SRV) {
		a->sin_addr.s_addr = inet_addr("192.0.2.1");
		a->sin_port = htons(53);
	} else {
		a->sin_addr.s_addr = htonl(0xC6336400u + 10 + ep); /* 198.51.100.x */
		a->sin_port = htons(4000 + ep);
	}
}

static int fd_ep(int fd, int *is_tun)
{
	int ep;

	for (ep = 0; ep < NEP; ep++) {
		if (fd == DNS_FD(ep)) { *is_tun = 0; return ep; }
		if (fd == TUN_FD(ep)) { *is_tun = 1; return ep; }
	}
	return -1;
}

int sim_qname(const unsigned char *d, int len, char *out, int outlen)
{
	int l, i;

	out[0] = 0;
	if (len < 13)
		return 0;
	l = d[12];
	if (l > 63 || 13 + l > len)
		return 0;
	for (i = 0; i < l && i < outlen - 1; i++)
		out[i] = d[13 + i];
	out[i] = 0;
	return i;
}

/* ---------------- tun devices + oracle ---------------- */
struct pkt {
	struct pkt *next;
	int len;
	unsigned char data[1];
};
static struct pkt *tunq[NEP], **tunq_tail[NEP];
static struct pkt *offered[NEP];	/* what read_tun() handed out */
static struct pkt *written[NEP], **written_tail[NEP];
static int nwritten[NEP];
static int violations;

static struct pkt *mkpkt(const void *d, int len)
{
	struct pkt *p = malloc(sizeof(*p) + len);

	p->next = NULL;
	p->len = len;
	memcpy(p->data, d, len);
	return p;
}

void sim_tun_offer(int ep, const unsigned char *d, int len)
{
	struct pkt *p = mkpkt(d, len);

	if (!tunq_tail[ep])
		tunq_tail[ep] = &tunq[ep];
	*tunq_tail[ep] = p;
	tunq_tail[ep] = &p->next;
}

int sim_tun_pending(int ep)
{
	return tunq[ep] != NULL;
}

int sim_tun_written(int ep)
{
	return nwritten[ep];
}

const unsigned char *sim_tun_written_pkt(int ep, int idx, int *len)
{
	struct pkt *p = written[ep];

	while (p && idx-- > 0)
		p = p->next;
	if (!p)
		return NULL;
	*len = p->len;
	return p->data;
}

int sim_violations(void)
{
	return violations;
}

int sim_was_offered(int ep, const unsigned char *d, int len)
{
	struct pkt *p;

	for (p = offered[ep]; p; p = p->next)
		if (p->len == len && !memcmp(p->data, d, len))
			return 1;
	return 0;
}

static const char *ep_name(int ep)
{
	return ep == EP_SRV ? "server" : ep == EP_C0 ? "client0" : "client1";
}

ssize_t read_tun(int fd, char *buf, size_t len)
{
	int is_tun, ep = fd_ep(fd, &is_tun);
	struct pkt *p;
	int n;

	if (ep < 0 || !is_tun || !tunq[ep])
		return -1;
	p = tunq[ep];
	tunq[ep] = p->next;
	if (!tunq[ep])
		tunq_tail[ep] = &tunq[ep];
	n = p->len < (int) len ? p->len : (int) len;
	memcpy(buf, p->data, n);
	p->len = n;
	p->next = offered[ep];
	offered[ep] = p;
	if (getenv("SIMTRACE"))
		fprintf(stderr, "[%7ld] %s read_tun %d bytes\n", sim_now, ep_name(ep), n);
	return n;
}

int write_tun(int fd, char *data, size_t len)
{
	int is_tun, ep = fd_ep(fd, &is_tun);
	struct pkt *p;
	int other, ok = 0, own;

	if (ep < 0 || !is_tun)
		return 1;
	p = mkpkt(data, len);
	if (!written_tail[ep])
		written_tail[ep] = &written[ep];
	*written_tail[ep] = p;
	written_tail[ep] = &p->next;
	nwritten[ep]++;

	for (other = 0; other < NEP; other++) {
		if (other == ep)
			continue;
		/* the server's tun takes packets of clients; a client's tun
		   takes packets of the server or of other clients */
		if (sim_was_offered(other, (unsigned char *) data, len))
			ok = 1;
	}
	own = sim_was_offered(ep, (unsigned char *) data, len);
	if (getenv("SIMTRACE"))
		fprintf(stderr, "[%7ld] %s write_tun %d bytes%s\n", sim_now,
			ep_name(ep), (int) len, ok ? "" : "  <-- NOT SENT BY ANY PEER");
	if (!ok) {
		violations++;
		printf("VIOLATED: %s wrote a %d-byte packet to its tun device that "
		       "no peer ever read from its tun device (%s)\n",
		       ep_name(ep), (int) len,
		       own ? "it is a packet this party itself sent earlier"
			   : "it matches no packet that was ever sent by anybody");
	}
	return 0;
}

int open_tun(const char *dev) { (void) dev; return -1; }
void close_tun(int fd) { (void) fd; }
int tun_setip(const char *ip, const char *other, int bits)
{ (void) ip; (void) other; (void) bits; return 0; }
int tun_setmtu(const unsigned mtu) { (void) mtu; return 0; }

/* ---------------- fibers / scheduler ---------------- */
static void tramp(void)
{
	struct fiber *f = cur;

	f->fn(f->arg);
	f->finished = 1;
	swapcontext(&f->ctx, &sched_ctx);
}

int sim_spawn(const char *name, int ep, void (*fn)(void *), void *arg)
{
	struct fiber *f;

	if (nfibers >= MAXFIB)
		return -1;
	f = &fibers[nfibers++];
	memset(f, 0, sizeof(*f));
	f->name = name;
	f->ep = ep;
	f->fn = fn;
	f->arg = arg;
	f->deadline = -1;
	getcontext(&f->ctx);
	f->ctx.uc_stack.ss_sp = malloc(STACKSZ);
	f->ctx.uc_stack.ss_size = STACKSZ;
	f->ctx.uc_link = &sched_ctx;
	makecontext(&f->ctx, tramp, 0);
	return 0;
}

static void yield(void)
{
	struct fiber *f = cur;

	swapcontext(&f->ctx, &sched_ctx);
}

static int runnable(struct fiber *f)
{
	if (f->finished)
		return 0;
	if (!f->started)
		return 1;
	if (f->deadline >= 0 && f->deadline <= sim_now)
		return 1;
	if (f->waiting == 1) {
		if (f->want_dns && inbox_ready(f->ep))
			return 1;
		if (f->want_tun && tunq[f->ep])
			return 1;
	} else if (f->waiting == 2) {
		if (f->cond && f->cond())
			return 1;
	}
	return 0;
}

void sim_stop(void)
{
	stop_flag = 1;
}

void sim_run(void)
{
	int i, ran;
	long t;

	while (!stop_flag) {
		ran = 0;
		for (i = 0; i < nfibers && !stop_flag; i++) {
			struct fiber *f = &fibers[i];

			if (!runnable(f))
				continue;
			f->started = 1;
			cur = f;
			swapcontext(&sched_ctx, &f->ctx);
			cur = NULL;
			ran = 1;
		}
		if (ran || stop_flag)
			continue;

		/* everybody is blocked: jump to the next event */
		t = -1;
		for (i = 0; i < nfibers; i++) {
			struct fiber *f = &fibers[i];

			if (f->finished)
				continue;
			if (f->deadline >= 0 && (t < 0 || f->deadline < t))
				t = f->deadline;
		}
		for (i = 0; i < NEP; i++)
			if (inbox[i] && (t < 0 || inbox[i]->deliver_at < t))
				t = inbox[i]->deliver_at;
		if (t < 0) {
			fprintf(stderr, "sim: deadlock at %ld ms\n", sim_now);
			exit(2);
		}
		if (t > sim_now)
			sim_now = t;
		else
			sim_now++;	/* cannot happen, but never spin */
		if (sim_now > TIME_LIMIT_MS) {
			fprintf(stderr, "sim: virtual time limit reached\n");
			exit(2);
		}
	}
}

void sim_sleep(long ms)
{
	struct fiber *f = cur;

	f->waiting = 2;
	f->cond = NULL;
	f->deadline = sim_now + ms;
	yield();
	f->waiting = 0;
	f->deadline = -1;
}

int sim_wait(int (*cond)(void), long timeout_ms)
{
	struct fiber *f = cur;

	if (cond())
		return 1;
	f->waiting = 2;
	f->cond = cond;
	f->deadline = sim_now + timeout_ms;
	yield();
	f->waiting = 0;
	f->cond = NULL;
	f->deadline = -1;
	return cond();
}

/* ---------------- wrapped libc ---------------- */
int __real_select(int, fd_set *, fd_set *, fd_set *, struct timeval *);
ssize_t __real_sendto(int, const void *, size_t, int, const struct sockaddr *, socklen_t);
ssize_t __real_recvfrom(int, void *, size_t, int, struct sockaddr *, socklen_t *);
ssize_t __real_recvmsg(int, struct msghdr *, int);
time_t __real_time(time_t *);
unsigned __real_sleep(unsigned);

int __wrap_select(int nfds, fd_set *r, fd_set *w, fd_set *e, struct timeval *tv)
{
	struct fiber *f = cur;
	int want_dns, want_tun, n;
	long ms;

	if (!f || f->ep < 0)
		return __real_select(nfds, r, w, e, tv);

	want_dns = r && DNS_FD(f->ep) < nfds && FD_ISSET(DNS_FD(f->ep), r);
	want_tun = r && TUN_FD(f->ep) < nfds && FD_ISSET(TUN_FD(f->ep), r);

	if (!((want_dns && inbox_ready(f->ep)) || (want_tun && tunq[f->ep]))) {
		ms = -1;
		if (tv) {
			ms = tv->tv_sec * 1000L + (tv->tv_usec + 999) / 1000;
			if (ms < 0)
				ms = 0;
		}
		f->waiting = 1;
		f->want_dns = want_dns;
		f->want_tun = want_tun;
		f->deadline = (ms >= 0) ? sim_now + ms : -1;
		yield();
		f->waiting = 0;
		f->deadline = -1;
	}

	n = 0;
	if (r)
		FD_ZERO(r);
	if (w)
		FD_ZERO(w);
	if (e)
		FD_ZERO(e);
	if (want_tun && tunq[f->ep]) {
		FD_SET(TUN_FD(f->ep), r);
		n++;
	}
	if (want_dns && inbox_ready(f->ep)) {
		FD_SET(DNS_FD(f->ep), r);
		n++;
	}
	if (tv) {
		tv->tv_sec = 0;
		tv->tv_usec = 0;
	}
	return n;
}

ssize_t __wrap_sendto(int fd, const void *buf, size_t len, int flags,
		      const struct sockaddr *to, socklen_t tolen)
{
	int is_tun, ep = fd_ep(fd, &is_tun);
	int to_ep, copies, i;
	long delay = 5;

	if (ep < 0 || is_tun)
		return __real_sendto(fd, buf, len, flags, to, tolen);

	if (ep == EP_SRV) {
		const struct sockaddr_in *a = (const struct sockaddr_in *) to;

		to_ep = ntohs(a->sin_port) - 4000;
		if (to_ep <= EP_SRV || to_ep >= NEP)
			return len;	/* into the void */
	} else {
		to_ep = EP_SRV;
	}

	copies = 1;
	if (sim_netfilter)
		copies = sim_netfilter(ep, to_ep, buf, (int) len, &delay);
	if (getenv("SIMTRACE")) {
		char name[80];

		sim_qname(buf, (int) len, name, sizeof(name));
		fprintf(stderr, "[%7ld] %s -> %s id %5u %.24s%s (%d bytes) x%d +%ldms\n",
			sim_now, ep_name(ep), ep_name(to_ep),
			(unsigned) (((const unsigned char *) buf)[0] << 8 |
				    ((const unsigned char *) buf)[1]),
			name, strlen(name) > 24 ? ".." : "", (int) len, copies, delay);
	}
	for (i = 0; i < copies; i++)
		inbox_put(to_ep, ep, buf, (int) len, sim_now + delay + i);
	return len;
}

static int take(int fd, void *buf, size_t len, struct sockaddr *from,
		socklen_t *fromlen)
{
	int is_tun, ep = fd_ep(fd, &is_tun);
	struct dgram *g;
	struct sockaddr_in a;
	int n;

	if (ep < 0 || is_tun)
		return -2;
	g = inbox_get(ep);
	if (!g)
		return -1;
	n = g->len < (int) len ? g->len : (int) len;
	memcpy(buf, g->data, n);
	ep_addr(g->from_ep, &a);
	if (from && fromlen) {
		socklen_t l = *fromlen < sizeof(a) ? *fromlen : sizeof(a);

		memcpy(from, &a, l);
		*fromlen = sizeof(a);
	}
	free(g);
	return n;
}

ssize_t __wrap_recvfrom(int fd, void *buf, size_t len, int flags,
			struct sockaddr *from, socklen_t *fromlen)
{
	int n = take(fd, buf, len, from, fromlen);

	if (n == -2)
		return __real_recvfrom(fd, buf, len, flags, from, fromlen);
	return n;
}

ssize_t __wrap_recvmsg(int fd, struct msghdr *msg, int flags)
{
	socklen_t l = msg->msg_namelen;
	int n;

	if (msg->msg_iovlen < 1)
		return -1;
	n = take(fd, msg->msg_iov[0].iov_base, msg->msg_iov[0].iov_len,
		 msg->msg_name, &l);
	if (n == -2)
		return __real_recvmsg(fd, msg, flags);
	msg->msg_namelen = l;
	msg->msg_controllen = 0;
	msg->msg_flags = 0;
	return n;
}

time_t __wrap_time(time_t *t)
{
	time_t v = TIME_BASE + sim_now / 1000;

	if (t)
		*t = v;
	return v;
}

unsigned __wrap_sleep(unsigned s)
{
	if (cur)
		sim_sleep(1000L * s);
	return 0;
}

void __wrap_syslog(int pri, const char *fmt, ...)
{
	(void) pri; (void) fmt;
}

/* ---------------- helpers ---------------- */
void sim_fill_random(unsigned char *p, int len, unsigned *seed)
{
	int i;

	for (i = 0; i < len; i++) {
		*seed = *seed * 1103515245u + 12345u;
		p[i] = (*seed >> 16) & 0xff;
	}
}

void sim_make_packet(unsigned char *p, int len, unsigned src, unsigned dst,
		     unsigned *seed)
{
	sim_fill_random(p, len, seed);
	if (len < 24)
		return;
	p[0] = 0; p[1] = 0; p[2] = 8; p[3] = 0;	/* Linux tun header: IPv4 */
	p[4] = 0x45; p[5] = 0;
	p[6] = ((len - 4) >> 8) & 0xff; p[7] = (len - 4) & 0xff;
	p[12] = 64; p[13] = 17;				/* ttl, UDP */
	memcpy(p + 16, &src, 4);			/* network byte order */
	memcpy(p + 20, &dst, 4);
}
