#!/bin/sh
# usage: run.sh <iodine source tree root>
# exit 0 = PASS (short handshake replies are judged only by the bytes received)
# exit 1 = FAIL (never-written bytes of the reply buffer take part in the decision)
TREE=${1:?usage: run.sh <source tree root>}
TREE=$(cd "$TREE" && pwd) || exit 2
HERE=$(cd "$(dirname "$0")" && pwd)
TMP=$(mktemp -d) || exit 2
trap 'rm -rf "$TMP"' EXIT
S=$TREE/src

sed -e 's/\([Bb][Aa][Ss][Ee]64\)/\1u/g ; s/0123456789+/0123456789_/' < "$S/base64.c" > "$TMP/base64u.c"
${CC:-gcc} -std=gnu99 -g -O0 -w -DLINUX -I"$S" -o "$TMP/demo" "$HERE/demo.c" \
	"$S/dns.c" "$S/read.c" "$S/encoding.c" "$S/base32.c" "$S/base64.c" "$TMP/base64u.c" \
	"$S/base128.c" "$S/login.c" "$S/md5.c" "$S/common.c" -lz || exit 2

rc=0
"$TMP/demo" || rc=1

# Independent confirmation when valgrind is around: memcheck flags the compare
# of the unwritten bytes in a single plain run.
if command -v valgrind >/dev/null 2>&1; then
	if valgrind -q --error-exitcode=9 "$TMP/demo" once >"$TMP/vg.out" 2>&1; then
		echo "valgrind: no use of uninitialised bytes"
	else
		echo "valgrind: use of uninitialised bytes:"
		grep -E "handshake_" "$TMP/vg.out" | sort | uniq -c | sed "s/==[0-9]*==//"
		rc=1
	fi
fi

if [ $rc -eq 0 ]; then echo PASS; else echo FAIL; fi
exit $rc
