/*
 * finding1 demo: handshake replies that are shorter than the keyword they are
 * compared with make the client read the never-written rest of its reply
 * buffer, so its decision depends on what earlier calls left on the stack.
 *
 * The real src/client.c is compiled in unchanged; only sendto()/select() are
 * redirected so that a scripted "server" answers each query synchronously over
 * an AF_UNIX datagram socketpair (no network, no tun, no root).
 */
#define _GNU_SOURCE
#include <sys/types.h>
#include <sys/socket.h>
#include <sys/select.h>
#include <unistd.h>
#include <fcntl.h>
#include <poll.h>
#include <string.h>
#include <stdlib.h>
#include <stdio.h>

static ssize_t my_sendto(int fd, const void *b, size_t l, int fl,
			 const struct sockaddr *a, socklen_t al);
static int my_select(int n, fd_set *r, fd_set *w, fd_set *e, struct timeval *tv);
#define sendto my_sendto
#define select my_select
#include "client.c"		/* found through -I<tree>/src */
#undef sendto
#undef select

/* tun.c is not linked: nothing here may touch a device or run ifconfig */
int write_tun(int fd, char *data, size_t len) { return 0; }
ssize_t read_tun(int fd, char *buf, size_t len) { return -1; }
int tun_setip(const char *ip, const char *oip, int nb) { return 0; }
int tun_setmtu(const unsigned mtu) { return 0; }

static int sv[2];
static const char *reply;	/* payload the scripted server returns */
static int replylen;

static int my_select(int n, fd_set *r, fd_set *w, fd_set *e, struct timeval *tv)
{
	struct pollfd p = { sv[0], POLLIN, 0 };
	int k = poll(&p, 1, 0);		/* never really wait */
	FD_ZERO(r);
	if (k > 0) { FD_SET(sv[0], r); return 1; }
	return 0;
}

/* The server: answer the query just sent with a NULL record holding the
   payload, same id, same name. Perfectly well-formed DNS. */
static ssize_t my_sendto(int fd, const void *b, size_t l, int fl,
			 const struct sockaddr *a, socklen_t al)
{
	struct query q;
	char pkt[4096];
	int len;

	memset(&q, 0, sizeof(q));
	if (dns_decode(NULL, 0, &q, QR_QUERY, (char *) b, l) <= 0)
		return l;
	len = dns_encode(pkt, sizeof(pkt), &q, QR_ANSWER, reply, replylen);
	if (len > 0)
		send(sv[1], pkt, len, 0);
	return l;
}

/* Leave a chosen text where the next call's frame will be. */
static void __attribute__((noinline))
dirty_stack(const char *pat, int patlen, int phase)
{
	volatile char big[24 * 1024];
	size_t i;

	for (i = 0; i < sizeof(big); i++)
		big[i] = pat ? pat[(i + phase) % patlen] : 0;
}

static void setup(void)
{
	static char pw[33] = "secret";
	char tmp[4096];

	while (recv(sv[0], tmp, sizeof(tmp), 0) > 0)
		;
	client_init();
	topdomain = "t.example";
	password = pw;
	do_qtype = T_NULL;
	userid = 3; userid_char = '3'; userid_char2 = '3';
	dataenc = &base32_ops;
	lazymode = 0;
	selecttimeout = 4;
}

/* one codec-switch step against a server that answers just "BAD" */
static int __attribute__((noinline))
codec_switch_step(void)
{
	reply = "BAD"; replylen = 3;
	handshake_switch_codec(sv[0], 6);
	return dataenc == &base64_ops;	/* 1: client now encodes upstream in Base64 */
}

/* one lazy-mode step against a server that answers just "La" */
static int __attribute__((noinline))
lazy_step(void)
{
	lazymode = 1;
	reply = "La"; replylen = 2;
	handshake_try_lazy(sv[0]);
	return lazymode;
}

int main(int argc, char **argv)
{
	int phase, clean, differs = 0;

	socketpair(AF_UNIX, SOCK_DGRAM, 0, sv);
	fcntl(sv[0], F_SETFL, O_NONBLOCK);
	fcntl(sv[1], F_SETFL, O_NONBLOCK);
	if (!freopen("/dev/null", "w", stderr))
		return 2;

	if (argc > 1 && !strcmp(argv[1], "once")) {
		/* for valgrind / MSan: one plain run of each step */
		setup();
		codec_switch_step();
		setup();
		lazy_step();
		/* an honest server acknowledging "-m 16961": the two bytes 0x42 0x41 */
		setup();
		reply = "BA"; replylen = 2;
		handshake_set_fragsize(sv[0], 16961);
		return 0;
	}

	/* Same datagrams, different history. */
	setup();
	dirty_stack(NULL, 1, 0);
	clean = codec_switch_step();
	printf("codec switch, reply \"BAD\", zeroed stack      : %s\n",
	       clean ? "client switches to Base64" : "client keeps Base32");
	for (phase = 0; phase < 6; phase++) {
		int r;
		setup();
		dirty_stack("BADLEN", 6, phase);
		r = codec_switch_step();
		if (r != clean) {
			printf("codec switch, reply \"BAD\", stale text phase %d: %s\n",
			       phase, r ? "client switches to Base64" : "client keeps Base32");
			differs = 1;
		}
	}

	setup();
	dirty_stack(NULL, 1, 0);
	clean = lazy_step();
	printf("lazy switch,  reply \"La\",  zeroed stack      : lazymode=%d\n", clean);
	for (phase = 0; phase < 4; phase++) {
		int r;
		setup();
		dirty_stack("Lazy", 4, phase);
		r = lazy_step();
		if (r != clean) {
			printf("lazy switch,  reply \"La\",  stale text phase %d: lazymode=%d\n",
			       phase, r);
			differs = 1;
		}
	}

	if (differs) {
		printf("FAIL: identical reply datagrams, different decisions - the client read bytes it never received\n");
		return 1;
	}
	printf("PASS: decisions depend only on the bytes received\n");
	return 0;
}
