/*
 * Small in-process harness around the real iodined.c.
 *
 * iodined.c is #included (main renamed), so its static functions are
 * reachable.  The server's DNS socket and all "relay"/client sockets are real
 * UDP sockets on 127.0.0.1; there is no tun device (the tun fd is a unix
 * datagram socketpair) and nothing needs root.  The harness drives the server
 * by calling tunnel_dns()/tunnel_tun()/tunnel_bind() once per event, exactly
 * as the select loop in tunnel() would.
 *
 * Every query datagram sent to the server is entered in a ledger; every
 * datagram the server emits to one of our sockets is checked against it:
 * it must match a not-yet-answered query from that same socket with the same
 * DNS id, question name and question type (property C14).
 */
#ifndef HARNESS_H
#define HARNESS_H

#define main iodined_main
#include "iodined.c"
#undef main

#include <poll.h>
#include <errno.h>
#include <stdarg.h>

#define H_TOPDOMAIN "t.test"
#define H_MAXSOCK 8
#define H_MAXQ 256

static int h_srv_fd;
static struct dnsfd h_fds;
static struct sockaddr_in h_srv_addr;
static int h_tun[2];		/* h_tun[0] is handed to the server as tun_fd */
static int h_bind_fd;		/* 0 = forwarding disabled */

static int h_sock[H_MAXSOCK];
static const char *h_sockname[H_MAXSOCK];
static int h_nsock;

struct h_sent {
	int sock;
	unsigned short id;
	unsigned short type;
	char name[QUERY_NAME_SIZE];
	int answered;
};
static struct h_sent h_ledger[H_MAXQ];
static int h_nsent;
static int h_violations;

static void h_die(const char *fmt, ...)
{
	va_list ap;
	va_start(ap, fmt);
	fprintf(stdout, "HARNESS ERROR: ");
	vfprintf(stdout, fmt, ap);
	fprintf(stdout, "\n");
	va_end(ap);
	exit(2);
}

static int h_udp(struct sockaddr_in *bound)
{
	struct sockaddr_in a;
	socklen_t alen = sizeof(a);
	int fd = socket(AF_INET, SOCK_DGRAM, 0);
	if (fd < 0) h_die("socket: %s", strerror(errno));
	memset(&a, 0, sizeof(a));
	a.sin_family = AF_INET;
	a.sin_addr.s_addr = htonl(INADDR_LOOPBACK);
	a.sin_port = 0;
	if (bind(fd, (struct sockaddr *) &a, sizeof(a)) < 0)
		h_die("bind: %s", strerror(errno));
	if (getsockname(fd, (struct sockaddr *) &a, &alen) < 0)
		h_die("getsockname: %s", strerror(errno));
	if (bound) *bound = a;
	return fd;
}

/* A "relay" / client side socket; returns its index */
static int h_newsock(const char *name)
{
	if (h_nsock >= H_MAXSOCK) h_die("too many sockets");
	h_sock[h_nsock] = h_udp(NULL);
	h_sockname[h_nsock] = name;
	return h_nsock++;
}

static void h_setup(void)
{
	static char td[] = H_TOPDOMAIN;

	topdomain = td;
	memset(password, 0, sizeof(password));
	strcpy(password, "secret");
	my_ip = inet_addr("10.9.0.1");
	my_mtu = 1130;
	netmask = 27;
	check_ip = 1;
	debug = 0;
	created_users = init_users(my_ip, netmask);
	fw_query_init();

	h_srv_fd = h_udp(&h_srv_addr);
	h_fds.v4fd = h_srv_fd;
	h_fds.v6fd = -1;
	if (socketpair(AF_UNIX, SOCK_DGRAM, 0, h_tun) < 0)
		h_die("socketpair: %s", strerror(errno));
	h_bind_fd = 0;
	openlog("demo", LOG_PERROR * 0, LOG_DAEMON);
}

static int h_readable(int fd, int ms)
{
	struct pollfd p;
	p.fd = fd;
	p.events = POLLIN;
	return poll(&p, 1, ms) > 0;
}

/* Let the server handle every datagram waiting on its DNS socket */
static void h_pump(void)
{
	while (h_readable(h_srv_fd, 50))
		tunnel_dns(h_tun[0], h_srv_fd, &h_fds, h_bind_fd);
}

/* Send one query datagram to the server and let the server process it */
static void h_query(int s, unsigned short id, unsigned short type, const char *name)
{
	char buf[2048];
	struct query q;
	int len;

	memset(&q, 0, sizeof(q));
	q.id = id;
	q.type = type;
	len = dns_encode(buf, sizeof(buf), &q, QR_QUERY, name, strlen(name));
	if (len <= 0) h_die("dns_encode");

	if (h_nsent >= H_MAXQ) h_die("ledger full");
	h_ledger[h_nsent].sock = s;
	h_ledger[h_nsent].id = id;
	h_ledger[h_nsent].type = type;
	strncpy(h_ledger[h_nsent].name, name, QUERY_NAME_SIZE - 1);
	h_ledger[h_nsent].answered = 0;
	h_nsent++;

	printf("  -> %-3s query id %5u type %3u %s\n", h_sockname[s], id, type, name);
	if (sendto(h_sock[s], buf, len, 0, (struct sockaddr *) &h_srv_addr,
		   sizeof(h_srv_addr)) != len)
		h_die("sendto: %s", strerror(errno));
	h_pump();
}

/* Collect everything the server emitted to our sockets and check it against
   the ledger.  Returns the number of datagrams seen. */
static int h_collect(void)
{
	int s, i, n = 0;

	for (s = 0; s < h_nsock; s++) {
		while (h_readable(h_sock[s], 20)) {
			char pkt[64*1024];
			char name[QUERY_NAME_SIZE];
			unsigned short type, class;
			char *data;
			HEADER *hdr;
			int r, id, found = -1;

			r = recv(h_sock[s], pkt, sizeof(pkt), 0);
			if (r < (int) sizeof(HEADER)) {
				printf("  <- %-3s short/non-DNS datagram (%d bytes)\n",
				       h_sockname[s], r);
				continue;
			}
			n++;
			hdr = (HEADER *) pkt;
			id = ntohs(hdr->id);
			data = pkt + sizeof(HEADER);
			name[0] = '\0';
			type = 0;
			if (ntohs(hdr->qdcount) >= 1) {
				readname(pkt, r, &data, name, sizeof(name));
				readshort(pkt, &data, &type);
				readshort(pkt, &data, &class);
			}
			printf("  <- %-3s %s id %5u type %3u %s\n", h_sockname[s],
			       hdr->qr ? "answer" : "QUERY?", id, type, name);

			for (i = 0; i < h_nsent; i++) {
				if (h_ledger[i].answered) continue;
				if (h_ledger[i].sock != s) continue;
				if (h_ledger[i].id != id) continue;
				if (h_ledger[i].type != type) continue;
				if (strcmp(h_ledger[i].name, name)) continue;
				found = i;
				break;
			}
			if (found >= 0) {
				h_ledger[found].answered = 1;
			} else {
				h_violations++;
				printf("     ^^^ VIOLATION: %s never sent an unanswered query "
				       "with this id/name/type\n", h_sockname[s]);
			}
		}
	}
	return n;
}

/* --- building iodine query names --- */

static void h_b32name(char *out, size_t outlen, char cmd, const char *data, int datalen)
{
	char enc[256];
	size_t space = sizeof(enc) - 1;

	base32_ops.encode(enc, &space, data, datalen);
	snprintf(out, outlen, "%c%s.%s", cmd, enc, H_TOPDOMAIN);
}

static void h_pingname(char *out, size_t outlen, int userid, int cmc)
{
	char d[4];

	d[0] = userid;
	d[1] = 0;			/* acks downstream 0/0 */
	d[2] = (cmc >> 8) & 0xff;
	d[3] = cmc & 0xff;
	h_b32name(out, outlen, 'p', d, 4);
}

/* Upstream data query name: header (user, up seq/frag, acked down seq/frag,
   last-fragment flag, CMC char) + Base32 data, dotted so that no label
   exceeds 63 chars. */
static void h_dataname(char *out, size_t outlen, int userid, int up_seq, int up_frag,
		       int dn_seq, int dn_frag, int last, char cmc,
		       const char *data, int datalen)
{
	char enc[512];
	char host[600];
	size_t space = sizeof(enc) - 1;
	int i, n = 0, elen;

	elen = base32_ops.encode(enc, &space, data, datalen);
	host[n++] = "0123456789abcdef"[userid & 15];
	host[n++] = b32_5to8(((up_seq & 7) << 2) | ((up_frag & 15) >> 2));
	host[n++] = b32_5to8(((up_frag & 3) << 3) | (dn_seq & 7));
	host[n++] = b32_5to8(((dn_frag & 15) << 1) | (last & 1));
	host[n++] = cmc;
	for (i = 0; i < elen; i++) {
		if ((n + 1) % 51 == 0)
			host[n++] = '.';
		host[n++] = enc[i];
	}
	host[n] = '\0';
	snprintf(out, outlen, "%s.%s", host, H_TOPDOMAIN);
	if (strlen(out) > 250) h_die("data name too long");
}

/* A small compressed IP packet (with the 4 byte tun header) for dst.
   Returns the compressed length. */
static int h_ippacket(char *out, size_t outlen, in_addr_t src, in_addr_t dst, int serial)
{
	char raw[4 + sizeof(struct ip) + 8];
	struct ip *ip = (struct ip *) (raw + 4);
	unsigned long zlen = outlen;

	memset(raw, 0, sizeof(raw));
	raw[2] = 8;			/* ethertype IPv4 */
	ip->ip_v = 4;
	ip->ip_hl = 5;
	ip->ip_len = htons(sizeof(struct ip) + 8);
	ip->ip_ttl = 64;
	ip->ip_p = 17;
	ip->ip_id = htons(serial);
	ip->ip_src.s_addr = src;
	ip->ip_dst.s_addr = dst;
	if (compress2((uint8_t *) out, &zlen, (uint8_t *) raw, sizeof(raw), 9) != Z_OK)
		h_die("compress2");
	return zlen;
}

/* Version handshake + login + lazy mode for a fresh session, all through
   real query datagrams from socket s.  Returns the user id. */
static int h_session(int s, unsigned short type, int lazy)
{
	char name[QUERY_NAME_SIZE];
	char d[32];
	int userid, i;
	static unsigned short id = 40000;
	static int cmc = 7000;

	d[0] = (PROTOCOL_VERSION >> 24) & 0xff;
	d[1] = (PROTOCOL_VERSION >> 16) & 0xff;
	d[2] = (PROTOCOL_VERSION >> 8) & 0xff;
	d[3] = PROTOCOL_VERSION & 0xff;
	d[4] = (cmc >> 8) & 0xff;
	d[5] = cmc++ & 0xff;
	h_b32name(name, sizeof(name), 'v', d, 6);
	h_query(s, id++, type, name);

	userid = -1;
	for (i = created_users - 1; i >= 0; i--)
		if (users[i].active && !users[i].authenticated)
			userid = i;	/* the slot the V query just took */
	if (userid < 0) h_die("version handshake failed");

	d[0] = userid;
	login_calculate(d + 1, 16, password, users[userid].seed);
	d[17] = (cmc >> 8) & 0xff;
	d[18] = cmc++ & 0xff;
	h_b32name(name, sizeof(name), 'l', d, 19);
	h_query(s, id++, type, name);
	if (!users[userid].authenticated) h_die("login failed");

	if (lazy) {
		snprintf(name, sizeof(name), "o%cl%c%c%c.%s", b32_5to8(userid),
			 b32_5to8((cmc >> 10) & 31), b32_5to8((cmc >> 5) & 31),
			 b32_5to8(cmc & 31), H_TOPDOMAIN);
		cmc++;
		h_query(s, id++, type, name);
		if (!users[userid].lazy) h_die("lazy mode switch failed");
	}
	h_collect();
	if (h_violations) h_die("violations during handshake");
	return userid;
}

static int h_verdict(void)
{
	if (h_violations) {
		printf("FAIL: %d emitted datagram(s) correspond to no unanswered query (C14)\n",
		       h_violations);
		return 1;
	}
	printf("PASS: every emitted answer matches a distinct unanswered query\n");
	return 0;
}

#endif
