/*
 * C14 / finding1 demonstration: with forwarding enabled (iodined -b port),
 * the reply to a forwarded query is sent to whoever used that DNS id first,
 * even if that asker was answered long ago.
 *
 *   X asks  www.example.org  A, id 5   -> forwarded to the local DNS server
 *   local DNS server replies           -> relayed to X            (fine)
 *   Y asks  mail.example.net A, id 5   -> forwarded
 *   local DNS server replies           -> must go to Y
 *
 * Everything runs over loopback UDP: LD plays the DNS server that iodined -b
 * forwards to; it answers each forwarded query once by echoing it with QR=1.
 */
#include "harness.h"

static int ld_fd;

/* The "local DNS server": answer every query waiting on its socket, once */
static int ld_serve(void)
{
	int n = 0;

	while (h_readable(ld_fd, 50)) {
		char pkt[4096];
		struct sockaddr_in from;
		socklen_t fromlen = sizeof(from);
		HEADER *hdr = (HEADER *) pkt;
		int r;

		r = recvfrom(ld_fd, pkt, sizeof(pkt), 0, (struct sockaddr *) &from, &fromlen);
		if (r < (int) sizeof(HEADER)) continue;
		printf("  .. LD  got forwarded query id %u, replying\n", ntohs(hdr->id));
		hdr->qr = 1;
		hdr->arcount = 0;
		r -= 11;			/* drop the EDNS0 OPT record */
		sendto(ld_fd, pkt, r, 0, (struct sockaddr *) &from, fromlen);
		n++;
	}
	return n;
}

static void relay_replies(void)
{
	while (h_readable(h_bind_fd, 50))
		tunnel_bind(h_bind_fd, &h_fds);
}

int main(void)
{
	struct sockaddr_in ld_addr;
	int x, y;

	h_setup();
	ld_fd = h_udp(&ld_addr);
	bind_port = ntohs(ld_addr.sin_port);	/* iodined -b <port> */
	h_bind_fd = h_udp(NULL);		/* as opened in main() */

	x = h_newsock("X");
	y = h_newsock("Y");

	printf("X asks something outside the tunnel domain\n");
	h_query(x, 5, T_A, "www.example.org");
	if (ld_serve() != 1) h_die("query was not forwarded");
	relay_replies();
	h_collect();

	printf("later Y asks something else and happens to use the same DNS id\n");
	h_query(y, 5, T_A, "mail.example.net");
	if (ld_serve() != 1) h_die("query was not forwarded");
	relay_replies();
	h_collect();

	return h_verdict();
}
