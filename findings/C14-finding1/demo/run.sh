#!/bin/sh
# usage: run.sh <iodine source tree root>
# Builds the demo against <tree>/src in a temporary directory and runs it.
# exit 0 = PASS (property holds), 1 = FAIL (property violated), 2 = harness trouble
TREE=${1:?usage: run.sh <source tree root>}
TREE=$(cd "$TREE" && pwd) || exit 2
HERE=$(cd "$(dirname "$0")" && pwd)
TMP=$(mktemp -d) || exit 2
trap 'rm -rf "$TMP"' EXIT

mkdir "$TMP/src" || exit 2
cp "$TREE"/src/*.c "$TREE"/src/*.h "$TMP/src/" || exit 2
# same rule as src/Makefile
( echo '/* No use in editing, produced by Makefile! */'
  sed -e 's/\([Bb][Aa][Ss][Ee]64\)/\1u/g ; s/0123456789+/0123456789_/' < "$TREE/src/base64.c"
) > "$TMP/src/base64u.c"

OS=$(uname | tr a-z A-Z)
OBJS="tun dns read encoding login base32 base64 base64u base128 md5 common user fw_query"
SRCS=""
for o in $OBJS; do SRCS="$SRCS $TMP/src/$o.c"; done

${CC:-cc} -std=c99 -g -O0 -w -D$OS -D_GNU_SOURCE -DGITREVISION=\"demo\" -I"$TMP/src" -I"$HERE" \
	-o "$TMP/demo" "$HERE/demo.c" $SRCS -lz > "$TMP/build.log" 2>&1
if [ $? -ne 0 ]; then
	cat "$TMP/build.log"
	echo "BUILD ERROR"
	exit 2
fi

"$TMP/demo"
rc=$?
[ $rc -eq 0 ] && exit 0
[ $rc -eq 1 ] && exit 1
exit 2
