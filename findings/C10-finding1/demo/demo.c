/* finding1 demo: iodine client started as  iodine -M 100 <100-char topdomain>
 *
 * The real client.c is compiled in; only sendto() is intercepted (ld --wrap)
 * so that the DNS datagrams the client emits can be inspected.
 */
#include "client.c"
#include "dnscheck.h"

static unsigned char sent[8192];
static int sentlen = -1;

ssize_t __wrap_sendto(int fd, const void *buf, size_t len, int flags,
		      const struct sockaddr *to, socklen_t tolen);
ssize_t __wrap_sendto(int fd, const void *buf, size_t len, int flags,
		      const struct sockaddr *to, socklen_t tolen)
{
	(void) fd; (void) flags; (void) to; (void) tolen;
	sentlen = len > sizeof(sent) ? (int) sizeof(sent) : (int) len;
	memcpy(sent, buf, sentlen);
	return len;
}

static int check_last(const char *what)
{
	struct dnsinfo di;
	char why[400];

	if (sentlen < 0) {
		printf("  %-28s nothing emitted\n", what);
		return 0;
	}
	if (dnscheck(sent, sentlen, &di, why, sizeof(why))) {
		printf("  %-28s %4d-byte datagram MALFORMED: %s\n", what, sentlen, why);
		sentlen = -1;
		return 1;
	}
	printf("  %-28s %4d-byte datagram ok, name is %d bytes\n", what, sentlen, di.qnamelen);
	sentlen = -1;
	return 0;
}

int main(void)
{
	/* 100 characters, every label <= 63: accepted by check_topdomain() */
	static char td[] =
		"aaaaaaaaaaaaaaaaaaaaaaaaaaaaaa."
		"bbbbbbbbbbbbbbbbbbbbbbbbbbbbbb."
		"cccccccccccccccccccccccccccccc.example";
	char *err = NULL;
	int bad = 0;
	int maxlen = 100;	/* -M 100; iodine.c clamps -M to 10..255 */
	int i;

	if (check_topdomain(td, 0, &err)) {
		printf("topdomain rejected: %s\n", err);
		return 2;
	}
	printf("topdomain is %d chars, -M %d\n", (int) strlen(td), maxlen);

	srand(1);
	client_init();
	client_set_topdomain(td);
	client_set_hostname_maxlen(maxlen);
	client_set_qtype("NULL");
	userid = 3;
	userid_char = '3';
	userid_char2 = '3';

	/* handshake queries are small, they still fit */
	send_version(5, PROTOCOL_VERSION);
	bad |= check_last("version query");
	send_ping(5);
	bad |= check_last("ping");

	/* downstream fragment size autoprobe (always done unless -m is given) */
	send_fragsize_probe(5, 768);
	bad |= check_last("fragsize probe");

	/* one 300-byte (compressed) IP packet going upstream */
	for (i = 0; i < 300; i++)
		outpkt.data[i] = (char) (i * 7 + 1);
	outpkt.len = 300;
	outpkt.offset = 0;
	outpkt.sentlen = 0;
	outpkt.seqno = 1;
	outpkt.fragment = 0;
	send_chunk(5);
	bad |= check_last("upstream data chunk");
	printf("  (the chunk claims to carry %d of 300 bytes)\n", outpkt.sentlen);

	printf(bad ? "FAIL\n" : "PASS\n");
	return bad ? 1 : 0;
}
