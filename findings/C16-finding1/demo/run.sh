#!/bin/sh
# usage: run.sh <source tree root>
# Builds the demo against <tree>/src in a temporary directory and runs it.
# Exit status: 0 = PASS (property holds), 1 = FAIL (property violated),
# 2 = could not build / harness problem.

TREE=${1:?usage: run.sh <source tree root>}
TREE=$(cd "$TREE" && pwd) || exit 2
HERE=$(cd "$(dirname "$0")" && pwd) || exit 2
SRC=$TREE/src
TMP=$(mktemp -d) || exit 2
trap 'rm -rf "$TMP"' EXIT

CFLAGS="-std=c99 -g -O0 -w -D_GNU_SOURCE -DLINUX -DGITREVISION=\"demo\" -I$SRC -I$HERE"

sed -e 's/\([Bb][Aa][Ss][Ee]64\)/\1u/g ; s/0123456789+/0123456789_/' \
	< "$SRC/base64.c" > "$TMP/base64u.c" || exit 2

for f in tun dns read encoding login base32 base64 base128 md5 common user fw_query; do
	cc $CFLAGS -c "$SRC/$f.c" -o "$TMP/$f.o" || exit 2
done
cc $CFLAGS -c "$TMP/base64u.c" -o "$TMP/base64u.o" || exit 2
cc $CFLAGS -c "$HERE/demo.c" -o "$TMP/demo.o" || exit 2
cc -o "$TMP/demo" "$TMP"/*.o -lz || exit 2

"$TMP/demo"
rc=$?
[ $rc -eq 0 ] && exit 0
[ $rc -eq 1 ] && exit 1
exit 2
