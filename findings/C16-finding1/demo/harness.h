/*
 * Small in-process test bench for iodined.
 *
 * The whole of src/iodined.c is included (main renamed) so that the static
 * handlers can be driven directly.  Queries are real DNS datagrams sent over
 * loopback UDP from one of two "relay" sockets to the server socket and are
 * taken in by the server's own tunnel_dns(); answers are read back from the
 * relay sockets and parsed with dns_decode().  The tun device is one end of
 * an AF_UNIX datagram socketpair, so every packet the server writes to "tun"
 * can be counted and inspected, and packets can be injected from "tun".
 *
 * No network other than 127.0.0.1, no tun device, no root needed.
 */
#ifndef HARNESS_H
#define HARNESS_H

#define main iodined_main
#include "iodined.c"
#undef main

#include <fcntl.h>
#include <sys/un.h>

#define H_TOPDOMAIN "t.example"
#define H_PASSWORD  "secret"
#define H_NRELAY    2

static int h_srv_fd;
static struct sockaddr_in h_srv_addr;
static int h_relay_fd[H_NRELAY];
static int h_tun_srv;		/* given to the server as its tun fd */
static int h_tun_peer;		/* our end */
static struct dnsfd h_fds;
static unsigned short h_next_id = 0x1000;
static int h_userid = -1;
static unsigned short h_qtype = T_NULL;

static void h_die(const char *msg)
{
	fprintf(stderr, "harness: %s\n", msg);
	exit(2);
}

static int h_udp(struct sockaddr_in *out)
{
	struct sockaddr_in a;
	socklen_t alen = sizeof(a);
	int fd = socket(AF_INET, SOCK_DGRAM, 0);

	if (fd < 0)
		h_die("socket");
	memset(&a, 0, sizeof(a));
	a.sin_family = AF_INET;
	a.sin_addr.s_addr = htonl(INADDR_LOOPBACK);
	a.sin_port = 0;
	if (bind(fd, (struct sockaddr *) &a, sizeof(a)) < 0)
		h_die("bind");
	if (getsockname(fd, (struct sockaddr *) &a, &alen) < 0)
		h_die("getsockname");
	fcntl(fd, F_SETFL, fcntl(fd, F_GETFL) | O_NONBLOCK);
	if (out)
		*out = a;
	return fd;
}

static void h_init(void)
{
	int sp[2];
	int i;

	topdomain = H_TOPDOMAIN;
	memset(password, 0, sizeof(password));
	strcpy(password, H_PASSWORD);
	check_ip = 1;
	my_mtu = 1130;
	my_ip = inet_addr("10.9.0.1");
	netmask = 27;
	ns_ip = INADDR_ANY;
	debug = getenv("H_DEBUG") ? atoi(getenv("H_DEBUG")) : 0;
	created_users = init_users(my_ip, netmask);

	h_srv_fd = h_udp(&h_srv_addr);
	for (i = 0; i < H_NRELAY; i++)
		h_relay_fd[i] = h_udp(NULL);
	h_fds.v4fd = h_srv_fd;
	h_fds.v6fd = -1;

	if (socketpair(AF_UNIX, SOCK_DGRAM, 0, sp) < 0)
		h_die("socketpair");
	h_tun_srv = sp[0];
	h_tun_peer = sp[1];
	fcntl(h_tun_peer, F_SETFL, fcntl(h_tun_peer, F_GETFL) | O_NONBLOCK);
	fcntl(h_tun_srv, F_SETFL, fcntl(h_tun_srv, F_GETFL) | O_NONBLOCK);
}

static unsigned short h_newid(void)
{
	h_next_id++;
	if (h_next_id == 0)
		h_next_id = 1;
	return h_next_id;
}

/* Deliver one DNS query with this name to the server, from relay `relay`,
   and let the server handle it. */
static void h_deliver(int relay, const char *name, unsigned short id)
{
	struct query q;
	char buf[4096];
	int len;

	memset(&q, 0, sizeof(q));
	q.type = h_qtype;
	q.id = id;
	len = dns_encode(buf, sizeof(buf), &q, QR_QUERY, name, strlen(name));
	if (len <= 0)
		h_die("dns_encode");
	if (sendto(h_relay_fd[relay], buf, len, 0,
		   (struct sockaddr *) &h_srv_addr, sizeof(h_srv_addr)) != len)
		h_die("sendto");
	tunnel_dns(h_tun_srv, h_srv_fd, &h_fds, 0);
}

/* Next answer that arrived at relay `relay`.
   Returns -2 if there is none, else the length of the payload (0 for the
   server's one-byte "illegal" reply to a suppressed duplicate). */
static int h_answer(int relay, char *payload, int payloadlen, unsigned short *id)
{
	struct query q;
	char pkt[64*1024];
	int r;
	int rv;

	r = recv(h_relay_fd[relay], pkt, sizeof(pkt), 0);
	if (r <= 0)
		return -2;
	memset(&q, 0, sizeof(q));
	rv = dns_decode(payload, payloadlen, &q, QR_ANSWER, pkt, r);
	if (id)
		*id = q.id;
	if (rv < 0)
		rv = 0;
	return rv;
}

static int h_drain(int relay)
{
	char tmp[4096];
	int n = 0;

	while (h_answer(relay, tmp, sizeof(tmp), NULL) != -2)
		n++;
	return n;
}

/* The server's select loop, split in the part before select() ... */
static void h_loop_top(void)
{
	int userid;

	for (userid = 0; userid < created_users; userid++) {
		if (users[userid].active && !users[userid].disabled &&
		    users[userid].last_pkt + 60 > time(NULL)) {
			users[userid].q_sendrealsoon_new = 0;
		}
	}
}

/* ... and the part after the handlers have run */
static void h_loop_tail(void)
{
	int userid;

	for (userid = 0; userid < created_users; userid++)
		if (users[userid].active && !users[userid].disabled &&
		    users[userid].last_pkt + 60 > time(NULL) &&
		    users[userid].q_sendrealsoon.id != 0 &&
		    users[userid].conn == CONN_DNS_NULL &&
		    !users[userid].q_sendrealsoon_new) {
			int dns_fd = get_dns_fd(&h_fds, &users[userid].q_sendrealsoon.from);
			send_chunk_or_dataless(dns_fd, userid, &users[userid].q_sendrealsoon);
		}
}

/* One pass of the loop in which select() timed out (20 ms timer) */
static void h_timer_20ms(void)
{
	h_loop_top();
	h_loop_tail();
}

/* Number of packets the server has written to its tun device since the
   last call; the last one is copied to buf if buf != NULL. */
static int h_tun_written(char *buf, int buflen, int *lastlen)
{
	char tmp[64*1024];
	int n = 0;
	int r;

	while ((r = recv(h_tun_peer, tmp, sizeof(tmp), 0)) > 0) {
		n++;
		if (buf) {
			memcpy(buf, tmp, MIN(r, buflen));
			if (lastlen)
				*lastlen = r;
		}
	}
	return n;
}

/* A packet arrives from the tun device */
static void h_tun_inject(const char *frame, int len)
{
	if (send(h_tun_peer, frame, len, 0) != len)
		h_die("tun inject");
	tunnel_tun(h_tun_srv, &h_fds);
}

static void h_b32name(char *out, size_t outlen, char cmd, const char *data, int datalen)
{
	out[0] = cmd;
	build_hostname(out + 1, outlen - 1, data, datalen, H_TOPDOMAIN,
		       &base32_ops, 255);
}

/* Version + login handshake as the real client does it; then lazy/immediate
   mode and downstream fragment size. */
static void h_handshake(int lazy, int fragsize)
{
	char name[512];
	char data[32];
	char ans[4096];
	int seed;
	int r;

	/* version */
	data[0] = (PROTOCOL_VERSION >> 24) & 0xff;
	data[1] = (PROTOCOL_VERSION >> 16) & 0xff;
	data[2] = (PROTOCOL_VERSION >> 8) & 0xff;
	data[3] = PROTOCOL_VERSION & 0xff;
	data[4] = 0x12;
	data[5] = 0x34;
	h_b32name(name, sizeof(name), 'v', data, 6);
	h_deliver(0, name, h_newid());
	r = h_answer(0, ans, sizeof(ans), NULL);
	if (r < 9 || memcmp(ans, "VACK", 4))
		h_die("version handshake failed");
	seed = ((ans[4] & 0xff) << 24) | ((ans[5] & 0xff) << 16) |
	       ((ans[6] & 0xff) << 8) | (ans[7] & 0xff);
	h_userid = ans[8] & 0xff;

	/* login */
	data[0] = h_userid;
	login_calculate(data + 1, 16, password, seed);	/* 32-byte buffer */
	data[17] = 0x43;
	data[18] = 0x21;
	h_b32name(name, sizeof(name), 'l', data, 19);
	h_deliver(0, name, h_newid());
	r = h_answer(0, ans, sizeof(ans), NULL);
	if (r < 7 || !memcmp(ans, "LNAK", 4) || !memcmp(ans, "BAD", 3))
		h_die("login failed");

	/* lazy / immediate */
	snprintf(name, sizeof(name), "o%c%caaa.%s", b32_5to8(h_userid),
		 lazy ? 'l' : 'i', H_TOPDOMAIN);
	h_deliver(0, name, h_newid());
	r = h_answer(0, ans, sizeof(ans), NULL);
	if (r < 4)
		h_die("lazy switch failed");

	/* downstream fragment size */
	data[0] = h_userid;
	data[1] = (fragsize >> 8) & 0xff;
	data[2] = fragsize & 0xff;
	data[3] = 0x55;
	data[4] = 0x66;
	h_b32name(name, sizeof(name), 'n', data, 5);
	h_deliver(0, name, h_newid());
	r = h_answer(0, ans, sizeof(ans), NULL);
	if (r != 2)
		h_die("fragsize failed");
}

/* Name of a ping query as the client's send_ping() builds it */
static void h_ping_name(char *name, size_t namelen, int dn_seq, int dn_frag,
			unsigned short cmc)
{
	char data[4];

	data[0] = h_userid;
	data[1] = ((dn_seq & 7) << 4) | (dn_frag & 15);
	data[2] = (cmc >> 8) & 0xff;
	data[3] = cmc & 0xff;
	h_b32name(name, namelen, 'p', data, 4);
}

/* Name of an upstream data query as the client's send_chunk() builds it.
   Returns the number of bytes of `data` that went into it; *last is set if
   that was all of it. */
static int h_data_name(char *name, size_t namelen, int up_seq, int up_frag,
		       int dn_seq, int dn_frag, int datacmc,
		       const char *data, int avail, int *last,
		       const struct encoder *enc, int maxlen)
{
	static const char *cmcchars = "abcdefghijklmnopqrstuvwxyz0123456789";
	int sent;
	int code;

	sent = build_hostname(name + 5, namelen - 5, data, avail, H_TOPDOMAIN,
			      enc, maxlen);
	name[0] = "0123456789abcdef"[h_userid & 15];
	code = ((up_seq & 7) << 2) | ((up_frag & 15) >> 2);
	name[1] = b32_5to8(code);
	code = ((up_frag & 3) << 3) | (dn_seq & 7);
	name[2] = b32_5to8(code);
	code = ((dn_frag & 15) << 1) | (sent == avail);
	name[3] = b32_5to8(code);
	name[4] = cmcchars[datacmc % 36];
	if (last)
		*last = (sent == avail);
	return sent;
}

/* tun frame: 4 bytes header, 20 bytes IPv4 header, payload.
   Returns total length. */
static int h_ip_frame(char *frame, const char *src, const char *dst,
		      const char *payload, int payloadlen)
{
	struct ip *ip;

	memset(frame, 0, 24);
	frame[2] = 0x08;
	ip = (struct ip *) (frame + 4);
	ip->ip_v = 4;
	ip->ip_hl = 5;
	ip->ip_len = htons(20 + payloadlen);
	ip->ip_ttl = 64;
	ip->ip_p = 17;
	ip->ip_src.s_addr = inet_addr(src);
	ip->ip_dst.s_addr = inet_addr(dst);
	memcpy(frame + 24, payload, payloadlen);
	return 24 + payloadlen;
}

static void h_recase(char *dst, const char *src)
{
	/* swap the case of every letter, as a 0x20-mixing relay might */
	for (; *src; src++, dst++) {
		if (*src >= 'a' && *src <= 'z')
			*dst = *src - 32;
		else if (*src >= 'A' && *src <= 'Z')
			*dst = *src + 32;
		else
			*dst = *src;
	}
	*dst = '\0';
}

#endif
