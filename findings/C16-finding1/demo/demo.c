/*
 * C16 finding: a waiting ping that is re-delivered right after the client
 * fell back from lazy to immediate mode is processed as a new query and is
 * remembered twice.  The extra entry pushes a ping that is among the last 30
 * pings the server answered out of the duplicate memory; a later re-delivery
 * of that ping is processed again and takes a downstream packet with it.
 *
 *  1. lazy session; ping R arrives and waits; ping P0 arrives: R is
 *     answered, P0 waits (normal lazy mode)
 *  2. the client gets too few answers and sends "o<uid>i": the server
 *     switches to immediate mode, P0 is still waiting
 *  3. the impatient relay re-delivers P0 (new DNS id, other port)      [*]
 *  4. the client sends pings P1..P28, each is answered at once.
 *     The server has now answered R, P0, P1..P28: R is the 30th-last ping.
 *  5. a packet for the client arrives from tun; no query is waiting in
 *     immediate mode, so it stays in the server until the next query
 *  6. the relay re-delivers R.  It has to be suppressed, and the waiting
 *     packet must stay where it is.
 *
 * The same history without step 3 is run as a control.
 */
#include "harness.h"

#define NPINGS 28

static void deliver(int relay, const char *name, unsigned short id)
{
	h_loop_top();
	h_deliver(relay, name, id);
	h_loop_tail();
}

static int scenario(int with_step3)
{
	char pr[256], p0[256], name[256];
	char frame[512];
	char body[64];
	char ans[4096];
	struct in_addr cip;
	int framelen;
	int len_before;
	int n;
	int r;
	int k;
	int bad = 0;

	h_init();
	h_handshake(1, 200);
	h_drain(0);

	/* 1 */
	h_ping_name(pr, sizeof(pr), 0, 0, 0x3fff);
	deliver(0, pr, h_newid());
	if (h_answer(0, ans, sizeof(ans), NULL) != -2)
		h_die("R should be waiting");
	h_ping_name(p0, sizeof(p0), 0, 0, 0x4000);
	deliver(0, p0, h_newid());
	if (h_drain(0) != 1 || users[h_userid].q.id == 0)
		h_die("R should be answered and P0 waiting");

	/* 2 */
	snprintf(name, sizeof(name), "o%ciaab.%s", b32_5to8(h_userid), H_TOPDOMAIN);
	deliver(0, name, h_newid());
	r = h_answer(0, ans, sizeof(ans), NULL);
	if (r != 9 || memcmp(ans, "Immediate", 9))
		h_die("switch to immediate mode failed");
	if (users[h_userid].q.id == 0)
		h_die("P0 should still be waiting");

	/* 3 */
	if (with_step3) {
		deliver(1, p0, h_newid());
		n = h_drain(0) + h_drain(1);
		printf("  step 3: re-delivery of the waiting ping P0: %d answer(s) sent at once%s\n",
		       n, users[h_userid].q.id != 0 ? ", P0 still waiting" : ", nothing waiting any more");
	}

	/* 4 */
	for (k = 1; k <= NPINGS; k++) {
		h_ping_name(name, sizeof(name), 0, 0, 0x4000 + k);
		deliver(0, name, h_newid());
	}
	h_drain(0);
	h_drain(1);

	/* 5 */
	memset(body, 'd', sizeof(body));
	cip.s_addr = users[h_userid].tun_ip;
	framelen = h_ip_frame(frame, "10.9.0.1", inet_ntoa(cip), body, sizeof(body));
	h_loop_top();
	h_tun_inject(frame, framelen);
	h_loop_tail();
	if (h_drain(0) || users[h_userid].outpacket.len <= 0)
		h_die("packet from tun should be waiting for the next query");
	len_before = users[h_userid].outpacket.len;

	/* 6 */
	deliver(1, pr, h_newid());
	r = h_answer(1, ans, sizeof(ans), NULL);
	printf("  %s step 3: re-delivered R (30th-last answered ping) got %s; "
	       "downstream packet waiting in server: %d -> %d bytes\n",
	       with_step3 ? "with   " : "without",
	       r == 0 ? "the duplicate marker" : r > 2 ? "the DOWNSTREAM PACKET" : "a normal answer",
	       len_before, users[h_userid].outpacket.len);
	if (r != 0)
		bad++;
	if (users[h_userid].outpacket.len != len_before)
		bad++;
	return bad;
}

int main(void)
{
	int bad;

	if (scenario(0))
		h_die("control scenario failed");
	bad = scenario(1);
	if (bad) {
		printf("FAIL: a re-delivered ping among the last 30 answered pings was processed again "
		       "and advanced the downstream stream\n");
		return 1;
	}
	printf("PASS\n");
	return 0;
}
