/* The real client, plus glue. */
#include "client.c"
#include "e2e.h"

void cli_setup(int uid, int lazy)
{
	struct sockaddr_storage ss;
	struct sockaddr_in *sin = (struct sockaddr_in *) &ss;

	srand(7);
	client_init();
	memset(&ss, 0, sizeof(ss));
	sin->sin_family = AF_INET; sin->sin_port = htons(53);
	inet_aton("192.0.2.53", &sin->sin_addr);
	client_set_nameserver(&ss, sizeof(*sin));
	client_set_topdomain(TOPDOMAIN);
	client_set_password("secret");
	client_set_qtype("NULL");
	client_set_selecttimeout(4);
	client_set_lazymode(lazy);
	client_set_hostname_maxlen(255);
	/* what the handshake leaves behind */
	userid = uid;
	userid_char = "0123456789abcdef"[uid];
	userid_char2 = "0123456789ABCDEF"[uid];
	conn = CONN_DNS_NULL;
	dataenc = &base32_ops;
	downenc = 'T';
	send_ping_soon = 0;
	lastdownstreamtime = time(NULL);
	send_query_sendcnt = -1;	/* no relay-trouble heuristics here */
}

void cli_rx(int idx)
{
	net_set_inbox(&s2c[idx]);
	tunnel_dns(CLI_TUN_FD, CLI_DNS_FD);
}

/* The fd_set rule and the tun branch of client_tunnel()'s loop */
int cli_tun_readable(void)
{
	if (!(!is_sending() || outchunkresent >= 2))
		return 0;		/* tun is not in the fd set now */
	tunnel_tun(CLI_TUN_FD, CLI_DNS_FD);
	return 1;
}

/* The i == 0 branch of client_tunnel()'s loop */
void cli_timeout(void)
{
	if (is_sending()) {
		if (outchunkresent < 3) {
			outchunkresent++;
			send_chunk(CLI_DNS_FD);
		} else {
			outpkt.offset = 0;
			outpkt.len = 0;
			outpkt.sentlen = 0;
			outchunkresent = 0;
			send_ping(CLI_DNS_FD);
		}
	} else {
		send_ping(CLI_DNS_FD);
	}
	send_ping_soon = 0;
}

int cli_is_sending(void) { return is_sending(); }
