#!/bin/sh
# usage: run.sh <iodine source tree root>
# exit 0 = PASS, 1 = FAIL (property violated), 2 = harness trouble
TREE=${1:?usage: run.sh <tree>}
TREE=$(cd "$TREE" && pwd) || exit 2
HERE=$(cd "$(dirname "$0")" && pwd)
TMP=$(mktemp -d) || exit 2
trap 'rm -rf "$TMP"' EXIT
S="$TREE/src"
{ echo '/* generated */'; sed -e 's/\([Bb][Aa][Ss][Ee]64\)/\1u/g ; s/0123456789+/0123456789_/' < "$S/base64.c"; } > "$TMP/base64u.c"
CF="-std=gnu99 -g -O0 -w -DLINUX -D_GNU_SOURCE -DGITREVISION=\"demo\" -I$S -I$HERE"
${CC:-cc} $CF -Dmain=iodined_main -c -o "$TMP/srv.o" "$HERE/srv.c" || exit 2
${CC:-cc} $CF -c -o "$TMP/cli.o" "$HERE/cli.c" || exit 2
${CC:-cc} $CF -o "$TMP/demo" "$HERE/scenario.c" "$HERE/net.c" "$TMP/srv.o" "$TMP/cli.o" \
	"$S/dns.c" "$S/read.c" "$S/encoding.c" "$S/login.c" "$S/base32.c" "$S/base64.c" \
	"$TMP/base64u.c" "$S/base128.c" "$S/md5.c" "$S/common.c" "$S/user.c" "$S/fw_query.c" \
	-Wl,--wrap=sendto -Wl,--wrap=recvfrom -Wl,--wrap=recvmsg -lz || exit 2
"$TMP/demo"
