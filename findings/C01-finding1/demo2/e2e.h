/* Shared declarations of the two-process-in-one harness:
 *   srv.c  = the real iodined.c  + glue
 *   cli.c  = the real client.c   + glue
 *   net.c  = tun queues, datagram queues, wrapped socket calls
 *   scenario.c = the test itself
 * Datagrams never touch a socket: sendto()/recvfrom()/recvmsg() are wrapped
 * (-Wl,--wrap=...) and the scenario decides which datagram is delivered,
 * lost or delivered later.
 */
#ifndef E2E_H
#define E2E_H
#include <stddef.h>
#include <sys/types.h>

#define TOPDOMAIN "t.example.com"
#define SRV_DNS_FD 100
#define SRV_TUN_FD 101
#define CLI_DNS_FD 200
#define CLI_TUN_FD 201
#define MAXQ 256

struct dgram { int len; unsigned char data[8192]; };
struct frame { int len; unsigned char data[70000]; };

/* datagram queues: everything ever sent, in order */
extern struct dgram c2s[MAXQ]; extern int c2s_n;	/* client -> server */
extern struct dgram s2c[MAXQ]; extern int s2c_n;	/* server -> client */
/* tun devices */
extern struct frame srv_tun_out[MAXQ]; extern int srv_tun_out_n; /* written by iodined */
extern struct frame cli_tun_out[MAXQ]; extern int cli_tun_out_n; /* written by iodine */
void srv_tun_push(const unsigned char *d, int len);	/* to be read by iodined */
void cli_tun_push(const unsigned char *d, int len);	/* to be read by iodine */
int cli_tun_pending(void);
void net_set_inbox(const struct dgram *d);		/* next recvfrom/recvmsg result */

/* server glue (srv.c) */
void srv_init(void);
int  srv_login(int lazy, int fragsize);	/* emulated handshake; returns userid */
void srv_rx(int idx);			/* deliver c2s[idx] to iodined (tunnel_dns) */
void srv_tun_readable(void);		/* iodined's tunnel_tun() */
void srv_loop_tail(void);		/* "send realsoon" part of iodined's loop */
int  srv_seed(int userid);

/* client glue (cli.c) */
void cli_setup(int userid, int lazy);
void cli_rx(int idx);			/* deliver s2c[idx] to iodine (tunnel_dns) */
int  cli_tun_readable(void);		/* select says tun readable; returns 1 if it was in the fd set */
void cli_timeout(void);			/* select timed out */
int  cli_is_sending(void);

/* helpers (net.c) */
int mkframe(unsigned char *p, int paylen, unsigned seed, const char *src, const char *dst);
unsigned long adler(const unsigned char *p, int len);
#endif
