/*
 * finding1, downstream direction, real client and real server:
 * a relay delivers a second copy of the answer that carried fragment 0 of
 * downstream packet #1 just before packet #9 (same 3-bit sequence number).
 *
 * exit 0: everything the client wrote to its tun was read from iodined's tun
 * exit 1: the client wrote a packet that nobody sent
 */
#include <stdio.h>
#include <string.h>
#include <stdlib.h>
#include "e2e.h"

#define FRAGSIZE 150

static struct frame sent[16]; static int nsent;
static void remember(const unsigned char *p, int len)
{ sent[nsent].len = len; memcpy(sent[nsent].data, p, len); nsent++; }

static int payload(const struct dgram *d, const unsigned char **p)
{
	int o = 12, rdlen;
	while (o < d->len && d->data[o]) o += d->data[o] + 1;
	o += 1 + 4 + 2 + 2 + 2 + 4;
	if (o + 2 > d->len) return -1;
	rdlen = (d->data[o] << 8) | d->data[o + 1];
	*p = d->data + o + 2;
	return rdlen;
}

static int c_done, s_done, queries;
static int born[MAXQ];	/* number of client queries sent when answer i was made */

/* loss-free network until the client has written `want` packets */
static void pump(int want)
{
	int round;
	for (round = 0; round < 30 && cli_tun_out_n < want; round++) {
		int progress = 0;
		for (; c_done < c2s_n; c_done++) {
			int k = s2c_n;
			srv_rx(c_done); queries++; progress = 1;
			for (; k < s2c_n; k++) born[k] = c_done + 1;
		}
		srv_loop_tail();
		for (; s_done < s2c_n; s_done++) { cli_rx(s_done); progress = 1; }
		if (!progress)
			cli_timeout();
	}
}

int main(void)
{
	unsigned char A[2048], B[2048], P[2048];
	const unsigned char *pl;
	int alen, blen, plen, uid, i, j, bad = 0, a0 = -1;

	srv_init();
	uid = srv_login(0, FRAGSIZE);
	cli_setup(uid, 0);
	c_done = c2s_n; s_done = s2c_n;

	alen = mkframe(A, 240, 4711, "10.77.0.1", "10.9.0.2");
	blen = mkframe(B, 240, 4711, "10.77.0.1", "10.9.0.2");
	if (B[100] == 255 || B[101] < 2 || B[102] == 255) return 2;
	B[100] += 1; B[101] -= 2; B[102] += 1;	/* Adler-32 neutral */
	for (i = 200; i < blen; i++) B[i] ^= 0x5a;

	/* packet #1 = A, two fragments */
	srv_tun_push(A, alen); remember(A, alen);
	srv_tun_readable();
	i = s2c_n;
	pump(1);
	for (; i < s2c_n; i++) {
		int n = payload(&s2c[i], &pl);
		if (n > 2 && ((pl[1] >> 5) & 7) == 1 && ((pl[1] >> 1) & 15) == 0) { a0 = i; break; }
	}
	if (a0 < 0 || cli_tun_out_n != 1) { fprintf(stderr, "A not delivered?\n"); return 2; }

	/* packets #2..#8, small */
	for (i = 0; i < 7; i++) {
		plen = mkframe(P, 20, 50 + i, "10.77.0.1", "10.9.0.2");
		srv_tun_push(P, plen); remember(P, plen);
		srv_tun_readable();
		pump(2 + i);
	}
	if (cli_tun_out_n != 8) { fprintf(stderr, "small packets not delivered?\n"); return 2; }
	printf("the copy of the A0 answer is %d queries old (the client accepts answers to its last 16)\n",
	       c2s_n - born[a0] + 1);

	/* the relay's second copy of the old answer */
	cli_rx(a0);

	/* packet #9 = B, no loss */
	srv_tun_push(B, blen); remember(B, blen);
	srv_tun_readable();
	pump(9);

	for (i = 0; i < cli_tun_out_n; i++) {
		int known = 0;
		for (j = 0; j < nsent; j++)
			if (sent[j].len == cli_tun_out[i].len &&
			    !memcmp(sent[j].data, cli_tun_out[i].data, sent[j].len))
				known = 1;
		if (!known) {
			bad = 1;
			printf("client tun write #%d: %d bytes, NEVER SENT", i, cli_tun_out[i].len);
			for (j = 0; j < alen && cli_tun_out[i].data[j] == A[j]; j++) ;
			printf(" (A's bytes up to offset %d, B's bytes after)\n", j);
		}
	}
	printf("%d packets sent, %d written by the client\n", nsent, cli_tun_out_n);
	if (bad) { printf("FAIL\n"); return 1; }
	printf("PASS\n");
	return 0;
}
