/* The real server, plus glue. Compiled with -Dmain=iodined_main. */
#include "iodined.c"
#undef main
#include "e2e.h"

static struct dnsfd s_fds = { SRV_DNS_FD, -1 };
static unsigned short s_id = 500;
static unsigned short s_seed16 = 0x2222;

void srv_init(void)
{
	struct in_addr a;
	inet_aton("10.9.0.1", &a);
	my_ip = a.s_addr;
	netmask = 27;
	my_mtu = 1130;
	topdomain = TOPDOMAIN;
	memset(password, 0, sizeof(password));
	strcpy(password, "secret");
	created_users = init_users(my_ip, netmask);
	check_ip = 1;
	debug = getenv("E2E_DEBUG") ? atoi(getenv("E2E_DEBUG")) : 0;
	srand(1);
}

static void srv_deliver(const struct dgram *d)
{
	net_set_inbox(d);
	tunnel_dns(SRV_TUN_FD, SRV_DNS_FD, &s_fds, 0);
}

void srv_rx(int idx) { srv_deliver(&c2s[idx]); }

void srv_tun_readable(void) { tunnel_tun(SRV_TUN_FD, &s_fds); }

void srv_loop_tail(void)
{
	/* what one more turn of tunnel()'s loop does after 20 ms of silence */
	int userid;
	for (userid = 0; userid < created_users; userid++)
		users[userid].q_sendrealsoon_new = 0;
	for (userid = 0; userid < created_users; userid++)
		if (users[userid].active && !users[userid].disabled &&
		    users[userid].last_pkt + 60 > time(NULL) &&
		    users[userid].q_sendrealsoon.id != 0 &&
		    users[userid].conn == CONN_DNS_NULL &&
		    !users[userid].q_sendrealsoon_new)
			send_chunk_or_dataless(SRV_DNS_FD, userid, &users[userid].q_sendrealsoon);
}

int srv_seed(int userid) { return users[userid].seed; }

/* A handshake query as the client would send it (type NULL) */
static void hs_query(const char *name)
{
	struct dgram d;
	struct query q;
	memset(&q, 0, sizeof(q));
	s_id += 7;
	q.id = s_id;
	q.type = T_NULL;
	d.len = dns_encode((char *) d.data, sizeof(d.data), &q, QR_QUERY, name, strlen(name));
	if (d.len < 1) { fprintf(stderr, "hs_query: encode failed\n"); exit(2); }
	srv_deliver(&d);
}
static void hs_packet(char cmd, const char *data, int len)
{
	char name[512];
	name[0] = cmd;
	build_hostname(name + 1, sizeof(name) - 1, data, len, TOPDOMAIN, &base32_ops, 255);
	hs_query(name);
}

/* Version + login + lazy + fragsize, like client_handshake() does, but
   without its select() waits. Answers land in s2c[] and are ignored. */
int srv_login(int lazy, int fragsize)
{
	char d[32], login[16], name[128];
	int userid;

	d[0] = (PROTOCOL_VERSION >> 24) & 0xff; d[1] = (PROTOCOL_VERSION >> 16) & 0xff;
	d[2] = (PROTOCOL_VERSION >> 8) & 0xff;  d[3] = PROTOCOL_VERSION & 0xff;
	d[4] = s_seed16 >> 8; d[5] = s_seed16 & 0xff; s_seed16++;
	hs_packet('v', d, 6);
	for (userid = 0; userid < created_users; userid++)
		if (users[userid].active && !users[userid].authenticated)
			break;
	if (userid >= created_users) { fprintf(stderr, "no user slot\n"); exit(2); }

	login_calculate(login, 16, password, users[userid].seed);
	memset(d, 0, sizeof(d));
	d[0] = userid; memcpy(d + 1, login, 16);
	d[17] = s_seed16 >> 8; d[18] = s_seed16 & 0xff; s_seed16++;
	hs_packet('l', d, 19);
	if (!users[userid].authenticated) { fprintf(stderr, "login failed\n"); exit(2); }

	snprintf(name, sizeof(name), "o%c%cabc.%s", b32_5to8(userid), lazy ? 'l' : 'i', TOPDOMAIN);
	hs_query(name);

	d[0] = userid; d[1] = fragsize >> 8; d[2] = fragsize & 0xff;
	d[3] = s_seed16 >> 8; d[4] = s_seed16 & 0xff; s_seed16++;
	hs_packet('n', d, 5);
	if (users[userid].fragsize != fragsize || users[userid].lazy != !!lazy) {
		fprintf(stderr, "options not taken\n"); exit(2);
	}
	return userid;
}
