#include <stdio.h>
#include <string.h>
#include <stdlib.h>
#include <sys/socket.h>
#include <netinet/in.h>
#include <arpa/inet.h>
#include <zlib.h>
#include "e2e.h"

struct dgram c2s[MAXQ]; int c2s_n;
struct dgram s2c[MAXQ]; int s2c_n;
struct frame srv_tun_out[MAXQ]; int srv_tun_out_n;
struct frame cli_tun_out[MAXQ]; int cli_tun_out_n;
static struct frame srv_tun_in[MAXQ]; static int srv_tun_in_n, srv_tun_in_next;
static struct frame cli_tun_in[MAXQ]; static int cli_tun_in_n, cli_tun_in_next;
static struct dgram inbox; static int inbox_full;

void srv_tun_push(const unsigned char *d, int len)
{ srv_tun_in[srv_tun_in_n].len = len; memcpy(srv_tun_in[srv_tun_in_n].data, d, len); srv_tun_in_n++; }
void cli_tun_push(const unsigned char *d, int len)
{ cli_tun_in[cli_tun_in_n].len = len; memcpy(cli_tun_in[cli_tun_in_n].data, d, len); cli_tun_in_n++; }
int cli_tun_pending(void) { return cli_tun_in_n - cli_tun_in_next; }
void net_set_inbox(const struct dgram *d) { inbox = *d; inbox_full = 1; }

/* ---- tun.c replacements ---- */
int open_tun(const char *dev) { return -1; }
void close_tun(int fd) { }
int tun_setip(const char *ip, const char *oip, int bits) { return 0; }
int tun_setmtu(const unsigned mtu) { return 0; }
int write_tun(int fd, char *data, size_t len)
{
	struct frame *f;
	if (fd == SRV_TUN_FD) f = &srv_tun_out[srv_tun_out_n++];
	else if (fd == CLI_TUN_FD) f = &cli_tun_out[cli_tun_out_n++];
	else { fprintf(stderr, "write_tun: bad fd %d\n", fd); exit(2); }
	f->len = len; memcpy(f->data, data, len);
	return 0;
}
ssize_t read_tun(int fd, char *buf, size_t len)
{
	struct frame *f;
	if (fd == SRV_TUN_FD) {
		if (srv_tun_in_next >= srv_tun_in_n) return 0;
		f = &srv_tun_in[srv_tun_in_next++];
	} else {
		if (cli_tun_in_next >= cli_tun_in_n) return 0;
		f = &cli_tun_in[cli_tun_in_next++];
	}
	memcpy(buf, f->data, f->len);
	return f->len;
}

/* ---- wrapped socket calls ---- */
ssize_t __wrap_sendto(int fd, const void *buf, size_t len, int flags,
		      const struct sockaddr *to, socklen_t tolen);
ssize_t __wrap_recvfrom(int fd, void *buf, size_t len, int flags,
			struct sockaddr *from, socklen_t *fromlen);
ssize_t __wrap_recvmsg(int fd, struct msghdr *msg, int flags);

ssize_t __wrap_sendto(int fd, const void *buf, size_t len, int flags,
		      const struct sockaddr *to, socklen_t tolen)
{
	struct dgram *d;
	if (fd == SRV_DNS_FD) d = &s2c[s2c_n++];
	else if (fd == CLI_DNS_FD) d = &c2s[c2s_n++];
	else { fprintf(stderr, "sendto: bad fd %d\n", fd); exit(2); }
	if (s2c_n >= MAXQ || c2s_n >= MAXQ || len > sizeof(d->data)) { fprintf(stderr, "queue full\n"); exit(2); }
	d->len = len; memcpy(d->data, buf, len);
	return len;
}
static void fill_addr(struct sockaddr *sa, socklen_t *salen, const char *ip, int port)
{
	struct sockaddr_in sin;
	memset(&sin, 0, sizeof(sin));
	sin.sin_family = AF_INET; sin.sin_port = htons(port); inet_aton(ip, &sin.sin_addr);
	if (sa && salen && *salen >= sizeof(sin)) { memcpy(sa, &sin, sizeof(sin)); *salen = sizeof(sin); }
}
ssize_t __wrap_recvfrom(int fd, void *buf, size_t len, int flags,
			struct sockaddr *from, socklen_t *fromlen)
{
	if (!inbox_full) return -1;
	inbox_full = 0;
	memcpy(buf, inbox.data, inbox.len);
	fill_addr(from, fromlen, "192.0.2.53", 53);
	return inbox.len;
}
ssize_t __wrap_recvmsg(int fd, struct msghdr *msg, int flags)
{
	socklen_t l = msg->msg_namelen;
	if (!inbox_full) return -1;
	inbox_full = 0;
	memcpy(msg->msg_iov[0].iov_base, inbox.data, inbox.len);
	fill_addr(msg->msg_name, &l, "192.0.2.7", 40000);
	msg->msg_namelen = l;
	msg->msg_controllen = 0;
	return inbox.len;
}

/* ---- helpers ---- */
int mkframe(unsigned char *p, int paylen, unsigned seed, const char *src, const char *dst)
{
	int i, total = 20 + 8 + paylen;
	struct in_addr a;
	memset(p, 0, 4 + total);
	p[2] = 0x08; p[3] = 0x00;		/* Linux tun header, IPv4 */
	p[4] = 0x45; p[6] = total >> 8; p[7] = total & 0xff;
	p[8] = seed >> 8; p[9] = seed;	/* ip id */
	p[12] = 64; p[13] = 17;
	inet_aton(src, &a); memcpy(p + 16, &a, 4);
	inet_aton(dst, &a); memcpy(p + 20, &a, 4);
	p[24] = 0x30 + (seed & 7); p[25] = 0x39; p[26] = 0x30; p[27] = 0x3a;
	p[28] = (8 + paylen) >> 8; p[29] = (8 + paylen) & 0xff;
	for (i = 0; i < paylen; i++) {
		seed = seed * 1103515245u + 12345u;
		p[32 + i] = (seed >> 16) & 0xff;
	}
	return 4 + total;
}
unsigned long adler(const unsigned char *p, int len)
{
	return adler32(adler32(0L, Z_NULL, 0), p, len);
}
