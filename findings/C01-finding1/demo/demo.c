/*
 * finding1: a delayed duplicate of fragment 0 of the packet sent eight packets
 * ago (same 3-bit sequence number as the next packet) makes iodined reassemble
 * the old first fragment with the later fragments of the new packet.
 *
 * Exit 0 = every packet written to the server's tun was sent by the client.
 * Exit 1 = a packet nobody sent was written to the tun.
 */
#include "iodined.c"
#undef main
#include "srvh.h"

#define NSENT 16
static struct h_pkt sent[NSENT];
static int nsent;

static void remember(const unsigned char *p, int len)
{
	sent[nsent].len = len;
	memcpy(sent[nsent].data, p, len);
	nsent++;
}

int main(int argc, char **argv)
{
	int lose_b0 = (argc > 1 && !strcmp(argv[1], "lost"));
	struct h_client c;
	unsigned char A[2048], B[2048], P[2048];
	char dupname[4096];
	int alen, blen, plen, i, j, bad = 0, nq, frag0plain;

	h_srv_init();
	h_cl_login(&c, 0, 1200);

	/* Packet A: 240 random payload bytes -> zlib stores it, two fragments */
	alen = h_mkpacket(A, 240, 4711, "10.77.0.1");

	/* Packet B: same length.  Its first part is A's with three adjacent bytes
	   changed by +1,-2,+1 (which leaves an Adler-32 unchanged), its last part
	   is entirely different. */
	blen = h_mkpacket(B, 240, 4711, "10.77.0.1");
	if (B[100] == 255 || B[101] < 2 || B[102] == 255) { fprintf(stderr, "pick another seed\n"); return 2; }
	B[100] += 1; B[101] -= 2; B[102] += 1;
	for (i = 200; i < blen; i++)
		B[i] ^= 0x5a;

	/* --- A goes through, normally --- */
	h_cl_newpacket(&c, A, alen);
	remember(A, alen);
	h_cl_sendchunk(&c, 1);			/* A0 */
	strcpy(dupname, c.lastname);		/* a relay keeps a copy of this query */
	frag0plain = c.out.sentlen - 7;		/* 2 zlib + 5 stored-block header bytes */
	if ((unsigned char) c.out.data[2] != 0x01 || frag0plain < 110 || frag0plain > 190) {
		fprintf(stderr, "unexpected zlib layout / fragment size %d\n", c.out.sentlen);
		return 2;
	}
	h_cl_acked(&c);
	if (!h_cl_sendchunk(&c, 1)) {		/* A1, last */
		fprintf(stderr, "expected two fragments\n");
		return 2;
	}
	h_srv_realsoon();
	h_cl_acked(&c);

	/* --- seven more packets, two fragments each, all delivered --- */
	nq = 1;
	for (i = 0; i < 7; i++) {
		plen = h_mkpacket(P, 240, 100 + i, "10.77.0.1");
		remember(P, plen);
		nq += h_cl_sendall(&c, P, plen);
	}
	printf("data queries answered since A0: %d (QMEMDATA_LEN %d, DNSCACHE_LEN %d)\n",
	       nq, QMEMDATA_LEN, DNSCACHE_LEN);

	/* --- the relay's late copy of the A0 query arrives (new DNS id) --- */
	h_query(dupname);

	/* --- B goes through, no loss at all --- */
	h_cl_newpacket(&c, B, blen);
	remember(B, blen);
	while (c.out.len) {
		int s = -1, f = -1;
		h_ans_n = 0;
		if (lose_b0 && c.out.fragment == 0) {
			/* variant: the B0 query is lost; the answer to the
			   client's next ping carries the ack it waits for */
			h_cl_sendchunk(&c, 0);
			h_cl_ping(&c, 1);
		} else {
			h_cl_sendchunk(&c, 1);
		}
		h_srv_realsoon();
		if (!h_last_upack(&s, &f) || s != c.out.seqno || f != c.out.fragment) {
			printf("B %d/%d not acked, client would re-send and give up\n",
			       c.out.seqno, c.out.fragment);
			break;
		}
		h_cl_acked(&c);
	}

	/* --- oracle --- */
	for (i = 0; i < h_tunw_n; i++) {
		int known = 0;
		for (j = 0; j < nsent; j++)
			if (sent[j].len == h_tunw[i].len &&
			    !memcmp(sent[j].data, h_tunw[i].data, sent[j].len))
				known = 1;
		if (!known) {
			int d;
			bad = 1;
			printf("tun write #%d (%d bytes) was never sent by the client\n",
			       i, h_tunw[i].len);
			for (d = 0; d < alen && h_tunw[i].len == alen; d++)
				if (h_tunw[i].data[d] != B[d]) {
					printf("  first difference from packet B at offset %d: %02x (A has %02x, B has %02x)\n",
					       d, h_tunw[i].data[d], A[d], B[d]);
					break;
				}
			if (h_tunw[i].len == alen &&
			    !memcmp(h_tunw[i].data, A, frag0plain) &&
			    !memcmp(h_tunw[i].data + frag0plain, B + frag0plain, blen - frag0plain))
				printf("  it is A[0..%d) followed by B[%d..%d)\n",
				       frag0plain, frag0plain, blen);
		}
	}
	printf("%d packets sent, %d written to tun\n", nsent, h_tunw_n);
	if (bad) {
		printf("FAIL: server wrote a fabricated packet to its tun device\n");
		return 1;
	}
	printf("PASS\n");
	return 0;
}
