/*
 * Small in-process harness around the real iodined.c.
 *
 * Usage:   #include "iodined.c"      (compiled with -Dmain=iodined_main)
 *          #include "srvh.h"
 *
 * - the tun device is replaced by two queues (write_tun/read_tun below),
 * - sendto() is wrapped (link with -Wl,--wrap=sendto) so that every answer
 *   iodined sends is captured instead of going to a socket,
 * - queries are handed to the real handle_null_request() after a round trip
 *   through dns_encode()/dns_decode(), i.e. exactly what read_dns()/tunnel_dns()
 *   would have produced,
 * - a minimal emulation of the client's sender (send_chunk()/send_ping() of
 *   client.c, same header layout, same build_hostname() call, same zlib call).
 */
#ifndef SRVH_H
#define SRVH_H

#define H_TOPDOMAIN "t.example.com"
#define H_MAXPK 64

/* ---- tun stubs -------------------------------------------------------- */
struct h_pkt { int len; unsigned char data[70000]; };
static struct h_pkt h_tunw[H_MAXPK];	/* what iodined wrote to its tun */
static int h_tunw_n;
static struct h_pkt h_tunr[H_MAXPK];	/* what iodined will read from tun */
static int h_tunr_n, h_tunr_next;

int open_tun(const char *dev) { return 1; }
void close_tun(int fd) { }
int tun_setip(const char *ip, const char *oip, int bits) { return 0; }
int tun_setmtu(const unsigned mtu) { return 0; }
int write_tun(int fd, char *data, size_t len)
{
	if (h_tunw_n < H_MAXPK) {
		h_tunw[h_tunw_n].len = len;
		memcpy(h_tunw[h_tunw_n].data, data, len);
		h_tunw_n++;
	}
	return 0;
}
ssize_t read_tun(int fd, char *buf, size_t len)
{
	struct h_pkt *p;
	if (h_tunr_next >= h_tunr_n)
		return 0;
	p = &h_tunr[h_tunr_next++];
	memcpy(buf, p->data, p->len);
	return p->len;
}
static void h_tun_inject(const unsigned char *d, int len)
{
	h_tunr[h_tunr_n].len = len;
	memcpy(h_tunr[h_tunr_n].data, d, len);
	h_tunr_n++;
}

/* ---- captured answers ------------------------------------------------- */
struct h_ans { int len; unsigned char pkt[70000]; };
static struct h_ans h_ans[H_MAXPK];
static int h_ans_n;

ssize_t __wrap_sendto(int fd, const void *buf, size_t len, int flags,
		      const struct sockaddr *to, socklen_t tolen);
ssize_t __wrap_sendto(int fd, const void *buf, size_t len, int flags,
		      const struct sockaddr *to, socklen_t tolen)
{
	if (h_ans_n < H_MAXPK) {
		h_ans[h_ans_n].len = len;
		memcpy(h_ans[h_ans_n].pkt, buf, len);
		h_ans_n++;
	}
	return len;
}

/* Decode captured answer i (question type NULL) into out; returns #bytes */
static int h_ans_payload(int i, char *out, int outlen, struct query *q)
{
	struct query qq;
	if (!q) q = &qq;
	memset(q, 0, sizeof(*q));
	return dns_decode(out, outlen, q, QR_ANSWER, (char *) h_ans[i].pkt, h_ans[i].len);
}

/* ---- server side ------------------------------------------------------ */
static struct dnsfd h_fds = { 2, -1 };
static unsigned short h_next_id = 1000;
static unsigned short h_qtype = T_NULL;

static void h_srv_init(void)
{
	struct in_addr a;
	inet_aton("10.9.0.1", &a);
	my_ip = a.s_addr;
	netmask = 27;
	my_mtu = 1130;
	topdomain = H_TOPDOMAIN;
	memset(password, 0, sizeof(password));
	strcpy(password, "secret");
	created_users = init_users(my_ip, netmask);
	check_ip = 1;
	debug = getenv("H_DEBUG") ? atoi(getenv("H_DEBUG")) : 0;
	srand(1);
}

/* Hand one query (by name) to the server, as read_dns()+tunnel_dns() do. */
static void h_query_id(const char *name, unsigned short id)
{
	char pkt[4096];
	struct query q, in;
	struct sockaddr_in *sin;
	int len, dlen;

	memset(&in, 0, sizeof(in));
	in.id = id;
	in.type = h_qtype;
	len = dns_encode(pkt, sizeof(pkt), &in, QR_QUERY, name, strlen(name));
	if (len < 1) { fprintf(stderr, "harness: dns_encode failed\n"); exit(2); }

	memset(&q, 0, sizeof(q));
	sin = (struct sockaddr_in *) &q.from;
	sin->sin_family = AF_INET;
	sin->sin_port = htons(40000);
	inet_aton("192.0.2.7", &sin->sin_addr);
	q.fromlen = sizeof(*sin);
	if (dns_decode(NULL, 0, &q, QR_QUERY, pkt, len) <= 0) {
		fprintf(stderr, "harness: dns_decode failed\n"); exit(2);
	}
	dlen = query_datalen(q.name, topdomain);
	if (dlen < 0) { fprintf(stderr, "harness: not our domain\n"); exit(2); }
	handle_null_request(1, h_fds.v4fd, &h_fds, &q, dlen);
}
static void h_query(const char *name)
{
	h_next_id += 7;
	if (h_next_id == 0) h_next_id = 7;
	h_query_id(name, h_next_id);
}

/* Let the server's select loop body run its "send realsoon" step */
static void h_srv_realsoon(void)
{
	int u;
	for (u = 0; u < created_users; u++) {
		users[u].q_sendrealsoon_new = 0;
		if (users[u].active && users[u].q_sendrealsoon.id != 0 &&
		    users[u].conn == CONN_DNS_NULL)
			send_chunk_or_dataless(h_fds.v4fd, u, &users[u].q_sendrealsoon);
	}
}

/* ---- client emulation (sender side of client.c) ----------------------- */
struct h_client {
	int userid;
	const struct encoder *enc;
	int maxlen;			/* -M */
	struct packet out;		/* like outpkt */
	int in_seqno, in_frag;		/* like inpkt.seqno/.fragment */
	int datacmc;
	unsigned short rand_seed;
	char lastname[4096];		/* last hostname sent */
};

static void h_cl_rawname(struct h_client *c, char cmd, const char *data, int len)
{
	c->lastname[0] = cmd;
	build_hostname(c->lastname + 1, sizeof(c->lastname) - 1, data, len,
		       H_TOPDOMAIN, &base32_ops, c->maxlen);
}

/* version + login handshake through the real handlers */
static void h_cl_login(struct h_client *c, int lazy, int fragsize)
{
	char d[32];
	char login[16];
	int seed;

	memset(c, 0, sizeof(*c));
	c->enc = &base32_ops;
	c->maxlen = 255;
	c->rand_seed = 0x1234;

	d[0] = (PROTOCOL_VERSION >> 24) & 0xff; d[1] = (PROTOCOL_VERSION >> 16) & 0xff;
	d[2] = (PROTOCOL_VERSION >> 8) & 0xff;  d[3] = PROTOCOL_VERSION & 0xff;
	d[4] = c->rand_seed >> 8; d[5] = c->rand_seed & 0xff; c->rand_seed++;
	h_cl_rawname(c, 'v', d, 6);
	h_query(c->lastname);
	c->userid = 0;
	while (c->userid < created_users && !(users[c->userid].active && !users[c->userid].authenticated))
		c->userid++;
	if (c->userid >= created_users) { fprintf(stderr, "harness: no user\n"); exit(2); }
	seed = users[c->userid].seed;	/* what the VACK carries */

	login_calculate(login, 16, password, seed);
	memset(d, 0, sizeof(d));
	d[0] = c->userid;
	memcpy(d + 1, login, 16);
	d[17] = c->rand_seed >> 8; d[18] = c->rand_seed & 0xff; c->rand_seed++;
	h_cl_rawname(c, 'l', d, 19);
	h_query(c->lastname);
	if (!users[c->userid].authenticated) { fprintf(stderr, "harness: login failed\n"); exit(2); }

	if (lazy) {
		snprintf(c->lastname, sizeof(c->lastname), "o%cl%c%c%c.%s",
			 b32_5to8(c->userid), 'a', 'b', 'c', H_TOPDOMAIN);
		h_query(c->lastname);
	}
	d[0] = c->userid; d[1] = fragsize >> 8; d[2] = fragsize & 0xff;
	d[3] = c->rand_seed >> 8; d[4] = c->rand_seed & 0xff; c->rand_seed++;
	h_cl_rawname(c, 'n', d, 5);
	h_query(c->lastname);
	h_ans_n = 0;
}

/* tunnel_tun() of client.c: take a packet from the client's tun */
static void h_cl_newpacket(struct h_client *c, const unsigned char *pkt, int len)
{
	unsigned long outlen = sizeof(c->out.data);
	compress2((uint8_t *) c->out.data, &outlen, pkt, len, 9);
	c->out.len = outlen;
	c->out.offset = 0;
	c->out.sentlen = 0;
	c->out.seqno = (c->out.seqno + 1) & 7;
	c->out.fragment = 0;
}

/* send_chunk() of client.c; builds c->lastname and delivers it unless
   deliver == 0 (= query lost). Returns 1 when this was the last fragment. */
static int h_cl_sendchunk(struct h_client *c, int deliver)
{
	static const char *cmcchars = "abcdefghijklmnopqrstuvwxyz0123456789";
	char *buf = c->lastname;
	int avail = c->out.len - c->out.offset;
	int code;

	c->out.sentlen = build_hostname(buf + 5, sizeof(c->lastname) - 5,
			c->out.data + c->out.offset, avail, H_TOPDOMAIN, c->enc, c->maxlen);
	buf[0] = "0123456789abcdef"[c->userid];
	code = ((c->out.seqno & 7) << 2) | ((c->out.fragment & 15) >> 2);
	buf[1] = b32_5to8(code);
	code = ((c->out.fragment & 3) << 3) | (c->in_seqno & 7);
	buf[2] = b32_5to8(code);
	code = ((c->in_frag & 15) << 1) | (c->out.sentlen == avail);
	buf[3] = b32_5to8(code);
	buf[4] = cmcchars[c->datacmc];
	c->datacmc = (c->datacmc + 1) % 36;
	if (deliver)
		h_query(buf);
	return c->out.sentlen == avail;
}

/* the ack part of tunnel_dns() of client.c */
static void h_cl_acked(struct h_client *c)
{
	c->out.offset += c->out.sentlen;
	if (c->out.offset >= c->out.len) {
		c->out.offset = 0; c->out.len = 0; c->out.sentlen = 0;
	} else {
		c->out.fragment++;
	}
}

static void h_cl_ping(struct h_client *c, int deliver)
{
	char d[4];
	d[0] = c->userid;
	d[1] = ((c->in_seqno & 7) << 4) | (c->in_frag & 15);
	d[2] = c->rand_seed >> 8; d[3] = c->rand_seed & 0xff; c->rand_seed++;
	h_cl_rawname(c, 'p', d, 4);
	if (deliver)
		h_query(c->lastname);
}

/* Does the newest captured answer ack upstream seq/frag? */
static int h_last_upack(int *seq, int *frag)
{
	char b[4096];
	int n;
	if (h_ans_n == 0) return 0;
	n = h_ans_payload(h_ans_n - 1, b, sizeof(b), NULL);
	if (n < 2) return 0;
	*seq = (b[0] >> 4) & 7;
	*frag = b[0] & 15;
	return 1;
}

/* Send a whole packet upstream, no loss: every chunk until acked.
   Returns number of data queries used. */
static int h_cl_sendall(struct h_client *c, const unsigned char *pkt, int len)
{
	int n = 0, s, f;
	h_cl_newpacket(c, pkt, len);
	while (c->out.len) {
		h_ans_n = 0;
		h_cl_sendchunk(c, 1);
		n++;
		h_srv_realsoon();
		if (!h_last_upack(&s, &f) || s != c->out.seqno || f != c->out.fragment) {
			fprintf(stderr, "harness: chunk %d/%d not acked (%d/%d)\n",
				c->out.seqno, c->out.fragment, s, f);
			exit(2);
		}
		h_cl_acked(c);
	}
	return n;
}

/* A UDP/IPv4 packet as read from a Linux tun (4 byte header first),
   payload filled from a simple generator. */
static int h_mkpacket(unsigned char *p, int paylen, unsigned seed, const char *dst)
{
	int i, total = 20 + 8 + paylen;
	struct in_addr a;
	memset(p, 0, 4 + total);
	p[2] = 0x08; p[3] = 0x00;
	p[4] = 0x45; p[6] = total >> 8; p[7] = total & 0xff;
	p[12] = 64; p[13] = 17;
	inet_aton("10.9.0.2", &a); memcpy(p + 16, &a, 4);
	inet_aton(dst, &a); memcpy(p + 20, &a, 4);
	p[24] = 0x30; p[25] = 0x39; p[26] = 0x30; p[27] = 0x3a;
	p[28] = (8 + paylen) >> 8; p[29] = (8 + paylen) & 0xff;
	for (i = 0; i < paylen; i++) {
		seed = seed * 1103515245u + 12345u;
		p[32 + i] = (seed >> 16) & 0xff;
	}
	return 4 + total;
}

#endif
