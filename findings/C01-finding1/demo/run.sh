#!/bin/sh
# usage: run.sh <iodine source tree root> [lost]
#   lost = variant in which the first fragment of the new packet is lost as well
# exit 0 = PASS (property holds in this scenario), 1 = FAIL, 2 = harness trouble
TREE=${1:?usage: run.sh <tree>}
TREE=$(cd "$TREE" && pwd) || exit 2
HERE=$(cd "$(dirname "$0")" && pwd)
TMP=$(mktemp -d) || exit 2
trap 'rm -rf "$TMP"' EXIT
S="$TREE/src"
if [ -f "$S/base64u.c" ]; then
	cp "$S/base64u.c" "$TMP/base64u.c"
else
	{ echo '/* generated */'; sed -e 's/\([Bb][Aa][Ss][Ee]64\)/\1u/g ; s/0123456789+/0123456789_/' < "$S/base64.c"; } > "$TMP/base64u.c"
fi
${CC:-cc} -std=gnu99 -g -O0 -w -DLINUX -D_GNU_SOURCE -Dmain=iodined_main -DGITREVISION=\"demo\" \
	-I"$S" -I"$HERE" -o "$TMP/demo" "$HERE/demo.c" \
	"$S/dns.c" "$S/read.c" "$S/encoding.c" "$S/login.c" "$S/base32.c" "$S/base64.c" \
	"$TMP/base64u.c" "$S/base128.c" "$S/md5.c" "$S/common.c" "$S/user.c" "$S/fw_query.c" \
	-Wl,--wrap=sendto -lz || exit 2
"$TMP/demo" $2
