/*
 * Demonstration driver for property C06 (client survives arbitrary replies;
 * replies that do not match its recent queries are ignored): the "ghost" id.
 *
 * The real client code (client.c, dns.c, read.c, encoding.c, base*.c, login.c,
 * md5.c, common.c) is linked unchanged.  Only the outside world is replaced:
 *   - select/recvfrom/recv/sendto/time/sleep are redirected with ld --wrap to a
 *     scripted fake network with a fake clock,
 *   - the tun device functions (tun.c is not linked) are small stubs that
 *     count what the client writes to its tun device.
 *
 * The fake network contains an honest iodined look-alike (NULL-type answers,
 * enough of the protocol for a complete DNS-mode handshake and ping replies)
 * plus one injected datagram whose DNS id is (id of the client's very first
 * query - 7727), i.e. the start value of chunkid, which the client never sent.
 *
 * usage: driver short|long
 *   short: client started as "iodine -T NULL -r -m 1200" (no autodetection):
 *          11 handshake queries, then the tunnel.
 *   long:  same but without -m (fragment size autoprobe): more than 16
 *          handshake queries.  Informative only.
 * exit:  0 property held, 1 tun device was written for an unmatched reply,
 *        2 the scenario did not run as scripted.
 */
#include <stdio.h>
#include <stdlib.h>
#include <string.h>
#include <stdint.h>
#include <unistd.h>
#include <time.h>
#include <sys/types.h>
#include <sys/socket.h>
#include <sys/select.h>
#include <netinet/in.h>
#include <arpa/inet.h>
#include <zlib.h>

#include "common.h"
#include "encoding.h"
#include "client.h"
#include "tun.h"

#define DNS_FD 5
#define TUN_FD 6

/* ---------- fake clock ---------- */
static long long now_us = 1000000000LL * 1000;	/* arbitrary start */

time_t __wrap_time(time_t *t);
time_t __wrap_time(time_t *t)
{
	time_t v = (time_t) (now_us / 1000000);
	if (t)
		*t = v;
	return v;
}

unsigned int __wrap_sleep(unsigned int s);
unsigned int __wrap_sleep(unsigned int s)
{
	now_us += 1000000LL * s;
	return 0;
}

/* ---------- datagrams waiting for the client ---------- */
#define QMAX 64
static struct { int len; unsigned char d[8192]; } inq[QMAX];
static int inq_head, inq_tail;

static void enqueue(const unsigned char *d, int len)
{
	if (inq_tail >= QMAX) {
		fprintf(stderr, "driver: queue overflow\n");
		exit(2);
	}
	memcpy(inq[inq_tail].d, d, len);
	inq[inq_tail].len = len;
	inq_tail++;
}

/* ---------- tun stubs ---------- */
static int tun_writes;
static int tun_write_during_spoof;
static int spoof_being_read;

int write_tun(int fd, char *data, size_t len)
{
	(void) fd; (void) data;
	tun_writes++;
	if (spoof_being_read)
		tun_write_during_spoof++;
	fprintf(stderr, "driver: write_tun(%lu bytes)%s\n", (unsigned long) len,
		spoof_being_read ? "  <-- caused by the spoofed datagram" : "");
	return 0;
}

ssize_t read_tun(int fd, char *buf, size_t len)
{
	(void) fd; (void) buf; (void) len;
	return -1;
}

int tun_setip(const char *ip, const char *other_ip, int netbits)
{
	(void) ip; (void) other_ip; (void) netbits;
	return 0;
}

int tun_setmtu(const unsigned mtu)
{
	(void) mtu;
	return 0;
}

/* ---------- the honest server ---------- */
static int queries_seen;
static int handshake_queries;
static int pings_seen;
static int spoof_sent;
static int spoof_index = -1;	/* queue slot of the spoofed datagram */
static uint16_t ids_seen[256];
static uint16_t ghost_id;

static int build_reply(unsigned char *out, const unsigned char *q, int qlen,
		       int id, const unsigned char *rdata, int rdlen)
/* NULL-type answer to the question found in q */
{
	int p = 12;
	int qend;
	unsigned char *o = out;

	while (p < qlen && q[p] != 0)
		p += q[p] + 1;
	qend = p + 1 + 4;	/* root label, qtype, qclass */

	memset(o, 0, 12);
	o[0] = id >> 8;
	o[1] = id & 0xff;
	o[2] = 0x84;		/* QR, AA */
	o[5] = 1;		/* qdcount */
	o[7] = 1;		/* ancount */
	memcpy(o + 12, q + 12, qend - 12);
	o += qend;
	*o++ = 0xc0; *o++ = 12;			/* name: pointer to question */
	*o++ = q[qend - 4]; *o++ = q[qend - 3];	/* type as asked */
	*o++ = 0; *o++ = 1;			/* class IN */
	*o++ = 0; *o++ = 0; *o++ = 0; *o++ = 0;	/* ttl */
	*o++ = rdlen >> 8; *o++ = rdlen & 0xff;
	memcpy(o, rdata, rdlen);
	o += rdlen;
	return (int) (o - out);
}

static void send_spoof(const unsigned char *q, int qlen)
/* DNS id = start value of the client's id counter (first query id - 7727),
   a question that looks like a ping, one complete downstream packet
   (seqno 1, fragment 0, last-fragment flag) with a compressed payload. */
{
	unsigned char ip[84];
	unsigned char rdata[256];
	unsigned char pkt[1024];
	unsigned long clen = sizeof(rdata) - 2;
	int len;

	memset(ip, 0x41, sizeof(ip));
	ip[0] = 0; ip[1] = 0; ip[2] = 8; ip[3] = 0; ip[4] = 0x45;
	rdata[0] = 0x00;			/* no upstream ack */
	rdata[1] = (1 << 5) | (0 << 1) | 1;	/* seqno 1, frag 0, last */
	compress2(rdata + 2, &clen, ip, sizeof(ip), 9);

	len = build_reply(pkt, q, qlen, ghost_id /* never used by the client */,
			  rdata, (int) clen + 2);
	spoof_index = inq_tail;
	enqueue(pkt, len);
	spoof_sent = 1;
}

static void server_on_query(const unsigned char *q, int qlen)
{
	unsigned char rdata[4096];
	unsigned char pkt[8192];
	int rdlen = 0;
	int id = (q[0] << 8) | q[1];
	int c = q[13];		/* first char of the first label */
	const unsigned char *n = q + 13;

	ids_seen[queries_seen & 255] = id;
	if (queries_seen == 0)
		ghost_id = (uint16_t) (id - 7727);
	queries_seen++;

	switch (c) {
	case 'v':
		memcpy(rdata, "VACK", 4);
		rdata[4] = 1; rdata[5] = 2; rdata[6] = 3; rdata[7] = 4; /* seed */
		rdata[8] = 3;	/* user id */
		rdlen = 9;
		break;
	case 'l':
		rdlen = sprintf((char *) rdata, "10.0.0.1-10.0.0.2-1130-27");
		break;
	case 'y':
		memcpy(rdata, DOWNCODECCHECK1, DOWNCODECCHECK1_LEN);
		rdlen = DOWNCODECCHECK1_LEN;
		break;
	case 'z':
		/* bounce the name as received, like iodined does */
		{
			int p = 12;
			rdlen = 0;
			while (q[p] != 0 && rdlen + q[p] + 1 < 255) {
				if (rdlen)
					rdata[rdlen++] = '.';
				memcpy(rdata + rdlen, q + p + 1, q[p]);
				rdlen += q[p];
				p += q[p] + 1;
			}
		}
		break;
	case 's':
		rdlen = sprintf((char *) rdata, "Base128");
		break;
	case 'o':
		if (n[2] == 'l')
			rdlen = sprintf((char *) rdata, "Lazy");
		else if (n[2] == 'i')
			rdlen = sprintf((char *) rdata, "Immediate");
		else
			rdlen = sprintf((char *) rdata, "Base32");
		break;
	case 'r':
		{
			int fs = ((b32_8to5(n[1]) & 1) << 10) |
				 ((b32_8to5(n[2]) & 31) << 5) |
				 (b32_8to5(n[3]) & 31);
			int i;
			unsigned v = 0;
			if (fs < 2 || fs > 2047)
				return;
			if (fs > 1200)
				return;	/* the path drops big answers */
			rdata[0] = fs >> 8;
			rdata[1] = fs & 0xff;
			for (i = 2; i < fs; i++, v = (v + 107) & 0xff)
				rdata[i] = (i == 2) ? 107 : v;
			rdlen = fs;
		}
		break;
	case 'n':
		rdata[0] = 1200 >> 8;
		rdata[1] = 1200 & 0xff;
		rdlen = 2;
		break;
	case 'p':
		pings_seen++;
		if (!handshake_queries)
			handshake_queries = queries_seen - 1;
		rdata[0] = 0;	/* nothing acked, downstream seqno 0 frag 0 */
		rdata[1] = 0;
		rdlen = 2;
		break;
	default:
		return;		/* upstream data etc: not in this scenario */
	}

	enqueue(pkt, build_reply(pkt, q, qlen, id, rdata, rdlen));

	/* The spoofer fires once, right behind the answer to the first ping
	   of the tunnel */
	if (c == 'p' && pings_seen == 1)
		send_spoof(q, qlen);
}

/* ---------- wrapped libc ---------- */
static int select_calls;
static int rounds_after_spoof;

int __wrap_select(int nfds, fd_set *r, fd_set *w, fd_set *e, struct timeval *tv);
int __wrap_select(int nfds, fd_set *r, fd_set *w, fd_set *e, struct timeval *tv)
{
	(void) nfds; (void) w; (void) e;

	if (++select_calls > 2000) {
		fprintf(stderr, "driver: too many rounds\n");
		exit(2);
	}
	if (spoof_sent && inq_head > spoof_index && ++rounds_after_spoof > 6)
		client_stop();

	FD_ZERO(r);
	if (inq_head < inq_tail) {
		FD_SET(DNS_FD, r);
		now_us += 2000;		/* 2 ms on the wire */
		return 1;
	}
	if (tv)
		now_us += 1000000LL * tv->tv_sec + tv->tv_usec;
	return 0;
}

static ssize_t pop(void *buf, size_t len)
{
	int n;

	if (inq_head >= inq_tail)
		return -1;
	spoof_being_read = (inq_head == spoof_index);
	n = inq[inq_head].len;
	if ((size_t) n > len)
		n = (int) len;
	memcpy(buf, inq[inq_head].d, n);
	inq_head++;
	return n;
}

ssize_t __wrap_recvfrom(int fd, void *buf, size_t len, int flags,
			struct sockaddr *from, socklen_t *fromlen);
ssize_t __wrap_recvfrom(int fd, void *buf, size_t len, int flags,
			struct sockaddr *from, socklen_t *fromlen)
{
	(void) fd; (void) flags;
	if (from && fromlen && *fromlen >= sizeof(struct sockaddr_in)) {
		memset(from, 0, sizeof(struct sockaddr_in));
		from->sa_family = AF_INET;
		*fromlen = sizeof(struct sockaddr_in);
	}
	return pop(buf, len);
}

ssize_t __wrap_recv(int fd, void *buf, size_t len, int flags);
ssize_t __wrap_recv(int fd, void *buf, size_t len, int flags)
{
	(void) fd; (void) flags;
	return pop(buf, len);
}

ssize_t __wrap_sendto(int fd, const void *buf, size_t len, int flags,
		      const struct sockaddr *to, socklen_t tolen);
ssize_t __wrap_sendto(int fd, const void *buf, size_t len, int flags,
		      const struct sockaddr *to, socklen_t tolen)
{
	(void) fd; (void) flags; (void) to; (void) tolen;
	spoof_being_read = 0;
	if (len > 17)
		server_on_query(buf, (int) len);
	return (ssize_t) len;
}

/* ---------- main ---------- */
static char password[33] = "secret";	/* same size as in iodine.c */

int main(int argc, char **argv)
{
	struct sockaddr_storage ns;
	struct sockaddr_in *ns4 = (struct sockaddr_in *) &ns;
	int autoprobe;
	int r;
	int i;

	if (argc != 2) {
		fprintf(stderr, "usage: driver short|long\n");
		return 2;
	}
	autoprobe = !strcmp(argv[1], "long");

	memset(&ns, 0, sizeof(ns));
	ns4->sin_family = AF_INET;
	ns4->sin_port = htons(53);
	ns4->sin_addr.s_addr = htonl(0x7f000001);

	client_init();
	client_set_nameserver(&ns, sizeof(*ns4));
	client_set_topdomain("t.example.com");
	client_set_password(password);	/* login_calculate() reads 32 bytes */
	client_set_qtype("NULL");		/* -T NULL */
	client_set_selecttimeout(4);
	client_set_lazymode(1);
	client_set_hostname_maxlen(0xFF);

	/* -r (no raw mode); -m 1200 unless "long" */
	r = client_handshake(DNS_FD, 0, autoprobe, 1200);
	if (r != 0) {
		fprintf(stderr, "driver: handshake failed (%d)\n", r);
		return 2;
	}
	client_tunnel(TUN_FD, DNS_FD);

	if (!spoof_sent || inq_head <= spoof_index) {
		fprintf(stderr, "driver: spoofed datagram was never read\n");
		return 2;
	}
	for (i = 0; i < queries_seen && i < 256; i++)
		if (ids_seen[i] == ghost_id) {
			fprintf(stderr, "driver: client really used that id\n");
			return 2;
		}

	fprintf(stderr, "driver[%s]: %d handshake queries, %d queries in all, none with id %u; "
		"tun writes caused by the datagram with id %u: %d\n", argv[1],
		handshake_queries, queries_seen, ghost_id, ghost_id, tun_write_during_spoof);

	if (tun_writes != tun_write_during_spoof)
		return 2;	/* nothing else in this scenario carries data */
	return tun_write_during_spoof ? 1 : 0;
}
