#!/bin/sh
# usage: run.sh <iodine source tree root>
# exit 0: replies that match none of the client's queries are ignored
# exit 1: the client wrote a packet to its tun device for such a reply
# exit 2: build or harness trouble
TREE=${1:?usage: run.sh <source tree root>}
HERE=$(cd "$(dirname "$0")" && pwd)
[ -f "$TREE/src/client.c" ] || { echo "no src/client.c under $TREE" >&2; exit 2; }

TMP=$(mktemp -d) || exit 2
trap 'rm -rf "$TMP"' EXIT INT TERM

cp "$TREE"/src/*.c "$TREE"/src/*.h "$TMP"/ || exit 2
cp "$HERE/driver.c" "$TMP"/ || exit 2
cd "$TMP" || exit 2

# same rule as src/Makefile
{ echo '/* No use in editing, produced by Makefile! */'
  sed -e 's/\([Bb][Aa][Ss][Ee]64\)/\1u/g ; s/0123456789+/0123456789_/' < base64.c
} > base64u.c || exit 2

WRAP="-Wl,--wrap=select -Wl,--wrap=recvfrom -Wl,--wrap=recv -Wl,--wrap=sendto -Wl,--wrap=time -Wl,--wrap=sleep"
${CC:-gcc} -std=gnu99 -g -O1 -fno-omit-frame-pointer -fsanitize=address,undefined \
	-fno-sanitize-recover=undefined -DLINUX -I. \
	driver.c client.c dns.c read.c encoding.c login.c md5.c common.c \
	base32.c base64.c base64u.c base128.c \
	-o driver $WRAP -lz > build.log 2>&1 || { cat build.log >&2; exit 2; }

export ASAN_OPTIONS=exitcode=99:abort_on_error=0:detect_leaks=0
export UBSAN_OPTIONS=halt_on_error=1:exitcode=99:print_stacktrace=1

# Informative: after a long handshake (fragment size autoprobe, >16 queries)
# the datagram is ignored.
timeout 25 ./driver long > long.log 2>&1
echo "long handshake (no -m): exit $?: $(tail -1 long.log)"

# The case that counts: short handshake (-T NULL -r -m 1200)
timeout 25 ./driver short > short.log 2>&1
rc=$?
grep '^driver' short.log
case $rc in
0)  echo "PASS: the datagram with the never-sent id was ignored"; exit 0 ;;
1)  echo "FAIL: a datagram that matches no query reached the tun device"; exit 1 ;;
99) echo "FAIL: sanitizer report"; grep -m3 -E 'ERROR|runtime error' short.log; exit 1 ;;
*)  echo "harness trouble (exit $rc)"; tail -20 short.log; exit 2 ;;
esac
