/*
 * C16 finding: a waiting ping that the server forgets without answering it
 * (a late copy of the client's raw-mode login datagram overwrites the slot it
 * waits in) is in none of the server's memories; when a relay re-delivers it
 * eight downstream packets later, it is processed a second time and its old
 * downstream ack is applied to a different packet that happens to carry the
 * same sequence numbers.
 *
 * exit 0 = property holds, 1 = violated, 2 = harness trouble
 */
#include "harness.c"

static struct h_client c;
static int uid;
static int seed_of_session;

/* a datagram as sent by send_raw_udp_login() in client.c */
static void raw_login_datagram(void)
{
	struct sockaddr_in *sin = (struct sockaddr_in *) &h_dns_from;

	memcpy(h_dns_in, raw_header, RAW_HDR_LEN);
	h_dns_in[RAW_HDR_CMD] = RAW_HDR_CMD_LOGIN | (uid & 0x0f);
	login_calculate(h_dns_in + RAW_HDR_LEN, 16, password,
			(int) ((unsigned int) seed_of_session + 1u));
	h_dns_in_len = RAW_HDR_LEN + 16;
	memset(&h_dns_from, 0, sizeof(h_dns_from));
	sin->sin_family = AF_INET;
	sin->sin_addr.s_addr = inet_addr("192.0.2.7");
	sin->sin_port = htons(40000);
	h_dns_fromlen = sizeof(*sin);
	h_step(H_EV_DNS);
}

static char lastping[512];

static void ping(void)
{
	h_ping_name(&c, lastping, sizeof(lastping));
	h_query(lastping, T_NULL, h_newid(&c), 5353);
}

/* one small downstream packet goes out on the waiting ping; the client acks
   it with its next ping, which then waits */
static int small_packet_down(int tag)
{
	h_tun_packet(uid, 30, tag);
	if (h_nans < 1 || h_ans[0].len <= 2 || !(h_ans[0].data[1] & 1))
		return -1;
	h_client_sees(&c, &h_ans[0]);
	ping();
	return 0;
}

static int run(int with_late_raw_login)
{
	char victim[512];
	int i, bad = 0;
	int seq, frag, off;

	printf("%s the late raw login datagram:\n", with_late_raw_login ? "With" : "Without");
	h_client_init(&c, 0);
	c.nextid = with_late_raw_login ? 100 : 20000;
	c.pingcmc = with_late_raw_login ? 0x4000 : 0x5000;
	uid = h_login(&c, 100, 1);
	if (uid < 0)
		return 2;
	seed_of_session = users[uid].seed;

	ping();					/* waits */
	if (small_packet_down(1))		/* seq 1; next ping acks 1/0 and waits */
		return 2;
	strcpy(victim, lastping);
	printf("  ping %s (acks downstream %d/%d) is waiting at the server\n",
	       victim, c.dnseq, c.dnfrag);
	if (with_late_raw_login) {
		raw_login_datagram();
		printf("  raw login datagram arrives; waiting query id now %u, %d answer(s) sent\n",
		       users[uid].q.id, h_nans);
		ping();				/* client carries on in DNS mode */
	}
	for (i = 0; i < 7; i++)			/* seq 2..7, 0 */
		if (small_packet_down(2 + i))
			return 2;
	/* the 9th packet has seq 1 again and needs several fragments; its first
	   fragment goes out on the waiting ping (and is, say, lost) */
	h_tun_packet(uid, 250, 99);
	if (h_nans < 1 || h_ans[0].len <= 2 || (h_ans[0].data[1] & 1))
		return 2;
	seq = users[uid].outpacket.seqno;
	frag = users[uid].outpacket.fragment;
	off = users[uid].outpacket.offset;
	printf("  server is sending downstream %d/%d (offset %d of %d), not acked\n",
	       seq, frag, off, users[uid].outpacket.len);

	h_query(victim, T_NULL, h_newid(&c), 5353);	/* the relay repeats itself */
	printf("  copy of the ping re-delivered: %d answer(s), %d byte(s); server now at %d/%d (offset %d)\n",
	       h_nans, h_nans ? h_ans[0].len : 0, users[uid].outpacket.seqno,
	       users[uid].outpacket.fragment, users[uid].outpacket.offset);
	if (users[uid].outpacket.seqno != seq || users[uid].outpacket.fragment != frag ||
	    users[uid].outpacket.offset != off) {
		printf("  ** VIOLATION: the re-delivered ping advanced the downstream stream\n");
		bad = 1;
	}
	return bad;
}

int main(void)
{
	int r1, r2;

	h_init(1);
	r1 = run(0);
	if (r1 == 2) {
		printf("harness trouble in control run\n");
		return 2;
	}
	h_now += 100;				/* first session expires, slot 0 is reused */
	r2 = run(1);
	if (r2 == 2) {
		printf("harness trouble\n");
		return 2;
	}
	if (r1) {
		printf("harness: control run must not fail\n");
		return 2;
	}
	printf("%s\n", r2 ? "FAIL" : "ok");
	return r2;
}
