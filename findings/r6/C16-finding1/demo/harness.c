/*
 * Test harness around the real iodined.c: the server's own tunnel() loop is
 * run one iteration at a time; select/recvmsg/sendto/time/syslog are replaced
 * at link time (-Wl,--wrap=...), the tun device is stubbed here.
 *
 * Included by a scenario file (single translation unit).
 */
#define main iodined_main
#include "iodined.c"
#undef main

#include <stdarg.h>

#define H_DNSFD 50
#define H_TUNFD 51
#define H_TOP "t.example"

/* ---------- time ---------- */
static time_t h_now = 1000000;
time_t __wrap_time(time_t *t);
time_t __wrap_time(time_t *t)
{
	if (t)
		*t = h_now;
	return h_now;
}

void __wrap_syslog(int pri, const char *fmt, ...);
void __wrap_syslog(int pri, const char *fmt, ...)
{
	(void) pri; (void) fmt;
}

/* ---------- tun stub ---------- */
static char h_tun_in[70000];
static int h_tun_in_len;
static int h_tun_writes;		/* packets the server wrote to tun */
static char h_tun_last[70000];
static int h_tun_last_len;

int open_tun(const char *d) { (void) d; return H_TUNFD; }
void close_tun(int fd) { (void) fd; }
int write_tun(int fd, char *data, size_t len)
{
	(void) fd;
	h_tun_writes++;
	h_tun_last_len = (int) MIN(len, sizeof(h_tun_last));
	memcpy(h_tun_last, data, h_tun_last_len);
	return 0;
}
ssize_t read_tun(int fd, char *buf, size_t len)
{
	int l = (int) MIN((size_t) h_tun_in_len, len);
	(void) fd;
	memcpy(buf, h_tun_in, l);
	h_tun_in_len = 0;
	return l;
}
int tun_setip(const char *a, const char *b, int c) { (void) a; (void) b; (void) c; return 0; }
int tun_setmtu(const unsigned m) { (void) m; return 0; }

/* ---------- one loop iteration ---------- */
enum { H_EV_IDLE, H_EV_DNS, H_EV_TUN };
static int h_ev;
static char h_dns_in[70000];
static int h_dns_in_len;
static struct sockaddr_storage h_dns_from;
static socklen_t h_dns_fromlen;
static long h_last_timeout_usec;
static int h_tun_was_selectable;

int __wrap_select(int n, fd_set *r, fd_set *w, fd_set *e, struct timeval *tv);
int __wrap_select(int n, fd_set *r, fd_set *w, fd_set *e, struct timeval *tv)
{
	int tunsel = FD_ISSET(H_TUNFD, r);
	(void) n; (void) w; (void) e;
	h_last_timeout_usec = tv->tv_sec * 1000000L + tv->tv_usec;
	h_tun_was_selectable = tunsel;
	running = 0;			/* exactly one iteration */
	FD_ZERO(r);
	if (h_ev == H_EV_DNS) {
		FD_SET(H_DNSFD, r);
		return 1;
	}
	if (h_ev == H_EV_TUN && tunsel) {
		FD_SET(H_TUNFD, r);
		return 1;
	}
	return 0;
}

ssize_t __wrap_recvmsg(int fd, struct msghdr *msg, int flags);
ssize_t __wrap_recvmsg(int fd, struct msghdr *msg, int flags)
{
	(void) fd; (void) flags;
	memcpy(msg->msg_iov[0].iov_base, h_dns_in, h_dns_in_len);
	memcpy(msg->msg_name, &h_dns_from, h_dns_fromlen);
	msg->msg_namelen = h_dns_fromlen;
	msg->msg_controllen = 0;
	return h_dns_in_len;
}

/* ---------- answers ---------- */
struct h_answer {
	unsigned short id;
	unsigned short port;		/* destination port (= which relay) */
	char qname[QUERY_NAME_SIZE];	/* question name echoed in the answer */
	unsigned char data[4200];	/* NULL rdata */
	int len;
};
#define H_MAXANS 16
static struct h_answer h_ans[H_MAXANS];
static int h_nans;

static int h_skipname(const unsigned char *p, int len, int off, char *out, int outlen)
{
	int o = 0;
	while (off < len) {
		int l = p[off];
		if ((l & 0xc0) == 0xc0)
			return off + 2;
		off++;
		if (l == 0)
			break;
		if (out && o + l + 1 < outlen) {
			memcpy(out + o, p + off, l);
			o += l;
			out[o++] = '.';
		}
		off += l;
	}
	if (out) {
		if (o > 0) o--;		/* final dot */
		out[o] = 0;
	}
	return off;
}

ssize_t __wrap_sendto(int fd, const void *buf, size_t len, int flags,
		      const struct sockaddr *to, socklen_t tolen);
ssize_t __wrap_sendto(int fd, const void *buf, size_t len, int flags,
		      const struct sockaddr *to, socklen_t tolen)
{
	const unsigned char *p = buf;
	struct h_answer *a;
	int off, rdlen;
	(void) fd; (void) flags; (void) tolen;

	if (h_nans >= H_MAXANS || len < 12)
		return len;
	a = &h_ans[h_nans++];
	memset(a, 0, sizeof(*a));
	a->id = (p[0] << 8) | p[1];
	a->port = ntohs(((const struct sockaddr_in *) to)->sin_port);
	off = h_skipname(p, len, 12, a->qname, sizeof(a->qname));
	off += 4;				/* qtype, qclass */
	off = h_skipname(p, len, off, NULL, 0);
	off += 8;				/* type, class, ttl */
	if (off + 2 > (int) len) {
		a->len = -1;
		return len;
	}
	rdlen = (p[off] << 8) | p[off + 1];
	off += 2;
	if (off + rdlen > (int) len || rdlen > (int) sizeof(a->data)) {
		a->len = -1;
		return len;
	}
	memcpy(a->data, p + off, rdlen);
	a->len = rdlen;
	return len;
}

static struct dnsfd h_fds = { H_DNSFD, -1 };

static void h_step(int ev)
{
	h_ev = ev;
	h_nans = 0;
	running = 1;
	tunnel(H_TUNFD, &h_fds, 0, 0);
}

/* Deliver one query (name without topdomain part given in full) */
static void h_query(const char *fullname, unsigned short type,
		    unsigned short id, unsigned short relayport)
{
	struct query q;
	struct sockaddr_in *sin = (struct sockaddr_in *) &h_dns_from;

	memset(&q, 0, sizeof(q));
	q.id = id;
	q.type = type;
	h_dns_in_len = dns_encode(h_dns_in, sizeof(h_dns_in), &q, QR_QUERY,
				  fullname, strlen(fullname));
	memset(&h_dns_from, 0, sizeof(h_dns_from));
	sin->sin_family = AF_INET;
	sin->sin_addr.s_addr = inet_addr("192.0.2.7");
	sin->sin_port = htons(relayport);
	h_dns_fromlen = sizeof(*sin);
	h_step(H_EV_DNS);
}

static void h_idle(void)
{
	h_step(H_EV_IDLE);
}

/* A packet from the tun device for user 'userid': 4 byte tun header, IP
   header, payload of pseudo-random (poorly compressible) bytes */
static unsigned int h_rnd_state = 12345;
static unsigned int h_rnd(void)
{
	h_rnd_state = h_rnd_state * 1103515245u + 12345u;
	return (h_rnd_state >> 16) & 0x7fff;
}

static int h_make_ip(char *buf, in_addr_t dst, int payload, int tag)
{
	struct ip *ih = (struct ip *) (buf + 4);
	int i;

	memset(buf, 0, 4 + sizeof(struct ip));
	buf[2] = 8;			/* ETH_P_IP */
	ih->ip_v = 4;
	ih->ip_hl = 5;
	ih->ip_len = htons(sizeof(struct ip) + payload);
	ih->ip_id = htons(tag);
	ih->ip_p = 17;
	ih->ip_src.s_addr = inet_addr("10.9.9.9");
	ih->ip_dst.s_addr = dst;
	for (i = 0; i < payload; i++)
		buf[4 + sizeof(struct ip) + i] = h_rnd() & 0xff;
	return 4 + sizeof(struct ip) + payload;
}

static int h_tun_packet(int userid, int payload, int tag)
{
	h_tun_in_len = h_make_ip(h_tun_in, users[userid].tun_ip, payload, tag);
	h_step(H_EV_TUN);
	return h_tun_was_selectable;
}

/* ---------- a minimal client ---------- */
struct h_client {
	int userid;
	unsigned short type;
	unsigned short nextid;
	unsigned short pingcmc;
	int datacmc;
	/* upstream */
	char up[70000];
	int uplen, upoff, upsent;
	int upseq, upfrag;
	/* downstream position as the client knows it */
	int dnseq, dnfrag;
};

static void h_client_init(struct h_client *c, int userid)
{
	memset(c, 0, sizeof(*c));
	c->userid = userid;
	c->type = T_NULL;
	c->nextid = 100;
	c->pingcmc = 0x4000;
}

static unsigned short h_newid(struct h_client *c)
{
	c->nextid++;
	if (c->nextid == 0)
		c->nextid = 1;
	return c->nextid;
}

static void h_mk(char *out, size_t outlen, char cmd, const char *data, int len)
{
	out[0] = cmd;
	build_hostname(out + 1, outlen - 1, data, len, H_TOP, &base32_ops, 0xFF);
}

/* build the name of the next ping */
static void h_ping_name(struct h_client *c, char *name, size_t len)
{
	char d[4];
	d[0] = c->userid;
	d[1] = ((c->dnseq & 7) << 4) | (c->dnfrag & 15);
	d[2] = (c->pingcmc >> 8) & 0xff;
	d[3] = c->pingcmc & 0xff;
	c->pingcmc++;
	h_mk(name, len, 'p', d, 4);
}

/* start a new upstream packet: compressed IP packet to some outside host */
static void h_up_start(struct h_client *c, int payload, int tag)
{
	char raw[70000];
	unsigned long outlen = sizeof(c->up);
	int rawlen = h_make_ip(raw, inet_addr("10.77.0.1"), payload, tag);

	compress2((uint8_t *) c->up, &outlen, (uint8_t *) raw, rawlen, 9);
	c->uplen = outlen;
	c->upoff = 0;
	c->upsent = 0;
	c->upseq = (c->upseq + 1) & 7;
	c->upfrag = 0;
}

/* build the name of the data query for the current fragment; maxlen limits
   the hostname (like -M) so that packets need several fragments */
static void h_data_name(struct h_client *c, char *buf, size_t len, int maxlen)
{
	static const char *cmcchars = "abcdefghijklmnopqrstuvwxyz0123456789";
	static const char hex[] = "0123456789abcdef";
	int avail = c->uplen - c->upoff;
	int code;

	c->upsent = build_hostname(buf + 5, len - 5, c->up + c->upoff, avail,
				   H_TOP, users[c->userid].encoder, maxlen);
	buf[0] = hex[c->userid];
	code = ((c->upseq & 7) << 2) | ((c->upfrag & 15) >> 2);
	buf[1] = b32_5to8(code);
	code = ((c->upfrag & 3) << 3) | (c->dnseq & 7);
	buf[2] = b32_5to8(code);
	code = ((c->dnfrag & 15) << 1) | (c->upsent == avail);
	buf[3] = b32_5to8(code);
	buf[4] = cmcchars[c->datacmc];
	c->datacmc = (c->datacmc + 1) % 36;
}

/* the client has seen the ack for its current fragment */
static void h_up_acked(struct h_client *c)
{
	c->upoff += c->upsent;
	c->upsent = 0;
	if (c->upoff >= c->uplen)
		c->uplen = 0;
	else
		c->upfrag++;
}

/* take the downstream position from an answer, as far as a client would */
static void h_client_sees(struct h_client *c, const struct h_answer *a)
{
	if (a->len > 2) {
		c->dnseq = (a->data[1] >> 5) & 7;
		c->dnfrag = (a->data[1] >> 1) & 15;
	}
}

/* ---------- session set-up: version, login, fragsize, lazy ---------- */
static int h_login(struct h_client *c, int fragsize, int lazy)
{
	char name[512];
	char d[32];
	int seed, uid;

	d[0] = (PROTOCOL_VERSION >> 24) & 0xff;
	d[1] = (PROTOCOL_VERSION >> 16) & 0xff;
	d[2] = (PROTOCOL_VERSION >> 8) & 0xff;
	d[3] = PROTOCOL_VERSION & 0xff;
	d[4] = 0x12; d[5] = 0x34;
	h_mk(name, sizeof(name), 'v', d, 6);
	h_query(name, c->type, h_newid(c), 5353);
	if (h_nans != 1 || h_ans[0].len < 9 || memcmp(h_ans[0].data, "VACK", 4))
		return -1;
	seed = ((h_ans[0].data[4] & 0xff) << 24) | ((h_ans[0].data[5] & 0xff) << 16) |
	       ((h_ans[0].data[6] & 0xff) << 8) | (h_ans[0].data[7] & 0xff);
	uid = h_ans[0].data[8];
	c->userid = uid;

	memset(d, 0, sizeof(d));
	d[0] = uid;
	login_calculate(d + 1, 16, password, seed);
	d[17] = 0x12; d[18] = 0x35;
	h_mk(name, sizeof(name), 'l', d, 19);
	h_query(name, c->type, h_newid(c), 5353);
	if (h_nans != 1 || !users[uid].authenticated)
		return -2;

	if (lazy) {
		snprintf(name, sizeof(name), "o%cl.%s", b32_5to8(uid), H_TOP);
		h_query(name, c->type, h_newid(c), 5353);
		if (h_nans != 1 || h_ans[0].len != 4 || memcmp(h_ans[0].data, "Lazy", 4))
			return -3;
	}

	d[0] = uid;
	d[1] = (fragsize >> 8) & 0xff;
	d[2] = fragsize & 0xff;
	d[3] = 0x12; d[4] = 0x36;
	h_mk(name, sizeof(name), 'n', d, 5);
	h_query(name, c->type, h_newid(c), 5353);
	if (h_nans != 1 || users[uid].fragsize != fragsize)
		return -4;
	return uid;
}

static void h_init(int checkip)
{
	topdomain = strdup(H_TOP);
	strcpy(password, "secret");
	check_ip = checkip;
	my_mtu = 1130;
	netmask = 27;
	my_ip = inet_addr("10.0.0.1");
	ns_ip = INADDR_ANY;
	debug = getenv("H_DEBUG") ? atoi(getenv("H_DEBUG")) : 0;
	srand(1);
	fw_query_init();
	created_users = init_users(my_ip, netmask);
}

/* change the case of every letter of the data part (not the topdomain) */
static void h_recase(char *dst, const char *src, int upper_from, int upper_to)
{
	size_t n = strlen(src) - strlen(H_TOP);
	size_t i;

	strcpy(dst, src);
	for (i = 0; i < n; i++) {
		if ((int) i < upper_from || (int) i >= upper_to)
			continue;
		if (dst[i] >= 'a' && dst[i] <= 'z')
			dst[i] = dst[i] - 'a' + 'A';
		else if (dst[i] >= 'A' && dst[i] <= 'Z')
			dst[i] = dst[i] - 'A' + 'a';
	}
}
