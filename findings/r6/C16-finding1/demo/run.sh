#!/bin/sh
# usage: run.sh <source tree root>
# exit 0: property holds for the demonstrated case, 1: violated, 2: build/harness trouble
TREE=${1:-}
if [ -z "$TREE" ] || [ ! -f "$TREE/src/iodined.c" ]; then
	echo "usage: $0 <source tree root>" >&2
	exit 2
fi
TREE=$(cd "$TREE" && pwd)
HERE=$(cd "$(dirname "$0")" && pwd)
W=$(mktemp -d) || exit 2
trap 'rm -rf "$W"' EXIT INT TERM

build() {
	sed -e 's/\([Bb][Aa][Ss][Ee]64\)/\1u/g ; s/0123456789+/0123456789_/' \
		< "$TREE/src/base64.c" > "$W/base64u.c" || return 1
	CF="-std=c99 -g -O0 -Wall -DLINUX -D_GNU_SOURCE -DGITREVISION=\"demo\" -I$TREE/src -I$HERE"
	OBJS=""
	for f in base32 base64 base128 common dns encoding login md5 read user fw_query; do
		cc $CF -c "$TREE/src/$f.c" -o "$W/$f.o" || return 1
		OBJS="$OBJS $W/$f.o"
	done
	cc $CF -c "$W/base64u.c" -o "$W/base64u.o" || return 1
	OBJS="$OBJS $W/base64u.o"
	# scenario.c includes harness.c, which includes the tree's iodined.c
	cc $CF -Wno-unused-function -c "$HERE/scenario.c" -o "$W/scenario.o" || return 1
	cc -o "$W/scenario" "$W/scenario.o" $OBJS -lz \
		-Wl,--wrap=select -Wl,--wrap=recvmsg -Wl,--wrap=sendto \
		-Wl,--wrap=time -Wl,--wrap=syslog || return 1
}

build > "$W/build.log" 2>&1 || { cat "$W/build.log" >&2; echo "build failed" >&2; exit 2; }
"$W/scenario"
rc=$?
case $rc in
0|1) exit $rc ;;
*) exit 2 ;;
esac
