/* See sim.h */
#define _GNU_SOURCE
#include <stdio.h>
#include <stdlib.h>
#include <string.h>
#include <stdint.h>
#include <errno.h>
#include <ucontext.h>
#include <unistd.h>
#include <sys/types.h>
#include <sys/select.h>
#include <sys/socket.h>
#include <sys/time.h>
#include <netinet/in.h>
#include <arpa/inet.h>
#include <time.h>
#include <zlib.h>

#include "common.h"
#include "tun.h"
#include "client.h"
#include "sim.h"

/* from srv.c (which includes iodined.c) */
void srv_setup(const char *topdomain, const char *pw, int check_ip, int mtu,
	       const char *ip, int netbits);
int srv_run(int tun_fd, int v4fd);

int sim_verbose = 0;

#define EPOCH ((time_t) 1700000000)

#define FD_CL_DNS 100
#define FD_CL_TUN 101
#define FD_SV_DNS 110
#define FD_SV_TUN 111

#define STACKSZ (8 * 1024 * 1024)

#define TOPDOMAIN "t.example.com"
#define SERVER_IP "10.9.0.1"
#define CLIENT_IP "10.9.0.2"

/* ---------------------------------------------------------------- clock */

static int64_t now_us;

int64_t sim_now(void) { return now_us; }

time_t __wrap_time(time_t *t);
time_t
__wrap_time(time_t *t)
{
	time_t v = EPOCH + (time_t) (now_us / SEC);
	if (t)
		*t = v;
	return v;
}

/* --------------------------------------------------------------- fibers */

struct fiber {
	ucontext_t ctx;
	char *stack;
	int started;
	int done;
	int blocked;
	int want[8];
	int nwant;
	int64_t deadline;
	int ready[8];
	int nready;
};

static struct fiber fib[2];
static ucontext_t main_ctx;
static int cur = -1;

static void
yield_to_main(void)
{
	int me = cur;
	cur = -1;
	swapcontext(&fib[me].ctx, &main_ctx);
	cur = me;
}

/* ------------------------------------------------------ datagram queues */

struct dgram {
	int64_t when;
	long seq;
	int len;
	unsigned char *data;
};

struct dq {
	struct dgram *v;
	int n, cap;
};

static struct dq inbox[2];	/* indexed by receiving side */
static long dgram_seq;
static long dgram_count[2];
static sim_fault_fn fault_fn;
static struct sim_config cfg;

void sim_set_fault(sim_fault_fn fn) { fault_fn = fn; }
long sim_datagrams(int dir) { return dgram_count[dir]; }

static void
dq_insert(struct dq *q, int64_t when, const void *data, int len)
{
	int i;

	if (q->n == q->cap) {
		q->cap = q->cap ? q->cap * 2 : 64;
		q->v = realloc(q->v, q->cap * sizeof(q->v[0]));
	}
	i = q->n;
	while (i > 0 && q->v[i - 1].when > when) {
		q->v[i] = q->v[i - 1];
		i--;
	}
	q->v[i].when = when;
	q->v[i].seq = dgram_seq++;
	q->v[i].len = len;
	q->v[i].data = malloc(len ? len : 1);
	memcpy(q->v[i].data, data, len);
	q->n++;
}

static int
dq_pop(struct dq *q, void *buf, int buflen)
{
	int len;

	if (q->n == 0 || q->v[0].when > now_us) {
		errno = EAGAIN;
		return -1;
	}
	len = q->v[0].len;
	if (len > buflen)
		len = buflen;
	memcpy(buf, q->v[0].data, len);
	free(q->v[0].data);
	memmove(&q->v[0], &q->v[1], (q->n - 1) * sizeof(q->v[0]));
	q->n--;
	return len;
}

static void
fill_addr(struct sockaddr_in *a, int side)
{
	memset(a, 0, sizeof(*a));
	a->sin_family = AF_INET;
	if (side == SIDE_CLIENT) {
		a->sin_addr.s_addr = inet_addr("192.0.2.10");
		a->sin_port = htons(40000);
	} else {
		a->sin_addr.s_addr = inet_addr("192.0.2.1");
		a->sin_port = htons(53);
	}
}

ssize_t __wrap_sendto(int fd, const void *buf, size_t len, int flags,
		      const struct sockaddr *to, socklen_t tolen);
ssize_t
__wrap_sendto(int fd, const void *buf, size_t len, int flags,
	      const struct sockaddr *to, socklen_t tolen)
{
	int dir;
	int64_t delay[8];
	int n, i;

	if (cur < 0) {
		fprintf(stderr, "sim: sendto outside fiber\n");
		exit(2);
	}
	dir = (cur == SIDE_CLIENT) ? DIR_UP : DIR_DOWN;
	dgram_count[dir]++;

	if (fault_fn) {
		n = fault_fn(dir, now_us, buf, (int) len, delay, 8);
	} else {
		n = 1;
		delay[0] = cfg.latency;
	}
	if (sim_verbose >= 2)
		printf("%10.4f %s datagram %d bytes -> %d copies\n",
		       now_us / 1e6, dir == DIR_UP ? "UP  " : "DOWN", (int) len, n);
	for (i = 0; i < n; i++)
		dq_insert(&inbox[dir == DIR_UP ? SIDE_SERVER : SIDE_CLIENT],
			  now_us + (delay[i] > 0 ? delay[i] : 1), buf, (int) len);
	return len;
}

ssize_t __wrap_recvfrom(int fd, void *buf, size_t len, int flags,
			struct sockaddr *from, socklen_t *fromlen);
ssize_t
__wrap_recvfrom(int fd, void *buf, size_t len, int flags,
		struct sockaddr *from, socklen_t *fromlen)
{
	int r;

	if (cur < 0)
		exit(2);
	r = dq_pop(&inbox[cur], buf, (int) len);
	if (r >= 0 && from && fromlen && *fromlen >= sizeof(struct sockaddr_in)) {
		fill_addr((struct sockaddr_in *) from, !cur);
		*fromlen = sizeof(struct sockaddr_in);
	}
	return r;
}

ssize_t __wrap_recv(int fd, void *buf, size_t len, int flags);
ssize_t
__wrap_recv(int fd, void *buf, size_t len, int flags)
{
	return __wrap_recvfrom(fd, buf, len, flags, NULL, NULL);
}

ssize_t __wrap_recvmsg(int fd, struct msghdr *msg, int flags);
ssize_t
__wrap_recvmsg(int fd, struct msghdr *msg, int flags)
{
	int r;

	if (cur < 0)
		exit(2);
	r = dq_pop(&inbox[cur], msg->msg_iov[0].iov_base,
		   (int) msg->msg_iov[0].iov_len);
	if (r >= 0) {
		if (msg->msg_name && msg->msg_namelen >= sizeof(struct sockaddr_in)) {
			fill_addr((struct sockaddr_in *) msg->msg_name, !cur);
			msg->msg_namelen = sizeof(struct sockaddr_in);
		}
		msg->msg_controllen = 0;
		msg->msg_flags = 0;
	}
	return r;
}

/* ------------------------------------------------------------------ tun */

struct tunpkt {
	int64_t when;
	uint32_t id;
	int total;
	int compressible;
};

static struct {
	struct tunpkt *v;
	int n, cap, head;
	int taken;
	struct sim_delivery *out;
	int nout, capout;
} tun[2];

static uint32_t
xs32(uint32_t *s)
{
	uint32_t x = *s;
	x ^= x << 13;
	x ^= x >> 17;
	x ^= x << 5;
	*s = x;
	return x;
}

static void
gen_packet(int side, uint32_t id, int total, int compressible, unsigned char *b)
{
	uint32_t s = id * 2654435761u + 12345u + (uint32_t) side;
	int iplen = total - 4;
	int i;

	if (s == 0)
		s = 1;
	memset(b, 0, total);
	b[2] = 0x08;
	b[4] = 0x45;
	b[6] = (iplen >> 8) & 0xff;
	b[7] = iplen & 0xff;
	b[8] = (id >> 8) & 0xff;
	b[9] = id & 0xff;
	b[12] = 64;
	b[13] = 17;
	if (side == SIDE_CLIENT) {
		in_addr_t a = inet_addr(CLIENT_IP), d = inet_addr(SERVER_IP);
		memcpy(b + 16, &a, 4);
		memcpy(b + 20, &d, 4);
	} else {
		in_addr_t a = inet_addr(SERVER_IP), d = inet_addr(CLIENT_IP);
		memcpy(b + 16, &a, 4);
		memcpy(b + 20, &d, 4);
	}
	memcpy(b + 24, "IoDt", 4);
	b[28] = id >> 24; b[29] = id >> 16; b[30] = id >> 8; b[31] = id;
	b[32] = total >> 24; b[33] = total >> 16; b[34] = total >> 8; b[35] = total;
	b[36] = compressible ? 1 : 0;
	b[37] = side;
	for (i = 38; i < total; i++)
		b[i] = compressible ? 'a' : (xs32(&s) >> 11) & 0xff;
}

void
sim_offer(int side, int64_t when, uint32_t id, int total, int compressible)
{
	int i;

	if (total < 40)
		total = 40;
	if (tun[side].n == tun[side].cap) {
		tun[side].cap = tun[side].cap ? tun[side].cap * 2 : 64;
		tun[side].v = realloc(tun[side].v, tun[side].cap * sizeof(struct tunpkt));
	}
	i = tun[side].n;
	while (i > tun[side].head && tun[side].v[i - 1].when > when) {
		tun[side].v[i] = tun[side].v[i - 1];
		i--;
	}
	tun[side].v[i].when = when;
	tun[side].v[i].id = id;
	tun[side].v[i].total = total;
	tun[side].v[i].compressible = compressible;
	tun[side].n++;
}

int
sim_compressed_size(int side, uint32_t id, int total, int compressible)
{
	static unsigned char in[70000], out[80000];
	unsigned long outlen = sizeof(out);

	gen_packet(side, id, total, compressible, in);
	compress2(out, &outlen, in, total, 9);
	return (int) outlen;
}

int sim_taken(int side) { return tun[side].taken; }
int sim_tun_backlog(int side) { return tun[side].n - tun[side].head; }

int
sim_deliveries(int side, const struct sim_delivery **out)
{
	*out = tun[side].out;
	return tun[side].nout;
}

static int
side_of_tunfd(int fd)
{
	if (fd == FD_CL_TUN)
		return SIDE_CLIENT;
	if (fd == FD_SV_TUN)
		return SIDE_SERVER;
	fprintf(stderr, "sim: bad tun fd %d\n", fd);
	exit(2);
}

int open_tun(const char *dev) { return -1; }
void close_tun(int fd) { }
int tun_setip(const char *ip, const char *other, int bits) { return 0; }
int tun_setmtu(const unsigned mtu) { return 0; }

ssize_t
read_tun(int fd, char *buf, size_t len)
{
	int side = side_of_tunfd(fd);
	struct tunpkt *p;

	if (tun[side].head >= tun[side].n ||
	    tun[side].v[tun[side].head].when > now_us) {
		errno = EAGAIN;
		return -1;
	}
	p = &tun[side].v[tun[side].head++];
	gen_packet(side, p->id, p->total, p->compressible, (unsigned char *) buf);
	tun[side].taken++;
	if (sim_verbose)
		printf("%10.4f %s takes packet %u (%d bytes) from its tun\n",
		       now_us / 1e6, side ? "server" : "client", p->id, p->total);
	return p->total;
}

int
write_tun(int fd, char *data, size_t len)
{
	static unsigned char ref[70000];
	int side = side_of_tunfd(fd);
	unsigned char *b = (unsigned char *) data;
	struct sim_delivery *d;

	if (tun[side].nout == tun[side].capout) {
		tun[side].capout = tun[side].capout ? tun[side].capout * 2 : 64;
		tun[side].out = realloc(tun[side].out,
					tun[side].capout * sizeof(struct sim_delivery));
	}
	d = &tun[side].out[tun[side].nout++];
	d->when = now_us;
	d->len = (int) len;
	d->id = 0xffffffffu;
	d->intact = 0;
	if (len >= 40 && len < sizeof(ref) && !memcmp(b + 24, "IoDt", 4)) {
		uint32_t id = ((uint32_t) b[28] << 24) | (b[29] << 16) | (b[30] << 8) | b[31];
		int total = (b[32] << 24) | (b[33] << 16) | (b[34] << 8) | b[35];

		d->id = id;
		if (total == (int) len && b[37] == !side) {
			gen_packet(!side, id, total, b[36], ref);
			d->intact = !memcmp(ref + 4, b + 4, len - 4);
		}
	}
	if (sim_verbose)
		printf("%10.4f %s writes packet %u (%d bytes%s) to its tun\n",
		       now_us / 1e6, side ? "server" : "client", d->id, (int) len,
		       d->intact ? "" : ", DAMAGED");
	return 0;
}

/* --------------------------------------------------------------- select */

int __wrap_select(int nfds, fd_set *r, fd_set *w, fd_set *e, struct timeval *tv);
int
__wrap_select(int nfds, fd_set *r, fd_set *w, fd_set *e, struct timeval *tv)
{
	struct fiber *f;
	int fd, i;

	if (cur < 0) {
		fprintf(stderr, "sim: select outside fiber\n");
		exit(2);
	}
	f = &fib[cur];
	f->nwant = 0;
	if (r)
		for (fd = 0; fd < nfds; fd++)
			if (FD_ISSET(fd, r) && f->nwant < 8)
				f->want[f->nwant++] = fd;
	if (tv)
		f->deadline = now_us + (int64_t) tv->tv_sec * SEC + tv->tv_usec;
	else
		f->deadline = INT64_MAX;
	f->blocked = 1;
	yield_to_main();
	f->blocked = 0;
	if (r) {
		FD_ZERO(r);
		for (i = 0; i < f->nready; i++)
			FD_SET(f->ready[i], r);
	}
	if (tv) {
		tv->tv_sec = 0;
		tv->tv_usec = 0;
	}
	return f->nready;
}

unsigned int __wrap_sleep(unsigned int s);
unsigned int
__wrap_sleep(unsigned int s)
{
	struct fiber *f = &fib[cur];

	f->nwant = 0;
	f->deadline = now_us + (int64_t) s * SEC;
	f->blocked = 1;
	yield_to_main();
	f->blocked = 0;
	return 0;
}

static int64_t
fd_ready_time(int fd)
{
	int side;

	switch (fd) {
	case FD_CL_DNS:
	case FD_SV_DNS:
		side = (fd == FD_CL_DNS) ? SIDE_CLIENT : SIDE_SERVER;
		if (inbox[side].n > 0)
			return inbox[side].v[0].when;
		return INT64_MAX;
	case FD_CL_TUN:
	case FD_SV_TUN:
		side = (fd == FD_CL_TUN) ? SIDE_CLIENT : SIDE_SERVER;
		if (tun[side].head < tun[side].n)
			return tun[side].v[tun[side].head].when;
		return INT64_MAX;
	}
	return INT64_MAX;
}

static int64_t
fiber_wake_time(struct fiber *f)
{
	int64_t t = f->deadline;
	int i;

	for (i = 0; i < f->nwant; i++) {
		int64_t rt = fd_ready_time(f->want[i]);
		if (rt < t)
			t = rt;
	}
	if (t < now_us)
		t = now_us;
	return t;
}

/* one scheduling step; returns 0 when nothing happens up to "limit" */
static int
sim_step(int64_t limit)
{
	int best = -1;
	int64_t bt = INT64_MAX;
	int s, i;
	struct fiber *f;

	for (s = 0; s < 2; s++) {
		int64_t t;

		if (!fib[s].started || fib[s].done || !fib[s].blocked)
			continue;
		t = fiber_wake_time(&fib[s]);
		if (t < bt) {
			bt = t;
			best = s;
		}
	}
	if (best < 0 || bt > limit) {
		if (limit > now_us)
			now_us = limit;
		return 0;
	}
	now_us = bt;
	f = &fib[best];
	f->nready = 0;
	for (i = 0; i < f->nwant; i++)
		if (fd_ready_time(f->want[i]) <= now_us)
			f->ready[f->nready++] = f->want[i];
	cur = best;
	swapcontext(&main_ctx, &f->ctx);
	cur = -1;
	return 1;
}

void
sim_run_until(int64_t t)
{
	while (now_us < t)
		if (!sim_step(t))
			break;
}

/* ----------------------------------------------------------- programs */

static int handshake_result = -99;
static int client_in_tunnel;
static char client_password[33];

int sim_client_alive(void) { return client_in_tunnel && !fib[SIDE_CLIENT].done; }
int sim_client_is_raw(void) { return client_get_conn() == CONN_RAW_UDP; }

static void
client_fiber(void)
{
	struct sockaddr_storage ns;
	char qt[16];
	char de[16];

	memset(&ns, 0, sizeof(ns));
	fill_addr((struct sockaddr_in *) &ns, SIDE_SERVER);

	client_init();
	client_set_nameserver(&ns, sizeof(struct sockaddr_in));
	client_set_topdomain(TOPDOMAIN);
	memset(client_password, 0, sizeof(client_password));
	strcpy(client_password, "secret");
	client_set_password(client_password);
	if (cfg.qtype) {
		snprintf(qt, sizeof(qt), "%s", cfg.qtype);
		client_set_qtype(qt);
	}
	if (cfg.downenc) {
		snprintf(de, sizeof(de), "%s", cfg.downenc);
		client_set_downenc(de);
	}
	client_set_selecttimeout(cfg.selecttimeout);
	client_set_lazymode(cfg.lazymode);
	client_set_hostname_maxlen(cfg.hostname_maxlen);

	handshake_result = client_handshake(FD_CL_DNS, cfg.raw_mode,
					    cfg.autodetect_frag, cfg.fragsize);
	if (handshake_result == 0) {
		client_in_tunnel = 1;
		client_tunnel(FD_CL_TUN, FD_CL_DNS);
		if (sim_verbose)
			printf("%10.4f client left its tunnel loop\n", now_us / 1e6);
	}
	fib[SIDE_CLIENT].done = 1;
	yield_to_main();
	abort();
}

static void
server_fiber(void)
{
	srv_run(FD_SV_TUN, FD_SV_DNS);
	fib[SIDE_SERVER].done = 1;
	yield_to_main();
	abort();
}

static void
start_fiber(int s, void (*fn)(void))
{
	fib[s].stack = malloc(STACKSZ);
	getcontext(&fib[s].ctx);
	fib[s].ctx.uc_stack.ss_sp = fib[s].stack;
	fib[s].ctx.uc_stack.ss_size = STACKSZ;
	fib[s].ctx.uc_link = &main_ctx;
	makecontext(&fib[s].ctx, fn, 0);
	fib[s].started = 1;
	cur = s;
	swapcontext(&main_ctx, &fib[s].ctx);
	cur = -1;
}

void
sim_default_config(struct sim_config *c)
{
	memset(c, 0, sizeof(*c));
	c->qtype = "NULL";
	c->downenc = NULL;
	c->raw_mode = 0;
	c->lazymode = 1;
	c->selecttimeout = 4;
	c->hostname_maxlen = 255;
	c->autodetect_frag = 1;
	c->fragsize = 3072;
	c->check_ip = 1;
	c->server_mtu = 1130;
	c->latency = 2 * MS;
}

int
sim_start(const struct sim_config *c)
{
	cfg = *c;
	srand(1);
	srv_setup(TOPDOMAIN, "secret", cfg.check_ip, cfg.server_mtu, SERVER_IP, 27);
	start_fiber(SIDE_SERVER, server_fiber);
	start_fiber(SIDE_CLIENT, client_fiber);
	while (!client_in_tunnel && !fib[SIDE_CLIENT].done)
		if (!sim_step(now_us + 600 * SEC))
			break;
	return client_in_tunnel ? 0 : 1;
}
