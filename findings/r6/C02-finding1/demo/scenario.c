/* Demonstration for property C02 (recovery after network trouble).
 *
 * Real client and real server with default settings (DNS mode, lazy mode,
 * NULL queries, autoprobed fragment size), 2 ms each way.
 *
 * case 1: 20 s during which every datagram from client to server is lost;
 *         meanwhile 4 packets arrive on the client's tun, 5 s apart (the
 *         client gives up on each after 4 s, as designed).
 * case 2: no loss at all. The client sends 6 packets of 3 fragments each in
 *         quick succession; one single datagram (the first fragment of the
 *         first of them) is duplicated on the way and the copy arrives 1.5 s
 *         late.
 * Then the path is clean and idle for 30 s (only pings). After that, six
 * packets are offered on each side, one every 6 s, and 20 more seconds are
 * allowed.
 * Verdict: each of those twelve packets must be written to the peer's tun
 * exactly once, intact and in order.
 */
#include <stdio.h>
#include <stdlib.h>
#include <string.h>
#include "sim.h"

static int which;
static int64_t fault_from = -1, fault_to = -1;
static int dup_armed;

static int
fault(int dir, int64_t now, const unsigned char *data, int len,
      int64_t *delay, int maxcopies)
{
	delay[0] = 2 * MS;
	if (which == 1) {
		if (dir == DIR_UP && now >= fault_from && now < fault_to)
			return 0;
		return 1;
	}
	/* case 2: duplicate the first upstream datagram after arming */
	if (dir == DIR_UP && dup_armed && len > 150) {
		dup_armed = 0;
		delay[1] = 1500 * MS;
		return 2;
	}
	return 1;
}

static int
check(int side, const char *who, uint32_t first, int count, int64_t from)
{
	const struct sim_delivery *d;
	int n = sim_deliveries(side, &d);
	int i, next = 0, bad = 0;
	int seen[64];

	memset(seen, 0, sizeof(seen));
	for (i = 0; i < n; i++) {
		if (d[i].when < from)
			continue;
		if (d[i].id < first || d[i].id >= first + count) {
			printf("  %s: unexpected packet %u at %.2f s\n", who,
			       d[i].id, d[i].when / 1e6);
			bad = 1;
			continue;
		}
		if (!d[i].intact) {
			printf("  %s: packet %u damaged\n", who, d[i].id);
			bad = 1;
		}
		if (seen[d[i].id - first]++) {
			printf("  %s: packet %u delivered again\n", who, d[i].id);
			bad = 1;
		}
		if ((int) (d[i].id - first) < next) {
			printf("  %s: packet %u out of order\n", who, d[i].id);
			bad = 1;
		} else {
			next = d[i].id - first + 1;
		}
	}
	for (i = 0; i < count; i++)
		if (!seen[i]) {
			printf("  %s: packet %u never arrived\n", who, first + i);
			bad = 1;
		}
	return bad;
}

int
main(int argc, char **argv)
{
	struct sim_config c;
	const struct sim_delivery *d;
	int64_t t0, t1, t2;
	int i, bad;

	which = argc > 1 ? atoi(argv[1]) : 1;
	if (argc > 2)
		sim_verbose = atoi(argv[2]);

	sim_default_config(&c);
	sim_set_fault(fault);
	if (sim_start(&c)) {
		printf("harness trouble: handshake failed\n");
		return 2;
	}

	/* warm-up */
	for (i = 0; i < 2; i++) {
		sim_offer(SIDE_CLIENT, sim_now() + (i + 1) * SEC, 10 + i, 300, 0);
		sim_offer(SIDE_SERVER, sim_now() + (i + 1) * SEC + 300 * MS, 20 + i, 300, 0);
	}
	sim_run_until(sim_now() + 5 * SEC);
	if (sim_deliveries(SIDE_SERVER, &d) != 2 || sim_deliveries(SIDE_CLIENT, &d) != 2) {
		printf("harness trouble: warm-up traffic did not pass\n");
		return 2;
	}

	t0 = sim_now();
	if (which == 1) {
		fault_from = t0;
		fault_to = t0 + 20 * SEC;
		for (i = 0; i < 4; i++)
			sim_offer(SIDE_CLIENT, t0 + 500 * MS + 5 * i * SEC, 100 + i, 300, 0);
		t1 = fault_to;
	} else {
		dup_armed = 1;
		for (i = 0; i < 6; i++)
			sim_offer(SIDE_CLIENT, t0 + 500 * MS + 100 * i * MS, 100 + i, 500, 0);
		t1 = t0 + 3 * SEC;
	}
	sim_run_until(t1);
	printf("case %d: trouble over at %.1f s", which, t1 / 1e6);

	/* clean and idle */
	sim_run_until(t1 + 30 * SEC);
	t2 = sim_now();
	printf(", traffic offered again from %.1f s\n", t2 / 1e6);
	for (i = 0; i < 6; i++) {
		sim_offer(SIDE_CLIENT, t2 + 6 * i * SEC, 1000 + i, 300, 0);
		sim_offer(SIDE_SERVER, t2 + 6 * i * SEC + 3 * SEC, 2000 + i, 300, 0);
	}
	sim_run_until(t2 + 56 * SEC);

	bad = 0;
	if (!sim_client_alive()) {
		printf("  client has stopped\n");
		bad = 1;
	}
	bad |= check(SIDE_SERVER, "client->server", 1000, 6, t2);
	bad |= check(SIDE_CLIENT, "server->client", 2000, 6, t2);
	printf(bad ? "PROPERTY VIOLATED\n" : "property holds for this case\n");
	return bad ? 1 : 0;
}
