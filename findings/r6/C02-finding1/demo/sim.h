/* Tiny deterministic simulation harness: the real iodine client (client.c) and
 * the real iodined server (iodined.c) run as two fibers inside one process.
 * select/sendto/recvfrom/recvmsg/recv/time/sleep are redirected at link time
 * (-Wl,--wrap) to a virtual clock and an in-memory datagram path; tun.c is
 * replaced by in-memory packet queues. */
#ifndef SIM_H
#define SIM_H

#include <stdint.h>
#include <stddef.h>

#define SIDE_CLIENT 0
#define SIDE_SERVER 1

#define DIR_UP   0	/* client -> server */
#define DIR_DOWN 1	/* server -> client */

#define MS  ((int64_t) 1000)
#define SEC ((int64_t) 1000000)

struct sim_config {
	const char *qtype;	/* "NULL", "TXT", ... or NULL for autodetect */
	const char *downenc;	/* NULL = autodetect, else "base32" ... "raw" */
	int raw_mode;		/* 1 = try raw UDP mode (default of iodine) */
	int lazymode;		/* 1 = lazy (default) */
	int selecttimeout;	/* -I, default 4 */
	int hostname_maxlen;	/* -M, default 255 */
	int autodetect_frag;	/* 1 = autoprobe, 0 = use fragsize (-m) */
	int fragsize;
	int check_ip;		/* server: 1 default, 0 = -c */
	int server_mtu;		/* 1130 default */
	int64_t latency;	/* one-way latency of the clean path, usec */
};

void sim_default_config(struct sim_config *c);

/* Fault decision for one datagram. Fill delay[] (usec, added to "now") for
   each copy to deliver and return the number of copies (0 = drop).
   NULL hook or clean path: one copy after c->latency. */
typedef int (*sim_fault_fn)(int dir, int64_t now, const unsigned char *data,
			    int len, int64_t *delay, int maxcopies);
void sim_set_fault(sim_fault_fn fn);

/* Start both programs; runs until the client's handshake is finished (or
   failed). Returns 0 when the client reached its tunnel loop. */
int sim_start(const struct sim_config *c);

/* Run the simulation until virtual time t (usec since sim_start). */
void sim_run_until(int64_t t);
int64_t sim_now(void);
int sim_client_alive(void);	/* still inside client_tunnel() */
int sim_client_is_raw(void);

/* Offer a packet to a side's tun device at virtual time "when" (>= now).
   The packet is 4 bytes tun header + 20 bytes IPv4 header + payload, "total"
   bytes long in all (>= 40); it carries "id". compressible: 0 = random fill.
   Packets offered to the client's tun are addressed to the server, those
   offered to the server's tun to the client. */
void sim_offer(int side, int64_t when, uint32_t id, int total, int compressible);
/* size of that packet after compress2(level 9), as both programs do it */
int sim_compressed_size(int side, uint32_t id, int total, int compressible);

/* What came out: packets written to a side's tun device */
struct sim_delivery {
	int64_t when;
	uint32_t id;		/* 0xffffffff when not one of ours/damaged */
	int len;
	int intact;
};
int sim_deliveries(int side, const struct sim_delivery **out);
/* packets taken from a side's tun device (read_tun returned them) */
int sim_taken(int side);
int sim_tun_backlog(int side);

/* statistics */
long sim_datagrams(int dir);

extern int sim_verbose;

#endif
