#!/bin/sh
# usage: run.sh <source tree root>
# exit 0: property holds for the demonstrated cases, 1: violated, 2: trouble
TREE=$1
[ -n "$TREE" ] && [ -d "$TREE/src" ] || { echo "usage: $0 <source tree root>" >&2; exit 2; }
TREE=$(cd "$TREE" && pwd)
HERE=$(cd "$(dirname "$0")" && pwd)
TMP=$(mktemp -d) || exit 2
trap 'rm -rf "$TMP"' EXIT
sh "$HERE/build.sh" "$TREE" "$TMP" "$HERE/scenario.c" >"$TMP/build.log" 2>&1 || { cat "$TMP/build.log" >&2; echo "build failed" >&2; exit 2; }
res=0
for c in 1 2; do
	"$TMP/demo" $c ${VERBOSE:-0} 2>"$TMP/stderr.log"
	rc=$?
	case $rc in
	0) ;;
	1) res=1 ;;
	*) tail -5 "$TMP/stderr.log" >&2; exit 2 ;;
	esac
done
exit $res
