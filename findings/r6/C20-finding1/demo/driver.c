/*
 * C20 finding 1: a datagram shorter than a DNS header arrives on the
 * forwarding socket while a forwarded query with id 0 is waiting. Its first
 * two octets say id 0x1234, which nobody asked with.
 */
#include "harness.h"

int
main(void)
{
	static const unsigned char runt[] = { 0x12, 0x34, 0x81, 0x80, 'x' };
	int a0, a1;

	setvbuf(stdout, NULL, _IONBF, 0);
	h_setup(0);
	a0 = h_new_asker(0);
	a1 = h_new_asker(0);

	printf("part 1 (control): a full-size reply with an id nobody used is dropped\n");
	h_query(a0, 5, "www.example.org", T_A);
	h_reply(0x1234, -1);
	h_reply(5, a0);

	printf("part 2: id 0 and id 6 are waiting; 5 octets beginning 12 34 arrive from the local DNS port\n");
	h_query(a0, 0, "www.example.org", T_A);
	h_query(a1, 6, "ftp.example.org", T_A);
	h_reply_raw(runt, sizeof(runt));
	h_expect(-1, runt, sizeof(runt), "5-octet datagram, id octets 0x1234");

	printf("part 3: now the real replies\n");
	h_reply(0, a0);
	h_reply(6, a1);

	return h_finish();
}
