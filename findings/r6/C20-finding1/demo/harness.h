/*
 * Small harness around the real iodined.c: the static functions
 * tunnel_dns(), forward_query() and tunnel_bind() are driven over real UDP
 * sockets on the loopback interface. No tun device, no root, no network.
 *
 *   asker sockets  --query-->  server v4fd / v6fd  --tunnel_dns()-->
 *        forward_query() --> "local DNS" socket (127.0.0.1:bind_port)
 *   "local DNS" socket --reply--> bind_fd --tunnel_bind()--> asker socket
 *
 * Include this file from a driver; it includes iodined.c itself.
 */
#define main iodined_main
#include "iodined.c"
#undef main

#include <poll.h>
#include <errno.h>

#define H_MAXASK 40
#define H_TOPDOMAIN "t.example.com"

static struct dnsfd h_fds;	/* the server's listening sockets */
static int h_bind_fd;		/* the server's socket towards the local DNS */
static int h_localdns;		/* plays the local DNS server */
static struct sockaddr_in h_bind_addr;	/* where h_bind_fd lives, as seen by the local DNS */
static int h_ask[H_MAXASK];	/* asker sockets */
static int h_ask6[H_MAXASK];	/* 1 if that asker uses IPv6 */
static int h_nask;
static int h_bad;		/* number of property violations seen */
static int h_verbose = 1;

static void
h_trouble(const char *what)
{
	fprintf(stderr, "HARNESS TROUBLE: %s: %s\n", what, strerror(errno));
	exit(2);
}

static int
h_udp4(int anyaddr)
{
	struct sockaddr_in a;
	int fd = socket(AF_INET, SOCK_DGRAM, 0);
	if (fd < 0) h_trouble("socket");
	memset(&a, 0, sizeof(a));
	a.sin_family = AF_INET;
	a.sin_addr.s_addr = anyaddr ? htonl(INADDR_ANY) : htonl(INADDR_LOOPBACK);
	if (bind(fd, (struct sockaddr *) &a, sizeof(a)) < 0) h_trouble("bind v4");
	return fd;
}

static int
h_udp6(void)
{
	struct sockaddr_in6 a;
	int one = 1;
	int fd = socket(AF_INET6, SOCK_DGRAM, 0);
	if (fd < 0) h_trouble("socket v6");
	setsockopt(fd, IPPROTO_IPV6, IPV6_V6ONLY, &one, sizeof(one));
	memset(&a, 0, sizeof(a));
	a.sin6_family = AF_INET6;
	a.sin6_addr = in6addr_loopback;
	if (bind(fd, (struct sockaddr *) &a, sizeof(a)) < 0) h_trouble("bind ::1");
	return fd;
}

static int
h_port(int fd)
{
	struct sockaddr_storage ss;
	socklen_t l = sizeof(ss);
	if (getsockname(fd, (struct sockaddr *) &ss, &l) < 0) h_trouble("getsockname");
	if (ss.ss_family == AF_INET6)
		return ntohs(((struct sockaddr_in6 *) &ss)->sin6_port);
	return ntohs(((struct sockaddr_in *) &ss)->sin_port);
}

/* with_v6: also open an IPv6 listening socket on ::1 */
static void
h_setup(int with_v6)
{
	topdomain = strdup(H_TOPDOMAIN);
	debug = 0;
	fw_query_init();

	h_fds.v4fd = h_udp4(0);
	h_fds.v6fd = with_v6 ? h_udp6() : -1;

	h_localdns = h_udp4(0);
	bind_port = h_port(h_localdns);

	/* iodined opens this one with open_dns_from_host(NULL, 0, AF_INET, 0) */
	h_bind_fd = h_udp4(1);
	memset(&h_bind_addr, 0, sizeof(h_bind_addr));
	h_bind_addr.sin_family = AF_INET;
	h_bind_addr.sin_addr.s_addr = htonl(INADDR_LOOPBACK);
	h_bind_addr.sin_port = htons(h_port(h_bind_fd));
}

static int
h_new_asker(int v6)
{
	if (h_nask >= H_MAXASK) { errno = 0; h_trouble("too many askers"); }
	h_ask[h_nask] = v6 ? h_udp6() : h_udp4(0);
	h_ask6[h_nask] = v6;
	return h_nask++;
}

static int
h_wait(int fd, int ms)
{
	struct pollfd p;
	p.fd = fd;
	p.events = POLLIN;
	p.revents = 0;
	return poll(&p, 1, ms) > 0;
}

/* Build a plain DNS question. Returns length. */
static int
h_mkquery(unsigned char *buf, unsigned short id, const char *name, unsigned short type)
{
	unsigned char *p = buf;
	const char *s = name;

	memset(buf, 0, 12);
	buf[0] = id >> 8; buf[1] = id & 0xff;
	buf[2] = 0x01;			/* RD */
	buf[5] = 1;			/* QDCOUNT */
	p = buf + 12;
	while (*s) {
		const char *dot = strchr(s, '.');
		int l = dot ? (int) (dot - s) : (int) strlen(s);
		*p++ = (unsigned char) l;
		memcpy(p, s, l);
		p += l;
		s += l;
		if (*s == '.') s++;
	}
	*p++ = 0;
	*p++ = type >> 8; *p++ = type & 0xff;
	*p++ = 0; *p++ = 1;		/* IN */
	return (int) (p - buf);
}

/* Asker a sends raw bytes to the server, the server handles one datagram. */
static void
h_send_to_server(int a, const unsigned char *pkt, int len)
{
	int sfd;
	if (h_ask6[a]) {
		struct sockaddr_in6 d;
		memset(&d, 0, sizeof(d));
		d.sin6_family = AF_INET6;
		d.sin6_addr = in6addr_loopback;
		d.sin6_port = htons(h_port(h_fds.v6fd));
		if (sendto(h_ask[a], pkt, len, 0, (struct sockaddr *) &d, sizeof(d)) != len)
			h_trouble("asker sendto v6");
		sfd = h_fds.v6fd;
	} else {
		struct sockaddr_in d;
		memset(&d, 0, sizeof(d));
		d.sin_family = AF_INET;
		d.sin_addr.s_addr = htonl(INADDR_LOOPBACK);
		d.sin_port = htons(h_port(h_fds.v4fd));
		if (sendto(h_ask[a], pkt, len, 0, (struct sockaddr *) &d, sizeof(d)) != len)
			h_trouble("asker sendto v4");
		sfd = h_fds.v4fd;
	}
	if (!h_wait(sfd, 2000)) { errno = 0; h_trouble("query did not reach the server socket"); }
	tunnel_dns(-1, sfd, &h_fds, h_bind_fd);
}

/*
 * Asker a asks (id, name, type). Checks the first half of the property: one
 * datagram reaches the local DNS port, with the same id, name and type.
 */
static void
h_query(int a, unsigned short id, const char *name, unsigned short type)
{
	unsigned char pkt[600];
	unsigned char fwd[2048];
	struct query fq;
	int len, r;

	len = h_mkquery(pkt, id, name, type);
	h_send_to_server(a, pkt, len);

	if (!h_wait(h_localdns, 300)) {
		printf("VIOLATION: query id %u '%s' type %u of asker %d was not relayed to the local DNS port\n",
		       id, name, type, a);
		h_bad++;
		return;
	}
	r = recv(h_localdns, fwd, sizeof(fwd), 0);
	memset(&fq, 0, sizeof(fq));
	if (r < 12 || dns_decode(NULL, 0, &fq, QR_QUERY, (char *) fwd, r) < 0 ||
	    fq.id != id || fq.type != type || strcmp(fq.name, name) != 0) {
		printf("VIOLATION: query id %u '%s' type %u of asker %d was relayed as id %u '%s' type %u\n",
		       id, name, type, a, fq.id, fq.name, fq.type);
		h_bad++;
		return;
	}
	if (h_verbose)
		printf("  asker %d asks id %u %s type %u -> relayed to local DNS port, same id/name/type\n",
		       a, id, name, type);
}

/* Build a recognisable reply: header with QR set, then a tag. */
static int
h_mkreply(unsigned char *buf, unsigned short id, const char *tag)
{
	int tl = strlen(tag);
	memset(buf, 0, 12);
	buf[0] = id >> 8; buf[1] = id & 0xff;
	buf[2] = 0x81; buf[3] = 0x80;	/* QR RD RA */
	memcpy(buf + 12, tag, tl);
	return 12 + tl;
}

/* The local DNS sends bytes to the server's forwarding socket; the server handles it. */
static void
h_reply_raw(const unsigned char *pkt, int len)
{
	if (sendto(h_localdns, pkt, len, 0, (struct sockaddr *) &h_bind_addr,
		   sizeof(h_bind_addr)) != len)
		h_trouble("local DNS sendto");
	if (!h_wait(h_bind_fd, 2000)) { errno = 0; h_trouble("reply did not reach bind_fd"); }
	tunnel_bind(h_bind_fd, &h_fds);
}

/*
 * After a reply was handled: exactly the asker `want` (or nobody if want < 0)
 * must now hold exactly these bytes; every other asker must hold nothing.
 */
static void
h_expect(int want, const unsigned char *pkt, int len, const char *what)
{
	unsigned char got[70000];
	int a, r;
	int ok = 1;

	for (a = 0; a < h_nask; a++) {
		if (a == want) {
			if (!h_wait(h_ask[a], 300)) {
				printf("VIOLATION: %s: asker %d did not get it\n", what, a);
				h_bad++; ok = 0;
				continue;
			}
			r = recv(h_ask[a], got, sizeof(got), 0);
			if (r != len || memcmp(got, pkt, len) != 0) {
				printf("VIOLATION: %s: asker %d got %d changed bytes\n", what, a, r);
				h_bad++; ok = 0;
			}
			/* and only once */
			if (h_wait(h_ask[a], 0)) {
				recv(h_ask[a], got, sizeof(got), 0);
				printf("VIOLATION: %s: asker %d got it twice\n", what, a);
				h_bad++; ok = 0;
			}
		} else if (h_wait(h_ask[a], 0)) {
			r = recv(h_ask[a], got, sizeof(got), 0);
			printf("VIOLATION: %s: asker %d, who should get nothing, got %d bytes (id %u)\n",
			       what, a, r, r >= 2 ? (got[0] << 8 | got[1]) : 0);
			h_bad++; ok = 0;
		}
	}
	if (ok && h_verbose) {
		if (want >= 0)
			printf("  %s -> asker %d, unchanged, nobody else\n", what, want);
		else
			printf("  %s -> dropped, nobody got anything\n", what);
	}
}

/* The local DNS answers id; asker `want` (or nobody, -1) must get it. */
static void
h_reply(unsigned short id, int want)
{
	unsigned char pkt[64];
	char tag[32], what[64];
	static int serial;
	int len;

	snprintf(tag, sizeof(tag), "reply-%d-for-%u", ++serial, id);
	snprintf(what, sizeof(what), "reply with id %u", id);
	len = h_mkreply(pkt, id, tag);
	h_reply_raw(pkt, len);
	/* loopback delivery is synchronous, but leave a moment anyway */
	h_wait(-1, 20);
	h_expect(want, pkt, len, what);
}

static int
h_finish(void)
{
	if (h_bad) {
		printf("RESULT: property C20 VIOLATED (%d observation%s)\n", h_bad, h_bad == 1 ? "" : "s");
		return 1;
	}
	printf("RESULT: property C20 holds for this case\n");
	return 0;
}
