#!/bin/sh
# usage: run.sh <source tree root>
# exit 0: property C20 holds for the demonstrated case
# exit 1: property violated
# exit 2: build or harness trouble
TREE="$1"
if [ -z "$TREE" ] || [ ! -f "$TREE/src/iodined.c" ]; then
	echo "usage: $0 <source tree root>" >&2
	exit 2
fi
TREE=$(cd "$TREE" && pwd) || exit 2
HERE=$(cd "$(dirname "$0")" && pwd) || exit 2
TMP=$(mktemp -d) || exit 2
trap 'rm -rf "$TMP"' EXIT INT TERM

mkdir "$TMP/src" || exit 2
cp "$TREE"/src/*.c "$TREE"/src/*.h "$TMP/src/" || exit 2
# same rule as src/Makefile
{ echo '/* No use in editing, produced by Makefile! */'
  sed -e 's/\([Bb][Aa][Ss][Ee]64\)/\1u/g ; s/0123456789+/0123456789_/' < "$TMP/src/base64.c"
} > "$TMP/src/base64u.c" || exit 2
cp "$HERE/harness.h" "$HERE/driver.c" "$TMP/" || exit 2

cd "$TMP" || exit 2
S=src
${CC:-cc} -std=c99 -g -O0 -w -DLINUX -D_GNU_SOURCE -DGITREVISION=\"demo\" -I$S -I. \
	-o driver driver.c \
	$S/tun.c $S/dns.c $S/read.c $S/encoding.c $S/login.c $S/base32.c $S/base64.c \
	$S/base64u.c $S/base128.c $S/md5.c $S/common.c $S/user.c $S/fw_query.c \
	-lz > build.log 2>&1
if [ $? -ne 0 ]; then
	cat build.log >&2
	echo "build failed" >&2
	exit 2
fi

timeout 50 ./driver
rc=$?
case $rc in
0|1) exit $rc ;;
*) echo "driver ended with status $rc" >&2; exit 2 ;;
esac
