/*
 * C20 finding 2: the question name of a forwarded query is taken through a
 * dotted C string and encoded again. A label that contains a '.' octet (as
 * DNS-SD instance names may, RFC 6763 4.3) or a 0 octet does not survive:
 * the local DNS server is asked about a different name.
 */
#include "harness.h"

/* Put header + given wire-format question name + type A, class IN. */
static int
mkq(unsigned char *buf, unsigned short id, const unsigned char *wname, int wlen)
{
	memset(buf, 0, 12);
	buf[0] = id >> 8; buf[1] = id & 0xff;
	buf[2] = 0x01;
	buf[5] = 1;
	memcpy(buf + 12, wname, wlen);
	buf[12 + wlen] = 0; buf[13 + wlen] = T_A;
	buf[14 + wlen] = 0; buf[15 + wlen] = 1;
	return 16 + wlen;
}

static void
show(const char *what, const unsigned char *p, int len)
{
	int i;
	printf("    %s:", what);
	for (i = 0; i < len; i++) {
		if (p[i] > 32 && p[i] < 127 && p[i] != '\\')
			printf(" %c", p[i]);
		else
			printf(" \\%02x", p[i]);
	}
	printf("\n");
}

/*
 * Asker a asks for the wire name; the datagram at the local DNS port must have
 * the same id, the same question name (octet for octet) and the same type.
 * (If nothing is relayed at all although the name lies outside the tunnel
 * domain, that is a violation too.)
 */
static void
ask_wire(int a, unsigned short id, const unsigned char *wname, int wlen, const char *text)
{
	unsigned char pkt[600], fwd[2048];
	int len, r;

	len = mkq(pkt, id, wname, wlen);
	h_send_to_server(a, pkt, len);
	if (!h_wait(h_localdns, 300)) {
		printf("VIOLATION: query id %u for %s was not relayed\n", id, text);
		h_bad++;
		return;
	}
	r = recv(h_localdns, fwd, sizeof(fwd), 0);
	if (r < 12 + wlen + 4 || fwd[0] != pkt[0] || fwd[1] != pkt[1] ||
	    memcmp(fwd + 12, pkt + 12, wlen + 4) != 0) {
		printf("VIOLATION: query id %u for %s was relayed with another question:\n", id, text);
		show("asked  ", pkt + 12, wlen + 4);
		show("relayed", fwd + 12, (r - 12 < wlen + 4) ? r - 12 : wlen + 4);
		h_bad++;
		return;
	}
	printf("  asker %d asks id %u %s -> relayed, question octets identical\n", a, id, text);
}

int
main(void)
{
	/* www.example.org */
	static const unsigned char n0[] = "\003www\007example\003org";
	/* one label "Dr.Pepper", then _http._tcp.example.org */
	static const unsigned char n1[] = "\011Dr.Pepper\005_http\004_tcp\007example\003org";
	/* label "a\0b" (3 octets), then example.org */
	static const unsigned char n2[] = "\003a\000b\007example\003org";
	/* label "x.t" (3 octets), then example.com: NOT below t.example.com */
	static const unsigned char n3[] = "\003x.t\007example\003com";
	int a0;

	setvbuf(stdout, NULL, _IONBF, 0);
	h_setup(0);
	a0 = h_new_asker(0);

	printf("tunnel domain is %s\n", H_TOPDOMAIN);
	printf("part 1 (control): an ordinary name\n");
	ask_wire(a0, 1, n0, sizeof(n0), "www.example.org");
	h_reply(1, a0);

	printf("part 2: a label with a dot inside\n");
	ask_wire(a0, 2, n1, sizeof(n1), "Dr\\.Pepper._http._tcp.example.org");

	printf("part 3: a label with a 0 octet inside\n");
	ask_wire(a0, 3, n2, sizeof(n2), "a\\000b.example.org");

	printf("part 4: label 'x.t' under example.com, which is not inside the tunnel domain\n");
	ask_wire(a0, 4, n3, sizeof(n3), "x\\.t.example.com");

	return h_finish();
}
