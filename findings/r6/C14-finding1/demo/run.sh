#!/bin/sh
# usage: run.sh <source tree root> [-v]
# exit 0: property holds for the demonstrated case, 1: violated, 2: trouble
here=$(cd "$(dirname "$0")" && pwd)
tree=$1
[ -n "$tree" ] && [ -f "$tree/src/iodined.c" ] || { echo "usage: $0 <source tree root>" >&2; exit 2; }
tree=$(cd "$tree" && pwd)
verbose=$2

tmp=$(mktemp -d) || exit 2
trap 'rm -rf "$tmp"' EXIT INT TERM

src=$tree/src
# as the project's Makefile does
{ echo '/* produced from base64.c */'
  sed -e 's/\([Bb][Aa][Ss][Ee]64\)/\1u/g ; s/0123456789+/0123456789_/' < "$src/base64.c"
} > "$tmp/base64u.c" || exit 2

wrap="-Wl,--wrap=select,--wrap=recvmsg,--wrap=recvfrom,--wrap=sendto,--wrap=time,--wrap=syslog"

${CC:-cc} -std=gnu99 -g -O0 -w -DLINUX -D_GNU_SOURCE -DGITREVISION=\"demo\" -I"$src" -I"$here" \
	-o "$tmp/scenario" "$here/scenario.c" \
	"$src/dns.c" "$src/read.c" "$src/encoding.c" "$src/login.c" \
	"$src/base32.c" "$src/base64.c" "$tmp/base64u.c" "$src/base128.c" \
	"$src/md5.c" "$src/common.c" "$src/user.c" "$src/fw_query.c" \
	$wrap -lz > "$tmp/build.log" 2>&1 || { cat "$tmp/build.log" >&2; echo "build failed" >&2; exit 2; }

"$tmp/scenario" $verbose
rc=$?
case $rc in
0|1) exit $rc ;;
*) exit 2 ;;
esac
