/*
 * iodined -b 5353: questions that are not about the tunnel domain are passed
 * on to a local DNS server, and its replies are passed back.
 *
 * Two different askers happen to use the same DNS id for two different
 * questions that are outstanding at the same time.  The local server answers
 * them in the order it got them.
 *
 * Property: no answer without a matching unanswered query (same address,
 * same id, same question).
 */
#include "harness.h"

static int step;

/* The local DNS server's reply to the n-th forwarded query: same id and
   question, QR and RA set, no records (an empty NOERROR reply will do) */
static void ev_local_reply(struct event *ev, int n)
{
	if (n >= forwarded) {
		printf("harness: query %d was not forwarded\n", n);
		exit(2);
	}
	ev->kind = EV_BIND;
	ev->len = forwarded_len[n];
	memcpy(ev->data, forwarded_data[n], ev->len);
	ev->data[2] |= 0x80;	/* QR */
	ev->data[3] |= 0x80;	/* RA */
}

static int next_event(struct event *ev)
{
	struct sockaddr_in asker_a = client_addr("198.51.100.7", 33001);
	struct sockaddr_in asker_b = client_addr("203.0.113.9", 44002);

	switch (step++) {
	case 0:
		ev_query(ev, asker_a, 5, T_A, "www.example.org");
		return 1;
	case 1:
		ev_query(ev, asker_b, 5, T_A, "mail.example.net");
		return 1;
	case 2:
		ev_local_reply(ev, 0);		/* about www.example.org */
		return 1;
	case 3:
		ev_local_reply(ev, 1);		/* about mail.example.net */
		return 1;
	}
	return 0;
}

int main(int argc, char **argv)
{
	int i, unanswered = 0;

	harness_verbose = (argc > 1);
	server_setup(1);
	server_run(1);

	if (forwarded != 2) {
		printf("harness: %d queries forwarded, expected 2\n", forwarded);
		return 2;
	}
	for (i = 0; i < nrecord; i++)
		if (!record[i].answered)
			unanswered++;
	if (violations) {
		printf("FAIL: %d answer(s) went to someone who had not asked that (%d queries left without their answer)\n",
		       violations, unanswered);
		return 1;
	}
	printf("OK: every answer matches a query of its own\n");
	return 0;
}
