/*
 * Small world around the real iodined main loop.
 *
 * The server source is included as-is (so that its static functions and
 * state are reachable), and the few system calls it uses to talk to the
 * outside are redirected at link time (-Wl,--wrap=...): select(), recvmsg(),
 * recvfrom(), sendto(), time(), syslog().  tun.c is not linked; read_tun()
 * and write_tun() are provided here.
 *
 * A scenario is a function  int next_event(struct event *ev)  that is asked
 * for the next thing that happens every time the server calls select().
 * Everything the server receives and sends on its DNS socket is recorded,
 * and at the end check_answers() verifies:
 *
 *   every DNS answer sent goes to (address, id, question name, type) of a
 *   query datagram received earlier that has not been answered before.
 */

#define main iodined_main
#include "iodined.c"
#undef main

#include <stdarg.h>
#include <errno.h>

#define TUN_FD   100
#define DNS4_FD  101
#define BIND_FD  102

#define TOPDOMAIN "t.example.com"
#define PASSWORD  "secret"

enum evkind { EV_END = 0, EV_DNS, EV_TUN, EV_TIMEOUT, EV_BIND };

struct event {
	enum evkind kind;
	int advance;			/* seconds the clock moves before it */
	char data[2048];
	int len;
	struct sockaddr_in from;	/* EV_DNS */
};

static int next_event(struct event *ev);	/* the scenario */

/* ---- clock ---- */

static time_t fake_now = 1000000000;

time_t __wrap_time(time_t *t);
time_t __wrap_time(time_t *t)
{
	if (t)
		*t = fake_now;
	return fake_now;
}

void __wrap_syslog(int prio, const char *fmt, ...);
void __wrap_syslog(int prio, const char *fmt, ...)
{
	(void) prio; (void) fmt;
}

/* ---- the record ---- */

struct rec {
	int is_answer;
	struct sockaddr_in peer;
	unsigned short id;
	unsigned short type;
	char name[300];
	int answered;		/* for queries */
};

static struct rec record[1000];
static int nrecord;
static int harness_verbose;
static int violations;

static int parse_question(const unsigned char *p, int len, struct rec *r)
{
	int pos = 12;
	int o = 0;

	if (len < 12 + 5)
		return 0;
	r->id = (p[0] << 8) | p[1];
	r->is_answer = (p[2] & 0x80) != 0;
	if (((p[4] << 8) | p[5]) < 1)
		return 0;
	while (pos < len && p[pos] != 0) {
		int l = p[pos++];
		if (l > 63 || pos + l > len)
			return 0;
		memcpy(r->name + o, p + pos, l);
		o += l;
		r->name[o++] = '.';
		pos += l;
	}
	r->name[o] = 0;
	pos++;
	if (pos + 4 > len)
		return 0;
	r->type = (p[pos] << 8) | p[pos + 1];
	return 1;
}

static void note_query(const char *buf, int len, struct sockaddr_in *from)
{
	struct rec *r = &record[nrecord];

	memset(r, 0, sizeof(*r));
	if (!parse_question((const unsigned char *) buf, len, r))
		return;
	r->peer = *from;
	nrecord++;
	if (harness_verbose)
		printf("  IN  %s:%d id %5u type %5u %s\n", inet_ntoa(from->sin_addr),
		       ntohs(from->sin_port), r->id, r->type, r->name);
}

static void note_answer(const char *buf, int len, const struct sockaddr_in *to)
{
	struct rec a;
	int i;

	memset(&a, 0, sizeof(a));
	if (!parse_question((const unsigned char *) buf, len, &a) || !a.is_answer) {
		printf("  OUT ?? undecodable datagram of %d bytes\n", len);
		return;
	}
	a.peer = *to;
	if (harness_verbose)
		printf("  OUT %s:%d id %5u type %5u %s\n", inet_ntoa(to->sin_addr),
		       ntohs(to->sin_port), a.id, a.type, a.name);

	for (i = 0; i < nrecord; i++) {
		struct rec *r = &record[i];
		if (r->is_answer || r->answered)
			continue;
		if (r->id != a.id || r->type != a.type || strcmp(r->name, a.name))
			continue;
		if (r->peer.sin_addr.s_addr != a.peer.sin_addr.s_addr ||
		    r->peer.sin_port != a.peer.sin_port)
			continue;
		r->answered = 1;
		return;
	}
	violations++;
	printf("VIOLATION: answer to %s:%d id %u type %u %s\n"
	       "           matches no received query that is still unanswered\n",
	       inet_ntoa(to->sin_addr), ntohs(to->sin_port), a.id, a.type, a.name);
}

/* ---- the wrapped system calls ---- */

static struct event current;
static int dns_pending, tun_pending, bind_pending;
static int forwarded;		/* queries passed on to the -b port */
static char forwarded_data[16][2048];
static int forwarded_len[16];

int __wrap_select(int n, fd_set *r, fd_set *w, fd_set *e, struct timeval *tv);
int __wrap_select(int n, fd_set *r, fd_set *w, fd_set *e, struct timeval *tv)
{
	(void) n; (void) w; (void) e; (void) tv;

	memset(&current, 0, sizeof(current));
	if (!next_event(&current))
		current.kind = EV_END;
	fake_now += current.advance;

	switch (current.kind) {
	case EV_DNS:
		FD_ZERO(r);
		FD_SET(DNS4_FD, r);
		dns_pending = 1;
		return 1;
	case EV_TUN:
		if (!FD_ISSET(TUN_FD, r)) {
			/* server is not listening to tun right now: packet
			   stays in the kernel; for the scenarios here that
			   would be a scenario error */
			printf("harness: tun not selected\n");
			exit(2);
		}
		FD_ZERO(r);
		FD_SET(TUN_FD, r);
		tun_pending = 1;
		return 1;
	case EV_BIND:
		FD_ZERO(r);
		FD_SET(BIND_FD, r);
		bind_pending = 1;
		return 1;
	case EV_TIMEOUT:
		FD_ZERO(r);
		return 0;
	case EV_END:
	default:
		running = 0;
		FD_ZERO(r);
		return 0;
	}
}

ssize_t __wrap_recvmsg(int fd, struct msghdr *msg, int flags);
ssize_t __wrap_recvmsg(int fd, struct msghdr *msg, int flags)
{
	(void) flags;
	if (fd != DNS4_FD || !dns_pending) {
		errno = EAGAIN;
		return -1;
	}
	dns_pending = 0;
	memcpy(msg->msg_iov[0].iov_base, current.data, current.len);
	memcpy(msg->msg_name, &current.from, sizeof(current.from));
	msg->msg_namelen = sizeof(current.from);
	msg->msg_controllen = 0;
	note_query(current.data, current.len, &current.from);
	return current.len;
}

ssize_t __wrap_recvfrom(int fd, void *buf, size_t len, int flags,
			struct sockaddr *from, socklen_t *fromlen);
ssize_t __wrap_recvfrom(int fd, void *buf, size_t len, int flags,
			struct sockaddr *from, socklen_t *fromlen)
{
	struct sockaddr_in local;

	(void) flags; (void) len;
	if (fd != BIND_FD || !bind_pending) {
		errno = EAGAIN;
		return -1;
	}
	bind_pending = 0;
	memset(&local, 0, sizeof(local));
	local.sin_family = AF_INET;
	local.sin_addr.s_addr = htonl(INADDR_LOOPBACK);
	local.sin_port = htons(5353);
	memcpy(from, &local, sizeof(local));
	*fromlen = sizeof(local);
	memcpy(buf, current.data, current.len);
	return current.len;
}

ssize_t __wrap_sendto(int fd, const void *buf, size_t len, int flags,
		      const struct sockaddr *to, socklen_t tolen);
ssize_t __wrap_sendto(int fd, const void *buf, size_t len, int flags,
		      const struct sockaddr *to, socklen_t tolen)
{
	(void) flags; (void) tolen;
	if (fd == BIND_FD) {
		if (forwarded < 16 && len <= sizeof(forwarded_data[0])) {
			forwarded_len[forwarded] = len;
			memcpy(forwarded_data[forwarded], buf, len);
		}
		forwarded++;
		return len;
	}
	if (fd != DNS4_FD) {
		printf("harness: sendto on unexpected fd %d\n", fd);
		exit(2);
	}
	if (len >= RAW_HDR_LEN && !memcmp(buf, raw_header, RAW_HDR_IDENT_LEN))
		return len;	/* raw UDP mode packet, not a DNS answer */
	note_answer(buf, len, (const struct sockaddr_in *) to);
	return len;
}

/* ---- tun ---- */

static int tun_written;

int write_tun(int fd, char *data, size_t len)
{
	(void) fd; (void) data;
	tun_written++;
	return len;
}

ssize_t read_tun(int fd, char *buf, size_t len)
{
	(void) fd; (void) len;
	if (!tun_pending)
		return 0;
	tun_pending = 0;
	memcpy(buf, current.data, current.len);
	return current.len;
}

int open_tun(const char *dev) { (void) dev; return TUN_FD; }
void close_tun(int fd) { (void) fd; }
int tun_setip(const char *a, const char *b, int c) { (void) a; (void) b; (void) c; return 0; }
int tun_setmtu(const unsigned m) { (void) m; return 0; }

/* ---- what a client would put on the wire ---- */

static unsigned short client_cmc = 0x1234;

static struct sockaddr_in client_addr(const char *ip, int port)
{
	struct sockaddr_in a;

	memset(&a, 0, sizeof(a));
	a.sin_family = AF_INET;
	a.sin_addr.s_addr = inet_addr(ip);
	a.sin_port = htons(port);
	return a;
}

/* A query datagram for the given full name */
static void ev_query(struct event *ev, struct sockaddr_in from, int id,
		     int type, const char *name)
{
	struct query q;

	memset(&q, 0, sizeof(q));
	q.id = id;
	q.type = type;
	ev->kind = EV_DNS;
	ev->from = from;
	ev->len = dns_encode(ev->data, sizeof(ev->data), &q, QR_QUERY,
			     name, strlen(name));
	if (ev->len < 1) {
		printf("harness: cannot encode query %s\n", name);
		exit(2);
	}
}

/* <cmd><base32 of data>.<topdomain> */
static void name_b32(char *out, size_t outlen, char cmd, const char *data, int datalen)
{
	out[0] = cmd;
	build_hostname(out + 1, outlen - 1, data, datalen, TOPDOMAIN, &base32_ops, 0xFF);
}

static void name_version(char *out, size_t outlen)
{
	char d[6];

	d[0] = (PROTOCOL_VERSION >> 24) & 0xff;
	d[1] = (PROTOCOL_VERSION >> 16) & 0xff;
	d[2] = (PROTOCOL_VERSION >> 8) & 0xff;
	d[3] = PROTOCOL_VERSION & 0xff;
	d[4] = client_cmc >> 8;
	d[5] = client_cmc & 0xff;
	client_cmc++;
	name_b32(out, outlen, 'v', d, 6);
}

static void name_login(char *out, size_t outlen, int userid)
{
	char d[19];

	memset(d, 0, sizeof(d));
	d[0] = userid;
	login_calculate(d + 1, 16, password, users[userid].seed);
	d[17] = client_cmc >> 8;
	d[18] = client_cmc & 0xff;
	client_cmc++;
	name_b32(out, outlen, 'l', d, 19);
}

static void name_option(char *out, size_t outlen, int userid, char opt)
{
	snprintf(out, outlen, "o%c%c%c%c%c.%s", b32_5to8(userid), opt,
		 b32_5to8((client_cmc >> 10) & 31), b32_5to8((client_cmc >> 5) & 31),
		 b32_5to8(client_cmc & 31), TOPDOMAIN);
	client_cmc++;
}

static void name_fragsize(char *out, size_t outlen, int userid, int fragsize)
{
	char d[5];

	d[0] = userid;
	d[1] = fragsize >> 8;
	d[2] = fragsize & 0xff;
	d[3] = client_cmc >> 8;
	d[4] = client_cmc & 0xff;
	client_cmc++;
	name_b32(out, outlen, 'n', d, 5);
}

/* ping that acknowledges downstream seqno/fragment */
static void name_ping(char *out, size_t outlen, int userid, int dn_seq, int dn_frag)
{
	char d[4];

	d[0] = userid;
	d[1] = ((dn_seq & 7) << 4) | (dn_frag & 15);
	d[2] = client_cmc >> 8;
	d[3] = client_cmc & 0xff;
	client_cmc++;
	name_b32(out, outlen, 'p', d, 4);
}

/* An IP packet as read from the tun device, for the given tunnel address.
   The payload is a counter pattern mixed with 'salt' so that it does not
   compress to nothing. */
static void ev_tun_packet(struct event *ev, in_addr_t dst, int payload, int salt)
{
	struct ip *hdr;
	unsigned int v = salt * 2654435761u + 12345;
	int i;

	ev->kind = EV_TUN;
	memset(ev->data, 0, 4 + sizeof(struct ip));
	ev->data[2] = 0x08;
	hdr = (struct ip *) (ev->data + 4);
	hdr->ip_v = 4;
	hdr->ip_hl = 5;
	hdr->ip_len = htons(sizeof(struct ip) + payload);
	hdr->ip_ttl = 64;
	hdr->ip_p = 17;
	hdr->ip_src.s_addr = my_ip;
	hdr->ip_dst.s_addr = dst;
	for (i = 0; i < payload; i++) {
		v = v * 1103515245u + 12345u;
		ev->data[4 + sizeof(struct ip) + i] = (v >> 16) & 0xff;
	}
	ev->len = 4 + sizeof(struct ip) + payload;
}

/* ---- setting up and running the server ---- */

static void server_setup(int with_forwarding)
{
	srand(1);
	fw_query_init();
	topdomain = strdup(TOPDOMAIN);
	memset(password, 0, sizeof(password));
	strcpy(password, PASSWORD);
	check_ip = 1;
	my_mtu = 1130;
	netmask = 27;
	my_ip = inet_addr("10.9.0.1");
	ns_ip = INADDR_ANY;
	bind_port = with_forwarding ? 5353 : 0;
	debug = 0;
	created_users = init_users(my_ip, netmask);
}

static int server_run(int with_forwarding)
{
	struct dnsfd fds;

	fds.v4fd = DNS4_FD;
	fds.v6fd = -1;
	running = 1;
	tunnel(TUN_FD, &fds, with_forwarding ? BIND_FD : 0, 0);
	return violations;
}
