/* The real client, with a few accessors for the demonstration driver. */
#include "client.c"

#include "sim.h"

void cl_reset(const char *td, const char *pw)
{
	struct sockaddr_in ns;
	static char pwbuf[33];

	/* what a freshly started iodine process has */
	dataenc = &base32_ops;
	downenc = ' ';
	do_qtype = T_UNSET;
	lazymode = 1;
	selecttimeout = 4;
	hostname_maxlen = 0xFF;
	send_query_sendcnt = -1;
	send_query_recvcnt = 0;
	lastdownstreamtime = 0;
	lastpingtime = 0;
	lastquerytime = 0;
	userid = 0;

	client_init();

	memset(&ns, 0, sizeof(ns));
	ns.sin_family = AF_INET;
	ns.sin_port = htons(53);
	ns.sin_addr.s_addr = htonl(0x7f000001);
	client_set_nameserver((struct sockaddr_storage *) &ns, sizeof(ns));
	client_set_topdomain(td);
	memset(pwbuf, 0, sizeof(pwbuf));
	strncpy(pwbuf, pw, 32);
	client_set_password(pwbuf);
}

int cl_handshake(const struct cl_opts *o)
{
	if (o->qtype) {
		char t[16];
		strncpy(t, o->qtype, sizeof(t) - 1);
		t[sizeof(t) - 1] = 0;
		if (client_set_qtype(t))
			return -100;
	}
	if (o->downenc) {
		char t[16];
		strncpy(t, o->downenc, sizeof(t) - 1);
		t[sizeof(t) - 1] = 0;
		client_set_downenc(t);
	}
	client_set_lazymode(o->lazy);
	client_set_selecttimeout(o->interval ? o->interval : 4);
	if (o->maxlen)
		client_set_hostname_maxlen(o->maxlen);
	return client_handshake(FD_CDNS, 0, o->fragsize == 0,
				o->fragsize ? o->fragsize : 3072);
}

void cl_tunnel(void)
{
	running = 1;
	client_tunnel(FD_CTUN, FD_CDNS);
}

void cl_stop(void)
{
	client_stop();
}

const char *cl_qtype(void) { return client_get_qtype(); }
const char *cl_upenc(void) { return dataenc->name; }
char cl_downenc(void) { return downenc; }
int cl_userid(void) { return userid; }
