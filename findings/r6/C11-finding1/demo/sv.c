/* The real server; its main() is replaced by a minimal start-up that skips
   everything needing root (tun, port 53, chroot) and enters tunnel(). */
#define main iodined_main_unused
#include "iodined.c"
#undef main

#include "sim.h"

void sv_setup(const char *td, const char *pw)
{
	running = 1;
	topdomain = strdup(td);
	memset(password, 0, sizeof(password));
	strncpy(password, pw, sizeof(password) - 1);
	check_ip = 1;
	my_mtu = 1130;
	netmask = 27;
	my_ip = inet_addr("10.0.0.1");
	ns_ip = INADDR_ANY;
	bind_port = 0;
	debug = 0;
	srand(1);
	fw_query_init();
	created_users = init_users(my_ip, netmask);
}

void sv_main(void)
{
	struct dnsfd fds;

	fds.v4fd = FD_SDNS;
	fds.v6fd = -1;
	tunnel(FD_STUN, &fds, 0, 0);
}

uint32_t sv_user_ip(int u) { return users[u].tun_ip; }
uint32_t sv_my_ip(void) { return my_ip; }
char sv_user_downenc(int u) { return users[u].downenc; }
const char *sv_user_upenc(int u) { return users[u].encoder ? users[u].encoder->name : "(null)"; }
int sv_user_fragsize(int u) { return users[u].fragsize; }
int sv_user_active_id(void)
{
	int i;
	for (i = 0; i < created_users; i++)
		if (users[i].active)
			return i;
	return -1;
}
