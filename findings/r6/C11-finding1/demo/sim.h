/*
 * Tiny deterministic simulator: the real iodine client (client.c) and the
 * real iodined server (iodined.c) run as two cooperative fibers in one
 * process. Their sockets, tun devices and clocks are replaced (ld --wrap),
 * every datagram between them passes a simulated DNS relay that applies a
 * fixed transformation. Time is simulated, nothing ever really waits.
 */
#ifndef SIM_H
#define SIM_H

#include <stddef.h>
#include <stdint.h>

#define FD_CDNS 100	/* client's DNS socket */
#define FD_CTUN 101	/* client's tun device */
#define FD_SDNS 200	/* server's DNS socket */
#define FD_STUN 201	/* server's tun device */

enum { CASE_KEEP, CASE_LOWER, CASE_UPPER, CASE_RANDOM };
enum { BIT8_CLEAN, BIT8_STRIP, BIT8_REJECT };
enum { PUNCT_KEEP, PUNCT_PLUS, PUNCT_UNDERSCORE };

/* record types in the order the client tries them */
#define RT_NULL    1
#define RT_PRIVATE 2
#define RT_TXT     4
#define RT_SRV     8
#define RT_MX      16
#define RT_CNAME   32
#define RT_A       64
#define RT_ALL     127

struct xform {
	int kase;
	int bit8;
	int punct;
};

struct relay {
	struct xform q;		/* applied to names in queries */
	struct xform a;		/* applied to names/text in answers */
	unsigned types;		/* allowed record types (RT_ mask) */
	int maxans;		/* answers above this size are dropped, 0 = no limit */
	int edns0;		/* 1: EDNS0 honoured; 0: OPT removed, answers <= 512 */
	char mangle_to;		/* what a mangled punctuation char becomes */
};

extern struct relay relay;
extern int sim_verbose;

void relay_default(void);

/* simulated clock, microseconds since start */
long long sim_now(void);

/* run fn as the client fiber next to the server fiber until fn returns */
void sim_run(void (*client_fn)(void));

/* let simulated time pass (client fiber only) */
void sim_sleep_us(long long us);

/* while the client sits in client_tunnel(): stop it when cond() != 0 or
   after budget_us */
void sim_stop_when(int (*cond)(void), long long budget_us);

/* call fn(arg) at now+delay (from scheduler context: may only queue packets) */
void sim_at(long long delay_us, void (*fn)(void *), void *arg);

/* tun devices */
void tun_offer(int fd, const void *pkt, int len);	/* a packet arrives on tun */
int tun_delivered_count(int fd);			/* packets written to tun */
const uint8_t *tun_delivered(int fd, int idx, int *len);
void tun_forget(int fd);

/* statistics */
extern long stat_q_sent, stat_a_sent, stat_a_dropped_size, stat_q_refused;

/* server side (sv.c) */
void sv_setup(const char *topdomain, const char *password);
void sv_main(void);			/* the server fiber: never returns */
uint32_t sv_user_ip(int userid);	/* tun ip of a user, network order */
uint32_t sv_my_ip(void);
char sv_user_downenc(int userid);
const char *sv_user_upenc(int userid);
int sv_user_fragsize(int userid);
int sv_user_active_id(void);

/* client side (cl.c) */
struct cl_opts {
	const char *qtype;	/* NULL = autodetect */
	const char *downenc;	/* NULL = autodetect */
	int lazy;
	int fragsize;		/* 0 = autoprobe */
	int maxlen;		/* -M, 0 = default */
	int interval;		/* -I, 0 = default (4) */
};
void cl_reset(const char *topdomain, const char *password);
int cl_handshake(const struct cl_opts *o);
void cl_tunnel(void);
void cl_stop(void);
const char *cl_qtype(void);
const char *cl_upenc(void);
char cl_downenc(void);
int cl_userid(void);

/* helpers */
int xchg(int up, int down, int size, unsigned seed, int budget_s, char *msg, int msglen);
int make_ip_packet(uint8_t *buf, int payload_len, uint32_t src, uint32_t dst,
		   unsigned seed, int compressible);

#endif
