/*
 * Property C11 with a forced downstream codec (-O).
 *
 * Case 1: relay refuses NULL and PRIVATE (so TXT is autodetected) and strips
 *         bytes >= 0x80 from the text of answers; the user gave -O raw.
 * Case 2: relay refuses NULL and PRIVATE and turns '+' in answers into '-';
 *         the user gave -O base64.
 *
 * Both paths pass Base32 in TXT answers of any size, so the handshake has to
 * succeed (falling back to Base32 downstream), and what it settled on has to
 * carry packets in both directions.
 */
#include <stdio.h>
#include <stdlib.h>
#include <string.h>
#include "sim.h"

#define TOPDOMAIN "t.example.com"
#define PASSWORD "secret"

static int verdict = 2;

static int session(const char *name, const char *force_o, int size)
{
	struct cl_opts o;
	char msg[300];
	int rc, bad = 0;

	memset(&o, 0, sizeof(o));
	o.lazy = 1;
	o.downenc = force_o;

	cl_reset(TOPDOMAIN, PASSWORD);	/* a freshly started iodine */
	rc = cl_handshake(&o);
	printf("%s, -O %s:\n  handshake rc=%d; client: type %s, upstream %s, downstream '%c'\n",
	       name, force_o, rc, cl_qtype(), cl_upenc(), cl_downenc());
	if (rc != 0) {
		printf("  VIOLATION: the handshake failed although Base32 works on this path\n");
		return 1;
	}
	printf("  server: downstream '%c', fragment size %d\n",
	       sv_user_downenc(cl_userid()), sv_user_fragsize(cl_userid()));
	rc = xchg(1, 0, size, 1, 40, msg, sizeof(msg));
	printf("  %d-byte packet upstream:   %s %s\n", size + 20, rc ? "FAILED" : "delivered intact", msg);
	bad |= rc;
	rc = xchg(0, 1, size, 2, 40, msg, sizeof(msg));
	printf("  %d-byte packet downstream: %s %s\n", size + 20, rc ? "FAILED" : "delivered intact", msg);
	bad |= rc;
	if (bad)
		printf("  VIOLATION: the handshake reported success, the settings do not carry packets\n");
	return bad;
}

static void scenario(void)
{
	int bad = 0;

	relay_default();
	relay.types = RT_ALL & ~(RT_NULL | RT_PRIVATE);
	relay.a.bit8 = BIT8_STRIP;
	bad |= session("case 1: no NULL/PRIVATE, bytes >= 0x80 stripped from answers", "raw", 100);

	sim_sleep_us(70 * 1000000LL);	/* the server forgets the first client */

	relay_default();
	relay.types = RT_ALL & ~(RT_NULL | RT_PRIVATE);
	relay.a.punct = PUNCT_PLUS;
	bad |= session("case 2: no NULL/PRIVATE, '+' in answers becomes '-'", "base64", 100);

	verdict = bad ? 1 : 0;
}

int main(int argc, char **argv)
{
	if (argc > 1)
		sim_verbose = atoi(argv[1]);
	if (sim_verbose < 1 && !freopen("/dev/null", "w", stderr))
		return 2;
	setvbuf(stdout, NULL, _IOLBF, 0);

	relay_default();
	sv_setup(TOPDOMAIN, PASSWORD);
	sim_run(scenario);
	printf("%s\n", verdict == 0 ? "RESULT: property holds for this case" :
	       verdict == 1 ? "RESULT: property VIOLATED" : "RESULT: harness trouble");
	return verdict;
}
