/* Offer one packet on the client's tun and/or one on the server's tun, let
   the real client_tunnel() run until both came out at the other end (or the
   simulated time budget is used up), and compare. */
#include <stdio.h>
#include <string.h>
#include "sim.h"

static uint8_t up_pkt[4096], down_pkt[4096];
static int up_len, down_len, want_up, want_down;

static int find_pkt(int fd, const uint8_t *pkt, int len)
{
	int i, n = tun_delivered_count(fd), l;
	for (i = 0; i < n; i++) {
		const uint8_t *d = tun_delivered(fd, i, &l);
		if (l == len && memcmp(d, pkt, len) == 0)
			return 1;
	}
	return 0;
}

static int done(void)
{
	if (want_up && !find_pkt(FD_STUN, up_pkt, up_len))
		return 0;
	if (want_down && !find_pkt(FD_CTUN, down_pkt, down_len))
		return 0;
	return 1;
}

/* Returns 0 when everything offered arrived intact and nothing else did */
int xchg(int up, int down, int size, unsigned seed, int budget_s, char *msg, int msglen)
{
	int n, l, bad = 0;
	uint32_t cip = sv_user_ip(cl_userid());

	msg[0] = 0;
	tun_forget(FD_CTUN);
	tun_forget(FD_STUN);
	want_up = up;
	want_down = down;
	if (up) {
		up_len = make_ip_packet(up_pkt, size, cip, sv_my_ip(), seed, 0);
		tun_offer(FD_CTUN, up_pkt, up_len);
	}
	if (down) {
		down_len = make_ip_packet(down_pkt, size, sv_my_ip(), cip, seed + 77, 0);
		tun_offer(FD_STUN, down_pkt, down_len);
	}
	sim_stop_when(done, budget_s * 1000000LL);
	cl_tunnel();
	if (!done()) {
		snprintf(msg, msglen, "not delivered within %d s: upstream %s, downstream %s",
			 budget_s,
			 !up ? "-" : find_pkt(FD_STUN, up_pkt, up_len) ? "ok" : "LOST",
			 !down ? "-" : find_pkt(FD_CTUN, down_pkt, down_len) ? "ok" : "LOST");
		bad = 1;
	}
	/* anything delivered must be what was offered */
	for (n = 0; n < tun_delivered_count(FD_STUN); n++) {
		const uint8_t *d = tun_delivered(FD_STUN, n, &l);
		if (!(up && l == up_len && !memcmp(d, up_pkt, l))) {
			snprintf(msg, msglen, "server's tun got a packet nobody sent (len %d)", l);
			bad = 1;
		}
	}
	for (n = 0; n < tun_delivered_count(FD_CTUN); n++) {
		const uint8_t *d = tun_delivered(FD_CTUN, n, &l);
		if (!(down && l == down_len && !memcmp(d, down_pkt, l))) {
			snprintf(msg, msglen, "client's tun got a packet nobody sent (len %d)", l);
			bad = 1;
		}
	}
	return bad;
}
