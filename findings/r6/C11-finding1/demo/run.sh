#!/bin/sh
# usage: run.sh <source tree root>
# exit 0: property holds for the demonstrated case, 1: violated, 2: build/harness trouble
TREE=$1
[ -n "$TREE" ] && [ -f "$TREE/src/client.c" ] && [ -f "$TREE/src/iodined.c" ] || {
	echo "usage: $0 <iodine source tree>" >&2; exit 2; }
TREE=$(cd "$TREE" && pwd)
HERE=$(cd "$(dirname "$0")" && pwd)
SRC=$TREE/src
CC=${CC:-gcc}
T=$(mktemp -d) || exit 2
trap 'rm -rf "$T"' EXIT INT TERM

CFLAGS="-std=gnu99 -O1 -g -w -DLINUX -D_GNU_SOURCE -DGITREVISION=\"demo\" -I$SRC -I$HERE"
build() {
	{
		echo '/* generated the way src/Makefile does it */'
		sed -e 's/\([Bb][Aa][Ss][Ee]64\)/\1u/g ; s/0123456789+/0123456789_/' < "$SRC/base64.c"
	} > "$T/base64u.c" || return 1
	OBJS=
	for f in dns read encoding login base32 base64 base128 md5 common util user fw_query; do
		$CC $CFLAGS -c "$SRC/$f.c" -o "$T/$f.o" || return 1
		OBJS="$OBJS $T/$f.o"
	done
	$CC $CFLAGS -c "$T/base64u.c" -o "$T/base64u.o" || return 1
	for f in cl sv sim xchg demo; do
		$CC $CFLAGS -c "$HERE/$f.c" -o "$T/$f.o" || return 1
		OBJS="$OBJS $T/$f.o"
	done
	$CC -o "$T/demo" $OBJS "$T/base64u.o" \
		-Wl,--wrap=select -Wl,--wrap=sendto -Wl,--wrap=recvfrom -Wl,--wrap=recv \
		-Wl,--wrap=recvmsg -Wl,--wrap=time -Wl,--wrap=sleep -lz || return 1
}
build > "$T/build.log" 2>&1 || { cat "$T/build.log" >&2; echo "build failed" >&2; exit 2; }

"$T/demo" $2
rc=$?
case $rc in 0|1) exit $rc;; *) exit 2;; esac
