/* See sim.h. Scheduler, fake sockets/tun/clock, simulated DNS relay. */
#define _GNU_SOURCE
#include <stdio.h>
#include <stdlib.h>
#include <string.h>
#include <stdint.h>
#include <time.h>
#include <ucontext.h>
#include <sys/types.h>
#include <sys/socket.h>
#include <sys/select.h>
#include <sys/time.h>
#include <netinet/in.h>
#include <arpa/inet.h>
#include <unistd.h>

#include "sim.h"

#define INF 0x7fffffffffffffffLL
#define TIME_BASE 1700000000L

int sim_verbose = 0;
struct relay relay;
long stat_q_sent, stat_a_sent, stat_a_dropped_size, stat_q_refused;

/* ------------------------------------------------------------------ */
/* datagram queues                                                     */

struct dgram {
	struct dgram *next;
	int len;
	uint8_t data[1];
};

struct queue {
	struct dgram *head, *tail;
	int count;
};

static struct queue q_cdns, q_sdns, q_ctun, q_stun;
static struct queue d_ctun, d_stun;	/* delivered to tun */

static void q_push(struct queue *q, const void *data, int len)
{
	struct dgram *d = malloc(sizeof(*d) + len);
	d->next = NULL;
	d->len = len;
	memcpy(d->data, data, len);
	if (q->tail)
		q->tail->next = d;
	else
		q->head = d;
	q->tail = d;
	q->count++;
}

static struct dgram *q_pop(struct queue *q)
{
	struct dgram *d = q->head;
	if (!d)
		return NULL;
	q->head = d->next;
	if (!q->head)
		q->tail = NULL;
	q->count--;
	return d;
}

static void q_clear(struct queue *q)
{
	struct dgram *d;
	while ((d = q_pop(q)))
		free(d);
}

static struct queue *q_for_fd(int fd)
{
	switch (fd) {
	case FD_CDNS: return &q_cdns;
	case FD_SDNS: return &q_sdns;
	case FD_CTUN: return &q_ctun;
	case FD_STUN: return &q_stun;
	}
	return NULL;
}

void tun_offer(int fd, const void *pkt, int len)
{
	q_push(q_for_fd(fd), pkt, len);
}

int tun_delivered_count(int fd)
{
	return (fd == FD_CTUN) ? d_ctun.count : d_stun.count;
}

const uint8_t *tun_delivered(int fd, int idx, int *len)
{
	struct dgram *d = (fd == FD_CTUN) ? d_ctun.head : d_stun.head;
	while (d && idx-- > 0)
		d = d->next;
	if (!d)
		return NULL;
	*len = d->len;
	return d->data;
}

void tun_forget(int fd)
{
	q_clear((fd == FD_CTUN) ? &d_ctun : &d_stun);
	q_clear(q_for_fd(fd));
}

/* tun.c replacement */
int open_tun(const char *dev) { (void) dev; return FD_STUN; }
void close_tun(int fd) { (void) fd; }
int tun_setip(const char *ip, const char *other, int bits)
{ (void) ip; (void) other; (void) bits; return 0; }
int tun_setmtu(const unsigned mtu) { (void) mtu; return 0; }

int write_tun(int fd, char *data, size_t len)
{
	if (len >= 4) {
		data[0] = 0; data[1] = 0; data[2] = 8; data[3] = 0;
	}
	q_push((fd == FD_CTUN) ? &d_ctun : &d_stun, data, (int) len);
	return 0;
}

ssize_t read_tun(int fd, char *buf, size_t len)
{
	struct dgram *d = q_pop(q_for_fd(fd));
	int n;
	if (!d)
		return -1;
	n = d->len < (int) len ? d->len : (int) len;
	memcpy(buf, d->data, n);
	free(d);
	return n;
}

/* ------------------------------------------------------------------ */
/* fibers and scheduler                                                */

enum { F_NEW, F_WAIT, F_DONE };

struct fiber {
	const char *name;
	ucontext_t ctx;
	int state;
	fd_set want, got;
	int nfds, ngot;
	long long deadline;
	void (*fn)(void);
};

static struct fiber f_client, f_server;
static struct fiber *cur;
static ucontext_t sched_ctx;
static long long now_us;

static int (*stop_cond)(void);
static long long stop_deadline;
static int stop_active;

#define MAXTIMERS 64
static struct { long long t; void (*fn)(void *); void *arg; int used; } timers[MAXTIMERS];

long long sim_now(void) { return now_us; }

void sim_at(long long delay_us, void (*fn)(void *), void *arg)
{
	int i;
	for (i = 0; i < MAXTIMERS; i++)
		if (!timers[i].used) {
			timers[i].used = 1;
			timers[i].t = now_us + delay_us;
			timers[i].fn = fn;
			timers[i].arg = arg;
			return;
		}
	fprintf(stdout, "sim: out of timers\n");
	exit(2);
}

void sim_stop_when(int (*cond)(void), long long budget_us)
{
	stop_cond = cond;
	stop_deadline = now_us + budget_us;
	stop_active = 1;
}

static void yield(void)
{
	struct fiber *f = cur;
	f->state = F_WAIT;
	swapcontext(&f->ctx, &sched_ctx);
}

void sim_sleep_us(long long us)
{
	struct fiber *f = cur;
	FD_ZERO(&f->want);
	f->nfds = 0;
	f->deadline = now_us + us;
	yield();
}

static void fiber_entry(void)
{
	struct fiber *f = cur;
	f->fn();
	f->state = F_DONE;
	swapcontext(&f->ctx, &sched_ctx);
}

static void fiber_init(struct fiber *f, const char *name, void (*fn)(void))
{
	size_t sz = 32 * 1024 * 1024;
	memset(f, 0, sizeof(*f));
	f->name = name;
	f->fn = fn;
	f->state = F_NEW;
	getcontext(&f->ctx);
	f->ctx.uc_stack.ss_sp = malloc(sz);
	f->ctx.uc_stack.ss_size = sz;
	f->ctx.uc_link = NULL;
	makecontext(&f->ctx, fiber_entry, 0);
}

static void resume(struct fiber *f)
{
	cur = f;
	swapcontext(&sched_ctx, &f->ctx);
	cur = NULL;
}

static int fiber_ready(struct fiber *f)
{
	int fd, n = 0;
	if (f->state == F_NEW)
		return 1;
	if (f->state != F_WAIT)
		return 0;
	FD_ZERO(&f->got);
	for (fd = 0; fd < f->nfds; fd++) {
		struct queue *q;
		if (!FD_ISSET(fd, &f->want))
			continue;
		q = q_for_fd(fd);
		if (q && q->count > 0) {
			FD_SET(fd, &f->got);
			n++;
		}
	}
	f->ngot = n;
	return n > 0;
}

void sim_run(void (*client_fn)(void))
{
	struct fiber *order[2];
	int i;

	fiber_init(&f_server, "server", sv_main);
	fiber_init(&f_client, "client", client_fn);
	order[0] = &f_server;
	order[1] = &f_client;

	for (;;) {
		long long next;
		struct fiber *nf;
		int ran = 0;

		if (f_client.state == F_DONE)
			break;

		if (stop_active &&
		    ((stop_cond && stop_cond()) || now_us >= stop_deadline)) {
			stop_active = 0;
			cl_stop();
		}

		for (i = 0; i < MAXTIMERS; i++)
			if (timers[i].used && timers[i].t <= now_us) {
				timers[i].used = 0;
				timers[i].fn(timers[i].arg);
			}

		for (i = 0; i < 2; i++)
			if (fiber_ready(order[i])) {
				resume(order[i]);
				ran = 1;
				break;
			}
		if (ran)
			continue;

		/* nothing to read anywhere: let time pass */
		next = INF;
		nf = NULL;
		for (i = 0; i < 2; i++)
			if (order[i]->state == F_WAIT && order[i]->deadline < next) {
				next = order[i]->deadline;
				nf = order[i];
			}
		for (i = 0; i < MAXTIMERS; i++)
			if (timers[i].used && timers[i].t < next) {
				next = timers[i].t;
				nf = NULL;
			}
		if (stop_active && stop_deadline < next) {
			next = stop_deadline;
			nf = NULL;
		}
		if (next == INF) {
			fprintf(stdout, "sim: deadlock\n");
			exit(2);
		}
		if (next > now_us)
			now_us = next;
		if (nf) {
			FD_ZERO(&nf->got);
			nf->ngot = 0;
			resume(nf);
		}
	}
}

/* ------------------------------------------------------------------ */
/* the relay                                                           */

static uint32_t relay_rng = 12345;

static int coin(void)
{
	relay_rng = relay_rng * 1103515245u + 12345u;
	return (relay_rng >> 16) & 1;
}

void relay_default(void)
{
	memset(&relay, 0, sizeof(relay));
	relay.types = RT_ALL;
	relay.edns0 = 1;
	relay.mangle_to = '-';
	relay_rng = 12345;
}

/* Returns new length, or -1 when the relay refuses these bytes */
static int xform_bytes(const struct xform *x, const uint8_t *in, int n, uint8_t *out)
{
	int i, o = 0;
	for (i = 0; i < n; i++) {
		uint8_t c = in[i];
		if (c >= 0x80) {
			if (x->bit8 == BIT8_STRIP)
				continue;
			if (x->bit8 == BIT8_REJECT)
				return -1;
		}
		if (c == '+' && x->punct == PUNCT_PLUS)
			c = relay.mangle_to;
		else if (c == '_' && x->punct == PUNCT_UNDERSCORE)
			c = relay.mangle_to;
		if (c >= 'a' && c <= 'z') {
			if (x->kase == CASE_UPPER || (x->kase == CASE_RANDOM && coin()))
				c = c - 'a' + 'A';
		} else if (c >= 'A' && c <= 'Z') {
			if (x->kase == CASE_LOWER || (x->kase == CASE_RANDOM && coin()))
				c = c - 'A' + 'a';
		}
		out[o++] = c;
	}
	return o;
}

/* Copies a wire-format name from in[*pos] to out[*opos], transforming labels.
   Compression pointers are copied as they are (and end the name).
   Returns 0 ok, -1 refused, -2 malformed. */
static int xform_name(const struct xform *x, const uint8_t *in, int len, int *pos,
		      uint8_t *out, int *opos)
{
	int p = *pos, o = *opos;
	for (;;) {
		int l;
		if (p >= len)
			return -2;
		l = in[p];
		if ((l & 0xc0) == 0xc0) {
			if (p + 2 > len)
				return -2;
			out[o++] = in[p++];
			out[o++] = in[p++];
			break;
		}
		p++;
		if (l == 0) {
			out[o++] = 0;
			break;
		}
		if (l > 63 || p + l > len)
			return -2;
		if (x) {
			int nl = xform_bytes(x, in + p, l, out + o + 1);
			if (nl < 0)
				return -1;
			if (nl > 0) {
				out[o] = nl;
				o += nl + 1;
			}
		} else {
			out[o] = l;
			memcpy(out + o + 1, in + p, l);
			o += l + 1;
		}
		p += l;
	}
	*pos = p;
	*opos = o;
	return 0;
}

static unsigned rt_mask(int type)
{
	switch (type) {
	case 10: return RT_NULL;
	case 65399: return RT_PRIVATE;
	case 16: return RT_TXT;
	case 33: return RT_SRV;
	case 15: return RT_MX;
	case 5: return RT_CNAME;
	case 1: return RT_A;
	}
	return 0;
}

static int get16(const uint8_t *p) { return (p[0] << 8) | p[1]; }
static void put16(uint8_t *p, int v) { p[0] = (v >> 8) & 0xff; p[1] = v & 0xff; }

/* error reply to the client for its own query */
static int make_error(const uint8_t *q, int qend, int rcode, uint8_t *out)
{
	memcpy(out, q, qend);
	out[2] = 0x81;		/* QR, RD */
	out[3] = 0x80 | rcode;	/* RA, rcode */
	put16(out + 4, 1);
	put16(out + 6, 0);
	put16(out + 8, 0);
	put16(out + 10, 0);
	return qend;
}

static void trace_name(const char *what, const uint8_t *pkt, int len)
{
	char name[600];
	int p = 12, o = 0;
	if (sim_verbose < 2)
		return;
	while (p < len && pkt[p] && (pkt[p] & 0xc0) == 0 && o < 500) {
		int l = pkt[p++], i;
		for (i = 0; i < l && p < len; i++, p++) {
			uint8_t c = pkt[p];
			if (c > ' ' && c < 127)
				name[o++] = c;
			else
				o += sprintf(name + o, "\\%03o", c);
		}
		name[o++] = '.';
	}
	name[o] = 0;
	printf("[%9.3f] %s len=%d id=%d %.80s\n", now_us / 1e6, what, len,
	       get16(pkt), name);
}

/* client -> server */
static void relay_query(const uint8_t *in, int len)
{
	uint8_t out[70000], err[70000];
	int p = 12, o = 12, r, qend, type;

	stat_q_sent++;
	trace_name("Q  ", in, len);

	if (len < 12)
		return;
	/* raw-mode datagrams are not DNS: no relay would pass them on */
	if (get16(in + 4) != 1 || (in[2] & 0x80))
		return;

	memcpy(out, in, 12);
	{
		int pp = 12, oo = 0;
		uint8_t tmp[600];
		if (xform_name(NULL, in, len, &pp, tmp, &oo) < 0 || pp + 4 > len)
			return;
		qend = pp + 4;
	}
	r = xform_name(&relay.q, in, len, &p, out, &o);
	if (r == -2)
		return;
	if (r == -1) {
		stat_q_refused++;
		r = make_error(in, qend, 2, err);
		trace_name("  E", err, r);
		q_push(&q_cdns, err, r);
		return;
	}
	type = get16(in + p);
	if (!(rt_mask(type) & relay.types)) {
		stat_q_refused++;
		r = make_error(in, qend, 4, err);
		trace_name("  E", err, r);
		q_push(&q_cdns, err, r);
		return;
	}
	memcpy(out + o, in + p, 4);
	o += 4;
	p += 4;
	if (relay.edns0 && p < len) {
		memcpy(out + o, in + p, len - p);
		o += len - p;
	} else {
		put16(out + 10, 0);
	}
	q_push(&q_sdns, out, o);
}

/* server -> client */
static void relay_answer(const uint8_t *in, int len)
{
	uint8_t out[140000], err[70000];
	int p = 12, o = 12, r, qend, an, i, limit;

	if (len < 12)
		return;
	memcpy(out, in, 12);
	r = xform_name(NULL, in, len, &p, out, &o);
	if (r < 0 || p + 4 > len)
		return;
	memcpy(out + o, in + p, 4);
	p += 4;
	o += 4;
	qend = p;
	an = get16(in + 6);

	for (i = 0; i < an; i++) {
		int type, rdlen, rdstart, lenpos, ostart;

		if (xform_name(NULL, in, len, &p, out, &o) < 0 || p + 10 > len)
			return;
		type = get16(in + p);
		rdlen = get16(in + p + 8);
		memcpy(out + o, in + p, 10);
		lenpos = o + 8;
		p += 10;
		o += 10;
		rdstart = p;
		ostart = o;
		if (p + rdlen > len)
			return;
		r = 0;
		if (type == 5) {			/* CNAME */
			r = xform_name(&relay.a, in, len, &p, out, &o);
		} else if (type == 15) {		/* MX */
			memcpy(out + o, in + p, 2);
			p += 2; o += 2;
			r = xform_name(&relay.a, in, len, &p, out, &o);
		} else if (type == 33) {		/* SRV */
			memcpy(out + o, in + p, 6);
			p += 6; o += 6;
			r = xform_name(&relay.a, in, len, &p, out, &o);
		} else if (type == 16) {		/* TXT */
			uint8_t txt[70000], txt2[70000];
			int tl = 0, t2, e = rdstart + rdlen, k;
			while (p < e) {
				int l = in[p++];
				if (p + l > e)
					return;
				memcpy(txt + tl, in + p, l);
				tl += l;
				p += l;
			}
			t2 = xform_bytes(&relay.a, txt, tl, txt2);
			if (t2 < 0)
				r = -1;
			else
				for (k = 0; k < t2 || (k == 0 && t2 == 0); ) {
					int l = t2 - k > 255 ? 255 : t2 - k;
					out[o++] = l;
					memcpy(out + o, txt2 + k, l);
					o += l;
					k += l;
					if (t2 == 0)
						break;
				}
		} else {				/* NULL, PRIVATE, ... */
			memcpy(out + o, in + p, rdlen);
			o += rdlen;
		}
		if (r == -2)
			return;
		if (r == -1) {
			r = make_error(in, qend, 2, err);
			trace_name("  E", err, r);
			q_push(&q_cdns, err, r);
			return;
		}
		p = rdstart + rdlen;
		put16(out + lenpos, o - ostart);
	}

	limit = relay.maxans;
	if (!relay.edns0 && (limit == 0 || limit > 512))
		limit = 512;
	if (limit && o > limit) {
		stat_a_dropped_size++;
		trace_name("  A(dropped: too big)", out, o);
		return;
	}
	stat_a_sent++;
	trace_name("  A", out, o);
	q_push(&q_cdns, out, o);
}

/* ------------------------------------------------------------------ */
/* wrapped libc functions                                              */

int __real_select(int, fd_set *, fd_set *, fd_set *, struct timeval *);
ssize_t __real_sendto(int, const void *, size_t, int, const struct sockaddr *, socklen_t);
ssize_t __real_recvfrom(int, void *, size_t, int, struct sockaddr *, socklen_t *);
ssize_t __real_recv(int, void *, size_t, int);
ssize_t __real_recvmsg(int, struct msghdr *, int);
time_t __real_time(time_t *);
unsigned int __real_sleep(unsigned int);

int __wrap_select(int nfds, fd_set *r, fd_set *w, fd_set *e, struct timeval *tv);
ssize_t __wrap_sendto(int fd, const void *buf, size_t len, int flags,
		      const struct sockaddr *to, socklen_t tolen);
ssize_t __wrap_recvfrom(int fd, void *buf, size_t len, int flags,
			struct sockaddr *from, socklen_t *fromlen);
ssize_t __wrap_recv(int fd, void *buf, size_t len, int flags);
ssize_t __wrap_recvmsg(int fd, struct msghdr *msg, int flags);
time_t __wrap_time(time_t *t);
unsigned int __wrap_sleep(unsigned int s);

int __wrap_select(int nfds, fd_set *r, fd_set *w, fd_set *e, struct timeval *tv)
{
	struct fiber *f = cur;
	(void) w; (void) e;
	if (!f)
		return __real_select(nfds, r, w, e, tv);
	if (r)
		f->want = *r;
	else
		FD_ZERO(&f->want);
	f->nfds = nfds;
	f->deadline = tv ? now_us + tv->tv_sec * 1000000LL + tv->tv_usec : INF;
	yield();
	if (r)
		*r = f->got;
	return f->ngot;
}

static void fill_addr(struct sockaddr *sa, socklen_t *salen, int port)
{
	struct sockaddr_in a;
	if (!sa || !salen)
		return;
	memset(&a, 0, sizeof(a));
	a.sin_family = AF_INET;
	a.sin_port = htons(port);
	a.sin_addr.s_addr = htonl(0x7f000001);
	if (*salen >= sizeof(a)) {
		memcpy(sa, &a, sizeof(a));
		*salen = sizeof(a);
	}
}

ssize_t __wrap_sendto(int fd, const void *buf, size_t len, int flags,
		      const struct sockaddr *to, socklen_t tolen)
{
	if (fd == FD_CDNS) {
		relay_query(buf, (int) len);
		return len;
	}
	if (fd == FD_SDNS) {
		relay_answer(buf, (int) len);
		return len;
	}
	return __real_sendto(fd, buf, len, flags, to, tolen);
}

static ssize_t pop_into(int fd, void *buf, size_t len)
{
	struct dgram *d = q_pop(q_for_fd(fd));
	ssize_t n;
	if (!d)
		return -1;
	n = d->len < (int) len ? d->len : (ssize_t) len;
	memcpy(buf, d->data, n);
	free(d);
	return n;
}

ssize_t __wrap_recvfrom(int fd, void *buf, size_t len, int flags,
			struct sockaddr *from, socklen_t *fromlen)
{
	if (q_for_fd(fd)) {
		fill_addr(from, fromlen, fd == FD_CDNS ? 53 : 40000);
		return pop_into(fd, buf, len);
	}
	return __real_recvfrom(fd, buf, len, flags, from, fromlen);
}

ssize_t __wrap_recv(int fd, void *buf, size_t len, int flags)
{
	if (q_for_fd(fd))
		return pop_into(fd, buf, len);
	return __real_recv(fd, buf, len, flags);
}

ssize_t __wrap_recvmsg(int fd, struct msghdr *msg, int flags)
{
	if (q_for_fd(fd)) {
		socklen_t sl = msg->msg_namelen;
		ssize_t n = pop_into(fd, msg->msg_iov[0].iov_base, msg->msg_iov[0].iov_len);
		fill_addr(msg->msg_name, &sl, 40000);
		msg->msg_namelen = sl;
		msg->msg_controllen = 0;
		msg->msg_flags = 0;
		return n;
	}
	return __real_recvmsg(fd, msg, flags);
}

time_t __wrap_time(time_t *t)
{
	time_t v = TIME_BASE + (time_t) (now_us / 1000000LL);
	if (t)
		*t = v;
	return v;
}

unsigned int __wrap_sleep(unsigned int s)
{
	if (!cur)
		return __real_sleep(s);
	sim_sleep_us(s * 1000000LL);
	return 0;
}

/* ------------------------------------------------------------------ */

int make_ip_packet(uint8_t *buf, int payload_len, uint32_t src, uint32_t dst,
		   unsigned seed, int compressible)
{
	int total = 20 + payload_len, i;
	uint32_t s = seed * 2654435761u + 1;

	buf[0] = 0; buf[1] = 0; buf[2] = 8; buf[3] = 0;	/* tun header */
	memset(buf + 4, 0, 20);
	buf[4] = 0x45;
	put16(buf + 6, total);
	buf[12] = 64;
	buf[13] = 17;
	memcpy(buf + 16, &src, 4);
	memcpy(buf + 20, &dst, 4);
	for (i = 0; i < payload_len; i++) {
		s = s * 1103515245u + 12345u;
		buf[24 + i] = compressible ? (uint8_t) ('a' + (i & 3)) : (uint8_t) (s >> 16);
	}
	return 24 + payload_len;
}
