/*
 * harness.c - runs the real iodined request handling in-process and checks
 * every datagram it hands to sendto() with the strict parser in strictdns.c.
 *
 * iodined.c is #included so that its static functions and globals can be
 * reached; nothing in it is changed. recvmsg() and sendto() are replaced at
 * link time (-Wl,--wrap): recvmsg() delivers the query the scenario injects
 * (with the IP_PKTINFO / IPV6_PKTINFO control message the kernel would add),
 * sendto() captures what the server emits.
 *
 * usage: harness <scenario>        exit 0: property holds, 1: violated,
 *                                       2: harness trouble
 */
#define main iodined_main_not_used
#include "iodined.c"
#undef main

#include "strictdns.h"

#define V4FD   100
#define V6FD   101
#define BINDFD 102
#define TUNFD  103

#define TOPDOMAIN "t.example.com"

static struct dnsfd fds = { V4FD, V6FD };

static int violations;
static int emitted_total;
static int verbose;

/* ---- the query being injected ---------------------------------------- */

static unsigned char inj_pkt[65536];
static int inj_len;
static int inj_v6;

/* what the scenario expects of the emissions caused by this query */
static struct {
	int active;
	int wellformed_only;	/* the query itself is not a legal message */
	unsigned id;
	unsigned type;
	struct sd_name name;
	char descr[400];
	int answers;		/* datagrams to the asker */
	int forwards;		/* datagrams to the local DNS port */
	int malformed;		/* ... of which the strict parser refused */
} cur;

static struct sd_msg parsed;	/* last parsed emission */

static void
violation(const char *what, const unsigned char *m, size_t len)
{
	size_t i;

	violations++;
	if (violations > 12)
		return;
	fprintf(stderr, "VIOLATION: %s\n  caused by: %s\n  datagram (%zu bytes):", what, cur.descr, len);
	for (i = 0; i < len && i < 96; i++)
		fprintf(stderr, "%s%02x", (i % 32) ? " " : "\n    ", m[i]);
	if (len > 96)
		fprintf(stderr, " ...");
	fprintf(stderr, "\n");
}

ssize_t __wrap_recvmsg(int fd, struct msghdr *msg, int flags);
ssize_t __wrap_sendto(int fd, const void *buf, size_t len, int flags,
		      const struct sockaddr *to, socklen_t tolen);

ssize_t
__wrap_recvmsg(int fd, struct msghdr *msg, int flags)
{
	struct cmsghdr *cm;

	(void) fd; (void) flags;
	memcpy(msg->msg_iov[0].iov_base, inj_pkt, inj_len);

	if (inj_v6) {
		struct sockaddr_in6 a;
		struct in6_pktinfo pi;

		memset(&a, 0, sizeof(a));
		a.sin6_family = AF_INET6;
		a.sin6_port = htons(40000);
		inet_pton(AF_INET6, "2001:db8::99", &a.sin6_addr);
		memcpy(msg->msg_name, &a, sizeof(a));
		msg->msg_namelen = sizeof(a);

		memset(&pi, 0, sizeof(pi));
		inet_pton(AF_INET6, "2001:db8::1", &pi.ipi6_addr);
		cm = CMSG_FIRSTHDR(msg);
		cm->cmsg_level = IPPROTO_IPV6;
		cm->cmsg_type = IPV6_PKTINFO;
		cm->cmsg_len = CMSG_LEN(sizeof(pi));
		memcpy(CMSG_DATA(cm), &pi, sizeof(pi));
		msg->msg_controllen = CMSG_SPACE(sizeof(pi));
	} else {
		struct sockaddr_in a;
		struct in_pktinfo pi;

		memset(&a, 0, sizeof(a));
		a.sin_family = AF_INET;
		a.sin_port = htons(40000);
		a.sin_addr.s_addr = inet_addr("198.51.100.7");
		memcpy(msg->msg_name, &a, sizeof(a));
		msg->msg_namelen = sizeof(a);

		memset(&pi, 0, sizeof(pi));
		pi.ipi_addr.s_addr = inet_addr("192.0.2.1");
		pi.ipi_spec_dst = pi.ipi_addr;
		cm = CMSG_FIRSTHDR(msg);
		cm->cmsg_level = IPPROTO_IP;
		cm->cmsg_type = IP_PKTINFO;
		cm->cmsg_len = CMSG_LEN(sizeof(pi));
		memcpy(CMSG_DATA(cm), &pi, sizeof(pi));
		msg->msg_controllen = CMSG_SPACE(sizeof(pi));
	}
	return inj_len;
}

ssize_t
__wrap_sendto(int fd, const void *buf, size_t len, int flags,
	      const struct sockaddr *to, socklen_t tolen)
{
	const unsigned char *m = buf;
	const char *e;
	char msgbuf[600];
	int i;

	(void) flags; (void) to; (void) tolen;
	emitted_total++;
	if (cur.active) {
		if (fd == BINDFD)
			cur.forwards++;
		else
			cur.answers++;
	}

	e = strict_check(m, len, &parsed);
	if (e) {
		snprintf(msgbuf, sizeof(msgbuf), "malformed datagram: %s", e);
		violation(msgbuf, m, len);
		cur.malformed++;
		return len;
	}
	if (!cur.active)
		return len;

	if (fd == BINDFD) {
		if (parsed.flags & 0x8000)
			violation("forwarded datagram is not a query", m, len);
		if (cur.wellformed_only)
			return len;
		if (parsed.id != cur.id || parsed.qtype != cur.type ||
		    !sd_name_equal(&parsed.qname, &cur.name))
			violation("forwarded query differs from the query received", m, len);
		return len;
	}

	if (!(parsed.flags & 0x8000)) {
		violation("datagram to the asker is not a response", m, len);
		return len;
	}
	if (cur.wellformed_only)
		return len;

	if (parsed.id != cur.id)
		violation("answer does not carry the id of the query", m, len);
	if (parsed.qtype != cur.type)
		violation("answer does not carry the type of the query", m, len);
	if (!sd_name_equal(&parsed.qname, &cur.name))
		violation("answer does not carry the name of the query", m, len);
	if (parsed.an < 1)
		violation("answer without an answer record", m, len);

	for (i = 0; i < (int) parsed.an && i < parsed.nrr; i++) {
		struct sd_rr *rr = &parsed.rr[i];
		unsigned want = cur.type;

		if (!sd_name_equal(&rr->owner, &cur.name))
			violation("answer record is not owned by the name asked for", m, len);
		if (cur.type == T_A && rr->type == T_CNAME)
			want = T_CNAME;	/* tunnel data for A questions */
		if (rr->type != want)
			violation("answer record is not of the type asked for", m, len);
	}
	return len;
}

/* ---- building and injecting queries ---------------------------------- */

static unsigned next_id = 0x2000;

static int
put_question(unsigned char *p, unsigned id, const struct sd_name *n, unsigned type)
{
	memset(p, 0, 12);
	p[0] = id >> 8; p[1] = id & 0xff;
	p[2] = 0x01;		/* RD */
	p[5] = 1;		/* QDCOUNT */
	memcpy(p + 12, n->wire, n->wirelen);
	p += 12 + n->wirelen;
	p[0] = type >> 8; p[1] = type & 0xff;
	p[2] = 0; p[3] = 1;	/* IN */
	return 12 + n->wirelen + 4;
}

/* returns number of answers sent to the asker */
static int
ask(const char *dotted, unsigned type, int v6, int bind_fd)
{
	memset(&cur, 0, sizeof(cur));
	if (sd_name_from_dotted(dotted, &cur.name) < 0) {
		fprintf(stderr, "harness: cannot encode %s\n", dotted);
		exit(2);
	}
	cur.active = 1;
	cur.id = next_id++;
	if (next_id == 0x10000)
		next_id = 1;
	cur.type = type;
	snprintf(cur.descr, sizeof(cur.descr), "query id %u type %u over IPv%d for %.300s",
		 cur.id, type, v6 ? 6 : 4, dotted);
	inj_len = put_question(inj_pkt, cur.id, &cur.name, type);
	inj_v6 = v6;
	tunnel_dns(TUNFD, v6 ? V6FD : V4FD, &fds, bind_fd);
	cur.active = 0;
	return cur.answers;
}

/* raw variant: wire name given by the caller, may be illegal */
static void
ask_raw(const unsigned char *wirename, int wirelen, unsigned type, int bind_fd, const char *descr)
{
	unsigned char *p = inj_pkt;

	memset(&cur, 0, sizeof(cur));
	cur.active = 1;
	cur.wellformed_only = 1;
	cur.id = next_id++;
	cur.type = type;
	snprintf(cur.descr, sizeof(cur.descr), "%s (id %u type %u)", descr, cur.id, type);

	memset(p, 0, 12);
	p[0] = cur.id >> 8; p[1] = cur.id & 0xff;
	p[2] = 0x01; p[5] = 1;
	memcpy(p + 12, wirename, wirelen);
	p += 12 + wirelen;
	p[0] = type >> 8; p[1] = type & 0xff; p[2] = 0; p[3] = 1;
	inj_len = 12 + wirelen + 4;
	inj_v6 = 0;
	tunnel_dns(TUNFD, V4FD, &fds, bind_fd);
	cur.active = 0;
}

/* ---- a minimal client: version, login, option switches, probes -------- */

static unsigned cmc = 0x1234;

static void
reset_users(void)
{
	unsigned i;

	for (i = 0; i < (unsigned) created_users; i++) {
		users[i].active = 0;
		users[i].authenticated = 0;
	}
}

static int
open_session(unsigned type, int v6)
{
	char name[512];
	char data[32];
	size_t space;
	int userid = 0;

	reset_users();

	/* version */
	data[0] = (PROTOCOL_VERSION >> 24) & 0xff;
	data[1] = (PROTOCOL_VERSION >> 16) & 0xff;
	data[2] = (PROTOCOL_VERSION >> 8) & 0xff;
	data[3] = PROTOCOL_VERSION & 0xff;
	data[4] = cmc >> 8; data[5] = cmc & 0xff; cmc++;
	name[0] = 'v';
	space = 100;
	base32_ops.encode(name + 1, &space, data, 6);
	strcat(name, "." TOPDOMAIN);
	if (ask(name, type, v6, 0) != 1 || !users[userid].active) {
		fprintf(stderr, "harness: version handshake failed\n");
		exit(2);
	}

	/* login */
	memset(data, 0, sizeof(data));
	data[0] = userid;
	login_calculate(data + 1, 16, password, users[userid].seed);
	data[17] = cmc >> 8; data[18] = cmc & 0xff; cmc++;
	name[0] = 'l';
	space = 100;
	base32_ops.encode(name + 1, &space, data, 19);
	strcat(name, "." TOPDOMAIN);
	if (ask(name, type, v6, 0) != 1 || !users[userid].authenticated) {
		fprintf(stderr, "harness: login failed\n");
		exit(2);
	}
	return userid;
}

static void
switch_option(int userid, unsigned type, int v6, char opt)
{
	char name[256];

	snprintf(name, sizeof(name), "o%c%c%c%c%c.%s", b32_5to8(userid), opt,
		 b32_5to8((cmc >> 10) & 31), b32_5to8((cmc >> 5) & 31),
		 b32_5to8(cmc & 31), TOPDOMAIN);
	cmc++;
	if (ask(name, type, v6, 0) != 1) {
		fprintf(stderr, "harness: option switch %c got no answer\n", opt);
		exit(2);
	}
}

static void
probe(int userid, unsigned type, int v6, int fragsize)
{
	char name[256];

	snprintf(name, sizeof(name), "r%c%c%cd%c%c%cprobeprobeprobe.%s",
		 b32_5to8((userid << 1) | ((fragsize >> 10) & 1)),
		 b32_5to8((fragsize >> 5) & 31), b32_5to8(fragsize & 31),
		 b32_5to8((cmc >> 10) & 31), b32_5to8((cmc >> 5) & 31),
		 b32_5to8(cmc & 31), TOPDOMAIN);
	cmc++;
	if (ask(name, type, v6, 0) != 1) {
		fprintf(stderr, "harness: fragsize probe %d got no answer\n", fragsize);
		exit(2);
	}
}

/* ---- scenarios --------------------------------------------------------- */

static const unsigned all_types[] = { T_NULL, T_PRIVATE, T_TXT, T_SRV, T_MX, T_CNAME, T_A };
static const char all_codecs[] = { 't', 's', 'u', 'v', 'r' };

/* Downstream answers of every size, for every record type and downstream
   codec: the fragment size probe makes the server send exactly the number of
   bytes asked for. */
static void
scenario_sizes(void)
{
	unsigned t, c;
	int size;

	fprintf(stderr, "type  codec  answers  violations  smallest payload with a violation\n");
	for (t = 0; t < sizeof(all_types) / sizeof(all_types[0]); t++) {
		for (c = 0; c < sizeof(all_codecs); c++) {
			int userid = open_session(all_types[t], 0);
			int before = violations;
			int first = -1;
			int n = 0;

			switch_option(userid, all_types[t], 0, all_codecs[c]);
			for (size = 2; size <= 2047; size += (size < 600) ? 1 : 53) {
				int v = violations;
				probe(userid, all_types[t], 0, size);
				n++;
				if (violations > v && first < 0)
					first = size;
			}
			probe(userid, all_types[t], 0, 2047);
			n++;
			fprintf(stderr, "%5u  %c     %7d  %10d  ", all_types[t],
				all_codecs[c], n, violations - before);
			if (first < 0)
				fprintf(stderr, "-\n");
			else
				fprintf(stderr, "%d\n", first);
		}
	}
}

static void
check_ns_answer(const char *qname, const char *domain, int expect_glue)
{
	struct sd_name want;
	char nsname[300];

	snprintf(nsname, sizeof(nsname), "ns.%s", domain);
	sd_name_from_dotted(nsname, &want);

	snprintf(cur.descr, sizeof(cur.descr), "NS query for %.300s", qname);
	if (parsed.an != 1 || parsed.rr[0].type != T_NS || !parsed.rr[0].has_target ||
	    !sd_name_equal(&parsed.rr[0].target, &want))
		violation("NS query not answered with ns.<domain>", inj_pkt, 0);
	if (expect_glue >= 0 && (int) parsed.ar != expect_glue)
		violation("unexpected number of additional records", inj_pkt, 0);
	if (parsed.ar == 1 && parsed.nrr == 2) {
		if (parsed.rr[1].type != T_A || !sd_name_equal(&parsed.rr[1].owner, &want))
			violation("additional record is not the address of ns.<domain>", inj_pkt, 0);
	}
}

/* The auxiliary answers: NS queries under the tunnel domain, A queries for
   ns. and www., asked over IPv4 and over IPv6, with and without -n. */
static void
scenario_aux(void)
{
	static const char *subs[] = { "", "abc.", "Ab.cD.", "x.y.z.0.1.2.3.4.5.6.7.8.9." };
	char name[300];
	char longsub[300];
	int v6, withn;
	unsigned s;

	/* a name of the maximal length: 253 characters */
	{
		int room = 253 - (int) strlen(TOPDOMAIN);
		int o = 0;
		while (room - o > 0) {
			int l = MIN(63, room - o - 1);
			if (l < 1)
				break;
			memset(longsub + o, 'a' + (o % 26), l);
			o += l;
			longsub[o++] = '.';
		}
		longsub[o] = 0;
	}

	for (v6 = 0; v6 <= 1; v6++) {
		for (withn = 0; withn <= 1; withn++) {
			ns_ip = withn ? inet_addr("203.0.113.53") : INADDR_ANY;

			for (s = 0; s <= sizeof(subs) / sizeof(subs[0]); s++) {
				const char *sub = (s < sizeof(subs) / sizeof(subs[0])) ? subs[s] : longsub;

				snprintf(name, sizeof(name), "%s%s", sub, "T.Example.COM");
				if (ask(name, T_NS, v6, 0) != 1) {
					snprintf(cur.descr, sizeof(cur.descr), "NS query for %.300s over IPv%d", name, v6 ? 6 : 4);
					violation("NS query under the tunnel domain got no answer", inj_pkt, 0);
					continue;
				}
				if (!cur.malformed)
					check_ns_answer(name, "T.Example.COM", (v6 && !withn) ? 0 : 1);
			}

			/* A for ns. and www. (no IPv4 address to give: silence is allowed
			   for ns. over IPv6 without -n) */
			if (ask("ns." TOPDOMAIN, T_A, v6, 0) == 1) {
				if (!cur.malformed && (parsed.an != 1 || parsed.rr[0].type != T_A))
					violation("A query for ns. not answered with an address", inj_pkt, 0);
			} else if (!(v6 && !withn)) {
				violation("A query for ns. got no answer", inj_pkt, 0);
			}
			if (ask("WWW." TOPDOMAIN, T_A, v6, 0) == 1) {
				if (!cur.malformed && (parsed.an != 1 || parsed.rr[0].type != T_A))
					violation("A query for www. not answered with an address", inj_pkt, 0);
			} else {
				violation("A query for www. got no answer", inj_pkt, 0);
			}
		}
	}
	ns_ip = INADDR_ANY;
}

/* Queries that are not legal RFC 1035 messages themselves: whatever iodined
   sends because of them must still be well-formed. */
static void
scenario_badlabel(void)
{
	unsigned char w[600];
	int o, i;
	struct sd_name dom, other;

	sd_name_from_dotted(TOPDOMAIN, &dom);
	sd_name_from_dotted("other.example.org", &other);

	/* control: the harness works, a legal request is answered (and a legal
	   query outside the tunnel domain is forwarded) */
	open_session(T_NULL, 0);
	ask("www.example.org", T_A, 0, BINDFD);
	if (cur.forwards != 1) {
		fprintf(stderr, "harness: legal query was not forwarded\n");
		exit(2);
	}

	/* version request whose first "label" has length octet 70 (type bits 01) */
	o = 0;
	w[o++] = 70;
	w[o++] = 'v';
	for (i = 0; i < 69; i++)
		w[o++] = 'a';
	memcpy(w + o, dom.wire, dom.wirelen);
	ask_raw(w, o + dom.wirelen, T_NULL, 0,
		"NULL query, first label has length octet 70, under the tunnel domain");
	ask_raw(w, o + dom.wirelen, T_TXT, 0,
		"TXT query, first label has length octet 70, under the tunnel domain");
	ask_raw(w, o + dom.wirelen, T_NS, 0,
		"NS query, first label has length octet 70, under the tunnel domain");

	/* the same outside the tunnel domain, iodined started with -b */
	memcpy(w + o, other.wire, other.wirelen);
	ask_raw(w, o + other.wirelen, T_A, BINDFD,
		"A query, first label has length octet 70, outside the tunnel domain (-b)");

	/* a name of 5 labels of 63 bytes and the tunnel domain: 335 bytes on the
	   wire, every label legal, the name as a whole too long */
	o = 0;
	for (i = 0; i < 5; i++) {
		w[o++] = 63;
		memset(w + o, 'a' + i, 63);
		o += 63;
	}
	memcpy(w + o, dom.wire, dom.wirelen);
	ask_raw(w, o + dom.wirelen, T_A, BINDFD,
		"A query, name of 335 bytes (-b)");
	ask_raw(w, o + dom.wirelen, T_NS, BINDFD,
		"NS query, name of 335 bytes (-b)");
}

int
main(int argc, char **argv)
{
	if (argc < 2) {
		fprintf(stderr, "usage: %s sizes|aux|badlabel [-v]\n", argv[0]);
		return 2;
	}
	verbose = (argc > 2);

	topdomain = strdup(TOPDOMAIN);
	memset(password, 0, sizeof(password));
	strcpy(password, "secret");
	my_ip = inet_addr("10.9.8.1");
	netmask = 27;
	my_mtu = 1130;
	check_ip = 1;
	ns_ip = INADDR_ANY;
	bind_port = 5353;
	debug = 0;
	created_users = init_users(my_ip, netmask);
	fw_query_init();
	srand(1);

	if (!strcmp(argv[1], "sizes"))
		scenario_sizes();
	else if (!strcmp(argv[1], "aux"))
		scenario_aux();
	else if (!strcmp(argv[1], "badlabel"))
		scenario_badlabel();
	else
		return 2;

	fprintf(stderr, "%s: %d datagrams emitted, %d violations\n",
		argv[1], emitted_total, violations);
	if (emitted_total == 0)
		return 2;
	return violations ? 1 : 0;
}
