/*
 * strictdns.h - a small, strict, independent RFC 1035 message checker.
 *
 * It shares no code with iodine. strict_check() walks a whole datagram and
 * returns NULL when it is well-formed, or a static string saying what is wrong.
 *
 * What is checked:
 *  - 12 byte header, then exactly QDCOUNT questions and ANCOUNT+NSCOUNT+ARCOUNT
 *    resource records, and nothing behind them
 *  - names: labels of 1..63 bytes, expanded length at most 255 bytes, label
 *    types 01 and 10 refused, compression pointers point strictly backwards
 *    to an offset where a label (or pointer, or root) of an earlier name began
 *  - RDLENGTH fits in the datagram and, for the types iodine uses, equals the
 *    size of the data that is really there:
 *      A 4 bytes; NS/CNAME one name; MX 2+name; SRV 6+name;
 *      TXT one or more length-prefixed strings tiling RDATA exactly;
 *      OPT owner is the root, RDATA tiled by (code,len,data) options
 *
 * The parsed message is left in a struct sd_msg for further (echo) checks.
 */
#ifndef STRICTDNS_H
#define STRICTDNS_H

#include <stddef.h>

#define SD_MAXRR   300
#define SD_NAMEMAX 256

struct sd_name {
	unsigned char wire[SD_NAMEMAX];	/* expanded, uncompressed, incl. root */
	int wirelen;
};

struct sd_rr {
	struct sd_name owner;
	unsigned type;
	unsigned class;
	unsigned long ttl;
	unsigned rdlen;
	int rdoff;			/* offset of RDATA in the datagram */
	struct sd_name target;		/* NS, CNAME, MX, SRV */
	int has_target;
};

struct sd_msg {
	unsigned id;
	unsigned flags;
	unsigned qd, an, ns, ar;
	struct sd_name qname;
	unsigned qtype, qclass;
	int nrr;
	struct sd_rr rr[SD_MAXRR];
};

const char *strict_check(const unsigned char *m, size_t len, struct sd_msg *out);

/* dotted C string -> uncompressed wire name; returns length or -1 */
int sd_name_from_dotted(const char *dotted, struct sd_name *n);
int sd_name_equal(const struct sd_name *a, const struct sd_name *b);
void sd_name_print(const struct sd_name *n, char *out, size_t outlen);

#endif
