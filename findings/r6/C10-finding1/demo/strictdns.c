/* strictdns.c - see strictdns.h */
#include <stdio.h>
#include <string.h>
#include "strictdns.h"

#define T_A     1
#define T_NS    2
#define T_CNAME 5
#define T_MX    15
#define T_TXT   16
#define T_SRV   33
#define T_OPT   41

struct ctx {
	const unsigned char *m;
	size_t len;
	unsigned char boundary[65536];	/* 1 = a label/pointer/root began here */
};

static const char *
parse_name(struct ctx *c, size_t *off, struct sd_name *n)
{
	size_t pos = *off;
	size_t limit = *off;	/* pointers must point before the place they sit */
	int jumped = 0;
	int hops = 0;

	n->wirelen = 0;
	for (;;) {
		unsigned b;

		if (pos >= c->len)
			return "name runs past the end of the datagram";
		b = c->m[pos];

		if ((b & 0xc0) == 0xc0) {
			size_t target;

			if (pos + 1 >= c->len)
				return "compression pointer cut off";
			target = ((b & 0x3f) << 8) | c->m[pos + 1];
			if (!jumped) {
				c->boundary[pos] = 1;
				*off = pos + 2;
			}
			if (target >= limit || target >= pos)
				return "compression pointer does not point backwards";
			if (target < 12)
				return "compression pointer into the header";
			if (!c->boundary[target])
				return "compression pointer not to a label boundary";
			if (++hops > 64)
				return "too many compression pointers";
			limit = pos;	/* a further pointer must go further back */
			pos = target;
			jumped = 1;
			continue;
		}
		if (b & 0xc0)
			return "label type 01/10 (length byte 64..191)";

		if (b == 0) {
			if (n->wirelen + 1 > 255)
				return "name longer than 255 bytes";
			n->wire[n->wirelen++] = 0;
			if (!jumped) {
				c->boundary[pos] = 1;
				*off = pos + 1;
			}
			return NULL;
		}
		/* ordinary label, 1..63 */
		if (pos + 1 + b > c->len)
			return "label runs past the end of the datagram";
		if (n->wirelen + 1 + (int) b + 1 > 255)
			return "name longer than 255 bytes";
		if (!jumped)
			c->boundary[pos] = 1;
		memcpy(n->wire + n->wirelen, c->m + pos, 1 + b);
		n->wirelen += 1 + b;
		pos += 1 + b;
	}
}

static unsigned
get16(const unsigned char *p)
{
	return (p[0] << 8) | p[1];
}

static const char *
parse_rr(struct ctx *c, size_t *off, struct sd_rr *rr)
{
	const char *e;
	size_t rdend;
	size_t p;

	memset(rr, 0, sizeof(*rr));
	if ((e = parse_name(c, off, &rr->owner)) != NULL)
		return e;
	if (*off + 10 > c->len)
		return "record header cut off";
	rr->type = get16(c->m + *off);
	rr->class = get16(c->m + *off + 2);
	rr->ttl = ((unsigned long) get16(c->m + *off + 4) << 16) | get16(c->m + *off + 6);
	rr->rdlen = get16(c->m + *off + 8);
	*off += 10;
	rr->rdoff = (int) *off;
	rdend = *off + rr->rdlen;
	if (rdend > c->len)
		return "RDLENGTH runs past the end of the datagram";

	p = *off;
	switch (rr->type) {
	case T_A:
		if (rr->rdlen != 4)
			return "A record RDLENGTH is not 4";
		break;
	case T_NS:
	case T_CNAME:
	case T_MX:
	case T_SRV:
		if (rr->type == T_MX)
			p += 2;
		if (rr->type == T_SRV)
			p += 6;
		if (p > rdend)
			return "RDLENGTH too small for the fixed fields";
		if ((e = parse_name(c, &p, &rr->target)) != NULL)
			return e;
		rr->has_target = 1;
		if (p != rdend)
			return "RDLENGTH differs from the size of the record data";
		break;
	case T_TXT:
		if (rr->rdlen < 1)
			return "TXT record without a character-string";
		while (p < rdend) {
			unsigned l = c->m[p];
			if (p + 1 + l > rdend)
				return "TXT strings do not tile RDATA";
			p += 1 + l;
		}
		break;
	case T_OPT:
		if (rr->owner.wirelen != 1)
			return "OPT owner is not the root";
		while (p < rdend) {
			if (p + 4 > rdend)
				return "OPT options do not tile RDATA";
			p += 4 + get16(c->m + p + 2);
			if (p > rdend)
				return "OPT options do not tile RDATA";
		}
		break;
	default:
		break;		/* NULL, PRIVATE, ...: opaque */
	}
	*off = rdend;
	return NULL;
}

const char *
strict_check(const unsigned char *m, size_t len, struct sd_msg *out)
{
	static struct ctx c;	/* big */
	size_t off;
	const char *e;
	unsigned i, total;

	memset(out, 0, sizeof(*out));
	memset(&c, 0, sizeof(c));
	c.m = m;
	c.len = len;

	if (len > 65535)
		return "datagram longer than 65535";
	if (len < 12)
		return "shorter than a DNS header";
	out->id = get16(m);
	out->flags = get16(m + 2);
	out->qd = get16(m + 4);
	out->an = get16(m + 6);
	out->ns = get16(m + 8);
	out->ar = get16(m + 10);
	off = 12;

	if (out->qd != 1)
		return "QDCOUNT is not 1";
	if ((e = parse_name(&c, &off, &out->qname)) != NULL)
		return e;
	if (off + 4 > len)
		return "question cut off";
	out->qtype = get16(m + off);
	out->qclass = get16(m + off + 2);
	off += 4;

	total = out->an + out->ns + out->ar;
	if (total > SD_MAXRR)
		return "too many records for this checker";
	for (i = 0; i < total; i++) {
		if (off >= len)
			return "section counts announce more records than are present";
		if ((e = parse_rr(&c, &off, &out->rr[i])) != NULL)
			return e;
		out->nrr++;
	}
	if (off != len)
		return "bytes left over behind the last announced record";
	return NULL;
}

int
sd_name_from_dotted(const char *dotted, struct sd_name *n)
{
	const char *s = dotted;

	n->wirelen = 0;
	while (*s) {
		const char *dot = strchr(s, '.');
		size_t l = dot ? (size_t) (dot - s) : strlen(s);

		if (l < 1 || l > 63 || n->wirelen + 1 + (int) l + 1 > 255)
			return -1;
		n->wire[n->wirelen++] = (unsigned char) l;
		memcpy(n->wire + n->wirelen, s, l);
		n->wirelen += (int) l;
		s += l;
		if (*s == '.')
			s++;
	}
	n->wire[n->wirelen++] = 0;
	return n->wirelen;
}

int
sd_name_equal(const struct sd_name *a, const struct sd_name *b)
{
	return a->wirelen == b->wirelen && !memcmp(a->wire, b->wire, a->wirelen);
}

void
sd_name_print(const struct sd_name *n, char *out, size_t outlen)
{
	int i = 0;
	size_t o = 0;

	out[0] = 0;
	while (i < n->wirelen && n->wire[i]) {
		int l = n->wire[i++];
		int k;
		for (k = 0; k < l && o + 5 < outlen; k++, i++) {
			unsigned char ch = n->wire[i];
			if (ch > 32 && ch < 127 && ch != '\\')
				out[o++] = ch;
			else
				o += snprintf(out + o, outlen - o, "\\%03u", ch);
		}
		if (o + 2 < outlen)
			out[o++] = '.';
	}
	if (o == 0 && outlen > 1)
		out[o++] = '.';
	out[o] = 0;
}
