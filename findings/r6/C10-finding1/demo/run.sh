#!/bin/sh
# usage: run.sh <source tree root>
# exit 0: property C10 holds for the demonstrated case, 1: violated,
#      2: build or harness trouble
SCENARIO=${SCENARIO:-badlabel}

TREE=$1
if [ -z "$TREE" ] || [ ! -f "$TREE/src/iodined.c" ]; then
	echo "usage: $0 <source tree root>" >&2
	exit 2
fi
TREE=$(cd "$TREE" && pwd) || exit 2
HERE=$(cd "$(dirname "$0")" && pwd) || exit 2

TMP=$(mktemp -d) || exit 2
trap 'rm -rf "$TMP"' EXIT INT TERM

SRC="$TREE/src"
# base64u.c is generated from base64.c, exactly as src/Makefile does it
{
	echo '/* generated */'
	sed -e 's/\([Bb][Aa][Ss][Ee]64\)/\1u/g ; s/0123456789+/0123456789_/' < "$SRC/base64.c"
} > "$TMP/base64u.c" || exit 2

CFLAGS="-std=c99 -O0 -g -w -D_GNU_SOURCE -DLINUX -DGITREVISION=\"demo\" -I$SRC -I$HERE"

${CC:-cc} $CFLAGS -o "$TMP/harness" \
	"$HERE/harness.c" "$HERE/strictdns.c" \
	"$SRC/dns.c" "$SRC/read.c" "$SRC/encoding.c" "$SRC/login.c" \
	"$SRC/base32.c" "$SRC/base64.c" "$TMP/base64u.c" "$SRC/base128.c" \
	"$SRC/md5.c" "$SRC/common.c" "$SRC/tun.c" "$SRC/user.c" "$SRC/fw_query.c" \
	-Wl,--wrap=recvmsg -Wl,--wrap=sendto -lz > "$TMP/build.log" 2>&1
if [ $? -ne 0 ]; then
	cat "$TMP/build.log" >&2
	echo "build failed" >&2
	exit 2
fi

"$TMP/harness" "$SCENARIO"
rc=$?
case $rc in
0)	echo "C10 holds for scenario '$SCENARIO'"; exit 0 ;;
1)	echo "C10 VIOLATED in scenario '$SCENARIO'"; exit 1 ;;
*)	echo "harness trouble (exit $rc)" >&2; exit 2 ;;
esac
