/* The real server, with its main() renamed so that the harness can set the
   few globals main() would set and then call the real tunnel() loop. */
#define main iodined_main
#include "iodined.c"
#undef main

void srv_setup(const char *td, const char *pw, int checkip, int mtu,
	       const char *ip, int netbits);
int srv_run(int tun_fd, int v4fd);

void
srv_setup(const char *td, const char *pw, int checkip, int mtu,
	  const char *ip, int netbits)
{
	topdomain = strdup(td);
	memset(password, 0, sizeof(password));
	strncpy(password, pw, sizeof(password) - 1);
	check_ip = checkip;
	my_mtu = mtu;
	my_ip = inet_addr(ip);
	netmask = netbits;
	ns_ip = INADDR_ANY;
	debug = getenv("SIM_SRVDEBUG") ? atoi(getenv("SIM_SRVDEBUG")) : 0;
	running = 1;
	fw_query_init();
	created_users = init_users(my_ip, netmask);
}

int
srv_run(int tun_fd, int v4fd)
{
	struct dnsfd fds;

	fds.v4fd = v4fd;
	fds.v6fd = -1;
	return tunnel(tun_fd, &fds, 0, 0);
}
