/* Demonstration for property C02 (recovery after network trouble), raw mode.
 *
 * Real client and real server with default settings; the client reaches the
 * server directly, so the handshake ends in raw UDP mode (iodine's default).
 * The session is idle except for one packet from the server to the client.
 * 14 s after that packet, the path loses every datagram in both directions
 * for 35 s. Then it is clean again. 70 s later three packets are offered on
 * each side.
 * Verdict: the client must still be running and all six packets must be
 * written to the peer's tun exactly once, intact and in order.
 */
#include <stdio.h>
#include <stdlib.h>
#include <string.h>
#include "sim.h"

static int64_t fault_from = -1, fault_to = -1;
static int64_t last_ping = -1;

static int
fault(int dir, int64_t now, const unsigned char *data, int len,
      int64_t *delay, int maxcopies)
{
	if (dir == DIR_UP && len == 4)
		last_ping = now;	/* a raw-mode ping is just the 4-byte header */
	if (fault_from >= 0 && now >= fault_from && now < fault_to)
		return 0;
	delay[0] = 2 * MS;
	return 1;
}

static int
check(int side, const char *who, uint32_t first, int count, int64_t from)
{
	const struct sim_delivery *d;
	int n = sim_deliveries(side, &d);
	int i, next = 0, bad = 0;
	int seen[16];

	memset(seen, 0, sizeof(seen));
	for (i = 0; i < n; i++) {
		if (d[i].when < from)
			continue;
		if (d[i].id < first || d[i].id >= first + count) {
			printf("  %s: unexpected packet %u\n", who, d[i].id);
			bad = 1;
			continue;
		}
		if (!d[i].intact || seen[d[i].id - first]++ ||
		    (int) (d[i].id - first) < next) {
			printf("  %s: packet %u damaged, repeated or out of order\n",
			       who, d[i].id);
			bad = 1;
		}
		next = d[i].id - first + 1;
	}
	for (i = 0; i < count; i++)
		if (!seen[i]) {
			printf("  %s: packet %u never arrived\n", who, first + i);
			bad = 1;
		}
	return bad;
}

int
main(int argc, char **argv)
{
	struct sim_config c;
	const struct sim_delivery *d;
	int64_t p, t2;
	int i, bad;

	if (argc > 1)
		sim_verbose = atoi(argv[1]);

	sim_default_config(&c);
	c.raw_mode = 1;
	sim_set_fault(fault);
	if (sim_start(&c)) {
		printf("harness trouble: handshake failed\n");
		return 2;
	}
	if (!sim_client_is_raw()) {
		printf("harness trouble: client is not in raw mode\n");
		return 2;
	}

	/* idle until the second keepalive ping has been exchanged */
	sim_run_until(sim_now() + 20 * SEC);
	if (last_ping < 0) {
		printf("harness trouble: no keepalive seen\n");
		return 2;
	}
	p = last_ping;
	/* one packet towards the client, 7 s after that ping */
	sim_offer(SIDE_SERVER, p + 7 * SEC, 50, 200, 0);
	sim_run_until(p + 8 * SEC);
	if (sim_deliveries(SIDE_CLIENT, &d) != 1) {
		printf("harness trouble: packet did not pass\n");
		return 2;
	}

	fault_from = p + 21 * SEC;
	fault_to = fault_from + 35 * SEC;
	sim_run_until(fault_to);
	printf("a keepalive was answered at %.1f s, outage from %.1f s to %.1f s\n",
	       p / 1e6, fault_from / 1e6, fault_to / 1e6);

	sim_run_until(fault_to + 70 * SEC);
	t2 = sim_now();
	for (i = 0; i < 3; i++) {
		sim_offer(SIDE_CLIENT, t2 + 2 * i * SEC, 1000 + i, 300, 0);
		sim_offer(SIDE_SERVER, t2 + 2 * i * SEC + SEC, 2000 + i, 300, 0);
	}
	sim_run_until(t2 + 20 * SEC);

	bad = 0;
	if (!sim_client_alive()) {
		printf("  client has stopped\n");
		bad = 1;
	}
	bad |= check(SIDE_SERVER, "client->server", 1000, 3, t2);
	bad |= check(SIDE_CLIENT, "server->client", 2000, 3, t2);
	printf(bad ? "PROPERTY VIOLATED\n" : "property holds for this case\n");
	return bad ? 1 : 0;
}
