#!/bin/sh
# usage: build.sh <tree> <outdir> <scenario.c> -> <outdir>/demo
# Compiles the project's own sources (except tun.c and iodine.c) plus harness.
set -e
TREE=$1; OUT=$2; SCEN=$3
HERE=$(cd "$(dirname "$0")" && pwd)
SRC=$TREE/src
CC=${CC:-cc}
CF="-std=gnu99 -O1 -g -w -U_FORTIFY_SOURCE -D_GNU_SOURCE -DLINUX -DGITREVISION=\"sim\" -I$SRC -I$HERE"
{ echo '/* generated as src/Makefile does */';
  sed -e 's/\([Bb][Aa][Ss][Ee]64\)/\1u/g ; s/0123456789+/0123456789_/' < $SRC/base64.c; } > $OUT/base64u.c
OBJS=""
for f in dns read encoding login base32 base64 base128 md5 common util client user fw_query; do
	$CC $CF -c $SRC/$f.c -o $OUT/$f.o
	OBJS="$OBJS $OUT/$f.o"
done
$CC $CF -c $OUT/base64u.c -o $OUT/base64u.o
$CC $CF -c $HERE/srv.c -o $OUT/srv.o
$CC $CF -c $HERE/sim.c -o $OUT/sim.o
$CC $CF -c $SCEN -o $OUT/scenario.o
$CC -o $OUT/demo $OUT/scenario.o $OUT/sim.o $OUT/srv.o $OUT/base64u.o $OBJS -lz \
	-Wl,--wrap=select,--wrap=sendto,--wrap=recvfrom,--wrap=recvmsg,--wrap=recv,--wrap=time,--wrap=sleep
