/*
 * End-to-end harness: the real iodine client (client.c: handshake and
 * client_tunnel() loop) and the real iodined request handling (iodined.c) in
 * one process, joined by a simulated network with virtual time.
 *
 * The client runs at top level. Its select()/sendto()/recvfrom()/time() are
 * redirected here (ld --wrap); whenever the client waits in select(), the
 * datagrams it has sent are handed to the server code, whose answers are
 * queued for the client. The scenario decides which datagrams are lost or
 * duplicated and which packets appear on the two tun devices, and when.
 *
 * Check (property C01): every packet written to a tun device must be
 * byte-identical to a packet read earlier from the tun device of the peer.
 *
 * exit 0: holds, 1: violated, 2: harness trouble
 */
#include <stdio.h>
#include <stdlib.h>
#include <string.h>
#include <stdint.h>
#include <unistd.h>
#include <time.h>
#include <sys/types.h>
#include <sys/time.h>
#include <sys/select.h>
#include <sys/socket.h>
#include <netinet/in.h>
#include <arpa/inet.h>
#include <zlib.h>

#include "scenario.h"

/* from client.c / client.h */
void client_init(void);
void client_stop(void);
void client_set_nameserver(struct sockaddr_storage *, int);
void client_set_topdomain(const char *cp);
void client_set_password(const char *cp);
int client_set_qtype(char *qtype);
void client_set_downenc(char *encoding);
void client_set_selecttimeout(int select_timeout);
void client_set_lazymode(int lazy_mode);
void client_set_hostname_maxlen(int i);
int client_handshake(int dns_fd, int raw_mode, int autodetect_frag_size, int fragsize);
int client_tunnel(int tun_fd, int dns_fd);
/* cl_wrap.c, sv_wrap.c */
int cl_fragcap(void);
int cl_is_sending(void);
int cl_out_seqno(void);
const char *cl_upcodec(void);
void sv_setup(const char *td, const char *pw);
void sv_dns(int tun_fd, int dns_fd);
void sv_tun(int tun_fd, int dns_fd);
void sv_realsoon(int dns_fd);
int sv_in_seqno(int), sv_in_fragment(int), sv_in_len(int);

#define CL_DNS 100
#define CL_TUN 101
#define SV_DNS 200
#define SV_TUN 201

static int verbose;

/* ---------- virtual time ---------- */

static long long now_us = 1000000000LL * 1000000LL / 1000;	/* arbitrary epoch */
static long long t0_us;		/* start of the tunnel phase */

long long h_now_ms(void)	/* since start of tunnel phase; -1 during handshake */
{
	if (!t0_us)
		return -1;
	return (now_us - t0_us) / 1000;
}

time_t __wrap_time(time_t *t)
{
	time_t v = (time_t) (now_us / 1000000);
	if (t)
		*t = v;
	return v;
}

unsigned int __wrap_sleep(unsigned int s)
{
	now_us += 1000000LL * s;
	return 0;
}

/* ---------- datagram queues ---------- */

struct dgram {
	int len;
	unsigned char data[5000];
};

#define QLEN 256
struct dq {
	struct dgram d[QLEN];
	int head, n;
};

static struct dq c2s, s2c;
static int side;		/* 0 = client code is running, 1 = server */
static struct dgram *sv_current;

static void dq_push(struct dq *q, const void *data, int len)
{
	struct dgram *d;

	if (q->n >= QLEN || len > (int) sizeof(d->data)) {
		fprintf(stderr, "harness: queue overflow\n");
		exit(2);
	}
	d = &q->d[(q->head + q->n) % QLEN];
	memcpy(d->data, data, len);
	d->len = len;
	q->n++;
}

static struct dgram *dq_pop(struct dq *q)
{
	struct dgram *d;

	if (q->n == 0)
		return NULL;
	d = &q->d[q->head];
	q->head = (q->head + 1) % QLEN;
	q->n--;
	return d;
}

const char *h_qname(const unsigned char *dg, int len, char *out)
/* first label of the question, for the scenario's filters */
{
	int l;

	out[0] = 0;
	if (len < 14)
		return out;
	l = dg[12];
	if (l > 63 || 13 + l > len)
		return out;
	memcpy(out, dg + 13, l);
	out[l] = 0;
	return out;
}

ssize_t __wrap_sendto(int fd, const void *buf, size_t len, int flags,
		      const struct sockaddr *to, socklen_t tolen)
{
	int act;

	(void) fd; (void) flags; (void) to; (void) tolen;
	if (side == 0) {
		act = scen_c2s(buf, (int) len);
		if (verbose) {
			char nm[70];
			h_qname(buf, (int) len, nm);
			fprintf(stderr, "[%7lld] c->s %4d bytes %.12s%s\n", h_now_ms(),
				(int) len, nm, act == NET_DROP ? "  LOST" : "");
		}
		if (act != NET_DROP)
			dq_push(&c2s, buf, (int) len);
		if (act == NET_DUP)
			dq_push(&c2s, buf, (int) len);
	} else {
		act = scen_s2c(buf, (int) len);
		if (verbose)
			fprintf(stderr, "[%7lld] s->c %4d bytes%s%s\n", h_now_ms(), (int) len,
				act == NET_DROP ? "  LOST" : "", act == NET_DUP ? "  DUPLICATED" : "");
		if (act != NET_DROP)
			dq_push(&s2c, buf, (int) len);
		if (act == NET_DUP)
			dq_push(&s2c, buf, (int) len);
	}
	return (ssize_t) len;
}

static void fill_addr(struct sockaddr_in *a, const char *ip, int port)
{
	memset(a, 0, sizeof(*a));
	a->sin_family = AF_INET;
	a->sin_addr.s_addr = inet_addr(ip);
	a->sin_port = htons(port);
}

ssize_t __wrap_recvfrom(int fd, void *buf, size_t len, int flags,
			struct sockaddr *from, socklen_t *fromlen)
{
	struct dgram *d;
	struct sockaddr_in a;

	(void) fd; (void) flags;
	d = dq_pop(&s2c);
	if (!d) {
		fprintf(stderr, "harness: recvfrom on empty queue\n");
		exit(2);
	}
	if ((size_t) d->len < len)
		len = d->len;
	memcpy(buf, d->data, len);
	fill_addr(&a, "192.0.2.53", 53);
	if (from && fromlen) {
		memcpy(from, &a, sizeof(a));
		*fromlen = sizeof(a);
	}
	return (ssize_t) len;
}

ssize_t __wrap_recv(int fd, void *buf, size_t len, int flags)
{
	return __wrap_recvfrom(fd, buf, len, flags, NULL, NULL);
}

ssize_t __wrap_recvmsg(int fd, struct msghdr *msg, int flags)
{
	struct sockaddr_in a;
	size_t len;

	(void) fd; (void) flags;
	if (!sv_current) {
		fprintf(stderr, "harness: recvmsg without datagram\n");
		exit(2);
	}
	len = sv_current->len;
	if (len > msg->msg_iov[0].iov_len)
		len = msg->msg_iov[0].iov_len;
	memcpy(msg->msg_iov[0].iov_base, sv_current->data, len);
	fill_addr(&a, "192.0.2.1", 40000);
	memcpy(msg->msg_name, &a, sizeof(a));
	msg->msg_namelen = sizeof(a);
	msg->msg_controllen = 0;
	sv_current = NULL;
	return (ssize_t) len;
}

/* ---------- tun devices ---------- */

#define MAXPK 64
struct pk {
	int len;
	unsigned char data[4096];
	long long due_ms;	/* offered from this time on (for queues) */
};

static struct pk cl_tunq[MAXPK], sv_tunq[MAXPK];
static int cl_tunq_n, cl_tunq_next, sv_tunq_n, sv_tunq_next;
static struct pk cl_offered[MAXPK], sv_offered[MAXPK];	/* actually read */
static int cl_offered_n, sv_offered_n;
static struct pk cl_written[MAXPK], sv_written[MAXPK];
static int cl_written_n, sv_written_n;

void h_offer(int to_client_tun, long long at_ms, const unsigned char *data, int len)
{
	struct pk *p;

	if (to_client_tun)
		p = &cl_tunq[cl_tunq_n++];
	else
		p = &sv_tunq[sv_tunq_n++];
	memcpy(p->data, data, len);
	p->len = len;
	p->due_ms = at_ms;
}

ssize_t read_tun(int fd, char *buf, size_t len)
{
	struct pk *p, *o;

	if (fd == CL_TUN) {
		p = &cl_tunq[cl_tunq_next++];
		o = &cl_offered[cl_offered_n++];
	} else {
		p = &sv_tunq[sv_tunq_next++];
		o = &sv_offered[sv_offered_n++];
	}
	if ((size_t) p->len < len)
		len = p->len;
	memcpy(buf, p->data, len);
	*o = *p;
	o->len = (int) len;
	if (verbose)
		fprintf(stderr, "[%7lld] %s read_tun  %d bytes\n", h_now_ms(),
			fd == CL_TUN ? "client" : "server", (int) len);
	return (ssize_t) len;
}

int write_tun(int fd, char *data, size_t len)
{
	struct pk *p;

	if (len > sizeof(p->data)) {
		fprintf(stderr, "harness: huge packet written\n");
		exit(2);
	}
	if (fd == CL_TUN)
		p = &cl_written[cl_written_n++];
	else
		p = &sv_written[sv_written_n++];
	memcpy(p->data, data, len);
	p->len = (int) len;
	if (verbose)
		fprintf(stderr, "[%7lld] %s write_tun %d bytes\n", h_now_ms(),
			fd == CL_TUN ? "client" : "server", (int) len);
	return 0;
}

int open_tun(const char *d)			{ (void) d; return -1; }
void close_tun(int fd)				{ (void) fd; }
int tun_setip(const char *a, const char *b, int c) { (void) a; (void) b; (void) c; return 0; }
int tun_setmtu(const unsigned m)		{ (void) m; return 0; }

/* ---------- the network and the server, run while the client waits ---------- */

static void pump(void)
{
	struct dgram *d;
	int did;

	do {
		did = 0;
		while ((d = dq_pop(&c2s)) != NULL) {
			sv_current = d;
			side = 1;
			sv_dns(SV_TUN, SV_DNS);
			side = 0;
			did = 1;
		}
		if (t0_us && sv_tunq_next < sv_tunq_n &&
		    sv_tunq[sv_tunq_next].due_ms <= h_now_ms()) {
			side = 1;
			sv_tun(SV_TUN, SV_DNS);
			side = 0;
			did = 1;
		}
		if (did) {
			side = 1;
			sv_realsoon(SV_DNS);
			side = 0;
		}
	} while (did);
}

static long long next_event_ms(void)
{
	long long e = scen_end_ms();

	if (cl_tunq_next < cl_tunq_n && cl_tunq[cl_tunq_next].due_ms < e)
		e = cl_tunq[cl_tunq_next].due_ms;
	if (sv_tunq_next < sv_tunq_n && sv_tunq[sv_tunq_next].due_ms < e)
		e = sv_tunq[sv_tunq_next].due_ms;
	return e;
}

int __wrap_select(int n, fd_set *rfds, fd_set *wfds, fd_set *efds, struct timeval *tv)
{
	long long deadline = now_us + tv->tv_sec * 1000000LL + tv->tv_usec;
	int want_dns = FD_ISSET(CL_DNS, rfds);
	int want_tun = FD_ISSET(CL_TUN, rfds);
	int r;

	(void) n; (void) wfds; (void) efds;
	for (;;) {
		if (t0_us && h_now_ms() >= scen_end_ms())
			client_stop();
		pump();
		r = 0;
		FD_ZERO(rfds);
		if (want_tun && t0_us && cl_tunq_next < cl_tunq_n &&
		    cl_tunq[cl_tunq_next].due_ms <= h_now_ms()) {
			FD_SET(CL_TUN, rfds);
			r++;
		}
		if (want_dns && s2c.n > 0) {
			FD_SET(CL_DNS, rfds);
			r++;
		}
		if (r) {
			now_us += 1000;		/* processing takes a moment */
			return r;
		}
		if (now_us >= deadline)
			return 0;
		/* sleep until the timeout or the next scheduled event */
		if (t0_us && t0_us + next_event_ms() * 1000 > now_us &&
		    t0_us + next_event_ms() * 1000 < deadline)
			now_us = t0_us + next_event_ms() * 1000;
		else
			now_us = deadline;
	}
}

/* ---------- helpers for scenarios ---------- */

static uint32_t rng = 0x2545F491;

unsigned h_rand(void)
{
	rng ^= rng << 13;
	rng ^= rng >> 17;
	rng ^= rng << 5;
	return rng;
}

void h_random_packet(unsigned char *p, int n, int to_client)
/* tun frame: 4 bytes header, IPv4 header with the tunnel addresses, and
   incompressible payload */
{
	int i;

	for (i = 0; i < n; i++)
		p[i] = 40 + h_rand() % 160;
	p[0] = 0; p[1] = 0; p[2] = 8; p[3] = 0;
	if (n >= 24) {
		p[4] = 0x45;
		/* source, destination */
		p[16] = 10; p[17] = 0; p[18] = 0; p[19] = to_client ? 1 : 2;
		p[20] = 10; p[21] = 0; p[22] = 0; p[23] = to_client ? 2 : 1;
	}
}

int h_stored(const unsigned char *p, int n, unsigned char *hdr7)
/* Does compress2(level 9) keep this packet as one stored block?
   Then the compressed form is: 2 bytes zlib header, 5 bytes block header
   (both returned in hdr7), the n bytes themselves, 4 bytes Adler-32. */
{
	unsigned char out[8192];
	unsigned long outlen = sizeof(out);

	if (compress2(out, &outlen, p, n, 9) != Z_OK)
		return 0;
	if (outlen != (unsigned long) n + 11 || out[2] != 0x01 ||
	    memcmp(out + 7, p, n) != 0)
		return 0;
	memcpy(hdr7, out, 7);
	return 1;
}

void h_put_adler(unsigned char *at, uint32_t a)
{
	at[0] = a >> 24; at[1] = a >> 16; at[2] = a >> 8; at[3] = a;
}

/* ---------- main ---------- */

static char cl_password[33] = "secret";	/* zero padded, as in iodine.c */

static int known(struct pk *w, struct pk *set, int n)
{
	int i;

	for (i = 0; i < n; i++)
		if (set[i].len == w->len && !memcmp(set[i].data, w->data, w->len))
			return 1;
	return 0;
}

int h_sv_written_n(void)	{ return sv_written_n; }
int h_cl_written_n(void)	{ return cl_written_n; }

int main(int argc, char **argv)
{
	struct sockaddr_storage ns;
	int i, bad = 0, fragsize;

	if (argc > 1 && !strcmp(argv[1], "-v"))
		verbose = 1;

	srand(12345);
	sv_setup("t.example.org", "secret");

	client_init();
	memset(&ns, 0, sizeof(ns));
	fill_addr((struct sockaddr_in *) &ns, "192.0.2.53", 53);
	client_set_nameserver(&ns, sizeof(struct sockaddr_in));
	client_set_topdomain("t.example.org");
	client_set_password(cl_password);
	fragsize = scen_configure();	/* calls client_set_* for its options */

	if (client_handshake(CL_DNS, 0, 0, fragsize) != 0) {
		fprintf(stderr, "harness: handshake failed\n");
		return 2;
	}
	fprintf(stderr, "harness: handshake done, upstream codec %s, %d bytes per query\n",
		cl_upcodec(), cl_fragcap());

	if (scen_prepare() != 0) {
		fprintf(stderr, "harness: could not prepare the packets\n");
		return 2;
	}
	t0_us = now_us;
	client_tunnel(CL_TUN, CL_DNS);

	if (scen_sanity() != 0) {
		fprintf(stderr, "harness: scenario did not run as intended\n");
		return 2;
	}

	for (i = 0; i < sv_written_n; i++)
		if (!known(&sv_written[i], cl_offered, cl_offered_n)) {
			printf("VIOLATION: server wrote a %d-byte packet to its tun device that "
			       "no client ever read from its tun device\n", sv_written[i].len);
			bad = 1;
		}
	for (i = 0; i < cl_written_n; i++)
		if (!known(&cl_written[i], sv_offered, sv_offered_n)) {
			printf("VIOLATION: client wrote a %d-byte packet to its tun device that "
			       "the server never read from its tun device\n", cl_written[i].len);
			bad = 1;
		}
	printf("client tun: %d read, %d written; server tun: %d read, %d written\n",
	       cl_offered_n, cl_written_n, sv_offered_n, sv_written_n);
	if (!bad)
		printf("OK: every packet written to a tun device was read from the peer's\n");
	return bad;
}
