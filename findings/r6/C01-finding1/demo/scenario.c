/*
 * Scenario (upstream, unchanged tree): sequence numbers have 3 bits.
 *
 *  1. Packet P (seqno 2, two fragments): its first fragment reaches the
 *     server, all answers are lost for a while, the client gives P up after
 *     three retransmissions. The server keeps (seqno 2, fragment 0, data).
 *  2. Seven small packets (seqnos 3,4,5,6,7,0,1): every query carrying data
 *     is lost, pings and all answers get through. The client gives each of
 *     them up; the server never hears of them.
 *  3. Packet Q (seqno 2 again, two fragments), no loss at all. Its first
 *     fragment looks like a repetition of P's to the server (same seqno,
 *     fragment 0): dropped, but acknowledged as "2/0". The client takes this
 *     for the acknowledgement of Q's first fragment and sends the second,
 *     which the server appends to the first fragment of P.
 *
 * P and Q are incompressible (compress2() stores them verbatim) and their
 * first parts differ by +1,-2,+1 in three neighbouring bytes, which Adler-32
 * cannot see. So zlib accepts "start of P + end of Q" and the server writes a
 * packet to its tun device that no client ever sent.
 */
#include <stdio.h>
#include <string.h>
#include <zlib.h>
#include "scenario.h"

#define T_K	1000
#define T_P	3000
#define T_HEAL	9500
#define T_F1	12000
#define F_STEP	6000
#define T_Q	56000
#define T_END	62000

static int started;
static int held_seq = -1, held_frag = -1, held_len = -1;

int scen_configure(void)
{
	client_set_qtype("NULL");
	client_set_selecttimeout(4);
	client_set_lazymode(1);
	client_set_hostname_maxlen(255);
	return 1000;
}

int scen_prepare(void)
{
	unsigned char k[60], f[60], p[4000], q[4000], hdr[7];
	int c = cl_fragcap();
	int n = c + c / 2;	/* two fragments */
	int i;

	if (c < 60 || n + 11 > 2 * c)
		return -1;

	h_random_packet(k, sizeof(k), 0);
	h_random_packet(q, n, 0);
	memcpy(p, q, n);
	p[40] += 1; p[41] -= 2; p[42] += 1;	/* within the first fragment */
	for (i = c; i < n; i++)			/* P ends differently */
		p[i] = 40 + h_rand() % 160;
	if (!h_stored(p, n, hdr) || !h_stored(q, n, hdr))
		return -1;

	h_offer(1, T_K, k, sizeof(k));
	h_offer(1, T_P, p, n);
	for (i = 0; i < 7; i++) {
		h_random_packet(f, sizeof(f), 0);
		h_offer(1, T_F1 + i * F_STEP, f, sizeof(f));
	}
	h_offer(1, T_Q, q, n);
	started = 1;
	return 0;
}

int scen_c2s(const void *dgram, int len)
{
	char name[70];

	if (!started)
		return NET_PASS;	/* handshake */
	if (h_now_ms() >= T_Q && held_seq < 0) {
		/* what the server holds when Q sets out */
		held_seq = sv_in_seqno(0);
		held_frag = sv_in_fragment(0);
		held_len = sv_in_len(0);
	}
	h_qname(dgram, len, name);
	/* user 0: data queries start with '0', pings with 'p' */
	if (h_now_ms() >= T_F1 - 1000 && h_now_ms() < T_Q - 1000 && name[0] == '0')
		return NET_DROP;
	return NET_PASS;
}

int scen_s2c(const void *dgram, int len)
{
	(void) dgram; (void) len;
	if (h_now_ms() >= T_P && h_now_ms() < T_HEAL)
		return NET_DROP;
	return NET_PASS;
}

long long scen_end_ms(void)
{
	return T_END;
}

int scen_sanity(void)
{
	fprintf(stderr, "when Q set out the server held seqno %d fragment %d, %d bytes; "
		"client's seqno for Q is %d\n", held_seq, held_frag, held_len, cl_out_seqno());
	if (cl_out_seqno() != 2 || held_seq != 2 || held_frag != 0 || held_len <= 0)
		return -1;
	return h_sv_written_n() >= 1 ? 0 : -1;
}
