#!/bin/sh
# usage: run.sh <iodine source tree root>
# exit 0: property holds in the demonstrated case, 1: violated, 2: trouble
TREE=${1:?usage: run.sh <source tree root>}
SRC=$(cd "$TREE/src" 2>/dev/null && pwd) || { echo "no $TREE/src" >&2; exit 2; }
HERE=$(cd "$(dirname "$0")" && pwd)
TMP=$(mktemp -d) || exit 2
trap 'rm -rf "$TMP"' EXIT

{
	echo '/* generated as in src/Makefile */'
	sed -e 's/\([Bb][Aa][Ss][Ee]64\)/\1u/g ; s/0123456789+/0123456789_/' "$SRC/base64.c"
} > "$TMP/base64u.c" || exit 2

WRAP="-Wl,--wrap=time -Wl,--wrap=sleep -Wl,--wrap=select -Wl,--wrap=sendto"
WRAP="$WRAP -Wl,--wrap=recvfrom -Wl,--wrap=recv -Wl,--wrap=recvmsg"

${CC:-gcc} -std=gnu99 -O1 -g -w -U_FORTIFY_SOURCE -D_GNU_SOURCE -DLINUX -DGITREVISION='"demo"' \
	-I"$SRC" -I"$HERE" \
	"$HERE/harness.c" "$HERE/scenario.c" "$HERE/cl_wrap.c" "$HERE/sv_wrap.c" \
	"$SRC/dns.c" "$SRC/read.c" "$SRC/encoding.c" "$SRC/login.c" "$SRC/md5.c" \
	"$SRC/base32.c" "$SRC/base64.c" "$TMP/base64u.c" "$SRC/base128.c" \
	"$SRC/common.c" "$SRC/user.c" "$SRC/fw_query.c" \
	$WRAP -lz -o "$TMP/demo" > "$TMP/build.log" 2>&1 || {
		cat "$TMP/build.log" >&2; echo "build failed" >&2; exit 2; }

# DEMO_VERBOSE=1 shows every datagram and tun operation
if [ -n "$DEMO_VERBOSE" ]; then
	"$TMP/demo" -v
else
	"$TMP/demo" 2> "$TMP/stderr.log"
fi
rc=$?
if [ $rc -ne 0 ] && [ $rc -ne 1 ]; then
	[ -f "$TMP/stderr.log" ] && cat "$TMP/stderr.log" >&2
	exit 2
fi
exit $rc
