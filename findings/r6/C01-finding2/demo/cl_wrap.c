/* The real client, unchanged, plus a few accessors to its static state. */
#include "client.c"

int cl_fragcap(void)
/* bytes of a packet that fit in one upstream query, computed exactly as
   send_chunk() does */
{
	static char dummy[4000];
	char buf[4096];

	return build_hostname(buf + 5, sizeof(buf) - 5, dummy, sizeof(dummy),
			      topdomain, dataenc, hostname_maxlen);
}

int cl_is_sending(void)
{
	return is_sending();
}

int cl_out_seqno(void)
{
	return outpkt.seqno & 7;
}

const char *cl_upcodec(void)
{
	return dataenc->name;
}
