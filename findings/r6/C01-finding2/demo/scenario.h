#ifndef SCENARIO_H
#define SCENARIO_H
#include <stdint.h>

#define NET_PASS 0
#define NET_DROP 1
#define NET_DUP  2

/* provided by the scenario */
int scen_configure(void);	/* set client options; returns -m fragsize */
int scen_prepare(void);		/* after handshake: build and schedule packets */
int scen_c2s(const void *dgram, int len);	/* fate of a query */
int scen_s2c(const void *dgram, int len);	/* fate of an answer */
long long scen_end_ms(void);
int scen_sanity(void);		/* 0 = the scenario ran as intended */

/* provided by the harness */
long long h_now_ms(void);
void h_offer(int to_client_tun, long long at_ms, const unsigned char *data, int len);
unsigned h_rand(void);
void h_random_packet(unsigned char *p, int n, int to_client);
int h_stored(const unsigned char *p, int n, unsigned char *hdr7);
void h_put_adler(unsigned char *at, uint32_t a);
const char *h_qname(const unsigned char *dg, int len, char *out);
int h_sv_written_n(void);
int h_cl_written_n(void);

int cl_fragcap(void);
int cl_is_sending(void);
int cl_out_seqno(void);
int sv_in_seqno(int), sv_in_fragment(int), sv_in_len(int);

void client_set_selecttimeout(int select_timeout);
void client_set_lazymode(int lazy_mode);
void client_set_hostname_maxlen(int i);
int client_set_qtype(char *qtype);
void client_set_downenc(char *encoding);
#endif
