/* The real server, unchanged (its main() renamed), plus set-up and the
   part of its select loop that a single-threaded harness has to drive. */
#define main iodined_main
#include "iodined.c"
#undef main

void sv_setup(const char *td, const char *pw)
{
	topdomain = strdup(td);
	memset(password, 0, sizeof(password));
	strncpy(password, pw, sizeof(password) - 1);
	my_ip = inet_addr("10.0.0.1");
	netmask = 27;
	my_mtu = 1130;
	ns_ip = INADDR_ANY;
	check_ip = 1;
	debug = 0;
	running = 1;
	created_users = init_users(my_ip, netmask);
}

void sv_dns(int tun_fd, int dns_fd)
{
	struct dnsfd fds;

	fds.v4fd = dns_fd;
	fds.v6fd = -1;
	tunnel_dns(tun_fd, dns_fd, &fds, 0);
}

void sv_tun(int tun_fd, int dns_fd)
{
	struct dnsfd fds;

	fds.v4fd = dns_fd;
	fds.v6fd = -1;
	tunnel_tun(tun_fd, &fds);
}

void sv_realsoon(int dns_fd)
/* what tunnel() does after its 20 msec timeout */
{
	int userid;

	for (userid = 0; userid < created_users; userid++) {
		users[userid].q_sendrealsoon_new = 0;
		if (users[userid].active && !users[userid].disabled &&
		    users[userid].last_pkt + 60 >= time(NULL) &&
		    users[userid].q_sendrealsoon.id != 0 &&
		    users[userid].conn == CONN_DNS_NULL)
			send_chunk_or_dataless(dns_fd, userid,
					       &users[userid].q_sendrealsoon);
	}
}

int sv_in_seqno(int userid)	{ return users[userid].inpacket.seqno & 7; }
int sv_in_fragment(int userid)	{ return users[userid].inpacket.fragment; }
int sv_in_len(int userid)	{ return users[userid].inpacket.len; }
