/*
 * Scenario (downstream, unchanged tree): sequence numbers have 3 bits.
 *
 *  1. Packet P (seqno 2, two fragments): the client gets its first fragment;
 *     from then on every answer is lost. The server repeats the second
 *     fragment six times and gives P up.
 *  2. Seven small packets (seqnos 3,4,5,6,7,0,1) are sent, each in one
 *     answer, all lost. The client still holds (seqno 2, fragment 0, data).
 *  3. The network heals. Packet Q (seqno 2 again, two fragments): its first
 *     fragment looks like a repetition to the client (same seqno, fragment
 *     0): ignored, but acknowledged as "2/0" with the next ping. The server
 *     takes this for the acknowledgement of Q's first fragment and sends the
 *     second, which the client appends to the first fragment of P.
 *
 * P and Q are incompressible (compress2() stores them verbatim) and their
 * first parts differ by +1,-2,+1 in three neighbouring bytes, which Adler-32
 * cannot see. So zlib accepts "start of P + end of Q" and the client writes a
 * packet to its tun device that nobody sent.
 */
#include <stdio.h>
#include <string.h>
#include <zlib.h>
#include "scenario.h"

#define FRAGSIZE 200
#define T_K	1000
#define T_P	30000
#define T_F1	(T_P + 2000)
#define F_STEP	4000
#define T_Q	(T_P + 40000)
#define T_END	(T_Q + 8000)

static int p0_passed;

int scen_configure(void)
{
	client_set_qtype("NULL");
	client_set_selecttimeout(2);	/* iodine -I2 */
	client_set_lazymode(1);
	client_set_hostname_maxlen(255);
	return FRAGSIZE;		/* iodine -m 200 */
}

int scen_prepare(void)
{
	unsigned char k[60], f[60], p[4000], q[4000], hdr[7];
	int c = FRAGSIZE;
	int n = c + c / 2;	/* two fragments */
	int i;

	h_random_packet(k, sizeof(k), 1);
	h_random_packet(q, n, 1);
	memcpy(p, q, n);
	p[40] += 1; p[41] -= 2; p[42] += 1;	/* within the first fragment */
	for (i = c; i < n; i++)			/* P ends differently */
		p[i] = 40 + h_rand() % 160;
	if (!h_stored(p, n, hdr) || !h_stored(q, n, hdr))
		return -1;

	h_offer(0, T_K, k, sizeof(k));
	h_offer(0, T_P, p, n);
	for (i = 0; i < 7; i++) {
		h_random_packet(f, sizeof(f), 1);
		h_offer(0, T_F1 + i * F_STEP, f, sizeof(f));
	}
	h_offer(0, T_Q, q, n);
	return 0;
}

int scen_c2s(const void *dgram, int len)
{
	(void) dgram; (void) len;
	return NET_PASS;
}

int scen_s2c(const void *dgram, int len)
{
	(void) dgram;
	if (h_now_ms() >= T_P && h_now_ms() < T_Q) {
		if (!p0_passed && len > FRAGSIZE) {
			p0_passed = 1;	/* first fragment of P arrives */
			return NET_PASS;
		}
		return NET_DROP;
	}
	return NET_PASS;
}

long long scen_end_ms(void)
{
	return T_END;
}

int scen_sanity(void)
{
	return (p0_passed && h_cl_written_n() >= 1) ? 0 : -1;
}
