/* Stand-in for tun.c: the "tun device" is one end of a datagram socketpair. */
#include <unistd.h>
#include <sys/types.h>
#include "tun.h"

int open_tun(const char *dev) { (void) dev; return -1; }
void close_tun(int fd) { if (fd >= 0) close(fd); }

int
write_tun(int tun_fd, char *data, size_t len)
{
	/* as on Linux: 4 byte header, ethertype IPv4 */
	data[0] = 0x00; data[1] = 0x00; data[2] = 0x08; data[3] = 0x00;
	return write(tun_fd, data, len) != (ssize_t) len;
}

ssize_t read_tun(int tun_fd, char *buf, size_t len) { return read(tun_fd, buf, len); }
int tun_setip(const char *ip, const char *other, int bits) { (void) ip; (void) other; (void) bits; return 0; }
int tun_setmtu(const unsigned mtu) { (void) mtu; return 0; }
