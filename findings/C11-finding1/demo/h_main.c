/*
 * Demo harness: the real iodine client (client.c) and the real iodined server
 * (iodined.c) talk over loopback UDP through a small DNS relay that applies a
 * fixed transformation.  The "tun devices" of both ends are socketpairs held
 * by this program, which offers IP packets on either side after the handshake
 * and checks that they come out intact on the other side.
 *
 * exit 0 = PASS (handshake completed and every packet delivered intact;
 *                with --may-fail also: handshake refused)
 * exit 1 = FAIL
 */
#include <stdio.h>
#include <stdlib.h>
#include <string.h>
#include <stdint.h>
#include <unistd.h>
#include <signal.h>
#include <errno.h>
#include <fcntl.h>
#include <poll.h>
#include <time.h>
#include <sys/types.h>
#include <sys/socket.h>
#include <sys/wait.h>
#include <netinet/in.h>
#include <arpa/inet.h>

#include "common.h"
#include "client.h"

void harness_server(int dns_fd, int tun_fd, const char *td, const char *pw);

#define TOPDOMAIN "t.example.org"
#define PASSWORD  "secret"

/* ------------------------------------------------------------------ relay */

enum { CASE_KEEP, CASE_LOWER, CASE_UPPER };
enum { E8_CLEAN, E8_STRIP, E8_REJECT };
enum { PU_KEEP, PU_PLUS, PU_UNDER };

struct xform { int cs, e8, pu; };

static struct xform xq = { CASE_KEEP, E8_CLEAN, PU_KEEP };	/* names in queries */
static struct xform xa = { CASE_KEEP, E8_CLEAN, PU_KEEP };	/* names/text in answers */
static unsigned allowed_types = ~0u;	/* bit per entry of typetab */
static int size_limit = 0;		/* 0 = none */
static int honour_edns0 = 1;

static const struct { const char *name; int type; } typetab[] = {
	{ "NULL", 10 }, { "PRIVATE", 65399 }, { "TXT", 16 }, { "SRV", 33 },
	{ "MX", 15 }, { "CNAME", 5 }, { "A", 1 },
};
#define NTYPES 7

static int
xf_bytes(unsigned char *p, int n, const struct xform *x)
/* returns 1 when the relay refuses the message */
{
	int i;

	for (i = 0; i < n; i++) {
		unsigned char c = p[i];

		if (c >= 0x80) {
			if (x->e8 == E8_REJECT)
				return 1;
			if (x->e8 == E8_STRIP)
				c &= 0x7f;
		}
		if (x->pu == PU_PLUS && c == '+')
			c = ' ';
		if (x->pu == PU_UNDER && c == '_')
			c = ' ';
		if (x->cs == CASE_LOWER && c >= 'A' && c <= 'Z')
			c += 'a' - 'A';
		if (x->cs == CASE_UPPER && c >= 'a' && c <= 'z')
			c -= 'a' - 'A';
		p[i] = c;
	}
	return 0;
}

static int
xf_name(unsigned char *pkt, int len, int *pos, const struct xform *x)
/* Walk an uncompressed (or pointer-terminated) name at *pos, transforming the
   label contents if x != NULL. Returns 0 ok, 1 refuse, -1 malformed. */
{
	int p = *pos;

	while (p < len) {
		int l = pkt[p];

		if (l == 0) {
			*pos = p + 1;
			return 0;
		}
		if ((l & 0xc0) == 0xc0) {
			*pos = p + 2;
			return 0;
		}
		if (p + 1 + l > len)
			return -1;
		if (x && xf_bytes(pkt + p + 1, l, x))
			return 1;
		p += 1 + l;
	}
	return -1;
}

static int
rd16(const unsigned char *p)
{
	return (p[0] << 8) | p[1];
}

static int
relay_error(unsigned char *pkt, int qend, int rcode)
{
	pkt[2] = 0x80 | (pkt[2] & 0x01);	/* QR, keep RD */
	pkt[3] = 0x80 | rcode;			/* RA */
	pkt[6] = pkt[7] = 0;			/* ancount */
	pkt[8] = pkt[9] = 0;
	pkt[10] = pkt[11] = 0;
	return qend;
}

static void
relay(int front, int back, struct sockaddr_in *srv)
{
	unsigned char pkt[65536];
	struct sockaddr_in cli;
	socklen_t clilen = 0;
	int client_edns[65536 / 4096];	/* unused, keeps things simple */
	static unsigned char has_opt[65536];

	(void) client_edns;
	memset(&cli, 0, sizeof(cli));
	for (;;) {
		struct pollfd pf[2];
		int len, pos, i, r;

		pf[0].fd = front; pf[0].events = POLLIN;
		pf[1].fd = back; pf[1].events = POLLIN;
		if (poll(pf, 2, -1) < 0) {
			if (errno == EINTR)
				continue;
			_exit(0);
		}
		if (pf[0].revents & POLLIN) {
			int qtype, ok = 0;

			clilen = sizeof(cli);
			len = recvfrom(front, pkt, sizeof(pkt), 0, (struct sockaddr *) &cli, &clilen);
			if (len < 17)
				continue;
			pos = 12;
			r = xf_name(pkt, len, &pos, &xq);
			if (r < 0 || pos + 4 > len)
				continue;
			qtype = rd16(pkt + pos);
			for (i = 0; i < NTYPES; i++)
				if (typetab[i].type == qtype && (allowed_types & (1u << i)))
					ok = 1;
			has_opt[rd16(pkt)] = (rd16(pkt + 10) != 0);
			if (r == 1) {
				len = relay_error(pkt, pos + 4, 1 /* FORMERR */);
				sendto(front, pkt, len, 0, (struct sockaddr *) &cli, clilen);
				continue;
			}
			if (!ok) {
				len = relay_error(pkt, pos + 4, 4 /* NOTIMP */);
				sendto(front, pkt, len, 0, (struct sockaddr *) &cli, clilen);
				continue;
			}
			if (!honour_edns0 && rd16(pkt + 10) != 0) {
				/* forward without the OPT record */
				pkt[10] = pkt[11] = 0;
				len = pos + 4;
			}
			sendto(back, pkt, len, 0, (struct sockaddr *) srv, sizeof(*srv));
		}
		if (pf[1].revents & POLLIN) {
			int an, qend, refuse = 0, limit;

			len = recv(back, pkt, sizeof(pkt), 0);
			if (len < 17 || !clilen)
				continue;
			pos = 12;
			if (xf_name(pkt, len, &pos, NULL) < 0 || pos + 4 > len)
				continue;
			pos += 4;
			qend = pos;
			an = rd16(pkt + 6);
			for (i = 0; i < an && !refuse; i++) {
				int type, rdlen, end;

				if (xf_name(pkt, len, &pos, NULL) < 0 || pos + 10 > len)
					break;
				type = rd16(pkt + pos);
				rdlen = rd16(pkt + pos + 8);
				pos += 10;
				end = pos + rdlen;
				if (end > len)
					break;
				if (type == 5) {		/* CNAME */
					int p = pos;
					refuse = (xf_name(pkt, end, &p, &xa) == 1);
				} else if (type == 15) {	/* MX */
					int p = pos + 2;
					refuse = (xf_name(pkt, end, &p, &xa) == 1);
				} else if (type == 33) {	/* SRV */
					int p = pos + 6;
					refuse = (xf_name(pkt, end, &p, &xa) == 1);
				} else if (type == 16) {	/* TXT */
					int p = pos;
					while (p < end && !refuse) {
						int l = pkt[p];
						if (p + 1 + l > end)
							break;
						refuse = xf_bytes(pkt + p + 1, l, &xa);
						p += 1 + l;
					}
				}
				pos = end;
			}
			if (refuse)
				len = relay_error(pkt, qend, 2 /* SERVFAIL */);
			limit = size_limit ? size_limit : 65535;
			if ((!honour_edns0 || !has_opt[rd16(pkt)]) && limit > 512)
				limit = 512;
			if (len > limit)
				continue;	/* dropped */
			sendto(front, pkt, len, 0, (struct sockaddr *) &cli, clilen);
		}
	}
}

/* ------------------------------------------------------------- utilities */

static int
udp_bound(struct sockaddr_in *sa)
{
	socklen_t l = sizeof(*sa);
	int fd = socket(AF_INET, SOCK_DGRAM, 0);

	memset(sa, 0, sizeof(*sa));
	sa->sin_family = AF_INET;
	sa->sin_addr.s_addr = htonl(INADDR_LOOPBACK);
	if (fd < 0 || bind(fd, (struct sockaddr *) sa, sizeof(*sa)) < 0 ||
	    getsockname(fd, (struct sockaddr *) sa, &l) < 0) {
		perror("udp socket");
		exit(2);
	}
	return fd;
}

static uint32_t rng = 0x1234567;
static unsigned
rnd(void)
{
	rng ^= rng << 13; rng ^= rng >> 17; rng ^= rng << 5;
	return rng;
}

static int
make_packet(unsigned char *buf, int payload, const char *dst)
{
	int i, n = 4 + 20 + payload;

	memset(buf, 0, n);
	buf[2] = 0x08;			/* tun header, IPv4 */
	buf[4] = 0x45;
	buf[6] = (n - 4) >> 8; buf[7] = (n - 4) & 0xff;
	buf[12] = 64; buf[13] = 17;
	*(uint32_t *) (buf + 16) = inet_addr("10.0.0.77");
	*(uint32_t *) (buf + 20) = inet_addr(dst);
	for (i = 0; i < payload; i++)
		buf[24 + i] = (i < 256) ? i : (rnd() & 0xff);	/* every byte value, then noise */
	return n;
}

static int
offer_and_expect(int in_fd, int out_fd, unsigned char *pkt, int len, int wait_ms)
{
	unsigned char got[70000];
	struct pollfd pf;
	int r;

	if (write(in_fd, pkt, len) != len)
		return 0;
	pf.fd = out_fd; pf.events = POLLIN;
	while ((r = poll(&pf, 1, wait_ms)) > 0) {
		r = read(out_fd, got, sizeof(got));
		if (r == len && !memcmp(got, pkt, len))
			return 1;
		fprintf(stderr, "  (a different packet came out: %d bytes)\n", r);
		return 0;
	}
	return 0;
}

static int
parse(const char *v, const char *const *names, int n)
{
	int i;

	for (i = 0; i < n; i++)
		if (!strcmp(v, names[i]))
			return i;
	fprintf(stderr, "bad value %s\n", v);
	exit(2);
}

static void
grep_log(const char *path)
{
	static const char *const keys[] = { "Using DNS type", "EDNS0", "upstream", "downstream",
		"ok..", "will use", "fragment size", "corrupt", "couldn't", "No suitable", NULL };
	char line[1024];
	FILE *f = fopen(path, "r");
	int i;

	if (!f)
		return;
	while (fgets(line, sizeof(line), f))
		for (i = 0; keys[i]; i++)
			if (strstr(line, keys[i])) {
				printf("  client: %s", line);
				if (line[strlen(line) - 1] != '\n')
					printf("\n");
				break;
			}
	fclose(f);
}

/* ------------------------------------------------------------------ main */

int
main(int argc, char **argv)
{
	static const char *const cases[] = { "keep", "lower", "upper" };
	static const char *const e8s[] = { "clean", "strip", "reject" };
	static const char *const pus[] = { "keep", "plus", "under" };
	struct sockaddr_in srv_sa, front_sa, back_sa;
	int srv_fd, front_fd, back_fd;
	int st[2], ct[2], status[2];
	pid_t spid, rpid, cpid;
	char *force_t = NULL, *force_o = NULL;
	const char *logpath = "client.log";
	int handshake_wait = 40;
	int may_fail = 0;	/* a refused handshake is acceptable (forced codec) */
	int i, ok = 1;
	char c;

	for (i = 1; i < argc; i++) {
		char *a = argv[i];

		if (!strncmp(a, "--qcase=", 8)) xq.cs = parse(a + 8, cases, 3);
		else if (!strncmp(a, "--q8=", 5)) xq.e8 = parse(a + 5, e8s, 3);
		else if (!strncmp(a, "--qpunct=", 9)) xq.pu = parse(a + 9, pus, 3);
		else if (!strncmp(a, "--acase=", 8)) xa.cs = parse(a + 8, cases, 3);
		else if (!strncmp(a, "--a8=", 5)) xa.e8 = parse(a + 5, e8s, 3);
		else if (!strncmp(a, "--apunct=", 9)) xa.pu = parse(a + 9, pus, 3);
		else if (!strncmp(a, "--limit=", 8)) size_limit = atoi(a + 8);
		else if (!strcmp(a, "--noedns0")) honour_edns0 = 0;
		else if (!strncmp(a, "--types=", 8)) {
			char *t, *s = strdup(a + 8);
			int k;

			allowed_types = 0;
			for (t = strtok(s, ","); t; t = strtok(NULL, ","))
				for (k = 0; k < NTYPES; k++)
					if (!strcmp(t, typetab[k].name))
						allowed_types |= 1u << k;
		}
		else if (!strncmp(a, "-T", 2)) force_t = a + 2;
		else if (!strncmp(a, "-O", 2)) force_o = a + 2;
		else if (!strncmp(a, "--log=", 6)) logpath = a + 6;
		else if (!strncmp(a, "--wait=", 7)) handshake_wait = atoi(a + 7);
		else if (!strcmp(a, "--may-fail")) may_fail = 1;
		else { fprintf(stderr, "unknown option %s\n", a); return 2; }
	}

	srv_fd = udp_bound(&srv_sa);
	front_fd = udp_bound(&front_sa);
	back_fd = udp_bound(&back_sa);
	if (socketpair(AF_UNIX, SOCK_DGRAM, 0, st) || socketpair(AF_UNIX, SOCK_DGRAM, 0, ct) ||
	    pipe(status)) {
		perror("socketpair");
		return 2;
	}

	if ((spid = fork()) == 0) {
		int fd = open("/dev/null", O_WRONLY);
		dup2(fd, 2);
		harness_server(srv_fd, st[0], TOPDOMAIN, PASSWORD);
		_exit(0);
	}
	if ((rpid = fork()) == 0) {
		relay(front_fd, back_fd, &srv_sa);
		_exit(0);
	}
	if ((cpid = fork()) == 0) {
		struct sockaddr_storage ns;
		int dns_fd, r;
		int fd = open(logpath, O_WRONLY | O_CREAT | O_TRUNC, 0644);

		dup2(fd, 2);
		srand(777);
		client_init();
		memset(&ns, 0, sizeof(ns));
		memcpy(&ns, &front_sa, sizeof(front_sa));
		client_set_nameserver(&ns, sizeof(front_sa));
		client_set_topdomain(TOPDOMAIN);
		{
			static char pw[33];	/* login_calculate() reads 32 bytes */
			strncpy(pw, PASSWORD, 32);
			client_set_password(pw);
		}
		if (force_t && client_set_qtype(force_t))
			_exit(2);
		if (force_o)
			client_set_downenc(force_o);
		client_set_selecttimeout(2);
		client_set_lazymode(1);
		client_set_hostname_maxlen(0xFF);
		dns_fd = socket(AF_INET, SOCK_DGRAM, 0);
		r = client_handshake(dns_fd, 0, 1, 3072);
		c = r ? 'F' : 'K';
		if (write(status[1], &c, 1) != 1 || r)
			_exit(3);
		client_tunnel(ct[0], dns_fd);
		_exit(0);
	}
	close(status[1]);

	{
		struct pollfd pf;

		pf.fd = status[0]; pf.events = POLLIN;
		c = 'T';
		if (poll(&pf, 1, handshake_wait * 1000) > 0 && read(status[0], &c, 1) != 1)
			c = 'F';
	}
	if (c != 'K') {
		printf("handshake %s\n", c == 'T' ? "did not finish in time" : "FAILED");
		ok = (c == 'F' && may_fail);
		if (ok)
			printf("(acceptable: the forced codec cannot work on this path)\n");
	} else {
		static const int sizes[] = { 300, 40, 700, 1100, 513 };
		unsigned char pkt[2048];
		int len;

		printf("handshake completed\n");
		usleep(200 * 1000);
		for (i = 0; i < 5 && ok; i++) {
			len = make_packet(pkt, sizes[i], "10.0.0.2");
			if (!offer_and_expect(st[1], ct[1], pkt, len, 6000)) {
				printf("downstream packet #%d (%d bytes) NOT delivered intact\n", i, len);
				ok = 0;
				break;
			}
			len = make_packet(pkt, sizes[i], "10.0.0.1");
			if (!offer_and_expect(ct[1], st[1], pkt, len, 6000)) {
				printf("upstream packet #%d (%d bytes) NOT delivered intact\n", i, len);
				ok = 0;
			}
		}
		if (ok)
			printf("5 packets each way delivered intact\n");
	}

	kill(spid, SIGKILL);
	kill(rpid, SIGKILL);
	kill(cpid, SIGKILL);
	while (wait(NULL) > 0)
		;
	grep_log(logpath);
	printf("%s\n", ok ? "PASS" : "FAIL");
	return ok ? 0 : 1;
}
