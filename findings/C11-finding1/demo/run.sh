#!/bin/sh
# usage: run.sh <iodine source tree root>
# exit 0 = PASS (property holds in the scenarios), 1 = FAIL (violated)
TREE=${1:?usage: run.sh <tree>}
HERE=$(cd "$(dirname "$0")" && pwd)
TMP=$(mktemp -d) || exit 2
trap 'rm -rf "$TMP"' EXIT
sh "$HERE/build.sh" "$TREE" "$TMP" || { echo "build failed"; exit 2; }
cd "$TMP" || exit 2
rc=0
# The relay leaves query names alone and replaces '+' in the names/text of
# answers; nothing else is touched, no size limit, EDNS0 honoured.
echo "== 1. iodine -T TXT, downstream codec and fragment size autodetected"
./harness -TTXT --apunct=plus || rc=1
echo "== 2. query type autodetected too (relay answers TXT,SRV,MX,CNAME,A only)"
./harness --types=TXT,SRV,MX,CNAME,A --apunct=plus || rc=1
echo "== 3. iodine -T TXT -O base64 (forced codec: refusing the handshake is fine,"
echo "      completing it with a codec that does not survive is not)"
./harness -TTXT -Obase64 --apunct=plus --may-fail || rc=1
[ $rc = 0 ] && echo "ALL PASS" || echo "FAIL"
exit $rc
