/* Server side of the demo harness: the real iodined.c, driven without a tun
 * device and without root.  Compiled with -Dmain=iodined_main. */
#include "iodined.c"

void harness_server(int dns_fd, int tun_fd, const char *td, const char *pw);

void
harness_server(int dns_fd, int tun_fd, const char *td, const char *pw)
{
	struct dnsfd fds;

	fds.v4fd = dns_fd;
	fds.v6fd = -1;
	topdomain = strdup(td);
	memset(password, 0, sizeof(password));
	strncpy(password, pw, sizeof(password) - 1);
	my_ip = inet_addr("10.0.0.1");
	netmask = 27;
	my_mtu = 1130;
	check_ip = 1;
	ns_ip = INADDR_ANY;
	bind_port = 0;
	debug = 0;
	created_users = init_users(my_ip, netmask);
	prepare_dns_fd(dns_fd);
	srand(4242);
	tunnel(tun_fd, &fds, 0, 0);
}
