#!/bin/sh
# usage: build.sh <tree> <outdir>   -> <outdir>/harness
set -e
TREE=$1; OUT=$2; HERE=$(cd "$(dirname "$0")" && pwd)
SRC=$TREE/src
mkdir -p "$OUT/src"
# private copy of the sources (never builds inside the tree)
cp "$SRC"/*.c "$SRC"/*.h "$OUT/src/"
rm -f "$OUT/src/base64u.c"
{ echo '/* generated as in src/Makefile */'
  sed -e 's/\([Bb][Aa][Ss][Ee]64\)/\1u/g ; s/0123456789+/0123456789_/' < "$SRC/base64.c"; } > "$OUT/src/base64u.c"
CF="-std=c99 -g -O0 -w -DLINUX -D_GNU_SOURCE -DGITREVISION=\"demo\" -I$OUT/src"
cd "$OUT"
for f in client dns read encoding login base32 base64 base64u base128 md5 common user fw_query util; do
	cc $CF -c src/$f.c -o $f.o
done
cc $CF -Dmain=iodined_main -c "$HERE/h_srv.c" -o h_srv.o
cc $CF -c "$HERE/h_tun.c" -o h_tun.o
cc $CF -c "$HERE/h_main.c" -o h_main.o
cc -o harness h_main.o h_srv.o h_tun.o client.o dns.o read.o encoding.o login.o base32.o base64.o base64u.o base128.o md5.o common.o user.o fw_query.o util.o -lz
