/*
 * Raw UDP mode, perfectly clean path (nothing is ever lost, duplicated,
 * reordered or delayed), traffic in ONE direction only, one packet every
 * 5 seconds for 5 minutes.
 *
 *   SCN=up    only the client's tun device is offered packets
 *   SCN=down  only the server's tun device is offered packets
 *
 * Expected: every offered packet comes out of the peer's tun device once,
 * and the client is still running at the end.
 *
 *   SCN=idle  (secondary) nothing is offered; every datagram sent between
 *             +19 s and +41 s after the session came up is lost (a 22 s
 *             outage, two keepalives); from +70 s packets are offered in
 *             both directions and must be delivered.
 *
 * SCN_LATENCY_US sets the one-way latency of the path (default 2000).
 */
#include <stdio.h>
#include <stdlib.h>
#include <string.h>
#include "sim.h"

struct sim_cfg scn_cfg = {
	.qtype = "NULL", .downenc = NULL, .lazy = 1, .raw = 1, .autofrag = 1,
	.latency_us = 2000, .check_ip = 1, .debug = 0,
};
long long scn_duration_us = 300 * USEC;

__attribute__((constructor)) static void scn_env(void)
{
	const char *l = getenv("SCN_LATENCY_US");
	if (l)
		scn_cfg.latency_us = atoll(l);
}

#define NPKT 58
static int n;
static int down;
static int idle;
static long long t0;

int scn_net(int from, const unsigned char *buf, int len, long long now,
	    long long *d1, long long *d2)
{
	if (idle && t0 && now >= t0 + 19 * USEC && now < t0 + 41 * USEC)
		return 0;	/* 22 s outage, both directions */
	return 1;	/* clean path */
}

void scn_start(long long now)
{
	const char *m = getenv("SCN");
	down = (m && !strcmp(m, "down"));
	idle = (m && !strcmp(m, "idle"));
	t0 = now;
	if (idle) {
		sim_log("session established, raw mode = %d, idle tunnel, outage from +19s to +41s",
			sim_client_is_raw());
		return;
	}
	sim_log("session established, raw mode = %d, traffic: %s only",
		sim_client_is_raw(), down ? "server -> client" : "client -> server");
}

long long scn_tick(long long now)
{
	if (idle) {
		/* nothing offered until well after the outage */
		if (now < t0 + 70 * USEC)
			return t0 + 70 * USEC;
		if (n < NPKT) {
			sim_offer((n & 1) ? SIDE_SERVER : SIDE_CLIENT, 1000 + n, 200, 0);
			n++;
			return now + 2 * USEC;
		}
		return -1;
	}
	if (n < NPKT) {
		sim_offer(down ? SIDE_SERVER : SIDE_CLIENT, 1000 + n, 200, 0);
		n++;
		return now + 5 * USEC;
	}
	return -1;
}

int scn_verdict(void)
{
	int to = down ? SIDE_CLIENT : SIDE_SERVER;
	int from = !to;
	int i, got = sim_delivered_count(to), bad = 0;
	long long last = -1;

	if (idle) {
		got = sim_delivered_count(SIDE_CLIENT) + sim_delivered_count(SIDE_SERVER);
		fprintf(stderr, "offered %d after the outage, delivered %d; client sent %d datagrams, server sent %d (last at t=%.1fs)\n",
			n, got, sim_sent_count(SIDE_CLIENT), sim_sent_count(SIDE_SERVER),
			sim_last_sent(SIDE_SERVER) / 1e6);
		if (sim_client_exited()) {
			fprintf(stderr, "FAIL: the client shut itself down at t=%.1fs, 22 s outage not survived\n",
				sim_client_exit_time() / 1e6);
			return 1;
		}
		if (got != n) {
			fprintf(stderr, "FAIL: packets offered after the outage were not delivered\n");
			return 1;
		}
		return 0;
	}

	if (!sim_client_is_raw()) {
		fprintf(stderr, "FAIL: raw mode was not reached\n");
		return 1;
	}
	for (i = 0; i < got; i++) {
		const struct delivered *d = sim_delivered(to, i);
		if (!d->intact || d->id != 1000 + i)
			bad = 1;
		last = d->t_us;
	}
	fprintf(stderr, "offered %d, read from tun by the sender %d, delivered %d (last at t=%.1fs), out of order/corrupt: %d\n",
		n, sim_tun_reads(from), got, last / 1e6, bad);
	fprintf(stderr, "client sent %d datagrams (last at t=%.1fs), server sent %d (last at t=%.1fs)\n",
		sim_sent_count(SIDE_CLIENT), sim_last_sent(SIDE_CLIENT) / 1e6,
		sim_sent_count(SIDE_SERVER), sim_last_sent(SIDE_SERVER) / 1e6);
	if (sim_client_exited()) {
		fprintf(stderr, "FAIL: the client shut itself down at t=%.1fs on a clean path\n",
			sim_client_exit_time() / 1e6);
		return 1;
	}
	if (got != n || bad) {
		fprintf(stderr, "FAIL: %d of %d packets accepted from tun never reached the peer\n",
			sim_tun_reads(from) - got, n);
		return 1;
	}
	return 0;
}
