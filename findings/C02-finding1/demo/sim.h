/*
 * Tiny deterministic simulator for one real iodine client and one real
 * iodined server running in the same process.
 *
 *  - src/client.c and src/iodined.c are compiled unchanged (each one is
 *    #included by a small unit file so that their static state can be
 *    configured);
 *  - both run their real main loops (client_handshake() + client_tunnel(),
 *    and tunnel()) as ucontext fibers;
 *  - select/time/sendto/recvfrom/recvmsg/recv/sleep/syslog are replaced
 *    with ld --wrap, tun.c is replaced by stubs: there is no real socket,
 *    no tun device, and time is virtual.
 *
 * A scenario file supplies the configuration, the per-datagram fate
 * function, the script that offers packets to the two tun devices, and the
 * final verdict.
 */
#ifndef SIM_H
#define SIM_H

#include <stddef.h>

#define SIDE_CLIENT 0
#define SIDE_SERVER 1

#define USEC 1000000LL

struct sim_cfg {
	const char *qtype;	/* "NULL", "TXT", "CNAME", ... */
	const char *downenc;	/* NULL = autodetect, else "base32", "raw"... */
	int lazy;		/* 1 = lazy mode */
	int raw;		/* 1 = try raw UDP mode */
	int autofrag;		/* 1 = autoprobe the downstream fragsize */
	int fragsize;		/* used when !autofrag */
	int hostname_maxlen;	/* 0 = default */
	int selecttimeout;	/* 0 = default (4) */
	long long latency_us;	/* one-way latency of the path */
	int check_ip;		/* iodined without -c: 1 */
	int debug;		/* iodined debug level */
};

struct delivered {
	long long t_us;		/* when written to the tun device */
	int id;			/* id found in the packet, -1 if unknown */
	int len;
	int intact;		/* contents equal to what was offered */
};

/* -------- provided by the scenario -------- */
extern struct sim_cfg scn_cfg;
/* fate of a datagram sent at now_us by side `from`.
   returns number of copies to deliver (0 = drop); *delay_us is added to the
   path latency for the first copy, delay2_us for a second copy */
int scn_net(int from, const unsigned char *buf, int len, long long now_us,
	    long long *delay_us, long long *delay2_us);
/* called once when the client enters client_tunnel() (handshake done) */
void scn_start(long long now_us);
/* called by the scheduler whenever virtual time is about to advance;
   returns the next time (absolute, us) at which it wants to be called, or -1.
   May call sim_offer(). */
long long scn_tick(long long now_us);
/* called at the end; returns 0 for PASS and 1 for FAIL */
int scn_verdict(void);
/* absolute end of the simulation in us after scn_start */
extern long long scn_duration_us;

/* -------- provided by the simulator -------- */
long long sim_now(void);
/* offer an IP packet with the given id and total IP length to the tun device
   of `side` now; the payload is incompressible pseudo-random bytes unless
   compressible is set */
void sim_offer(int side, int id, int iplen, int compressible);
/* number of packets the program on `side` has read from its tun so far */
int sim_tun_reads(int side);
/* packets written to the tun device of `side` */
int sim_delivered_count(int side);
const struct delivered *sim_delivered(int side, int idx);
/* datagrams sent so far by `side`, time of last one */
int sim_sent_count(int side);
long long sim_last_sent(int side);
/* has the client left client_tunnel() (or died)? */
int sim_client_exited(void);
long long sim_client_exit_time(void);
int sim_client_is_raw(void);
void sim_log(const char *fmt, ...);

/* -------- unit files -------- */
void cl_unit_main(void);	/* runs handshake + tunnel; returns on exit */
int cl_unit_is_raw(void);
void sv_unit_main(void);	/* runs tunnel(); never returns normally */
void sim_client_tunnel_started(void);

#define FD_CL_DNS 100
#define FD_CL_TUN 101
#define FD_SV_DNS 200
#define FD_SV_TUN 201

#define SIM_TOPDOMAIN "t.example.org"
#define SIM_PASSWORD "secret"

#endif
