/* The real client, unchanged, plus a small driver replacing iodine.c's main() */
#include "client.c"
#include "sim.h"

int cl_unit_is_raw(void)
{
	return conn == CONN_RAW_UDP;
}

void cl_unit_main(void)
{
	struct sockaddr_storage ns;
	struct sockaddr_in *in = (struct sockaddr_in *) &ns;
	char qtype[16];
	char denc[16];
	int st = scn_cfg.selecttimeout ? scn_cfg.selecttimeout : 4;
	static char pw[33];		/* login_calculate() reads 32 bytes */

	memset(&ns, 0, sizeof(ns));
	in->sin_family = AF_INET;
	in->sin_addr.s_addr = inet_addr("127.0.0.1");
	in->sin_port = htons(53);

	srand(1);
	client_init();
	client_set_nameserver(&ns, sizeof(*in));
	client_set_topdomain(SIM_TOPDOMAIN);
	memset(pw, 0, sizeof(pw));
	strcpy(pw, SIM_PASSWORD);
	client_set_password(pw);
	snprintf(qtype, sizeof(qtype), "%s", scn_cfg.qtype ? scn_cfg.qtype : "NULL");
	client_set_qtype(qtype);
	if (scn_cfg.downenc) {
		snprintf(denc, sizeof(denc), "%s", scn_cfg.downenc);
		client_set_downenc(denc);
	}
	if (!scn_cfg.lazy)
		st = 1;			/* as iodine.c does for -L0 */
	client_set_selecttimeout(st);
	client_set_lazymode(scn_cfg.lazy);
	if (scn_cfg.hostname_maxlen)
		client_set_hostname_maxlen(scn_cfg.hostname_maxlen);

	if (client_handshake(FD_CL_DNS, scn_cfg.raw, scn_cfg.autofrag,
			     scn_cfg.fragsize ? scn_cfg.fragsize : 3072)) {
		sim_log("client: handshake failed");
		return;
	}
	sim_client_tunnel_started();
	client_tunnel(FD_CL_TUN, FD_CL_DNS);
}
