/* The real server, unchanged (its main() is renamed on the command line),
   plus a small driver doing what main() does before calling tunnel() */
#include "iodined.c"
#include "sim.h"

void sv_unit_main(void)
{
	struct dnsfd fds;

	topdomain = strdup(SIM_TOPDOMAIN);
	memset(password, 0, sizeof(password));
	strcpy(password, SIM_PASSWORD);
	my_ip = inet_addr("10.0.0.1");
	netmask = 27;
	my_mtu = 1130;
	ns_ip = INADDR_ANY;
	bind_port = 0;
	check_ip = scn_cfg.check_ip;
	debug = scn_cfg.debug;
	created_users = init_users(my_ip, netmask);
	fw_query_init();

	fds.v4fd = FD_SV_DNS;
	fds.v6fd = -1;
	tunnel(FD_SV_TUN, &fds, 0, 0);
}
