/* See sim.h */
#define _GNU_SOURCE
#include <stdio.h>
#include <stdlib.h>
#include <string.h>
#include <stdarg.h>
#include <errno.h>
#include <time.h>
#include <ucontext.h>
#include <sys/types.h>
#include <sys/select.h>
#include <sys/socket.h>
#include <netinet/in.h>
#include <arpa/inet.h>

#include "sim.h"

#define INF 0x7fffffffffffffffLL
#define TIME_BASE 1700000000LL

/* ---------------- virtual clock ---------------- */
static long long now_us;
long long sim_now(void) { return now_us; }

void sim_log(const char *fmt, ...)
{
	va_list ap;
	fprintf(stderr, "[sim %9.3f] ", now_us / 1e6);
	va_start(ap, fmt);
	vfprintf(stderr, fmt, ap);
	va_end(ap);
	fputc('\n', stderr);
}

/* ---------------- queues per fd ---------------- */
struct item {
	long long t;
	unsigned long seq;
	int len;
	unsigned char *data;
	struct item *next;
};
static unsigned long item_seq;

struct fdq {
	int fd;
	struct item *head;
};
static struct fdq queues[4] = {
	{ FD_CL_DNS, NULL }, { FD_CL_TUN, NULL },
	{ FD_SV_DNS, NULL }, { FD_SV_TUN, NULL }
};

static struct fdq *q_of(int fd)
{
	int i;
	for (i = 0; i < 4; i++)
		if (queues[i].fd == fd)
			return &queues[i];
	return NULL;
}

static void q_put(int fd, long long t, const void *data, int len)
{
	struct fdq *q = q_of(fd);
	struct item *it = malloc(sizeof(*it));
	struct item **pp;

	it->t = t;
	it->seq = item_seq++;
	it->len = len;
	it->data = malloc(len ? len : 1);
	memcpy(it->data, data, len);
	/* keep sorted by (t, seq) */
	for (pp = &q->head; *pp; pp = &(*pp)->next)
		if ((*pp)->t > t)
			break;
	it->next = *pp;
	*pp = it;
}

static long long q_earliest(int fd)
{
	struct fdq *q = q_of(fd);
	if (!q || !q->head)
		return -1;
	return q->head->t;
}

static struct item *q_pop(int fd)
{
	struct fdq *q = q_of(fd);
	struct item *it;
	if (!q || !q->head || q->head->t > now_us)
		return NULL;
	it = q->head;
	q->head = it->next;
	return it;
}

/* ---------------- fibers ---------------- */
struct fiber {
	ucontext_t ctx;
	int alive;
	int waiting;
	fd_set want;
	int nfds;
	long long deadline;
	fd_set ready;
	int nready;
	const char *name;
};
static struct fiber fibers[2];
static struct fiber *cur;
static ucontext_t sched_ctx;
#define STACKSZ (32 * 1024 * 1024)

static void yield_to_sched(void)
{
	struct fiber *f = cur;
	swapcontext(&f->ctx, &sched_ctx);
}

static void fiber_entry(int which)
{
	if (which == SIDE_CLIENT)
		cl_unit_main();
	else
		sv_unit_main();
	fibers[which].alive = 0;
	yield_to_sched();
}

static void fiber_start(int which, const char *name)
{
	struct fiber *f = &fibers[which];
	getcontext(&f->ctx);
	f->ctx.uc_stack.ss_sp = malloc(STACKSZ);
	f->ctx.uc_stack.ss_size = STACKSZ;
	f->ctx.uc_link = &sched_ctx;
	f->alive = 1;
	f->waiting = 1;
	FD_ZERO(&f->want);
	f->nfds = 0;
	f->deadline = 0;	/* runnable at once */
	f->name = name;
	makecontext(&f->ctx, (void (*)(void)) fiber_entry, 1, which);
}

/* ---------------- client status ---------------- */
static int client_started;
static long long client_start_time;
static int client_exited;
static long long client_exit_time = -1;
static long long next_tick = -1;

int sim_client_exited(void) { return client_exited; }
long long sim_client_exit_time(void) { return client_exit_time; }
int sim_client_is_raw(void) { return cl_unit_is_raw(); }

void sim_client_tunnel_started(void)
{
	client_started = 1;
	client_start_time = now_us;
	scn_start(now_us);
	next_tick = now_us;
}

/* ---------------- traffic bookkeeping ---------------- */
#define MAXPKT 100000
struct offered {
	int id;
	int iplen;
	int compressible;
};
static struct offered offered_tab[2][MAXPKT];
static int offered_n[2];
static struct delivered delivered_tab[2][MAXPKT];
static int delivered_n[2];
static int tun_reads[2];
static int sent_n[2];
static long long last_sent[2] = { -1, -1 };

int sim_tun_reads(int side) { return tun_reads[side]; }
int sim_delivered_count(int side) { return delivered_n[side]; }
const struct delivered *sim_delivered(int side, int idx) { return &delivered_tab[side][idx]; }
int sim_sent_count(int side) { return sent_n[side]; }
long long sim_last_sent(int side) { return last_sent[side]; }

static int build_packet(unsigned char *p, int from_side, int id, int iplen, int compressible)
{
	unsigned int x = 2463534242u ^ (unsigned) (id * 2654435761u);
	int i;

	if (iplen < 20)
		iplen = 20;
	memset(p, 0, 4 + iplen);
	p[2] = 0x08;			/* tun header: ethertype IPv4 */
	p[4] = 0x45;
	p[6] = (iplen >> 8) & 0xff;
	p[7] = iplen & 0xff;
	p[8] = (id >> 8) & 0xff;
	p[9] = id & 0xff;
	p[12] = 64;
	p[13] = 17;
	/* src / dst: server tun 10.0.0.1, client (user 0) 10.0.0.2 */
	p[16] = 10; p[19] = (from_side == SIDE_SERVER) ? 1 : 2;
	p[20] = 10; p[23] = (from_side == SIDE_SERVER) ? 2 : 1;
	for (i = 24; i < 4 + iplen; i++) {
		if (compressible) {
			p[i] = 'A' + (id % 23);
		} else {
			x ^= x << 13; x ^= x >> 17; x ^= x << 5;
			p[i] = x & 0xff;
		}
	}
	return 4 + iplen;
}

void sim_offer(int side, int id, int iplen, int compressible)
{
	static unsigned char pkt[70000];
	int len = build_packet(pkt, side, id, iplen, compressible);
	struct offered *o;

	if (offered_n[side] >= MAXPKT)
		return;
	o = &offered_tab[side][offered_n[side]++];

	o->id = id;
	o->iplen = iplen;
	o->compressible = compressible;
	q_put(side == SIDE_CLIENT ? FD_CL_TUN : FD_SV_TUN, now_us, pkt, len);
}

/* ---------------- tun.c replacements ---------------- */
int open_tun(const char *dev) { (void) dev; return FD_CL_TUN; }
void close_tun(int fd) { (void) fd; }
int tun_setip(const char *a, const char *b, int c) { (void) a; (void) b; (void) c; return 0; }
int tun_setmtu(const unsigned m) { (void) m; return 0; }

ssize_t read_tun(int fd, char *buf, size_t len)
{
	struct item *it = q_pop(fd);
	int n;

	if (!it) {
		errno = EAGAIN;
		return -1;
	}
	n = it->len < (int) len ? it->len : (int) len;
	memcpy(buf, it->data, n);
	free(it->data);
	free(it);
	tun_reads[fd == FD_CL_TUN ? SIDE_CLIENT : SIDE_SERVER]++;
	return n;
}

int write_tun(int fd, char *data, size_t len)
{
	int side = (fd == FD_CL_TUN) ? SIDE_CLIENT : SIDE_SERVER;
	int from = !side;
	struct delivered *d = &delivered_tab[side][delivered_n[side]];
	static unsigned char expect[70000];
	unsigned char *u = (unsigned char *) data;
	int i;

	if (delivered_n[side] >= MAXPKT)
		return 0;
	delivered_n[side]++;
	d->t_us = now_us;
	d->len = (int) len;
	d->id = -1;
	d->intact = 0;
	if (len >= 24) {
		d->id = (u[8] << 8) | u[9];
		for (i = 0; i < offered_n[from]; i++) {
			struct offered *o = &offered_tab[from][i];
			if (o->id == d->id) {
				int elen = build_packet(expect, from, o->id, o->iplen, o->compressible);
				if (elen == (int) len && !memcmp(expect + 4, u + 4, len - 4))
					d->intact = 1;
				break;
			}
		}
	}
	return 0;
}

/* ---------------- wrapped libc ---------------- */
time_t __wrap_time(time_t *t)
{
	time_t v = (time_t) (TIME_BASE + now_us / USEC);
	if (t)
		*t = v;
	return v;
}

int __wrap_select(int nfds, fd_set *r, fd_set *w, fd_set *e, struct timeval *tv)
{
	struct fiber *f = cur;

	(void) w; (void) e;
	if (r)
		f->want = *r;
	else
		FD_ZERO(&f->want);
	f->nfds = nfds;
	if (tv)
		f->deadline = now_us + (long long) tv->tv_sec * USEC + tv->tv_usec;
	else
		f->deadline = INF;
	f->waiting = 1;
	yield_to_sched();
	if (r)
		*r = f->ready;
	return f->nready;
}

unsigned int __wrap_sleep(unsigned int s)
{
	struct timeval tv;
	tv.tv_sec = s;
	tv.tv_usec = 0;
	__wrap_select(0, NULL, NULL, NULL, &tv);
	return 0;
}

void __wrap_syslog(int pri, const char *fmt, ...)
{
	(void) pri; (void) fmt;
}

ssize_t __wrap_sendto(int fd, const void *buf, size_t len, int flags,
		      const struct sockaddr *to, socklen_t tolen)
{
	int from = (fd == FD_CL_DNS) ? SIDE_CLIENT : SIDE_SERVER;
	int dest = (from == SIDE_CLIENT) ? FD_SV_DNS : FD_CL_DNS;
	long long d1 = 0, d2 = 0;
	int copies;

	(void) flags; (void) to; (void) tolen;
	sent_n[from]++;
	last_sent[from] = now_us;
	copies = scn_net(from, buf, (int) len, now_us, &d1, &d2);
	if (copies >= 1)
		q_put(dest, now_us + scn_cfg.latency_us + d1, buf, (int) len);
	if (copies >= 2)
		q_put(dest, now_us + scn_cfg.latency_us + d2, buf, (int) len);
	return (ssize_t) len;
}

static void fill_peer(int fd, struct sockaddr *sa, socklen_t *salen)
{
	struct sockaddr_in in;

	memset(&in, 0, sizeof(in));
	in.sin_family = AF_INET;
	if (fd == FD_CL_DNS) {		/* client receives from the server */
		in.sin_addr.s_addr = inet_addr("127.0.0.1");
		in.sin_port = htons(53);
	} else {
		in.sin_addr.s_addr = inet_addr("127.0.0.2");
		in.sin_port = htons(40000);
	}
	if (sa && salen) {
		socklen_t n = *salen < sizeof(in) ? *salen : sizeof(in);
		memcpy(sa, &in, n);
		*salen = sizeof(in);
	}
}

ssize_t __wrap_recvfrom(int fd, void *buf, size_t len, int flags,
			struct sockaddr *from, socklen_t *fromlen)
{
	struct item *it = q_pop(fd);
	int n;

	(void) flags;
	if (!it) {
		errno = EAGAIN;
		return -1;
	}
	n = it->len < (int) len ? it->len : (int) len;
	memcpy(buf, it->data, n);
	free(it->data);
	free(it);
	fill_peer(fd, from, fromlen);
	return n;
}

ssize_t __wrap_recv(int fd, void *buf, size_t len, int flags)
{
	return __wrap_recvfrom(fd, buf, len, flags, NULL, NULL);
}

ssize_t __wrap_recvmsg(int fd, struct msghdr *msg, int flags)
{
	socklen_t nl = msg->msg_namelen;
	ssize_t n = __wrap_recvfrom(fd, msg->msg_iov[0].iov_base,
				    msg->msg_iov[0].iov_len, flags,
				    (struct sockaddr *) msg->msg_name, &nl);
	if (n >= 0) {
		msg->msg_namelen = nl;
		msg->msg_controllen = 0;
		msg->msg_flags = 0;
	}
	return n;
}

/* ---------------- scheduler ---------------- */
static long long fiber_wake_time(struct fiber *f)
{
	long long t = f->deadline;
	int i;

	for (i = 0; i < 4; i++) {
		int fd = queues[i].fd;
		long long te;
		if (fd >= f->nfds || !FD_ISSET(fd, &f->want))
			continue;
		te = q_earliest(fd);
		if (te < 0)
			continue;
		if (te < now_us)
			te = now_us;
		if (te < t)
			t = te;
	}
	return t;
}

static void resume(struct fiber *f)
{
	int i;

	FD_ZERO(&f->ready);
	f->nready = 0;
	for (i = 0; i < 4; i++) {
		int fd = queues[i].fd;
		long long te;
		if (fd >= f->nfds || !FD_ISSET(fd, &f->want))
			continue;
		te = q_earliest(fd);
		if (te >= 0 && te <= now_us) {
			FD_SET(fd, &f->ready);
			f->nready++;
		}
	}
	f->waiting = 0;
	cur = f;
	swapcontext(&sched_ctx, &f->ctx);
	cur = NULL;
}

int main(void)
{
	struct fiber *last = NULL;
	long long handshake_limit = 900 * USEC;

	setvbuf(stderr, NULL, _IOLBF, 0);
	fiber_start(SIDE_SERVER, "server");
	fiber_start(SIDE_CLIENT, "client");

	for (;;) {
		struct fiber *best = NULL;
		long long bt = INF;
		int i;

		if (!fibers[SIDE_CLIENT].alive && !client_exited) {
			client_exited = 1;
			client_exit_time = now_us;
			sim_log("client left its main loop");
			if (!client_started)
				break;
		}
		if (client_started && now_us >= client_start_time + scn_duration_us)
			break;
		if (!client_started && now_us > handshake_limit) {
			sim_log("handshake did not finish");
			break;
		}

		for (i = 0; i < 2; i++) {
			struct fiber *f = &fibers[i];
			long long t;
			if (!f->alive || !f->waiting)
				continue;
			t = fiber_wake_time(f);
			if (t < bt || (t == bt && best == last)) {
				bt = t;
				best = f;
			}
		}

		if (next_tick >= 0 && next_tick <= bt) {
			if (next_tick > now_us)
				now_us = next_tick;
			next_tick = scn_tick(now_us);
			if (next_tick >= 0 && next_tick <= now_us)
				next_tick = now_us + 1;
			continue;
		}
		if (!best || bt == INF)
			break;
		if (client_started && bt > client_start_time + scn_duration_us) {
			now_us = client_start_time + scn_duration_us;
			break;
		}
		if (bt > now_us)
			now_us = bt;
		last = best;
		resume(best);
	}

	if (!client_started) {
		fprintf(stderr, "FAIL: the session was never established\n");
		printf("FAIL\n");
		return 1;
	}
	if (scn_verdict()) {
		printf("FAIL\n");
		return 1;
	}
	printf("PASS\n");
	return 0;
}
