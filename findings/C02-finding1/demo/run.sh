#!/bin/sh
# usage: run.sh <iodine source tree root>
# exit 0 = PASS (property holds), 1 = FAIL (violation shown)
TREE=${1:?usage: run.sh <tree>}
HERE=$(cd "$(dirname "$0")" && pwd)
TMP=$(mktemp -d)
trap 'rm -rf "$TMP"' EXIT
if ! "$HERE/build.sh" "$TREE" "$HERE" "$TMP" > "$TMP/build.log" 2>&1; then
	cat "$TMP/build.log"
	echo "FAIL (build)"
	exit 1
fi
rc=0
run() {
	echo "== $1 =="
	"$TMP/simrun" > "$TMP/out.log" 2>&1 || rc=1
	grep -v '^Using\|^Version\|^Server\|^Requesting\|^Skipping' "$TMP/out.log"
}
export SCN SCN_LATENCY_US
SCN=up   SCN_LATENCY_US=2000  run "raw mode, clean path, traffic client -> server only"
SCN=down SCN_LATENCY_US=2000  run "raw mode, clean path, traffic server -> client only"
SCN=idle SCN_LATENCY_US=95000 run "raw mode, idle tunnel, 22 s outage, 95 ms one-way latency"
if [ $rc -eq 0 ]; then echo PASS; else echo FAIL; fi
exit $rc
