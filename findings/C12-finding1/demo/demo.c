/*
 * C12 / finding1 demonstration: a 2-byte answer "La" to the client's lazy-mode
 * request is taken for the server's "Lazy" confirmation when the answer
 * before it left "zy" in the client's payload buffer.
 *
 * handshake_try_lazy() is static in client.c, so client.c is included here.
 * select(), sendto() and recvfrom() are redirected (ld --wrap): every query
 * the client sends is answered with the next payload of a script, as a NULL
 * record that repeats the query's id and question (what a relay on the path,
 * or anybody who sees the query, can send).
 */
#include "client.c"

struct answer {
	const char *data;
	int len;
};

static struct answer *script;
static int script_len;
static int script_pos;

static char last_query[4096];
static int last_query_len;
static int queries_sent;

int __wrap_select(int n, fd_set *r, fd_set *w, fd_set *e, struct timeval *tv);
ssize_t __wrap_sendto(int fd, const void *buf, size_t len, int flags,
		      const struct sockaddr *to, socklen_t tolen);
ssize_t __wrap_recvfrom(int fd, void *buf, size_t len, int flags,
			struct sockaddr *from, socklen_t *fromlen);

int
__wrap_select(int n, fd_set *r, fd_set *w, fd_set *e, struct timeval *tv)
{
	(void) n; (void) r; (void) w; (void) e; (void) tv;
	if (script_pos < script_len && last_query_len > 0)
		return 1;	/* an answer is waiting */
	return 0;		/* time out at once */
}

ssize_t
__wrap_sendto(int fd, const void *buf, size_t len, int flags,
	      const struct sockaddr *to, socklen_t tolen)
{
	(void) fd; (void) flags; (void) to; (void) tolen;
	memcpy(last_query, buf, len);
	last_query_len = len;
	queries_sent++;
	return len;
}

ssize_t
__wrap_recvfrom(int fd, void *buf, size_t len, int flags,
		struct sockaddr *from, socklen_t *fromlen)
{
	struct query q;
	int alen;

	(void) fd; (void) flags; (void) from;
	if (fromlen)
		*fromlen = 0;

	memset(&q, 0, sizeof(q));
	if (dns_decode(NULL, 0, &q, QR_QUERY, last_query, last_query_len) <= 0)
		return 0;
	last_query_len = 0;	/* one answer per query */

	alen = dns_encode(buf, len, &q, QR_ANSWER, script[script_pos].data,
			  script[script_pos].len);
	script_pos++;
	return alen;
}

static int
run(const char *title, struct answer *s, int n)
{
	script = s;
	script_len = n;
	script_pos = 0;
	last_query_len = 0;
	queries_sent = 0;

	lazymode = 0;
	selecttimeout = 4;
	handshake_try_lazy(-1);
	printf("    %-46s -> lazymode=%d after %d requests\n", title, lazymode, queries_sent);
	return lazymode;
}

int
main(void)
{
	/* the answer under test is the second one, "La", in both runs;
	   the first one matches nothing the client knows and is skipped */
	static struct answer with_zy[] = { { "??zy", 4 }, { "La", 2 } };
	static struct answer without[] = { { "????", 4 }, { "La", 2 } };
	static struct answer real[] = { { "Lazy", 4 } };
	int l_real, l_zy, l_without;
	FILE *quiet;

	/* the handshake functions chat on stderr */
	quiet = freopen("/dev/null", "w", stderr);
	(void) quiet;

	srand(1);
	client_init();
	client_set_topdomain("t.example.com");
	client_set_qtype("NULL");
	userid = 3;

	l_without = run("answer \"????\", then answer \"La\"", without, 2);
	l_zy = run("answer \"??zy\", then answer \"La\"", with_zy, 2);
	l_real = run("answer \"Lazy\" (what iodined sends)", real, 1);

	if (l_real != 1) {
		printf("    (sanity) the real confirmation was not understood\n");
		printf("FAIL\n");
		return 1;
	}
	if (l_zy != l_without) {
		printf("    => what the 2-byte answer \"La\" means depends on bytes that the\n"
		       "       answer before it left in the buffer\n");
		printf("FAIL\n");
		return 1;
	}
	printf("PASS\n");
	return 0;
}
