#!/bin/sh
# usage: run.sh <source tree root>
# exit 0 = PASS, 1 = FAIL (a short answer is read together with bytes of the answer before it)
TREE=${1:?usage: run.sh <source tree root>}
TREE=$(cd "$TREE" && pwd) || exit 2
HERE=$(cd "$(dirname "$0")" && pwd)
TMP=$(mktemp -d /tmp/c12f1.XXXXXX) || exit 2
trap 'rm -rf "$TMP"' EXIT
S=$TREE/src

CFLAGS="-std=c99 -g -O0 -w -DLINUX -D_GNU_SOURCE -DGITREVISION=\"demo\" -I$S"

sed -e 's/\([Bb][Aa][Ss][Ee]64\)/\1u/g ; s/0123456789+/0123456789_/' \
	< "$S/base64.c" > "$TMP/base64u.c"
cc $CFLAGS -o "$TMP/demo" "$HERE/demo.c" \
	"$S/tun.c" "$S/util.c" "$S/dns.c" "$S/read.c" "$S/encoding.c" "$S/login.c" \
	"$S/base32.c" "$S/base64.c" "$TMP/base64u.c" "$S/base128.c" "$S/md5.c" \
	"$S/common.c" -lz -Wl,--wrap=recvfrom,--wrap=sendto,--wrap=select \
	> "$TMP/build.log" 2>&1 || { cat "$TMP/build.log"; echo "build failed"; exit 2; }

"$TMP/demo"
rc=$?
if [ $rc -eq 0 ]; then
	echo "RESULT: PASS"
	exit 0
fi
echo "RESULT: FAIL"
exit 1
