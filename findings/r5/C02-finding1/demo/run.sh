#!/bin/sh
# usage: run.sh <iodine source tree root>
# exit 1: violation shown (unchanged tree), exit 0: violation does not occur, exit 2: harness problem
ROOT=$(cd "${1:-.}" && pwd) || exit 2
HERE=$(cd "$(dirname "$0")" && pwd)
TMP=$(mktemp -d) || exit 2
trap 'rm -rf "$TMP"' EXIT
sh "$HERE/build.sh" "$ROOT" "$TMP" > "$TMP/build.log" 2>&1 || { cat "$TMP/build.log"; echo "build failed"; exit 2; }

# Clean path: constant 25 ms one-way latency (RTT 50 ms), nothing lost, duplicated
# or reordered.  iodine -T NULL -m 1200, lazy mode, interval 4 (defaults).
# Server tun: a 60-byte packet every 10 ms (more than the tunnel carries: a download).
# Client tun: a packet of 60..900 bytes every 200 ms.
ARGS="seed=5 T=NULL m=1200 L=1 I=4 lat=25000 end=30 up_period=200000 up_size=60 up_size2=900 down_period=10000 down_size=60 sat=1"
"$TMP/sim" $ARGS trace=2 > "$TMP/trace.log" 2>&1
rc=$?
grep -a -E '^(end|up:|down:|RESULT|  up id|  down id|VIOLATION|  WEDGE)' "$TMP/trace.log"
first=$(grep -a -m1 'accepted, never delivered' "$TMP/trace.log" | sed -n 's/^ *up id \([0-9]*\) .*/\1/p')
if [ -n "$first" ]; then
	echo
	echo "What the client did with upstream packet #$first (C->S lines whose name starts with 0 are its data fragments;"
	echo "'resent=' is the client's retry counter, the packet is abandoned when a 4th timeout finds it at 3):"
	grep -a -A40 "tun0 READ id $first len" "$TMP/trace.log" | grep -a -E "tun0 READ id $first |C->S" | head -7 | cut -c1-100
	echo "(the round trip time is 50 ms: the ack of the first transmission could not have arrived before the packet was given up)"
fi
case $rc in
0) echo "PASS: every packet the client accepted from its tun device reached the server's tun device"; exit 0;;
1) echo "FAIL: packets accepted from tun were never delivered although the path lost nothing"; exit 1;;
*) echo "harness problem (rc=$rc)"; cat "$TMP/trace.log" | tail -5; exit 2;;
esac
