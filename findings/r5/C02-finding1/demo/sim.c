/* Deterministic discrete-event harness: real iodine client and real iodined
   tunnel loops as two fibers in one process, virtual time, simulated UDP path
   and tun devices. */
#define _GNU_SOURCE
#include <stdio.h>
#include <stdlib.h>
#include <string.h>
#include <strings.h>
#include <stdarg.h>
#include <stdint.h>
#include <ucontext.h>
#include <unistd.h>
#include <sys/select.h>
#include <sys/socket.h>
#include <sys/time.h>
#include <netinet/in.h>
#include <arpa/inet.h>
#include <time.h>
#include "sim.h"

#define INF ((int64_t)1 << 62)
#define STACKSZ (8 << 20)

struct simcfg cfg;

/* ---------- virtual time ---------- */
static int64_t now_us;
static int64_t epoch_us = 1700000000LL * 1000000LL;   /* + phase */
int64_t sim_now(void) { return now_us; }

time_t __wrap_time(time_t *t)
{
	time_t v = (time_t)((epoch_us + now_us) / 1000000);
	if (t) *t = v;
	return v;
}

/* ---------- PRNG (own, so that rand() stays with the programs) ---------- */
static uint64_t prng_s = 88172645463325252ULL;
static uint32_t prng(void)
{
	prng_s ^= prng_s << 13; prng_s ^= prng_s >> 7; prng_s ^= prng_s << 17;
	return (uint32_t)(prng_s >> 16);
}
static double prngf(void) { return (prng() & 0xffffff) / (double)0x1000000; }

/* ---------- datagram queues ---------- */
struct dgram { int64_t at; int len; struct dgram *next; char data[]; };
static struct dgram *sockq[2];	/* 0: towards client, 1: towards server */
static long sent_cnt[2], deliv_cnt[2], drop_cnt[2];

static void q_insert(struct dgram **q, struct dgram *d)
{
	while (*q && (*q)->at <= d->at) q = &(*q)->next;
	d->next = *q; *q = d;
}

/* network model */
static int64_t lat_up = 0, lat_down = 0;	/* us */
static int64_t fault_start = INF, fault_end = INF;
static double p_drop = 0.3, p_dup = 0.1, p_delay = 0.3;
static int64_t max_extra_delay = 3000000;
static int64_t blackout_start = INF, blackout_end = INF; /* total loss both dirs */
static int blackout_dir = 3;
static int trace;
static int jitter_us = 0;

struct rule { int dir; char kind; char prefix[32]; int64_t t0, t1; char action; int64_t param; long hits; };
static struct rule rules[16]; static int nrules;
static int relay;

static int rule_match(struct rule *r, int dir, const unsigned char *b, int len)
{
	if (r->dir != dir || now_us < r->t0 || now_us >= r->t1) return 0;
	if (r->kind == 'r') return len >= 4 && b[0] == 0x10 && b[1] == 0xd1 && b[2] == 0x9e;
	if (len < 14 + (int)strlen(r->prefix) || b[0] == 0x10) return 0;
	return !strncasecmp((const char *)b + 13, r->prefix, strlen(r->prefix));
}

static void net_send(int dir, const void *buf, int len)
{
	int copies = 1, i;
	int64_t base = (dir == 1) ? lat_up : lat_down;
	sent_cnt[dir]++;
	for (i = 0; i < nrules; i++) if (rule_match(&rules[i], dir, buf, len)) {
		rules[i].hits++;
		if (rules[i].action == 'x') { drop_cnt[dir]++; if (trace) fprintf(stdout, "%10.3f rule %d: DROP\n", now_us / 1e6, i); return; }
		if (rules[i].action == 'd') { base += rules[i].param; if (trace) fprintf(stdout, "%10.3f rule %d: DELAY %.3f s\n", now_us / 1e6, i, rules[i].param / 1e6); }
		break;
	}
	if (now_us >= blackout_start && now_us < blackout_end && (blackout_dir & (1 << dir))) {
		drop_cnt[dir]++;
		return;
	}
	if (now_us >= fault_start && now_us < fault_end) {
		double r = prngf();
		if (r < p_drop) { drop_cnt[dir]++; if (trace > 1) fprintf(stdout, "%10.3f net dir%d DROP\n", now_us / 1e6, dir); return; }
		if (prngf() < p_dup) copies = 2 + (prng() % 2);
	}
	for (i = 0; i < copies; i++) {
		struct dgram *d = malloc(sizeof(*d) + len);
		int64_t delay = base;
		if (jitter_us) delay += prng() % jitter_us;
		if (now_us >= fault_start && now_us < fault_end && prngf() < p_delay) {
			delay += prng() % max_extra_delay;
			if (now_us + delay > fault_end) delay = (fault_end > now_us ? fault_end - now_us : 0) + base;
			/* never deliver later than a bit after the fault window: keep
			   "clean suffix" clean except for stragglers below */
		}
		d->at = now_us + delay; d->len = len; memcpy(d->data, buf, len);
		q_insert(&sockq[dir], d);
	}
}

/* ---------- tun devices ---------- */
struct tpkt { int64_t at; int len; int id; struct tpkt *next; unsigned char data[]; };
static struct tpkt *tunq[2], **tunq_tail[2] = { &tunq[0], &tunq[1] };	/* 0 client, 1 server */

#define MAXP 200000
struct pinfo { int64_t offered, read_at, delivered; int len; int accepted; int ndeliv; };
static struct pinfo pinf[2][MAXP];
static int npk[2];
static int deliv_order[2][MAXP], ndeliv_order[2];
static long garbage_writes[2];

static in_addr_t client_tun_ip;

static void fill(unsigned char *p, int len, int side, int id, int compressible)
{
	uint32_t s = 0x9e3779b9u * (id + 1) + side * 77;
	int i;
	memset(p, 0, len);
	p[0] = 0; p[1] = 0; p[2] = 8; p[3] = 0;
	p[4] = 0x45; p[6] = (len - 4) >> 8; p[7] = (len - 4) & 255;
	p[12] = 64; p[13] = 17;
	if (side == 0) { /* from client towards server tun */
		memcpy(p + 16, "\x0a\x00\x00\x02", 4); memcpy(p + 20, "\x0a\x00\x00\x01", 4);
	} else {
		memcpy(p + 16, "\x0a\x00\x00\x01", 4); memcpy(p + 20, &client_tun_ip, 4);
	}
	memcpy(p + 24, "IoDs", 4); p[27] = 'c' + side;
	p[28] = id >> 24; p[29] = id >> 16; p[30] = id >> 8; p[31] = id;
	for (i = 32; i < len; i++) {
		s = s * 1664525u + 1013904223u;
		p[i] = compressible ? (unsigned char)('a' + (i % 3)) : (unsigned char)(s >> 24);
	}
}

static int comp_flag[2];
static void tun_offer(int side, int64_t at, int len)
{
	struct tpkt *t;
	int id = npk[side]++;
	if (len < 32) len = 32;
	t = malloc(sizeof(*t) + len);
	t->at = at; t->len = len; t->id = id; t->next = NULL;
	fill(t->data, len, side, id, comp_flag[side]);
	pinf[side][id].offered = at; pinf[side][id].len = len; pinf[side][id].read_at = -1; pinf[side][id].delivered = -1;
	*tunq_tail[side] = t; tunq_tail[side] = &t->next;
}

extern int cl_is_sending(void);
extern int cl_outresent(void);

int open_tun(const char *d) { return -1; }
void close_tun(int fd) { }
int tun_setip(const char *ip, const char *other, int nm) { client_tun_ip = inet_addr(ip); return 0; }
int tun_setmtu(const unsigned m) { return 0; }

ssize_t read_tun(int fd, char *buf, size_t len)
{
	int side = (fd == CL_TUN) ? 0 : 1;
	struct tpkt *t = tunq[side];
	int n;
	if (!t || t->at > now_us) { fprintf(stdout, "BUG read_tun without data\n"); return -1; }
	tunq[side] = t->next;
	if (!tunq[side]) tunq_tail[side] = &tunq[side];
	n = t->len; memcpy(buf, t->data, n);
	pinf[side][t->id].read_at = now_us;
	pinf[side][t->id].accepted = (side == 0) ? !cl_is_sending() : 1;
	if (trace) fprintf(stdout, "%10.3f tun%d READ id %d len %d%s\n", now_us / 1e6, side, t->id, n,
		pinf[side][t->id].accepted ? "" : " (dropped by client, busy)");
	free(t);
	return n;
}

int write_tun(int fd, char *data, size_t len)
{
	int side = (fd == CL_TUN) ? 0 : 1;	/* device written */
	int from = 1 - side;			/* origin side */
	unsigned char *p = (unsigned char *)data;
	unsigned char *ref;
	int id;
	if (len < 32 || memcmp(p + 24, "IoD", 3) || p[27] != 'c' + from) {
		garbage_writes[side]++;
		if (trace) fprintf(stdout, "%10.3f tun%d WRITE garbage len %d\n", now_us / 1e6, side, (int)len);
		return 0;
	}
	id = (p[28] << 24) | (p[29] << 16) | (p[30] << 8) | p[31];
	if (id < 0 || id >= npk[from] || pinf[from][id].len != (int)len) { garbage_writes[side]++; return 0; }
	ref = malloc(len);
	fill(ref, len, from, id, comp_flag[from]);
	if (memcmp(ref, p, len)) { garbage_writes[side]++; free(ref); return 0; }
	free(ref);
	pinf[from][id].ndeliv++;
	if (pinf[from][id].delivered < 0) pinf[from][id].delivered = now_us;
	deliv_order[from][ndeliv_order[from]++] = id;
	if (trace) fprintf(stdout, "%10.3f tun%d WRITE id %d (from side %d) len %d, %.3f s after offer\n", now_us / 1e6,
		side, id, from, (int)len, (now_us - pinf[from][id].offered) / 1e6);
	return 0;
}

/* ---------- fibers ---------- */
struct fiber {
	ucontext_t ctx;
	int started, done, waiting;
	fd_set want; int64_t deadline;
	fd_set ready; int nready;
	int64_t sleep_until;
	void (*fn)(void);
} fib[2];
static struct fiber *cur;
static ucontext_t sched_ctx;

static void fiber_entry(int i)
{
	fib[i].fn();
	fib[i].done = 1;
	swapcontext(&fib[i].ctx, &sched_ctx);
}

static int fd_readable(int fd)
{
	if (fd == CL_DNS) return sockq[0] && sockq[0]->at <= now_us;
	if (fd == SV_DNS) return sockq[1] && sockq[1]->at <= now_us;
	if (fd == CL_TUN) return tunq[0] && tunq[0]->at <= now_us;
	if (fd == SV_TUN) return tunq[1] && tunq[1]->at <= now_us;
	return 0;
}
static int64_t fd_next(int fd)
{
	if (fd == CL_DNS) return sockq[0] ? sockq[0]->at : INF;
	if (fd == SV_DNS) return sockq[1] ? sockq[1]->at : INF;
	if (fd == CL_TUN) return tunq[0] ? tunq[0]->at : INF;
	if (fd == SV_TUN) return tunq[1] ? tunq[1]->at : INF;
	return INF;
}
static const int allfds[4] = { CL_DNS, CL_TUN, SV_DNS, SV_TUN };

int __wrap_select(int n, fd_set *r, fd_set *w, fd_set *e, struct timeval *tv)
{
	struct fiber *f = cur;
	if (r) f->want = *r; else FD_ZERO(&f->want);
	f->deadline = tv ? now_us + tv->tv_sec * 1000000LL + tv->tv_usec : INF;
	f->waiting = 1;
	swapcontext(&f->ctx, &sched_ctx);
	if (r) *r = f->ready;
	return f->nready;
}

unsigned int __wrap_sleep(unsigned int s)
{
	struct fiber *f = cur;
	FD_ZERO(&f->want);
	f->deadline = now_us + s * 1000000LL;
	f->waiting = 1;
	swapcontext(&f->ctx, &sched_ctx);
	return 0;
}

ssize_t __wrap_sendto(int fd, const void *buf, size_t len, int flags, const struct sockaddr *to, socklen_t tolen)
{
	if (trace > 1) {
		const unsigned char *b = buf;
		if (len > 20 && b[0] != 0x10) {
			char nm[13]; int k;
			for (k = 0; k < 12 && 13 + k < (int)len; k++) nm[k] = (b[13 + k] >= 33 && b[13 + k] < 127) ? b[13 + k] : '.';
			nm[k] = 0;
			fprintf(stdout, "%10.3f %s id %5d  %-12s len %d (resent=%d sending=%d)\n", now_us / 1e6, fd == CL_DNS ? "C->S" : "  S->C", (b[0] << 8) | b[1], nm, (int)len, cl_outresent(), cl_is_sending());
		}
		else fprintf(stdout, "%10.3f %s raw len %d\n", now_us / 1e6, fd == CL_DNS ? "C->S" : "  S->C", (int)len);
	}
	if (fd == CL_DNS) net_send(1, buf, len);
	else if (fd == SV_DNS) net_send(0, buf, len);
	else return -1;
	return len;
}

static int sock_pop(int fd, void *buf, size_t len)
{
	int dir = (fd == CL_DNS) ? 0 : 1;
	struct dgram *d = sockq[dir];
	int n;
	if (!d || d->at > now_us) { fprintf(stdout, "BUG recv without data fd %d\n", fd); return -1; }
	sockq[dir] = d->next;
	n = d->len < (int)len ? d->len : (int)len;
	memcpy(buf, d->data, n);
	free(d);
	deliv_cnt[dir]++;
	return n;
}

ssize_t __wrap_recvfrom(int fd, void *buf, size_t len, int flags, struct sockaddr *from, socklen_t *fromlen)
{
	int n = sock_pop(fd, buf, len);
	if (from && fromlen) {
		struct sockaddr_in a; memset(&a, 0, sizeof(a));
		a.sin_family = AF_INET; a.sin_port = htons(53); a.sin_addr.s_addr = inet_addr("10.1.1.1");
		memcpy(from, &a, sizeof(a)); *fromlen = sizeof(a);
	}
	return n;
}
ssize_t __wrap_recv(int fd, void *buf, size_t len, int flags)
{
	return sock_pop(fd, buf, len);
}
ssize_t __wrap_recvmsg(int fd, struct msghdr *msg, int flags)
{
	int n = sock_pop(fd, msg->msg_iov[0].iov_base, msg->msg_iov[0].iov_len);
	struct sockaddr_in a; memset(&a, 0, sizeof(a));
	a.sin_family = AF_INET; a.sin_port = htons(40000); a.sin_addr.s_addr = inet_addr("10.2.2.2");
	if (relay && n >= 4 && ((unsigned char *)msg->msg_iov[0].iov_base)[0] == 0x10) a.sin_addr.s_addr = inet_addr("10.3.3.3");
	memcpy(msg->msg_name, &a, sizeof(a)); msg->msg_namelen = sizeof(a);
	msg->msg_controllen = 0;
	return n;
}
void __wrap_syslog(int p, const char *f, ...) { }

static void resume(struct fiber *f)
{
	int i;
	FD_ZERO(&f->ready); f->nready = 0;
	for (i = 0; i < 4; i++)
		if (FD_ISSET(allfds[i], &f->want) && fd_readable(allfds[i])) { FD_SET(allfds[i], &f->ready); f->nready++; }
	f->waiting = 0;
	cur = f;
	swapcontext(&sched_ctx, &f->ctx);
	cur = NULL;
}

static int fiber_ready(struct fiber *f)
{
	int i;
	if (f->done) return 0;
	if (!f->started) return 1;
	if (f->deadline <= now_us) return 1;
	for (i = 0; i < 4; i++)
		if (FD_ISSET(allfds[i], &f->want) && fd_readable(allfds[i])) return 1;
	return 0;
}
static int64_t fiber_next(struct fiber *f)
{
	int64_t t = f->deadline; int i;
	if (f->done) return INF;
	for (i = 0; i < 4; i++)
		if (FD_ISSET(allfds[i], &f->want) && fd_next(allfds[i]) < t) t = fd_next(allfds[i]);
	return t;
}

/* ---------- scenario: traffic generation ---------- */
static int64_t end_us = 60000000;
static int64_t up_period = 0, down_period = 0;	/* 0 = none */
static int up_size = 100, down_size = 100, up_size2 = 0, down_size2 = 0;
static int64_t traffic_start_after_tunnel = 2000000;
static int64_t tunnel_t0 = -1;
static int64_t next_up = INF, next_down = INF;
static int64_t check_from = -1;	/* oracle: packets offered at/after this time (relative to tunnel start) must arrive */
static int64_t check_margin = 5000000, check_after_fault = -1;
static int burst_up = 1, burst_down = 1, sat = 0;
static int64_t up_phase = 0, down_phase = 0;
static int64_t traffic_stop = INF;

static int pick_size(int a, int b) { if (!b || b <= a) return a; return a + prng() % (b - a + 1); }

static void gen_traffic(void)
{
	int i;
	if (tunnel_t0 < 0) {
		if (!cl_in_tunnel) return;
		tunnel_t0 = now_us;
		if (up_period) next_up = tunnel_t0 + traffic_start_after_tunnel + up_phase;
		if (down_period) next_down = tunnel_t0 + traffic_start_after_tunnel + down_phase;
		if (fault_start != INF && fault_start < 0) { }
	}
	while (next_up <= now_us) {
		if (next_up - tunnel_t0 < traffic_stop)
		for (i = 0; i < burst_up; i++) tun_offer(0, next_up, pick_size(up_size, up_size2));
		next_up += up_period;
	}
	while (next_down <= now_us) {
		if (next_down - tunnel_t0 < traffic_stop)
		for (i = 0; i < burst_down; i++) tun_offer(1, next_down, pick_size(down_size, down_size2));
		next_down += down_period;
	}
}

static int64_t rel_fault_start = -1, rel_fault_len = 0, rel_black_start = -1, rel_black_len = 0;

int main(int argc, char **argv)
{
	int i, rc = 0, side;
	uint64_t seed = 1;
	int quiet = 1;
	int64_t phase = 0;

	cfg.qtype = "NULL"; cfg.downenc = NULL; cfg.lazy = 1; cfg.interval = 4; cfg.raw = 0;
	cfg.autofrag = 0; cfg.fragsize = 1200; cfg.maxlen = 255; cfg.topdomain = "t.example.com";
	cfg.check_ip = 1; cfg.netmask = 27;

	for (i = 1; i < argc; i++) {
		char *a = argv[i], *v = strchr(a, '=');
		if (!v) { fprintf(stderr, "bad arg %s\n", a); return 2; }
		*v++ = 0;
#define K(s) (!strcmp(a, s))
		if K("seed") seed = strtoull(v, 0, 0);
		else if K("T") cfg.qtype = strcmp(v, "auto") ? v : NULL;
		else if K("O") cfg.downenc = strcmp(v, "auto") ? v : NULL;
		else if K("L") cfg.lazy = atoi(v);
		else if K("I") cfg.interval = atoi(v);
		else if K("raw") cfg.raw = atoi(v);
		else if K("m") { cfg.fragsize = atoi(v); cfg.autofrag = (cfg.fragsize == 0); }
		else if K("M") cfg.maxlen = atoi(v);
		else if K("domain") cfg.topdomain = v;
		else if K("c") cfg.check_ip = !atoi(v);
		else if K("lat_up") lat_up = atoll(v);
		else if K("lat_down") lat_down = atoll(v);
		else if K("lat") lat_up = lat_down = atoll(v);
		else if K("jitter") jitter_us = atoi(v);
		else if K("end") end_us = atoll(v) * 1000000;
		else if K("up_period") up_period = atoll(v);
		else if K("down_period") down_period = atoll(v);
		else if K("up_size") up_size = atoi(v);
		else if K("down_size") down_size = atoi(v);
		else if K("up_size2") up_size2 = atoi(v);
		else if K("down_size2") down_size2 = atoi(v);
		else if K("up_phase") up_phase = atoll(v);
		else if K("down_phase") down_phase = atoll(v);
		else if K("burst_up") burst_up = atoi(v);
		else if K("burst_down") burst_down = atoi(v);
		else if K("comp_up") comp_flag[0] = atoi(v);
		else if K("comp_down") comp_flag[1] = atoi(v);
		else if K("traffic_delay") traffic_start_after_tunnel = atoll(v);
		else if K("traffic_stop") traffic_stop = atoll(v);
		else if K("fault_start") rel_fault_start = atoll(v);	/* us after tunnel start; -2 = from time 0 (handshake) */
		else if K("fault_len") rel_fault_len = atoll(v);
		else if K("black_start") rel_black_start = atoll(v);
		else if K("black_len") rel_black_len = atoll(v);
		else if K("black_dir") blackout_dir = atoi(v);
		else if K("p_drop") p_drop = atof(v);
		else if K("p_dup") p_dup = atof(v);
		else if K("p_delay") p_delay = atof(v);
		else if K("max_delay") max_extra_delay = atoll(v);
		else if K("check_from") check_from = atoll(v);
		else if K("check_after_fault") check_after_fault = atoll(v);
		else if K("check_margin") check_margin = atoll(v);
		else if K("trace") trace = atoi(v);
		else if K("relay") relay = atoi(v);
		else if K("rule") {
			/* dir:kind:prefix:t0:t1:action:param */
			struct rule *r = &rules[nrules++]; char act[16];
			if (sscanf(v, "%d:%c:%31[^:]:%lld:%lld:%15[^:]:%lld", &r->dir, &r->kind, r->prefix, (long long *)&r->t0, (long long *)&r->t1, act, (long long *)&r->param) < 6) { fprintf(stderr, "bad rule\n"); return 2; }
			r->action = !strcmp(act, "drop") ? 'x' : 'd';
		}
		else if K("sat") sat = atoi(v);
		else if K("quiet") quiet = atoi(v);
		else if K("phase") phase = atoll(v);
		else { fprintf(stderr, "unknown arg %s\n", a); return 2; }
	}
	prng_s ^= seed * 0x9E3779B97F4A7C15ULL; for (i = 0; i < 8; i++) prng();
	srand((unsigned)seed);
	epoch_us += phase;
	if (quiet) { if (!freopen("/dev/null", "w", stderr)) return 2; }
	setvbuf(stdout, NULL, _IOLBF, 0);
	if (rel_fault_start == -2) { fault_start = 0; fault_end = rel_fault_len; }

	fib[0].fn = cl_main; fib[1].fn = sv_main;
	for (i = 0; i < 2; i++) {
		getcontext(&fib[i].ctx);
		fib[i].ctx.uc_stack.ss_sp = malloc(STACKSZ);
		fib[i].ctx.uc_stack.ss_size = STACKSZ;
		fib[i].ctx.uc_link = &sched_ctx;
		makecontext(&fib[i].ctx, (void (*)(void))fiber_entry, 1, i);
		fib[i].deadline = INF;
	}
	/* start server first so that it waits in select */
	fib[1].started = 1; cur = &fib[1]; swapcontext(&sched_ctx, &fib[1].ctx);
	fib[0].started = 1; cur = &fib[0]; swapcontext(&sched_ctx, &fib[0].ctx);

	while (now_us < end_us && !fib[0].done) {
		int progressed = 0;
		gen_traffic();
		if (tunnel_t0 >= 0 && rel_fault_start >= 0 && fault_start == INF) {
			fault_start = tunnel_t0 + rel_fault_start; fault_end = fault_start + rel_fault_len;
		}
		if (tunnel_t0 >= 0 && rel_black_start >= 0 && blackout_start == INF) {
			blackout_start = tunnel_t0 + rel_black_start; blackout_end = blackout_start + rel_black_len;
		}
		/* server first: it is the one that answers; deterministic order */
		for (i = 1; i >= 0; i--) {
			if (fib[i].waiting && fiber_ready(&fib[i])) { resume(&fib[i]); progressed = 1; break; }
		}
		if (progressed) continue;
		{
			int64_t t = INF, x;
			for (i = 0; i < 2; i++) { x = fiber_next(&fib[i]); if (x < t) t = x; }
			if (next_up < t) t = next_up;
			if (next_down < t) t = next_down;
			if (tunnel_t0 < 0 && cl_in_tunnel) t = now_us;
			if (t == INF || t > end_us) t = end_us;
			if (t < now_us) t = now_us;
			if (t == now_us && !(tunnel_t0 < 0 && cl_in_tunnel) && !(next_up <= now_us) && !(next_down <= now_us)) {
				/* nothing can happen */
				if (t == end_us) break;
			}
			now_us = t;
		}
	}

	/* ---------- oracle ---------- */
	printf("end t=%.3f tunnel_t0=%.3f handshake_rc=%d client_exited=%d sent c->s %ld (drop %ld) s->c %ld (drop %ld)\n",
		now_us / 1e6, tunnel_t0 / 1e6, cl_handshake_rc, cl_exited, sent_cnt[1], drop_cnt[1], sent_cnt[0], drop_cnt[0]);
	if (tunnel_t0 < 0) { printf("RESULT: no tunnel (handshake failed)\n"); return 3; }
	if (check_after_fault >= 0) {
		int64_t fe = fault_end != INF ? fault_end : tunnel_t0;
		if (blackout_end != INF && blackout_end > fe) fe = blackout_end;
		if (fe < tunnel_t0) fe = tunnel_t0;
		check_from = fe + check_after_fault - tunnel_t0;
		printf("checking packets offered from t=%.3f\n", (check_from + tunnel_t0) / 1e6);
	}
	if (cl_exited) { printf("VIOLATION: client left tunnel mode at t=%.3f\n", now_us / 1e6); rc = 1; }
	for (side = 0; side < 2; side++) {
		int lost = 0, dup = 0, ooo = 0, last = -1, late = 0, acc = 0, del = 0, notread = 0;
		int64_t maxlat = 0;
		const char *nm = side ? "down" : "up";
		for (i = 0; i < ndeliv_order[side]; i++) {
			if (deliv_order[side][i] <= last) {
				if (pinf[side][deliv_order[side][i]].ndeliv > 1) ; else ooo++;
			} else last = deliv_order[side][i];
		}
		/* order check ignoring dups */
		{
			int l2 = -1; ooo = 0;
			for (i = 0; i < ndeliv_order[side]; i++) { int id = deliv_order[side][i];
				if (check_from >= 0 && pinf[side][id].offered - tunnel_t0 < check_from) continue;
				if (id < l2) ooo++; else l2 = id; }
		}
		for (i = 0; i < npk[side]; i++) {
			struct pinfo *p = &pinf[side][i];
			int in_scope = (check_from < 0) ? 1 : (p->offered - tunnel_t0 >= check_from);
			if (p->offered > end_us - check_margin) continue;
			if (!in_scope) continue;
			if (p->read_at < 0) { if (!sat) notread++; if (trace) printf("  %s id %d offered %.3f never read from tun\n", nm, i, p->offered / 1e6); continue; }
			if (!p->accepted) continue;
			acc++;
			if (p->ndeliv == 0 && p->read_at > end_us - check_margin) continue;
			if (p->ndeliv == 0) { lost++; if (lost <= 10) printf("  %s id %d len %d offered %.3f read %.3f: accepted, never delivered\n", nm, i, p->len, p->offered / 1e6, p->read_at / 1e6); }
			else {
				del++;
				if (p->ndeliv > 1) { dup++; if (dup <= 10) printf("  %s id %d delivered %d times\n", nm, i, p->ndeliv); }
				if (p->delivered - p->offered > maxlat) maxlat = p->delivered - p->offered;
				if (!sat && p->delivered - p->offered > check_margin) late++;
			}
		}
		{
			int offered_late = 0, deliv_late = 0;
			for (i = 0; i < npk[side]; i++) {
				struct pinfo *p = &pinf[side][i];
				if (p->offered >= end_us - 25000000 && p->offered < end_us - 10000000) offered_late++;
				if (p->delivered >= end_us - 25000000) deliv_late++;
			}
			if (offered_late > 0 && deliv_late == 0) { printf("  WEDGE %s: %d offered in the last 25..10 s, nothing delivered in the last 25 s\n", nm, offered_late); rc = 1; }
		}
		printf("%s: offered %d in-scope accepted %d delivered %d lost %d dup %d out-of-order %d notread %d late %d maxlat %.3f garbage %ld\n",
			nm, npk[side], acc, del, lost, dup, ooo, notread, late, maxlat / 1e6, garbage_writes[1 - side]);
		if (lost || dup || ooo || notread || late || garbage_writes[1 - side]) rc = 1;
	}
	printf("RESULT: %s\n", rc ? "FAIL" : "ok");
	return rc;
}
