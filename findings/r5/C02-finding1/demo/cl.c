#include "../src/client.c"
#include "sim.h"
int cl_in_tunnel, cl_exited, cl_handshake_rc;
/* introspection for the harness */
int cl_is_sending(void) { return is_sending(); }
int cl_outresent(void) { return outchunkresent; }
int cl_lazymode(void) { return lazymode; }
int cl_seltimeout(void) { return selecttimeout; }
void cl_main(void)
{
	struct sockaddr_in a;
	client_init();
	memset(&a, 0, sizeof(a));
	a.sin_family = AF_INET; a.sin_port = htons(53); a.sin_addr.s_addr = inet_addr("10.1.1.1");
	client_set_nameserver((struct sockaddr_storage *)&a, sizeof(a));
	client_set_topdomain(cfg.topdomain);
	{ static char pw[33] = "secret"; client_set_password(pw); }
	if (cfg.qtype) client_set_qtype((char *)cfg.qtype);
	if (cfg.downenc) client_set_downenc((char *)cfg.downenc);
	client_set_selecttimeout(cfg.lazy ? cfg.interval : 1);
	client_set_lazymode(cfg.lazy);
	client_set_hostname_maxlen(cfg.maxlen);
	{ int k, seed; const char *e = getenv("PREVUSERS"); if (do_qtype == T_UNSET) do_qtype = T_NULL; for (k = 0; e && k < atoi(e); k++) handshake_version(CL_DNS, &seed); }
	cl_handshake_rc = client_handshake(CL_DNS, cfg.raw, cfg.autofrag, cfg.fragsize);
	if (cl_handshake_rc == 0) {
		cl_in_tunnel = 1;
		client_tunnel(CL_TUN, CL_DNS);
	}
	cl_exited = 1;
}
