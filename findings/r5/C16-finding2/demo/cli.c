#include "client.c"
#include "sim.h"

void cli_setup(const char *td, const char *pw, int lazy, int seltimeout,
	       const char *qtype, const char *denc, int maxlen)
{
	struct sockaddr_storage ss;
	struct sockaddr_in *sin = (struct sockaddr_in *) &ss;

	client_init();
	memset(&ss, 0, sizeof(ss));
	sin->sin_family = AF_INET;
	sin->sin_port = htons(53);
	sin->sin_addr.s_addr = inet_addr("192.0.2.53");
	client_set_nameserver(&ss, sizeof(*sin));
	client_set_topdomain(strdup(td));
	{ static char pwbuf[33]; memset(pwbuf,0,sizeof(pwbuf)); strncpy(pwbuf,pw,32); client_set_password(pwbuf); }
	if (qtype)
		client_set_qtype((char *) qtype);
	if (denc)
		client_set_downenc((char *) denc);
	client_set_selecttimeout(seltimeout);
	client_set_lazymode(lazy);
	client_set_hostname_maxlen(maxlen);
}

int cli_handshake(int autofrag, int fragsize)
{
	int r, save = sim_ctx;
	sim_ctx = CTX_CLI;
	r = client_handshake(CLI_DNS_FD, 0, autofrag, fragsize);
	sim_ctx = save;
	return r;
}

void cli_run(void)
{
	int save = sim_ctx;
	sim_ctx = CTX_CLI;
	running = 1;
	client_tunnel(CLI_TUN_FD, CLI_DNS_FD);
	sim_ctx = save;
}

void cli_stop(void)
{
	running = 0;
}

int cli_is_sending(void)
{
	return is_sending();
}

int cli_lazymode(void)
{
	return lazymode;
}

const char *cli_upenc(void)
{
	return dataenc->name;
}

void cli_inpkt(int *seq, int *frag, int *len)
{
	*seq = inpkt.seqno;
	*frag = inpkt.fragment;
	*len = inpkt.len;
}

static long sv_sendcnt, sv_recvcnt;
static time_t sv_lastdown;

void cli_save_counters(void);
void cli_restore_counters(void);

void cli_save_counters(void)
{
	sv_sendcnt = send_query_sendcnt;
	sv_recvcnt = send_query_recvcnt;
	sv_lastdown = lastdownstreamtime;
}

void cli_restore_counters(void)
{
	static int first = 1;
	if (first) {
		/* the very first client_tunnel() entry is the real one */
		first = 0;
		return;
	}
	send_query_sendcnt = sv_sendcnt;
	send_query_recvcnt = sv_recvcnt;
	lastdownstreamtime = sv_lastdown;
}
