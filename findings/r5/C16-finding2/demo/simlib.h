#ifndef SIMLIB_H
#define SIMLIB_H
#include <stdint.h>
#include <netinet/in.h>
struct dgram { int len; unsigned char *d; struct sockaddr_in peer; int tag; };
struct dvec { struct dgram *v; int n, cap, head; };
void dv_push(struct dvec *v, const void *d, int len, const struct sockaddr_in *peer, int tag);
int dv_pending(struct dvec *v);
struct dgram *dv_pop(struct dvec *v);
extern struct dvec srv_in, cli_in, srv_tun_in, cli_tun_in, srv_tun_out, cli_tun_out, c2s, s2c;
extern long long now_ms;
extern int hs_mode, sim_verbose, next_port;
#define RD_NEWID 1
#define RD_RECASE 2
#define RD_RECASE_TOP 4
void sim_init(void);
void srv_step_input(void);
void srv_step_timeout(void);
int cli_step_input(void);
void cli_step_timeout(void);
int relay_deliver(int qi, int flags, const char *relay_ip);
void relay_answer(int ai, int qi);
int relay_deliver_bytes(const unsigned char *b, int len, const char *relay_ip);
int dns_question(const unsigned char *p, int len, char *name, int namesz, int *type);
int dns_rdata(const unsigned char *p, int len, const unsigned char **rd);
int make_ip(unsigned char *out, const char *src, const char *dst, uint32_t serial, int paylen, int compressible);
uint32_t ip_serial(const unsigned char *p, int len);
int srv_snapshot(unsigned char *out, int cap);
#endif
