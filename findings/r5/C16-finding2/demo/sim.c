/* In-process harness: the real iodine client and the real iodined server,
   joined by a scripted DNS relay. No sockets, no tun device, virtual clock. */
#include <stdio.h>
#include <stdlib.h>
#include <string.h>
#include <stdint.h>
#include <errno.h>
#include <ctype.h>
#include <time.h>
#include <sys/select.h>
#include <sys/time.h>
#include <arpa/inet.h>
#include "common.h"
#include "user.h"
#include "sim.h"
#include "simlib.h"

int sim_ctx = CTX_NONE;
int sim_verbose = 0;
long long now_ms = 0;
int hs_mode = 0;
int hs_recase = 0;

/* ---------- small dgram vectors ---------- */

void dv_push(struct dvec *v, const void *d, int len, const struct sockaddr_in *peer, int tag)
{
	struct dgram *g;
	if (v->n == v->cap) {
		v->cap = v->cap ? v->cap * 2 : 64;
		v->v = realloc(v->v, v->cap * sizeof(*v->v));
	}
	g = &v->v[v->n++];
	memset(g, 0, sizeof(*g));
	g->len = len;
	g->d = malloc(len ? len : 1);
	memcpy(g->d, d, len);
	if (peer)
		g->peer = *peer;
	g->tag = tag;
}

int dv_pending(struct dvec *v)
{
	return v->n - v->head;
}

struct dgram *dv_pop(struct dvec *v)
{
	if (v->head >= v->n)
		return NULL;
	return &v->v[v->head++];
}

struct dvec srv_in, cli_in, srv_tun_in, cli_tun_in, srv_tun_out, cli_tun_out;
struct dvec c2s;	/* every query the client sent, in order */
struct dvec s2c;	/* every datagram the server sent, in order */

/* ---------- step control ---------- */

enum { EV_NONE, EV_INPUT, EV_TIMEOUT };
static int srv_ev, cli_ev;
static int srv_calls, cli_calls;
int cli_ev_delivered;

/* cli.c counters that client_tunnel() resets on entry */
extern void cli_save_counters(void);
extern void cli_restore_counters(void);

static void advance_tv(struct timeval *tv)
{
	if (tv)
		now_ms += (long long) tv->tv_sec * 1000 + tv->tv_usec / 1000;
}

static struct sockaddr_in cli_addr;

int __wrap_select(int nfds, fd_set *r, fd_set *w, fd_set *e, struct timeval *tv)
{
	int n = 0;

	if (sim_ctx == CTX_SRV) {
		int want_tun = r && FD_ISSET(SRV_TUN_FD, r);
		if (r)
			FD_ZERO(r);
		if (srv_calls++ == 0) {
			if (srv_ev == EV_INPUT) {
				if (dv_pending(&srv_in)) {
					FD_SET(SRV_DNS_FD, r);
					n++;
				}
				if (dv_pending(&srv_tun_in) && want_tun) {
					FD_SET(SRV_TUN_FD, r);
					n++;
				}
				if (n)
					return n;
			} else if (srv_ev == EV_TIMEOUT) {
				advance_tv(tv);
				return 0;
			}
		}
		srv_stop();
		errno = EINTR;
		return -1;
	}

	if (sim_ctx == CTX_CLI) {
		int want_tun = r && FD_ISSET(CLI_TUN_FD, r);
		if (r)
			FD_ZERO(r);
		if (hs_mode) {
			if (dv_pending(&cli_in)) {
				FD_SET(CLI_DNS_FD, r);
				return 1;
			}
			advance_tv(tv);
			return 0;
		}
		if (cli_calls++ == 0) {
			cli_restore_counters();
			if (cli_ev == EV_INPUT) {
				if (dv_pending(&cli_in)) {
					FD_SET(CLI_DNS_FD, r);
					n++;
				}
				if (dv_pending(&cli_tun_in) && want_tun) {
					FD_SET(CLI_TUN_FD, r);
					n++;
				}
				if (n) {
					cli_ev_delivered = 1;
					return n;
				}
			} else if (cli_ev == EV_TIMEOUT) {
				advance_tv(tv);
				cli_ev_delivered = 1;
				return 0;
			}
		}
		cli_stop();
		return 0;
	}

	fprintf(stderr, "select outside of any context\n");
	abort();
}

time_t __wrap_time(time_t *t)
{
	time_t v = 1700000000 + now_ms / 1000;
	if (t)
		*t = v;
	return v;
}

unsigned int __wrap_sleep(unsigned int s)
{
	now_ms += 1000LL * s;
	return 0;
}

void srv_step_input(void)
{
	srv_ev = EV_INPUT;
	srv_calls = 0;
	srv_run();
}

void srv_step_timeout(void)
{
	srv_ev = EV_TIMEOUT;
	srv_calls = 0;
	srv_run();
}

int cli_step_input(void)
{
	cli_ev = EV_INPUT;
	cli_calls = 0;
	cli_ev_delivered = 0;
	cli_save_counters();
	cli_run();
	return cli_ev_delivered;
}

void cli_step_timeout(void)
{
	cli_ev = EV_TIMEOUT;
	cli_calls = 0;
	cli_save_counters();
	cli_run();
}

/* ---------- socket wrappers ---------- */

int next_port = 2000;
int cur_delivery = -1;

ssize_t __wrap_sendto(int fd, const void *buf, size_t len, int flags,
		      const struct sockaddr *to, socklen_t tolen)
{
	if (sim_ctx == CTX_CLI) {
		dv_push(&c2s, buf, len, NULL, 0);
		if (hs_mode) {
			/* handshake: transparent relay, answer comes at once */
			int first = s2c.n, i;
			struct sockaddr_in from = cli_addr;
			from.sin_port = htons(next_port++);
			dv_push(&srv_in, buf, len, &from, 0);
			if (hs_recase) {
				unsigned char *b = srv_in.v[srv_in.n - 1].d;
				int o = 12, k = 0;
				while (o < (int) len && b[o]) {
					int l = b[o++], j;
					for (j = 0; j < l && o + j < (int) len; j++, k++)
						if ((k % 3) != 1 && isalpha(b[o + j]))
							b[o + j] ^= 0x20;
					o += l;
				}
			}
			srv_step_input();
			for (i = first; i < s2c.n; i++)
				dv_push(&cli_in, s2c.v[i].d, s2c.v[i].len, NULL, 0);
		}
		return len;
	}
	if (sim_ctx == CTX_SRV) {
		dv_push(&s2c, buf, len, (const struct sockaddr_in *) to, cur_delivery);
		return len;
	}
	abort();
}

ssize_t __wrap_recvfrom(int fd, void *buf, size_t len, int flags,
			struct sockaddr *from, socklen_t *fromlen)
{
	struct dgram *g;

	if (sim_ctx != CTX_CLI)
		abort();
	g = dv_pop(&cli_in);
	if (!g) {
		errno = EAGAIN;
		return -1;
	}
	if ((size_t) g->len < len)
		len = g->len;
	memcpy(buf, g->d, len);
	if (from && fromlen) {
		struct sockaddr_in sin;
		memset(&sin, 0, sizeof(sin));
		sin.sin_family = AF_INET;
		sin.sin_port = htons(53);
		sin.sin_addr.s_addr = inet_addr("192.0.2.53");
		memcpy(from, &sin, sizeof(sin));
		*fromlen = sizeof(sin);
	}
	return len;
}

ssize_t __wrap_recvmsg(int fd, struct msghdr *msg, int flags)
{
	struct dgram *g;
	size_t len;

	if (sim_ctx != CTX_SRV)
		abort();
	g = dv_pop(&srv_in);
	if (!g) {
		errno = EAGAIN;
		return -1;
	}
	len = msg->msg_iov[0].iov_len;
	if ((size_t) g->len < len)
		len = g->len;
	memcpy(msg->msg_iov[0].iov_base, g->d, len);
	memset(msg->msg_name, 0, msg->msg_namelen);
	memcpy(msg->msg_name, &g->peer, sizeof(g->peer));
	msg->msg_namelen = sizeof(g->peer);
	msg->msg_controllen = 0;
	return len;
}

/* ---------- tun ---------- */

int open_tun(const char *dev) { return 0; }
void close_tun(int fd) { }
int tun_setip(const char *ip, const char *other, int bits) { return 0; }
int tun_setmtu(const unsigned mtu) { return 0; }

int write_tun(int fd, char *data, size_t len)
{
	if (fd == SRV_TUN_FD)
		dv_push(&srv_tun_out, data, len, NULL, 0);
	else
		dv_push(&cli_tun_out, data, len, NULL, 0);
	return 0;
}

ssize_t read_tun(int fd, char *buf, size_t len)
{
	struct dgram *g = dv_pop(fd == SRV_TUN_FD ? &srv_tun_in : &cli_tun_in);
	if (!g)
		return -1;
	if ((size_t) g->len < len)
		len = g->len;
	memcpy(buf, g->d, len);
	return len;
}

/* ---------- helpers ---------- */

void sim_init(void)
{
	memset(&cli_addr, 0, sizeof(cli_addr));
	cli_addr.sin_family = AF_INET;
	cli_addr.sin_addr.s_addr = inet_addr("192.0.2.53");
}

/* Question name (dotted) and type of a DNS message */
int dns_question(const unsigned char *p, int len, char *name, int namesz, int *type)
{
	int o = 12, n = 0;

	name[0] = 0;
	if (len < 17)
		return -1;
	while (o < len && p[o]) {
		int l = p[o++];
		if (l & 0xc0)
			return -1;
		if (o + l > len || n + l + 2 > namesz)
			return -1;
		memcpy(name + n, p + o, l);
		n += l;
		name[n++] = '.';
		o += l;
	}
	if (n)
		n--;
	name[n] = 0;
	o++;
	if (o + 4 > len)
		return -1;
	*type = (p[o] << 8) | p[o + 1];
	return o + 4;	/* offset of answer section */
}

/* rdata of the first answer (NULL/PRIVATE types: the payload itself) */
int dns_rdata(const unsigned char *p, int len, const unsigned char **rd)
{
	char nm[512];
	int type, o, rl;

	o = dns_question(p, len, nm, sizeof(nm), &type);
	if (o < 0)
		return -1;
	if (((p[6] << 8) | p[7]) < 1)
		return -1;
	/* answer name */
	while (o < len) {
		if ((p[o] & 0xc0) == 0xc0) { o += 2; break; }
		if (p[o] == 0) { o++; break; }
		o += p[o] + 1;
	}
	if (o + 10 > len)
		return -1;
	rl = (p[o + 8] << 8) | p[o + 9];
	o += 10;
	if (o + rl > len)
		return -1;
	*rd = p + o;
	return rl;
}

/* 4 byte tun header + IPv4 header + payload */
int make_ip(unsigned char *out, const char *src, const char *dst, uint32_t serial,
	    int paylen, int compressible)
{
	int i, tot = 20 + 8 + paylen;
	static uint32_t x = 12345;

	memset(out, 0, 4 + tot);
	out[2] = 0x08;
	out[4] = 0x45;
	out[6] = tot >> 8;
	out[7] = tot & 0xff;
	out[12] = 64;
	out[13] = 17;
	*(in_addr_t *) (out + 4 + 12) = inet_addr(src);
	*(in_addr_t *) (out + 4 + 16) = inet_addr(dst);
	memcpy(out + 24, "SER#", 4);
	out[28] = serial >> 24;
	out[29] = serial >> 16;
	out[30] = serial >> 8;
	out[31] = serial;
	for (i = 0; i < paylen; i++) {
		if (compressible)
			out[32 + i] = 'A' + (serial % 26);
		else {
			x = x * 1103515245 + 12345;
			out[32 + i] = x >> 16;
		}
	}
	return 4 + tot;
}

uint32_t ip_serial(const unsigned char *p, int len)
{
	if (len < 32 || memcmp(p + 24, "SER#", 4))
		return 0xffffffff;
	return ((uint32_t) p[28] << 24) | (p[29] << 16) | (p[30] << 8) | p[31];
}

/* deliver client query number qi to the server. flags: see simlib.h */
int relay_deliver(int qi, int flags, const char *relay_ip)
{
	struct dgram *g = &c2s.v[qi];
	unsigned char *b = malloc(g->len);
	struct sockaddr_in from = cli_addr;
	int port = next_port++;
	int first = s2c.n;

	if (next_port > 60000)
		next_port = 2000;
	memcpy(b, g->d, g->len);
	if (flags & RD_NEWID) {
		unsigned id = ((b[0] << 8) | b[1]) + 1 + (port % 1000);
		if ((id & 0xffff) == 0)
			id = 1;
		b[0] = id >> 8;
		b[1] = id;
	}
	if (flags & (RD_RECASE | RD_RECASE_TOP)) {
		/* flip letters of the question name */
		int o = 12, k = 0, lab = 0, nlab = 0, oo;
		for (oo = 12; oo < g->len && b[oo]; oo += b[oo] + 1)
			nlab++;
		while (o < g->len && b[o]) {
			int l = b[o++], j;
			for (j = 0; j < l && o + j < g->len; j++, k++) {
				int doit = (flags & RD_RECASE) ? ((k * 7 + port) % 3 != 0)
					: (lab >= nlab - 2);
				if (doit && isalpha(b[o + j]))
					b[o + j] ^= 0x20;
			}
			o += l;
			lab++;
		}
	}
	if (relay_ip)
		from.sin_addr.s_addr = inet_addr(relay_ip);
	from.sin_port = htons(port);
	dv_push(&srv_in, b, g->len, &from, 0);
	free(b);
	cur_delivery = port;
	srv_step_input();
	cur_delivery = -1;
	g->tag++;	/* times delivered */
	(void) first;
	return port;
}

/* deliver these very bytes to the server */
int relay_deliver_bytes(const unsigned char *b, int len, const char *relay_ip)
{
	struct sockaddr_in from = cli_addr;
	int port = next_port++;

	if (relay_ip)
		from.sin_addr.s_addr = inet_addr(relay_ip);
	from.sin_port = htons(port);
	dv_push(&srv_in, b, len, &from, 0);
	cur_delivery = port;
	srv_step_input();
	cur_delivery = -1;
	return port;
}

/* hand server datagram number ai to the client, with the id of client query qi */
void relay_answer(int ai, int qi)
{
	struct dgram *a = &s2c.v[ai];
	unsigned char *b = malloc(a->len);

	memcpy(b, a->d, a->len);
	if (qi >= 0) {
		b[0] = c2s.v[qi].d[0];
		b[1] = c2s.v[qi].d[1];
	}
	dv_push(&cli_in, b, a->len, NULL, 0);
	free(b);
	cli_step_input();
}

/* ---------- server state snapshot ---------- */

static uint32_t fnv(const void *p, int n)
{
	const unsigned char *c = p;
	uint32_t h = 2166136261u;
	while (n-- > 0)
		h = (h ^ *c++) * 16777619u;
	return h;
}

int srv_snapshot(unsigned char *out, int cap)
{
	int u, n = 0;
#define PUT(x) do { if (getenv("SNAPMAP") && u == 0) fprintf(stderr, "%d %s\n", n, #x); memcpy(out + n, &(x), sizeof(x)); n += sizeof(x); } while (0)
	for (u = 0; u < 4; u++) {
		struct tun_user *t = &users[u];
		uint32_t h;
		int b;
		PUT(t->active); PUT(t->authenticated); PUT(t->last_pkt);
		PUT(t->inpacket.len); PUT(t->inpacket.offset);
		PUT(t->inpacket.seqno); PUT(t->inpacket.fragment);
		h = fnv(t->inpacket.data, t->inpacket.len > 0 ? t->inpacket.len : 0); PUT(h);
		PUT(t->outpacket.len); PUT(t->outpacket.offset); PUT(t->outpacket.sentlen);
		PUT(t->outpacket.seqno); PUT(t->outpacket.fragment);
		PUT(t->outfragresent); PUT(t->encoder); PUT(t->downenc);
		PUT(t->fragsize); PUT(t->conn); PUT(t->lazy);
		PUT(t->qmemping_cmc); PUT(t->qmemping_type); PUT(t->qmemping_lastfilled);
		PUT(t->qmemdata_cmc); PUT(t->qmemdata_type); PUT(t->qmemdata_lastfilled);
		PUT(t->outpacketq_nexttouse); PUT(t->outpacketq_filled);
		PUT(t->dnscache_answerlen); PUT(t->dnscache_lastfilled);
		b = t->q.id != 0; PUT(b);
		b = t->q_sendrealsoon.id != 0; PUT(b);
	}
	PUT(srv_tun_out.n);
#undef PUT
	if (n > cap)
		abort();
	return n;
}
