/* C16 (end to end): the relay repeats a query whose answer carried a whole
   one-fragment downstream packet; the server replays the same payload from
   its answer cache (as it must), and the client writes the packet to its tun
   device a second time. */
#include <stdio.h>
#include <stdlib.h>
#include <string.h>
#include "sim.h"
#include "simlib.h"

int main(void)
{
	unsigned char ip[2000];
	char nm[512];
	int n, r, q1, a1, a2, type, l1, l2, s, f, l;
	const unsigned char *rd1, *rd2;

	srand(1);
	sim_init();
	srv_setup("t.example.com", "pw", 1, getenv("SIMDEBUG") ? 3 : 0);
	cli_setup("t.example.com", "pw", 1, 4, "NULL", NULL, 255);
	hs_mode = 1;
	r = cli_handshake(1, 0);
	hs_mode = 0;
	if (r) { printf("handshake failed\n"); return 2; }
	printf("session up: upstream codec %s, lazy mode %d\n", cli_upenc(), cli_lazymode());

	cli_step_timeout();			/* client sends its first ping */
	q1 = c2s.n - 1;
	dns_question(c2s.v[q1].d, c2s.v[q1].len, nm, sizeof(nm), &type);
	printf("client ping: %s\n", nm);
	a1 = s2c.n;
	relay_deliver(q1, 0, NULL);		/* waits in the server (lazy mode) */
	if (s2c.n != a1) { printf("unexpected: ping answered at once\n"); return 2; }

	/* a small packet for the client arrives on the server's tun */
	n = make_ip(ip, "10.0.0.1", "10.0.0.2", 1, 40, 1);
	dv_push(&srv_tun_in, ip, n, NULL, 0);
	srv_step_input();
	if (s2c.n != a1 + 1) { printf("unexpected: no answer with data\n"); return 2; }
	l1 = dns_rdata(s2c.v[a1].d, s2c.v[a1].len, &rd1);
	printf("server answers the ping with %d bytes: downstream packet, one fragment, sent once\n", l1);
	relay_answer(a1, q1);
	cli_inpkt(&s, &f, &l);
	printf("client: %d packet(s) written to tun (downstream seq %d frag %d)\n", cli_tun_out.n, s, f);
	if (cli_tun_out.n != 1) { printf("unexpected\n"); return 2; }

	/* the relay repeats the ping, unchanged; the answer takes the same way back */
	a2 = s2c.n;
	relay_deliver(q1, 0, NULL);
	if (s2c.n != a2 + 1) { printf("unexpected: no answer to the repeat\n"); return 2; }
	l2 = dns_rdata(s2c.v[a2].d, s2c.v[a2].len, &rd2);
	printf("relay repeats the ping: server answers with %d bytes, %s\n", l2,
	       (l1 == l2 && !memcmp(rd1, rd2, l1)) ? "the same payload (from its answer cache)" : "another payload");
	relay_answer(a2, q1);
	printf("client: %d packet(s) written to tun\n", cli_tun_out.n);
	if (cli_tun_out.n > 1) {
		printf("FAIL: the re-delivered query made the client deliver the same downstream packet %d times\n", cli_tun_out.n);
		return 1;
	}
	printf("PASS\n");
	return 0;
}
