#ifndef SIM_H
#define SIM_H
#include <sys/types.h>
#include <sys/socket.h>
#include <netinet/in.h>

enum { CTX_NONE, CTX_SRV, CTX_CLI };
extern int sim_ctx;

#define SRV_DNS_FD 100
#define SRV_TUN_FD 101
#define CLI_DNS_FD 200
#define CLI_TUN_FD 201

/* server side (srv.c) */
void srv_setup(const char *td, const char *pw, int checkip, int dbg);
void srv_run(void);
void srv_stop(void);

/* client side (cli.c) */
void cli_setup(const char *td, const char *pw, int lazy, int seltimeout,
	       const char *qtype, const char *downenc, int maxlen);
int cli_handshake(int autofrag, int fragsize);
void cli_run(void);
void cli_stop(void);
int cli_is_sending(void);
int cli_lazymode(void);
const char *cli_upenc(void);
void cli_inpkt(int *seq, int *frag, int *len);

#endif
