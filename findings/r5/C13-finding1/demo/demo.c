/* Harness: the real handshake_login() + real tun_setip()/tun_setmtu();
 * network and system() are replaced. */
#define _GNU_SOURCE
#include <setjmp.h>
#include <stdarg.h>
#include <regex.h>
#include SRC_CLIENT
#include SRC_TUN

static jmp_buf jb;
static char reply[70000];
static int replylen;
static int have_reply;

/* what the fake server will answer */
static const char *pl; static int pllen; static char srv_enc;
static int ncmds; static char cmds[8][600];

int __wrap_system(const char *c);
int __wrap_system(const char *c)
{
	if (ncmds < 8) { strncpy(cmds[ncmds], c, 599); cmds[ncmds][599] = 0; }
	ncmds++;
	return 0;
}

void __wrap_errx(int code, const char *fmt, ...);
void __wrap_errx(int code, const char *fmt, ...)
{
	longjmp(jb, 100 + code);
}

static int nameenc(char *buf, size_t buflen, const char *data, int datalen, char enc)
{
	size_t space = MIN(0xFF, buflen) - 4 - 2;
	const struct encoder *e = &base32_ops;
	char *b;
	memset(buf, 0, buflen);
	buf[0] = 'h';
	if (enc == 'S') { e = &base64_ops; buf[0] = 'i'; }
	if (enc == 'U') { e = &base64u_ops; buf[0] = 'j'; }
	if (enc == 'V') { e = &base128_ops; buf[0] = 'k'; }
	space -= space / 57;
	e->encode(buf + 1, &space, data, datalen);
	inline_dotify(buf, buflen);
	b = buf + strlen(buf) - 1;
	if (*b != '.') *++b = '.';
	b++; *b++ = 'x'; *b++ = 'y'; *b = 0;
	return space;
}

static void build_reply(struct query *q)
{
	char buf[64*1024];
	int len = 0;
	const char *data = pl; int datalen = pllen;

	if (q->type == T_CNAME || q->type == T_A) {
		char cn[1024];
		nameenc(cn, sizeof(cn), data, datalen, srv_enc);
		len = dns_encode(buf, sizeof(buf), q, QR_ANSWER, cn, sizeof(cn));
	} else if (q->type == T_MX || q->type == T_SRV) {
		static char mx[64*1024]; char *b = mx; int off = 0, res;
		while (1) {
			res = nameenc(b, sizeof(mx) - (b - mx), data + off, datalen - off, srv_enc);
			if (res < 1) { b++; break; }
			b += strlen(b) + 1;
			off += res;
			if (off >= datalen) break;
		}
		*b = 0;
		len = dns_encode(buf, sizeof(buf), q, QR_ANSWER, mx, sizeof(mx));
	} else if (q->type == T_TXT) {
		static char t[64*1024]; size_t space = sizeof(t) - 1;
		memset(t, 0, sizeof(t));
		if (srv_enc == 'S') { t[0] = 's'; len = base64_ops.encode(t+1, &space, data, datalen); }
		else if (srv_enc == 'U') { t[0] = 'u'; len = base64u_ops.encode(t+1, &space, data, datalen); }
		else if (srv_enc == 'V') { t[0] = 'v'; len = base128_ops.encode(t+1, &space, data, datalen); }
		else if (srv_enc == 'R') { t[0] = 'r'; len = datalen; memcpy(t+1, data, len); }
		else { t[0] = 't'; len = base32_ops.encode(t+1, &space, data, datalen); }
		len = dns_encode(buf, sizeof(buf), q, QR_ANSWER, t, len + 1);
	} else {
		len = dns_encode(buf, sizeof(buf), q, QR_ANSWER, data, datalen);
	}
	if (len < 1) { have_reply = 0; return; }
	memcpy(reply, buf, len); replylen = len; have_reply = 1;
}

ssize_t __wrap_sendto(int fd, const void *b, size_t l, int fl, const struct sockaddr *a, socklen_t al);
ssize_t __wrap_sendto(int fd, const void *b, size_t l, int fl, const struct sockaddr *a, socklen_t al)
{
	struct query q; char tmp[4096];
	memset(&q, 0, sizeof(q));
	if (dns_decode(tmp, sizeof(tmp), &q, QR_QUERY, (char *)b, l) < 0) { have_reply = 0; return l; }
	build_reply(&q);
	return l;
}
int __wrap_select(int n, fd_set *r, fd_set *w, fd_set *e, struct timeval *tv);
int __wrap_select(int n, fd_set *r, fd_set *w, fd_set *e, struct timeval *tv)
{
	return have_reply ? 1 : 0;
}
ssize_t __wrap_recvfrom(int fd, void *b, size_t l, int fl, struct sockaddr *a, socklen_t *al);
ssize_t __wrap_recvfrom(int fd, void *b, size_t l, int fl, struct sockaddr *a, socklen_t *al)
{
	memcpy(b, reply, replylen); have_reply = 0;
	return replylen;
}
unsigned __wrap_sleep(unsigned s);
unsigned __wrap_sleep(unsigned s) { return 0; }

static regex_t re_ip, re_mtu;
static int bad_total; static int ncmds_total;

static int strict_ok(const char *c)
{
	regmatch_t m[8];
	if (regexec(&re_mtu, c, 3, m, 0) == 0) {
		int v = atoi(c + m[1].rm_so);
		return v > 200 && v <= 1500;
	}
	if (regexec(&re_ip, c, 0, NULL, 0) == 0) return 1;
	return 0;
}

static int one(const char *payload, int len, int qtype, char enc, int verbose)
{
	int r, i, bad = 0;
	pl = payload; pllen = len; srv_enc = enc;
	client_init();
	conn = CONN_DNS_NULL; do_qtype = qtype; topdomain = "t.example"; { static char pw[33] = "x"; password = pw; }
	userid = 1; userid_char = 'b'; userid_char2 = 'B';
	strcpy(if_name, "dns0");
	ncmds = 0; have_reply = 0;
	r = setjmp(jb);
	if (r == 0)
		r = handshake_login(3, 42);
	for (i = 0; i < ncmds && i < 8; i++) {
		if (!strict_ok(cmds[i])) {
			bad = 1;
			printf("VIOLATION qtype=%d enc=%c payload=[%.*s] -> system(\"%s\")\n", qtype, enc, len, payload, cmds[i]);
		} else if (verbose)
			printf("ok cmd: %s\n", cmds[i]);
	}
	if (verbose) printf("r=%d ncmds=%d\n", r, ncmds);
	bad_total += bad; ncmds_total += ncmds;
	return bad;
}

static const int qtypes[] = { T_NULL, T_PRIVATE, T_TXT, T_CNAME, T_A, T_MX, T_SRV };
static const char encs[] = { 'T', 'S', 'U', 'V', 'R' };

static void all(const char *p, int len)
{
	unsigned i, j;
	for (i = 0; i < sizeof(qtypes)/sizeof(qtypes[0]); i++)
		for (j = 0; j < sizeof(encs); j++)
			one(p, len, qtypes[i], encs[j], 0);
}

static const char *cases[] = {
	"10.0.0.1-010.0.0.2-1130-27",       /* client address, first octet */
	"10.0.0.1-10.0.0.010-1130-27",      /* client address, last octet */
	"10.0.0.1-037.000.00.02-1130-27",   /* every octet */
	"10.0.0.1-10.0.0.2-1130-27",        /* control: must stay accepted */
};

int main(int argc, char **argv)
{
	unsigned i; int ctl;
	regcomp(&re_ip, "^PATH=/sbin:/bin ifconfig dns0 "
		"(0|[1-9][0-9]{0,2})\\.(0|[1-9][0-9]{0,2})\\.(0|[1-9][0-9]{0,2})\\.(0|[1-9][0-9]{0,2}) "
		"(0|[1-9][0-9]{0,2})\\.(0|[1-9][0-9]{0,2})\\.(0|[1-9][0-9]{0,2})\\.(0|[1-9][0-9]{0,2}) "
		"netmask [0-9]{1,3}\\.[0-9]{1,3}\\.[0-9]{1,3}\\.[0-9]{1,3}$", REG_EXTENDED);
	regcomp(&re_mtu, "^PATH=/sbin:/bin ifconfig dns0 mtu ([1-9][0-9]{2,3})$", REG_EXTENDED);
	if (!getenv("VERBOSE")) freopen("/dev/null", "w", stderr);

	for (i = 0; i < 3; i++) {
		struct in_addr a; char f[65]; int before = bad_total;
		all(cases[i], strlen(cases[i]));
		sscanf(cases[i], "%*[^-]-%64[^-]", f);
		if (bad_total != before && inet_aton(f, &a))
			printf("   note: \"%s\" on a command line is read by ifconfig (inet_aton) as %s\n", f, inet_ntoa(a));
	}
	/* control: the plain reply must configure the interface under every type and codec */
	ctl = bad_total;
	ncmds_total = 0;
	all(cases[3], strlen(cases[3]));
	if (bad_total != ctl || ncmds_total != 7 * 5 * 2) {
		printf("harness problem: control reply gave %d commands, %d bad\n", ncmds_total, bad_total - ctl);
		return 2;
	}
	printf("commands with a non-canonical address: %d\n", bad_total);
	return bad_total ? 1 : 0;
}
