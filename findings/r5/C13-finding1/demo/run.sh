#!/bin/sh
# usage: run.sh <iodine source tree root>
# exit 1: a login reply with zero-padded (octal-looking) octets reached system(); exit 0: it did not
set -e
ROOT=$(cd "${1:-.}" && pwd)
S="$ROOT/src"
HERE=$(cd "$(dirname "$0")" && pwd)
T=$(mktemp -d)
trap 'rm -rf "$T"' EXIT
# base64u.c is a generated file (see src/Makefile); make it in the temp dir
{ echo '/* generated */'; sed -e 's/\([Bb][Aa][Ss][Ee]64\)/\1u/g ; s/0123456789+/0123456789_/' < "$S/base64.c"; } > "$T/base64u.c"
gcc -O1 -w -DLINUX -DSRC_CLIENT="\"$S/client.c\"" -DSRC_TUN="\"$S/tun.c\"" -I"$S" \
	"$HERE/demo.c" "$S/dns.c" "$S/read.c" "$S/encoding.c" "$S/login.c" "$S/base32.c" "$S/base64.c" \
	"$T/base64u.c" "$S/base128.c" "$S/md5.c" "$S/common.c" "$S/util.c" -lz \
	-Wl,--wrap=system,--wrap=errx,--wrap=sendto,--wrap=select,--wrap=recvfrom,--wrap=sleep \
	-o "$T/demo"
set +e
"$T/demo" > "$T/out"
rc=$?
# show one line per distinct command instead of 35 per case
grep -v '^VIOLATION' "$T/out"
grep '^VIOLATION' "$T/out" | sed 's/^VIOLATION qtype=[0-9]* enc=. //' | sort | uniq -c
if [ $rc -eq 1 ]; then echo "FAIL: zero-padded octets from the login reply were put on the ifconfig command line"; exit 1; fi
if [ $rc -ne 0 ]; then echo "harness error ($rc)"; exit 2; fi
echo "PASS"
exit 0
