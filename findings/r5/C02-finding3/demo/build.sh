#!/bin/sh
# usage: build.sh <srcroot> <outdir>
set -e
ROOT=${1:-..}
OUT=${2:-.}
HX=$(dirname "$0")
S=$ROOT/src
mkdir -p $OUT/obj
sed -e 's/\([Bb][Aa][Ss][Ee]64\)/\1u/g ; s/0123456789+/0123456789_/' < $S/base64.c > $OUT/obj/base64u.c
CF="-O1 -g -w -DLINUX -D_GNU_SOURCE -DGITREVISION=\"x\" -I$S -I$HX"
for f in dns read encoding login base32 base64 base128 md5 common user fw_query util; do
  gcc $CF -c $S/$f.c -o $OUT/obj/$f.o
done
gcc $CF -c $OUT/obj/base64u.c -o $OUT/obj/base64u.o
sed "s#\.\./src/#$S/#" $HX/cl.c > $OUT/obj/cl_gen.c
sed "s#\.\./src/#$S/#" $HX/sv.c > $OUT/obj/sv_gen.c
gcc $CF -c $OUT/obj/cl_gen.c -o $OUT/obj/cl.o
gcc $CF -c $OUT/obj/sv_gen.c -o $OUT/obj/sv.o
gcc $CF -c $HX/sim.c -o $OUT/obj/sim.o
gcc -o $OUT/sim $OUT/obj/*.o -lz \
  -Wl,--wrap=select,--wrap=sendto,--wrap=recvfrom,--wrap=recv,--wrap=recvmsg,--wrap=time,--wrap=sleep,--wrap=syslog
