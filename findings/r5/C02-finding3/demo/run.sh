#!/bin/sh
# usage: run.sh <iodine source tree root>
# exit 1: violation shown (unchanged tree), exit 0: violation does not occur, exit 2: harness problem
ROOT=$(cd "${1:-.}" && pwd) || exit 2
HERE=$(cd "$(dirname "$0")" && pwd)
TMP=$(mktemp -d) || exit 2
trap 'rm -rf "$TMP"' EXIT
sh "$HERE/build.sh" "$ROOT" "$TMP" > "$TMP/build.log" 2>&1 || { cat "$TMP/build.log"; echo "build failed"; exit 2; }

# iodine -T NULL -m 200 (raw mode attempt enabled = default), iodined without -c.
# relay=1: the server sees DNS queries coming from 10.2.2.2 (the DNS relay the
# client uses) and raw UDP packets coming from 10.3.3.3 (the client itself).
# The only fault: raw UDP datagrams from the server to the client are lost during
# the first 12 virtual seconds, i.e. the four replies to the client's raw login.
# Everything else is delivered intact within 5 ms, before, during and after.
# From t=12 s on both tun devices are offered a 200-byte packet about once a second.
ARGS="T=NULL m=200 L=1 I=4 raw=1 relay=1 lat=5000 end=100 up_period=900000 down_period=1100000 up_size=200 down_size=200 rule=0:r:-:0:12000000:drop"
"$TMP/sim" $ARGS trace=1 quiet=0 > "$TMP/trace.log" 2>&1
rc=$?
echo "--- client messages (repeated BADIP warnings shown once):"
grep -a -v -E '^ +[0-9]+\.[0-9]+ |^  |^end|^up:|^down:|^RESULT|^VIOLATION|^checking' "$TMP/trace.log" | awk '!seen[$0]++' | cut -c1-160
echo "--- dropped datagrams:"
grep -a -c 'rule 0: DROP' "$TMP/trace.log"
echo "--- result:"
grep -a -E '^(end|up:|down:|RESULT|VIOLATION|  WEDGE)' "$TMP/trace.log"
case $rc in
0) echo "PASS: the session carries on in DNS mode and delivers packets in both directions"; exit 0;;
1) echo "FAIL: after four lost datagrams the server answers BADIP to everything the client sends; nothing is delivered and the client exits after 60 s"; exit 1;;
*) echo "harness problem (rc=$rc)"; tail -5 "$TMP/trace.log"; exit 2;;
esac
