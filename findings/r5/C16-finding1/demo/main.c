/* C16: in a Base64/Base64u/Base128 session a re-cased copy of the waiting data
   query is taken for a new query; it is entered into the duplicate memory a
   second time, and a repeat of the 15th-last data query is processed again. */
#include <stdio.h>
#include <stdlib.h>
#include <string.h>
#include <ctype.h>
#include <arpa/inet.h>
#include "common.h"
#include "user.h"
#include "sim.h"
#include "simlib.h"

static int is_data(int qi)
{
	char nm[512]; int t;
	dns_question(c2s.v[qi].d, c2s.v[qi].len, nm, sizeof(nm), &t);
	return isxdigit((unsigned char) nm[0]) && nm[0] != 'p' && nm[0] != 'P';
}

static int count_serial(uint32_t s)
{
	int i, n = 0;
	for (i = 0; i < srv_tun_out.n; i++)
		if (ip_serial(srv_tun_out.v[i].d, srv_tun_out.v[i].len) == s)
			n++;
	return n;
}

/* forward every not yet forwarded server datagram to the client */
static int fwd_from;
static void answers_to_client(int qi_hint)
{
	(void) qi_hint;
	for (; fwd_from < s2c.n; fwd_from++) {
		/* find the client query this answers: same question name */
		char an[512], qn[512]; int t, j;
		dns_question(s2c.v[fwd_from].d, s2c.v[fwd_from].len, an, sizeof(an), &t);
		for (j = c2s.n - 1; j >= 0; j--) {
			dns_question(c2s.v[j].d, c2s.v[j].len, qn, sizeof(qn), &t);
			if (!strcmp(an, qn))
				break;
		}
		if (j >= 0)
			relay_answer(fwd_from, j);
	}
}

int main(void)
{
	unsigned char ip[2000], copy[600];
	int n, r, round, dq[32], ndq = 0, next_q, k, len, o, fail = 0;
	int ring_before, ring_after, ans_before;

	srand(1);
	sim_init();
	srv_setup("t.example.com", "pw", 1, getenv("SIMDEBUG") ? 3 : 0);
	cli_setup("t.example.com", "pw", 1, 4, "NULL", NULL, 255);
	hs_mode = 1;
	r = cli_handshake(1, 0);
	hs_mode = 0;
	if (r) { printf("handshake failed\n"); return 2; }
	printf("session up: upstream codec %s, lazy mode %d\n", cli_upenc(), cli_lazymode());
	fwd_from = s2c.n;

	cli_step_timeout();			/* first ping */
	next_q = c2s.n - 1;
	relay_deliver(next_q++, 0, NULL);	/* waits in the server */

	for (round = 1; round <= 15; round++) {
		/* one small upstream packet = one data query */
		n = make_ip(ip, "10.0.0.2", "10.0.0.1", round, 40, 1);
		dv_push(&cli_tun_in, ip, n, NULL, 0);
		cli_step_input();
		if (next_q != c2s.n - 1 || !is_data(next_q)) { printf("unexpected client behaviour\n"); return 2; }
		dq[ndq++] = next_q;
		relay_deliver(next_q++, 0, NULL);	/* ping moves to "answer real soon", data query waits */
		srv_step_timeout();			/* 20 ms: the ping is answered, acks the data */

		if (round == 2) {
			/* another relay of the pool repeats the waiting data query, new id, 0x20-mangled */
			len = c2s.v[dq[1]].len;
			memcpy(copy, c2s.v[dq[1]].d, len);
			copy[0] ^= 0x55; copy[1] ^= 0x55;
			for (o = 12; o < len - 5 && copy[o]; ) {
				int l = copy[o++], j;
				for (j = 0; j < l; j++)
					if (isalpha(copy[o + j])) copy[o + j] ^= 0x20;
				o += l;
			}
			ring_before = users[0].qmemdata_lastfilled;
			ans_before = s2c.n;
			relay_deliver_bytes(copy, len, NULL);
			ring_after = users[0].qmemdata_lastfilled;
			printf("round 2: re-cased copy of the waiting data query: %d answer(s) sent at once, duplicate memory index %d -> %d\n",
			       s2c.n - ans_before, ring_before, ring_after);
			if (s2c.n != ans_before || ring_before != ring_after) {
				printf("  -> the copy was handled as a new query (waiting query released, entered twice)\n");
				fail = 1;
			}
		}
		answers_to_client(-1);			/* client sees the ack, upstream packet done */
		if (cli_is_sending()) { printf("unexpected: client still sending\n"); return 2; }
		if (next_q == c2s.n)
			cli_step_timeout();		/* client pings */
		while (next_q < c2s.n) {		/* releases the waiting data query */
			if (is_data(next_q)) { printf("unexpected client behaviour (ping)\n"); return 2; }
			relay_deliver(next_q++, 0, NULL);
			answers_to_client(-1);
		}
	}
	printf("%d upstream packets sent, server tun got %d\n", 15, srv_tun_out.n);

	/* the relay repeats, unchanged, the data query 15 data queries back */
	for (k = 1; k <= 15; k++) {
		int before = srv_tun_out.n;
		ans_before = s2c.n;
		relay_deliver(dq[15 - k], 0, NULL);
		if (srv_tun_out.n != before) {
			printf("repeat of the data query %d back: upstream packet %d written to tun again (now %d times)\n",
			       k, 16 - k, count_serial(16 - k));
			fail = 1;
		}
	}
	if (fail) { printf("FAIL\n"); return 1; }
	printf("PASS: every repeat of the last 15 data queries was suppressed\n");
	return 0;
}
