#!/bin/sh
# usage: run.sh <source tree root>
# exit 1: the client computes seed+1 / seed-1 with signed overflow (UBSan report)
# exit 0: no undefined behaviour seen
ROOT=$(cd "${1:-.}" && pwd) || exit 2
HERE=$(cd "$(dirname "$0")" && pwd)
T=$(mktemp -d) || exit 2
trap 'rm -rf "$T"' EXIT
S="$ROOT/src"
sed -e 's/\([Bb][Aa][Ss][Ee]64\)/\1u/g ; s/0123456789+/0123456789_/' < "$S/base64.c" > "$T/base64u.c"
WRAP="-Wl,--wrap=select,--wrap=recvfrom,--wrap=recv,--wrap=sendto,--wrap=time,--wrap=sleep,--wrap=system"
${CC:-gcc} -g -O0 -w -fsanitize=signed-integer-overflow -DLINUX -D_GNU_SOURCE \
	-DCLIENT_C="\"$S/client.c\"" -I"$S" \
	"$HERE/seed_harness.c" "$S/dns.c" "$S/read.c" "$S/encoding.c" "$S/login.c" \
	"$S/base32.c" "$S/base64.c" "$T/base64u.c" "$S/base128.c" "$S/md5.c" \
	"$S/common.c" "$S/tun.c" "$S/util.c" -o "$T/seed_harness" $WRAP -lz || { echo "build failed"; exit 2; }

bad=0
for which in max min; do
	"$T/seed_harness" $which > "$T/out.$which" 2>&1
	if grep -q "runtime error" "$T/out.$which"; then
		echo "seed=$which:"
		grep "runtime error" "$T/out.$which" | sed 's/^/  /'
		bad=1
	else
		echo "seed=$which: no undefined behaviour reported"
	fi
done
if [ $bad = 1 ]; then
	echo "FAIL: server-chosen login seed makes the client overflow a signed int"
	exit 1
fi
echo "PASS"
exit 0
