/* The unchanged iodine client (client.c is included as is) against a scripted
 * server.  The server is an ordinary one except for the 32-bit login seed it
 * hands out in its version reply:
 *   argv[1] = "max": seed 0x7fffffff  (what rand() returns as RAND_MAX)
 *   argv[1] = "min": seed 0x80000000
 * select/recvfrom/recv/sendto/time/sleep/system are replaced (-Wl,--wrap) so
 * that nothing touches the network or the tun device and time is simulated. */
#define _GNU_SOURCE
#include CLIENT_C
#include <errno.h>

static time_t now = 1000000;
static char rq[8][4096];
static int rqlen[8], rq_head, rq_n;
static unsigned seedval;

static void push(const char *d, int len)
{
	int i = (rq_head + rq_n) % 8;
	if (rq_n >= 8) return;
	memcpy(rq[i], d, len);
	rqlen[i] = len;
	rq_n++;
}

time_t __wrap_time(time_t *t) { if (t) *t = now; return now; }
unsigned __wrap_sleep(unsigned s) { now += s; return 0; }
int __wrap_system(const char *c) { (void) c; return 0; }

int __wrap_select(int n, fd_set *r, fd_set *w, fd_set *e, struct timeval *tv)
{
	(void) n; (void) w; (void) e;
	if (rq_n > 0)
		return 1;
	FD_ZERO(r);
	now += tv->tv_sec ? tv->tv_sec : 1;
	return 0;
}

ssize_t __wrap_recvfrom(int fd, void *buf, size_t len, int fl, struct sockaddr *sa, socklen_t *sl)
{
	int l;
	(void) fd; (void) fl;
	if (rq_n == 0) { errno = EAGAIN; return -1; }
	l = rqlen[rq_head];
	if ((size_t) l > len) l = len;
	memcpy(buf, rq[rq_head], l);
	rq_head = (rq_head + 1) % 8;
	rq_n--;
	if (sl) { memset(sa, 0, sizeof(struct sockaddr_in)); *sl = sizeof(struct sockaddr_in); }
	return l;
}

ssize_t __wrap_recv(int fd, void *buf, size_t len, int fl)
{
	return __wrap_recvfrom(fd, buf, len, fl, NULL, NULL);
}

ssize_t __wrap_sendto(int fd, const void *buf, size_t len, int fl, const struct sockaddr *sa, socklen_t sl)
{
	struct query q;
	char pkt[4096], data[64];
	int dl = 0, l;
	(void) fd; (void) fl; (void) sa; (void) sl;

	if (len >= 4 && !memcmp(buf, raw_header, 3)) {
		/* raw login attempt: answer with a well-formed raw login frame
		   (the hash in it does not matter) */
		memset(pkt, 0x55, 20);
		memcpy(pkt, raw_header, 4);
		pkt[3] = RAW_HDR_CMD_LOGIN | 3;
		push(pkt, 20);
		return len;
	}
	memset(&q, 0, sizeof(q));
	if (dns_decode(NULL, 0, &q, QR_QUERY, (char *) buf, len) <= 0)
		return len;
	switch (tolower(q.name[0])) {
	case 'v':	/* version: VACK, seed, user id */
		memcpy(data, "VACK", 4);
		data[4] = seedval >> 24; data[5] = seedval >> 16;
		data[6] = seedval >> 8;  data[7] = seedval;
		data[8] = 3;
		dl = 9;
		break;
	case 'l':	/* login accepted */
		dl = sprintf(data, "10.0.0.1-10.0.0.2-1200-27");
		break;
	case 'i':	/* server address for raw mode */
		data[0] = 'I'; data[1] = 127; data[2] = 0; data[3] = 0; data[4] = 1;
		dl = 5;
		break;
	default:	/* the demo ends here */
		client_stop();
		return len;
	}
	l = dns_encode(pkt, sizeof(pkt), &q, QR_ANSWER, data, dl);
	if (l > 0)
		push(pkt, l);
	return len;
}

int main(int argc, char **argv)
{
	static char pw[33] = "secret";
	struct sockaddr_storage ss;
	struct sockaddr_in *sin = (struct sockaddr_in *) &ss;

	seedval = (argc > 1 && !strcmp(argv[1], "min")) ? 0x80000000u : 0x7fffffffu;
	client_init();
	client_set_topdomain("t.example.com");
	client_set_password(pw);
	client_set_selecttimeout(4);
	client_set_lazymode(1);
	client_set_qtype("NULL");
	memset(&ss, 0, sizeof(ss));
	sin->sin_family = AF_INET;
	client_set_nameserver(&ss, sizeof(*sin));
	client_handshake(100, 1 /* raw mode as by default */, 0, 200);
	return 0;
}
