#!/bin/sh
# usage: run.sh <iodine source tree root>
# exit 1: violation shown (unchanged tree), exit 0: no violation, 2: could not build/run
ROOT=${1:?usage: run.sh <source tree root>}
ROOT=$(cd "$ROOT" && pwd) || exit 2
HERE=$(cd "$(dirname "$0")" && pwd)
S=$ROOT/src
T=$(mktemp -d /tmp/c15demo.XXXXXX) || exit 2
trap 'rm -rf "$T"' EXIT

CF="-std=gnu99 -O1 -g -w -DLINUX -D_GNU_SOURCE -DGITREVISION=\"demo\" -I$S"
sed -e 's/\([Bb][Aa][Ss][Ee]64\)/\1u/g ; s/0123456789+/0123456789_/' < "$S/base64.c" > "$T/base64u.c"
for f in tun dns read encoding login base32 base64 base128 md5 common user fw_query; do
	cc $CF -c "$S/$f.c" -o "$T/$f.o" || exit 2
done
cc $CF -c "$T/base64u.c" -o "$T/base64u.o" || exit 2
cc $CF -c "$HERE/demo.c" -o "$T/demo.o" || exit 2
cc -o "$T/demo" "$T"/*.o -lz || exit 2

"$T/demo"
