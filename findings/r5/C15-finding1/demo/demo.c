/*
 * C15 demo: downstream fragment numbers wrap around after 15.
 *
 * The real iodined main loop (tunnel()) runs in a child process on a loopback
 * UDP socket; its tun device is one end of a socketpair.  The parent plays a
 * plain, well-behaved client over UDP: version, login, "set downstream
 * fragsize" (what `iodine -m F` sends), then it acks every fragment it gets
 * with a ping, exactly like client.c does, and writes down what the answers
 * carry.
 */
#define main iodined_main
#include "iodined.c"
#undef main

#include <poll.h>
#include <sys/wait.h>

static int cfd;				/* client's UDP socket */
static struct sockaddr_in srv;
static int qid = 100;
static int pingcmc = 1;
static const char *dom = "t.co";

/* Sends one query, returns length of NULL rdata in out (or -1) */
static int ask(const char *name, char *out, int outlen)
{
	struct query q;
	char pkt[4096], in[64 * 1024];
	struct pollfd pfd;
	int len, r;

	memset(&q, 0, sizeof(q));
	strncpy(q.name, name, sizeof(q.name) - 1);
	q.type = T_NULL;
	q.id = ++qid;
	len = dns_encode(pkt, sizeof(pkt), &q, QR_QUERY, name, strlen(name));
	sendto(cfd, pkt, len, 0, (struct sockaddr *) &srv, sizeof(srv));

	pfd.fd = cfd;
	pfd.events = POLLIN;
	if (poll(&pfd, 1, 3000) <= 0)
		return -1;
	r = recv(cfd, in, sizeof(in), 0);
	if (r <= 0)
		return -1;
	return dns_decode(out, outlen, &q, QR_ANSWER, in, r);
}

static void mkname(char *name, char cmd, const char *data, int len)
{
	name[0] = cmd;
	build_hostname(name + 1, 1000, data, len, dom, &base32_ops, 255);
}

struct frag { int seq, frag, last, len; };

/*
 * Puts one packet into the server's tun whose compressed size is `want`,
 * then fetches it with acking pings. Returns number of data answers.
 */
static int fetch(int tunfd, int userid, int want, struct frag *fr, int maxfr,
		 char *got, int *gotlen, char *expect, int *expectlen)
{
	static unsigned lcg = 12345;
	char tunpkt[4096], comp[8192], name[1024], data[8], ans[8192];
	unsigned long cl = 0;
	int len, i, n = 0, quiet = 0, seq = 0, frag = 0, rounds;

	/* incompressible payload; look for the length that compresses to `want` */
	memset(tunpkt, 0, sizeof(tunpkt));
	tunpkt[2] = 0x08;			/* tun header: ethertype IPv4 */
	tunpkt[4] = 0x45;			/* IPv4, ihl 5 */
	tunpkt[4 + 16] = 10; tunpkt[4 + 19] = 2;	/* dst 10.0.0.2 = user 0 */
	for (i = 24; i < (int) sizeof(tunpkt); i++) {
		lcg = lcg * 1103515245u + 12345u;
		tunpkt[i] = lcg >> 16;
	}
	for (len = 30; len < 4000; len++) {
		cl = sizeof(comp);
		compress2((uint8_t *) comp, &cl, (uint8_t *) tunpkt, len, 9);
		if ((int) cl == want)
			break;
	}
	if ((int) cl != want) {
		printf("  (could not build a packet of %d compressed bytes)\n", want);
		return -1;
	}
	memcpy(expect, comp, cl);
	*expectlen = cl;
	*gotlen = 0;

	/* what the client last received: start from the server's idea */
	if (write(tunfd, tunpkt, len) != len)
		return -1;
	usleep(100000);		/* let the server read its tun */

	/* a first ping to learn the current seqno without acking anything new */
	for (rounds = 0; rounds < 60 && n < maxfr; rounds++) {
		int r;

		data[0] = userid;
		data[1] = ((seq & 7) << 4) | (frag & 15);
		data[2] = pingcmc >> 8;
		data[3] = pingcmc;
		pingcmc++;
		mkname(name, 'p', data, 4);
		r = ask(name, ans, sizeof(ans));
		if (r < 2) {
			printf("  (no usable answer to ping)\n");
			return -1;
		}
		if (r == 2) {
			/* dataless: follow the server's seqno like client.c */
			seq = (ans[1] >> 5) & 7;
			frag = (ans[1] >> 1) & 15;
			if (++quiet >= 3 && (n > 0 || rounds > 8))
				break;
			continue;
		}
		quiet = 0;
		fr[n].seq = (ans[1] >> 5) & 7;
		fr[n].frag = (ans[1] >> 1) & 15;
		fr[n].last = ans[1] & 1;
		fr[n].len = r - 2;
		/* ack what we got, as client.c does (it keeps seqno/frag of the
		   last fragment it accepted; a duplicate number is not accepted) */
		if (n == 0 || fr[n].seq != fr[n - 1].seq || fr[n].frag > frag) {
			if (*gotlen + r - 2 <= 8000) {
				memcpy(got + *gotlen, ans + 2, r - 2);
				*gotlen += r - 2;
			}
			seq = fr[n].seq;
			frag = fr[n].frag;
		}
		n++;
	}
	return n;
}

/* Returns 1 when the answers violate C15 */
static int judge(struct frag *fr, int n, int F, int complete)
{
	int i, bad = 0;

	for (i = 0; i < n; i++) {
		const char *why = "";

		if (fr[i].len > F) {
			why = "  <-- more than F payload bytes";
			bad = 1;
		}
		if (i == 0 || fr[i].seq != fr[i - 1].seq) {
			if (fr[i].frag != 0) {
				why = "  <-- first fragment not numbered 0";
				bad = 1;
			}
		} else if (fr[i].frag != fr[i - 1].frag &&
			   fr[i].frag != fr[i - 1].frag + 1) {
			why = "  <-- not consecutive: same packet, number starts over";
			bad = 1;
		}
		printf("    answer %2d: seq %d  fragment %2d  last %d  payload %3d%s\n",
		       i + 1, fr[i].seq, fr[i].frag, fr[i].last, fr[i].len, why);
	}
	if (n == 0)
		printf("    (no data answers: the server dropped the packet)\n");
	printf("    packet reassembled by an in-order client: %s\n",
	       complete ? "yes" : "no");
	return bad;
}

static int client(int tunfd, int port)
{
	char name[1024], data[64], ans[8192], login[16], pass[33];
	static char got[9000], expect[9000];
	struct frag fr[80];
	int r, userid, seed, n, gotlen, expectlen, bad = 0, complete;
	int F = 60;

	cfd = socket(AF_INET, SOCK_DGRAM, 0);
	memset(&srv, 0, sizeof(srv));
	srv.sin_family = AF_INET;
	srv.sin_addr.s_addr = htonl(INADDR_LOOPBACK);
	srv.sin_port = htons(port);

	/* version */
	data[0] = PROTOCOL_VERSION >> 24; data[1] = PROTOCOL_VERSION >> 16;
	data[2] = PROTOCOL_VERSION >> 8; data[3] = PROTOCOL_VERSION & 0xff;
	data[4] = 0; data[5] = 1;
	mkname(name, 'v', data, 6);
	r = ask(name, ans, sizeof(ans));
	if (r != 9 || memcmp(ans, "VACK", 4)) {
		printf("handshake failed (version, r=%d)\n", r);
		return 2;
	}
	seed = ((ans[4] & 0xff) << 24) | ((ans[5] & 0xff) << 16) |
	       ((ans[6] & 0xff) << 8) | (ans[7] & 0xff);
	userid = ans[8];

	/* login */
	memset(pass, 0, sizeof(pass));
	strcpy(pass, "secret");
	login_calculate(login, 16, pass, seed);
	data[0] = userid;
	memcpy(data + 1, login, 16);
	data[17] = 0; data[18] = 2;
	mkname(name, 'l', data, 19);
	r = ask(name, ans, sizeof(ans));
	if (r < 10 || !memcmp(ans, "LNAK", 4)) {
		printf("handshake failed (login)\n");
		return 2;
	}
	ans[r] = 0;
	printf("logged in as user %d: %s\n", userid, ans);

	/* iodine -m 60 */
	data[0] = userid; data[1] = F >> 8; data[2] = F & 0xff; data[3] = 0; data[4] = 3;
	mkname(name, 'n', data, 5);
	r = ask(name, ans, sizeof(ans));
	if (r != 2 || (ans[0] & 0xff) != (F >> 8) || (ans[1] & 0xff) != (F & 0xff)) {
		printf("server did not accept fragsize %d\n", F);
		return 2;
	}
	printf("server accepted downstream fragment size F=%d\n\n", F);

	printf("1) packet of %d compressed bytes = exactly 16 fragments of F=%d:\n", 16 * F, F);
	n = fetch(tunfd, userid, 16 * F, fr, 80, got, &gotlen, expect, &expectlen);
	if (n < 0) return 2;
	complete = (gotlen == expectlen && !memcmp(got, expect, gotlen) && n > 0 && fr[n - 1].last);
	bad |= judge(fr, n, F, complete);
	if (!complete) {
		printf("    a packet that fits in 16 fragments must be delivered\n");
		bad = 1;
	}

	printf("\n2) packet of %d compressed bytes = one byte more (17 fragments of F=%d):\n", 16 * F + 1, F);
	n = fetch(tunfd, userid, 16 * F + 1, fr, 80, got, &gotlen, expect, &expectlen);
	if (n < 0) return 2;
	complete = (gotlen == expectlen && !memcmp(got, expect, gotlen));
	bad |= judge(fr, n, F, complete);

	/* the smallest fragment size the server accepts */
	F = 2;
	data[0] = userid; data[1] = 0; data[2] = F; data[3] = 0; data[4] = 4;
	mkname(name, 'n', data, 5);
	r = ask(name, ans, sizeof(ans));
	if (r != 2 || ans[0] != 0 || ans[1] != F) {
		printf("server did not accept fragsize %d\n", F);
		return 2;
	}
	printf("\n3) F=%d (smallest size the server accepts), packet of 40 compressed bytes:\n", F);
	n = fetch(tunfd, userid, 40, fr, 80, got, &gotlen, expect, &expectlen);
	if (n < 0) return 2;
	complete = (gotlen == expectlen && !memcmp(got, expect, gotlen));
	bad |= judge(fr, n, F, complete);

	return bad;
}

int main(void)
{
	struct sockaddr_in sa;
	socklen_t sl = sizeof(sa);
	struct dnsfd dns_fds;
	int tun[2], sfd, port, st, rc;
	pid_t pid;

	setvbuf(stdout, NULL, _IONBF, 0);
	sfd = socket(AF_INET, SOCK_DGRAM, 0);
	memset(&sa, 0, sizeof(sa));
	sa.sin_family = AF_INET;
	sa.sin_addr.s_addr = htonl(INADDR_LOOPBACK);
	if (bind(sfd, (struct sockaddr *) &sa, sizeof(sa)) < 0 ||
	    getsockname(sfd, (struct sockaddr *) &sa, &sl) < 0) {
		perror("bind");
		return 2;
	}
	port = ntohs(sa.sin_port);
	if (socketpair(AF_UNIX, SOCK_DGRAM, 0, tun) < 0) {
		perror("socketpair");
		return 2;
	}

	pid = fork();
	if (pid == 0) {
		/* the server: iodined -c off, 10.0.0.1/27, t.co, password secret */
		close(tun[1]);
		topdomain = strdup(dom);
		strcpy(password, "secret");
		check_ip = 1;
		my_mtu = 1130;
		netmask = 27;
		my_ip = inet_addr("10.0.0.1");
		created_users = init_users(my_ip, netmask);
		dns_fds.v4fd = sfd;
		dns_fds.v6fd = -1;
		prepare_dns_fd(sfd);
		tunnel(tun[0], &dns_fds, 0, 0);
		_exit(0);
	}
	close(tun[0]);
	rc = client(tun[1], port);
	kill(pid, SIGKILL);
	waitpid(pid, &st, 0);

	if (rc == 1)
		printf("\nFAIL: fragment numbers of one packet are not consecutive (C15 violated)\n");
	else if (rc == 0)
		printf("\nOK: every packet's fragments were numbered 0,1,2,... and stayed within F\n");
	return rc;
}
