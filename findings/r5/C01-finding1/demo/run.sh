#!/bin/sh
# usage: run.sh <iodine source tree root>
# exit 1 = the violation occurs (a packet nobody sent is written to the server's
# tun device), exit 0 = it does not occur, 2 = could not build/run.
ROOT=${1:?usage: run.sh <source tree root>}
SRC=$(cd "$ROOT/src" 2>/dev/null && pwd) || { echo "no src directory in $ROOT"; exit 2; }
H=$(cd "$(dirname "$0")" && pwd)
B=$(mktemp -d) || exit 2
trap 'rm -rf "$B"' EXIT

# base64u.c is generated from base64.c by the project's Makefile
sed -e 's/\([Bb][Aa][Ss][Ee]64\)/\1u/g ; s/0123456789+/0123456789_/' < "$SRC/base64.c" > "$B/base64u.c" || exit 2

CF="-g -O1 -w -DLINUX -D_GNU_SOURCE -DGITREVISION=\"demo\" -I$B -I$SRC -I$H"
for f in tun dns read encoding login base32 base64 base128 md5 common user fw_query util; do
	gcc $CF -c "$SRC/$f.c" -o "$B/$f.o" || exit 2
done
gcc $CF -c "$B/base64u.c" -o "$B/base64u.o" || exit 2
gcc $CF -c "$H/srv.c" -o "$B/srv.o" || exit 2	# includes iodined.c
gcc $CF -c "$H/cli.c" -o "$B/cli.o" || exit 2	# includes client.c
gcc $CF -c "$H/sim.c" -o "$B/sim.o" || exit 2
W=""
for s in select sleep time sendto recvfrom recv recvmsg read write system syslog tun_setip tun_setmtu; do
	W="$W -Wl,--wrap=$s"
done
worst=0
for t in down up; do
	gcc $CF -c "$H/t_frag17_$t.c" -o "$B/t_$t.o" || exit 2
	gcc -o "$B/demo_$t" "$B/t_$t.o" "$B/sim.o" "$B/srv.o" "$B/cli.o" \
		$(for f in tun dns read encoding login base32 base64 base64u base128 md5 common user fw_query util; do echo "$B/$f.o"; done) \
		$W -lz || exit 2
	echo "=== 17th fragment, ${t}stream ==="
	"$B/demo_$t" $VERBOSE 2>"$B/stderr_$t.txt"
	rc=$?
	[ $rc -eq 2 ] && cat "$B/stderr_$t.txt"
	[ $rc -gt $worst ] && worst=$rc
done
exit $worst
