/* the real client; included so that a test may look at its state */
#include "client.c"
#include "sim.h"

struct cli_cfg {
	int idx;
	const char *domain;
	const char *pw;
	const char *qtype;	/* NULL = autodetect */
	const char *downenc;	/* NULL = autodetect */
	int lazy;
	int selecttimeout;
	int maxlen;		/* -M */
	int raw;		/* try raw mode */
	int fragsize;		/* -m, 0 = autoprobe */
	int rc;			/* out: handshake result */
	int up;			/* out: handshake finished */
};

void cli_fiber(void *arg);
int cli_up_fragment(void);
int cli_up_seqno(void);
int cli_up_len(void);
int cli_down_seqno(void);
const char *cli_upenc(void);

void cli_fiber(void *arg)
{
	struct cli_cfg *c = arg;
	static struct sockaddr_storage ns;
	struct sockaddr_in *a = (struct sockaddr_in *) &ns;
	int dns_fd = FD_CLI_DNS(c->idx);
	int tun_fd = FD_CLI_TUN(c->idx);

	memset(&ns, 0, sizeof(ns));
	a->sin_family = AF_INET;
	a->sin_port = htons(53);
	a->sin_addr.s_addr = inet_addr("10.99.99.1");

	client_init();
	client_set_nameserver(&ns, sizeof(*a));
	client_set_topdomain(c->domain);
	{
		static char pwbuf[33];
		memset(pwbuf, 0, sizeof(pwbuf));
		strncpy(pwbuf, c->pw, 32);
		client_set_password(pwbuf);
	}
	if (c->qtype)
		client_set_qtype((char *) c->qtype);
	if (c->downenc)
		client_set_downenc((char *) c->downenc);
	client_set_selecttimeout(c->selecttimeout);
	client_set_lazymode(c->lazy);
	client_set_hostname_maxlen(c->maxlen);

	c->rc = client_handshake(dns_fd, c->raw, c->fragsize == 0, c->fragsize);
	c->up = 1;
	if (c->rc)
		return;
	client_tunnel(tun_fd, dns_fd);
}

int cli_up_fragment(void) { return outpkt.fragment; }
int cli_up_seqno(void) { return outpkt.seqno; }
int cli_up_len(void) { return outpkt.len; }
int cli_down_seqno(void) { return inpkt.seqno; }
const char *cli_upenc(void) { return dataenc->name; }

int cli_frag_capacity(void);
int cli_frag_capacity(void)
{
	char buf[4096];
	char dummy[2048];
	memset(dummy, 0x55, sizeof(dummy));
	return build_hostname(buf + 5, sizeof(buf) - 5, dummy, sizeof(dummy),
			      topdomain, dataenc, hostname_maxlen);
}
