/* the real server, with main() out of the way */
#define main iodined_main
#include "iodined.c"
#undef main
#include "sim.h"

struct srv_cfg {
	const char *domain;
	const char *pw;
	int mtu;
	int check_ip;
	int netbits;
	int debug;
};

void srv_setup(const struct srv_cfg *c);
void srv_fiber(void *arg);
struct tun_user *srv_user(int i);

void srv_setup(const struct srv_cfg *c)
{
	fw_query_init();
	running = 1;
	topdomain = strdup(c->domain);
	memset(password, 0, sizeof(password));
	strncpy(password, c->pw, sizeof(password) - 1);
	check_ip = c->check_ip;
	my_mtu = c->mtu;
	netmask = c->netbits;
	my_ip = inet_addr("10.0.0.1");
	ns_ip = INADDR_ANY;
	debug = c->debug;
	created_users = init_users(my_ip, netmask);
}

void srv_fiber(void *arg)
{
	struct dnsfd fds;
	fds.v4fd = FD_SRV_DNS;
	fds.v6fd = -1;
	tunnel(FD_SRV_TUN, &fds, 0, 0);
}

struct tun_user *srv_user(int i)
{
	return &users[i];
}

int srv_fragsize(int u);
int srv_fragsize(int u) { return users[u].fragsize; }
int srv_lazy(int u);
int srv_lazy(int u) { return users[u].lazy; }
