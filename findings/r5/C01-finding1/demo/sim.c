#define _GNU_SOURCE
#include <stdio.h>
#include <stdlib.h>
#include <string.h>
#include <stdarg.h>
#include <errno.h>
#include <ucontext.h>
#include <sys/select.h>
#include <sys/socket.h>
#include <sys/time.h>
#include <sys/uio.h>
#include <netinet/in.h>
#include <arpa/inet.h>
#include <unistd.h>
#include <time.h>
#include "sim.h"

usec_t sim_now = 0;
long sim_epoch = 1700000000;
int sim_verbose = 0;
int sim_violations = 0;
int sim_delivered = 0;
usec_t sim_latency = 2000;
int (*net_hook)(int dir, int cli, const unsigned char *buf, int len);
void (*tun_out_hook)(int ep, const unsigned char *frame, int len, int ok);

#define NEP (1 + MAXCLI)
#define INF ((usec_t)1 << 62)

/* ---------- queues ---------- */
struct dgram {
	struct dgram *next;
	int len;
	int from_ep;
	unsigned char data[];
};
struct queue { struct dgram *head, *tail; };

static struct queue dnsq[NEP];		/* datagrams waiting at an endpoint's socket */
static struct queue tunq[NEP];		/* frames waiting to be read from an endpoint's tun */

static void q_push(struct queue *q, const unsigned char *buf, int len, int from_ep)
{
	struct dgram *d = malloc(sizeof(*d) + len + 1);
	d->next = NULL;
	d->len = len;
	d->from_ep = from_ep;
	memcpy(d->data, buf, len);
	if (q->tail)
		q->tail->next = d;
	else
		q->head = d;
	q->tail = d;
}

static struct dgram *q_pop(struct queue *q)
{
	struct dgram *d = q->head;
	if (!d)
		return NULL;
	q->head = d->next;
	if (!q->head)
		q->tail = NULL;
	return d;
}

/* ---------- oracle ---------- */
struct sent {
	struct sent *next;
	int ep;
	int len;
	unsigned char data[];
};
static struct sent *sent_list;

static void oracle_add(int ep, const unsigned char *buf, int len)
{
	struct sent *s = malloc(sizeof(*s) + len + 1);
	s->ep = ep;
	s->len = len;
	memcpy(s->data, buf, len);
	s->next = sent_list;
	sent_list = s;
}

static int oracle_check(int ep, const unsigned char *buf, int len)
{
	struct sent *s;
	for (s = sent_list; s; s = s->next)
		if (s->ep != ep && s->len == len && !memcmp(s->data, buf, len))
			return 1;
	return 0;
}

/* ---------- events ---------- */
enum { EV_DGRAM, EV_TUN, EV_CALL };
struct event {
	struct event *next;
	usec_t when;
	unsigned long seq;
	int kind;
	int ep;		/* destination endpoint */
	int from_ep;
	void (*fn)(void *);
	void *arg;
	int len;
	unsigned char data[];
};
static struct event *events;
static unsigned long evseq;

static void ev_insert(struct event *e)
{
	struct event **pp = &events;
	e->seq = evseq++;
	while (*pp && ((*pp)->when < e->when || ((*pp)->when == e->when && (*pp)->seq < e->seq)))
		pp = &(*pp)->next;
	e->next = *pp;
	*pp = e;
}

static struct event *ev_new(int kind, usec_t when, const unsigned char *buf, int len)
{
	struct event *e = calloc(1, sizeof(*e) + len + 1);
	e->kind = kind;
	e->when = when < sim_now ? sim_now : when;
	e->len = len;
	if (len)
		memcpy(e->data, buf, len);
	return e;
}

void net_deliver_at(int dir, int cli, const unsigned char *buf, int len, usec_t when)
{
	struct event *e = ev_new(EV_DGRAM, when, buf, len);
	if (dir == 0) {
		e->ep = EP_SERVER;
		e->from_ep = EP_CLIENT(cli);
	} else {
		e->ep = EP_CLIENT(cli);
		e->from_ep = EP_SERVER;
	}
	ev_insert(e);
}

void tun_inject_at(int ep, const unsigned char *frame, int len, usec_t when)
{
	struct event *e = ev_new(EV_TUN, when, frame, len);
	e->ep = ep;
	ev_insert(e);
}

void tun_inject(int ep, const unsigned char *frame, int len)
{
	tun_inject_at(ep, frame, len, sim_now);
}

void sim_at(usec_t when, void (*fn)(void *), void *arg)
{
	struct event *e = ev_new(EV_CALL, when, NULL, 0);
	e->fn = fn;
	e->arg = arg;
	ev_insert(e);
}

/* ---------- fibers ---------- */
struct fiber {
	int used;
	int done;
	int blocked;
	ucontext_t ctx;
	char *stack;
	void (*fn)(void *);
	void *arg;
	fd_set *rfds;
	int nfds;
	usec_t deadline;
	int sel_ret;
};
static struct fiber fibers[NEP];
static struct fiber *cur;
static ucontext_t sched_ctx;
#define STACKSZ (8 * 1024 * 1024)

static void fiber_main(int ep)
{
	struct fiber *f = &fibers[ep];
	f->fn(f->arg);
	f->done = 1;
	cur = NULL;
	swapcontext(&f->ctx, &sched_ctx);
}

void sim_spawn(int ep, void (*fn)(void *), void *arg)
{
	struct fiber *f = &fibers[ep];
	memset(f, 0, sizeof(*f));
	f->used = 1;
	f->fn = fn;
	f->arg = arg;
	f->stack = malloc(STACKSZ);
	getcontext(&f->ctx);
	f->ctx.uc_stack.ss_sp = f->stack;
	f->ctx.uc_stack.ss_size = STACKSZ;
	f->ctx.uc_link = &sched_ctx;
	makecontext(&f->ctx, (void (*)(void)) fiber_main, 1, ep);
	f->blocked = 0;
}

int sim_fiber_done(int ep)
{
	return !fibers[ep].used || fibers[ep].done;
}

static int fd_to_ep(int fd, int *is_tun)
{
	if (fd == FD_SRV_DNS) { *is_tun = 0; return EP_SERVER; }
	if (fd == FD_SRV_TUN) { *is_tun = 1; return EP_SERVER; }
	if (fd >= FD_CLI_DNS(0) && fd <= FD_CLI_TUN(MAXCLI - 1)) {
		*is_tun = (fd - FD_CLI_DNS(0)) & 1;
		return EP_CLIENT((fd - FD_CLI_DNS(0)) / 2);
	}
	return -1;
}

static int fd_readable(int fd)
{
	int is_tun;
	int ep = fd_to_ep(fd, &is_tun);
	if (ep < 0)
		return 0;
	return is_tun ? tunq[ep].head != NULL : dnsq[ep].head != NULL;
}

static int fiber_ready(struct fiber *f, fd_set *out)
{
	int fd, n = 0;
	FD_ZERO(out);
	if (f->rfds) {
		for (fd = 0; fd < f->nfds; fd++)
			if (FD_ISSET(fd, f->rfds) && fd_readable(fd)) {
				FD_SET(fd, out);
				n++;
			}
	}
	return n;
}

static void resume(struct fiber *f)
{
	cur = f;
	swapcontext(&sched_ctx, &f->ctx);
	cur = NULL;
}

static void fire_due_events(void)
{
	while (events && events->when <= sim_now) {
		struct event *e = events;
		events = e->next;
		switch (e->kind) {
		case EV_DGRAM:
			q_push(&dnsq[e->ep], e->data, e->len, e->from_ep);
			break;
		case EV_TUN:
			oracle_add(e->ep, e->data, e->len);
			q_push(&tunq[e->ep], e->data, e->len, e->ep);
			break;
		case EV_CALL:
			e->fn(e->arg);
			break;
		}
		free(e);
	}
}

void sim_run_until(usec_t tend)
{
	for (;;) {
		int i, progress = 0;
		usec_t next;

		fire_due_events();

		for (i = 0; i < NEP; i++) {
			struct fiber *f = &fibers[i];
			fd_set res;
			int n;
			if (!f->used || f->done)
				continue;
			if (!f->blocked) {		/* not started yet */
				resume(f);
				progress = 1;
				break;
			}
			n = fiber_ready(f, &res);
			if (n > 0 || sim_now >= f->deadline) {
				if (f->rfds)
					*f->rfds = res;
				f->sel_ret = n;
				f->blocked = 0;
				resume(f);
				progress = 1;
				break;
			}
		}
		if (progress)
			continue;

		next = events ? events->when : INF;
		for (i = 0; i < NEP; i++) {
			struct fiber *f = &fibers[i];
			if (f->used && !f->done && f->blocked && f->deadline < next)
				next = f->deadline;
		}
		if (next >= INF || next > tend) {
			if (tend > sim_now && tend < INF)
				sim_now = tend;
			return;
		}
		if (next > sim_now)
			sim_now = next;
	}
}

/* ---------- wrapped libc ---------- */
int __real_select(int, fd_set *, fd_set *, fd_set *, struct timeval *);
ssize_t __real_read(int, void *, size_t);
ssize_t __real_write(int, const void *, size_t);

int __wrap_select(int nfds, fd_set *r, fd_set *w, fd_set *e, struct timeval *tv)
{
	struct fiber *f = cur;
	if (!f) {
		fprintf(stderr, "sim: select outside fiber\n");
		abort();
	}
	f->rfds = r;
	f->nfds = nfds;
	f->deadline = tv ? sim_now + (usec_t) tv->tv_sec * 1000000 + tv->tv_usec : INF;
	f->blocked = 1;
	swapcontext(&f->ctx, &sched_ctx);
	return f->sel_ret;
}

unsigned int __wrap_sleep(unsigned int s)
{
	struct timeval tv = { s, 0 };
	__wrap_select(0, NULL, NULL, NULL, &tv);
	return 0;
}

time_t __wrap_time(time_t *t)
{
	time_t v = sim_epoch + sim_now / 1000000;
	if (t)
		*t = v;
	return v;
}

static void fill_addr(struct sockaddr *sa, socklen_t *alen, int ep)
{
	struct sockaddr_in a;
	memset(&a, 0, sizeof(a));
	a.sin_family = AF_INET;
	if (ep == EP_SERVER) {
		a.sin_port = htons(53);
		a.sin_addr.s_addr = htonl(0x0a636301);	/* 10.99.99.1 */
	} else {
		a.sin_port = htons(40000 + ep);
		a.sin_addr.s_addr = htonl(0x0a636300 + 1 + ep);
	}
	if (sa && alen) {
		socklen_t n = *alen < sizeof(a) ? *alen : sizeof(a);
		memcpy(sa, &a, n);
		*alen = sizeof(a);
	}
}

ssize_t __wrap_sendto(int fd, const void *buf, size_t len, int flags,
		      const struct sockaddr *to, socklen_t tolen)
{
	int is_tun, ep = fd_to_ep(fd, &is_tun);
	int dir, cli;
	if (ep < 0 || is_tun) {
		errno = EBADF;
		return -1;
	}
	if (ep == EP_SERVER) {
		const struct sockaddr_in *a = (const struct sockaddr_in *) to;
		int dep = ntohs(a->sin_port) - 40000;
		if (dep < 1 || dep >= NEP)
			return len;	/* to nowhere */
		dir = 1;
		cli = dep - 1;
	} else {
		dir = 0;
		cli = ep - 1;
	}
	if (!net_hook || !net_hook(dir, cli, buf, len))
		net_deliver_at(dir, cli, buf, len, sim_now + sim_latency);
	return len;
}

static ssize_t do_recv(int fd, void *buf, size_t len, struct sockaddr *from, socklen_t *fromlen)
{
	int is_tun, ep = fd_to_ep(fd, &is_tun);
	struct dgram *d;
	ssize_t n;
	if (ep < 0 || is_tun) {
		errno = EBADF;
		return -1;
	}
	d = q_pop(&dnsq[ep]);
	if (!d) {
		errno = EAGAIN;
		return -1;
	}
	n = d->len < (int) len ? d->len : (int) len;
	memcpy(buf, d->data, n);
	fill_addr(from, fromlen, d->from_ep);
	free(d);
	return n;
}

ssize_t __wrap_recvfrom(int fd, void *buf, size_t len, int flags,
			struct sockaddr *from, socklen_t *fromlen)
{
	return do_recv(fd, buf, len, from, fromlen);
}

ssize_t __wrap_recv(int fd, void *buf, size_t len, int flags)
{
	return do_recv(fd, buf, len, NULL, NULL);
}

ssize_t __wrap_recvmsg(int fd, struct msghdr *msg, int flags)
{
	socklen_t alen = msg->msg_namelen;
	ssize_t n = do_recv(fd, msg->msg_iov[0].iov_base, msg->msg_iov[0].iov_len,
			    msg->msg_name, &alen);
	msg->msg_namelen = alen;
	msg->msg_controllen = 0;
	return n;
}

ssize_t __wrap_read(int fd, void *buf, size_t len)
{
	int is_tun, ep = fd_to_ep(fd, &is_tun);
	struct dgram *d;
	ssize_t n;
	if (ep < 0)
		return __real_read(fd, buf, len);
	if (!is_tun) {
		errno = EBADF;
		return -1;
	}
	d = q_pop(&tunq[ep]);
	if (!d) {
		errno = EAGAIN;
		return -1;
	}
	n = d->len < (int) len ? d->len : (int) len;
	memcpy(buf, d->data, n);
	free(d);
	return n;
}

ssize_t __wrap_write(int fd, const void *buf, size_t len)
{
	int is_tun, ep = fd_to_ep(fd, &is_tun);
	int ok;
	if (ep < 0)
		return __real_write(fd, buf, len);
	if (!is_tun) {
		errno = EBADF;
		return -1;
	}
	ok = oracle_check(ep, buf, len);
	if (ok)
		sim_delivered++;
	else
		sim_violations++;
	if (tun_out_hook)
		tun_out_hook(ep, buf, len, ok);
	return len;
}

int __wrap_system(const char *cmd)
{
	return 0;
}

void __wrap_syslog(int prio, const char *fmt, ...)
{
}

int __wrap_tun_setip(const char *ip, const char *other_ip, int netbits)
{
	return 0;
}

int __wrap_tun_setmtu(const unsigned mtu)
{
	return 0;
}
