/* C01: the 17th upstream fragment carries fragment number 0 again */
#include "common_t.h"
#include <zlib.h>
int cli_frag_capacity(void);
int b32_8to5(int);

static unsigned char stash[4096];
static int stash_len;
static int seen15, injected;
static int big_seq = -1;
static int verbose;

static int hook(int dir, int cli, const unsigned char *buf, int len)
{
	int c1, c2, seq, frag;
	if (dir != 0 || len < 20)
		return 0;
	if (buf[13] != '0' || buf[12] < 6)
		return 0;		/* not an upstream data query of user 0 */
	c1 = b32_8to5(buf[14]);
	c2 = b32_8to5(buf[15]);
	seq = (c1 >> 2) & 7;
	frag = ((c1 & 3) << 2) | ((c2 >> 3) & 3);
	if (verbose)
		printf("[%lld ms] up data query seq %d frag %d last %d (%d bytes)\n",
		       sim_now / 1000, seq, frag, b32_8to5(buf[16]) & 1, len);
	if (!stash_len) {
		/* first data query of the session: the relay will repeat it later */
		memcpy(stash, buf, len);
		stash_len = len;
		big_seq = (seq + 4) & 7;
		return 0;
	}
	if (seq == big_seq && frag == 15)
		seen15 = 1;
	if (seq == big_seq && frag == 0 && seen15 && !injected) {
		injected = 1;
		printf("[%lld ms] fragment 17 of packet %d goes out numbered 0; "
		       "the late copy of the first query will arrive in 500 ms\n",
		       sim_now / 1000, seq);
		net_deliver_at(0, 0, stash, stash_len, sim_now + 500000);
	}
	return 0;
}

static void out_hook(int ep, const unsigned char *f, int len, int ok)
{
	int i;
	printf("[%lld ms] %s writes %d bytes to its tun device: %s\n", sim_now / 1000,
	       ep == EP_SERVER ? "server" : "client", len,
	       ok ? "as sent by the peer" : "NOBODY SENT THIS PACKET");
	if (!ok) {
		printf("    ");
		for (i = 0; i < len && i < 64; i++)
			printf("%02x", f[i]);
		printf("\n    payload: \"%.*s\"\n", len > 24 ? len - 24 : 0, f + 24);
	}
}

int main(int argc, char **argv)
{
	struct srv_cfg sc = { "t.co", "pw", 1130, 1, 27, 0 };
	struct cli_cfg cc = { 0, "t.co", "pw", "NULL", NULL, 1, 4, 90, 0, 0, 0, 0 };
	unsigned char pl[4000], fr[4100], inner[64], z[128], comp[8192], chk[256];
	unsigned long zlen, clen, chklen;
	int i, n, F, ninner, N, zoff;

	verbose = argc > 1;
	if (getenv("MAXLEN"))
		cc.maxlen = atoi(getenv("MAXLEN"));
	srand(1);
	tun_out_hook = out_hook;
	net_hook = hook;
	srv_setup(&sc);
	sim_spawn(EP_SERVER, srv_fiber, NULL);
	sim_spawn(EP_CLIENT(0), cli_fiber, &cc);
	while (!cc.up && sim_now < 120000000)
		sim_run_until(sim_now + 100000);
	if (cc.rc) {
		printf("handshake failed\n");
		return 2;
	}
	F = cli_frag_capacity();
	printf("handshake done: upstream codec %s, -M %d: %d bytes per upstream fragment, 16 fragments carry %d bytes\n",
	       cli_upenc(), cc.maxlen, F, 16 * F);

	/* the packet that will be fabricated: never given to any tun device */
	ninner = mkframe(inner, "10.0.0.2", "10.0.0.1", (const unsigned char *) "FORGED", 6);
	zlen = sizeof(z);
	compress2(z, &zlen, inner, ninner, 9);

	/* A full-size packet with incompressible payload (zlib stores it), which
	   carries those zlen bytes at the place where its 17th fragment begins. */
	zoff = 16 * F - 7;		/* 2 bytes zlib header, 5 bytes stored-block header */
	N = zoff + zlen;
	if ((int) zlen + 4 > F || N > sc.mtu + 4) {
		printf("configuration does not fit this demo (F=%d, N=%d)\n", F, N);
		return 2;
	}
	for (i = 0; i < N; i++)
		pl[i] = rng() >> 8;
	n = mkframe(fr, "10.0.0.2", "10.0.0.1", pl, N - 24);
	memcpy(fr + zoff, z, zlen);
	clen = sizeof(comp);
	compress2(comp, &clen, fr, n, 9);
	chklen = sizeof(chk);
	if ((int) clen <= 16 * F || (int) clen > 17 * F ||
	    uncompress(chk, &chklen, comp + 16 * F, clen - 16 * F) != Z_OK) {
		printf("could not construct the packet (clen %lu)\n", clen);
		return 2;
	}
	printf("big packet: %d bytes, %lu compressed = 17 fragments; its last fragment alone inflates to %lu bytes\n",
	       n, clen, chklen);

	/* four small packets, then the big one */
	for (i = 0; i < 4; i++) {
		unsigned char sm[64];
		int k = mkframe(sm, "10.0.0.2", "10.0.0.1", (const unsigned char *) "small packet", 12);
		sm[30] = i;
		tun_inject_at(EP_CLIENT(0), sm, k, sim_now + 100000 + i * 200000);
	}
	tun_inject_at(EP_CLIENT(0), fr, n, sim_now + 1000000);

	sim_run_until(sim_now + 15000000);
	printf("delivered as sent: %d, fabricated: %d\n", sim_delivered, sim_violations);
	if (sim_violations) {
		printf("FAIL: a packet that nobody sent was written to a tun device\n");
		return 1;
	}
	printf("PASS\n");
	return 0;
}
