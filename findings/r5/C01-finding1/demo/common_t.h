#include <stdio.h>
#include <stdlib.h>
#include <string.h>
#include <stdint.h>
#include <arpa/inet.h>
#include "sim.h"

struct srv_cfg { const char *domain; const char *pw; int mtu; int check_ip; int netbits; int debug; };
struct cli_cfg { int idx; const char *domain; const char *pw; const char *qtype; const char *downenc;
	int lazy; int selecttimeout; int maxlen; int raw; int fragsize; int rc; int up; };
void srv_setup(const struct srv_cfg *c);
void srv_fiber(void *arg);
void cli_fiber(void *arg);
int cli_up_fragment(void);
int cli_up_seqno(void);
int cli_up_len(void);
int cli_down_seqno(void);
const char *cli_upenc(void);

static uint32_t rng_state = 12345;
static inline uint32_t rng(void)
{
	rng_state ^= rng_state << 13;
	rng_state ^= rng_state >> 17;
	rng_state ^= rng_state << 5;
	return rng_state;
}

/* tun frame: 4 bytes of tun header, IPv4 header, payload */
static inline int mkframe(unsigned char *f, const char *src, const char *dst,
			  const unsigned char *payload, int plen)
{
	int tot = 20 + plen;
	memset(f, 0, 24);
	f[2] = 0x08;
	f[4] = 0x45;
	f[6] = tot >> 8;
	f[7] = tot & 0xff;
	f[12] = 64;
	f[13] = 17;
	*(uint32_t *) (f + 16) = inet_addr(src);
	*(uint32_t *) (f + 20) = inet_addr(dst);
	if (plen)
		memcpy(f + 24, payload, plen);
	return 24 + plen;
}
