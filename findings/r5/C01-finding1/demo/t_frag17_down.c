/* C01: the 17th downstream fragment carries fragment number 0 again */
#include "common_t.h"
#include <zlib.h>
int srv_fragsize(int u);

static unsigned char stash[4096];
static int stash_len;
static int seen15, injected;
static int big_seq = -1;
static int verbose;

/* returns pointer to rdata of a NULL answer, or NULL */
static const unsigned char *null_rdata(const unsigned char *buf, int len, int *rdlen)
{
	int p = 12;
	if (len < 12 || !(buf[2] & 0x80) || buf[7] < 1)
		return NULL;
	while (p < len && buf[p])
		p += buf[p] + 1;
	p += 1 + 4;		/* root label, qtype, qclass */
	p += 2 + 2 + 2 + 4;	/* name pointer, type, class, ttl */
	if (p + 2 > len)
		return NULL;
	*rdlen = (buf[p] << 8) | buf[p + 1];
	p += 2;
	if (p + *rdlen > len)
		return NULL;
	return buf + p;
}

static int hook(int dir, int cli, const unsigned char *buf, int len)
{
	const unsigned char *rd;
	int rdlen, seq, frag, last;
	if (dir != 1)
		return 0;
	rd = null_rdata(buf, len, &rdlen);
	if (!rd || rdlen <= 2 || !(rd[0] & 0x80))
		return 0;	/* no downstream data in it */
	seq = (rd[1] >> 5) & 7;
	frag = (rd[1] >> 1) & 15;
	last = rd[1] & 1;
	if (verbose)
		printf("[%lld ms] down answer seq %d frag %d last %d (%d data bytes)\n",
		       sim_now / 1000, seq, frag, last, rdlen - 2);
	if (big_seq < 0 && !last && frag == 0)
		big_seq = seq;
	if (seq == big_seq && frag == 15)
		seen15 = 1;
	if (seq == big_seq && frag == 0 && seen15) {
		/* the 17th fragment, numbered 0; the relay will send this answer twice */
		memcpy(stash, buf, len);
		stash_len = len;
	}
	if (stash_len && !injected && seq == ((big_seq + 4) & 7)) {
		injected = 1;
		printf("[%lld ms] packet %d goes down; the second copy of the answer with "
		       "fragment 17 of packet %d arrives 50 ms after it\n",
		       sim_now / 1000, seq, big_seq);
		net_deliver_at(1, 0, stash, stash_len, sim_now + sim_latency + 50000);
	}
	return 0;
}

static void out_hook(int ep, const unsigned char *f, int len, int ok)
{
	int i;
	printf("[%lld ms] %s writes %d bytes to its tun device: %s\n", sim_now / 1000,
	       ep == EP_SERVER ? "server" : "client", len,
	       ok ? "as sent by the peer" : "NOBODY SENT THIS PACKET");
	if (!ok) {
		printf("    ");
		for (i = 0; i < len && i < 64; i++)
			printf("%02x", f[i]);
		printf("\n    payload: \"%.*s\"\n", len > 24 ? len - 24 : 0, f + 24);
	}
}

int main(int argc, char **argv)
{
	struct srv_cfg sc = { "t.co", "pw", 1130, 1, 27, 0 };
	struct cli_cfg cc = { 0, "t.co", "pw", "NULL", NULL, 1, 4, 255, 0, 60, 0, 0 };
	unsigned char pl[4000], fr[4100], inner[64], z[128], comp[8192], chk[256];
	unsigned long zlen, clen, chklen;
	int i, n, F, ninner, N, zoff;

	verbose = argc > 1;
	srand(1);
	tun_out_hook = out_hook;
	net_hook = hook;
	srv_setup(&sc);
	sim_spawn(EP_SERVER, srv_fiber, NULL);
	sim_spawn(EP_CLIENT(0), cli_fiber, &cc);
	while (!cc.up && sim_now < 120000000)
		sim_run_until(sim_now + 100000);
	if (cc.rc) {
		printf("handshake failed\n");
		return 2;
	}
	F = srv_fragsize(0);
	printf("handshake done: iodine -m %d: %d bytes per downstream fragment, 16 fragments carry %d bytes\n",
	       cc.fragsize, F, 16 * F);

	ninner = mkframe(inner, "10.0.0.1", "10.0.0.2", (const unsigned char *) "FORGED", 6);
	zlen = sizeof(z);
	compress2(z, &zlen, inner, ninner, 9);
	zoff = 16 * F - 7;
	N = zoff + zlen;
	if ((int) zlen + 4 > F || N > sc.mtu + 4) {
		printf("configuration does not fit this demo (F=%d, N=%d)\n", F, N);
		return 2;
	}
	for (i = 0; i < N; i++)
		pl[i] = rng() >> 8;
	n = mkframe(fr, "10.0.0.1", "10.0.0.2", pl, N - 24);
	memcpy(fr + zoff, z, zlen);
	clen = sizeof(comp);
	compress2(comp, &clen, fr, n, 9);
	chklen = sizeof(chk);
	if ((int) clen <= 16 * F || (int) clen > 17 * F ||
	    uncompress(chk, &chklen, comp + 16 * F, clen - 16 * F) != Z_OK) {
		printf("could not construct the packet (clen %lu)\n", clen);
		return 2;
	}
	printf("big packet: %d bytes, %lu compressed = 17 fragments; its last fragment alone inflates to %lu bytes\n",
	       n, clen, chklen);

	/* the big packet, and four small ones right behind it */
	tun_inject_at(EP_SERVER, fr, n, sim_now + 1000000);
	for (i = 0; i < 4; i++) {
		unsigned char sm[64];
		int k = mkframe(sm, "10.0.0.1", "10.0.0.2", (const unsigned char *) "small packet", 12);
		sm[30] = i;
		tun_inject_at(EP_SERVER, sm, k, sim_now + 1100000 + i * 100000);
	}

	sim_run_until(sim_now + 20000000);
	printf("delivered as sent: %d, fabricated: %d\n", sim_delivered, sim_violations);
	if (sim_violations) {
		printf("FAIL: a packet that nobody sent was written to a tun device\n");
		return 1;
	}
	printf("PASS\n");
	return 0;
}
