/* Deterministic single-process simulation of iodine client(s) + iodined.
 * The real client and server main loops run as fibers; select(), the socket
 * calls, the tun read()/write() and time() are redirected with -Wl,--wrap. */
#ifndef SIM_H
#define SIM_H
#include <stddef.h>

#define MAXCLI 4
#define EP_SERVER 0
#define EP_CLIENT(i) (1 + (i))

#define FD_SRV_DNS 500
#define FD_SRV_TUN 501
#define FD_CLI_DNS(i) (510 + 2 * (i))
#define FD_CLI_TUN(i) (511 + 2 * (i))

typedef long long usec_t;

extern usec_t sim_now;			/* virtual time in microseconds */
extern long sim_epoch;			/* time() = sim_epoch + sim_now/1e6 */
extern int sim_verbose;
extern int sim_violations;		/* frames written to a tun that nobody sent */
extern int sim_delivered;		/* frames written to a tun that were sent */

/* network hook: called for every datagram put on the wire.
   dir 0 = client->server, 1 = server->client. Return 0 to let the default
   happen (delivery after sim_latency), non-zero if the hook took care of it
   (by calling net_deliver_at() any number of times, or not at all). */
extern int (*net_hook)(int dir, int cli, const unsigned char *buf, int len);
extern usec_t sim_latency;
void net_deliver_at(int dir, int cli, const unsigned char *buf, int len, usec_t when);

/* tun side */
void tun_inject(int ep, const unsigned char *frame, int len);	/* readable now */
void tun_inject_at(int ep, const unsigned char *frame, int len, usec_t when);
/* hook called on every frame written to a tun device; ok = 1 when the frame
   equals one injected earlier at another endpoint */
extern void (*tun_out_hook)(int ep, const unsigned char *frame, int len, int ok);

/* scripted events */
void sim_at(usec_t when, void (*fn)(void *), void *arg);

/* fibers */
void sim_spawn(int ep, void (*fn)(void *), void *arg);
void sim_run_until(usec_t t);	/* run the simulation up to virtual time t */
int sim_fiber_done(int ep);

#endif
