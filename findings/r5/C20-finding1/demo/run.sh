#!/bin/sh
# usage: run.sh <source tree root>
# exit 1 = violation shown, 0 = no violation, 2 = could not build/run
ROOT=$(cd "${1:-.}" && pwd) || exit 2
SRC=$ROOT/src
HERE=$(cd "$(dirname "$0")" && pwd)
T=$(mktemp -d) || exit 2
trap 'rm -rf "$T"' EXIT
CC=${CC:-cc}
FLAGS="-O0 -w -DLINUX -D_GNU_SOURCE -DGITREVISION=\"demo\" -I$SRC"

sed -e 's/\([Bb][Aa][Ss][Ee]64\)/\1u/g ; s/0123456789+/0123456789_/' < "$SRC/base64.c" > "$T/base64u.c" || exit 2
for f in tun dns read encoding login base32 base64 base128 md5 common user fw_query; do
	$CC $FLAGS -c "$SRC/$f.c" -o "$T/$f.o" || exit 2
done
$CC $FLAGS -c "$T/base64u.c" -o "$T/base64u.o" || exit 2
# the unchanged server, only its main() gets another name
$CC $FLAGS -Dmain=iodined_main -c "$SRC/iodined.c" -o "$T/iodined.o" || exit 2
$CC -O0 -Wall -I"$HERE" "$HERE/demo.c" "$T"/*.o -o "$T/demo" -lz -Wl,--wrap=open_tun || exit 2

"$T/demo"
