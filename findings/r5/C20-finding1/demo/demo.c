/* C20 finding 1: a reply is routed to an older asker that used the same id */
#include "harness.h"

static int violations;

/* Local DNS answers id; 'expect' is the asker who must get it (-1: nobody) */
static void
reply_and_check(unsigned id, int expect, const char *what, int verbose)
{
	static unsigned serial;
	unsigned char b[32], g[2048];
	int i, r, ok = 1;

	memset(b, 0, sizeof(b));
	b[0] = id >> 8; b[1] = id;
	b[2] = 0x81; b[3] = 0x83;		/* response, NXDOMAIN */
	serial++;
	memcpy(b + 12, &serial, sizeof(serial));	/* makes every reply unique */
	localdns_reply(b, 20);

	for (i = 0; i < NASK; i++) {
		r = rx(ask[i], g, sizeof(g), NULL, 0);
		if (r > 0) {
			int same = (r == 20 && !memcmp(g, b, 20));
			if (i != expect || !same) {
				ok = 0;
				if (verbose)
					printf("  VIOLATION %s: reply with id %u was sent to asker %d%s; the newest query with that id is of asker %d\n",
					    what, id, i, same ? "" : " (altered)", expect);
			}
		} else if (i == expect) {
			ok = 0;
			if (verbose)
				printf("  VIOLATION %s: asker %d never got the reply to its query with id %u\n", what, i, id);
		}
	}
	if (!ok)
		violations++;
	else if (verbose && expect < 0)
		printf("  ok %s: reply with id %u matches no remembered query, sent to nobody\n", what, id);
	else if (verbose)
		printf("  ok %s: reply with id %u went to asker %d only\n", what, id, expect);
}

static int
query(int a, unsigned id, const char *name)
{
	unsigned char w[128], p[256], got[1500];
	int wl = towire(name, w), l = mkquery(p, id, w, wl, 1), r;

	r = asker_query(a, p, l, got, sizeof(got));
	if (r < 16 + wl || ((got[0] << 8) | got[1]) != (int) id || memcmp(got + 12, w, wl)) {
		printf("  VIOLATION: query %s id %u of asker %d was not relayed intact\n", name, id, a);
		violations++;
		return -1;
	}
	return 0;
}

int
main(void)
{
	struct { unsigned id; int a; } ring[16];
	int n = 0, k, before, shown = 0;

	setvbuf(stdout, NULL, _IONBF, 0);
	start_server();

	printf("Part 1: two forwarded queries in the whole life of the server\n");
	query(0, 7, "a.other.org");
	printf("  asker 0 asked a.other.org with id 7, relayed\n");
	reply_and_check(7, 0, "first answer", 1);
	query(1, 7, "b.other.org");
	printf("  asker 1 asked b.other.org with id 7, relayed\n");
	reply_and_check(7, 1, "second answer", 1);
	query(1, 7, "b.other.org");
	printf("  asker 1 repeated its query (same id, as stub resolvers do), relayed\n");
	reply_and_check(7, 1, "answer to the repeat", 1);

	/* fill the ring so that part 2 starts from known contents */
	ring[0].id = 7; ring[0].a = 0;
	ring[1].id = 7; ring[1].a = 1;
	ring[2].id = 7; ring[2].a = 1;
	n = 3;

	printf("Part 2: 400 random steps, 6 askers, ids 0..3, oracle = the newest of the\n"
	       "        16 most recent forwarded queries that has the id of the reply\n");
	before = violations;
	srand(20);
	for (k = 0; k < 400; k++) {
		unsigned id = rand() % 4;
		if (rand() % 2) {
			int who = rand() % NASK;
			char nm[64];
			sprintf(nm, "h%d.other.org", k);
			query(who, id, nm);
			if (n < 16) {
				ring[n].id = id; ring[n].a = who; n++;
			} else {
				memmove(ring, ring + 1, 15 * sizeof(ring[0]));
				ring[15].id = id; ring[15].a = who;
			}
		} else {
			int exp = -1, j;
			char what[32];
			for (j = n - 1; j >= 0; j--)
				if (ring[j].id == id) { exp = ring[j].a; break; }
			sprintf(what, "step %d", k);
			reply_and_check(id, exp, what, shown++ < 10);
		}
	}
	printf("  %d replies of part 2 went to the wrong asker\n", violations - before);

	if (violations) {
		printf("FAIL: %d replies were not routed back to the asker\n", violations);
		return 1;
	}
	printf("PASS\n");
	return 0;
}
