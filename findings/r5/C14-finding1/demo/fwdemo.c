/* C14 demo: answers relayed through the -b forwarding ring reach the wrong asker.
   The real iodined code runs (tunnel_dns(), forward_query(), tunnel_bind());
   only the socket calls are replaced, no network is needed. */
#define main iodined_main
#include "iodined.c"
#undef main
#include "read.h"

#define DNSFD 100	/* the server's port-53 socket */
#define BINDFD 101	/* the server's socket towards the local DNS server (-b) */

struct dgram { unsigned char d[1024]; int len; struct sockaddr_in from; };
static struct dgram in_dns, in_bind;	/* next datagram to be read from each socket */
static struct dgram fwd[8]; static int nfwd;	/* what the local DNS server received */

/* oracle: queries received on port 53 and not yet answered */
static struct { int used, port; unsigned short id, type; char name[256]; } out[16];
static int violations;

static void question(unsigned char *p, int len, unsigned short *id, char *name, unsigned short *type)
{
	char *d = (char *) p + 12; unsigned short cls;
	*id = (p[0] << 8) | p[1];
	name[0] = 0;
	readname((char *) p, len, &d, name, 255);
	readshort((char *) p, &d, type);
	readshort((char *) p, &d, &cls);
}

ssize_t __wrap_sendto(int fd, const void *buf, size_t len, int flags, const struct sockaddr *to, socklen_t tolen)
{
	unsigned short id, type; char name[256]; int i, port;

	if (fd == BINDFD) {		/* server -> local DNS server */
		memcpy(fwd[nfwd].d, buf, len); fwd[nfwd].len = len; nfwd++;
		return len;
	}
	/* server -> an asker on port 53: this is "a DNS answer the server emits" */
	port = ntohs(((struct sockaddr_in *) to)->sin_port);
	question((unsigned char *) buf, len, &id, name, &type);
	for (i = 0; i < 16; i++)
		if (out[i].used && out[i].port == port && out[i].id == id &&
		    out[i].type == type && !strcasecmp(out[i].name, name))
			break;
	if (i == 16) {
		printf("  VIOLATION: answer id 0x%04x \"%s\" sent to asker at port %d, which has no such query outstanding\n", id, name, port);
		violations++;
	} else {
		printf("  ok: answer id 0x%04x \"%s\" sent to asker at port %d\n", id, name, port);
		out[i].used = 0;
	}
	return len;
}

ssize_t __wrap_recvmsg(int fd, struct msghdr *msg, int flags)
{
	memcpy(msg->msg_iov[0].iov_base, in_dns.d, in_dns.len);
	memcpy(msg->msg_name, &in_dns.from, sizeof(in_dns.from));
	msg->msg_namelen = sizeof(in_dns.from);
	msg->msg_controllen = 0;
	return in_dns.len;
}

ssize_t __wrap_recvfrom(int fd, void *buf, size_t len, int flags, struct sockaddr *from, socklen_t *fromlen)
{
	memcpy(buf, in_bind.d, in_bind.len);
	memcpy(from, &in_bind.from, sizeof(struct sockaddr));
	return in_bind.len;
}

static struct dnsfd fds = { DNSFD, -1 };

/* An ordinary resolver/stub at 127.0.0.1:port asks the server for name (outside the tunnel domain) */
static void ask(int port, unsigned short id, const char *name)
{
	struct query q; int i;

	memset(&q, 0, sizeof(q));
	q.type = T_A; q.id = id;
	in_dns.len = dns_encode((char *) in_dns.d, sizeof(in_dns.d), &q, QR_QUERY, name, strlen(name));
	memset(&in_dns.from, 0, sizeof(in_dns.from));
	in_dns.from.sin_family = AF_INET;
	in_dns.from.sin_port = htons(port);
	in_dns.from.sin_addr.s_addr = htonl(0x7f000001);
	for (i = 0; out[i].used; i++);
	out[i].used = 1; out[i].port = port; out[i].id = id; out[i].type = T_A;
	strcpy(out[i].name, name);
	printf("asker at port %d sends query id 0x%04x \"%s\"\n", port, id, name);
	tunnel_dns(-1, DNSFD, &fds, BINDFD);
}

/* The local DNS server answers the n-th query that was forwarded to it */
static void local_dns_answers(int n)
{
	unsigned short id, type; char name[256];

	question(fwd[n].d, fwd[n].len, &id, name, &type);
	memcpy(in_bind.d, fwd[n].d, fwd[n].len);
	in_bind.len = fwd[n].len;
	in_bind.d[2] |= 0x80;	/* QR: this is a response (rcode 0, no records: good enough) */
	memset(&in_bind.from, 0, sizeof(in_bind.from));
	in_bind.from.sin_family = AF_INET;
	in_bind.from.sin_port = htons(bind_port);
	in_bind.from.sin_addr.s_addr = htonl(0x7f000001);
	printf("local DNS server answers \"%s\"\n", name);
	tunnel_bind(BINDFD, &fds);
}

int main(void)
{
	topdomain = "t.example";
	bind_port = 5353;
	fw_query_init();
	setvbuf(stdout, NULL, _IONBF, 0);

	printf("--- history 1: two askers use the same DNS id one after the other\n");
	ask(5001, 0x1234, "www.example.org");
	local_dns_answers(0);
	ask(5002, 0x1234, "mail.example.net");
	local_dns_answers(1);

	printf("--- history 2: two askers have the same DNS id in flight at the same time\n");
	ask(6001, 0x4321, "a.example.org");
	ask(6002, 0x4321, "b.example.net");
	local_dns_answers(3);
	local_dns_answers(2);

	printf("%d unsolicited answers\n", violations);
	return violations ? 1 : 0;
}
