#!/bin/sh
# usage: run.sh <source tree root>
# exit 1: iodined relayed a forwarded answer to an asker that has no such query outstanding
# exit 0: every relayed answer went to the asker whose query it answers
ROOT=${1:?usage: run.sh source-tree-root}
ROOT=$(cd "$ROOT" && pwd) || exit 2
HERE=$(cd "$(dirname "$0")" && pwd)
TMP=$(mktemp -d) || exit 2
trap 'rm -rf "$TMP"' EXIT
cp "$ROOT"/src/*.c "$ROOT"/src/*.h "$TMP"/ || exit 2
cd "$TMP" || exit 2
sed -e 's/\([Bb][Aa][Ss][Ee]64\)/\1u/g ; s/0123456789+/0123456789_/' < base64.c > base64u.c
${CC:-cc} -g -O1 -w -DLINUX -D_GNU_SOURCE -DGITREVISION=\"demo\" -I. -o fwdemo "$HERE"/fwdemo.c \
	tun.c dns.c read.c encoding.c login.c base32.c base64.c base64u.c base128.c md5.c common.c user.c fw_query.c \
	-lz -Wl,--wrap=sendto,--wrap=recvmsg,--wrap=recvfrom || { echo "build failed"; exit 2; }
./fwdemo
rc=$?
if [ $rc -eq 0 ]; then echo PASS; else echo FAIL; fi
exit $rc
