/* The unchanged iodine client (client.c included as is) doing its handshake
 * with a well-behaved server while unrelated datagrams arrive on its DNS
 * socket.  One thing goes wrong on the path: the client's very first query
 * (the version query) is lost, so the client has to re-send it after its
 * 1 second timeout - which is what it does when left alone.
 *
 *   argv[1] = interval in milliseconds between unrelated datagrams (0 = none)
 *   argv[2] = "dns":   correct DNS response for www.example.org/A with an id
 *                      that is not the id of the client's query
 *             "bytes": 40 arbitrary bytes
 *
 * select/recvfrom/sendto/time/gettimeofday/sleep/system are replaced
 * (-Wl,--wrap): no network, no tun device, simulated clock (microseconds).
 * The unrelated datagrams stop after 600 simulated seconds so that the run
 * ends.  Exit status 0 if the handshake was completed within those 600
 * seconds, 1 if not. */
#define _GNU_SOURCE
#include CLIENT_C
#include <errno.h>

#define DNSFD 100

static long long clk = 1000000LL * 1000000;	/* microseconds */
static long long start, next_junk, junk_every;
static int junk_bytes;
static char rq[16][4096];
static int rqlen[16], rq_head, rq_n;
static unsigned long queries, junk_sent;
static long long second_query_at = -1;
static unsigned short last_id;
static int gave_up;

static void push(const char *d, int len)
{
	int i = (rq_head + rq_n) % 16;
	if (rq_n >= 16) return;
	memcpy(rq[i], d, len);
	rqlen[i] = len;
	rq_n++;
}

time_t __wrap_time(time_t *t) { time_t n = clk / 1000000; if (t) *t = n; return n; }
int __wrap_gettimeofday(struct timeval *tv, void *tz)
{
	(void) tz;
	tv->tv_sec = clk / 1000000;
	tv->tv_usec = clk % 1000000;
	return 0;
}
unsigned __wrap_sleep(unsigned s) { clk += 1000000LL * s; return 0; }
int __wrap_system(const char *c) { (void) c; return 0; }

static void make_junk(void)
{
	char pkt[128];
	char *p = pkt;

	memset(pkt, 0, sizeof(pkt));
	if (junk_bytes) {
		int i;
		for (i = 0; i < 40; i++)
			pkt[i] = (char) (i * 37 + 11);
		push(pkt, 40);
	} else {
		HEADER *h = (HEADER *) pkt;
		h->id = htons((unsigned short) (last_id + 1));
		h->qr = 1; h->rd = 1; h->ra = 1;
		h->qdcount = htons(1);
		h->ancount = htons(1);
		p += sizeof(HEADER);
		memcpy(p, "\003www\007example\003org\000", 17); p += 17;
		putshort(&p, T_A); putshort(&p, C_IN);
		putshort(&p, 0xc00c); putshort(&p, T_A); putshort(&p, C_IN);
		putlong(&p, 300); putshort(&p, 4);
		*p++ = 93; *p++ = (char) 184; *p++ = (char) 216; *p++ = 34;
		push(pkt, p - pkt);
	}
	junk_sent++;
}

int __wrap_select(int n, fd_set *r, fd_set *w, fd_set *e, struct timeval *tv)
{
	long long to = tv->tv_sec * 1000000LL + tv->tv_usec;
	(void) n; (void) w; (void) e;

	if (junk_every && clk - start > 600 * 1000000LL) {
		/* end of the experiment */
		junk_every = 0;
		gave_up = 1;
		client_stop();
	}
	if (rq_n == 0 && junk_every && next_junk <= clk + to) {
		if (next_junk > clk)
			clk = next_junk;
		make_junk();
		next_junk += junk_every;
	}
	if (rq_n > 0) {
		FD_ZERO(r);
		FD_SET(DNSFD, r);
		return 1;
	}
	FD_ZERO(r);
	clk += to;
	return 0;
}

ssize_t __wrap_recvfrom(int fd, void *buf, size_t len, int fl, struct sockaddr *sa, socklen_t *sl)
{
	int l;
	(void) fd; (void) fl;
	if (rq_n == 0) { errno = EAGAIN; return -1; }
	l = rqlen[rq_head];
	if ((size_t) l > len) l = len;
	memcpy(buf, rq[rq_head], l);
	rq_head = (rq_head + 1) % 16;
	rq_n--;
	if (sl) { memset(sa, 0, sizeof(struct sockaddr_in)); *sl = sizeof(struct sockaddr_in); }
	return l;
}

ssize_t __wrap_sendto(int fd, const void *buf, size_t len, int fl, const struct sockaddr *sa, socklen_t sl)
{
	struct query q;
	char pkt[4096], data[512];
	int dl = 0, l;
	(void) fd; (void) fl; (void) sa; (void) sl;

	memset(&q, 0, sizeof(q));
	if (dns_decode(NULL, 0, &q, QR_QUERY, (char *) buf, len) <= 0)
		return len;
	last_id = q.id;
	queries++;
	if (queries == 1)
		return len;		/* the first query is lost on the way */
	if (queries == 2)
		second_query_at = clk - start;

	switch (tolower(q.name[0])) {
	case 'v': memcpy(data, "VACK\x12\x34\x56\x78\x03", 9); dl = 9; break;
	case 'l': dl = sprintf(data, "10.0.0.1-10.0.0.2-1200-27"); break;
	case 'y': memcpy(data, DOWNCODECCHECK1, DOWNCODECCHECK1_LEN); dl = DOWNCODECCHECK1_LEN; break;
	case 'z': dl = strlen(q.name); memcpy(data, q.name, dl); break;
	case 's': dl = sprintf(data, "%s", "Base128"); break;
	case 'o': dl = sprintf(data, "%s", q.name[2] == 'l' ? "Lazy" : "Immediate"); break;
	case 'n': data[0] = 0; data[1] = (char) 200; dl = 2; break;
	default: return len;
	}
	l = dns_encode(pkt, sizeof(pkt), &q, QR_ANSWER, data, dl);
	if (l > 0)
		push(pkt, l);
	return len;
}

int main(int argc, char **argv)
{
	static char pw[33] = "secret";
	struct sockaddr_storage ss;
	struct sockaddr_in *sin = (struct sockaddr_in *) &ss;
	int r;

	junk_every = (argc > 1 ? atoi(argv[1]) : 0) * 1000LL;
	junk_bytes = (argc > 2 && !strcmp(argv[2], "bytes"));

	client_init();
	client_set_topdomain("t.example.com");
	client_set_password(pw);
	client_set_selecttimeout(4);
	client_set_lazymode(1);
	client_set_qtype("NULL");		/* -T NULL */
	memset(&ss, 0, sizeof(ss));
	sin->sin_family = AF_INET;
	client_set_nameserver(&ss, sizeof(*sin));

	start = clk;
	next_junk = clk + junk_every;
	r = client_handshake(DNSFD, 0 /* -r */, 0, 200 /* -m 200 */);

	printf("unrelated datagrams: %lu; client sent %lu queries", junk_sent, queries);
	if (second_query_at >= 0)
		printf(", re-sent the lost one after %.1f s", second_query_at / 1e6);
	else
		printf(", never re-sent the lost one");
	if (r == 0 && !gave_up) {
		printf("; handshake complete after %.1f s\n", (clk - start) / 1e6);
		return 0;
	}
	printf("; handshake NOT complete after %.0f s\n", (clk - start) / 1e6);
	return 1;
}
