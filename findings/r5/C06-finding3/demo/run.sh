#!/bin/sh
# usage: run.sh <source tree root>
# exit 1: datagrams that match none of the client's queries keep it from ever
#         re-sending a lost handshake query: the handshake hangs
# exit 0: the client re-sends in time and completes the handshake
ROOT=$(cd "${1:-.}" && pwd) || exit 2
HERE=$(cd "$(dirname "$0")" && pwd)
T=$(mktemp -d) || exit 2
trap 'rm -rf "$T"' EXIT
S="$ROOT/src"
sed -e 's/\([Bb][Aa][Ss][Ee]64\)/\1u/g ; s/0123456789+/0123456789_/' < "$S/base64.c" > "$T/base64u.c"
WRAP="-Wl,--wrap=select,--wrap=recvfrom,--wrap=sendto,--wrap=time,--wrap=gettimeofday,--wrap=sleep,--wrap=system"
${CC:-gcc} -g -O0 -w -DLINUX -D_GNU_SOURCE \
	-DCLIENT_C="\"$S/client.c\"" -I"$S" \
	"$HERE/hs_harness.c" "$S/dns.c" "$S/read.c" "$S/encoding.c" "$S/login.c" \
	"$S/base32.c" "$S/base64.c" "$T/base64u.c" "$S/base128.c" "$S/md5.c" \
	"$S/common.c" "$S/tun.c" "$S/util.c" -o "$T/hs_harness" $WRAP -lz || { echo "build failed"; exit 2; }

run() {
	"$T/hs_harness" "$@" > "$T/out" 2> "$T/err"
	rc=$?
	echo "[$*] $(cat "$T/out")"
	return $rc
}

echo "control, first query lost, no unrelated datagrams:"
run 0 dns || { echo "control run failed, demo not valid"; exit 2; }
bad=0
echo "first query lost, unrelated DNS response (www.example.org A, foreign id) every 900 ms:"
run 900 dns || bad=1
echo "first query lost, 40 arbitrary bytes every 500 ms:"
run 500 bytes || bad=1
if [ $bad = 1 ]; then
	echo "FAIL: replies that match none of the client's queries are not ignored: each restarts the handshake timeout, the lost query is never re-sent"
	exit 1
fi
echo "PASS"
exit 0
