/* A DNS relay that applies one fixed transformation to everything that passes.
 *
 * relay LISTENIP LISTENPORT SERVERIP SERVERPORT [key=value ...]
 *   qcase=keep|lower|upper|random   letter case of names in queries
 *   q8=clean|strip|reject           bytes >= 0x80 in names in queries
 *   qpunct=keep|plus|under          '+' or '_' in names in queries rewritten to '-'
 *   acase= a8= apunct=              same for names and text in answers
 *   types=all|N,N,...               allowed query types (others: REFUSED, or dropped with refuse=drop)
 *   limit=N                         answers above N bytes are dropped (0: none)
 *   edns=1|0                        0: OPT record removed from queries, answers above 512 dropped
 *   seed=N                          for case=random
 *   log=1
 */
#include <stdio.h>
#include <stdlib.h>
#include <string.h>
#include <unistd.h>
#include <stdint.h>
#include <arpa/inet.h>
#include <sys/socket.h>
#include <sys/select.h>
#include <netinet/in.h>

enum { KEEP, LOWER, UPPER, RANDOM };
enum { CLEAN, STRIP, REJECT };
enum { PKEEP, PLUS, UNDER };

struct xf { int cs, b8, punct; };
static struct xf qx, ax;
static int allowed[64], nallowed = -1;
static int limit, edns = 1, refuse_drop, logging;
static unsigned rnd = 12345;

static unsigned nextrnd(void) { rnd = rnd * 1103515245u + 12345u; return (rnd >> 16) & 0x7fff; }

/* returns 1 if a byte >= 0x80 was seen */
static int xbytes(unsigned char *p, int n, struct xf *x)
{
	int i, high = 0;
	for (i = 0; i < n; i++) {
		unsigned char c = p[i];
		if (c >= 0x80) {
			high = 1;
			if (x->b8 == STRIP) c &= 0x7f;
		}
		if (x->punct == PLUS && c == '+') c = '-';
		if (x->punct == UNDER && c == '_') c = '-';
		if (c >= 'a' && c <= 'z') {
			if (x->cs == UPPER || (x->cs == RANDOM && (nextrnd() & 1))) c -= 32;
		} else if (c >= 'A' && c <= 'Z') {
			if (x->cs == LOWER || (x->cs == RANDOM && (nextrnd() & 1))) c += 32;
		}
		p[i] = c;
	}
	return high;
}

/* transforms an uncompressed name at p in place, returns its length on the
   wire or -1; *high is set when it has 8-bit bytes */
static int xname(unsigned char *p, unsigned char *end, struct xf *x, int *high)
{
	unsigned char *s = p;
	while (p < end) {
		int l = *p;
		if (l == 0) return p + 1 - s;
		if ((l & 0xc0) == 0xc0) return p + 2 - s;
		if (l > 63 || p + 1 + l > end) return -1;
		if (xbytes(p + 1, l, x)) *high = 1;
		p += 1 + l;
	}
	return -1;
}

static int rd16(unsigned char *p) { return (p[0] << 8) | p[1]; }

struct pend { struct sockaddr_in from; int used; };
static struct pend pend[65536];

int main(int argc, char **argv)
{
	struct sockaddr_in la, sa;
	int lfd, sfd, i;

	if (argc < 5) return 2;
	for (i = 5; i < argc; i++) {
		char *k = argv[i], *v = strchr(k, '=');
		struct xf *x;
		if (!v) return 2;
		*v++ = 0;
		x = (k[0] == 'q') ? &qx : &ax;
		if (!strcmp(k + 1, "case"))
			x->cs = !strcmp(v, "lower") ? LOWER : !strcmp(v, "upper") ? UPPER : !strcmp(v, "random") ? RANDOM : KEEP;
		else if (!strcmp(k + 1, "8"))
			x->b8 = !strcmp(v, "strip") ? STRIP : !strcmp(v, "reject") ? REJECT : CLEAN;
		else if (!strcmp(k + 1, "punct"))
			x->punct = !strcmp(v, "plus") ? PLUS : !strcmp(v, "under") ? UNDER : PKEEP;
		else if (!strcmp(k, "types")) {
			if (strcmp(v, "all")) {
				char *t;
				nallowed = 0;
				for (t = strtok(v, ","); t; t = strtok(NULL, ","))
					allowed[nallowed++] = atoi(t);
			}
		} else if (!strcmp(k, "limit")) limit = atoi(v);
		else if (!strcmp(k, "edns")) edns = atoi(v);
		else if (!strcmp(k, "refuse")) refuse_drop = !strcmp(v, "drop");
		else if (!strcmp(k, "seed")) rnd = atoi(v);
		else if (!strcmp(k, "log")) logging = atoi(v);
		else return 2;
	}

	memset(&la, 0, sizeof(la));
	la.sin_family = AF_INET; la.sin_addr.s_addr = inet_addr(argv[1]); la.sin_port = htons(atoi(argv[2]));
	memset(&sa, 0, sizeof(sa));
	sa.sin_family = AF_INET; sa.sin_addr.s_addr = inet_addr(argv[3]); sa.sin_port = htons(atoi(argv[4]));
	lfd = socket(AF_INET, SOCK_DGRAM, 0);
	sfd = socket(AF_INET, SOCK_DGRAM, 0);
	i = 1; setsockopt(lfd, SOL_SOCKET, SO_REUSEADDR, &i, sizeof(i));
	if (bind(lfd, (struct sockaddr *) &la, sizeof(la)) < 0) { perror("relay bind"); return 1; }
	fprintf(stderr, "relay ready\n");

	for (;;) {
		unsigned char b[65536];
		fd_set fds;
		int n;
		FD_ZERO(&fds); FD_SET(lfd, &fds); FD_SET(sfd, &fds);
		if (select((lfd > sfd ? lfd : sfd) + 1, &fds, NULL, NULL, NULL) < 0) continue;

		if (FD_ISSET(lfd, &fds)) {
			struct sockaddr_in from; socklen_t fl = sizeof(from);
			int id, nl, qtype, high = 0, ok = 1;
			n = recvfrom(lfd, b, sizeof(b), 0, (struct sockaddr *) &from, &fl);
			if (n < 12 + 5 || (b[2] & 0x80) || rd16(b + 4) != 1) goto answers;
			id = rd16(b);
			nl = xname(b + 12, b + n, &qx, &high);
			if (nl < 0 || 12 + nl + 4 > n) goto answers;
			qtype = rd16(b + 12 + nl);
			if (nallowed >= 0) {
				ok = 0;
				for (i = 0; i < nallowed; i++) if (allowed[i] == qtype) ok = 1;
			}
			if (high && qx.b8 == REJECT) ok = 0;
			if (!ok) {
				if (logging) fprintf(stderr, "relay: refuse type %d\n", qtype);
				if (!refuse_drop) {
					b[2] |= 0x80; b[3] = (b[3] & 0xf0) | 5;	/* REFUSED */
					b[6] = b[7] = b[8] = b[9] = b[10] = b[11] = 0;
					sendto(lfd, b, 12 + nl + 4, 0, (struct sockaddr *) &from, fl);
				}
				goto answers;
			}
			if (!edns && rd16(b + 10) > 0) {	/* drop the additional section */
				b[10] = b[11] = 0;
				n = 12 + nl + 4;
			}
			pend[id].from = from; pend[id].used = 1;
			sendto(sfd, b, n, 0, (struct sockaddr *) &sa, sizeof(sa));
		}
answers:
		if (FD_ISSET(sfd, &fds)) {
			int id, nl, an, high = 0, lim;
			unsigned char *p, *end;
			n = recv(sfd, b, sizeof(b), 0);
			if (n < 12) continue;
			id = rd16(b);
			if (!pend[id].used) continue;
			end = b + n;
			p = b + 12;
			if (rd16(b + 4) == 1) {
				nl = xname(p, end, &ax, &high);
				if (nl < 0) continue;
				p += nl + 4;
			}
			for (an = rd16(b + 6); an > 0 && p < end; an--) {
				int dummy = 0, type, rdlen;
				unsigned char *rd;
				nl = xname(p, end, &ax, &dummy);	/* normally a pointer */
				if (nl < 0 || p + nl + 10 > end) break;
				p += nl;
				type = rd16(p); rdlen = rd16(p + 8);
				rd = p + 10;
				if (rd + rdlen > end) break;
				if (type == 5 || type == 2 || type == 12)
					xname(rd, rd + rdlen, &ax, &high);
				else if (type == 15 && rdlen > 2)
					xname(rd + 2, rd + rdlen, &ax, &high);
				else if (type == 33 && rdlen > 6)
					xname(rd + 6, rd + rdlen, &ax, &high);
				else if (type == 16) {
					unsigned char *t = rd;
					while (t < rd + rdlen) {
						int l = *t;
						if (t + 1 + l > rd + rdlen) break;
						if (xbytes(t + 1, l, &ax)) high = 1;
						t += 1 + l;
					}
				}
				p = rd + rdlen;
			}
			if (high && ax.b8 == REJECT) {
				if (logging) fprintf(stderr, "relay: answer with 8-bit name/text dropped\n");
				continue;
			}
			lim = limit;
			if (!edns && (lim == 0 || lim > 512)) lim = 512;
			if (lim && n > lim) {
				if (logging) fprintf(stderr, "relay: answer of %d bytes dropped\n", n);
				continue;
			}
			sendto(lfd, b, n, 0, (struct sockaddr *) &pend[id].from, sizeof(struct sockaddr_in));
		}
	}
}
