/* Test shims linked into iodine and iodined instead of src/tun.c.
 *
 * - the "tun device" is a UNIX datagram socket: packets the program writes go
 *   to "$FAKETUN.out", packets for the program are sent to "$FAKETUN"
 * - no root needed: check_superuser() is a no-op (iodine.c and iodined.c are
 *   compiled with -Dcheck_superuser=verif_check_superuser)
 * - the client talks to the name server on port $VERIF_DNS_PORT instead of 53
 *   (iodine.c is compiled with -Dget_addr=verif_get_addr)
 * Nothing in src/ is changed.
 */
#include <stdio.h>
#include <stdlib.h>
#include <string.h>
#include <unistd.h>
#include <sys/socket.h>
#include <sys/un.h>
#include "common.h"
#include "tun.h"

static struct sockaddr_un peer;

int open_tun(const char *dev)
{
	struct sockaddr_un me;
	const char *path = getenv("FAKETUN");
	int fd;
	(void) dev;
	if (!path) { fprintf(stderr, "FAKETUN not set\n"); return -1; }
	fd = socket(AF_UNIX, SOCK_DGRAM, 0);
	memset(&me, 0, sizeof(me));
	me.sun_family = AF_UNIX;
	snprintf(me.sun_path, sizeof(me.sun_path), "%s", path);
	unlink(me.sun_path);
	if (bind(fd, (struct sockaddr *) &me, sizeof(me)) < 0) { perror("faketun bind"); return -1; }
	memset(&peer, 0, sizeof(peer));
	peer.sun_family = AF_UNIX;
	snprintf(peer.sun_path, sizeof(peer.sun_path), "%s.out", path);
	return fd;
}
void close_tun(int fd) { if (fd >= 0) close(fd); }
int write_tun(int fd, char *data, size_t len)
{
	sendto(fd, data, len, 0, (struct sockaddr *) &peer, sizeof(peer));
	return 0;
}
ssize_t read_tun(int fd, char *buf, size_t len) { return recv(fd, buf, len, 0); }
int tun_setip(const char *ip, const char *other, int bits) { (void) ip; (void) other; (void) bits; return 0; }
int tun_setmtu(const unsigned mtu) { (void) mtu; return 0; }

void verif_check_superuser(void);
void verif_check_superuser(void) { }

int verif_get_addr(char *host, int port, int family, int flags, struct sockaddr_storage *out);
int verif_get_addr(char *host, int port, int family, int flags, struct sockaddr_storage *out)
{
	if (port == 53 && getenv("VERIF_DNS_PORT"))
		port = atoi(getenv("VERIF_DNS_PORT"));
	return get_addr(host, port, family, flags, out);
}
