#!/bin/bash
# run.sh SRCROOT
# Real iodine client and real iodined server (unchanged sources, tun replaced by
# a socket) talk through a relay that applies one fixed transformation to every
# answer. The client is started with a forced downstream codec (-O) that this
# relay does not carry, although it carries Base32 perfectly well.
# Exit 1 (FAIL): the handshake "completes" but packets offered afterwards are
#                not delivered.  Exit 0: every packet is delivered intact.
SRC=$(cd "${1:-.}" && pwd)
HERE=$(cd "$(dirname "$0")" && pwd)
T=$(mktemp -d /tmp/c11f1.XXXXXX)
PIDS=""
cleanup() { kill $PIDS 2>/dev/null; wait 2>/dev/null; rm -rf "$T"; }
trap cleanup EXIT

"$HERE/build.sh" "$SRC" "$T/bin" >"$T/build.log" 2>&1 || { cat "$T/build.log"; echo "build failed"; exit 2; }
BIN=$T/bin
BASE=$((20000 + ($$ % 20000)))

# scenario NAME RELAYPORT SERVERPORT "relay options" "client options"
scenario() {
	local n=$1 rp=$2 sp=$3 ropt=$4 copt=$5 w=$T/$1 i
	mkdir -p "$w"
	FAKETUN=$w/srv.tun "$BIN/iodined" -f -c -P pw -l 127.0.0.1 -p $sp 10.55.0.1/24 t.example.com >"$w/srv.log" 2>&1 &
	local s=$!
	"$BIN/relay" 127.0.0.1 $rp 127.0.0.1 $sp $ropt >"$w/relay.log" 2>&1 &
	local r=$!
	sleep 0.3
	FAKETUN=$w/cli.tun VERIF_DNS_PORT=$rp "$BIN/iodine" -f -r -P pw $copt 127.0.0.1 t.example.com >"$w/cli.log" 2>&1 &
	local c=$!
	echo "$s $r $c" >"$w/pids"
	local res=hstimeout
	for ((i = 0; i < 200; i++)); do
		if grep -q "Connection setup complete" "$w/cli.log" 2>/dev/null; then res=up; break; fi
		if ! kill -0 $c 2>/dev/null; then res=hsfail; break; fi
		sleep 0.2
	done
	if [ $res = up ]; then
		TUNIO_WAIT=3 "$BIN/tunio" "$w/cli.tun" "$w/srv.tun" 4 7 900 300 >"$w/tunio.log" 2>&1 && res=ok || res=datafail
	fi
	kill $s $r $c 2>/dev/null
	echo $res >"$w/result"
}

# A: the relay folds letters in answers to lower case (so Base64 answers are
#    damaged, Base32 answers are not); the client is told to use Base64.
scenario A $BASE $((BASE + 1)) "acase=lower" "-T TXT -O base64 -m 150" &
PIDS="$PIDS $!"
# B: the relay drops answers that have bytes >= 0x80 in names; the client is
#    told to use Base128 for CNAME answers.
scenario B $((BASE + 2)) $((BASE + 3)) "a8=reject" "-T CNAME -O base128 -L0 -m 100" &
PIDS="$PIDS $!"
wait

rc=0
for n in A B; do
	res=$(cat "$T/$n/result" 2>/dev/null)
	echo "== scenario $n: $res"
	grep -h "downstream\|codec switch\|Connection setup\|fragment size" "$T/$n/cli.log" | sed 's/^/   client: /'
	[ -f "$T/$n/tunio.log" ] && sed 's/^/   /' "$T/$n/tunio.log"
	[ "$res" = ok ] || rc=1
done
if [ $rc = 0 ]; then
	echo "PASS: the client fell back to Base32 together with the server, packets are delivered"
else
	echo "FAIL: handshake completed (or gave up) with a downstream codec the path does not carry"
fi
exit $rc
