/* tunio CLI_TUN SRV_TUN count seed [sizes...]
   Offers packets one at a time, alternately to the client's tun (must come
   out of the server's tun) and to the server's tun (must come out of the
   client's tun), and checks that each is delivered intact. */
#include <stdio.h>
#include <stdlib.h>
#include <string.h>
#include <unistd.h>
#include <sys/socket.h>
#include <sys/un.h>
#include <sys/select.h>
#include <sys/time.h>

static int bindun(const char *base, const char *suf)
{
	struct sockaddr_un a; int fd = socket(AF_UNIX, SOCK_DGRAM, 0);
	memset(&a, 0, sizeof(a)); a.sun_family = AF_UNIX;
	snprintf(a.sun_path, sizeof(a.sun_path), "%s%s", base, suf);
	unlink(a.sun_path);
	if (bind(fd, (struct sockaddr *) &a, sizeof(a)) < 0) { perror("bind"); exit(2); }
	return fd;
}
static void sendun(int fd, const char *path, unsigned char *p, int n)
{
	struct sockaddr_un a; memset(&a, 0, sizeof(a)); a.sun_family = AF_UNIX;
	snprintf(a.sun_path, sizeof(a.sun_path), "%s", path);
	if (sendto(fd, p, n, 0, (struct sockaddr *) &a, sizeof(a)) < 0) perror("sendto tun");
}
int main(int argc, char **argv)
{
	int cout, sout, count, i, fails = 0, nsizes;
	unsigned seed;
	int wait_s = getenv("TUNIO_WAIT") ? atoi(getenv("TUNIO_WAIT")) : 8;
	if (argc < 5) return 2;
	cout = bindun(argv[1], ".out");
	sout = bindun(argv[2], ".out");
	count = atoi(argv[3]); seed = atoi(argv[4]);
	nsizes = argc - 5;
	srand(seed);
	for (i = 0; i < count; i++) {
		unsigned char p[70000], r[70000];
		int up = !(i & 1);
		int mx = getenv("TUNIO_MAX") ? atoi(getenv("TUNIO_MAX")) : 1134;
		int size = nsizes ? atoi(argv[5 + (i / 2) % nsizes]) : ((i % 10) >= 8 ? mx : 24 + rand() % (mx - 23));
		int mode = rand() % 3, k, n, got = 0, outfd = up ? sout : cout;
		struct timeval end, now;
		if (size < 24) size = 24;
		memset(p, 0, 24);
		p[2] = 8;			/* tun header: proto IPv4 */
		p[4] = 0x45; p[6] = (size - 4) >> 8; p[7] = (size - 4) & 255; p[12] = 64; p[13] = 17;
		p[16] = 10; p[17] = 55; p[18] = 0; p[19] = up ? 2 : 1;	/* src */
		p[20] = 10; p[21] = 55; p[22] = 0; p[23] = up ? 1 : 2;	/* dst */
		for (k = 24; k < size; k++)
			p[k] = mode == 0 ? rand() : mode == 1 ? (rand() % 4 ? 'a' + rand() % 4 : rand()) : (k * 7 + i);
		sendun(outfd, up ? argv[1] : argv[2], p, size);
		gettimeofday(&end, NULL); end.tv_sec += wait_s;
		for (;;) {
			fd_set f; struct timeval tv;
			gettimeofday(&now, NULL);
			tv.tv_sec = end.tv_sec - now.tv_sec; tv.tv_usec = end.tv_usec - now.tv_usec;
			if (tv.tv_usec < 0) { tv.tv_usec += 1000000; tv.tv_sec--; }
			if (tv.tv_sec < 0) break;
			FD_ZERO(&f); FD_SET(outfd, &f);
			if (select(outfd + 1, &f, NULL, NULL, &tv) <= 0) break;
			n = recv(outfd, r, sizeof(r), 0);
			if (n == size && !memcmp(r, p, size)) { got = 1; break; }
			printf("  %s packet %d (%d bytes): something else came out (%d bytes)\n", up ? "up" : "down", i, size, n);
			got = -1;
		}
		if (got != 1) {
			fails++;
			printf("  %s packet %d (%d bytes, kind %d): %s\n", up ? "up" : "down", i, size, mode, got ? "DAMAGED" : "NOT DELIVERED");
		}
		fflush(stdout);
	}
	printf("tunio: %d of %d packets not delivered intact\n", fails, count);
	return fails ? 1 : 0;
}
