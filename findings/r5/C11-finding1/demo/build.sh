#!/bin/sh
# build.sh SRCROOT OUTDIR: builds OUTDIR/{iodine,iodined,relay,tunio} from the
# unchanged sources in SRCROOT/src plus the shims in this directory.
set -e
SRC=$1/src; OUT=$2; HERE=$(cd "$(dirname "$0")" && pwd)
mkdir -p "$OUT/obj"
sed -e 's/\([Bb][Aa][Ss][Ee]64\)/\1u/g ; s/0123456789+/0123456789_/' < "$SRC/base64.c" > "$OUT/obj/base64u.c"
CF="-std=c99 -g -O1 -w -DLINUX -D_GNU_SOURCE -I$SRC -DGITREVISION=\"demo\""
for f in dns read encoding login base32 base64 base128 md5 common client util user fw_query; do
	gcc $CF -c "$SRC/$f.c" -o "$OUT/obj/$f.o" &
done
gcc $CF -Dcheck_superuser=verif_check_superuser -Dget_addr=verif_get_addr -c "$SRC/iodine.c" -o "$OUT/obj/iodine.o" &
gcc $CF -Dcheck_superuser=verif_check_superuser -c "$SRC/iodined.c" -o "$OUT/obj/iodined.o" &
gcc $CF -c "$OUT/obj/base64u.c" -o "$OUT/obj/base64u.o" &
gcc $CF -c "$HERE/shim.c" -o "$OUT/obj/shim.o" &
gcc -O1 -w -o "$OUT/relay" "$HERE/relay.c" &
gcc -O1 -w -o "$OUT/tunio" "$HERE/tunio.c" &
wait
C="$OUT/obj/dns.o $OUT/obj/read.o $OUT/obj/encoding.o $OUT/obj/login.o $OUT/obj/base32.o $OUT/obj/base64.o $OUT/obj/base64u.o $OUT/obj/base128.o $OUT/obj/md5.o $OUT/obj/common.o $OUT/obj/shim.o"
gcc -o "$OUT/iodine" $C "$OUT/obj/client.o" "$OUT/obj/util.o" "$OUT/obj/iodine.o" -lz
gcc -o "$OUT/iodined" $C "$OUT/obj/iodined.o" "$OUT/obj/user.o" "$OUT/obj/fw_query.o" -lz
