/* Demo for C10 finding 1: with -b, replies of the local DNS server are handed
 * back to askers by DNS id alone.
 *
 * The real iodined code (tunnel_dns -> forward_query, tunnel_bind) runs here
 * over real loopback UDP sockets: two askers, the tunnel server socket, the
 * socket iodined uses towards the local DNS server, and a stand-in for that
 * local DNS server which answers every forwarded query properly (question
 * echoed, one A record).
 */
#define _GNU_SOURCE
#include "iodined.c"
#undef main
#include <poll.h>

static int udp_sock(struct sockaddr_in *bound)
{
	int fd = socket(AF_INET, SOCK_DGRAM, 0);
	struct sockaddr_in a;
	socklen_t l = sizeof(a);
	memset(&a, 0, sizeof(a));
	a.sin_family = AF_INET;
	a.sin_addr.s_addr = htonl(INADDR_LOOPBACK);
	if (fd < 0 || bind(fd, (struct sockaddr *) &a, sizeof(a)) < 0)
		err(2, "socket/bind");
	getsockname(fd, (struct sockaddr *) &a, &l);
	if (bound)
		*bound = a;
	return fd;
}

static int mkquery(unsigned char *p, unsigned short id, const char *name, unsigned short type)
{
	char *w = (char *) p + 12;
	memset(p, 0, 12);
	p[0] = id >> 8; p[1] = id & 0xff;
	p[2] = 1;	/* RD */
	p[5] = 1;	/* QDCOUNT */
	putname(&w, 256, name);
	putshort(&w, type);
	putshort(&w, C_IN);
	return w - (char *) p;
}

/* question name of a DNS message as dotted string */
static void qname(unsigned char *p, int len, char *out)
{
	char *d = (char *) p + 12;
	out[0] = 0;
	readname((char *) p, len, &d, out, 255);
}

static int ready(int fd)
{
	struct pollfd pf = { fd, POLLIN, 0 };
	return poll(&pf, 1, 50) > 0;
}

/* the stand-in local DNS server: answer every waiting query correctly */
static int named_serve(int nfd)
{
	int n = 0;
	while (ready(nfd)) {
		unsigned char p[1500];
		struct sockaddr_in from;
		socklen_t fl = sizeof(from);
		int r = recvfrom(nfd, p, sizeof(p), 0, (struct sockaddr *) &from, &fl);
		int qend;
		char *w;
		if (r < 17)
			continue;
		/* keep header id + question, drop the OPT record, add one A */
		qend = 12;
		while (p[qend]) qend += p[qend] + 1;
		qend += 1 + 4;
		p[2] = 0x81; p[3] = 0x80;	/* QR RD RA */
		p[7] = 1;			/* ANCOUNT */
		p[11] = 0;			/* ARCOUNT */
		w = (char *) p + qend;
		putshort(&w, 0xc00c); putshort(&w, T_A); putshort(&w, C_IN);
		putlong(&w, 60); putshort(&w, 4);
		putbyte(&w, 192); putbyte(&w, 0); putbyte(&w, 2); putbyte(&w, 1 + n);
		sendto(nfd, p, w - (char *) p, 0, (struct sockaddr *) &from, fl);
		n++;
	}
	return n;
}

static int failures;

/* Read everything that arrived for an asker and compare with what it asked */
static void check_asker(const char *who, int fd, unsigned short id, const char *asked, int expect)
{
	int got = 0;
	while (ready(fd)) {
		unsigned char p[1500];
		char nm[256];
		int r = recv(fd, p, sizeof(p), 0);
		unsigned short rid;
		if (r < 12)
			continue;
		rid = (p[0] << 8) | p[1];
		qname(p, r, nm);
		got++;
		if (rid != id || strcmp(nm, asked)) {
			printf("  FAIL %s asked id %u \"%s\" and was sent an answer with id %u for \"%s\"\n",
			       who, id, asked, rid, nm);
			failures++;
		} else {
			printf("  ok   %s got the answer for id %u \"%s\"\n", who, rid, nm);
		}
	}
	if (got < expect) {
		printf("  FAIL %s asked id %u \"%s\" and got no answer at all\n", who, id, asked);
		failures++;
	}
}

int main(void)
{
	struct sockaddr_in srv, named, a1, a2;
	struct dnsfd fds;
	int sfd, nfd, bfd, fd1, fd2, len, i;
	unsigned char pkt[600];

	sfd = udp_sock(&srv);		/* iodined's DNS socket */
	nfd = udp_sock(&named);		/* the local DNS server (-b port) */
	bfd = udp_sock(NULL);		/* iodined's socket towards it */
	fd1 = udp_sock(&a1);		/* asker 1 */
	fd2 = udp_sock(&a2);		/* asker 2 */
	prepare_dns_fd(sfd);
	fds.v4fd = sfd;
	fds.v6fd = -1;

	topdomain = "t.example.com";
	bind_port = ntohs(named.sin_port);
	fw_query_init();
	created_users = init_users(inet_addr("10.0.0.1"), 27);

	printf("History 1: two askers have a query under way at the same time, both chose id 4660\n");
	len = mkquery(pkt, 4660, "one.example.org", T_A);
	sendto(fd1, pkt, len, 0, (struct sockaddr *) &srv, sizeof(srv));
	tunnel_dns(-1, sfd, &fds, bfd);
	len = mkquery(pkt, 4660, "two.example.net", T_A);
	sendto(fd2, pkt, len, 0, (struct sockaddr *) &srv, sizeof(srv));
	tunnel_dns(-1, sfd, &fds, bfd);
	i = named_serve(nfd);
	while (i-- > 0 && ready(bfd))
		tunnel_bind(bfd, &fds);
	check_asker("asker 1", fd1, 4660, "one.example.org", 1);
	check_asker("asker 2", fd2, 4660, "two.example.net", 1);

	printf("History 2: asker 1 was answered long ago; now asker 2 happens to use the same id 7\n");
	len = mkquery(pkt, 7, "old.example.org", T_A);
	sendto(fd1, pkt, len, 0, (struct sockaddr *) &srv, sizeof(srv));
	tunnel_dns(-1, sfd, &fds, bfd);
	i = named_serve(nfd);
	while (i-- > 0 && ready(bfd))
		tunnel_bind(bfd, &fds);
	check_asker("asker 1", fd1, 7, "old.example.org", 1);
	/* ten other forwarded queries in between, all answered */
	for (i = 0; i < 10; i++) {
		len = mkquery(pkt, 100 + i, "filler.example.org", T_A);
		sendto(fd1, pkt, len, 0, (struct sockaddr *) &srv, sizeof(srv));
		tunnel_dns(-1, sfd, &fds, bfd);
		named_serve(nfd);
		if (ready(bfd))
			tunnel_bind(bfd, &fds);
		while (ready(fd1))
			recv(fd1, pkt, sizeof(pkt), 0);
	}
	len = mkquery(pkt, 7, "new.example.net", T_MX);
	sendto(fd2, pkt, len, 0, (struct sockaddr *) &srv, sizeof(srv));
	tunnel_dns(-1, sfd, &fds, bfd);
	i = named_serve(nfd);
	while (i-- > 0 && ready(bfd))
		tunnel_bind(bfd, &fds);
	check_asker("asker 1", fd1, 7, "old.example.org", 0);
	check_asker("asker 2", fd2, 7, "new.example.net", 1);

	printf("%s\n", failures ? "RESULT: FAIL" : "RESULT: PASS");
	return failures ? 1 : 0;
}
