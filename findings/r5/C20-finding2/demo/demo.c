/* C20 finding 2: a forwarded query does not keep its name when a label holds '.' or NUL */
#include "harness.h"

static void
show(const char *tag, const unsigned char *p, int n)
{
	int i;

	printf("    %s", tag);
	for (i = 0; i < n; i++) {
		if (p[i] > 32 && p[i] < 127 && p[i] != '\\')
			printf("%c", p[i]);
		else
			printf("\\%03o", p[i]);
	}
	printf("\n");
}

struct c {
	const char *what;
	const char *wire;
	int wlen;
	unsigned type;
};

#define W(s) s, sizeof(s)	/* the string literal's own \0 ends the name */

int
main(void)
{
	static const struct c cases[] = {
		{ "ordinary name plain.other.org (control)", W("\005plain\005other\003org"), 1 },
		{ "label \"a.b\" (3 octets, one of them a dot) under other.org", W("\003a.b\005other\003org"), 1 },
		{ "label \"ab\\0cd\" (5 octets, one of them NUL) under other.org", W("\005ab\000cd\005other\003org"), 16 },
		{ "label \"\\0\" (1 octet, NUL) under other.org", W("\001\000\005other\003org"), 1 },
		{ "the single 11-octet label \"x.t.example\", a name directly under the root, not in t.example", W("\013x.t.example"), 1 },
	};
	int i, bad = 0;

	setvbuf(stdout, NULL, _IONBF, 0);
	start_server();

	printf("iodined -b, tunnel domain t.example; every name below is outside it\n");
	for (i = 0; i < (int) (sizeof(cases) / sizeof(cases[0])); i++) {
		unsigned char p[512], got[1500];
		unsigned id = 0x5100 + i;
		int l = mkquery(p, id, (const unsigned char *) cases[i].wire, cases[i].wlen, cases[i].type);
		int r, ok;

		r = asker_query(0, p, l, got, sizeof(got));
		ok = r >= l && ((got[0] << 8) | got[1]) == (int) id &&
		    !memcmp(got + 12, p + 12, cases[i].wlen + 2);	/* name and type */
		printf("%s %s\n", ok ? "  ok       " : "  VIOLATION", cases[i].what);
		if (!ok) {
			bad++;
			show("asked   (name, type, class): ", p + 12, l - 12);
			if (r < 0)
				printf("    nothing was relayed to the local DNS port\n");
			else
				show("relayed (from octet 12 on):  ", got + 12, r - 12);
		}
	}
	if (bad) {
		printf("FAIL: %d queries were not relayed with the same name\n", bad);
		return 1;
	}
	printf("PASS\n");
	return 0;
}
