/* The unmodified iodine client (client.c: client_handshake) talks to the
 * unmodified server (iodined.c: tunnel_dns) inside one process, over real UDP
 * sockets on loopback. Time is virtual: the client's select() timeouts and
 * sleep() advance the clock, nothing really waits.
 *
 * Between them sits what many hotel/campus resolvers look like to iodine
 * (filter() below):
 *   - direct UDP to the server is blocked (the raw login gets no answer)
 *   - queries with an EDNS0 OPT record are dropped
 *   - names with bytes >= 0x80, '+' or '_' are dropped (no Base128/64/64u)
 *   - answers over 512 bytes are dropped
 *   - 200 ms per round trip
 * Everything else passes, so every request the client makes either is answered
 * by the server or times out in the client; the client never idles.
 *
 * 61 seconds after the client's login a stranger at 127.0.0.2 sends a version
 * request. The server has one slot (tunnel subnet /30).
 *
 * exit 1: the stranger got the client's slot or the server refused the client
 *         although the client had been answered less than 60 seconds before.
 */
#define main iodined_main
#include "iodined.c"
#undef main

#include <poll.h>
#include "client.h"

static long long vtime_us = 1700000000LL * 1000000LL;
static int srv_fd = -1, cli_fd = -1, mal_fd = -1;
static struct dnsfd g_fds;
static int faketun[2];
static long long t_login;		/* when the client sent its login */
static long long t_last_answer;		/* when the server last answered the client with something else than BADIP */
static int stranger_done, stranger_uid = -100;
static int refused_while_active;
static int rtt_ms = 200;
static int maxreply = 512;

time_t __wrap_time(time_t *t);
unsigned int __wrap_sleep(unsigned int s);
int __real_select(int n, fd_set *r, fd_set *w, fd_set *e, struct timeval *tv);
int __wrap_select(int n, fd_set *r, fd_set *w, fd_set *e, struct timeval *tv);
ssize_t __real_sendto(int fd, const void *buf, size_t len, int flags, const struct sockaddr *a, socklen_t al);
ssize_t __wrap_sendto(int fd, const void *buf, size_t len, int flags, const struct sockaddr *a, socklen_t al);

time_t __wrap_time(time_t *t)
{
	time_t v = (time_t) (vtime_us / 1000000LL);
	if (t) *t = v;
	return v;
}

unsigned int __wrap_sleep(unsigned int s)
{
	vtime_us += (long long) s * 1000000LL;
	return 0;
}

/* tun.c is not linked */
int open_tun(const char *d) { (void) d; return faketun[0]; }
void close_tun(int fd) { (void) fd; }
int write_tun(int fd, char *data, size_t len) { (void) fd; (void) data; (void) len; return 0; }
ssize_t read_tun(int fd, char *buf, size_t len) { return read(fd, buf, len); }
int tun_setip(const char *a, const char *b, int c) { (void) a; (void) b; (void) c; return 0; }
int tun_setmtu(const unsigned m) { (void) m; return 0; }

static int name_has_bad_char(const unsigned char *p, size_t len)
{
	size_t i = 12;
	while (i < len && p[i]) {
		size_t l = p[i], k;
		if (l > 63) return 0;
		for (k = 1; k <= l && i + k < len; k++)
			if (p[i + k] >= 0x80 || p[i + k] == '+' || p[i + k] == '_')
				return 1;
		i += l + 1;
	}
	return 0;
}

static int filter(int fd, const unsigned char *p, size_t len)
/* 1 = the path loses this datagram */
{
	if (fd == cli_fd) {
		if (len >= 3 && !memcmp(p, raw_header, 3))
			return 1;		/* no direct UDP */
		if (len < 14)
			return 0;
		if (t_login == 0 && (p[13] == 'l' || p[13] == 'L'))
			t_login = vtime_us;
		if (p[10] || p[11])
			return 1;		/* EDNS0 */
		if (name_has_bad_char(p, len))
			return 1;
	} else if (fd == srv_fd) {
		if ((int) len > maxreply)
			return 1;
	}
	return 0;
}

ssize_t __wrap_sendto(int fd, const void *buf, size_t len, int flags, const struct sockaddr *a, socklen_t al)
{
	if (fd == srv_fd && a->sa_family == AF_INET &&
	    ((const struct sockaddr_in *) a)->sin_addr.s_addr == inet_addr("127.0.0.1")) {
		/* an answer to the client: BADIP is "hbadip" in a CNAME, base32 */
		char plain[4096];
		struct query q;
		int r;
		memset(&q, 0, sizeof(q));
		r = dns_decode(plain, sizeof(plain), &q, QR_ANSWER, (char *) buf, len);
		if (r > 0 && q.type == T_CNAME) {
			char dec[4096];
			size_t dl = sizeof(dec);
			int n = 0, i;
			char und[4096];
			for (i = 1; i < r && plain[i]; i++)
				if (plain[i] != '.') und[n++] = plain[i];
			/* strip the 2 letter rotating top label */
			n -= 2;
			r = base32_ops.decode(dec, &dl, und, n);
			if (r == 5 && !memcmp(dec, "BADIP", 5)) {
				if (t_last_answer && vtime_us - t_last_answer < 60 * 1000000LL) {
					if (!refused_while_active)
						fprintf(stderr, "[t+%llds] SERVER REFUSES THE CLIENT (BADIP), %lld.%llds after it last answered it\n",
							(vtime_us - t_login) / 1000000LL,
							(vtime_us - t_last_answer) / 1000000LL,
							((vtime_us - t_last_answer) / 100000LL) % 10);
					refused_while_active = 1;
				}
			} else {
				t_last_answer = vtime_us;
			}
		}
	}
	if (filter(fd, buf, len))
		return len;
	return __real_sendto(fd, buf, len, flags, a, al);
}

static void pump_server(void)
{
	struct pollfd pf;
	for (;;) {
		pf.fd = srv_fd; pf.events = POLLIN; pf.revents = 0;
		if (poll(&pf, 1, 0) <= 0)
			break;
		tunnel_dns(faketun[1], srv_fd, &g_fds, 0);
	}
}

static void stranger(void)
{
	char pkt[512], name[300], data[6], in[4096], out[4096];
	struct query q;
	struct sockaddr_in to;
	socklen_t tl = sizeof(to);
	struct pollfd pf;
	int len, r;

	data[0] = (PROTOCOL_VERSION >> 24) & 0xff; data[1] = (PROTOCOL_VERSION >> 16) & 0xff;
	data[2] = (PROTOCOL_VERSION >> 8) & 0xff; data[3] = PROTOCOL_VERSION & 0xff;
	data[4] = 0x12; data[5] = 0x34;
	name[0] = 'v';
	build_hostname(name + 1, sizeof(name) - 1, data, 6, topdomain, &base32_ops, 255);
	memset(&q, 0, sizeof(q));
	q.id = 4242; q.type = T_NULL;
	len = dns_encode(pkt, sizeof(pkt), &q, QR_QUERY, name, strlen(name));
	getsockname(srv_fd, (struct sockaddr *) &to, &tl);
	__real_sendto(mal_fd, pkt, len, 0, (struct sockaddr *) &to, sizeof(to));
	pump_server();
	pf.fd = mal_fd; pf.events = POLLIN;
	if (poll(&pf, 1, 200) <= 0)
		return;
	r = recv(mal_fd, in, sizeof(in), 0);
	memset(&q, 0, sizeof(q));
	r = dns_decode(out, sizeof(out), &q, QR_ANSWER, in, r);
	if (r >= 9 && !memcmp(out, "VACK", 4))
		stranger_uid = out[8];
	else if (r >= 9 && !memcmp(out, "VFUL", 4))
		stranger_uid = -1;
	fprintf(stderr, "[t+%llds] stranger at 127.0.0.2 sends a version request; the server last answered the client %lld.%llds ago; reply: %.4s%s\n",
		(vtime_us - t_login) / 1000000LL,
		(vtime_us - t_last_answer) / 1000000LL, ((vtime_us - t_last_answer) / 100000LL) % 10, out,
		stranger_uid == 0 ? ", user id 0 = THE CLIENT'S SLOT" : "");
}

int __wrap_select(int n, fd_set *r, fd_set *w, fd_set *e, struct timeval *tv)
{
	struct timeval zero = { 0, 0 };
	int res;

	pump_server();
	res = __real_select(n, r, w, e, &zero);
	if (res > 0) {
		vtime_us += rtt_ms * 1000LL;
	} else {
		vtime_us += tv->tv_sec * 1000000LL + tv->tv_usec;
		FD_ZERO(r);
		res = 0;
	}
	if (t_login && !stranger_done && vtime_us - t_login >= 61 * 1000000LL) {
		stranger_done = 1;
		stranger();
	}
	return res;
}

static int mksock(const char *ip)
{
	struct sockaddr_in a;
	int fd = socket(AF_INET, SOCK_DGRAM, 0);
	memset(&a, 0, sizeof(a));
	a.sin_family = AF_INET;
	a.sin_addr.s_addr = inet_addr(ip);
	if (fd < 0 || bind(fd, (struct sockaddr *) &a, sizeof(a)) < 0) {
		perror("socket/bind");
		exit(2);
	}
	return fd;
}

int main(void)
{
	static char dom[] = "t.example";
	static char pw[33] = "secret";
	static char qtype[] = "CNAME";
	struct sockaddr_storage ns;
	socklen_t nl = sizeof(struct sockaddr_in);
	int rc;

	socketpair(AF_UNIX, SOCK_DGRAM, 0, faketun);
	srv_fd = mksock("127.0.0.1");
	cli_fd = mksock("127.0.0.1");
	mal_fd = mksock("127.0.0.2");
	prepare_dns_fd(srv_fd);
	g_fds.v4fd = srv_fd;
	g_fds.v6fd = -1;

	/* iodined -P secret 10.0.0.1/30 t.example */
	topdomain = dom;
	strcpy(password, "secret");
	check_ip = 1;
	my_ip = inet_addr("10.0.0.1");
	netmask = 30;
	my_mtu = 1130;
	created_users = init_users(my_ip, netmask);
	fw_query_init();
	srand(1);

	/* iodine -P secret -T CNAME 127.0.0.1 t.example */
	memset(&ns, 0, sizeof(ns));
	getsockname(srv_fd, (struct sockaddr *) &ns, &nl);
	client_init();
	client_set_nameserver(&ns, nl);
	client_set_topdomain(dom);
	client_set_password(pw);
	client_set_qtype(qtype);
	client_set_selecttimeout(4);
	client_set_lazymode(1);
	client_set_hostname_maxlen(255);

	rc = client_handshake(cli_fd, 1, 1, 3072);
	fprintf(stderr, "client_handshake() returned %d, %lld s after the login\n", rc,
		(vtime_us - t_login) / 1000000LL);
	if (!stranger_done) {
		/* handshake was over in less than 61 s: nothing to see here */
		fprintf(stderr, "handshake finished early, scenario does not apply\n");
		return 0;
	}
	if (stranger_uid == 0 || refused_while_active) {
		fprintf(stderr, "VIOLATION: the client never stopped talking to the server, the server answered it all along,\n"
				"           and still %s\n",
			stranger_uid == 0 ? "gave its slot to a stranger" : "refused it as timed out");
		return 1;
	}
	fprintf(stderr, "ok: client keeps its slot (stranger: %s)\n", stranger_uid == -1 ? "server full" : "other");
	return 0;
}
