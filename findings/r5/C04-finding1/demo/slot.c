/* Scripted history against the unchanged server code (iodined.c is included,
 * its tunnel_dns() is fed real UDP datagrams over loopback; time() is the only
 * thing replaced, so that the 60 second rule can be exercised in no time).
 *
 * A client X logs in and then keeps talking to the server with the requests
 * of the normal handshake (codec switch, options, fragment size probes, set
 * fragment size, server address), one every 5 seconds; every one of them is
 * accepted and answered. 61 seconds after its login (1 second after its last
 * accepted request) somebody at another address sends a version request.
 *
 * Property: that request must not get X's slot, and X must not be refused.
 */
#define main iodined_main
#include "iodined.c"
#undef main

#include <poll.h>

static time_t now = 1700000000;
time_t __wrap_time(time_t *t);
time_t __wrap_time(time_t *t) { if (t) *t = now; return now; }

/* tun.c is not linked */
int open_tun(const char *d) { (void) d; return -1; }
void close_tun(int fd) { (void) fd; }
int write_tun(int fd, char *data, size_t len) { (void) fd; (void) data; (void) len; return 0; }
ssize_t read_tun(int fd, char *buf, size_t len) { return read(fd, buf, len); }
int tun_setip(const char *a, const char *b, int c) { (void) a; (void) b; (void) c; return 0; }
int tun_setmtu(const unsigned m) { (void) m; return 0; }

static int srv_fd;
static struct dnsfd g_fds;
static struct sockaddr_in srv_addr;
static unsigned short next_id = 100;
static unsigned cmc = 1;
static int faketun[2];

static int mksock(const char *ip)
{
	struct sockaddr_in a;
	int fd = socket(AF_INET, SOCK_DGRAM, 0);
	memset(&a, 0, sizeof(a));
	a.sin_family = AF_INET;
	a.sin_addr.s_addr = inet_addr(ip);
	if (fd < 0 || bind(fd, (struct sockaddr *) &a, sizeof(a)) < 0) {
		perror("socket/bind");
		exit(2);
	}
	return fd;
}

/* one query to the server, returns the decoded NULL-record payload length */
static int ask(int fd, const char *name, char *out, int outlen)
{
	char pkt[1024], in[4096];
	struct query q;
	struct pollfd pf;
	int len, r;

	memset(&q, 0, sizeof(q));
	q.id = next_id++;
	q.type = T_NULL;
	len = dns_encode(pkt, sizeof(pkt), &q, QR_QUERY, (char *) name, strlen(name));
	sendto(fd, pkt, len, 0, (struct sockaddr *) &srv_addr, sizeof(srv_addr));

	pf.fd = srv_fd; pf.events = POLLIN;
	while (poll(&pf, 1, 0) > 0)
		tunnel_dns(faketun[1], srv_fd, &g_fds, 0);

	pf.fd = fd; pf.events = POLLIN;
	if (poll(&pf, 1, 200) <= 0)
		return -1;
	r = recv(fd, in, sizeof(in), 0);
	memset(&q, 0, sizeof(q));
	return dns_decode(out, outlen, &q, QR_ANSWER, in, r);
}

static void b32name(char *name, char cmd, const char *data, int len)
{
	name[0] = cmd;
	build_hostname(name + 1, 250, data, len, topdomain, &base32_ops, 255);
}

static int do_version(int fd, int *seed)
/* returns userid, -1 = server full, -2 = other */
{
	char name[300], out[4096], d[6];
	int r;

	d[0] = (PROTOCOL_VERSION >> 24) & 0xff; d[1] = (PROTOCOL_VERSION >> 16) & 0xff;
	d[2] = (PROTOCOL_VERSION >> 8) & 0xff; d[3] = PROTOCOL_VERSION & 0xff;
	d[4] = cmc >> 8; d[5] = cmc; cmc++;
	b32name(name, 'v', d, 6);
	r = ask(fd, name, out, sizeof(out));
	if (r >= 9 && !memcmp(out, "VACK", 4)) {
		*seed = ((out[4] & 0xff) << 24) | ((out[5] & 0xff) << 16) | ((out[6] & 0xff) << 8) | (out[7] & 0xff);
		return out[8];
	}
	if (r >= 9 && !memcmp(out, "VFUL", 4))
		return -1;
	return -2;
}

static int do_login(int fd, int uid, int seed)
{
	char name[300], out[4096], d[19];
	int r;

	memset(d, 0, sizeof(d));
	d[0] = uid;
	login_calculate(d + 1, 16, password, seed);
	d[17] = cmc >> 8; d[18] = cmc; cmc++;
	b32name(name, 'l', d, 19);
	r = ask(fd, name, out, sizeof(out));
	return r > 8 && !memcmp(out, "10.0.0.", 7);
}

static int refused(const char *out, int r)
{
	return r < 0 || (r == 5 && !memcmp(out, "BADIP", 5));
}

/* The requests iodine sends between login and the first ping; 1 = accepted */
static int req(int fd, int uid, char kind)
{
	char name[400], out[4096], d[8], data[256];
	int r;

	switch (kind) {
	case 'S':	/* switch upstream codec to Base32 */
		snprintf(name, sizeof(name), "s%c%c%c%c%c.%s", b32_5to8(uid), b32_5to8(5),
			 b32_5to8((cmc >> 10) & 31), b32_5to8((cmc >> 5) & 31), b32_5to8(cmc & 31), topdomain);
		cmc++;
		r = ask(fd, name, out, sizeof(out));
		return !refused(out, r) && r == 6 && !memcmp(out, "Base32", 6);
	case 'O':	/* lazy mode */
		snprintf(name, sizeof(name), "o%cl%c%c%c.%s", b32_5to8(uid),
			 b32_5to8((cmc >> 10) & 31), b32_5to8((cmc >> 5) & 31), b32_5to8(cmc & 31), topdomain);
		cmc++;
		r = ask(fd, name, out, sizeof(out));
		return !refused(out, r) && r == 4 && !memcmp(out, "Lazy", 4);
	case 'I':	/* server address */
		snprintf(name, sizeof(name), "i%c%c%c%c.%s", b32_5to8(uid),
			 b32_5to8((cmc >> 10) & 31), b32_5to8((cmc >> 5) & 31), b32_5to8(cmc & 31), topdomain);
		cmc++;
		r = ask(fd, name, out, sizeof(out));
		return !refused(out, r) && r == 5 && out[0] == 'I';
	case 'R':	/* downstream fragment size probe, 200 bytes */
		memset(data, MAX(1, cmc & 0xff), sizeof(data));
		data[1] = MAX(1, (cmc >> 8) & 0xff);
		cmc++;
		build_hostname(name + 5, sizeof(name) - 5, data, 100, topdomain, &base32_ops, 255);
		name[0] = 'r';
		name[1] = b32_5to8((uid << 1) | ((200 >> 10) & 1));
		name[2] = b32_5to8((200 >> 5) & 31);
		name[3] = b32_5to8(200 & 31);
		name[4] = 'd';
		r = ask(fd, name, out, sizeof(out));
		return !refused(out, r) && r == 200 && (out[0] & 0xff) == 0 && (out[1] & 0xff) == 200;
	case 'N':	/* set downstream fragment size 198 */
		d[0] = uid; d[1] = 0; d[2] = 198; d[3] = cmc >> 8; d[4] = cmc; cmc++;
		b32name(name, 'n', d, 5);
		r = ask(fd, name, out, sizeof(out));
		return !refused(out, r) && r == 2 && (out[1] & 0xff) == 198;
	case 'P':	/* ping */
		d[0] = uid; d[1] = 0; d[2] = cmc >> 8; d[3] = cmc; cmc++;
		b32name(name, 'p', d, 4);
		r = ask(fd, name, out, sizeof(out));
		return !refused(out, r) && r >= 2;
	}
	return 0;
}

static void server_start(int netbits)
{
	static char dom[] = "t.example";

	topdomain = dom;
	memset(password, 0, sizeof(password));
	strcpy(password, "secret");
	check_ip = 1;			/* the default: no -c */
	my_ip = inet_addr("10.0.0.1");
	netmask = netbits;
	my_mtu = 1130;
	free(users);
	created_users = init_users(my_ip, netmask);
}

static int scenario(int netbits, int control)
{
	static const char kinds[] = "ISORRRRRRRNR";	/* at +5, +10, ... +60 */
	int x_fd, m_fd, o_fd[USERS], o_uid[USERS], others, i, k;
	int x_uid, x_seed, m_uid, m_seed, seed, bad = 0, ok;
	time_t t0;

	server_start(netbits);
	printf("--- iodined 10.0.0.1/%d (%d slot%s), source check on%s\n", netbits, created_users,
	       created_users == 1 ? "" : "s", control ? "; control: X really silent" : "");

	/* the other slots are held by clients that ping every 5 seconds */
	others = created_users - 1;
	for (i = 0; i < others; i++) {
		char ip[32];
		snprintf(ip, sizeof(ip), "127.0.1.%d", i + 1);
		o_fd[i] = mksock(ip);
		o_uid[i] = do_version(o_fd[i], &seed);
		if (o_uid[i] < 0 || !do_login(o_fd[i], o_uid[i], seed)) {
			printf("setup failed for client %d\n", i);
			return 2;
		}
	}

	x_fd = mksock("127.0.0.1");
	m_fd = mksock("127.0.0.2");
	x_uid = do_version(x_fd, &x_seed);
	if (x_uid < 0 || !do_login(x_fd, x_uid, x_seed)) {
		printf("setup failed for X\n");
		return 2;
	}
	t0 = now;
	printf("t+ 0  X (127.0.0.1) logged in as user %d\n", x_uid);

	for (k = 1; k <= 12; k++) {
		now = t0 + 5 * k;
		for (i = 0; i < others; i++)
			if (!req(o_fd[i], o_uid[i], 'P')) {
				printf("other client %d refused?\n", i);
				return 2;
			}
		if (control)
			continue;
		ok = req(x_fd, x_uid, kinds[k - 1]);
		printf("t+%2d  X sends '%c' request: %s\n", 5 * k, kinds[k - 1],
		       ok ? "accepted and answered" : "REFUSED");
		if (!ok)
			bad = 1;
	}

	now = t0 + 61;
	m_uid = do_version(m_fd, &m_seed);
	if (m_uid >= 0)
		printf("t+61  stranger (127.0.0.2) sends a version request: VACK, gets slot %d%s\n", m_uid,
		       m_uid == x_uid ? " = the slot of X" : "");
	else
		printf("t+61  stranger (127.0.0.2) sends a version request: %s\n",
		       m_uid == -1 ? "VFUL (server full)" : "no/odd reply");
	ok = req(x_fd, x_uid, 'R');
	printf("t+61  X sends 'R' request: %s\n", ok ? "accepted and answered" : "REFUSED (BADIP)");

	close(x_fd); close(m_fd);
	for (i = 0; i < others; i++)
		close(o_fd[i]);

	if (control) {
		/* 61 s of silence: slot must be reusable and X refused */
		if (m_uid != x_uid || ok) {
			printf("control failed: a silent session must lose its slot\n");
			return 2;
		}
		printf("control ok: after 61 s of real silence the slot is given away, as it should be\n");
		return 0;
	}
	if (m_uid == x_uid || !ok)
		bad = 1;
	printf(bad ? "VIOLATION: X talked to the server 1 second ago (and every 5 seconds before that),\n"
		     "           yet its slot was given to somebody else / X was refused\n"
		   : "ok: X keeps its slot\n");
	return bad;
}

int main(void)
{
	int rc = 0, r;

	setvbuf(stdout, NULL, _IOLBF, 0);
	socketpair(AF_UNIX, SOCK_DGRAM, 0, faketun);
	srv_fd = mksock("127.0.0.1");
	{
		socklen_t l = sizeof(srv_addr);
		getsockname(srv_fd, (struct sockaddr *) &srv_addr, &l);
	}
	prepare_dns_fd(srv_fd);
	g_fds.v4fd = srv_fd;
	g_fds.v6fd = -1;
	fw_query_init();
	srand(1);

	r = scenario(30, 1); if (r == 2) return 2;
	r = scenario(30, 0); if (r == 2) return 2; rc |= r;
	r = scenario(27, 0); if (r == 2) return 2; rc |= r;
	return rc;
}
