#!/bin/sh
# usage: run.sh <iodine source tree root>
# exit 1 = violation shown (unchanged tree), 0 = does not occur, 2 = harness trouble
ROOT=${1:?usage: run.sh <source tree root>}
SRC=$(cd "$ROOT/src" && pwd) || exit 2
HERE=$(cd "$(dirname "$0")" && pwd)
T=$(mktemp -d /tmp/c04f1.XXXXXX) || exit 2
trap 'rm -rf "$T"' EXIT

sed -e 's/\([Bb][Aa][Ss][Ee]64\)/\1u/g ; s/0123456789+/0123456789_/' < "$SRC/base64.c" > "$T/base64u.c" || exit 2
CF="-std=gnu99 -g -O0 -w -D_GNU_SOURCE -DLINUX -I$SRC -DGITREVISION=\"demo\""
OBJS=""
for f in dns read encoding login base32 base64 base128 md5 common user fw_query client util; do
	cc $CF -c "$SRC/$f.c" -o "$T/$f.o" || exit 2
	case $f in client|util) ;; *) OBJS="$OBJS $T/$f.o" ;; esac
done
cc $CF -c "$T/base64u.c" -o "$T/base64u.o" || exit 2
OBJS="$OBJS $T/base64u.o"

# 1. scripted history, server only
cc $CF -c "$HERE/slot.c" -o "$T/slot.o" || exit 2
cc -o "$T/slot" "$T/slot.o" $OBJS -lz -Wl,--wrap=time || exit 2
# 2. the real client's handshake against the real server through a picky relay
cc $CF -c "$HERE/e2e.c" -o "$T/e2e.o" || exit 2
cc -o "$T/e2e" "$T/e2e.o" $OBJS "$T/client.o" "$T/util.o" -lz \
	-Wl,--wrap=time,--wrap=select,--wrap=sendto,--wrap=sleep || exit 2

echo "=== part 1: scripted history (server code only)"
"$T/slot"; r1=$?
echo
echo "=== part 2: unmodified iodine client (-T CNAME) and server, virtual time, restrictive relay"
"$T/e2e" 2>&1; r2=$?
echo
[ $r1 -eq 2 ] || [ $r2 -eq 2 ] && { echo "harness trouble"; exit 2; }
if [ $r1 -ne 0 ] || [ $r2 -ne 0 ]; then
	echo "FAIL: a session that keeps talking to the server loses its slot after 60 seconds"
	exit 1
fi
echo "PASS"
exit 0
