/*
 * Small harness shared by the demos: the real iodined main() (src/iodined.c
 * compiled with -Dmain=iodined_main, every other source file unchanged) runs
 * in a child process with real UDP sockets on loopback:
 *
 *   iodined -f -s -c -P pw -l 127.0.0.1 -p <P> -b <Q> 10.9.0.1 t.example
 *
 * Only open_tun() is replaced (-Wl,--wrap=open_tun) by a pipe that never
 * becomes readable, because there is no tun device here.  The parent process
 * plays the askers (plain UDP sockets) and the local DNS server on port <Q>.
 */
#define _GNU_SOURCE
#include <stdio.h>
#include <stdlib.h>
#include <string.h>
#include <unistd.h>
#include <signal.h>
#include <poll.h>
#include <errno.h>
#include <sys/socket.h>
#include <sys/wait.h>
#include <netinet/in.h>
#include <arpa/inet.h>

int iodined_main(int argc, char **argv);
int __wrap_open_tun(const char *dev);
int __wrap_open_tun(const char *dev)
{
	int p[2];
	(void) dev;
	if (pipe(p))
		return -1;
	return p[0];
}

#define NASK 6
static int ask[NASK];		/* the askers */
static int localdns;		/* the local DNS server iodined forwards to */
static struct sockaddr_in srv;	/* iodined's DNS socket */
static struct sockaddr_in fwdsock;	/* iodined's forwarding socket, learnt from the first relayed query */
static pid_t srvpid;

static int __attribute__((unused))
rx(int fd, unsigned char *b, int cap, struct sockaddr_in *from, int ms)
{
	struct pollfd p;
	socklen_t fl = sizeof(*from);

	p.fd = fd; p.events = POLLIN; p.revents = 0;
	if (poll(&p, 1, ms) <= 0)
		return -1;
	return recvfrom(fd, b, cap, 0, (struct sockaddr *) from, from ? &fl : NULL);
}

/* dotted text -> wire name */
static int __attribute__((unused))
towire(const char *txt, unsigned char *w)
{
	int n = 0;
	const char *s = txt;

	while (*s) {
		const char *e = strchr(s, '.');
		int l = e ? (int) (e - s) : (int) strlen(s);
		w[n++] = l;
		memcpy(w + n, s, l);
		n += l;
		s += l;
		if (*s == '.')
			s++;
	}
	w[n++] = 0;
	return n;
}

/* a plain query: RD set, one question, class IN */
static int __attribute__((unused))
mkquery(unsigned char *b, unsigned id, const unsigned char *wname, int wlen, unsigned type)
{
	memset(b, 0, 12);
	b[0] = id >> 8; b[1] = id;
	b[2] = 1;
	b[5] = 1;
	memcpy(b + 12, wname, wlen);
	b[12 + wlen] = type >> 8; b[13 + wlen] = type;
	b[14 + wlen] = 0; b[15 + wlen] = 1;
	return 16 + wlen;
}

/* Two "www.t.example A" queries, which iodined answers itself without
   touching the forwarding ring.  When the second answer is back, every
   datagram sent to iodined before has been handled. */
static int __attribute__((unused))
syncsrv(void)
{
	static int sfd = -1;
	static unsigned sid = 1;
	unsigned char w[64], b[512];
	int i, wl = towire("www.t.example", w);

	if (sfd < 0)
		sfd = socket(AF_INET, SOCK_DGRAM, 0);
	for (i = 0; i < 2; i++) {
		int l = mkquery(b, sid++, w, wl, 1);
		sendto(sfd, b, l, 0, (struct sockaddr *) &srv, sizeof(srv));
		if (rx(sfd, b, sizeof(b), NULL, 1000) < 0)
			return -1;
	}
	return 0;
}

static void __attribute__((unused))
stop_server(void)
{
	if (srvpid > 0) {
		kill(srvpid, SIGKILL);
		waitpid(srvpid, NULL, 0);
		srvpid = 0;
	}
}

static void __attribute__((unused))
start_server(void)
{
	struct sockaddr_in a;
	socklen_t al = sizeof(a);
	char ps[16], qs[16];
	int i, t;

	memset(&a, 0, sizeof(a));
	a.sin_family = AF_INET;
	a.sin_addr.s_addr = htonl(0x7f000001);

	localdns = socket(AF_INET, SOCK_DGRAM, 0);
	bind(localdns, (struct sockaddr *) &a, sizeof(a));
	getsockname(localdns, (struct sockaddr *) &a, &al);
	sprintf(qs, "%d", ntohs(a.sin_port));

	t = socket(AF_INET, SOCK_DGRAM, 0);
	a.sin_port = 0;
	bind(t, (struct sockaddr *) &a, sizeof(a));
	al = sizeof(a);
	getsockname(t, (struct sockaddr *) &a, &al);
	close(t);
	srv = a;
	sprintf(ps, "%d", ntohs(a.sin_port));

	for (i = 0; i < NASK; i++) {
		ask[i] = socket(AF_INET, SOCK_DGRAM, 0);
		a.sin_port = 0;
		bind(ask[i], (struct sockaddr *) &a, sizeof(a));
	}

	fflush(stdout);
	srvpid = fork();
	if (srvpid == 0) {
		char *av[] = { "iodined", "-f", "-s", "-c", "-P", "pw", "-l", "127.0.0.1",
			"-p", ps, "-b", qs, "10.9.0.1", "t.example", NULL };
		for (i = 0; i < 14; i++)
			av[i] = strdup(av[i]);	/* main() scribbles over -P */
		if (!getenv("VERBOSE")) {
			if (!freopen("/dev/null", "w", stderr))
				_exit(9);
		}
		_exit(iodined_main(14, av));
	}
	atexit(stop_server);
	for (i = 0; i < 20; i++) {
		usleep(50000);
		if (syncsrv() == 0)
			return;
	}
	printf("iodined did not come up, cannot run the demo\n");
	exit(2);
}

/* Asker a sends a query; returns the length of what the local DNS server
   received (in got), or -1 when nothing was relayed. */
static int __attribute__((unused))
asker_query(int a, const unsigned char *pkt, int len, unsigned char *got, int cap)
{
	struct sockaddr_in f;
	int r;

	sendto(ask[a], pkt, len, 0, (struct sockaddr *) &srv, sizeof(srv));
	r = rx(localdns, got, cap, &f, 300);
	if (r > 0)
		fwdsock = f;
	return r;
}

static void __attribute__((unused))
localdns_reply(const unsigned char *pkt, int len)
{
	if (sendto(localdns, pkt, len, 0, (struct sockaddr *) &fwdsock, sizeof(fwdsock)) != len)
		perror("local DNS sendto");
	syncsrv();
}
