/* C20 finding 3: a reply that is larger than the path MTU towards the asker is never relayed */
#define _GNU_SOURCE
#include <sched.h>
#include <sys/ioctl.h>
#include <net/if.h>
#include "harness.h"

/* A private network namespace whose loopback has the MTU of an Ethernet.
   (The stock loopback MTU is 65536, larger than any UDP datagram, so the
   kernel never has to fragment there.) */
static int
private_net_mtu1500(void)
{
	struct ifreq ifr;
	struct sockaddr_in *sin;
	int s;

	if (unshare(CLONE_NEWNET) != 0 && unshare(CLONE_NEWUSER | CLONE_NEWNET) != 0) {
		perror("unshare(CLONE_NEWNET)");
		return -1;
	}
	s = socket(AF_INET, SOCK_DGRAM, 0);
	memset(&ifr, 0, sizeof(ifr));
	strcpy(ifr.ifr_name, "lo");
	ifr.ifr_flags = IFF_UP | IFF_LOOPBACK | IFF_RUNNING;
	if (ioctl(s, SIOCSIFFLAGS, &ifr) != 0) { perror("lo up"); return -1; }
	ifr.ifr_mtu = 1500;
	if (ioctl(s, SIOCSIFMTU, &ifr) != 0) { perror("lo mtu"); return -1; }
	/* a second, non-loopback address: iodined resolves its -l argument
	   with AI_ADDRCONFIG, which wants one */
	memset(&ifr, 0, sizeof(ifr));
	strcpy(ifr.ifr_name, "lo:1");
	sin = (struct sockaddr_in *) &ifr.ifr_addr;
	sin->sin_family = AF_INET;
	sin->sin_addr.s_addr = inet_addr("10.1.1.1");
	if (ioctl(s, SIOCSIFADDR, &ifr) != 0) { perror("lo:1 addr"); return -1; }
	close(s);
	return 0;
}

int
main(void)
{
	static const int sizes[] = { 512, 1400, 1472, 1473, 2000, 4000 };
	static unsigned char reply[8192], g[8192];
	unsigned char w[64], p[256], got[1500];
	int i, bad = 0;

	setvbuf(stdout, NULL, _IONBF, 0);
	if (private_net_mtu1500() != 0) {
		printf("cannot set up a private network namespace, cannot run the demo\n");
		return 2;
	}
	start_server();

	printf("iodined -b; the path from iodined to the asker has MTU 1500\n");
	for (i = 0; i < (int) (sizeof(sizes) / sizeof(sizes[0])); i++) {
		unsigned id = 0x6100 + i;
		int wl = towire("big.other.org", w), l = mkquery(p, id, w, wl, 16), r, j, sz = sizes[i];

		r = asker_query(0, p, l, got, sizeof(got));
		if (r < l) {
			printf("  query not relayed?\n");
			return 2;
		}
		if (i == 0)
			printf("  (the relayed query carries an OPT record with payload size %u, whatever the asker said)\n",
			    r >= l + 11 ? (got[l + 3] << 8) | got[l + 4] : 0);
		/* the local DNS server's answer: the relayed query turned into a
		   response, padded to the wanted size with a TXT-like body */
		memset(reply, 0, sizeof(reply));
		memcpy(reply, got, r);
		reply[2] |= 0x80;
		for (j = r; j < sz; j++)
			reply[j] = 'a' + j % 26;
		localdns_reply(reply, sz);
		r = rx(ask[0], g, sizeof(g), NULL, 100);
		if (r == sz && !memcmp(g, reply, sz)) {
			printf("  ok        %4d-byte reply with id %#x reached the asker unchanged\n", sz, id);
		} else {
			bad++;
			printf("  VIOLATION %4d-byte reply with id %#x: asker received %s\n", sz, id, r < 0 ? "nothing" : "something else");
		}
	}
	if (bad) {
		printf("FAIL: %d replies were not routed back to the asker\n", bad);
		return 1;
	}
	printf("PASS\n");
	return 0;
}
