#!/bin/sh
# usage: build.sh <source tree root> <main.c> <output binary>
# Builds the in-process harness (real client + real server + scripted relay)
# from the sources under <root>/src. Nothing is written into the source tree.
set -e
S=$1/src
W=$(cd "$(dirname "$0")" && pwd)
OBJ=$(mktemp -d)
CF="-g -O0 -w -DGITREVISION=\"x\" -DLINUX -D_GNU_SOURCE -I$S -I$W"
if [ -f "$S/base64u.c" ]; then
	cp "$S/base64u.c" "$OBJ/base64u.c"
else
	sed -e 's/\([Bb][Aa][Ss][Ee]64\)/\1u/g ; s/0123456789+/0123456789_/' < "$S/base64.c" > "$OBJ/base64u.c"
fi
for f in dns read encoding login base32 base64 base128 md5 common user fw_query; do
	cc $CF -c "$S/$f.c" -o "$OBJ/$f.o"
done
cc $CF -c "$OBJ/base64u.c" -o "$OBJ/base64u.o"
cc $CF -c "$W/srv.c" -o "$OBJ/srv.o"
cc $CF -c "$W/cli.c" -o "$OBJ/cli.o"
cc $CF -c "$W/sim.c" -o "$OBJ/sim.o"
cc $CF -c "$2" -o "$OBJ/main.o"
cc -o "$3" "$OBJ"/*.o -lz -Wl,--wrap=select -Wl,--wrap=time -Wl,--wrap=sleep \
	-Wl,--wrap=sendto -Wl,--wrap=recvfrom -Wl,--wrap=recvmsg
rm -rf "$OBJ"
