#!/bin/sh
# usage: run.sh <source tree root>
# exit 1 = violation shown (FAIL), 0 = does not occur, 2 = harness trouble
ROOT=${1:?usage: run.sh <source tree root>}
ROOT=$(cd "$ROOT" && pwd)
HERE=$(cd "$(dirname "$0")" && pwd)
T=$(mktemp -d)
trap 'rm -rf "$T"' EXIT
sh "$HERE/build.sh" "$ROOT" "$HERE/main.c" "$T/demo" || exit 2
"$T/demo" 2>"$T/stderr.txt"
rc=$?
[ $rc -gt 1 ] && cat "$T/stderr.txt"
exit $rc
