/* C16: an identical repeat of the remembered re-cased copy of a waiting query
   gets the illegal "x" reply although the payload it was answered with is
   still in the server's answer cache. */
#include <stdio.h>
#include <stdlib.h>
#include <string.h>
#include <ctype.h>
#include <arpa/inet.h>
#include "sim.h"
#include "simlib.h"

extern int hs_recase;

static int answer_to(int port, int from, const unsigned char **rd)
{
	int i;
	for (i = from; i < s2c.n; i++)
		if (ntohs(s2c.v[i].peer.sin_port) == port)
			return dns_rdata(s2c.v[i].d, s2c.v[i].len, rd);
	return -2;
}

int main(void)
{
	unsigned char ip[2000], s2[600];
	char nm[512];
	const unsigned char *rd1, *rd2, *rd3, *rd4;
	int n, r, q1, l1, l2, l3, l4, len, type, o, first, p1, p2, p3, p4;

	srand(1);
	sim_init();
	srv_setup("t.example.com", "pw", 1, getenv("SIMDEBUG") ? 3 : 0);
	cli_setup("t.example.com", "pw", 1, 4, "NULL", NULL, 255);
	hs_recase = 1;		/* the relay randomises letter case (0x20) */
	hs_mode = 1;
	r = cli_handshake(1, 0);
	hs_mode = 0;
	if (r) { printf("handshake failed\n"); return 2; }
	printf("session up: upstream codec %s, lazy mode %d\n", cli_upenc(), cli_lazymode());

	cli_step_timeout();			/* client sends its first ping */
	q1 = c2s.n - 1;
	dns_question(c2s.v[q1].d, c2s.v[q1].len, nm, sizeof(nm), &type);
	printf("ping as sent by the client (S1):       %s\n", nm);
	first = s2c.n;
	p1 = relay_deliver(q1, 0, NULL);	/* waits in the server (lazy) */

	/* the impatient relay tries again: new id, other letter case (S2) */
	len = c2s.v[q1].len;
	memcpy(s2, c2s.v[q1].d, len);
	s2[0] ^= 0x55; s2[1] ^= 0x55;
	for (o = 13; o < 13 + s2[12]; o += 2)
		if (isalpha(s2[o])) s2[o] ^= 0x20;
	dns_question(s2, len, nm, sizeof(nm), &type);
	printf("the relay's second try (S2):           %s\n", nm);
	p2 = relay_deliver_bytes(s2, len, NULL);
	if (s2c.n != first) { printf("unexpected: answered before data arrived\n"); return 2; }

	/* a small packet for the client arrives on the server's tun */
	n = make_ip(ip, "10.0.0.1", "10.0.0.2", 1, 40, 1);
	dv_push(&srv_tun_in, ip, n, NULL, 0);
	srv_step_input();
	l1 = answer_to(p1, first, &rd1);
	l2 = answer_to(p2, first, &rd2);
	printf("server answered S1 with %d bytes and S2 with %d bytes (one downstream packet, sent once)\n", l1, l2);
	if (l1 < 3 || l1 != l2 || memcmp(rd1, rd2, l1)) { printf("unexpected\n"); return 2; }

	/* both answers are lost; each try is repeated unchanged */
	first = s2c.n;
	p3 = relay_deliver(q1, 0, NULL);
	l3 = answer_to(p3, first, &rd3);
	printf("identical repeat of S1: %d bytes, %s\n", l3,
	       (l3 == l1 && !memcmp(rd3, rd1, l1)) ? "same payload (from the answer cache)" : "DIFFERENT");
	first = s2c.n;
	p4 = relay_deliver_bytes(s2, len, NULL);
	l4 = answer_to(p4, first, &rd4);
	printf("identical repeat of S2: %d bytes, %s\n", l4,
	       (l4 == l1 && !memcmp(rd4, rd1, l1)) ? "same payload (from the answer cache)" :
	       (l4 == 1 && rd4[0] == 'x') ? "the illegal reply \"x\"" : "DIFFERENT");
	if (!(l3 == l1 && !memcmp(rd3, rd1, l1)) || !(l4 == l1 && !memcmp(rd4, rd1, l1))) {
		printf("FAIL: an identical repeat of an answered query did not get the payload that is still in the answer cache\n");
		return 1;
	}
	printf("PASS\n");
	return 0;
}
