#define main iodined_main
#include "iodined.c"
#undef main
#include "sim.h"

static struct dnsfd srv_fds;

void srv_setup(const char *td, const char *pw, int checkip, int dbg)
{
	topdomain = strdup(td);
	memset(password, 0, sizeof(password));
	strncpy(password, pw, sizeof(password) - 1);
	my_ip = inet_addr("10.0.0.1");
	netmask = 27;
	my_mtu = 1130;
	check_ip = checkip;
	ns_ip = INADDR_ANY;
	bind_port = 0;
	debug = dbg;
	created_users = init_users(my_ip, netmask);
	fw_query_init();
	srv_fds.v4fd = SRV_DNS_FD;
	srv_fds.v6fd = -1;
}

void srv_run(void)
{
	int save = sim_ctx;
	sim_ctx = CTX_SRV;
	running = 1;
	tunnel(SRV_TUN_FD, &srv_fds, 0, 0);
	sim_ctx = save;
}

void srv_stop(void)
{
	running = 0;
}
