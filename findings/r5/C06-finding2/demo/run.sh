#!/bin/sh
# usage: run.sh <source tree root>
# exit 1: datagrams that match none of the client's queries stop its keep-alive
#         pings and the client shuts the tunnel down after 60 seconds
# exit 0: the client keeps pinging and stays up
ROOT=$(cd "${1:-.}" && pwd) || exit 2
HERE=$(cd "$(dirname "$0")" && pwd)
T=$(mktemp -d) || exit 2
trap 'rm -rf "$T"' EXIT
S="$ROOT/src"
sed -e 's/\([Bb][Aa][Ss][Ee]64\)/\1u/g ; s/0123456789+/0123456789_/' < "$S/base64.c" > "$T/base64u.c"
WRAP="-Wl,--wrap=select,--wrap=recvfrom,--wrap=sendto,--wrap=time,--wrap=sleep,--wrap=system"
${CC:-gcc} -g -O0 -w -DLINUX -D_GNU_SOURCE \
	-DCLIENT_C="\"$S/client.c\"" -I"$S" \
	"$HERE/junk_harness.c" "$S/dns.c" "$S/read.c" "$S/encoding.c" "$S/login.c" \
	"$S/base32.c" "$S/base64.c" "$T/base64u.c" "$S/base128.c" "$S/md5.c" \
	"$S/common.c" "$S/tun.c" "$S/util.c" -o "$T/junk_harness" $WRAP -lz || { echo "build failed"; exit 2; }

run() {
	"$T/junk_harness" "$@" > "$T/out" 2> "$T/err"
	rc=$?
	echo "[$*] $(cat "$T/out")"
	grep "shutting down" "$T/err" | sed 's/^/      client says: /'
	return $rc
}

echo "control, no unrelated datagrams:"
run 0 dns || { echo "control run failed, demo not valid"; exit 2; }
bad=0
echo "unrelated DNS response (www.example.org A, foreign id) every 500 ms:"
run 500 dns || bad=1
echo "40 arbitrary bytes every 600 ms:"
run 600 bytes || bad=1
if [ $bad = 1 ]; then
	echo "FAIL: replies that match none of the client's queries are not ignored: they stop its pings and it gives up"
	exit 1
fi
echo "PASS"
exit 0
