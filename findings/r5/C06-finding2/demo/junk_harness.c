/* The unchanged iodine client (client.c included as is) in tunnelling mode
 * against a well-behaved lazy-mode server, with and without unrelated
 * datagrams arriving on the client's DNS socket.
 *
 *   argv[1] = interval in milliseconds between unrelated datagrams (0 = none)
 *   argv[2] = kind of unrelated datagram:
 *             "dns"   a correct DNS response for www.example.org/A whose id is
 *                     none of the client's recent ids
 *             "bytes" 40 arbitrary bytes
 *
 * The server model is what iodined does in lazy mode with an idle tun device:
 * it keeps the newest query of the user and answers the previous one (2 byte
 * data header, no data) when the next query comes in.
 *
 * select/recvfrom/sendto/time/sleep/system are replaced (-Wl,--wrap): no
 * network, no tun device, simulated clock with microsecond resolution.
 * Prints a summary; exit status 1 if the client left client_tunnel() by
 * itself within the 180 simulated seconds of the run, 0 if it was still
 * alive. */
#define _GNU_SOURCE
#include CLIENT_C
#include <errno.h>

#define DNSFD 100
#define TUNFD 101

static long long clk = 1000000LL * 1000000;	/* microseconds */
static long long tunnel_start, next_junk, junk_every;
static int junk_bytes;
static char rq[16][4096];
static int rqlen[16], rq_head, rq_n;
static int in_tunnel;
static unsigned long pings, junk_sent;
static long long last_ping_at;
static unsigned short last_id;

static struct query held;		/* the lazy server's waiting query */

static void push(const char *d, int len)
{
	int i = (rq_head + rq_n) % 16;
	if (rq_n >= 16) return;
	memcpy(rq[i], d, len);
	rqlen[i] = len;
	rq_n++;
}

time_t __wrap_time(time_t *t) { time_t n = clk / 1000000; if (t) *t = n; return n; }
unsigned __wrap_sleep(unsigned s) { clk += 1000000LL * s; return 0; }
int __wrap_system(const char *c) { (void) c; return 0; }

static void make_junk(void)
{
	char pkt[128];
	char *p = pkt;

	memset(pkt, 0, sizeof(pkt));
	if (junk_bytes) {
		int i;
		for (i = 0; i < 40; i++)
			pkt[i] = (char) (i * 37 + 11);
		push(pkt, 40);
	} else {
		/* www.example.org. IN A 93.184.216.34, id unrelated to ours */
		HEADER *h = (HEADER *) pkt;
		h->id = htons((unsigned short) (last_id + 1));
		h->qr = 1; h->rd = 1; h->ra = 1;
		h->qdcount = htons(1);
		h->ancount = htons(1);
		p += sizeof(HEADER);
		memcpy(p, "\003www\007example\003org\000", 17); p += 17;
		putshort(&p, T_A); putshort(&p, C_IN);
		putshort(&p, 0xc00c); putshort(&p, T_A); putshort(&p, C_IN);
		putlong(&p, 300); putshort(&p, 4);
		*p++ = 93; *p++ = (char) 184; *p++ = (char) 216; *p++ = 34;
		push(pkt, p - pkt);
	}
	junk_sent++;
}

int __wrap_select(int n, fd_set *r, fd_set *w, fd_set *e, struct timeval *tv)
{
	long long to = tv->tv_sec * 1000000LL + tv->tv_usec;
	(void) n; (void) w; (void) e;

	if (in_tunnel && clk - tunnel_start > 180 * 1000000LL)
		client_stop();		/* end of the experiment */

	if (rq_n == 0 && in_tunnel && junk_every && next_junk <= clk + to) {
		if (next_junk > clk)
			clk = next_junk;
		make_junk();
		next_junk += junk_every;
	}
	if (rq_n > 0) {
		FD_ZERO(r);
		FD_SET(DNSFD, r);
		return 1;
	}
	FD_ZERO(r);
	clk += to;
	return 0;
}

ssize_t __wrap_recvfrom(int fd, void *buf, size_t len, int fl, struct sockaddr *sa, socklen_t *sl)
{
	int l;
	(void) fd; (void) fl;
	if (rq_n == 0) { errno = EAGAIN; return -1; }
	l = rqlen[rq_head];
	if ((size_t) l > len) l = len;
	memcpy(buf, rq[rq_head], l);
	rq_head = (rq_head + 1) % 16;
	rq_n--;
	if (sl) { memset(sa, 0, sizeof(struct sockaddr_in)); *sl = sizeof(struct sockaddr_in); }
	return l;
}

static void answer(struct query *q, const char *data, int dl)
{
	char pkt[4096];
	int l = dns_encode(pkt, sizeof(pkt), q, QR_ANSWER, data, dl);
	if (l > 0)
		push(pkt, l);
}

ssize_t __wrap_sendto(int fd, const void *buf, size_t len, int fl, const struct sockaddr *sa, socklen_t sl)
{
	struct query q;
	char data[512];
	int dl = 0;
	(void) fd; (void) fl; (void) sa; (void) sl;

	memset(&q, 0, sizeof(q));
	if (dns_decode(NULL, 0, &q, QR_QUERY, (char *) buf, len) <= 0)
		return len;
	last_id = q.id;

	switch (tolower(q.name[0])) {
	case 'v':
		memcpy(data, "VACK\x12\x34\x56\x78\x03", 9); dl = 9;
		break;
	case 'l':
		dl = sprintf(data, "10.0.0.1-10.0.0.2-1200-27");
		break;
	case 'y':
		memcpy(data, DOWNCODECCHECK1, DOWNCODECCHECK1_LEN); dl = DOWNCODECCHECK1_LEN;
		break;
	case 'z':
		dl = strlen(q.name); memcpy(data, q.name, dl);
		break;
	case 's':
		dl = sprintf(data, "%s", "Base128");
		break;
	case 'o':
		dl = sprintf(data, "%s", q.name[2] == 'l' ? "Lazy" : "Immediate");
		break;
	case 'n':
		data[0] = 0; data[1] = (char) 200; dl = 2;
		break;
	case 'p':
	default:
		/* ping (or data): lazy mode, keep this one, release the one before */
		if (tolower(q.name[0]) == 'p') {
			pings++;
			last_ping_at = clk;
		}
		if (held.id != 0) {
			data[0] = 0; data[1] = 0;
			answer(&held, data, 2);
		}
		held = q;
		return len;
	}
	answer(&q, data, dl);
	return len;
}

int main(int argc, char **argv)
{
	static char pw[33] = "secret";
	struct sockaddr_storage ss;
	struct sockaddr_in *sin = (struct sockaddr_in *) &ss;
	int tunfd, r;
	long long alive;

	junk_every = (argc > 1 ? atoi(argv[1]) : 0) * 1000LL;
	junk_bytes = (argc > 2 && !strcmp(argv[2], "bytes"));

	client_init();
	client_set_topdomain("t.example.com");
	client_set_password(pw);
	client_set_selecttimeout(4);		/* default -I */
	client_set_lazymode(1);			/* default -L1 */
	client_set_qtype("NULL");		/* -T NULL */
	memset(&ss, 0, sizeof(ss));
	sin->sin_family = AF_INET;
	client_set_nameserver(&ss, sizeof(*sin));

	r = client_handshake(DNSFD, 0 /* -r */, 0, 200 /* -m 200 */);
	if (r != 0) {
		printf("handshake failed (%d), demo cannot run\n", r);
		return 2;
	}
	tunfd = open("/dev/null", O_WRONLY);
	(void) tunfd;
	in_tunnel = 1;
	tunnel_start = clk;
	next_junk = clk + junk_every;
	pings = 0;
	client_tunnel(TUNFD, DNSFD);
	alive = (clk - tunnel_start) / 1000000;
	printf("unrelated datagrams: %lu (every %lld ms); client sent %lu pings, the last one %lld s after start; "
	       "client_tunnel() returned after %lld s\n",
	       junk_sent, junk_every / 1000, pings,
	       pings ? (last_ping_at - tunnel_start) / 1000000 : -1LL, alive);
	return alive < 180 ? 1 : 0;
}
