#!/bin/sh
# usage: run.sh <iodine source tree root>
# exit 1: violation shown (unchanged tree), exit 0: violation does not occur, exit 2: harness problem
ROOT=$(cd "${1:-.}" && pwd) || exit 2
HERE=$(cd "$(dirname "$0")" && pwd)
TMP=$(mktemp -d) || exit 2
trap 'rm -rf "$TMP"' EXIT
sh "$HERE/build.sh" "$ROOT" "$TMP" > "$TMP/build.log" 2>&1 || { cat "$TMP/build.log"; echo "build failed"; exit 2; }

# iodine -T NULL -m 200 -r, lazy mode, defaults otherwise; 5 ms one-way latency.
# The only fault: during the first 15 virtual seconds every query whose name
# starts with "sah" (= switch upstream codec of user 0 to Base128) is delayed by
# 16 s.  Nothing is lost, nothing is duplicated, every other datagram is prompt.
# From t=15 s on the path is clean (the last delayed datagram arrives at t=26 s).
# From t=17 s on both tun devices are offered a 200-byte packet about once a second
# until t=90 s.
ARGS="T=NULL m=200 L=1 I=4 raw=0 lat=5000 end=90 up_period=900000 down_period=1100000 up_size=200 down_size=200 rule=1:q:sah:0:15000000:delay:16000000"
"$TMP/sim" $ARGS trace=2 quiet=0 > "$TMP/trace.log" 2>&1
rc=$?
echo "--- codec switch requests (C->S) and the server's answers (S->C), client messages:"
grep -a -E ' sa[a-z]|rule 0|codec|^sim: ' "$TMP/trace.log" | cut -c1-110 | head -40
echo "--- result:"
grep -a -E '^(end|up:|down:|RESULT|VIOLATION|  WEDGE)' "$TMP/trace.log"
case $rc in
0) echo "PASS: packets offered after the fault are delivered in both directions"; exit 0;;
1) echo "FAIL: 64 s after the last delayed datagram arrived, nothing the client accepts from its tun device reaches the server's tun device"; exit 1;;
3) echo "PASS (no silent wedge): the client gave up the handshake with an error message instead of entering a dead tunnel"; exit 0;;
*) echo "harness problem (rc=$rc)"; tail -5 "$TMP/trace.log"; exit 2;;
esac
