#define main iodined_main
#include "../src/iodined.c"
#undef main
#include "sim.h"
struct tun_user *sv_user(int i) { return &users[i]; }
void sv_main(void)
{
	struct dnsfd fds;
	topdomain = strdup(cfg.topdomain);
	strcpy(password, "secret");
	check_ip = cfg.check_ip;
	netmask = cfg.netmask;
	my_ip = inet_addr("10.0.0.1");
	my_mtu = 1130;
	ns_ip = inet_addr("10.1.1.1");
	created_users = init_users(my_ip, netmask);
	debug = getenv("SVDEBUG") ? atoi(getenv("SVDEBUG")) : 0;
	running = 1;
	fds.v4fd = SV_DNS; fds.v6fd = -1;
	tunnel(SV_TUN, &fds, 0, 0);
}
