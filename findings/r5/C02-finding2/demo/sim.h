#ifndef SIM_H
#define SIM_H
#include <stdint.h>

#define CL_DNS 100
#define CL_TUN 101
#define SV_DNS 200
#define SV_TUN 201

struct simcfg {
	const char *qtype;      /* NULL = autodetect */
	const char *downenc;    /* NULL = autodetect */
	int lazy;
	int interval;
	int raw;                /* try raw mode */
	int autofrag;
	int fragsize;
	int maxlen;
	const char *topdomain;
	int check_ip;
	int netmask;
};
extern struct simcfg cfg;

int64_t sim_now(void);          /* virtual microseconds */
void cl_main(void);
void sv_main(void);
extern int cl_in_tunnel;        /* set when handshake is done */
extern int cl_exited;
extern int cl_handshake_rc;

#endif
