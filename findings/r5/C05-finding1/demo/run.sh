#!/bin/sh
# usage: run.sh <source tree root>
# exit 1: the unchanged tree executes a signed integer overflow (undefined
#         behaviour) while processing a raw login datagram
# exit 0: no undefined behaviour
ROOT=${1:?usage: run.sh <source tree root>}
ROOT=$(cd "$ROOT" && pwd) || exit 2
HERE=$(cd "$(dirname "$0")" && pwd)
T=$(mktemp -d) || exit 2
trap 'rm -rf "$T"' EXIT
S=$ROOT/src
CC=${CC:-gcc}

echo '/* generated as in src/Makefile */' > "$T/base64u.c"
sed -e 's/\([Bb][Aa][Ss][Ee]64\)/\1u/g ; s/0123456789+/0123456789_/' < "$S/base64.c" >> "$T/base64u.c"

$CC -g -O1 -fsanitize=undefined -fno-sanitize-recover=undefined \
    -DLINUX -D_GNU_SOURCE -DGITREVISION=\"demo\" -I"$S" -Wno-unused-function \
    "$HERE/harness.c" "$S/user.c" "$S/fw_query.c" "$S/dns.c" "$S/read.c" \
    "$S/encoding.c" "$S/login.c" "$S/base32.c" "$S/base64.c" "$T/base64u.c" \
    "$S/base128.c" "$S/md5.c" "$S/common.c" "$S/tun.c" \
    -o "$T/demo" -lz -Wl,--wrap=rand,--wrap=sendto,--wrap=syslog \
    > "$T/build.log" 2>&1 || { cat "$T/build.log"; echo "build failed"; exit 2; }

UBSAN_OPTIONS=print_stacktrace=1 "$T/demo" > "$T/out.log" 2>&1
rc=$?
cat "$T/out.log"
if grep -q "runtime error: signed integer overflow" "$T/out.log"; then
	echo "FAIL: undefined behaviour (signed integer overflow) in handle_raw_login()"
	exit 1
fi
if [ $rc -ne 0 ]; then
	echo "demo did not run to completion (rc=$rc)"
	exit 2
fi
echo "PASS"
exit 0
