/* Demo: signed overflow of users[].seed + 1 in handle_raw_login().
 *
 * The unchanged src/iodined.c is compiled into this file (main renamed).
 * A complete, valid session is played against the real handlers:
 *   V  (version)  -> the server draws the session seed with rand()
 *   L  (login)    -> authenticated
 *   raw login datagram (20 bytes) through raw_decode()
 * rand() is wrapped and returns RAND_MAX, a value rand() may legally return.
 * Built with -fsanitize=undefined -fno-sanitize-recover: the process aborts
 * at iodined.c "users[userid].seed + 1" when the overflow happens.
 */
#define _GNU_SOURCE
#include <stdarg.h>
#define main iodined_main
#include "iodined.c"
#undef main

int __wrap_rand(void);
int __wrap_rand(void) { return RAND_MAX; }

static int replies;
ssize_t __wrap_sendto(int fd, const void *buf, size_t len, int flags,
		      const struct sockaddr *a, socklen_t al);
ssize_t __wrap_sendto(int fd, const void *buf, size_t len, int flags,
		      const struct sockaddr *a, socklen_t al)
{
	(void)fd; (void)buf; (void)flags; (void)a; (void)al;
	replies++;
	return (ssize_t)len;
}
void __wrap_syslog(int pri, const char *fmt, ...);
void __wrap_syslog(int pri, const char *fmt, ...) { (void)pri; (void)fmt; }

static void mkq(struct query *q, const char *prefix, const unsigned char *data, int len)
{
	char enc[128];
	size_t space = sizeof(enc) - 1;
	struct sockaddr_in *from = (struct sockaddr_in *)&q->from;

	memset(q, 0, sizeof(*q));
	base32_ops.encode(enc, &space, data, len);
	snprintf(q->name, sizeof(q->name), "%s%s.t.example", prefix, enc);
	q->type = T_NULL;
	q->id = 0x1234;
	from->sin_family = AF_INET;
	from->sin_port = htons(40000);
	from->sin_addr.s_addr = inet_addr("203.0.113.9");
	q->fromlen = sizeof(*from);
}

int main(void)
{
	struct dnsfd fds = { 10, -1 };
	struct query q;
	unsigned char d[32];
	char pkt[64];

	topdomain = "t.example";
	strcpy(password, "secret");
	check_ip = 1;
	netmask = 27;
	my_ip = inet_addr("10.0.0.1");
	my_mtu = 1130;
	created_users = init_users(my_ip, netmask);

	/* V: version 00000502 + 2 bytes CMC */
	d[0] = PROTOCOL_VERSION >> 24; d[1] = (PROTOCOL_VERSION >> 16) & 0xff;
	d[2] = (PROTOCOL_VERSION >> 8) & 0xff; d[3] = PROTOCOL_VERSION & 0xff;
	d[4] = 1; d[5] = 2;
	mkq(&q, "v", d, 6);
	handle_null_request(11, fds.v4fd, &fds, &q, query_datalen(q.name, topdomain));
	if (!users[0].active) { fprintf(stderr, "setup: no session\n"); return 2; }
	fprintf(stderr, "session 0 created, seed drawn by the server = %d\n", users[0].seed);

	/* L: userid + md5(password ^ seed) + CMC */
	d[0] = 0;
	login_calculate((char *)d + 1, 16, password, users[0].seed);
	d[17] = 3; d[18] = 4;
	mkq(&q, "l", d, 19);
	handle_null_request(11, fds.v4fd, &fds, &q, query_datalen(q.name, topdomain));
	if (!users[0].authenticated) { fprintf(stderr, "setup: login failed\n"); return 2; }
	fprintf(stderr, "session 0 logged in\n");

	/* any raw login datagram for user 0: header + 16 bytes, from anywhere */
	memcpy(pkt, raw_header, RAW_HDR_LEN);
	pkt[RAW_HDR_CMD] = RAW_HDR_CMD_LOGIN | 0;
	memset(pkt + RAW_HDR_LEN, 0xAA, 16);
	mkq(&q, "x", d, 1);
	q.id = 0; q.name[0] = 0;
	fprintf(stderr, "sending a 20 byte raw login datagram for user 0\n");
	raw_decode(pkt, RAW_HDR_LEN + 16, &q, fds.v4fd, &fds, 11);

	fprintf(stderr, "raw login processed without undefined behaviour (%d replies sent)\n", replies);
	return 0;
}
