#!/bin/sh
# usage: run.sh <source tree root>
# exit 0: property C10 holds, 1: violated, 2: harness trouble
TREE="$1"
if [ -z "$TREE" ] || [ ! -f "$TREE/src/iodined.c" ]; then
	echo "usage: $0 <source tree root>" >&2
	exit 2
fi
TREE=$(cd "$TREE" && pwd) || exit 2
HERE=$(cd "$(dirname "$0")" && pwd) || exit 2
WORK=$(mktemp -d) || exit 2
trap 'rm -rf "$WORK"' EXIT INT TERM

# never write into the tree: copy the sources
mkdir "$WORK/src" || exit 2
cp "$TREE"/src/*.c "$TREE"/src/*.h "$WORK/src/" || exit 2
cp "$HERE/harness.c" "$WORK/src/harness.c" || exit 2
cd "$WORK/src" || exit 2

# base64u.c is generated from base64.c, exactly as src/Makefile does it
rm -f base64u.c
{ echo '/* No use in editing, produced by Makefile! */'
  sed -e 's/\([Bb][Aa][Ss][Ee]64\)/\1u/g ; s/0123456789+/0123456789_/' < base64.c
} > base64u.c || exit 2

CC=${CC:-cc}
$CC -std=c99 -g -O0 -w -DLINUX -D_GNU_SOURCE -DGITREVISION=\"demo\" \
	harness.c dns.c read.c encoding.c login.c base32.c base64.c base64u.c \
	base128.c md5.c common.c user.c fw_query.c tun.c \
	-Wl,--wrap=recvmsg -Wl,--wrap=recvfrom -Wl,--wrap=sendto -Wl,--wrap=syslog \
	-lz -o "$WORK/harness" > "$WORK/cc.log" 2>&1
if [ $? -ne 0 ]; then
	cat "$WORK/cc.log" >&2
	echo "harness trouble: build failed" >&2
	exit 2
fi

"$WORK/harness"
rc=$?
case $rc in
0|1) exit $rc ;;
*) echo "harness trouble: exit code $rc" >&2; exit 2 ;;
esac
