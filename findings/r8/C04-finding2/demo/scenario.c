/*
 * C04 finding 2: the per-request source check compares only the 128 address
 * bits of an IPv6 source. A link-local address is an address only together
 * with its zone (the interface it was received on, sin6_scope_id): the same
 * fe80:: address on another link is another host.
 *
 * exit 0: property holds, 1: violated, 2: harness trouble
 */
#include "harness.h"

int main(void)
{
	struct sockaddr_storage alice, neighbour, mallory;
	char frame[2048];
	char got[65536];
	int len, n, uid;
	time_t before;

	H_setup("10.0.0.1", 27, "secret");

	/* Alice's host is on the link of the server's interface 2 */
	H_addr6(&alice, "fe80::1", 40000, 2);
	/* another host on Alice's link */
	H_addr6(&neighbour, "fe80::2", 40000, 2);
	/* Mallory is on the link of interface 3 and gave her interface the
	   address fe80::1 too; she does not know the password */
	H_addr6(&mallory, "fe80::1", 50000, 3);

	uid = H_handshake(&alice, "secret");
	if (uid != 0 || users[0].tun_ip != inet_addr("10.0.0.2")) {
		fprintf(stderr, "harness: handshake failed\n");
		return 2;
	}

	/* Sanity: Alice's pings are accepted, the neighbour's are refused */
	n = H_fetch_downstream(&alice, 0, got, sizeof(got));
	if (n != 0)
		return 2;
	H_ping(&neighbour, 0, 0, 0);
	if (H_nsent != 1 || !H_is_badip(0) || !H_sameaddr(&H_sent[0].to, &neighbour)) {
		fprintf(stderr, "harness: ping from fe80::2%%2 not refused\n");
		return 2;
	}
	printf("ok: ping naming userid 0 from fe80::2%%2 answered BADIP\n");

	/* a packet for Alice's tunnel address waits in the server */
	len = H_ipv4_packet(frame, "10.0.0.1", "10.0.0.2", 40);
	H_tun_packet(frame, len);

	/* 30 s later Mallory polls as userid 0 */
	H_now += 30;
	before = users[0].last_pkt;
	n = H_fetch_downstream(&mallory, 0, got, sizeof(got));
	if (n == -1) {
		if (users[0].last_pkt != before)
			return 2;
		printf("ok: ping naming userid 0 from fe80::1%%3 answered BADIP, session untouched\n");
		n = H_fetch_downstream(&alice, 0, got, sizeof(got));
		if (n != len || memcmp(got, frame, len))
			return 2;
		printf("ok: the packet for 10.0.0.2 went to fe80::1%%2\n");
		printf("PROPERTY HOLDS\n");
		return 0;
	}
	if (n != len || memcmp(got, frame, len))
		return 2;
	printf("VIOLATED: session 0 is bound to fe80::1%%2 (port 40000); a ping naming userid 0 "
	       "from fe80::1%%3 (port 50000, another link, no password) was not refused: "
	       "it refreshed the session (last_pkt %+ld s) and the packet for tunnel address "
	       "10.0.0.2 was sent to fe80::1%%3\n", (long) (users[0].last_pkt - before));
	return 1;
}
