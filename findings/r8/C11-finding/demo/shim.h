#define CLI_DNS_FD 10
#define CLI_TUN_FD 11
#define SRV_DNS_FD 20
#define SRV_TUN_FD 21
void srv_setup(const char *td, const char *pw, int checkip);
void srv_iter(int ev);
int srv_realsoon_pending(void);
int srv_can_read_tun(void);
int srv_fragsize(int u);
char srv_downenc(int u);
const char *srv_upenc(int u);
int srv_lazy(int u);
unsigned srv_tun_ip(int u);
int srv_latest_user(void);
