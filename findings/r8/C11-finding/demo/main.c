/* Harness: the real iodine client (client.o) and the real iodined (iodined.c via
   srv_shim.c) in one process, joined by a simulated DNS relay that applies a
   fixed transformation. All of libc's socket/time calls that the two use are
   replaced with -Wl,--wrap; time is simulated. */
#define _GNU_SOURCE
#include <stdio.h>
#include <stdlib.h>
#include <string.h>
#include <stdint.h>
#include <unistd.h>
#include <time.h>
#include <sys/types.h>
#include <sys/socket.h>
#include <sys/select.h>
#include <netinet/in.h>
#include <arpa/inet.h>

#include "shim.h"
#include "common.h"
#include "client.h"

/* two independent copies of the real client (client.c compiled twice, the
   second copy with its global symbols prefixed c2_): one per session */
#define DECL(pfx) \
	void pfx##client_init(void); void pfx##client_stop(void); \
	void pfx##client_set_nameserver(struct sockaddr_storage *, int); \
	void pfx##client_set_topdomain(const char *); void pfx##client_set_password(const char *); \
	int pfx##client_set_qtype(char *); char *pfx##client_get_qtype(void); \
	void pfx##client_set_downenc(char *); void pfx##client_set_selecttimeout(int); \
	void pfx##client_set_lazymode(int); void pfx##client_set_hostname_maxlen(int); \
	int pfx##client_handshake(int, int, int, int); int pfx##client_tunnel(int, int);
DECL(c2_)
struct clientfn {
	void (*init)(void); void (*stop)(void);
	void (*set_nameserver)(struct sockaddr_storage *, int);
	void (*set_topdomain)(const char *); void (*set_password)(const char *);
	int (*set_qtype)(char *); char *(*get_qtype)(void);
	void (*set_downenc)(char *); void (*set_selecttimeout)(int);
	void (*set_lazymode)(int); void (*set_hostname_maxlen)(int);
	int (*handshake)(int, int, int, int); int (*tunnel)(int, int);
};
#define TABLE(pfx) { pfx##client_init, pfx##client_stop, pfx##client_set_nameserver, \
	pfx##client_set_topdomain, pfx##client_set_password, pfx##client_set_qtype, \
	pfx##client_get_qtype, pfx##client_set_downenc, pfx##client_set_selecttimeout, \
	pfx##client_set_lazymode, pfx##client_set_hostname_maxlen, pfx##client_handshake, \
	pfx##client_tunnel }
static const struct clientfn clients[2] = { TABLE(), TABLE(c2_) };
static const struct clientfn *C = &clients[0];
static int slot;	/* server slot of the running session */

/* ---------- simulated clock ---------- */
static long long now_ms = 1700000000LL * 1000;

time_t __wrap_time(time_t *t)
{
	time_t v = (time_t) (now_ms / 1000);
	if (t) *t = v;
	return v;
}

unsigned int __wrap_sleep(unsigned int s)
{
	now_ms += 1000LL * s;
	return 0;
}

/* rand(): client (start values of its ids) and server (login seed, start of
   each fragment size probe's byte sequence) - own generator, so that a run
   is the same on every libc */
static uint32_t rstate = 1;
void __wrap_srand(unsigned int s) { rstate = s * 2654435761u + 12345u; if (!rstate) rstate = 1; }
int __wrap_rand(void)
{
	rstate ^= rstate << 13; rstate ^= rstate >> 17; rstate ^= rstate << 5;
	return (int) ((rstate >> 1) & 0x7fffffff);
}

/* ---------- datagram queues ---------- */
struct dgram {
	struct dgram *next;
	int len;
	unsigned char d[1];
};
static struct dgram *cli_in_head, *cli_in_tail;
static unsigned char srv_in[65536];
static int srv_in_len = -1;

static void cli_push(const unsigned char *p, int len)
{
	struct dgram *g = malloc(sizeof(*g) + len);
	g->next = NULL;
	g->len = len;
	memcpy(g->d, p, len);
	if (cli_in_tail) cli_in_tail->next = g; else cli_in_head = g;
	cli_in_tail = g;
}

static int cli_pop(void *buf, size_t cap)
{
	struct dgram *g = cli_in_head;
	int len;
	if (!g) return -1;
	cli_in_head = g->next;
	if (!cli_in_head) cli_in_tail = NULL;
	len = g->len < (int) cap ? g->len : (int) cap;
	memcpy(buf, g->d, len);
	free(g);
	return len;
}

/* ---------- relay model ---------- */
enum { CASE_KEEP, CASE_LOWER, CASE_UPPER, CASE_RANDOM };
enum { B8_CLEAN, B8_STRIP, B8_REJECT };
enum { P_KEEP, P_PLUS, P_USCORE };

struct side { int kase, b8, punct; };
static struct side Q, A;
static unsigned allowed = 0x7f;	/* bit i: type i of NULL,PRIVATE,TXT,SRV,MX,CNAME,A */
static int limit = 0;		/* 0 = none */
static int edns_honoured = 1;
static int oversize_servfail = 0;
static int refuse_rcode = 4;
static uint32_t prng = 2463534242u;
static unsigned char had_opt[65536];
static int verbose;
static long nqueries, nanswers, ndropped;

static uint32_t rnd(void)
{
	prng ^= prng << 13; prng ^= prng >> 17; prng ^= prng << 5;
	return prng;
}

static int xform(unsigned char *c, const struct side *s)
{
	if (*c >= 0x80) {
		if (s->b8 == B8_STRIP) *c &= 0x7f;
		else if (s->b8 == B8_REJECT) return 1;
	}
	if (s->punct == P_PLUS && *c == '+') *c = ' ';
	if (s->punct == P_USCORE && *c == '_') *c = '-';
	switch (s->kase) {
	case CASE_LOWER: if (*c >= 'A' && *c <= 'Z') *c += 32; break;
	case CASE_UPPER: if (*c >= 'a' && *c <= 'z') *c -= 32; break;
	case CASE_RANDOM:
		if ((*c >= 'A' && *c <= 'Z') || (*c >= 'a' && *c <= 'z')) {
			if (rnd() & 0x10000) *c ^= 0x20;
		}
		break;
	}
	return 0;
}

/* transforms the labels of the name at *pos in place; returns 1 on reject */
static int walk_name(unsigned char *pkt, int len, int *pos, const struct side *s)
{
	int p = *pos, rej = 0;
	while (p < len) {
		int l = pkt[p], i;
		if (l == 0) { p++; break; }
		if ((l & 0xc0) == 0xc0) { p += 2; break; }
		p++;
		for (i = 0; i < l && p + i < len; i++)
			rej |= xform(&pkt[p + i], s);
		p += l;
	}
	*pos = p;
	return rej;
}

static int type_index(int t)
{
	switch (t) {
	case 10: return 0;
	case 65399: return 1;
	case 16: return 2;
	case 33: return 3;
	case 15: return 4;
	case 5: return 5;
	case 1: return 6;
	}
	return -1;
}

static void error_reply(const unsigned char *q, int qlen, int qend, int rcode)
{
	unsigned char r[600];
	int n = qend < (int) sizeof(r) ? qend : (int) sizeof(r);
	(void) qlen;
	memcpy(r, q, n);
	r[2] = 0x81; r[3] = 0x80 | rcode;
	r[6] = r[7] = r[8] = r[9] = r[10] = r[11] = 0;
	cli_push(r, n);
}

static void relay_from_client(const unsigned char *buf, int len)
{
	unsigned char pkt[65536], orig[65536];
	int pos, type, idx, rej;
	unsigned id;

	if (len < 12 || len > (int) sizeof(pkt)) return;
	if (buf[0] == 0x10 && buf[1] == 0xd1 && buf[2] == 0x9e) return; /* raw UDP: no direct path */
	memcpy(pkt, buf, len);
	memcpy(orig, buf, len);
	id = (pkt[0] << 8) | pkt[1];
	pos = 12;
	rej = walk_name(pkt, len, &pos, &Q);
	if (pos + 4 > len) return;
	type = (pkt[pos] << 8) | pkt[pos + 1];
	nqueries++;
	idx = type_index(type);
	if (idx < 0 || !(allowed & (1u << idx))) {
		if (verbose > 1) fprintf(stdout, "relay: type %d refused\n", type);
		if (refuse_rcode >= 0)
			error_reply(orig, len, pos + 4, refuse_rcode);
		return;
	}
	if (rej) {
		if (verbose > 1) fprintf(stdout, "relay: 8-bit name refused\n");
		error_reply(orig, len, pos + 4, 2 /* SERVFAIL */);
		return;
	}
	had_opt[id] = ((pkt[10] << 8) | pkt[11]) > 0;
	memcpy(srv_in, pkt, len);
	srv_in_len = len;
	srv_iter(1);
	srv_in_len = -1;
}

static void relay_from_server(const unsigned char *buf, int len)
{
	unsigned char pkt[65536];
	int pos, i, an, qd, eff, rej = 0, qend;
	unsigned id;

	if (len < 12 || len > (int) sizeof(pkt)) return;
	memcpy(pkt, buf, len);
	id = (pkt[0] << 8) | pkt[1];
	qd = (pkt[4] << 8) | pkt[5];
	an = (pkt[6] << 8) | pkt[7];
	pos = 12;
	for (i = 0; i < qd; i++) {
		rej |= walk_name(pkt, len, &pos, &A);
		pos += 4;
	}
	qend = pos;
	for (i = 0; i < an && pos < len; i++) {
		int type, rdlen, rend;
		rej |= walk_name(pkt, len, &pos, &A);
		if (pos + 10 > len) break;
		type = (pkt[pos] << 8) | pkt[pos + 1];
		rdlen = (pkt[pos + 8] << 8) | pkt[pos + 9];
		pos += 10;
		rend = pos + rdlen;
		if (rend > len) break;
		if (type == 5) {
			rej |= walk_name(pkt, len, &pos, &A);
		} else if (type == 15) {
			pos += 2;
			rej |= walk_name(pkt, len, &pos, &A);
		} else if (type == 33) {
			pos += 6;
			rej |= walk_name(pkt, len, &pos, &A);
		} else if (type == 16) {
			while (pos < rend) {
				int l = pkt[pos++], k;
				for (k = 0; k < l && pos + k < rend; k++)
					rej |= xform(&pkt[pos + k], &A);
				pos += l;
			}
		}
		pos = rend;
	}
	nanswers++;
	if (had_opt[id] && edns_honoured)
		eff = limit ? limit : 4096;
	else
		eff = 512;
	if (len > eff || rej) {
		ndropped++;
		if (verbose > 1) fprintf(stdout, "relay: answer of %d bytes %s\n", len, rej ? "refused (8-bit)" : "over limit");
		if (oversize_servfail || rej)
			error_reply(pkt, len, qend, 2);
		return;
	}
	cli_push(pkt, len);
}

/* ---------- wrapped libc ---------- */
ssize_t __wrap_sendto(int fd, const void *buf, size_t len, int flags,
		      const struct sockaddr *to, socklen_t tolen)
{
	(void) flags; (void) to; (void) tolen;
	if (fd == CLI_DNS_FD)
		relay_from_client(buf, (int) len);
	else if (fd == SRV_DNS_FD)
		relay_from_server(buf, (int) len);
	return (ssize_t) len;
}

static void fill_from(struct sockaddr *from, socklen_t *fromlen, const char *ip, int port)
{
	struct sockaddr_in a;
	memset(&a, 0, sizeof(a));
	a.sin_family = AF_INET;
	a.sin_port = htons(port);
	a.sin_addr.s_addr = inet_addr(ip);
	if (from && fromlen && *fromlen >= sizeof(a)) {
		memcpy(from, &a, sizeof(a));
		*fromlen = sizeof(a);
	}
}

ssize_t __wrap_recvfrom(int fd, void *buf, size_t len, int flags,
			struct sockaddr *from, socklen_t *fromlen)
{
	(void) fd; (void) flags;
	fill_from(from, fromlen, "10.9.9.9", 53);
	return cli_pop(buf, len);
}

ssize_t __wrap_recv(int fd, void *buf, size_t len, int flags)
{
	(void) fd; (void) flags;
	return cli_pop(buf, len);
}

ssize_t __wrap_recvmsg(int fd, struct msghdr *msg, int flags)
{
	socklen_t nl;
	int n;
	(void) fd; (void) flags;
	if (srv_in_len < 0) return -1;
	n = srv_in_len;
	if ((size_t) n > msg->msg_iov[0].iov_len) n = (int) msg->msg_iov[0].iov_len;
	memcpy(msg->msg_iov[0].iov_base, srv_in, n);
	nl = msg->msg_namelen;
	fill_from(msg->msg_name, &nl, "10.9.9.9", 40000);
	msg->msg_namelen = nl;
	msg->msg_controllen = 0;
	srv_in_len = -1;
	return n;
}

int __wrap_tun_setip(const char *ip, const char *other, int bits)
{
	(void) ip; (void) other; (void) bits;
	return 0;
}

int __wrap_tun_setmtu(const unsigned mtu)
{
	(void) mtu;
	return 0;
}

/* ---------- traffic script ---------- */
struct plan { int down; int len; };
static struct plan plan[256];
static int nplan, cur;
enum { ST_HANDSHAKE, ST_IDLE, ST_UP_INJECT, ST_WAIT, ST_DONE };
static int state = ST_HANDSHAKE;
static unsigned char curpkt[70000];
static int curlen, delivered, corrupt, extra;
static long long deadline;
static int okcount, failcount;
static unsigned char srv_tun_pkt[70000];
static int srv_tun_len = -1;

static void make_packet(int down, int len, int serial)
{
	uint32_t s = 0x9e3779b9u * (serial + 1) + len;
	int i;
	memset(curpkt, 0, sizeof(curpkt));
	for (i = 24; i < len; i++) {
		s ^= s << 13; s ^= s >> 17; s ^= s << 5;
		curpkt[i] = (unsigned char) (s >> 8);
	}
	/* 4 bytes tun header, then an IPv4 header good enough for routing */
	curpkt[2] = 0x08;
	curpkt[4] = 0x45;
	curpkt[6] = (len - 4) >> 8; curpkt[7] = (len - 4) & 0xff;
	curpkt[12] = 64; curpkt[13] = 17;
	if (down) {
		unsigned ip = srv_tun_ip(slot);
		memcpy(&curpkt[16], "\012\000\000\001", 4);
		memcpy(&curpkt[20], &ip, 4);
	} else {
		unsigned ip = srv_tun_ip(slot);
		memcpy(&curpkt[16], &ip, 4);
		memcpy(&curpkt[20], "\012\000\000\001", 4);
	}
	curlen = len;
}

int __wrap_write_tun(int fd, char *data, size_t len)
{
	int want_fd = plan[cur].down ? CLI_TUN_FD : SRV_TUN_FD;
	if (state == ST_WAIT && fd == want_fd && !delivered) {
		if ((int) len == curlen && memcmp(data + 4, curpkt + 4, len - 4) == 0)
			delivered = 1;
		else
			corrupt++;
	} else {
		extra++;
	}
	return 0;
}

ssize_t __wrap_read_tun(int fd, char *buf, size_t len)
{
	if (fd == CLI_TUN_FD) {
		if (state != ST_UP_INJECT) return -1;
		memcpy(buf, curpkt, curlen);
		state = ST_WAIT;
		return curlen;
	}
	if (fd == SRV_TUN_FD) {
		int n = srv_tun_len;
		if (n < 0) return -1;
		memcpy(buf, srv_tun_pkt, n);
		srv_tun_len = -1;
		return n;
	}
	(void) len;
	return -1;
}

int __wrap_select(int nfds, fd_set *rd, fd_set *wr, fd_set *ex, struct timeval *tv)
{
	long long remain = tv ? (tv->tv_sec * 1000LL + tv->tv_usec / 1000) : 1000;
	int want_tun = rd && nfds > CLI_TUN_FD && FD_ISSET(CLI_TUN_FD, rd);
	(void) wr; (void) ex;

	for (;;) {
		if (cli_in_head) {
			FD_ZERO(rd);
			FD_SET(CLI_DNS_FD, rd);
			return 1;
		}
		if (state == ST_IDLE) {
			if (cur >= nplan) {
				state = ST_DONE;
				C->stop();
				FD_ZERO(rd);
				return 0;
			}
			make_packet(plan[cur].down, plan[cur].len, cur);
			delivered = 0;
			deadline = now_ms + 40000;
			if (plan[cur].down) {
				if (!srv_can_read_tun()) {
					/* server would not read its tun now */
				}
				memcpy(srv_tun_pkt, curpkt, curlen);
				srv_tun_len = curlen;
				state = ST_WAIT;
				srv_iter(2);
			} else {
				state = ST_UP_INJECT;
			}
			continue;
		}
		if (state == ST_UP_INJECT && want_tun) {
			FD_ZERO(rd);
			FD_SET(CLI_TUN_FD, rd);
			return 1;
		}
		if (state == ST_WAIT) {
			if (delivered || now_ms > deadline) {
				if (delivered) okcount++; else failcount++;
				printf("packet %2d %s %4d bytes: %s\n", cur,
				       plan[cur].down ? "down" : "up  ", plan[cur].len,
				       delivered ? "delivered intact" : "NOT DELIVERED");
				cur++;
				state = ST_IDLE;
				/* let things settle a little */
				continue;
			}
		}
		if (srv_realsoon_pending() && remain >= 20) {
			now_ms += 20;
			remain -= 20;
			srv_iter(0);
			continue;
		}
		now_ms += remain;
		if (rd) FD_ZERO(rd);
		return 0;
	}
}

/* ---------- main ---------- */
static int parse_side(const char *s, struct side *sd)
{
	/* e.g. "lower,strip,plus" */
	sd->kase = CASE_KEEP; sd->b8 = B8_CLEAN; sd->punct = P_KEEP;
	if (strstr(s, "lower")) sd->kase = CASE_LOWER;
	if (strstr(s, "upper")) sd->kase = CASE_UPPER;
	if (strstr(s, "random")) sd->kase = CASE_RANDOM;
	if (strstr(s, "strip")) sd->b8 = B8_STRIP;
	if (strstr(s, "reject")) sd->b8 = B8_REJECT;
	if (strstr(s, "plus")) sd->punct = P_PLUS;
	if (strstr(s, "uscore")) sd->punct = P_USCORE;
	return 0;
}

static int run_session(int k, int argc, char **argv, const char *topdomain)
{
	struct sockaddr_storage ns;
	struct sockaddr_in *ns4 = (struct sockaddr_in *) &ns;
	int i, rc, lazy = 1, raw = 0, fragsize = 0;
	int sizes_given = 0;
	char *qtype = NULL, *downenc = NULL;
	int maxlen = 255;
	static char pw[33];

	/* per-session defaults */
	memset(&Q, 0, sizeof(Q)); memset(&A, 0, sizeof(A));
	allowed = 0x7f; limit = 0; edns_honoured = 1; oversize_servfail = 0; refuse_rcode = 4;
	nplan = 0; cur = 0; okcount = failcount = corrupt = extra = 0;
	nqueries = nanswers = ndropped = 0;
	state = ST_HANDSHAKE;
	C = &clients[k];

	for (i = 0; i < argc; i++) {
		char *a = argv[i];
		if (!strncmp(a, "q=", 2)) parse_side(a + 2, &Q);
		else if (!strncmp(a, "a=", 2)) parse_side(a + 2, &A);
		else if (!strncmp(a, "types=", 6)) allowed = strtoul(a + 6, NULL, 0);
		else if (!strncmp(a, "limit=", 6)) limit = atoi(a + 6);
		else if (!strncmp(a, "edns=", 5)) edns_honoured = atoi(a + 5);
		else if (!strncmp(a, "refuse=", 7)) refuse_rcode = atoi(a + 7);
		else if (!strncmp(a, "servfail=", 9)) oversize_servfail = atoi(a + 9);
		else if (!strncmp(a, "T=", 2)) qtype = a + 2;
		else if (!strncmp(a, "O=", 2)) downenc = a + 2;
		else if (!strncmp(a, "L=", 2)) lazy = atoi(a + 2);
		else if (!strncmp(a, "m=", 2)) fragsize = atoi(a + 2);
		else if (!strncmp(a, "raw=", 4)) raw = atoi(a + 4);
		else if (!strncmp(a, "M=", 2)) maxlen = atoi(a + 2);
		else if (!strncmp(a, "up=", 3)) { plan[nplan].down = 0; plan[nplan++].len = atoi(a + 3); sizes_given = 1; }
		else if (!strncmp(a, "down=", 5)) { plan[nplan].down = 1; plan[nplan++].len = atoi(a + 5); sizes_given = 1; }
		else if (!strncmp(a, "seed=", 5) || !strncmp(a, "c=", 2) || !strncmp(a, "td=", 3) || !strncmp(a, "v=", 2)) ;
		else { fprintf(stderr, "bad arg %s\n", a); exit(2); }
	}
	if (!sizes_given) {
		static const int sz[] = { 28, 60, 100, 333, 700, 1134 };
		for (i = 0; i < 6; i++) {
			plan[nplan].down = 0; plan[nplan++].len = sz[i];
			plan[nplan].down = 1; plan[nplan++].len = sz[i];
		}
	}

	C->init();
	memset(&ns, 0, sizeof(ns));
	ns4->sin_family = AF_INET;
	ns4->sin_port = htons(53);
	ns4->sin_addr.s_addr = inet_addr("10.9.9.9");
	C->set_nameserver(&ns, sizeof(*ns4));
	C->set_selecttimeout(lazy ? 4 : 1);
	C->set_lazymode(lazy);
	C->set_topdomain(topdomain);
	C->set_hostname_maxlen(maxlen);
	strcpy(pw, "secret");
	C->set_password(pw);
	if (qtype && C->set_qtype(qtype)) { fprintf(stderr, "bad T\n"); exit(2); }
	if (downenc) C->set_downenc(downenc);

	rc = C->handshake(CLI_DNS_FD, raw, fragsize == 0, fragsize ? fragsize : 3072);
	slot = srv_latest_user();
	printf("session %d: handshake rc=%d type=%s; server slot %d: up=%s down=%c fragsize=%d lazy=%d (queries %ld, answers %ld, dropped %ld, sim time %llds)\n",
	       k + 1, rc, C->get_qtype(), slot, srv_upenc(slot), srv_downenc(slot) ? srv_downenc(slot) : '0', srv_fragsize(slot), srv_lazy(slot),
	       nqueries, nanswers, ndropped, (now_ms - 1700000000LL * 1000) / 1000);
	if (rc) {
		printf("RESULT session %d handshake-failed\n", k + 1);
		return 3;
	}
	state = ST_IDLE;
	C->tunnel(CLI_TUN_FD, CLI_DNS_FD);
	printf("RESULT session %d ok=%d lost=%d corrupt-writes=%d extra-writes=%d\n", k + 1, okcount, failcount, corrupt, extra);
	return (failcount || corrupt) ? 1 : 0;
}

int main(int argc, char **argv)
{
	const char *topdomain = "t.example.com";
	int i, seed = 1, checkip = 1, rc = 0, start, k = 0;

	setvbuf(stdout, NULL, _IOLBF, 0);
	for (i = 1; i < argc; i++) {
		if (!strncmp(argv[i], "seed=", 5)) seed = atoi(argv[i] + 5);
		else if (!strncmp(argv[i], "c=", 2)) checkip = !atoi(argv[i] + 2);
		else if (!strncmp(argv[i], "td=", 3)) topdomain = argv[i] + 3;
		else if (!strncmp(argv[i], "v=", 2)) verbose = atoi(argv[i] + 2);
	}
	prng ^= (uint32_t) seed * 2654435761u;
	if (!prng) prng = 1;
	srand(seed);
	srv_setup(topdomain, "secret", checkip);

	/* sessions are separated by the word "next"; the second one starts
	   after the first has been silent for 70 simulated seconds */
	start = 1;
	for (i = 1; i <= argc; i++) {
		if (i == argc || !strcmp(argv[i], "next")) {
			int r;
			if (k >= 2) { fprintf(stderr, "at most two sessions\n"); return 2; }
			if (k > 0) now_ms += 70000;
			r = run_session(k, i - start, argv + start, topdomain);
			if (r > rc) rc = r;
			k++;
			start = i + 1;
		}
	}
	return rc;
}
