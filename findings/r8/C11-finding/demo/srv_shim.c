/* Server side of the harness: the real iodined.c, main() renamed, driven one
   select-loop iteration at a time. */
#define main iodined_main
#include SRV_C
#undef main

#include "shim.h"

static struct dnsfd h_fds = { SRV_DNS_FD, -1 };

void srv_setup(const char *td, const char *pw, int checkip)
{
	topdomain = strdup(td);
	memset(password, 0, sizeof(password));
	strncpy(password, pw, sizeof(password) - 1);
	check_ip = checkip;
	my_mtu = 1130;
	my_ip = inet_addr("10.0.0.1");
	netmask = 27;
	ns_ip = INADDR_ANY;
	bind_port = 0;
	debug = getenv("H_SRVDEBUG") ? atoi(getenv("H_SRVDEBUG")) : 0;
	running = 1;
	created_users = init_users(my_ip, netmask);
}

/* one iteration of tunnel()'s loop body; ev: 0 timeout, 1 dns readable, 2 tun readable */
void srv_iter(int ev)
{
	int userid;

	for (userid = 0; userid < created_users; userid++) {
		if (users[userid].active && !users[userid].disabled &&
		    users[userid].last_pkt + 60 >= time(NULL)) {
			users[userid].q_sendrealsoon_new = 0;
		}
	}
	if (ev == 2)
		tunnel_tun(SRV_TUN_FD, &h_fds);
	if (ev == 1)
		tunnel_dns(SRV_TUN_FD, SRV_DNS_FD, &h_fds, 0);

	for (userid = 0; userid < created_users; userid++)
		if (users[userid].active && !users[userid].disabled &&
		    users[userid].last_pkt + 60 >= time(NULL) &&
		    users[userid].q_sendrealsoon.id != 0 &&
		    users[userid].conn == CONN_DNS_NULL &&
		    !users[userid].q_sendrealsoon_new) {
			int dns_fd = get_dns_fd(&h_fds, &users[userid].q_sendrealsoon.from);
			send_chunk_or_dataless(dns_fd, userid, &users[userid].q_sendrealsoon);
		}
}

int srv_realsoon_pending(void)
{
	int userid;
	for (userid = 0; userid < created_users; userid++)
		if (users[userid].active && users[userid].q_sendrealsoon.id != 0)
			return 1;
	return 0;
}

int srv_can_read_tun(void) { return !all_users_waiting_to_send(); }
int srv_fragsize(int u) { return users[u].fragsize; }
char srv_downenc(int u) { return users[u].downenc; }
const char *srv_upenc(int u) { return users[u].encoder ? users[u].encoder->name : "?"; }
int srv_lazy(int u) { return users[u].lazy; }
unsigned srv_tun_ip(int u) { return users[u].tun_ip; }

int srv_latest_user(void)
{
	int u, best = 0;
	for (u = 0; u < created_users; u++)
		if (users[u].active && users[u].last_pkt > users[best].last_pkt)
			best = u;
	return best;
}
