#!/bin/sh
# usage: run.sh <source tree root>
# Forced "-T txt -O raw" through a relay that (a) folds query names to lower
# case, (b) rewrites '+' in the text of TXT answers and (c) drops answers over
# 512 bytes. Real client.c and real iodined.c in one process, simulated relay,
# simulated time; one process per run, the runs differ only in the seed of
# rand() (client's first query id, server's login seed and the start value of
# each fragment size probe's byte sequence).
# exit 1: property violated on this tree, 0: holds, 2: harness trouble
TREE=$1
[ -n "$TREE" ] && [ -f "$TREE/src/client.c" ] && [ -f "$TREE/src/iodined.c" ] || { echo "usage: $0 <source tree root>"; exit 2; }
TREE=$(cd "$TREE" && pwd)
HERE=$(cd "$(dirname "$0")" && pwd)
W=$(mktemp -d) || exit 2
trap 'rm -rf "$W"' EXIT
S=$TREE/src

build() {
	sed -e 's/\([Bb][Aa][Ss][Ee]64\)/\1u/g ; s/0123456789+/0123456789_/' < "$S/base64.c" > "$W/base64u.c" || return 1
	CF="-std=c99 -g -O1 -DLINUX -D_GNU_SOURCE -DGITREVISION=\"demo\" -I$S -I$HERE -w"
	for f in tun dns read encoding login base32 base64 base128 md5 common client util user fw_query; do
		cc $CF -c "$S/$f.c" -o "$W/$f.o" || return 1
	done
	cc $CF -c "$W/base64u.c" -o "$W/base64u.o" || return 1
	# second, independent copy of the client (not used by this demo, but main.c can run two sessions)
	nm -g --defined-only "$W/client.o" | awk '{print $3" c2_"$3}' > "$W/c2.syms" || return 1
	objcopy --redefine-syms="$W/c2.syms" "$W/client.o" "$W/client2.o" || return 1
	cc $CF -DSRV_C="\"$S/iodined.c\"" -c "$HERE/srv_shim.c" -o "$W/srv_shim.o" || return 1
	cc $CF -c "$HERE/main.c" -o "$W/main.o" || return 1
	WR=""
	for s in rand srand time sleep sendto recvfrom recv recvmsg select tun_setip tun_setmtu read_tun write_tun; do WR="$WR -Wl,--wrap=$s"; done
	cc -o "$W/h" "$W"/*.o $WR -lz || return 1
}
build > "$W/build.log" 2>&1 || { cat "$W/build.log"; echo "harness: build failed"; exit 2; }

# Sanity: on a clean path the forced Raw codec is accepted and works.
out=$("$W/h" seed=1 T=txt O=raw down=661 down=900 up=700 2>/dev/null); rc=$?
echo "$out" | grep -q "down=R" && [ $rc -eq 0 ] || { echo "$out"; echo "harness: clean path run did not behave (rc=$rc)"; exit 2; }

RELAY="q=lower a=keep,clean,plus limit=512 edns=1"
N=700
s=1
while [ $s -le $N ]; do
	out=$("$W/h" seed=$s $RELAY T=txt O=raw down=661 down=900 up=700 2>"$W/err.txt"); rc=$?
	case $rc in
	0) ;;
	1|3)
		echo "seed $s, relay: query names lower-cased, '+' in TXT answer text rewritten, answers over 512 bytes dropped; client: -T txt -O raw"
		grep -a "Autoprobing\|ok\.\.\|codec" "$W/err.txt"
		echo "$out"
		if [ $rc -eq 1 ]; then
			echo "VIOLATED: the handshake completed with downstream codec Raw, which this path damages: downstream packets are not delivered"
		else
			echo "VIOLATED: negotiation failed on a path that passes Base32"
		fi
		exit 1 ;;
	*) echo "$out"; cat "$W/err.txt"; echo "harness: run with seed $s ended with rc=$rc"; exit 2 ;;
	esac
	s=$((s + 1))
done
echo "property holds: $N handshakes with -T txt -O raw through the '+'-rewriting, 512-byte relay, none settled on a codec the path damages; all packets delivered"
exit 0
