#!/bin/sh
# usage: run.sh <source tree root>
#
# Builds the real iodine client and server from <tree>/src together with the
# mini-simulator in this directory (into a mktemp -d directory, nothing is
# written into the tree) and plays two histories in virtual time:
#
#   A. default options (-T NULL, lazy mode). The path loses every datagram from
#      the client to the server for 27 s, during which 5 packets arrive on the
#      client's tun (the client gives each of them up after its 3 resends).
#      Then the path is perfect. 90 s LATER a packet is offered on the client's
#      tun every 30 s.
#   B. the same with directions swapped: the path loses every datagram from the
#      server to the client for 27 s while 5 packets arrive on the server's tun.
#
# Property C02 wants packets offered after the trouble to be delivered again
# within a bounded time. Exit 1 = violated (packets offered 90 s and more after
# the path became perfect were accepted and never delivered), 0 = holds,
# 2 = harness trouble.

T=$1
[ -n "$T" ] && [ -d "$T/src" ] || { echo "usage: $0 <source tree root>" >&2; exit 2; }
T=$(cd "$T" && pwd)
H=$(cd "$(dirname "$0")" && pwd)
D=$(mktemp -d) || exit 2
trap 'rm -rf "$D"' EXIT

build() {
	sed -e 's/\([Bb][Aa][Ss][Ee]64\)/\1u/g ; s/0123456789+/0123456789_/' < "$T/src/base64.c" > "$D/base64u.c" || return 1
	CF="-std=gnu99 -g -O1 -w -DLINUX -D_GNU_SOURCE -DGITREVISION=\"demo\" -I$T/src -I$H"
	for f in tun dns read encoding login base32 base64 base128 md5 common user fw_query; do
		gcc $CF -c "$T/src/$f.c" -o "$D/$f.o" || return 1
	done
	gcc $CF -c "$D/base64u.c" -o "$D/base64u.o" || return 1
	for f in cli srv sim; do
		gcc $CF -c "$H/$f.c" -o "$D/$f.o" || return 1
	done
	gcc -o "$D/sim" "$D"/*.o \
		-Wl,--wrap=select,--wrap=time,--wrap=sleep,--wrap=system,--wrap=syslog,--wrap=openlog \
		-Wl,--wrap=sendto,--wrap=recvfrom,--wrap=recv,--wrap=recvmsg,--wrap=read,--wrap=write \
		-lz -lm || return 1
}
build > "$D/build.log" 2>&1 || { cat "$D/build.log" >&2; echo "HARNESS: build failed" >&2; exit 2; }

# offers: side:milliseconds after the tunnel is up:size:percent incompressible
offers() {
	s=$1
	echo "$s:500:100:100,$s:2000:100:100,$s:7000:100:100,$s:12000:100:100,$s:17000:100:100,$s:22000:100:100,$s:120000:100:100,$s:150000:100:100,$s:180000:100:100,$s:210000:100:100,$s:240000:100:100,$s:270000:100:100"
}

bad=0
for dir in 1 2; do
	if [ $dir = 1 ]; then s=c; what="client -> server"; else s=s; what="server -> client"; fi
	echo "=== history: all datagrams $what are lost from t=1.5 s to t=28.5 s; then the path is perfect ==="
	# faultat/faultlen: seconds after the tunnel is up; settle=60: judge only packets offered more than
	# 60 s after the path became perfect
	"$D/sim" quiet=1 trace=1 latency=1000 faultat=1 faultlen=27 pdrop=1.0 dropdir=$dir settle=60 \
		offers=$(offers $s) dur=300 > "$D/out.$dir" 2>&1
	rc=$?
	grep -E " (OFFER|DELIVER) |LOST|->(server|client):|PROGRAM EXITED|VERDICT|HARNESS" "$D/out.$dir"
	case $rc in
	0) ;;
	1) bad=1 ;;
	*) echo "HARNESS: simulator failed (status $rc)" >&2; exit 2 ;;
	esac
done

if [ $bad = 1 ]; then
	echo "VIOLATED (C02, recovery): packets offered 90 s and more after the path became perfect again were accepted from tun and never written to the peer's tun; delivery only came back after several more packets had been sacrificed, however long one waited."
	exit 1
fi
echo "C02 holds on these histories: every packet offered after the trouble was delivered."
exit 0
