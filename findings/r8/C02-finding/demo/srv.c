/* The real server: src/iodined.c is compiled into this unit unchanged (main()
 * renamed, never called); srv_entry() does what main() does after option
 * parsing and then runs the real tunnel() loop. */
#define main iodined_main
#include "iodined.c"
#undef main
#include "sim.h"
void srv_entry(void)
{
	struct dnsfd fds;
	topdomain = strdup(cfg.topdomain);
	memset(password, 0, sizeof(password)); strcpy(password, "secret");
	check_ip = cfg.check_ip;
	my_mtu = cfg.mtu;
	my_ip = inet_addr("10.0.0.1");
	netmask = 27;
	debug = cfg.srv_debug;
	ns_ip = INADDR_ANY;
	fw_query_init();
	created_users = init_users(my_ip, netmask);
	fds.v4fd = SRV_DNS;
	fds.v6fd = -1;
	running = 1;
	tunnel(SRV_TUN, &fds, 0, 0);
	srv_exited = 1;
}
void srv_peek(char *buf, int len)
{
	struct tun_user *u = &users[0];
	snprintf(buf, len, "S[out %d/%d len%d off%d sent%d resent%d q%d | in %d/%d len%d | qid%d rs%d lazy%d conn%d frag%d]",
		u->outpacket.seqno, u->outpacket.fragment, u->outpacket.len, u->outpacket.offset, u->outpacket.sentlen, u->outfragresent, u->outpacketq_filled,
		u->inpacket.seqno, u->inpacket.fragment, u->inpacket.len, u->q.id, u->q_sendrealsoon.id, u->lazy, u->conn, u->fragsize);
}
