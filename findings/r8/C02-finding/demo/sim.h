#ifndef SIM_H
#define SIM_H
#include <stdint.h>
struct simcfg {
	const char *qtype;      /* NULL = autodetect */
	const char *downenc;    /* NULL = autodetect */
	int lazy;
	int interval;
	int maxlen;
	int raw;
	int autofrag;
	int fragsize;
	const char *topdomain;
	int mtu;
	int check_ip;
	int srv_debug;
	long latency_us;
};
extern struct simcfg cfg;
extern int cli_handshake_done;   /* 1 ok, -1 failed */
extern int cli_exited, srv_exited;
void cli_entry(void);
void srv_entry(void);
#define CLI_TUN 100
#define CLI_DNS 101
#define SRV_TUN 200
#define SRV_DNS 201
#define CLI_IP "10.9.0.2"
#define SRV_IP "10.9.0.1"
/* state peeks */
void cli_peek(char *buf, int len);
void srv_peek(char *buf, int len);
#endif
