#!/bin/sh
# usage: run.sh <source tree root>
# exit 0: property holds on this tree, 1: violated, 2: harness trouble
tree=$1
if [ -z "$tree" ] || [ ! -f "$tree/src/iodined.c" ]; then
	echo "usage: $0 <source tree root>" >&2
	exit 2
fi
here=$(cd "$(dirname "$0")" && pwd)
tmp=$(mktemp -d) || exit 2
trap 'rm -rf "$tmp"' EXIT

cp "$tree"/src/*.c "$tree"/src/*.h "$tmp"/ || exit 2
cp "$here"/harness.h "$here"/scenario.c "$tmp"/ || exit 2
cd "$tmp" || exit 2

# as src/Makefile does
{ echo '/* produced from base64.c */'
  sed -e 's/\([Bb][Aa][Ss][Ee]64\)/\1u/g ; s/0123456789+/0123456789_/' < base64.c
} > base64u.c || exit 2

${CC:-cc} -std=gnu99 -O0 -g -w -U_FORTIFY_SOURCE -DLINUX -D_GNU_SOURCE \
	-DGITREVISION='"demo"' -I. -o demo \
	scenario.c user.c fw_query.c tun.c dns.c read.c encoding.c login.c \
	base32.c base64.c base64u.c base128.c md5.c common.c \
	-Wl,--wrap=time,--wrap=recvmsg,--wrap=sendto,--wrap=read,--wrap=write,--wrap=syslog \
	-lz > build.log 2>&1
if [ $? -ne 0 ]; then
	cat build.log >&2
	echo "harness: build failed" >&2
	exit 2
fi

./demo
rc=$?
case $rc in
0|1) exit $rc ;;
*) echo "harness trouble (exit $rc)" >&2; exit 2 ;;
esac
