/*
 * C04 finding: a packet read from the server's tun device that is not an IPv4
 * packet is routed by whatever octets lie where an IPv4 header would have its
 * destination address.
 *
 * exit 0: property holds, 1: violated, 2: harness trouble
 */
#include "harness.h"

int main(void)
{
	struct sockaddr_storage alice;
	char frame[2048];
	char got[65536];
	int len, n, uid;

	H_setup("10.0.0.1", 27, "secret");
	H_addr4(&alice, "192.0.2.10", 40000);

	uid = H_handshake(&alice, "secret");
	if (uid != 0) {
		fprintf(stderr, "harness: handshake failed\n");
		return 2;
	}
	/* slot 0 was assigned tunnel address 10.0.0.2 */
	if (users[0].tun_ip != inet_addr("10.0.0.2"))
		return 2;

	/* Sanity 1: an IPv4 packet for 10.0.0.2 reaches session 0 */
	len = H_ipv4_packet(frame, "10.0.0.1", "10.0.0.2", 30);
	H_tun_packet(frame, len);
	n = H_fetch_downstream(&alice, 0, got, sizeof(got));
	if (n != len || memcmp(got, frame, len)) {
		fprintf(stderr, "harness: IPv4 packet for 10.0.0.2 was not delivered (%d)\n", n);
		return 2;
	}
	printf("ok: IPv4 packet for 10.0.0.2 delivered to session 0 at 192.0.2.10\n");

	/* Sanity 2: an IPv4 packet for an address no session holds is dropped */
	len = H_ipv4_packet(frame, "10.0.0.1", "10.0.0.9", 30);
	H_tun_packet(frame, len);
	n = H_fetch_downstream(&alice, 0, got, sizeof(got));
	if (n != 0) {
		fprintf(stderr, "harness: packet for 10.0.0.9 was not dropped\n");
		return 2;
	}
	printf("ok: IPv4 packet for 10.0.0.9 (nobody) dropped\n");

	/*
	 * Now the kernel hands the server an IPv6 packet on the same tun device:
	 * a router solicitation, as Linux sends on every interface that comes up,
	 *   fe80::a00:2:c0de:1 -> ff02::2
	 * Octets 8..11 of the IPv6 source address (the start of the interface
	 * identifier) lie at offset 16 of the IP header, where an IPv4 header
	 * has ip_dst. Here they read 0a 00 00 02.
	 */
	memset(frame, 0, sizeof(frame));
	frame[2] = (char) 0x86;		/* tun header: ETH_P_IPV6 */
	frame[3] = (char) 0xdd;
	{
		unsigned char *h = (unsigned char *) frame + 4;
		h[0] = 0x60;			/* version 6 */
		h[4] = 0; h[5] = 8;		/* payload length */
		h[6] = 58;			/* ICMPv6 */
		h[7] = 255;			/* hop limit */
		if (inet_pton(AF_INET6, "fe80::a00:2:c0de:1", h + 8) != 1 ||
		    inet_pton(AF_INET6, "ff02::2", h + 24) != 1)
			return 2;
		h[40] = 133;			/* router solicitation */
	}
	len = 4 + 40 + 8;
	H_tun_packet(frame, len);
	n = H_fetch_downstream(&alice, 0, got, sizeof(got));
	if (n == 0) {
		printf("ok: IPv6 packet fe80::a00:2:c0de:1 -> ff02::2 dropped\n");
		printf("PROPERTY HOLDS\n");
		return 0;
	}
	if (n != len || memcmp(got, frame, len))
		return 2;
	printf("VIOLATED: the IPv6 packet fe80::a00:2:c0de:1 -> ff02::2 (version nibble %d, "
	       "tun protocol 0x%02x%02x) read from tun was sent to session 0 at 192.0.2.10 "
	       "as tunnel payload, although it is not a packet for tunnel address 10.0.0.2 "
	       "(it has no IPv4 destination at all): octets 8..11 of its source address "
	       "were read as ip_dst\n",
	       (got[4] >> 4) & 15, got[2] & 0xff, got[3] & 0xff);
	return 1;
}
