/*
 * Deterministic harness around the REAL iodined code.
 *
 * iodined.c is #included (main renamed), so its static functions
 * tunnel_dns(), tunnel_tun() etc. are called directly, exactly as tunnel()
 * calls them from its select loop. The other objects of the server (user.c,
 * dns.c, tun.c, ...) are linked unchanged. The only things replaced are libc
 * calls, with -Wl,--wrap: recvmsg (datagrams we feed in), sendto (datagrams
 * the server sends; recorded), read/write on the tun fd, time(), syslog().
 * No tun device, no sockets, no sleeping.
 */
#define main iodined_main
#include "iodined.c"
#undef main

#include <stdarg.h>

#define TUN_FD 100
#define V4_FD  101
#define V6_FD  102

#define HARNESS_TROUBLE 2

static struct dnsfd H_fds = { V4_FD, V6_FD };

/* ---- time ---- */
static time_t H_now = 1700000000;
time_t __wrap_time(time_t *t);
time_t __wrap_time(time_t *t)
{
	if (t)
		*t = H_now;
	return H_now;
}

/* ---- syslog ---- */
void __wrap_syslog(int pri, const char *fmt, ...);
void __wrap_syslog(int pri, const char *fmt, ...)
{
	(void) pri; (void) fmt;
}

/* ---- datagram in ---- */
static char H_in[65536];
static int H_inlen;
static struct sockaddr_storage H_infrom;
static socklen_t H_infromlen;

ssize_t __wrap_recvmsg(int fd, struct msghdr *msg, int flags);
ssize_t __wrap_recvmsg(int fd, struct msghdr *msg, int flags)
{
	(void) fd; (void) flags;
	if (H_inlen <= 0)
		return -1;
	memcpy(msg->msg_iov[0].iov_base, H_in, H_inlen);
	memset(msg->msg_name, 0, sizeof(struct sockaddr_storage));
	memcpy(msg->msg_name, &H_infrom, H_infromlen);
	msg->msg_namelen = H_infromlen;
	msg->msg_controllen = 0;
	return H_inlen;
}

/* ---- datagrams out ---- */
struct H_sent {
	int fd;
	char data[65536];
	int len;
	struct sockaddr_storage to;
};
#define H_MAXSENT 32
static struct H_sent H_sent[H_MAXSENT];
static int H_nsent;

ssize_t __wrap_sendto(int fd, const void *buf, size_t len, int flags,
		      const struct sockaddr *to, socklen_t tolen);
ssize_t __wrap_sendto(int fd, const void *buf, size_t len, int flags,
		      const struct sockaddr *to, socklen_t tolen)
{
	(void) flags;
	if (H_nsent >= H_MAXSENT || len > sizeof(H_sent[0].data)) {
		fprintf(stderr, "harness: too many/too large datagrams\n");
		exit(HARNESS_TROUBLE);
	}
	H_sent[H_nsent].fd = fd;
	memcpy(H_sent[H_nsent].data, buf, len);
	H_sent[H_nsent].len = len;
	memset(&H_sent[H_nsent].to, 0, sizeof(struct sockaddr_storage));
	memcpy(&H_sent[H_nsent].to, to, MIN(tolen, sizeof(struct sockaddr_storage)));
	H_nsent++;
	return len;
}

/* ---- tun ---- */
static char H_tunin[65536];
static int H_tuninlen;
static char H_tunout[65536];
static int H_tunoutlen;
static int H_tunwrites;

ssize_t __real_read(int fd, void *buf, size_t n);
ssize_t __wrap_read(int fd, void *buf, size_t n);
ssize_t __wrap_read(int fd, void *buf, size_t n)
{
	if (fd != TUN_FD)
		return __real_read(fd, buf, n);
	if ((size_t) H_tuninlen > n)
		exit(HARNESS_TROUBLE);
	memcpy(buf, H_tunin, H_tuninlen);
	return H_tuninlen;
}

ssize_t __real_write(int fd, const void *buf, size_t n);
ssize_t __wrap_write(int fd, const void *buf, size_t n);
ssize_t __wrap_write(int fd, const void *buf, size_t n)
{
	if (fd != TUN_FD)
		return __real_write(fd, buf, n);
	memcpy(H_tunout, buf, MIN(n, sizeof(H_tunout)));
	H_tunoutlen = n;
	H_tunwrites++;
	return n;
}

/* ---- set-up: what main() does before tunnel() ---- */
static void H_setup(const char *server_ip, int bits, const char *pass)
{
	topdomain = strdup("t.example");
	memset(password, 0, sizeof(password));
	strncpy(password, pass, sizeof(password) - 1);
	check_ip = 1;			/* the default: no -c */
	my_mtu = 1130;
	my_ip = inet_addr(server_ip);
	netmask = bits;
	ns_ip = INADDR_ANY;
	debug = 0;
	fw_query_init();
	created_users = init_users(my_ip, netmask);
}

static void H_addr4(struct sockaddr_storage *ss, const char *ip, int port)
{
	struct sockaddr_in *a = (struct sockaddr_in *) ss;
	memset(ss, 0, sizeof(*ss));
	a->sin_family = AF_INET;
	a->sin_port = htons(port);
	a->sin_addr.s_addr = inet_addr(ip);
}

static void H_addr6(struct sockaddr_storage *ss, const char *ip, int port, unsigned scope)
{
	struct sockaddr_in6 *a = (struct sockaddr_in6 *) ss;
	memset(ss, 0, sizeof(*ss));
	a->sin6_family = AF_INET6;
	a->sin6_port = htons(port);
	if (inet_pton(AF_INET6, ip, &a->sin6_addr) != 1)
		exit(HARNESS_TROUBLE);
	a->sin6_scope_id = scope;
}

static int H_sameaddr(struct sockaddr_storage *x, struct sockaddr_storage *y)
{
	if (x->ss_family != y->ss_family)
		return 0;
	if (x->ss_family == AF_INET) {
		struct sockaddr_in *a = (struct sockaddr_in *) x, *b = (struct sockaddr_in *) y;
		return a->sin_port == b->sin_port && a->sin_addr.s_addr == b->sin_addr.s_addr;
	} else {
		struct sockaddr_in6 *a = (struct sockaddr_in6 *) x, *b = (struct sockaddr_in6 *) y;
		return a->sin6_port == b->sin6_port && a->sin6_scope_id == b->sin6_scope_id &&
			!memcmp(&a->sin6_addr, &b->sin6_addr, 16);
	}
}

static unsigned short H_qid = 100;

/* One datagram arrives on the server's DNS socket: a NULL-type query for
   <hostname>. The server handles it with tunnel_dns(), as in tunnel(). */
static void H_query(struct sockaddr_storage *from, const char *hostname)
{
	struct query q;
	int fd = (from->ss_family == AF_INET6) ? V6_FD : V4_FD;

	memset(&q, 0, sizeof(q));
	q.id = ++H_qid;
	q.type = T_NULL;
	H_inlen = dns_encode(H_in, sizeof(H_in), &q, QR_QUERY, hostname, strlen(hostname));
	if (H_inlen < 1)
		exit(HARNESS_TROUBLE);
	H_infrom = *from;
	H_infromlen = (from->ss_family == AF_INET6) ? sizeof(struct sockaddr_in6)
						    : sizeof(struct sockaddr_in);
	H_nsent = 0;
	tunnel_dns(TUN_FD, fd, &H_fds, 0);
}

/* Request <cmd><base32 of data>.<topdomain>, as the client's send_packet() */
static void H_request(struct sockaddr_storage *from, char cmd, const char *data, int datalen)
{
	char buf[512];

	buf[0] = cmd;
	build_hostname(buf + 1, sizeof(buf) - 1, data, datalen, topdomain, &base32_ops, 0xFF);
	H_query(from, buf);
}

/* NULL-record payload of the i-th datagram the server sent for the last input */
static int H_answer(int i, char *out, int outsize)
{
	struct query q;

	if (i >= H_nsent)
		return -1;
	memset(&q, 0, sizeof(q));
	return dns_decode(out, outsize, &q, QR_ANSWER, H_sent[i].data, H_sent[i].len);
}

static int H_is_badip(int i)
{
	char a[4096];
	int n = H_answer(i, a, sizeof(a));
	return n == 5 && !memcmp(a, "BADIP", 5);
}

static int H_seed;	/* seed of the last successful H_handshake() */

/* Version + login, as the client does. Returns the userid, or -1. */
static int H_handshake(struct sockaddr_storage *from, const char *pass)
{
	static int cmc = 1;
	char data[32];
	char a[4096];
	char passbuf[33];
	int n, userid, seed;

	data[0] = (PROTOCOL_VERSION >> 24) & 0xff;
	data[1] = (PROTOCOL_VERSION >> 16) & 0xff;
	data[2] = (PROTOCOL_VERSION >> 8) & 0xff;
	data[3] = PROTOCOL_VERSION & 0xff;
	data[4] = (cmc >> 8) & 0xff;
	data[5] = cmc & 0xff;
	cmc++;
	H_request(from, 'v', data, 6);
	n = H_answer(0, a, sizeof(a));
	if (n != 9 || memcmp(a, "VACK", 4))
		return -1;
	seed = (int) (((unsigned) (a[4] & 0xff) << 24) | ((a[5] & 0xff) << 16) |
		      ((a[6] & 0xff) << 8) | (a[7] & 0xff));
	userid = a[8] & 0xff;

	memset(passbuf, 0, sizeof(passbuf));
	strncpy(passbuf, pass, 32);
	memset(data, 0, sizeof(data));
	data[0] = userid;
	login_calculate(data + 1, 16, passbuf, seed);
	data[17] = (cmc >> 8) & 0xff;
	data[18] = cmc & 0xff;
	cmc++;
	H_request(from, 'l', data, 19);
	n = H_answer(0, a, sizeof(a));
	if (n < 7 || !memcmp(a, "LNAK", 4) || !memcmp(a, "BADIP", 5))
		return -1;
	H_seed = seed;
	return userid;
}

/* A raw-mode datagram (header 10 d1 9e, then command|userid) arrives */
static void H_raw(struct sockaddr_storage *from, int cmd, int userid,
		  const char *data, int datalen)
{
	int fd = (from->ss_family == AF_INET6) ? V6_FD : V4_FD;

	memcpy(H_in, raw_header, RAW_HDR_LEN);
	H_in[RAW_HDR_CMD] = cmd | (userid & 0x0F);
	if (datalen)
		memcpy(H_in + RAW_HDR_LEN, data, datalen);
	H_inlen = RAW_HDR_LEN + datalen;
	H_infrom = *from;
	H_infromlen = (from->ss_family == AF_INET6) ? sizeof(struct sockaddr_in6)
						    : sizeof(struct sockaddr_in);
	H_nsent = 0;
	tunnel_dns(TUN_FD, fd, &H_fds, 0);
}

/* Raw login of <userid> with the seed of its handshake; 1 if the server
   answered it with the right hash, to <from> */
static int H_raw_login(struct sockaddr_storage *from, int userid, const char *pass, int seed)
{
	char passbuf[33];
	char hash[16], expect[16];

	memset(passbuf, 0, sizeof(passbuf));
	strncpy(passbuf, pass, 32);
	login_calculate(hash, 16, passbuf, (int) ((unsigned) seed + 1u));
	login_calculate(expect, 16, passbuf, (int) ((unsigned) seed - 1u));
	H_raw(from, RAW_HDR_CMD_LOGIN, userid, hash, 16);
	if (H_nsent < 1)
		return 0;
	return H_sent[H_nsent - 1].len == RAW_HDR_LEN + 16 &&
		!memcmp(H_sent[H_nsent - 1].data, raw_header, RAW_HDR_IDENT_LEN) &&
		(H_sent[H_nsent - 1].data[RAW_HDR_CMD] & 0xff) == (RAW_HDR_CMD_LOGIN | userid) &&
		!memcmp(H_sent[H_nsent - 1].data + RAW_HDR_LEN, expect, 16) &&
		H_sameaddr(&H_sent[H_nsent - 1].to, from);
}

/* Is the i-th datagram sent a raw data frame for <userid> to <to> that
   carries (compressed) exactly <pkt>? */
static int H_is_raw_data(int i, struct sockaddr_storage *to, int userid,
			 const char *pkt, int pktlen)
{
	char out[65536];
	unsigned long outlen = sizeof(out);

	if (i >= H_nsent || H_sent[i].len <= RAW_HDR_LEN)
		return 0;
	if (memcmp(H_sent[i].data, raw_header, RAW_HDR_IDENT_LEN) ||
	    (H_sent[i].data[RAW_HDR_CMD] & 0xff) != (RAW_HDR_CMD_DATA | userid))
		return 0;
	if (!H_sameaddr(&H_sent[i].to, to))
		return 0;
	if (uncompress((uint8_t *) out, &outlen, (uint8_t *) H_sent[i].data + RAW_HDR_LEN,
		       H_sent[i].len - RAW_HDR_LEN) != Z_OK)
		return 0;
	return (int) outlen == pktlen && !memcmp(out, pkt, pktlen);
}

/* DNS-mode ping of <userid>, acknowledging downstream seq/frag */
static void H_ping(struct sockaddr_storage *from, int userid, int dn_seq, int dn_frag)
{
	static int cmc = 0x4000;
	char data[4];

	data[0] = userid;
	data[1] = ((dn_seq & 7) << 4) | (dn_frag & 15);
	data[2] = (cmc >> 8) & 0xff;
	data[3] = cmc & 0xff;
	cmc++;
	H_request(from, 'p', data, 4);
}

/* A packet arrives on the server's tun device */
static void H_tun_packet(const char *pkt, int len)
{
	memcpy(H_tunin, pkt, len);
	H_tuninlen = len;
	H_nsent = 0;
	tunnel_tun(TUN_FD, &H_fds);
}

/*
 * Poll with pings from <from> as session <userid> until a whole downstream
 * packet has been received (the client's side of the downstream protocol), and
 * uncompress it. Returns its length, 0 if the server has nothing for this
 * session, -1 if the server refused the ping (BADIP). Checks that every
 * answer went back to <from>.
 */
static int H_fetch_downstream(struct sockaddr_storage *from, int userid,
			      char *pkt, int pktsize)
{
	int ackseq = 0, ackfrag = 0;	/* nothing received yet */
	char z[65536];
	int zlen = 0;
	int round;

	for (round = 0; round < 64; round++) {
		char a[4096];
		int n, i, seq, frag, last;

		H_ping(from, userid, ackseq, ackfrag);
		if (H_nsent < 1)
			exit(HARNESS_TROUBLE);
		if (H_is_badip(0))
			return -1;
		/* immediate mode: the answer to this ping is the last datagram */
		i = H_nsent - 1;
		if (!H_sameaddr(&H_sent[i].to, from))
			exit(HARNESS_TROUBLE);
		n = H_answer(i, a, sizeof(a));
		if (n < 2)
			exit(HARNESS_TROUBLE);
		if (n == 2)
			return 0;	/* dataless */
		seq = (a[1] >> 5) & 7;
		frag = (a[1] >> 1) & 15;
		last = a[1] & 1;
		memcpy(z + zlen, a + 2, n - 2);
		zlen += n - 2;
		ackseq = seq;
		ackfrag = frag;
		if (last) {
			unsigned long outlen = pktsize;
			if (uncompress((uint8_t *) pkt, &outlen, (uint8_t *) z, zlen) != Z_OK)
				exit(HARNESS_TROUBLE);
			/* tell the server we have it */
			H_ping(from, userid, ackseq, ackfrag);
			return (int) outlen;
		}
	}
	exit(HARNESS_TROUBLE);
}

/* tun frame: 4 octets Linux tun header + IPv4 header + payload */
static int H_ipv4_packet(char *buf, const char *src, const char *dst, int paylen)
{
	struct ip *h = (struct ip *) (buf + 4);
	int i;

	memset(buf, 0, 4 + sizeof(struct ip) + paylen);
	buf[2] = 0x08;	/* ETH_P_IP */
	buf[3] = 0x00;
	h->ip_v = 4;
	h->ip_hl = 5;
	h->ip_len = htons(sizeof(struct ip) + paylen);
	h->ip_ttl = 64;
	h->ip_p = 17;
	h->ip_src.s_addr = inet_addr(src);
	h->ip_dst.s_addr = inet_addr(dst);
	for (i = 0; i < paylen; i++)
		buf[4 + sizeof(struct ip) + i] = 'A' + (i % 26);
	return 4 + sizeof(struct ip) + paylen;
}
