/* The real client: src/client.c is compiled into this unit unchanged, so that
 * the harness can start it and look at its static state. */
#include "client.c"
#include "sim.h"
#include <arpa/inet.h>
void cli_entry(void)
{
	struct sockaddr_storage ss;
	struct sockaddr_in *a = (struct sockaddr_in *) &ss;
	int r;
	memset(&ss, 0, sizeof(ss));
	a->sin_family = AF_INET;
	a->sin_port = htons(53);
	a->sin_addr.s_addr = inet_addr(SRV_IP);
	client_init();
	client_set_nameserver(&ss, sizeof(*a));
	client_set_topdomain(cfg.topdomain);
	{ static char pw[33]; strcpy(pw, "secret"); client_set_password(pw); }
	if (cfg.qtype) client_set_qtype((char *) cfg.qtype);
	if (cfg.downenc) client_set_downenc((char *) cfg.downenc);
	client_set_selecttimeout(cfg.interval);
	client_set_lazymode(cfg.lazy);
	client_set_hostname_maxlen(cfg.maxlen);
	r = client_handshake(CLI_DNS, cfg.raw, cfg.autofrag, cfg.fragsize);
	if (r) {
		cli_handshake_done = -1;
		cli_exited = 1;
		return;
	}
	cli_handshake_done = 1;
	client_tunnel(CLI_TUN, CLI_DNS);
	cli_exited = 1;
}
void cli_peek(char *buf, int len)
{
	snprintf(buf, len, "C[out %d/%d len%d off%d resent%d | in %d/%d len%d dlv%d | lazy%d sel%d sps%ld conn%d]",
		outpkt.seqno, outpkt.fragment, outpkt.len, outpkt.offset, outchunkresent,
		inpkt.seqno, inpkt.fragment, inpkt.len, inpkt_delivered, lazymode, selecttimeout, send_ping_soon, conn);
}
