/* Deterministic mini-simulator for iodine.
 *
 * The REAL client (client_handshake() + client_tunnel() from src/client.c) and
 * the REAL server (tunnel() from src/iodined.c) run as two coroutines in one
 * process. Everything they see of the outside world is replaced at link time
 * (-Wl,--wrap=...): select(), time(), sleep(), sendto(), recvfrom(), recv(),
 * recvmsg(), read()/write() on the tun descriptors, system(), syslog().
 * Time is virtual (microseconds), the network is a queue of datagrams with a
 * fixed one-way latency and scripted or pseudo-random per-datagram faults, the
 * two tun devices are queues of numbered IP packets. No root, no tun device,
 * no sockets, no sleeping.
 *
 * "accepted" = the program read the packet from its tun descriptor;
 * "delivered" = the peer wrote it to its tun descriptor.
 *
 * Arguments are key=value, see main(). Exit status: 0 every judged packet was
 * delivered exactly once and in order, 1 not so, 2 harness trouble.
 */
#define _GNU_SOURCE
#include <stdio.h>
#include <stdlib.h>
#include <string.h>
#include <stdarg.h>
#include <ucontext.h>
#include <sys/select.h>
#include <sys/socket.h>
#include <sys/time.h>
#include <netinet/in.h>
#include <arpa/inet.h>
#include <unistd.h>
#include <time.h>
#include <errno.h>
#include "sim.h"

struct simcfg cfg;
int cli_handshake_done, cli_exited, srv_exited;

typedef long long us_t;
static us_t now_us;
static us_t epoch_us = 1000000LL * 1000000LL;
static int trace;

/* ---------- PRNG ---------- */
static uint64_t rng_s;
static uint32_t rnd(void)
{
	rng_s ^= rng_s << 13; rng_s ^= rng_s >> 7; rng_s ^= rng_s << 17;
	return (uint32_t) (rng_s >> 16);
}
static double rndf(void) { return (rnd() & 0xffffff) / (double) 0x1000000; }

/* ---------- queues ---------- */
struct dgram { us_t at; long seq; int to; int len; unsigned char *data; int raw; };
#define MAXQ 4096
static struct dgram flight[MAXQ]; static int nflight; static long dseq;
struct fifo { struct dgram d[MAXQ]; int head, tail; };
static struct fifo sockq[2], tunq[2];   /* 0 = client, 1 = server */
static void fifo_put(struct fifo *f, struct dgram d) { f->d[f->tail % MAXQ] = d; f->tail++; if (f->tail - f->head > MAXQ) { fprintf(stderr, "fifo overflow\n"); exit(2); } }
static int fifo_empty(struct fifo *f) { return f->head == f->tail; }
static struct dgram fifo_get(struct fifo *f) { return f->d[(f->head++) % MAXQ]; }

/* ---------- fault model ---------- */
static us_t fault_from = -1, fault_to = -1;
static double p_drop, p_dup, p_delay;
static us_t max_delay = 3000000;
static int drop_dir = 3; /* bit0: client->server, bit1: server->client */
/* scripted per-datagram decisions: "dropc2s=3,5" lists of datagram ordinals */
static long ord[2];
#define MAXSCR 256
static long scr_drop[2][MAXSCR]; static int nscr_drop[2];
static long scr_dup[2][MAXSCR]; static us_t scr_dup_delay[2][MAXSCR]; static int nscr_dup[2];
static long scr_delay[2][MAXSCR]; static us_t scr_delay_us[2][MAXSCR]; static int nscr_delay[2];

static int trig_char, trig_side, trig_size, trig_rnd, trig_count; static us_t trig_delay;
static void add_offer(us_t at, int side, int size, int rndbytes);
static void resort_actions(void);

static void tr(const char *fmt, ...)
{
	va_list ap;
	char a[256], b[256];
	if (!trace) return;
	cli_peek(a, sizeof(a)); srv_peek(b, sizeof(b));
	printf("%10.6f ", (now_us) / 1e6);
	va_start(ap, fmt); vprintf(fmt, ap); va_end(ap);
	if (trace > 1) printf("   %s %s", a, b);
	printf("\n");
}

static void launch(int to, const void *buf, int len, us_t at)
{
	struct dgram d;
	if (nflight >= MAXQ) { fprintf(stderr, "flight overflow\n"); exit(2); }
	d.at = at; d.seq = dseq++; d.to = to; d.len = len;
	d.data = malloc(len ? len : 1); memcpy(d.data, buf, len);
	flight[nflight++] = d;
}

static const char *dgdesc(const unsigned char *b, int len, char *out)
{
	/* crude: show id and first label char */
	if (len >= 13 && !(b[0] == 0x10 && b[1] == 0xd1 && b[2] == 0x9e)) {
		int id = (b[0] << 8) | b[1];
		int l = b[12];
		char nm[24]; int i;
		for (i = 0; i < l && i < 12; i++) nm[i] = (b[13 + i] >= 32 && b[13+i] < 127) ? b[13 + i] : '?';
		nm[i] = 0;
		sprintf(out, "id%5d %s len%d", id, nm, len);
	} else {
		sprintf(out, "raw len%d cmd%02x", len, len > 3 ? b[3] : 0);
	}
	return out;
}

static void net_send(int from, const void *buf, int len)
{
	int to = !from;
	long o = ord[from]++;
	us_t lat = cfg.latency_us;
	int i;
	char desc[128];
	int infault = (now_us >= fault_from && now_us < fault_to);
	us_t extra = 0;
	int copies = 1;
	us_t dupdelay = 0;

	for (i = 0; i < nscr_drop[from]; i++) if (scr_drop[from][i] == o) copies = 0;
	for (i = 0; i < nscr_delay[from]; i++) if (scr_delay[from][i] == o) extra = scr_delay_us[from][i];
	for (i = 0; i < nscr_dup[from]; i++) if (scr_dup[from][i] == o) { copies = 2; dupdelay = scr_dup_delay[from][i]; }
	if (infault && (drop_dir & (1 << from))) {
		double r = rndf();
		if (r < p_drop) copies = 0;
		else if (r < p_drop + p_dup) { copies = 2; dupdelay = rnd() % max_delay; }
		else if (r < p_drop + p_dup + p_delay) extra = rnd() % max_delay;
		if (now_us + lat + extra > fault_to) extra = fault_to - now_us - lat > 0 ? fault_to - now_us - lat : 0;
		if (now_us + lat + dupdelay > fault_to) dupdelay = fault_to - now_us - lat > 0 ? fault_to - now_us - lat : 0;
	}
	if (from == 1 && trig_char && trig_count > 0 && len > 13 && !(((const unsigned char *) buf)[0] == 0x10 && ((const unsigned char *) buf)[1] == 0xd1)
	    && (((const unsigned char *) buf)[13] | 0x20) == trig_char) {
		int k;
		for (k = 0; k < trig_count; k++)
			add_offer(now_us + trig_delay + k * 100, trig_side, trig_size, trig_rnd);
		resort_actions();
		trig_count = 0;
	}
	tr("%s #%ld %s %s%s", from ? "S->C" : "C->S", o, dgdesc(buf, len, desc),
	   copies == 0 ? "DROP" : copies == 2 ? "DUP" : "", extra ? " DELAY" : "");
	if (copies >= 1) launch(to, buf, len, now_us + lat + extra);
	if (copies >= 2) launch(to, buf, len, now_us + lat + dupdelay);
}

/* ---------- packets on tun ---------- */
struct rec { long serial; us_t t_offer, t_accept, t_deliver; int ndeliver; int size; };
#define MAXREC 100000
static struct rec recs[2][MAXREC]; static long nrec[2];
static long accept_order[2][MAXREC]; static long naccept[2];
static long deliver_order[2][MAXREC]; static long ndeliv[2];
static long garbage_writes[2];

static void offer(int side, int size, int rndbytes)
{
	unsigned char p[2048];
	struct dgram d;
	long serial = nrec[side];
	int i;
	if (size < 32) size = 32;
	if (size > 1504) size = 1504;
	memset(p, 0, sizeof(p));
	p[2] = 0x08;
	p[4] = 0x45;
	p[4 + 2] = (size - 4) >> 8; p[4 + 3] = (size - 4) & 0xff;
	p[4 + 8] = 64; p[4 + 9] = 17;
	if (side == 1) { p[4+12]=10; p[4+13]=0; p[4+14]=0; p[4+15]=1; p[4+16]=10; p[4+17]=0; p[4+18]=0; p[4+19]=2; }
	else           { p[4+12]=10; p[4+13]=0; p[4+14]=0; p[4+15]=2; p[4+16]=10; p[4+17]=0; p[4+18]=0; p[4+19]=1; }
	p[24] = serial >> 24; p[25] = serial >> 16; p[26] = serial >> 8; p[27] = serial;
	p[28] = side;
	for (i = 29; i < size && i < 29 + rndbytes; i++) p[i] = rnd() & 0xff;
	d.at = now_us; d.seq = serial; d.to = side; d.len = size; d.data = malloc(size); d.raw = 0;
	memcpy(d.data, p, size);
	fifo_put(&tunq[side], d);
	recs[side][serial].serial = serial; recs[side][serial].t_offer = now_us; recs[side][serial].size = size;
	recs[side][serial].t_accept = -1; recs[side][serial].t_deliver = -1;
	nrec[side]++;
	tr("OFFER %s #%ld size %d", side ? "S" : "C", serial, size);
}

/* ---------- fibers ---------- */
struct fiber {
	ucontext_t ctx; char *stack;
	int waiting; fd_set want; int nfds; us_t deadline;
	int result; fd_set ready;
	int done; int side;
};
static struct fiber fib[2];
static ucontext_t mainctx;
static struct fiber *cur;

static int fd_side(int fd) { return (fd == CLI_TUN || fd == CLI_DNS) ? 0 : 1; }
static int fd_readable(int fd)
{
	if (fd == CLI_TUN) return !fifo_empty(&tunq[0]);
	if (fd == SRV_TUN) return !fifo_empty(&tunq[1]);
	if (fd == CLI_DNS) return !fifo_empty(&sockq[0]);
	if (fd == SRV_DNS) return !fifo_empty(&sockq[1]);
	return 0;
}

int __wrap_select(int nfds, fd_set *r, fd_set *w, fd_set *e, struct timeval *tv)
{
	struct fiber *f = cur;
	FD_ZERO(&f->want);
	if (r) f->want = *r;
	f->nfds = nfds;
	f->deadline = tv ? now_us + tv->tv_sec * 1000000LL + tv->tv_usec : -1;
	f->waiting = 1;
	swapcontext(&f->ctx, &mainctx);
	if (r) *r = f->ready;
	if (tv) { tv->tv_sec = 0; tv->tv_usec = 0; }
	return f->result;
}

time_t __wrap_time(time_t *t)
{
	time_t v = (time_t) ((epoch_us + now_us) / 1000000LL);
	if (t) *t = v;
	return v;
}

unsigned int __wrap_sleep(unsigned int s)
{
	struct timeval tv; tv.tv_sec = s; tv.tv_usec = 0;
	__wrap_select(0, NULL, NULL, NULL, &tv);
	return 0;
}

int __wrap_system(const char *c) { (void) c; return 0; }
void __wrap_syslog(int pri, const char *fmt, ...) { (void) pri; (void) fmt; }
void __wrap_openlog(const char *a, int b, int c) { (void)a; (void)b; (void)c; }

static void fill_addr(struct sockaddr *sa, socklen_t *alen, int side)
{
	struct sockaddr_in a;
	memset(&a, 0, sizeof(a));
	a.sin_family = AF_INET;
	a.sin_port = htons(side ? 53 : 40000);
	a.sin_addr.s_addr = inet_addr(side ? SRV_IP : CLI_IP);
	if (sa && alen) {
		memcpy(sa, &a, *alen < sizeof(a) ? *alen : sizeof(a));
		*alen = sizeof(a);
	}
}

ssize_t __wrap_sendto(int fd, const void *buf, size_t len, int flags, const struct sockaddr *to, socklen_t tolen)
{
	(void) flags; (void) to; (void) tolen;
	net_send(fd_side(fd), buf, (int) len);
	return len;
}

ssize_t __wrap_recvfrom(int fd, void *buf, size_t len, int flags, struct sockaddr *from, socklen_t *fromlen)
{
	int side = fd_side(fd);
	struct dgram d;
	int n;
	(void) flags;
	if (fifo_empty(&sockq[side])) { errno = EAGAIN; return -1; }
	d = fifo_get(&sockq[side]);
	n = d.len < (int) len ? d.len : (int) len;
	memcpy(buf, d.data, n);
	free(d.data);
	fill_addr(from, fromlen, !side);
	return n;
}

ssize_t __wrap_recv(int fd, void *buf, size_t len, int flags)
{
	return __wrap_recvfrom(fd, buf, len, flags, NULL, NULL);
}

ssize_t __wrap_recvmsg(int fd, struct msghdr *msg, int flags)
{
	int side = fd_side(fd);
	struct dgram d;
	int n;
	struct cmsghdr *cm;
	struct in_pktinfo pi;
	socklen_t al;
	(void) flags;
	if (fifo_empty(&sockq[side])) { errno = EAGAIN; return -1; }
	d = fifo_get(&sockq[side]);
	n = d.len < (int) msg->msg_iov[0].iov_len ? d.len : (int) msg->msg_iov[0].iov_len;
	memcpy(msg->msg_iov[0].iov_base, d.data, n);
	free(d.data);
	al = msg->msg_namelen;
	fill_addr(msg->msg_name, &al, !side);
	msg->msg_namelen = al;
	if (msg->msg_control && msg->msg_controllen >= CMSG_SPACE(sizeof(pi))) {
		memset(&pi, 0, sizeof(pi));
		pi.ipi_addr.s_addr = inet_addr(SRV_IP);
		pi.ipi_spec_dst = pi.ipi_addr;
		cm = CMSG_FIRSTHDR(msg);
		cm->cmsg_level = IPPROTO_IP;
		cm->cmsg_type = IP_PKTINFO;
		cm->cmsg_len = CMSG_LEN(sizeof(pi));
		memcpy(CMSG_DATA(cm), &pi, sizeof(pi));
		msg->msg_controllen = CMSG_SPACE(sizeof(pi));
	} else
		msg->msg_controllen = 0;
	return n;
}

ssize_t __real_read(int fd, void *buf, size_t len);
ssize_t __real_write(int fd, const void *buf, size_t len);

ssize_t __wrap_read(int fd, void *buf, size_t len)
{
	int side;
	struct dgram d;
	int n;
	if (fd != CLI_TUN && fd != SRV_TUN) return __real_read(fd, buf, len);
	side = fd_side(fd);
	if (fifo_empty(&tunq[side])) { errno = EAGAIN; return -1; }
	d = fifo_get(&tunq[side]);
	n = d.len < (int) len ? d.len : (int) len;
	memcpy(buf, d.data, n);
	free(d.data);
	recs[side][d.seq].t_accept = now_us;
	accept_order[side][naccept[side]++] = d.seq;
	tr("ACCEPT %s #%ld", side ? "S" : "C", d.seq);
	return n;
}

ssize_t __wrap_write(int fd, const void *buf, size_t len)
{
	int side, src;
	const unsigned char *p = buf;
	long serial;
	if (fd != CLI_TUN && fd != SRV_TUN) return __real_write(fd, buf, len);
	side = fd_side(fd);
	src = !side;
	if (len < 32 || p[28] != src) { garbage_writes[side]++; tr("WRITE %s garbage len %d", side ? "S" : "C", (int) len); return len; }
	serial = ((long) p[24] << 24) | (p[25] << 16) | (p[26] << 8) | p[27];
	if (serial < 0 || serial >= nrec[src] || recs[src][serial].size != (int) len) { garbage_writes[side]++; tr("WRITE garbage2"); return len; }
	recs[src][serial].ndeliver++;
	if (recs[src][serial].t_deliver < 0) recs[src][serial].t_deliver = now_us;
	deliver_order[src][ndeliv[src]++] = serial;
	tr("DELIVER to %s: #%ld of %s (%.3f s after offer)", side ? "S" : "C", serial, src ? "S" : "C", (now_us - recs[src][serial].t_offer) / 1e6);
	return len;
}

static void fiber_main(int side)
{
	if (side == 0) cli_entry(); else srv_entry();
	fib[side].done = 1;
	swapcontext(&fib[side].ctx, &mainctx);
}

static void resume(struct fiber *f, int result, fd_set *ready)
{
	f->result = result;
	if (ready) f->ready = *ready; else FD_ZERO(&f->ready);
	f->waiting = 0;
	cur = f;
	swapcontext(&mainctx, &f->ctx);
	cur = NULL;
}

/* ---------- scheduled actions ---------- */
struct action { us_t at; int kind; int side; int size; int rndbytes; };
#define MAXACT 200000
static struct action acts[MAXACT]; static int nacts, actpos;
static int actcmp(const void *a, const void *b)
{
	const struct action *x = a, *y = b;
	if (x->at != y->at) return x->at < y->at ? -1 : 1;
	return 0;
}
static void add_offer(us_t at, int side, int size, int rndbytes)
{
	if (nacts >= MAXACT) return;
	acts[nacts].at = at; acts[nacts].kind = 0; acts[nacts].side = side; acts[nacts].size = size; acts[nacts].rndbytes = rndbytes;
	nacts++;
}

static void resort_actions(void)
{
	/* keep what is already done in front, sort the rest */
	qsort(acts + actpos, nacts - actpos, sizeof(acts[0]), actcmp);
}

static us_t t_hs_done = -1;

static int step(us_t until)
{
	/* returns 0 when nothing more can happen before 'until' */
	int i, s, progressed = 0;
	us_t next = until;

	/* deliver datagrams that are due */
	for (;;) {
		int best = -1;
		for (i = 0; i < nflight; i++)
			if (flight[i].at <= now_us && (best < 0 || flight[i].at < flight[best].at || (flight[i].at == flight[best].at && flight[i].seq < flight[best].seq)))
				best = i;
		if (best < 0) break;
		fifo_put(&sockq[flight[best].to], flight[best]);
		flight[best] = flight[--nflight];
		progressed = 1;
	}
	/* scheduled actions */
	while (actpos < nacts && acts[actpos].at <= now_us) {
		offer(acts[actpos].side, acts[actpos].size, acts[actpos].rndbytes);
		actpos++;
		progressed = 1;
	}
	/* run fibers that can run */
	for (s = 0; s < 2; s++) {
		struct fiber *f = &fib[s];
		fd_set rd; int n = 0, fd;
		if (f->done || !f->waiting) continue;
		FD_ZERO(&rd);
		for (fd = 0; fd < f->nfds; fd++)
			if (FD_ISSET(fd, &f->want) && fd_readable(fd)) { FD_SET(fd, &rd); n++; }
		if (n > 0) { resume(f, n, &rd); progressed = 1; }
		else if (f->deadline >= 0 && f->deadline <= now_us) { resume(f, 0, NULL); progressed = 1; }
	}
	if (t_hs_done < 0 && cli_handshake_done) t_hs_done = now_us;
	if (progressed) return 1;
	/* advance time */
	for (i = 0; i < nflight; i++) if (flight[i].at < next) next = flight[i].at;
	if (actpos < nacts && acts[actpos].at < next) next = acts[actpos].at;
	for (s = 0; s < 2; s++) if (!fib[s].done && fib[s].waiting && fib[s].deadline >= 0 && fib[s].deadline < next) next = fib[s].deadline;
	if (next <= now_us) next = now_us; /* shouldn't */
	if (next >= until) { now_us = until; return 0; }
	now_us = next;
	return 1;
}

static void run_until(us_t until) { while (now_us < until && step(until)) ; if (now_us < until) now_us = until; }

static void parse_list(const char *v, long *ids, us_t *extra, int *n)
{
	/* "3,5:1500,9" -> ordinal[:ms] */
	char *s = strdup(v), *tok;
	for (tok = strtok(s, ","); tok; tok = strtok(NULL, ",")) {
		char *c = strchr(tok, ':');
		ids[*n] = atol(tok);
		if (extra) extra[*n] = c ? atoll(c + 1) * 1000 : 0;
		(*n)++;
	}
	free(s);
}

int main(int argc, char **argv)
{
	int i, s;
	long seed = 1;
	double dur = 60, traffic_rate_c = 2, traffic_rate_s = 2;
	int minsize = 40, maxsize = 1200, rndfrac = 100;
	double fault_len = 0, fault_at = 5, settle = 25, drain = 120;
	us_t phase = 0;
	int quiet = 0;
	long fail = 0;
	const char *offers = NULL, *early = NULL;

	cfg.qtype = "NULL"; cfg.downenc = NULL; cfg.lazy = 1; cfg.interval = 4; cfg.maxlen = 255; cfg.raw = 0;
	cfg.autofrag = 1; cfg.fragsize = 1200; cfg.topdomain = "t.example.com"; cfg.mtu = 1130; cfg.check_ip = 1;
	cfg.latency_us = 1000;

	for (i = 1; i < argc; i++) {
		char *k = argv[i], *v = strchr(k, '=');
		if (!v) continue;
		*v++ = 0;
		if (!strcmp(k, "seed")) seed = atol(v);
		else if (!strcmp(k, "qtype")) cfg.qtype = strcmp(v, "auto") ? v : NULL;
		else if (!strcmp(k, "downenc")) cfg.downenc = strcmp(v, "auto") ? v : NULL;
		else if (!strcmp(k, "lazy")) { cfg.lazy = atoi(v); if (!cfg.lazy) cfg.interval = 1; }
		else if (!strcmp(k, "interval")) cfg.interval = atoi(v);
		else if (!strcmp(k, "maxlen")) cfg.maxlen = atoi(v);
		else if (!strcmp(k, "raw")) cfg.raw = atoi(v);
		else if (!strcmp(k, "fragsize")) { cfg.fragsize = atoi(v); cfg.autofrag = 0; }
		else if (!strcmp(k, "topdomain")) cfg.topdomain = v;
		else if (!strcmp(k, "mtu")) cfg.mtu = atoi(v);
		else if (!strcmp(k, "checkip")) cfg.check_ip = atoi(v);
		else if (!strcmp(k, "debug")) cfg.srv_debug = atoi(v);
		else if (!strcmp(k, "latency")) cfg.latency_us = atol(v);
		else if (!strcmp(k, "trace")) trace = atoi(v);
		else if (!strcmp(k, "dur")) dur = atof(v);
		else if (!strcmp(k, "ratec")) traffic_rate_c = atof(v);
		else if (!strcmp(k, "rates")) traffic_rate_s = atof(v);
		else if (!strcmp(k, "minsize")) minsize = atoi(v);
		else if (!strcmp(k, "maxsize")) maxsize = atoi(v);
		else if (!strcmp(k, "rndfrac")) rndfrac = atoi(v);
		else if (!strcmp(k, "faultlen")) fault_len = atof(v);
		else if (!strcmp(k, "faultat")) fault_at = atof(v);
		else if (!strcmp(k, "settle")) settle = atof(v);
		else if (!strcmp(k, "drain")) drain = atof(v);
		else if (!strcmp(k, "pdrop")) p_drop = atof(v);
		else if (!strcmp(k, "pdup")) p_dup = atof(v);
		else if (!strcmp(k, "pdelay")) p_delay = atof(v);
		else if (!strcmp(k, "maxdelay")) max_delay = atoll(v) * 1000;
		else if (!strcmp(k, "dropdir")) drop_dir = atoi(v);
		else if (!strcmp(k, "phase")) phase = atoll(v);
		else if (!strcmp(k, "quiet")) quiet = atoi(v);
		else if (!strcmp(k, "offers")) offers = v;
		else if (!strcmp(k, "early")) early = v;
		else if (!strcmp(k, "trig")) {
			/* "l:500:300:100:2" = after the server's answer to an 'l' query, wait 500 us, offer 2 packets of 300 bytes (100% random) on the server's tun */
			char c; long d; int sz, rp = 100, cnt = 1;
			if (sscanf(v, "%c:%ld:%d:%d:%d", &c, &d, &sz, &rp, &cnt) >= 3) { trig_char = c | 0x20; trig_delay = d; trig_side = 1; trig_size = sz; trig_rnd = sz * rp / 100; trig_count = cnt; }
		}
		else if (!strcmp(k, "dropc2s")) parse_list(v, scr_drop[0], NULL, &nscr_drop[0]);
		else if (!strcmp(k, "drops2c")) parse_list(v, scr_drop[1], NULL, &nscr_drop[1]);
		else if (!strcmp(k, "dupc2s")) parse_list(v, scr_dup[0], scr_dup_delay[0], &nscr_dup[0]);
		else if (!strcmp(k, "dups2c")) parse_list(v, scr_dup[1], scr_dup_delay[1], &nscr_dup[1]);
		else if (!strcmp(k, "delayc2s")) parse_list(v, scr_delay[0], scr_delay_us[0], &nscr_delay[0]);
		else if (!strcmp(k, "delays2c")) parse_list(v, scr_delay[1], scr_delay_us[1], &nscr_delay[1]);
		else { fprintf(stderr, "unknown key %s\n", k); return 2; }
	}
	rng_s = 0x9E3779B97F4A7C15ULL ^ ((uint64_t) seed * 0xD1B54A32D192ED03ULL);
	for (i = 0; i < 8; i++) rnd();
	srand((unsigned) seed);
	epoch_us += phase;
	if (quiet) { if (!freopen("/dev/null", "w", stderr)) return 2; }

	for (s = 0; s < 2; s++) {
		fib[s].stack = malloc(16 << 20);
		getcontext(&fib[s].ctx);
		fib[s].ctx.uc_stack.ss_sp = fib[s].stack;
		fib[s].ctx.uc_stack.ss_size = 16 << 20;
		fib[s].ctx.uc_link = &mainctx;
		fib[s].side = s;
		makecontext(&fib[s].ctx, (void (*)(void)) fiber_main, 1, s);
	}
	/* start server first, then client */
	cur = &fib[1]; swapcontext(&mainctx, &fib[1].ctx); cur = NULL;
	cur = &fib[0]; swapcontext(&mainctx, &fib[0].ctx); cur = NULL;

	if (early) {
		/* offers at absolute times (us), possibly before the handshake is over: "s:us:size:rndpercent" */
		char *sdup = strdup(early), *tok;
		for (tok = strtok(sdup, ","); tok; tok = strtok(NULL, ",")) {
			char sd; long usec; int size, rp = 100;
			if (sscanf(tok, "%c:%ld:%d:%d", &sd, &usec, &size, &rp) >= 3)
				add_offer(usec, sd == 's', size, size * rp / 100);
		}
		qsort(acts, nacts, sizeof(acts[0]), actcmp);
	}
	/* handshake on a clean path */
	while (!cli_handshake_done && now_us < 300 * 1000000LL) {
		if (!step(now_us + 1000000)) ;
	}
	if (cli_handshake_done != 1) { printf("HARNESS: handshake failed\n"); return 2; }
	t_hs_done = now_us;
	{
		char a[256], b[256];
		cli_peek(a, sizeof(a)); srv_peek(b, sizeof(b));
		if (!quiet || trace) printf("handshake done at %.3f  %s %s\n", now_us / 1e6, a, b);
	}

	/* traffic plan, relative to handshake end */
	{
		us_t t0 = now_us + 500000;
		us_t tend = t0 + (us_t) (dur * 1e6);
		if (offers) {
			/* "c:100:500:0,s:2000:1200:100" = side:ms:size:rndpercent */
			char *sdup = strdup(offers), *tok;
			for (tok = strtok(sdup, ","); tok; tok = strtok(NULL, ",")) {
				char sd; long ms; int size, rp = 100;
				if (sscanf(tok, "%c:%ld:%d:%d", &sd, &ms, &size, &rp) >= 3)
					add_offer(t0 + ms * 1000, sd == 's', size, size * rp / 100);
			}
		} else {
			for (s = 0; s < 2; s++) {
				double rate = s ? traffic_rate_s : traffic_rate_c;
				us_t t = t0;
				if (rate <= 0) continue;
				while (t < tend - 8000000) {
					int size = minsize + rnd() % (maxsize - minsize + 1);
					int burst = (rnd() % 8 == 0) ? 1 + rnd() % 6 : 1;
					while (burst--) {
						add_offer(t, s, size, size * (rnd() % (rndfrac + 1)) / 100);
						size = minsize + rnd() % (maxsize - minsize + 1);
						t += rnd() % 3000;
					}
					t += (us_t) (-1e6 / rate * __builtin_log(1 - rndf()));
				}
			}
		}
		resort_actions();
		if (fault_len > 0) { fault_from = t0 + (us_t) (fault_at * 1e6); fault_to = fault_from + (us_t) (fault_len * 1e6); }
		run_until(tend - 8000000);
		/* drain: give backlog time to clear */
		{
			us_t lim = tend + (us_t) (drain * 1e6);
			while (now_us < lim) {
				int busy = !fifo_empty(&tunq[0]) || !fifo_empty(&tunq[1]);
				long k;
				for (s = 0; s < 2 && !busy; s++)
					for (k = nrec[s] - 1; k >= 0 && k > nrec[s] - 12; k--)
						if (recs[s][k].ndeliver == 0) busy = 1;
				if (!busy && now_us >= tend) break;
				run_until(now_us + 500000);
			}
		}
	}

	/* verdict */
	for (s = 0; s < 2; s++) {
		long k, lost = 0, dup = 0, late = 0, unacc = 0;
		us_t worst = 0;
		us_t judge_from = fault_len > 0 ? fault_to + (us_t) (settle * 1e6) : 0;
		int ooo = 0;
		for (k = 0; k < nrec[s]; k++) {
			struct rec *r = &recs[s][k];
			if (r->t_accept < 0) { if (r->t_offer >= judge_from) unacc++; continue; }
			if (r->t_offer < judge_from && fault_len > 0) continue;
			if (r->ndeliver == 0) { lost++; if (lost <= 20) printf("  LOST %s #%ld size %d offered %.3f accepted %.3f\n", s ? "S" : "C", k, r->size, r->t_offer / 1e6, r->t_accept / 1e6); }
			else if (r->ndeliver > 1) { dup++; printf("  DUP %s #%ld x%d\n", s ? "S" : "C", k, r->ndeliver); }
			else if (r->t_deliver - r->t_offer > worst) worst = r->t_deliver - r->t_offer;
		}
		/* order: deliveries must be a subsequence of acceptances in order */
		{
			long last = -1;
			for (k = 0; k < ndeliv[s]; k++) {
				if (recs[s][deliver_order[s][k]].t_offer < judge_from && fault_len > 0) continue;
				if (deliver_order[s][k] < last) ooo++;
				last = deliver_order[s][k];
			}
		}
		printf("%s: offered %ld accepted %ld delivered %ld | judged lost %ld dup %ld unaccepted %ld ooo %d garbage %ld worst %.3f s\n",
		       s ? "server->client" : "client->server", nrec[s], naccept[s], ndeliv[s], lost, dup, unacc, ooo, garbage_writes[!s], worst / 1e6);
		fail += lost + dup + ooo + unacc + late + garbage_writes[!s];
	}
	if (cli_exited || srv_exited) { printf("PROGRAM EXITED cli=%d srv=%d\n", cli_exited, srv_exited); fail++; }
	{
		char a[256], b[256];
		cli_peek(a, sizeof(a)); srv_peek(b, sizeof(b));
		printf("end %.3f %s %s\n", now_us / 1e6, a, b);
	}
	printf(fail ? "VERDICT FAIL\n" : "VERDICT OK\n");
	return fail ? 1 : 0;
}
