#!/bin/sh
# usage: run.sh <source tree root>
#
# Builds the real iodine client and server from <tree>/src together with the
# mini-simulator in this directory (into a mktemp -d directory, nothing is
# written into the tree) and plays this history in virtual time, on a path that
# delivers every datagram intact after 1 ms:
#
#   the client connects with default options (raw mode allowed); 0.5 ms after
#   the server has sent its answer to the login, two IP packets for the
#   client's tunnel address arrive on the SERVER's tun device; the handshake
#   goes on (server address request, raw login) and ends in raw mode; later
#   three more packets are offered (two down, one up).
#
# As a control the same history is played with raw mode switched off (-r).
#
# Exit 1 = property C02 violated (a packet the server accepted from its tun
# was never written to the client's tun), 0 = holds, 2 = harness trouble.

T=$1
[ -n "$T" ] && [ -d "$T/src" ] || { echo "usage: $0 <source tree root>" >&2; exit 2; }
T=$(cd "$T" && pwd)
H=$(cd "$(dirname "$0")" && pwd)
D=$(mktemp -d) || exit 2
trap 'rm -rf "$D"' EXIT

build() {
	sed -e 's/\([Bb][Aa][Ss][Ee]64\)/\1u/g ; s/0123456789+/0123456789_/' < "$T/src/base64.c" > "$D/base64u.c" || return 1
	CF="-std=gnu99 -g -O1 -w -DLINUX -D_GNU_SOURCE -DGITREVISION=\"demo\" -I$T/src -I$H"
	for f in tun dns read encoding login base32 base64 base128 md5 common user fw_query; do
		gcc $CF -c "$T/src/$f.c" -o "$D/$f.o" || return 1
	done
	gcc $CF -c "$D/base64u.c" -o "$D/base64u.o" || return 1
	for f in cli srv sim; do
		gcc $CF -c "$H/$f.c" -o "$D/$f.o" || return 1
	done
	gcc -o "$D/sim" "$D"/*.o \
		-Wl,--wrap=select,--wrap=time,--wrap=sleep,--wrap=system,--wrap=syslog,--wrap=openlog \
		-Wl,--wrap=sendto,--wrap=recvfrom,--wrap=recv,--wrap=recvmsg,--wrap=read,--wrap=write \
		-lz -lm || return 1
}
build > "$D/build.log" 2>&1 || { cat "$D/build.log" >&2; echo "HARNESS: build failed" >&2; exit 2; }

# trig=l:500:300:100:2  = 500 us after the server's answer to the 'l' (login) query: 2 packets of
#                         300 bytes (100% incompressible) on the server's tun
# offers=side:ms after the tunnel is up:size:percent incompressible
ARGS="quiet=1 trace=1 latency=1000 trig=l:500:300:100:2 offers=s:1000:200:100,c:2000:200:100,s:3000:100:100 dur=12"

echo "=== control: raw mode off (-r), the session stays in DNS mode ==="
"$D/sim" raw=0 $ARGS > "$D/out.dns" 2>&1
rc0=$?
grep -E " (OFFER|ACCEPT|DELIVER) |LOST|->(server|client):|PROGRAM EXITED|VERDICT|HARNESS" "$D/out.dns"

echo "=== default: the handshake ends in raw mode ==="
"$D/sim" raw=1 $ARGS > "$D/out.raw" 2>&1
rc1=$?
grep -E " (OFFER|ACCEPT|DELIVER) |raw len|LOST|->(server|client):|PROGRAM EXITED|VERDICT|HARNESS|handshake done|^end " "$D/out.raw" | grep -v "cmd30"

[ $rc0 -le 1 ] && [ $rc1 -le 1 ] || { echo "HARNESS: simulator failed (status $rc0/$rc1)" >&2; exit 2; }
grep -q "conn0" "$D/out.raw" || { echo "HARNESS: the handshake did not end in raw mode" >&2; exit 2; }

if [ $rc0 = 1 ] || [ $rc1 = 1 ]; then
	echo "VIOLATED (C02, clean path): packets the server read from its tun device (between the login and the raw login) were never written to the client's tun device; they are still parked in the server's DNS-mode .outpacket/.outpacketq when the run ends."
	exit 1
fi
echo "C02 holds on this history: every packet accepted from tun was delivered exactly once, in order."
exit 0
