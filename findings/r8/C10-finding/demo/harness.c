/*
 * C10 demonstration harness (server side).
 *
 * The real iodined.c is #included (main renamed), and the real dns.c, read.c,
 * common.c, encoding.c, base*.c, user.c, fw_query.c ... are linked in.
 * recvmsg()/recvfrom()/sendto()/syslog() are replaced with -Wl,--wrap so that
 * one crafted datagram is "received" by tunnel_dns() and everything iodined
 * passes to sendto() is captured and run through an independent strict
 * RFC 1035 parser.
 *
 * exit 0: every emitted datagram is well-formed and echoes its question
 * exit 1: property violated
 * exit 2: harness trouble
 */
#define main iodined_real_main
#include "iodined.c"
#undef main

#include <stdarg.h>

/* ------------------------------------------------------------------ */
/* wrapped libc                                                        */

static unsigned char in_pkt[4096];
static int in_len;

static unsigned char out_pkt[8][65536];
static int out_len[8];
static int out_fd[8];
static int out_cnt;

ssize_t __wrap_recvmsg(int fd, struct msghdr *msg, int flags);
ssize_t __wrap_recvfrom(int fd, void *buf, size_t len, int flags,
			struct sockaddr *from, socklen_t *fromlen);
ssize_t __wrap_sendto(int fd, const void *buf, size_t len, int flags,
		      const struct sockaddr *to, socklen_t tolen);
void __wrap_syslog(int pri, const char *fmt, ...);

ssize_t __wrap_recvmsg(int fd, struct msghdr *msg, int flags)
{
	struct sockaddr_in *sin = (struct sockaddr_in *) msg->msg_name;

	(void) fd; (void) flags;
	memset(sin, 0, sizeof(*sin));
	sin->sin_family = AF_INET;
	sin->sin_port = htons(40000);
	sin->sin_addr.s_addr = htonl(0xc0000201);	/* 192.0.2.1 */
	msg->msg_namelen = sizeof(*sin);
	memcpy(msg->msg_iov[0].iov_base, in_pkt, in_len);
	msg->msg_controllen = 0;	/* no ancillary data */
	return in_len;
}

ssize_t __wrap_recvfrom(int fd, void *buf, size_t len, int flags,
			struct sockaddr *from, socklen_t *fromlen)
{
	(void) fd; (void) buf; (void) len; (void) flags; (void) from; (void) fromlen;
	return -1;
}

ssize_t __wrap_sendto(int fd, const void *buf, size_t len, int flags,
		      const struct sockaddr *to, socklen_t tolen)
{
	(void) flags; (void) to; (void) tolen;
	if (out_cnt < 8 && len <= sizeof(out_pkt[0])) {
		memcpy(out_pkt[out_cnt], buf, len);
		out_len[out_cnt] = len;
		out_fd[out_cnt] = fd;
		out_cnt++;
	}
	return len;
}

void __wrap_syslog(int pri, const char *fmt, ...)
{
	(void) pri; (void) fmt;
}

/* ------------------------------------------------------------------ */
/* independent strict RFC 1035 parser                                  */

static char why[256];

static int fail(const char *fmt, ...)
{
	va_list ap;
	va_start(ap, fmt);
	vsnprintf(why, sizeof(why), fmt, ap);
	va_end(ap);
	return -1;
}

/* offsets at which a label (or the root octet, or a pointer) of some name
   parsed so far begins */
static unsigned char boundary[65536];

/* Parses the name at *off. Writes the expanded name in wire form (length
   octets and label bytes, with the final 0) to wire[], its size to *wlen.
   Returns 0 / -1. */
static int parse_name(const unsigned char *m, int mlen, int *off,
		      unsigned char *wire, int *wlen)
{
	int p = *off;
	int after = -1;		/* where parsing continues after a pointer */
	int total = 0;
	int lowest = *off;	/* pointers must point before this */
	int hops = 0;

	for (;;) {
		unsigned c;
		if (p >= mlen)
			return fail("name runs past the end of the message (offset %d)", p);
		c = m[p];
		if ((c & 0xc0) == 0xc0) {
			int tgt;
			if (p + 1 >= mlen)
				return fail("compression pointer cut off at offset %d", p);
			tgt = ((c & 0x3f) << 8) | m[p + 1];
			if (after < 0) {
				boundary[p] = 1;
				after = p + 2;
			}
			if (tgt >= lowest)
				return fail("compression pointer at offset %d points forward/to itself (to %d)", p, tgt);
			if (tgt < 12 || !boundary[tgt])
				return fail("compression pointer at offset %d points to %d, which is not a label boundary", p, tgt);
			lowest = tgt;
			p = tgt;
			if (++hops > 64)
				return fail("compression pointer loop");
			continue;
		}
		if (c & 0xc0)
			return fail("label length octet 0x%02x at offset %d uses a reserved label type", c, p);
		if (after < 0)
			boundary[p] = 1;
		if (c == 0) {
			if (total + 1 > 255)
				return fail("name is %d octets long (max 255)", total + 1);
			wire[total++] = 0;
			p++;
			break;
		}
		if (p + 1 + (int) c > mlen)
			return fail("label at offset %d runs past the end of the message", p);
		if (total + 1 + (int) c + 1 > 255)
			return fail("name is longer than 255 octets");
		memcpy(wire + total, m + p, 1 + c);
		total += 1 + c;
		p += 1 + c;
	}
	*wlen = total;
	*off = (after >= 0) ? after : p;
	return 0;
}

struct parsed {
	unsigned id;
	int qr;
	int qd, an, ns, ar;
	unsigned char qname[256];
	int qnamelen;
	unsigned qtype, qclass;
	unsigned an_type[64];
	unsigned char an_name[64][256];
	int an_namelen[64];
	/* first name inside the rdata of the first answer (NS/CNAME) */
	unsigned char rd_name[256];
	int rd_namelen;
	unsigned char ar_a[4];
	unsigned char ar_name[256];
	int ar_namelen;
	int ar_is_a;
};

static int parse_rr(const unsigned char *m, int mlen, int *off, int section,
		    int idx, struct parsed *r)
{
	unsigned char name[256];
	int namelen;
	unsigned type, rdlen;
	int rd, end;

	if (parse_name(m, mlen, off, name, &namelen) < 0)
		return -1;
	if (*off + 10 > mlen)
		return fail("record header cut off at offset %d", *off);
	type = (m[*off] << 8) | m[*off + 1];
	rdlen = (m[*off + 8] << 8) | m[*off + 9];
	*off += 10;
	rd = *off;
	end = rd + rdlen;
	if (end > mlen)
		return fail("RDLENGTH %u at offset %d runs past the end of the message", rdlen, rd - 2);

	if (section == 1 && idx < 64) {
		r->an_type[idx] = type;
		memcpy(r->an_name[idx], name, namelen);
		r->an_namelen[idx] = namelen;
	}

	if (type == T_A) {
		if (rdlen != 4)
			return fail("A record with RDLENGTH %u", rdlen);
		if (section == 3) {
			memcpy(r->ar_a, m + rd, 4);
			memcpy(r->ar_name, name, namelen);
			r->ar_namelen = namelen;
			r->ar_is_a = 1;
		}
	} else if (type == T_NS || type == T_CNAME || type == T_MX || type == T_SRV) {
		unsigned char n2[256];
		int n2len;
		int o = rd;
		if (type == T_MX)
			o += 2;
		if (type == T_SRV)
			o += 6;
		if (o > end)
			return fail("RDATA too short for its type at offset %d", rd);
		if (parse_name(m, mlen, &o, n2, &n2len) < 0)
			return -1;
		if (o != end)
			return fail("RDLENGTH %u does not equal the record's data size %d (type %u)", rdlen, o - rd, type);
		if (section == 1 && idx == 0) {
			memcpy(r->rd_name, n2, n2len);
			r->rd_namelen = n2len;
		}
	} else if (type == T_TXT) {
		int o = rd;
		if (rdlen == 0)
			return fail("TXT record without any string");
		while (o < end)
			o += 1 + m[o];
		if (o != end)
			return fail("TXT strings do not tile the RDATA");
	} else if (type == 41) {
		if (namelen != 1)
			return fail("OPT record with a non-root name");
	}
	*off = end;
	return 0;
}

static int parse_msg(const unsigned char *m, int mlen, struct parsed *r)
{
	int off = 12;
	int i;

	memset(r, 0, sizeof(*r));
	memset(boundary, 0, sizeof(boundary));
	if (mlen < 12)
		return fail("shorter than a DNS header");
	r->id = (m[0] << 8) | m[1];
	r->qr = m[2] >> 7;
	r->qd = (m[4] << 8) | m[5];
	r->an = (m[6] << 8) | m[7];
	r->ns = (m[8] << 8) | m[9];
	r->ar = (m[10] << 8) | m[11];
	if (r->qd != 1)
		return fail("QDCOUNT is %d", r->qd);
	if (parse_name(m, mlen, &off, r->qname, &r->qnamelen) < 0)
		return -1;
	if (off + 4 > mlen)
		return fail("question cut off");
	r->qtype = (m[off] << 8) | m[off + 1];
	r->qclass = (m[off + 2] << 8) | m[off + 3];
	off += 4;
	for (i = 0; i < r->an; i++)
		if (parse_rr(m, mlen, &off, 1, i, r) < 0)
			return -1;
	for (i = 0; i < r->ns; i++)
		if (parse_rr(m, mlen, &off, 2, i, r) < 0)
			return -1;
	for (i = 0; i < r->ar; i++)
		if (parse_rr(m, mlen, &off, 3, i, r) < 0)
			return -1;
	if (off != mlen)
		return fail("section counts do not match the records present: %d octets left over after the last record", mlen - off);
	return 0;
}

/* ------------------------------------------------------------------ */
/* query construction, label by label                                  */

struct label {
	int len;		/* value of the length octet */
	const char *bytes;	/* len bytes */
};

static unsigned char q_wire[600];	/* the question name as sent */
static int q_wirelen;

static void build_query(unsigned id, unsigned type, const struct label *l, int n)
{
	int i;
	unsigned char *p = in_pkt;

	memset(in_pkt, 0, sizeof(in_pkt));
	*p++ = id >> 8; *p++ = id & 0xff;
	*p++ = 0x01; *p++ = 0x00;		/* RD */
	*p++ = 0; *p++ = 1;			/* QDCOUNT */
	p += 6;
	q_wirelen = 0;
	for (i = 0; i < n; i++) {
		q_wire[q_wirelen++] = l[i].len;
		memcpy(q_wire + q_wirelen, l[i].bytes, l[i].len);
		q_wirelen += l[i].len;
	}
	q_wire[q_wirelen++] = 0;
	memcpy(p, q_wire, q_wirelen);
	p += q_wirelen;
	*p++ = type >> 8; *p++ = type & 0xff;
	*p++ = 0; *p++ = 1;			/* IN */
	in_len = p - in_pkt;
}

static int same_name(const unsigned char *a, int alen, const unsigned char *b, int blen)
{
	return alen == blen && memcmp(a, b, alen) == 0;
}

static void hexdump(const unsigned char *m, int len)
{
	int i;
	for (i = 0; i < len && i < 64; i++)
		printf("%02x%s", m[i], (i % 16 == 15) ? "\n      " : " ");
	if (len > 64)
		printf("... (%d octets)", len);
	printf("\n");
}

/* Runs one datagram through the real tunnel_dns(). kind: 0 = tunnel query,
   1 = NS query, 2 = query to be forwarded (-b). Returns number of
   violations. */
static int run_case(const char *title, int kind, unsigned type,
		    const struct label *l, int n)
{
	struct dnsfd fds;
	struct parsed r;
	int bad = 0;
	int i;
	int bind_fd = (kind == 2) ? 9 : 0;

	fds.v4fd = 7;
	fds.v6fd = -1;
	build_query(0x1234, type, l, n);
	out_cnt = 0;

	tunnel_dns(5, 7, &fds, bind_fd);

	printf("%s\n", title);
	if (out_cnt == 0) {
		printf("   iodined sent nothing\n");
		return 0;
	}
	for (i = 0; i < out_cnt; i++) {
		const unsigned char *m = out_pkt[i];
		int mlen = out_len[i];
		const char *what = (out_fd[i] == 9) ? "forwarded query" : "answer";

		if (parse_msg(m, mlen, &r) < 0) {
			printf("   VIOLATION: %s of %d octets is not a well-formed DNS message: %s\n",
			       what, mlen, why);
			printf("      ");
			hexdump(m, mlen);
			bad++;
			continue;
		}
		if (r.id != 0x1234) {
			printf("   VIOLATION: %s carries id %04x, query had 1234\n", what, r.id);
			bad++;
		}
		if (!same_name(r.qname, r.qnamelen, q_wire, q_wirelen)) {
			printf("   VIOLATION: %s does not carry the name of the query\n", what);
			bad++;
		}
		if (r.qtype != type) {
			printf("   VIOLATION: %s carries type %u, query had %u\n", what, r.qtype, type);
			bad++;
		}
		if (kind != 2 && (!r.qr || r.an < 1)) {
			printf("   VIOLATION: datagram sent to the asker is not an answer\n");
			bad++;
		}
		if (kind != 2 && r.an >= 1 &&
		    !same_name(r.an_name[0], r.an_namelen[0], q_wire, q_wirelen)) {
			printf("   VIOLATION: the answer record is not owned by the name of the query\n");
			bad++;
		}
		if (kind == 1 && !bad) {
			static const unsigned char want[] = "\002ns\001t\007example\003com";
			if (r.an_type[0] != T_NS ||
			    r.rd_namelen != (int) sizeof(want) ||
			    strncasecmp((char *) r.rd_name, (char *) want, sizeof(want))) {
				printf("   VIOLATION: NS query is not answered with ns.<domain>\n");
				bad++;
			}
		}
		if (!bad)
			printf("   ok: well-formed %s of %d octets, echoes id/name/type\n", what, mlen);
	}
	return bad;
}

int main(void)
{
	/* 62 and 64 data characters behind the command letter 'z' (codec
	   test: the server echoes the name, needs no session) */
	static const char l63[] = "zaaaaaaaaaaaaaaaaaaaaaaaaaaaaaaaaaaaaaaaaaaaaaaaaaaaaaaaaaaaaaa";
	static const char l65[] = "zaaaaaaaaaaaaaaaaaaaaaaaaaaaaaaaaaaaaaaaaaaaaaaaaaaaaaaaaaaaaaaaa";
	struct label ok_tun[] = { {63, l63}, {1, "t"}, {7, "example"}, {3, "com"} };
	struct label bad_tun[] = { {65, l65}, {1, "t"}, {7, "example"}, {3, "com"} };
	struct label ok_fw[] = { {63, l63}, {5, "other"}, {3, "org"} };
	struct label bad_fw[] = { {65, l65}, {5, "other"}, {3, "org"} };
	int sane = 0;
	int bad = 0;

	if (strlen(l63) != 63 || strlen(l65) != 65)
		return 2;

	topdomain = "t.example.com";
	ns_ip = INADDR_ANY;
	bind_port = 5353;
	debug = 0;
	created_users = init_users(inet_addr("10.0.0.1"), 27);
	fw_query_init();

	printf("--- control: first label of 63 octets (length octet 0x3f)\n");
	sane += run_case("NULL query z<62 chars>.t.example.com", 0, T_NULL, ok_tun, 4);
	sane += run_case("TXT query  z<62 chars>.t.example.com", 0, T_TXT, ok_tun, 4);
	sane += run_case("NS query   z<62 chars>.t.example.com", 1, T_NS, ok_tun, 4);
	sane += run_case("A query    z<62 chars>.other.org with -b (forwarded)", 2, T_A, ok_fw, 3);
	if (sane || out_cnt == 0) {
		printf("harness trouble: the control queries do not pass\n");
		return 2;
	}

	printf("--- same queries, first label of 65 octets (length octet 0x41)\n");
	bad += run_case("NULL query z<64 chars>.t.example.com", 0, T_NULL, bad_tun, 4);
	bad += run_case("TXT query  z<64 chars>.t.example.com", 0, T_TXT, bad_tun, 4);
	bad += run_case("NS query   z<64 chars>.t.example.com", 1, T_NS, bad_tun, 4);
	bad += run_case("A query    z<64 chars>.other.org with -b (forwarded)", 2, T_A, bad_fw, 3);

	if (bad) {
		printf("C10 VIOLATED: iodined emitted %d datagram(s) that are not well-formed "
		       "RFC 1035 messages / do not echo their question\n", bad);
		return 1;
	}
	printf("C10 holds: every datagram emitted is well-formed and echoes its question\n");
	return 0;
}
