#!/bin/sh
# Usage: run.sh <source tree root>
#
# Part 1 drives the REAL server reply writer (write_dns() of iodined.c) and the
# REAL client reply reader (read_dns_withq() of client.c, the way tunnel_dns()
# calls it: 64 kB buffer) back to back, for TXT answers in all five downstream
# codecs, every payload length 2..4096, a shortest and a longest query name,
# three contents (all 0xFF, all 0x00, the fragment size probe pattern). For
# each answer an independent little parser in the driver first confirms that
# the datagram the server wrote is a well-formed TXT record whose strings hold
# the COMPLETE payload (so it did fit the TXT answer format); then the client
# must extract exactly the payload.
#
# Part 2 shows the same thing happening in a session: the real client sets the
# downstream fragment size the way "iodine -m 3000" does, the real server
# accepts it and answers the client's next ping with a 3000-byte fragment.
#
# No tun device, no sockets, no clock: sendto/recvfrom/recvmsg/select are
# replaced with -Wl,--wrap.
#
# exit 0: property holds   exit 1: property violated   exit 2: harness trouble
TREE=$1
if [ -z "$TREE" ] || [ ! -f "$TREE/src/iodined.c" ]; then
	echo "usage: $0 <source tree root>" >&2
	exit 2
fi
TREE=$(cd "$TREE" && pwd) || exit 2
W=$(mktemp -d) || exit 2
trap 'rm -rf "$W"' EXIT

cp "$TREE"/src/*.c "$TREE"/src/*.h "$W"/ || exit 2
cd "$W" || exit 2
# same rule as src/Makefile
sed -e 's/\([Bb][Aa][Ss][Ee]64\)/\1u/g ; s/0123456789+/0123456789_/' < base64.c > base64u.c || exit 2

cat > h_srv.c <<'EOF'
#define main iodined_main
#include "iodined.c"
#undef main
void srv_write(struct query *q, const char *d, int len, char enc);
void srv_setup(const char *td);
void srv_user(char downenc_);
void srv_step(void);
int srv_fragsize(void);
void srv_downstream_packet(const char *d, int len);

void srv_write(struct query *q, const char *d, int len, char enc)
{
	write_dns(99, q, d, len, enc);
}

void srv_setup(const char *td)
{
	topdomain = strdup(td);
	check_ip = 0;
	my_ip = inet_addr("10.0.0.1");
	netmask = 27;
	my_mtu = 4000;		/* iodined -m 4000 */
	created_users = init_users(my_ip, netmask);
}

/* a session that has logged in */
void srv_user(char downenc_)
{
	memset(&users[0].q, 0, sizeof(users[0].q));
	memset(&users[0].q_sendrealsoon, 0, sizeof(users[0].q_sendrealsoon));
	users[0].active = 1;
	users[0].authenticated = 1;
	users[0].last_pkt = time(NULL);
	users[0].downenc = downenc_;
	users[0].encoder = &base32_ops;
	users[0].conn = CONN_DNS_NULL;
	users[0].fragsize = 100;
	users[0].options_locked = 0;
	users[0].lazy = 0;
	users[0].outpacket.len = 0;
	users[0].outpacket.offset = 0;
	users[0].outpacket.sentlen = 0;
	users[0].outpacket.seqno = 0;
	users[0].outpacket.fragment = 0;
	users[0].outfragresent = 0;
	users[0].outpacketq_filled = 0;
	users[0].outpacketq_nexttouse = 0;
	memset(users[0].dnscache_answerlen, 0, sizeof(users[0].dnscache_answerlen));
}

/* one datagram has arrived on the DNS socket */
void srv_step(void)
{
	struct dnsfd fds;
	fds.v4fd = 99;
	fds.v6fd = 97;
	tunnel_dns(-1, 99, &fds, 0);
}

int srv_fragsize(void)
{
	return users[0].fragsize;
}

/* what tunnel_tun() does with a (compressed) packet for this user */
void srv_downstream_packet(const char *d, int len)
{
	start_new_outpacket(0, (char *) d, len);
}
EOF

cat > h_cli.c <<'EOF'
#include "client.c"
int cli_read(char *buf, int buflen, struct query *q);
void cli_setup(const char *td, unsigned short type, char down);
void cli_set_fragsize(int fragsize);
void cli_ping(void);

int cli_read(char *buf, int buflen, struct query *q)
{
	conn = CONN_DNS_NULL;
	return read_dns_withq(98, -1, buf, buflen, q);
}

void cli_setup(const char *td, unsigned short type, char down)
{
	client_init();
	topdomain = td;
	do_qtype = type;
	dataenc = &base32_ops;
	downenc = down;
	userid = 0;
	userid_char = '0';
	userid_char2 = '0';
	hostname_maxlen = 0xFF;
	nameserv_len = sizeof(struct sockaddr_in);
	((struct sockaddr_in *) &nameserv)->sin_family = AF_INET;
}

/* client_handshake() ends with this when -m was given */
void cli_set_fragsize(int fragsize)
{
	handshake_set_fragsize(98, fragsize);
}

void cli_ping(void)
{
	send_ping(98);
}
EOF

cat > h_drv.c <<'EOF'
#include <stdio.h>
#include <stdlib.h>
#include <string.h>
#include <sys/types.h>
#include <sys/socket.h>
#include <sys/select.h>
#include <netinet/in.h>
#include <arpa/nameser.h>
#include "common.h"
#include "encoding.h"

void srv_write(struct query *q, const char *d, int len, char enc);
void srv_setup(const char *td);
void srv_user(char downenc_);
void srv_step(void);
int srv_fragsize(void);
void srv_downstream_packet(const char *d, int len);
int cli_read(char *buf, int buflen, struct query *q);
void cli_setup(const char *td, unsigned short type, char down);
void cli_set_fragsize(int fragsize);
void cli_ping(void);

/* ---- the "network": one datagram each way ---- */
static char toserv[70000];
static int toservlen = -1;
static char tocli[70000];
static int toclilen = -1;
static int session;	/* 1: client datagrams are handed to the server */

ssize_t __wrap_sendto(int fd, const void *b, size_t n, int fl,
		      const struct sockaddr *to, socklen_t tl);
ssize_t __wrap_sendto(int fd, const void *b, size_t n, int fl,
		      const struct sockaddr *to, socklen_t tl)
{
	if (n > sizeof(tocli))
		return n;
	if (fd == 98) {			/* client -> server */
		memcpy(toserv, b, n);
		toservlen = n;
		toclilen = -1;
		if (session)
			srv_step();
	} else {			/* server -> client */
		memcpy(tocli, b, n);
		toclilen = n;
	}
	return n;
}

ssize_t __wrap_recvfrom(int fd, void *b, size_t n, int fl,
			struct sockaddr *from, socklen_t *fl2);
ssize_t __wrap_recvfrom(int fd, void *b, size_t n, int fl,
			struct sockaddr *from, socklen_t *fl2)
{
	int l = toclilen;
	if (l < 0)
		return -1;
	memcpy(b, tocli, l);
	if (session)
		toclilen = -1;
	if (fl2)
		*fl2 = 0;
	return l;
}

ssize_t __wrap_recvmsg(int fd, struct msghdr *m, int fl);
ssize_t __wrap_recvmsg(int fd, struct msghdr *m, int fl)
{
	struct sockaddr_in *sa = m->msg_name;
	int l = toservlen;
	if (l < 0)
		return -1;
	memset(sa, 0, sizeof(*sa));
	sa->sin_family = AF_INET;
	sa->sin_port = htons(4444);
	sa->sin_addr.s_addr = htonl(0x7f000001);
	m->msg_namelen = sizeof(*sa);
	memcpy(m->msg_iov[0].iov_base, toserv, l);
	m->msg_controllen = 0;
	toservlen = -1;
	return l;
}

int __wrap_select(int n, fd_set *r, fd_set *w, fd_set *e, struct timeval *tv);
int __wrap_select(int n, fd_set *r, fd_set *w, fd_set *e, struct timeval *tv)
{
	if (toclilen >= 0)
		return 1;
	if (r)
		FD_ZERO(r);
	return 0;
}

/* ---- independent look at the datagram the server wrote ----
   Returns 1 when it is a well-formed answer with one TXT record whose
   character-strings, put together, are the codec letter followed by the
   complete payload in that codec. */
static int txt_answer_carries(const unsigned char *w, int wl, char enc,
			      const unsigned char *pay, int n)
{
	static unsigned char text[70000];
	static unsigned char dec[70000];
	const struct encoder *c = NULL;
	size_t declen = sizeof(dec) - 1;
	int p = 12, tl = 0, rdlen, end, got;
	char letter;

	if (wl < 12 || !(w[2] & 0x80))
		return 0;			/* not a response */
	if (w[4] != 0 || w[5] != 1 || w[6] != 0 || w[7] != 1)
		return 0;			/* 1 question, 1 answer */
	while (p < wl && w[p] != 0) {		/* question name */
		if (w[p] > 63)
			return 0;
		p += 1 + w[p];
	}
	p += 1 + 4;				/* root label, type, class */
	if (p + 12 > wl || w[p] != 0xc0 || w[p + 1] != 12)
		return 0;			/* owner: pointer to the question */
	if (w[p + 2] != 0 || w[p + 3] != T_TXT)
		return 0;
	rdlen = (w[p + 10] << 8) | w[p + 11];
	p += 12;
	end = p + rdlen;
	if (end != wl)
		return 0;			/* RDATA ends with the datagram */
	while (p < end) {			/* <character-string>s */
		int l = w[p++];
		if (p + l > end)
			return 0;
		memcpy(text + tl, w + p, l);
		tl += l;
		p += l;
	}
	if (tl < 1)
		return 0;
	switch (enc) {
	case 'S': letter = 's'; c = &base64_ops; break;
	case 'U': letter = 'u'; c = &base64u_ops; break;
	case 'V': letter = 'v'; c = &base128_ops; break;
	case 'R': letter = 'r'; break;
	default:  letter = 't'; c = &base32_ops; break;
	}
	if (text[0] != (unsigned char) letter)
		return 0;
	if (!c)
		return tl - 1 == n && memcmp(text + 1, pay, n) == 0;
	got = c->decode(dec, &declen, (char *) text + 1, tl - 1);
	return got == n && memcmp(dec, pay, n) == 0;
}

static void fill(unsigned char *p, int n, int pat)
{
	int i;
	unsigned v = 0x35;

	switch (pat) {
	case 0:
		memset(p, 0xff, n);
		break;
	case 1:
		memset(p, 0x00, n);
		break;
	default:	/* what the server answers to a fragment size probe */
		memset(p, 0, n);
		p[0] = (n >> 8) & 0xff;
		p[1] = n & 0xff;
		if (n > 2)
			p[2] = 107;
		for (i = 3; i < n; i++, v = (v + 107) & 0xff)
			p[i] = v;
		break;
	}
}

static const char encs[] = "TSUVR";
static unsigned char pay[5000];
static char out[70000];

static int part1(void)
{
	char names[2][256];
	int nm, e, pat, n, i, k;
	int bad = 0;

	strcpy(names[0], "r.t");
	for (i = 0, k = 0; i < 253; i++) {	/* 253 characters: the longest */
		if (k == 63) {
			names[1][i] = '.';
			k = 0;
		} else {
			names[1][i] = 'a' + (i % 26);
			k++;
		}
	}
	names[1][251] = '.';
	names[1][252] = 't';
	names[1][253] = 0;

	for (e = 0; e < 5; e++) {
		int first_lost = -1, last_lost = -1, lost = 0, other = 0;

		for (nm = 0; nm < 2; nm++)
		for (pat = 0; pat < 3; pat++)
		for (n = 2; n <= 4096; n++) {
			struct query q, rq;
			int rv;

			memset(&q, 0, sizeof(q));
			q.type = T_TXT;
			q.id = 0x1234;
			strcpy(q.name, names[nm]);
			fill(pay, n, pat);
			toclilen = -1;
			srv_write(&q, (char *) pay, n, encs[e]);
			if (toclilen < 0) {
				printf("harness: the server wrote no answer (TXT/%c, %d bytes)\n", encs[e], n);
				return 2;
			}
			if (!txt_answer_carries((unsigned char *) tocli, toclilen, encs[e], pay, n)) {
				printf("harness: the server's TXT/%c answer for %d bytes does not hold the payload\n", encs[e], n);
				return 2;
			}
			/* the payload fits the TXT answer: it is all there */
			memset(out, 0xA5, sizeof(out));
			memset(&rq, 0, sizeof(rq));
			rv = cli_read(out, 65536, &rq);
			if (rv < 0)
				rv = 0;
			if (rv == n && memcmp(out, pay, n) == 0)
				continue;
			if (rv == 0) {
				lost++;
				if (first_lost < 0 || n < first_lost)
					first_lost = n;
				if (n > last_lost)
					last_lost = n;
			} else {
				other++;
				if (other < 5)
					printf("VIOLATED: TXT answer, codec %c, payload %d bytes: client extracted %d bytes%s\n",
					       encs[e], n, rv,
					       (rv > n || memcmp(out, pay, rv)) ? ", different bytes" : "");
			}
		}
		if (lost)
			printf("VIOLATED: TXT answer, codec %c: payloads of %d..%d bytes are completely in the server's answer, "
			       "but the client extracts nothing from it (%d answers)\n",
			       encs[e], first_lost, last_lost, lost);
		else if (!other)
			printf("ok: TXT answer, codec %c: every payload of 2..4096 bytes extracted exactly\n", encs[e]);
		bad += lost + other;
	}
	return bad ? 1 : 0;
}

/* For comparison: the other formats that take a payload of any size */
static void compare(void)
{
	static const unsigned short types[] = { T_NULL, T_SRV, T_MX };
	static const char *tn[] = { "NULL", "SRV", "MX" };
	int t, n, rv;

	for (t = 0; t < 3; t++) {
		int exact = 0;

		for (n = 2; n <= 4096; n++) {
			struct query q, rq;

			memset(&q, 0, sizeof(q));
			q.type = types[t];
			q.id = 0x1234;
			strcpy(q.name, "r.t");
			fill(pay, n, 2);
			toclilen = -1;
			srv_write(&q, (char *) pay, n, 'T');
			memset(&rq, 0, sizeof(rq));
			rv = toclilen < 0 ? 0 : cli_read(out, 65536, &rq);
			if (rv == n && memcmp(out, pay, n) == 0)
				exact++;
		}
		printf("for comparison: %s answer, codec T: %d of 4095 payload lengths 2..4096 extracted exactly\n",
		       tn[t], exact);
	}
}

static int part2(void)
{
	static const unsigned short types[] = { T_NULL, T_SRV, T_TXT };
	static const char *tn[] = { "NULL", "SRV", "TXT" };
	static char packet[3000];
	int t, i, bad = 0;

	for (i = 0; i < (int) sizeof(packet); i++)
		packet[i] = (i * 7 + 3) & 0xff;

	srv_setup("t.example.com");
	for (t = 0; t < 3; t++) {
		struct query rq;
		int rv;

		srv_user('T');
		cli_setup("t.example.com", types[t], 'T');
		session = 1;
		cli_set_fragsize(3000);		/* iodine -m 3000 */
		if (srv_fragsize() != 3000) {
			printf("harness: the server did not take the fragment size\n");
			return 2;
		}
		srv_downstream_packet(packet, sizeof(packet));
		cli_ping();			/* answered with the fragment */
		session = 0;
		if (toclilen < 0) {
			printf("harness: the ping got no answer\n");
			return 2;
		}
		memset(out, 0xA5, sizeof(out));
		memset(&rq, 0, sizeof(rq));
		rv = cli_read(out, 65536, &rq);
		if (rv < 0)
			rv = 0;
		if (rv == 3002 && memcmp(out + 2, packet, 3000) == 0) {
			printf("session, %s: fragment size 3000 accepted by the server, ping answered with a %d-byte datagram, "
			       "client extracted header + 3000 bytes, exact\n", tn[t], toclilen);
		} else {
			printf("VIOLATED in a session, %s: fragment size 3000 accepted by the server, ping answered with a "
			       "%d-byte datagram holding header + 3000 bytes, client extracted %d bytes\n",
			       tn[t], toclilen, rv);
			bad++;
		}
	}
	return bad ? 1 : 0;
}

int main(void)
{
	int r1, r2;

	r1 = part1();
	if (r1 == 2)
		return 2;
	compare();
	r2 = part2();
	if (r2 == 2)
		return 2;
	if (r1 || r2) {
		printf("C09 violated: a payload that fits a TXT answer (the server's answer holds all of it) "
		       "is not what the client extracts\n");
		return 1;
	}
	printf("C09 holds for TXT answers: all five codecs, every payload length 2..4096, both query names\n");
	return 0;
}
EOF

CF="-std=c99 -O1 -w -DLINUX -D_GNU_SOURCE -DGITREVISION=\"demo\" -I."
OBJS=""
for f in tun dns read encoding login base32 base64 base64u base128 md5 common user fw_query util h_srv h_cli h_drv; do
	cc $CF -c $f.c -o $f.o 2> cc.log || { cat cc.log >&2; echo "harness: cannot compile $f.c" >&2; exit 2; }
	OBJS="$OBJS $f.o"
done
cc -o h_drv $OBJS -Wl,--wrap=sendto -Wl,--wrap=recvfrom -Wl,--wrap=recvmsg -Wl,--wrap=select -lz 2> ld.log \
	|| { cat ld.log >&2; echo "harness: cannot link" >&2; exit 2; }

./h_drv 2> stderr.log
rc=$?
case $rc in
0|1|2) exit $rc ;;
*) cat stderr.log >&2; echo "harness: driver died with status $rc" >&2; exit 2 ;;
esac
