/* Server side of the harness: the real iodined.c, with main() renamed, in its
   own translation unit (its static functions have the same names as those of
   client.c). The server runs its real select loop tunnel(). */
#define main iodined_main
#include "iodined.c"
#undef main

#include "harness.h"

void srv_fiber(void)
{
	struct dnsfd fds;

	topdomain = "t.example";
	memset(password, 0, sizeof(password));
	strcpy(password, "secret");
	my_ip = inet_addr("10.0.0.1");
	netmask = 27;
	my_mtu = 1130;
	ns_ip = INADDR_ANY;
	check_ip = 1;
	debug = 0;
	running = 1;
	created_users = init_users(my_ip, netmask);
	fw_query_init();

	fds.v4fd = DNS_FD_S;
	fds.v6fd = -1;
	tunnel(TUN_FD_S, &fds, 0, 0);
}

uint32_t srv_user_ip(int userid)
{
	return users[userid].tun_ip;
}
