#ifndef HARNESS_H
#define HARNESS_H
#include <stdint.h>

#define TUN_FD_C 10
#define DNS_FD_C 11
#define TUN_FD_S 20
#define DNS_FD_S 21

void srv_fiber(void);
uint32_t srv_user_ip(int userid);

#endif
