#!/bin/sh
# usage: run.sh <source tree root>
# exit 0: property holds, 1: property violated, 2: harness trouble
TREE="$1"
[ -n "$TREE" ] && [ -f "$TREE/src/client.c" ] || { echo "usage: $0 <source tree root>"; exit 2; }
TREE=$(cd "$TREE" && pwd)
HERE=$(cd "$(dirname "$0")" && pwd)
W=$(mktemp -d) || exit 2
trap 'rm -rf "$W"' EXIT

S="$TREE/src"
# base64u.c is produced by the project's Makefile in the same way
{ echo '/* generated */'; sed -e 's/\([Bb][Aa][Ss][Ee]64\)/\1u/g ; s/0123456789+/0123456789_/' < "$S/base64.c"; } > "$W/base64u.c" || exit 2

CFLAGS="-std=gnu99 -g -O0 -w -DLINUX -D_GNU_SOURCE -DGITREVISION=\"demo\" -I$S -I$HERE"
WRAP="-Wl,--wrap=select -Wl,--wrap=sendto -Wl,--wrap=recvfrom -Wl,--wrap=recvmsg -Wl,--wrap=time -Wl,--wrap=syslog"

cc $CFLAGS -o "$W/demo" \
	"$HERE/harness.c" "$HERE/scenario.c" "$HERE/srv.c" \
	"$S/client.c" "$S/util.c" "$S/user.c" "$S/fw_query.c" \
	"$S/dns.c" "$S/read.c" "$S/encoding.c" "$S/login.c" "$S/md5.c" "$S/common.c" \
	"$S/base32.c" "$S/base64.c" "$W/base64u.c" "$S/base128.c" \
	$WRAP -lz > "$W/build.log" 2>&1 || { echo "HARNESS: build failed"; cat "$W/build.log"; exit 2; }

"$W/demo" 2> "$W/stderr.log"
rc=$?
case $rc in
0|1) ;;
*) echo "HARNESS: trouble (exit $rc)"; tail -20 "$W/stderr.log"; rc=2 ;;
esac
exit $rc
