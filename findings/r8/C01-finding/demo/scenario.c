/*
 * Scenario: one answer of the server is duplicated by the network and the copy
 * arrives eight downstream packets later (it is the answer to the query the client sent
 * 9 queries before its latest one; the client accepts answers to its last 16 queries).
 *
 *   X   two-fragment packet, first packet the server sends   (seqno 1)
 *   P2..P8  seven small packets                              (seqno 2..7,0)
 *   late copy of the answer that carried fragment 0 of X     (seqno 1)
 *   Y   two-fragment packet                                  (seqno 1 again)
 *
 * X and Y are incompressible (zlib stores them) and are chosen so that
 * "fragment 0 of X + fragment 1 of Y" has the Adler-32 of Y.
 */
#include <stdio.h>
#include <stdlib.h>
#include <string.h>
#include <stdint.h>
#include <zlib.h>

#include "harness.h"
#include "sim.h"

char *sim_qtype = "NULL";
char *sim_downenc = NULL;
int sim_lazy = 1;
int sim_fragsize = 600;

#define BIG 1000
#define SMALL 100

static uint32_t lcg = 12345;
static unsigned char rnd(void)
{
	lcg = lcg * 1103515245u + 12345u;
	return (lcg >> 16) & 0xff;
}

static void mkpacket(unsigned char *p, int len, uint32_t dst)
{
	int i;
	for (i = 0; i < len; i++)
		p[i] = rnd();
	p[0] = 0; p[1] = 0; p[2] = 8; p[3] = 0;	/* tun header: IPv4 */
	p[4] = 0x45;
	memcpy(p + 4 + 16, &dst, 4);			/* ip_dst: the client */
}

static int hold_next_answer = 0;
static long queries_at_dup;
static int hook(int to_side, const unsigned char *data, int len)
{
	if (to_side == F_CLI && hold_next_answer) {
		hold_next_answer = 0;
		queries_at_dup = sent_count[F_CLI];
		return NET_HOLDCOPY;	/* delivered now, and once more later */
	}
	return 0;
}

static void step(void)
{
	/* 100 ms: long enough for everything in flight to settle, short
	   enough that the client sends no keep-alive pings of its own */
	run_for(100000);
}

int scenario(void)
{
	unsigned char X[BIG], Y[BIG], M[BIG], P[8][SMALL];
	unsigned char cx[2048], cy[2048], cm[2048], um[2048];
	unsigned long lx = sizeof(cx), ly = sizeof(cy), lu = sizeof(um);
	uint32_t dst;
	int i, split, bad;

	sim_start();
	run_for(3000000);
	if (!client_in_tunnel) {
		printf("HARNESS: handshake did not finish\n");
		return 2;
	}
	dst = srv_user_ip(0);

	/* the packets */
	mkpacket(X, BIG, dst);
	X[100] = 0x40; X[101] = 0x40; X[102] = 0x40;
	memcpy(Y, X, BIG);
	Y[100] += 1; Y[101] -= 2; Y[102] += 1;	/* leaves Adler-32 as it is */
	for (i = 700; i < BIG; i++)
		Y[i] = rnd();			/* another ending */
	for (i = 0; i < 8; i++)
		mkpacket(P[i], SMALL, dst);

	/* what a mix of the two would be: start of X, rest of Y */
	compress2(cx, &lx, X, BIG, 9);
	compress2(cy, &ly, Y, BIG, 9);
	if (lx != ly || lx <= (unsigned long) sim_fragsize || lx > 2 * (unsigned long) sim_fragsize) {
		printf("HARNESS: packets do not compress as planned (%lu, %lu)\n", lx, ly);
		return 2;
	}
	split = sim_fragsize;
	memcpy(cm, cx, split);
	memcpy(cm + split, cy + split, ly - split);
	if (uncompress(um, &lu, cm, ly) != Z_OK || lu != BIG) {
		printf("HARNESS: the mix is not a valid zlib stream\n");
		return 2;
	}
	memcpy(M, um, BIG);
	if (!memcmp(M, X, BIG) || !memcmp(M, Y, BIG)) {
		printf("HARNESS: the mix equals one of the packets\n");
		return 2;
	}

	net_hook = hook;

	/* X: the answer with its first fragment is duplicated */
	hold_next_answer = 1;
	inject_tun(F_SRV, X, BIG);
	step();
	if (n_delivered(F_CLI) != 1) {
		printf("HARNESS: X not delivered (%d)\n", n_delivered(F_CLI));
		return 2;
	}

	/* seven small packets */
	for (i = 1; i <= 7; i++) {
		inject_tun(F_SRV, P[i], SMALL);
		step();
	}
	if (n_delivered(F_CLI) != 8) {
		printf("HARNESS: small packets not delivered (%d)\n", n_delivered(F_CLI));
		return 2;
	}

	/* now the copy arrives */
	if (release_held() != 1) {
		printf("HARNESS: no copy was held\n");
		return 2;
	}
	printf("the copy answers the query the client sent %ld queries before its latest one\n",
	       sent_count[F_CLI] - queries_at_dup);
	step();

	/* Y */
	inject_tun(F_SRV, Y, BIG);
	run_for(10000000);

	printf("client wrote %d packets to its tun device; Y %s, X-start+Y-rest mix %s\n",
	       n_delivered(F_CLI),
	       was_delivered(F_CLI, Y, BIG) ? "delivered" : "not delivered",
	       was_delivered(F_CLI, M, BIG) ? "DELIVERED" : "not delivered");

	bad = check_integrity();
	if (bad) {
		printf("PROPERTY VIOLATED: the client wrote to its tun device a packet made of "
		       "fragment 0 of one packet and fragment 1 of another (C01: never merges)\n");
		return 1;
	}
	printf("property holds: every packet written to a tun device was read from the peer's\n");
	return 0;
}
