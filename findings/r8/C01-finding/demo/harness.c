/*
 * Deterministic harness: the real iodine client (client.c: client_handshake(),
 * client_tunnel()) and the real iodined server (iodined.c: tunnel()) run as two
 * fibers in one process. The libc calls they use to talk to the world are
 * replaced with -Wl,--wrap= (select, sendto, recvfrom, recvmsg, time, syslog),
 * tun.c is replaced by the stub below. Time is simulated; nothing sleeps.
 *
 * The scenario (scenario.c) injects packets into either tun device, steers the
 * "network" (drop / duplicate and hold back / release datagrams) and at the
 * end compares every packet written to a tun device with the packets that
 * were read from the tun device of the peer.
 */
#define _GNU_SOURCE
#include <stdio.h>
#include <stdlib.h>
#include <string.h>
#include <stdarg.h>
#include <ucontext.h>
#include <time.h>
#include <sys/types.h>
#include <sys/socket.h>
#include <sys/select.h>
#include <netinet/in.h>
#include <arpa/inet.h>

#include "common.h"
#include "tun.h"
#include "client.h"
#include "harness.h"
#include "sim.h"

#define STACKSZ (16 * 1024 * 1024)
#define NEVER 0x7fffffffffffffffLL

static ucontext_t main_ctx, fctx[2];
static int cur = F_NONE;
long long now_us = 0;
int client_in_tunnel = 0;

struct fstate {
	int started, done, blocked;
	int want_tun, want_dns;
	int wake_tun, wake_dns;
	long long deadline;
} fs[2];

struct blob { int len; unsigned char *data; };
struct list { int n; struct blob b[4096]; };

static struct list netq[2];	/* datagrams waiting for side x */
static struct list tunq[2];	/* packets waiting on the tun device of side x */
struct list offered[2];		/* what read_tun() handed to side x */
struct list delivered[2];	/* what side x gave to write_tun() */
static struct list held;	/* datagrams (for the client) held back */
static int held_to[4096];

int (*net_hook)(int to_side, const unsigned char *data, int len) = NULL;
long sent_count[2];

static void push(struct list *l, const void *p, int len)
{
	if (l->n >= 4096) { printf("HARNESS: list overflow\n"); exit(2); }
	l->b[l->n].len = len;
	l->b[l->n].data = malloc(len ? len : 1);
	memcpy(l->b[l->n].data, p, len);
	l->n++;
}

static int pop(struct list *l, void *p, int cap)
{
	int len;
	if (l->n == 0) return -1;
	len = l->b[0].len < cap ? l->b[0].len : cap;
	memcpy(p, l->b[0].data, len);
	free(l->b[0].data);
	memmove(&l->b[0], &l->b[1], (l->n - 1) * sizeof(l->b[0]));
	l->n--;
	return len;
}

/* ---------- replaced libc calls ---------- */

int __real_select(int, fd_set *, fd_set *, fd_set *, struct timeval *);
int __wrap_select(int n, fd_set *r, fd_set *w, fd_set *e, struct timeval *tv)
{
	int me = cur;
	struct fstate *f;

	if (me == F_NONE)
		return __real_select(n, r, w, e, tv);
	f = &fs[me];
	f->want_tun = FD_ISSET(me == F_CLI ? TUN_FD_C : TUN_FD_S, r) ? 1 : 0;
	f->want_dns = FD_ISSET(me == F_CLI ? DNS_FD_C : DNS_FD_S, r) ? 1 : 0;
	if (me == F_CLI && f->want_tun)
		client_in_tunnel = 1;
	f->deadline = tv ? now_us + (long long) tv->tv_sec * 1000000 + tv->tv_usec : NEVER;
	f->blocked = 1;
	cur = F_NONE;
	swapcontext(&fctx[me], &main_ctx);
	/* woken up by the scheduler */
	FD_ZERO(r);
	if (f->wake_tun) FD_SET(me == F_CLI ? TUN_FD_C : TUN_FD_S, r);
	if (f->wake_dns) FD_SET(me == F_CLI ? DNS_FD_C : DNS_FD_S, r);
	return f->wake_tun + f->wake_dns;
}

static void fill_from(struct sockaddr *sa, socklen_t *len, int to_side)
{
	struct sockaddr_in a;
	memset(&a, 0, sizeof(a));
	a.sin_family = AF_INET;
	a.sin_port = htons(to_side == F_SRV ? 40000 : 53);
	a.sin_addr.s_addr = inet_addr(to_side == F_SRV ? "192.0.2.7" : "192.0.2.53");
	if (sa && len && *len >= sizeof(a)) {
		memcpy(sa, &a, sizeof(a));
		*len = sizeof(a);
	}
}

ssize_t __wrap_sendto(int fd, const void *buf, size_t len, int flags,
		      const struct sockaddr *to, socklen_t tolen)
{
	int dest = (cur == F_CLI) ? F_SRV : F_CLI;
	int act = 0;

	if (cur == F_NONE) { printf("HARNESS: sendto outside fiber\n"); exit(2); }
	sent_count[cur]++;
	if (net_hook)
		act = net_hook(dest, buf, (int) len);
	if (act & NET_HOLDCOPY) {
		held_to[held.n] = dest;
		push(&held, buf, (int) len);
	}
	if (!(act & NET_DROP))
		push(&netq[dest], buf, (int) len);
	return len;
}

ssize_t __wrap_recvfrom(int fd, void *buf, size_t len, int flags,
			struct sockaddr *from, socklen_t *fromlen)
{
	int r = pop(&netq[cur], buf, (int) len);
	if (r < 0) { printf("HARNESS: recvfrom on empty queue\n"); exit(2); }
	fill_from(from, fromlen, cur);
	return r;
}

ssize_t __wrap_recvmsg(int fd, struct msghdr *msg, int flags)
{
	socklen_t l = msg->msg_namelen;
	int r = pop(&netq[cur], msg->msg_iov[0].iov_base, (int) msg->msg_iov[0].iov_len);
	if (r < 0) { printf("HARNESS: recvmsg on empty queue\n"); exit(2); }
	fill_from(msg->msg_name, &l, cur);
	msg->msg_namelen = l;
	msg->msg_controllen = 0;
	return r;
}

time_t __wrap_time(time_t *t)
{
	time_t v = 1500000000 + (time_t) (now_us / 1000000);
	if (t) *t = v;
	return v;
}

void __wrap_syslog(int pri, const char *fmt, ...) { }

/* ---------- tun.c replacement: the observation points ---------- */

int open_tun(const char *dev) { return TUN_FD_C; }
void close_tun(int fd) { }
int tun_setip(const char *ip, const char *other, int bits) { return 0; }
int tun_setmtu(const unsigned mtu) { return 0; }

ssize_t read_tun(int fd, char *buf, size_t len)
{
	int r = pop(&tunq[cur], buf, (int) len);
	if (r < 0) { printf("HARNESS: read_tun on empty queue\n"); exit(2); }
	push(&offered[cur], buf, r);
	return r;
}

int write_tun(int fd, char *data, size_t len)
{
	push(&delivered[cur], data, (int) len);
	return 0;
}

/* ---------- fibers and scheduler ---------- */

static char cli_password[33] = "secret";	/* login_calculate() reads 32 bytes */

static void cli_fiber(void)
{
	struct sockaddr_storage ns;
	struct sockaddr_in *a = (struct sockaddr_in *) &ns;

	memset(&ns, 0, sizeof(ns));
	a->sin_family = AF_INET;
	a->sin_port = htons(53);
	a->sin_addr.s_addr = inet_addr("192.0.2.53");

	client_init();
	client_set_nameserver(&ns, sizeof(*a));
	client_set_topdomain("t.example");
	client_set_password(cli_password);
	client_set_qtype(sim_qtype);
	client_set_selecttimeout(4);
	client_set_lazymode(sim_lazy);
	client_set_hostname_maxlen(0xFF);
	if (sim_downenc)
		client_set_downenc(sim_downenc);

	if (client_handshake(DNS_FD_C, 0, 0, sim_fragsize)) {
		printf("HARNESS: handshake failed\n");
		exit(2);
	}
	client_tunnel(TUN_FD_C, DNS_FD_C);
}

static void fiber_entry(int which)
{
	if (which == F_CLI) cli_fiber(); else srv_fiber();
	fs[which].done = 1;
	cur = F_NONE;
	swapcontext(&fctx[which], &main_ctx);
}

static void resume(int which)
{
	fs[which].blocked = 0;
	cur = which;
	swapcontext(&main_ctx, &fctx[which]);
	if (fs[which].done) {
		printf("HARNESS: %s stopped unexpectedly\n", which == F_CLI ? "client" : "server");
		exit(2);
	}
}

void sim_start(void)
{
	int i;
	for (i = 1; i >= 0; i--) {	/* server first */
		getcontext(&fctx[i]);
		fctx[i].uc_stack.ss_sp = malloc(STACKSZ);
		fctx[i].uc_stack.ss_size = STACKSZ;
		fctx[i].uc_link = &main_ctx;
		makecontext(&fctx[i], (void (*)(void)) fiber_entry, 1, i);
		fs[i].started = 1;
		resume(i);
	}
}

/* Run until simulated time has advanced by us. Datagrams and tun packets are
   handed over as soon as the receiver waits for them (server first). */
void run_for(long long us)
{
	long long end = now_us + us;
	int guard = 0;

	for (;;) {
		int i, woke = 0;
		long long dl;
		int who;

		if (++guard > 2000000) { printf("HARNESS: runaway loop\n"); exit(2); }
		for (i = 1; i >= 0 && !woke; i--) {
			struct fstate *f = &fs[i];
			if (!f->blocked) continue;
			f->wake_dns = (f->want_dns && netq[i].n > 0);
			f->wake_tun = (f->want_tun && tunq[i].n > 0);
			if (f->wake_dns || f->wake_tun) {
				resume(i);
				woke = 1;
			}
		}
		if (woke) continue;

		who = -1; dl = NEVER;
		for (i = 1; i >= 0; i--)
			if (fs[i].blocked && fs[i].deadline < dl) { dl = fs[i].deadline; who = i; }
		if (who < 0 || dl > end) {
			now_us = end;
			return;
		}
		if (dl > now_us) now_us = dl;
		fs[who].wake_dns = fs[who].wake_tun = 0;
		resume(who);
	}
}

void inject_tun(int side, const void *p, int len)
{
	push(&tunq[side], p, len);
}

int tun_backlog(int side) { return tunq[side].n; }

int release_held(void)
{
	int n = held.n, i;
	for (i = 0; i < n; i++) {
		push(&netq[held_to[i]], held.b[i].data, held.b[i].len);
		free(held.b[i].data);
	}
	held.n = 0;
	return n;
}

int n_delivered(int side) { return delivered[side].n; }

static int in_list(struct list *l, struct blob *b)
{
	int i;
	for (i = 0; i < l->n; i++)
		if (l->b[i].len == b->len && !memcmp(l->b[i].data, b->data, b->len))
			return 1;
	return 0;
}

/* Every packet written to a tun device must be byte-identical to one read
   from the peer's tun device. Returns the number of packets that are not. */
int check_integrity(void)
{
	int side, i, bad = 0;

	for (side = 0; side < 2; side++) {
		for (i = 0; i < delivered[side].n; i++) {
			if (!in_list(&offered[1 - side], &delivered[side].b[i])) {
				printf("VIOLATION: %s wrote a %d-byte packet to its tun device "
				       "(its write #%d) that was never read from the %s's tun device\n",
				       side == F_CLI ? "client" : "server",
				       delivered[side].b[i].len, i + 1,
				       side == F_CLI ? "server" : "client");
				bad++;
			}
		}
	}
	return bad;
}

int was_delivered(int side, const void *p, int len)
{
	struct blob b;
	b.len = len; b.data = (unsigned char *) p;
	return in_list(&delivered[side], &b);
}

int main(void)
{
	setvbuf(stdout, NULL, _IOLBF, 0);
	return scenario();
}
