#ifndef SIM_H
#define SIM_H

enum { F_NONE = -1, F_CLI = 0, F_SRV = 1 };

#define NET_DROP	1	/* do not deliver this datagram */
#define NET_HOLDCOPY	2	/* keep a copy; release_held() delivers it later */

/* set by the scenario before sim_start() */
extern char *sim_qtype;		/* -T */
extern char *sim_downenc;	/* -O or NULL */
extern int sim_lazy;		/* -L */
extern int sim_fragsize;	/* -m */

extern long long now_us;
extern int client_in_tunnel;
extern long sent_count[2];
/* called for every datagram sent; to_side is the receiver */
extern int (*net_hook)(int to_side, const unsigned char *data, int len);

void sim_start(void);
void run_for(long long us);
void inject_tun(int side, const void *p, int len);
int tun_backlog(int side);
int release_held(void);
int n_delivered(int side);
int was_delivered(int side, const void *p, int len);
int check_integrity(void);

int scenario(void);

#endif
