#!/bin/sh
# usage: run.sh <source tree root>
# exit 1: the tree violates the property (undefined behaviour while a datagram
#         is processed), exit 0: it does not, exit 2: harness trouble.
#
# Drives the real iodined code (src/iodined.c with main() renamed, linked
# with the real dns.c, read.c, common.c, ...): one UDP datagram is handed to
# tunnel_dns() through a wrapped recvmsg(). Every call iodined makes to
# tolower() goes through a checking wrapper (-Wl,--wrap=tolower) that records
# arguments outside the domain for which ISO C defines the function
# (EOF or 0..UCHAR_MAX, C11 7.4p1).
TREE="$1"
[ -n "$TREE" ] && [ -f "$TREE/src/iodined.c" ] || { echo "usage: $0 <source tree root>"; exit 2; }
TREE=$(cd "$TREE" && pwd)
W=$(mktemp -d) || exit 2
trap 'rm -rf "$W"' EXIT
S="$TREE/src"

sed -e 's/\([Bb][Aa][Ss][Ee]64\)/\1u/g ; s/0123456789+/0123456789_/' < "$S/base64.c" > "$W/base64u.c" || exit 2

cat > "$W/demo.c" <<'EOC'
#define main iodined_main
#include "iodined.c"
#undef main
#include <limits.h>
#include <ctype.h>

/* ---- what the wrapped calls see ---- */
static unsigned char dgram[512];
static int dgram_len;
static int replies;
static int bad_calls;
static int first_bad;

int __real_tolower(int c);
int __wrap_tolower(int c)
{
	if (c != EOF && (c < 0 || c > UCHAR_MAX)) {
		if (!bad_calls)
			first_bad = c;
		bad_calls++;
	}
	return __real_tolower(c);
}

ssize_t __wrap_recvmsg(int fd, struct msghdr *msg, int flags)
{
	struct sockaddr_in from;

	(void) fd; (void) flags;
	memcpy(msg->msg_iov[0].iov_base, dgram, dgram_len);
	memset(&from, 0, sizeof(from));
	from.sin_family = AF_INET;
	from.sin_addr.s_addr = htonl(0xc0a80102);
	from.sin_port = htons(40000);
	memcpy(msg->msg_name, &from, sizeof(from));
	msg->msg_namelen = sizeof(from);
	msg->msg_controllen = 0;
	return dgram_len;
}

ssize_t __wrap_sendto(int fd, const void *buf, size_t len, int flags,
		      const struct sockaddr *to, socklen_t tolen)
{
	(void) fd; (void) buf; (void) flags; (void) to; (void) tolen;
	replies++;
	return len;
}

void __wrap_syslog(int pri, const char *fmt, ...) { (void) pri; (void) fmt; }

/* tun.c is not linked: no tun device here */
int open_tun(const char *dev) { (void) dev; return 9; }
void close_tun(int fd) { (void) fd; }
int write_tun(int fd, char *data, size_t len) { (void) fd; (void) data; (void) len; return 0; }
ssize_t read_tun(int fd, char *buf, size_t len) { (void) fd; (void) buf; (void) len; return 0; }
int tun_setip(const char *ip, const char *other, int bits) { (void) ip; (void) other; (void) bits; return 0; }
int tun_setmtu(const unsigned mtu) { (void) mtu; return 0; }

/* question for the name given as labels, one per string */
static int question(unsigned char *out, const char **labels, int type)
{
	unsigned char *p = out;
	int i;

	*p++ = 0x12; *p++ = 0x34;	/* id */
	*p++ = 0x01; *p++ = 0x00;	/* query, RD */
	*p++ = 0; *p++ = 1;		/* one question */
	memset(p, 0, 6); p += 6;
	for (i = 0; labels[i]; i++) {
		*p++ = strlen(labels[i]);
		memcpy(p, labels[i], strlen(labels[i]));
		p += strlen(labels[i]);
	}
	*p++ = 0;
	*p++ = type >> 8; *p++ = type;
	*p++ = 0; *p++ = 1;		/* IN */
	return p - out;
}

int main(void)
{
	/* www.exampl<E9>.com, the Latin-1 spelling of "www.example.com" with
	   e-acute: an ordinary type A question, asked of a server whose
	   tunnel domain is example.com */
	const char *labels[] = { "www", "exampl\351", "com", NULL };
	struct dnsfd fds;

	topdomain = strdup("example.com");
	strcpy(password, "secret");
	check_ip = 1;
	my_ip = inet_addr("10.0.0.1");
	netmask = 27;
	created_users = init_users(my_ip, netmask);
	fw_query_init();
	fds.v4fd = 7;
	fds.v6fd = -1;

	dgram_len = question(dgram, labels, T_A);
	tunnel_dns(9, fds.v4fd, &fds, 0);

	if (bad_calls) {
		printf("VIOLATED: while processing one 33-byte DNS question for "
		       "\"www.exampl\\351.com\" iodined called tolower(%d) "
		       "(%d call%s with an argument that is neither EOF nor "
		       "representable as unsigned char): undefined behaviour, "
		       "C11 7.4p1; call site query_datalen(), src/common.c\n",
		       first_bad, bad_calls, bad_calls == 1 ? "" : "s");
		return 1;
	}
	printf("ok: every tolower() argument was in 0..UCHAR_MAX "
	       "(datagram processed, %d replies)\n", replies);
	return 0;
}
EOC

# -O0 and -fno-builtin: tolower() stays a real call that --wrap can see
CFLAGS="-std=gnu99 -O0 -g -fno-builtin -w -D_GNU_SOURCE -DLINUX -DGITREVISION=\"demo\" -I$S"
cc $CFLAGS -o "$W/demo" "$W/demo.c" "$S/dns.c" "$S/read.c" "$S/encoding.c" \
	"$S/login.c" "$S/base32.c" "$S/base64.c" "$W/base64u.c" "$S/base128.c" \
	"$S/md5.c" "$S/common.c" "$S/user.c" "$S/fw_query.c" -lz \
	-Wl,--wrap=tolower,--wrap=recvmsg,--wrap=sendto,--wrap=syslog \
	> "$W/build.log" 2>&1 || { cat "$W/build.log"; echo "harness: build failed"; exit 2; }

"$W/demo"
rc=$?
case $rc in
0|1) exit $rc ;;
*) echo "harness: demo ended with status $rc"; exit 2 ;;
esac
