/*
 * Demo harness: the REAL iodine client (src/client.c is #included, so that its
 * static functions run unchanged) talks to a small scripted peer.  Only the
 * system calls are replaced (recvfrom/recv/sendto/select/time/sleep, by
 * macros that are in force while client.c is compiled) and the tun device
 * (write_tun/read_tun/tun_setip/tun_setmtu are provided here instead of
 * src/tun.c).  Replies are built with the real dns_encode().
 *
 * Scenarios (argv[1]):
 *   raw-control   raw mode, only the server sends raw frames
 *   raw-spoof     raw mode, a third party sends a raw data frame as well
 *   rawlogin-control  raw login on a quiet path
 *   rawlogin-stray    four datagrams that answer nothing arrive while the
 *                     client waits for the reply to its raw login
 *   dns-control   DNS mode, two-fragment downstream packet, no forgery
 *   dns-forged    DNS mode, a reply under a never-sent id arrives between
 *                 the two fragments
 * Exit code: 0 = property holds, 1 = violated, 2 = harness trouble.
 */
#define _GNU_SOURCE
#include <ctype.h>
#include <stdio.h>
#include <stdint.h>
#include <stdlib.h>
#include <stdarg.h>
#include <string.h>
#include <strings.h>
#include <signal.h>
#include <unistd.h>
#include <sys/param.h>
#include <sys/time.h>
#include <sys/select.h>
#include <sys/socket.h>
#include <fcntl.h>
#include <zlib.h>
#include <time.h>
#include <err.h>
#include <arpa/nameser.h>
#include <grp.h>
#include <pwd.h>
#include <netdb.h>
#include <netinet/in.h>
#include <arpa/inet.h>

static ssize_t my_recvfrom(int fd, void *buf, size_t len, int flags,
			   struct sockaddr *from, socklen_t *fromlen);
static ssize_t my_recv(int fd, void *buf, size_t len, int flags);
static int my_select(int n, fd_set *r, fd_set *w, fd_set *e, struct timeval *tv);
static ssize_t my_sendto(int fd, const void *buf, size_t len, int flags,
			 const struct sockaddr *to, socklen_t tolen);
static time_t my_time(time_t *t);
static unsigned my_sleep(unsigned s);

#define recvfrom my_recvfrom
#define recv my_recv
#define select my_select
#define sendto my_sendto
#define time my_time
#define sleep my_sleep

#include "client.c"		/* the real client, found with -I<tree>/src */

#undef recvfrom
#undef recv
#undef select
#undef sendto
#undef time
#undef sleep

#define DNSFD 5
#define TUNFD 4

static void trouble(const char *fmt, ...)
{
	va_list ap;
	va_start(ap, fmt);
	fprintf(stderr, "HARNESS TROUBLE: ");
	vfprintf(stderr, fmt, ap);
	fprintf(stderr, "\n");
	va_end(ap);
	exit(2);
}

/* ---------------------------------------------------------------- tun */

#define MAXTUN 16
static struct { unsigned char d[2048]; size_t len; } tunlog[MAXTUN];
static int ntun;

int write_tun(int fd, char *data, size_t len)
{
	(void) fd;
	if (ntun < MAXTUN) {
		tunlog[ntun].len = len;
		memcpy(tunlog[ntun].d, data, MIN(len, sizeof(tunlog[ntun].d)));
	}
	ntun++;
	return 0;
}
ssize_t read_tun(int fd, char *buf, size_t len) { (void) fd; (void) buf; (void) len; return -1; }
int tun_setip(const char *ip, const char *other, int bits) { (void) ip; (void) other; (void) bits; return 0; }
int tun_setmtu(const unsigned mtu) { (void) mtu; return 0; }

/* -------------------------------------------------------------- clock */

static long long now_ms = 1000000000LL;
static time_t my_time(time_t *t)
{
	time_t v = (time_t) (now_ms / 1000);
	if (t)
		*t = v;
	return v;
}
static unsigned my_sleep(unsigned s) { now_ms += 1000LL * s; return 0; }

/* ------------------------------------------------- datagrams in flight */

struct dgram {
	unsigned char d[4096];
	int len;
	struct sockaddr_in from;
};
#define QMAX 64
static struct dgram queue[QMAX];
static int qhead, qtail;

static struct sockaddr_in relay_addr, server_addr, stranger_addr;

static void enqueue(const void *d, int len, const struct sockaddr_in *from)
{
	if (qtail - qhead >= QMAX || len > (int) sizeof(queue[0].d))
		trouble("queue");
	memcpy(queue[qtail % QMAX].d, d, len);
	queue[qtail % QMAX].len = len;
	queue[qtail % QMAX].from = *from;
	qtail++;
}

static ssize_t my_recvfrom(int fd, void *buf, size_t len, int flags,
			   struct sockaddr *from, socklen_t *fromlen)
{
	struct dgram *g;
	(void) fd; (void) flags;
	if (qhead == qtail)
		trouble("recvfrom() on an empty socket");
	g = &queue[qhead++ % QMAX];
	if ((size_t) g->len < len)
		len = g->len;
	memcpy(buf, g->d, len);
	if (from && fromlen && *fromlen >= sizeof(g->from)) {
		memcpy(from, &g->from, sizeof(g->from));
		*fromlen = sizeof(g->from);
	}
	return len;
}
static ssize_t my_recv(int fd, void *buf, size_t len, int flags)
{
	return my_recvfrom(fd, buf, len, flags, NULL, NULL);
}

/* ------------------------------------------------------ scripted peer */

static const char *scenario;
static int in_tunnel;
static int idle_steps;
static int selects;

#define SEED 0x1234abcd
#define USERID 5
static char pwbuf[33] = "secretpassword";

static const unsigned char genuine_ip[] =
	"\0\0\x08\0" "E-genuine-packet-from-the-iodined-server-0123456789abcdefghijklmnopqrstuvwxyz";
static const unsigned char forged_ip[] =
	"\0\0\x08\0" "E-FORGED-packet-from-somebody-else";

static unsigned short sent_ids[4096];
static int nsent;

static void dns_reply(struct query *q, const void *data, int datalen)
{
	char out[4096];
	int len = dns_encode(out, sizeof(out), q, QR_ANSWER, data, datalen);
	if (len <= 0)
		trouble("dns_encode");
	enqueue(out, len, &relay_addr);
}

static void raw_frame(int cmd, const void *data, int datalen, const struct sockaddr_in *from)
{
	unsigned char out[4096];
	memcpy(out, raw_header, RAW_HDR_LEN);
	out[RAW_HDR_CMD] = cmd | USERID;
	if (datalen)
		memcpy(out + RAW_HDR_LEN, data, datalen);
	enqueue(out, RAW_HDR_LEN + datalen, from);
}

/* downstream data of the DNS-mode scenarios: one packet in two fragments */
static unsigned char zpkt[512];
static unsigned long zlen;
static int tunnel_queries;

static void tunnel_query(struct query *q)
{
	unsigned char d[600];
	unsigned long half = zlen / 2;

	tunnel_queries++;
	if (tunnel_queries == 1) {
		/* fragment 0 of downstream packet 1, more to come */
		d[0] = 0;
		d[1] = (1 << 5) | (0 << 1) | 0;
		memcpy(d + 2, zpkt, half);
		dns_reply(q, d, 2 + half);
	} else if (tunnel_queries == 2) {
		if (!strcmp(scenario, "dns-forged")) {
			/* a datagram that answers none of our queries: its id
			   was never used.  No data, just the two header
			   bytes, naming a downstream packet 5. */
			struct query f = *q;
			int i, clash;
			do {
				f.id += 1;
				clash = (f.id == 0);
				for (i = 0; i < nsent; i++)
					if (sent_ids[i] == f.id)
						clash = 1;
			} while (clash);
			strcpy(f.name, "pforged.t.example.com");
			d[0] = 0;
			d[1] = (5 << 5);
			dns_reply(&f, d, 2);
		}
		/* fragment 1 of packet 1, the last one */
		d[0] = 0;
		d[1] = (1 << 5) | (1 << 1) | 1;
		memcpy(d + 2, zpkt + half, zlen - half);
		dns_reply(q, d, 2 + (zlen - half));
	} else {
		/* nothing more to send: bare header */
		d[0] = 0;
		d[1] = (1 << 5) | (1 << 1);
		dns_reply(q, d, 2);
	}
}

static void peer_dns(const unsigned char *pkt, int len)
{
	struct query q;
	char c;

	memset(&q, 0, sizeof(q));
	if (dns_decode(NULL, 0, &q, QR_QUERY, (char *) pkt, len) <= 0)
		trouble("client sent something that is no DNS query");
	if (nsent < (int) (sizeof(sent_ids) / sizeof(sent_ids[0])))
		sent_ids[nsent++] = q.id;
	c = tolower((unsigned char) q.name[0]);

	if (c == 'v') {
		unsigned char d[9] = { 'V', 'A', 'C', 'K',
			(SEED >> 24) & 0xff, (SEED >> 16) & 0xff, (SEED >> 8) & 0xff, SEED & 0xff, USERID };
		dns_reply(&q, d, 9);
	} else if (c == 'l') {
		const char *s = "10.9.0.1-10.9.0.2-1130-27";
		dns_reply(&q, s, strlen(s));
	} else if (c == 'i') {
		unsigned char d[5] = { 'I' };
		memcpy(d + 1, &server_addr.sin_addr, 4);
		dns_reply(&q, d, 5);
		if (!strcmp(scenario, "rawlogin-stray")) {
			/* four datagrams that are no reply to anything the
			   client has sent: DNS answers under an id it never
			   used, from some other host */
			struct query f = q;
			int i, k, clash;
			for (k = 0; k < 4; k++) {
				char out[512];
				int len;
				do {
					f.id += 1;
					clash = (f.id == 0);
					for (i = 0; i < nsent; i++)
						if (sent_ids[i] == f.id)
							clash = 1;
				} while (clash);
				strcpy(f.name, "xstray.t.example.com");
				len = dns_encode(out, sizeof(out), &f, QR_ANSWER, "stray", 5);
				enqueue(out, len, &stranger_addr);
			}
		}
	} else if (c == 'y') {
		dns_reply(&q, DOWNCODECCHECK1, DOWNCODECCHECK1_LEN);
	} else if (c == 'o') {
		dns_reply(&q, "Lazy", 4);
	} else if (c == 'n') {
		unsigned char d[2] = { 1200 >> 8, 1200 & 0xff };
		dns_reply(&q, d, 2);
	} else if (c == 'p' || c == "0123456789abcdef"[USERID]) {
		if (!in_tunnel)
			trouble("tunnel query during the handshake");
		tunnel_query(&q);
	}
	/* 'z' (upstream codec tests) stay unanswered: Base32 is kept */
}

static int raw_logins_answered;

static void peer_raw(const unsigned char *pkt, int len)
{
	char hash[16];

	if (len < RAW_HDR_LEN || memcmp(pkt, raw_header, RAW_HDR_IDENT_LEN))
		trouble("bad raw frame from client");
	switch (RAW_HDR_GET_CMD(pkt)) {
	case RAW_HDR_CMD_LOGIN:
		login_calculate(hash, 16, pwbuf, (int) ((unsigned) SEED + 1));
		if (len != RAW_HDR_LEN + 16 || memcmp(pkt + RAW_HDR_LEN, hash, 16))
			trouble("bad raw login from client");
		login_calculate(hash, 16, pwbuf, (int) ((unsigned) SEED - 1));
		raw_frame(RAW_HDR_CMD_LOGIN, hash, 16, &server_addr);
		raw_logins_answered++;
		break;
	case RAW_HDR_CMD_PING:
		raw_frame(RAW_HDR_CMD_PING, NULL, 0, &server_addr);
		break;
	default:
		break;
	}
}

static ssize_t my_sendto(int fd, const void *buf, size_t len, int flags,
			 const struct sockaddr *to, socklen_t tolen)
{
	const struct sockaddr_in *t = (const struct sockaddr_in *) to;
	(void) fd; (void) flags; (void) tolen;

	if (t->sin_family != AF_INET)
		trouble("sendto: family");
	if (t->sin_addr.s_addr == relay_addr.sin_addr.s_addr)
		peer_dns(buf, len);
	else if (t->sin_addr.s_addr == server_addr.sin_addr.s_addr)
		peer_raw(buf, len);
	else
		trouble("sendto: unknown destination");
	return len;
}

/* called whenever the client waits and nothing is in flight */
static void idle(void)
{
	unsigned char z[512];
	unsigned long zl;

	if (!in_tunnel)
		return;		/* handshake: let the timeout strike */
	idle_steps++;

	if (!strncmp(scenario, "raw-", 4)) {
		if (idle_steps == 2 && !strcmp(scenario, "raw-spoof")) {
			/* somebody who is not the server */
			zl = sizeof(z);
			compress2(z, &zl, forged_ip, sizeof(forged_ip) - 1, 9);
			raw_frame(RAW_HDR_CMD_DATA, z, zl, &stranger_addr);
		} else if (idle_steps == 3) {
			zl = sizeof(z);
			compress2(z, &zl, genuine_ip, sizeof(genuine_ip) - 1, 9);
			raw_frame(RAW_HDR_CMD_DATA, z, zl, &server_addr);
		} else if (idle_steps >= 5) {
			client_stop();
		}
	} else {
		if (idle_steps >= 6)
			client_stop();
	}
}

static int my_select(int n, fd_set *r, fd_set *w, fd_set *e, struct timeval *tv)
{
	(void) n; (void) w; (void) e;
	if (++selects > 20000)
		trouble("client does not come to an end");
	FD_ZERO(r);
	if (qhead == qtail)
		idle();
	if (qhead != qtail) {
		FD_SET(DNSFD, r);
		return 1;
	}
	now_ms += tv->tv_sec * 1000LL + tv->tv_usec / 1000 + 1;
	return 0;
}

/* ------------------------------------------------------------- main */

static void addr(struct sockaddr_in *a, const char *ip, int port)
{
	memset(a, 0, sizeof(*a));
	a->sin_family = AF_INET;
	a->sin_port = htons(port);
	a->sin_addr.s_addr = inet_addr(ip);
}

static int delivered(const unsigned char *pkt, size_t len)
{
	int i, cnt = 0;
	for (i = 0; i < ntun && i < MAXTUN; i++)
		/* the 4 byte tun header is rewritten by write_tun() */
		if (tunlog[i].len == len && !memcmp(tunlog[i].d + 4, pkt + 4, len - 4))
			cnt++;
	return cnt;
}

int main(int argc, char **argv)
{
	struct sockaddr_storage ns;
	int raw, r;

	if (argc != 2)
		trouble("usage: harness <scenario>");
	scenario = argv[1];
	raw = !strncmp(scenario, "raw", 3);

	addr(&relay_addr, "198.51.100.53", 53);
	addr(&server_addr, "192.0.2.1", 53);
	addr(&stranger_addr, "203.0.113.66", 4444);

	zlen = sizeof(zpkt);
	compress2(zpkt, &zlen, genuine_ip, sizeof(genuine_ip) - 1, 9);

	srand(1);
	client_init();
	memset(&ns, 0, sizeof(ns));
	memcpy(&ns, &relay_addr, sizeof(relay_addr));
	client_set_nameserver(&ns, sizeof(relay_addr));
	client_set_topdomain("t.example.com");
	client_set_password(pwbuf);
	client_set_qtype("NULL");
	client_set_selecttimeout(4);
	client_set_lazymode(1);
	client_set_hostname_maxlen(255);

	r = client_handshake(DNSFD, raw, 0, 1200);
	if (r)
		trouble("handshake failed (%d)", r);
	if (!strncmp(scenario, "rawlogin-", 9)) {
		if (raw_logins_answered < 1)
			trouble("no raw login seen");
		if (client_get_conn() == CONN_RAW_UDP) {
			printf("ok: raw mode established (%d raw login(s) sent and answered)\n",
			       raw_logins_answered);
			return 0;
		}
		if (!strcmp(scenario, "rawlogin-control"))
			trouble("control run did not reach raw mode");
		printf("VIOLATED: datagrams that answer none of the client's requests were not "
		       "ignored: each of them ended the wait for the raw login reply, and after "
		       "four of them the client gave up raw mode although the server had answered "
		       "all %d of its raw logins\n", raw_logins_answered);
		return 1;
	}
	if (raw && client_get_conn() != CONN_RAW_UDP)
		trouble("raw mode was not established");
	if (!raw && client_get_conn() != CONN_DNS_NULL)
		trouble("DNS mode expected");

	in_tunnel = 1;
	client_tunnel(TUNFD, DNSFD);

	fprintf(stderr, "--- %s: %d packet(s) written to tun\n", scenario, ntun);

	if (!strcmp(scenario, "raw-control") || !strcmp(scenario, "dns-control")) {
		if (ntun != 1 || delivered(genuine_ip, sizeof(genuine_ip) - 1) != 1)
			trouble("control run did not deliver the genuine packet exactly once");
		return 0;
	}
	if (!strcmp(scenario, "raw-spoof")) {
		if (delivered(genuine_ip, sizeof(genuine_ip) - 1) != 1)
			trouble("genuine raw packet not delivered");
		if (delivered(forged_ip, sizeof(forged_ip) - 1)) {
			printf("VIOLATED: in raw mode a data frame from %s:%d (the server is %s:53) "
			       "was not ignored: its payload was written to the tun device\n",
			       inet_ntoa(stranger_addr.sin_addr), ntohs(stranger_addr.sin_port),
			       "192.0.2.1");
			return 1;
		}
		if (ntun != 1)
			trouble("unexpected tun traffic");
		printf("ok: the frame from the third party was ignored\n");
		return 0;
	}
	if (!strcmp(scenario, "dns-forged")) {
		if (delivered(genuine_ip, sizeof(genuine_ip) - 1) == 1 && ntun == 1) {
			printf("ok: the reply under a never-sent id was ignored, the packet arrived\n");
			return 0;
		}
		printf("VIOLATED: a reply under an id the client never used was not ignored: "
		       "it reset the downstream reassembly and the server's packet was lost "
		       "(%d packets on tun, expected 1)\n", ntun);
		return 1;
	}
	trouble("unknown scenario");
	return 2;
}
