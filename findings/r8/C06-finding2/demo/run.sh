#!/bin/sh
# usage: run.sh <source tree root>
#
# C06 demo: datagrams that answer nothing must not end the client's wait for the raw login reply.
#
# Builds harness.c (next to this script) together with the client sources of
# <tree>/src in a temporary directory; nothing is written into the tree.  The
# real client code runs (src/client.c is #included by the harness, dns.c,
# read.c, encoding.c, base*.c, login.c, md5.c and common.c are compiled as they
# are); only recvfrom/recv/sendto/select/time/sleep and the tun functions are
# replaced.  No network, no tun device, no root, no real waiting.
#
# exit 0: property holds   exit 1: violated (one line says how)   exit 2: harness trouble
set -u

TREE=${1:-}
if [ -z "$TREE" ] || [ ! -f "$TREE/src/client.c" ]; then
	echo "usage: $0 <source tree root>" >&2
	exit 2
fi
TREE=$(cd "$TREE" && pwd) || exit 2
HERE=$(cd "$(dirname "$0")" && pwd) || exit 2
S="$TREE/src"
W=$(mktemp -d) || exit 2
trap 'rm -rf "$W"' EXIT INT TERM

# base64u.c is generated from base64.c, exactly as src/Makefile does it
sed -e 's/\([Bb][Aa][Ss][Ee]64\)/\1u/g ; s/0123456789+/0123456789_/' \
	< "$S/base64.c" > "$W/base64u.c" || exit 2

CC=${CC:-cc}
OS=$(uname | tr a-z A-Z)
build() {
	$CC -g -O1 $1 -D"$OS" -I"$S" -o "$W/harness" "$HERE/harness.c" \
		"$S/dns.c" "$S/read.c" "$S/encoding.c" "$S/login.c" "$S/md5.c" \
		"$S/base32.c" "$S/base64.c" "$W/base64u.c" "$S/base128.c" "$S/common.c" \
		-lz > "$W/build.log" 2>&1
}
build "-fsanitize=address,undefined -fno-sanitize-recover=undefined" || build "" || {
	cat "$W/build.log" >&2
	echo "harness trouble: build failed" >&2
	exit 2
}

ASAN_OPTIONS=exitcode=3:detect_leaks=0
UBSAN_OPTIONS=exitcode=3:print_stacktrace=1
export ASAN_OPTIONS UBSAN_OPTIONS

run() {	# run <scenario>: prints the verdict line, returns the harness' exit code
	"$W/harness" "$1" 2> "$W/$1.log"
	rc=$?
	if [ $rc -ne 0 ] && [ $rc -ne 1 ]; then
		tail -n 30 "$W/$1.log" >&2
		echo "harness trouble in scenario $1 (exit code $rc)" >&2
	fi
	return $rc
}

# the same exchange without the offending datagram(s) must work, or the
# harness proves nothing
run rawlogin-control > /dev/null || exit 2

run rawlogin-stray
rc=$?
[ $rc -eq 0 ] || [ $rc -eq 1 ] || rc=2
exit $rc
