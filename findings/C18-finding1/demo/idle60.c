/*
 * C18 finding 1: a session that has been silent for exactly 60 seconds is
 * still accepted by the server (check_user_and_ip(), the gate in front of
 * every command of a session) and still owns its slot (find_available_user()
 * does not hand it out), but find_user_by_ip() no longer finds it.
 *
 * iodined.c is included for its static functions; time() and read_tun() are
 * replaced with --wrap so that the clock and the tun device are ours.
 */
#define main iodined_main
#include "iodined.c"
#undef main

static time_t fake_now = 1000000;
time_t __wrap_time(time_t *t);
int __wrap_read_tun(int fd, char *buf, size_t len);

time_t __wrap_time(time_t *t)
{
	if (t) *t = fake_now;
	return fake_now;
}

static uint32_t tun_dst;

/* an IPv4 packet from the tun device for tun_dst, behind a 4 byte tun header */
int __wrap_read_tun(int fd, char *buf, size_t len)
{
	struct ip *h;

	(void) fd; (void) len;
	memset(buf, 0, 4 + sizeof(struct ip) + 8);
	buf[2] = 0x08;
	h = (struct ip *) (buf + 4);
	h->ip_v = 4;
	h->ip_hl = 5;
	h->ip_len = htons(sizeof(struct ip) + 8);
	h->ip_ttl = 64;
	h->ip_p = 17;
	h->ip_src.s_addr = inet_addr("10.0.0.1");
	h->ip_dst.s_addr = tun_dst;
	return 4 + sizeof(struct ip) + 8;
}

int main(void)
{
	struct dnsfd fds;
	struct query q;
	time_t t0 = fake_now;
	int bad = 0;
	int idle;

	fds.v4fd = -1;
	fds.v6fd = -1;
	memset(&q, 0, sizeof(q));
	check_ip = 0;
	my_ip = inet_addr("10.0.0.1");
	netmask = 27;
	created_users = init_users(my_ip, netmask);

	for (idle = 58; idle <= 62; idle++) {
		int uid, admitted, looked_up, slot_free, routed;

		/* a session in slot 0, logged in, last heard of at t0 */
		fake_now = t0;
		free(users);
		created_users = init_users(my_ip, netmask);
		uid = find_available_user();
		users[uid].authenticated = 1;
		users[uid].encoder = &base32_ops;
		users[uid].downenc = 'T';
		tun_dst = users[uid].tun_ip;

		fake_now = t0 + idle;
		/* 1. would the server still process this session's next command? */
		admitted = (check_authenticated_user_and_ip(uid, &q) == 0);
		/* 2. does its tunnel address still find it? */
		looked_up = (find_user_by_ip(users[uid].tun_ip) == uid);
		/* 3. is a packet from the tun device for its address still taken? */
		users[uid].outpacket.len = 0;
		routed = (tunnel_tun(-1, &fds) > 0);
		/* 4. is its slot given to somebody else? (asked last: it changes the slot) */
		slot_free = (find_available_user() == uid);

		printf("silent for %d s: session accepted=%d  slot reusable=%d  "
		       "found by address=%d  tun packet queued=%d%s\n",
		       idle, admitted, slot_free, looked_up, routed,
		       (admitted && !slot_free) != looked_up ? "   <-- lookup disagrees" : "");
		if ((admitted && !slot_free) != looked_up || looked_up != routed)
			bad++;
	}

	if (bad) {
		printf("FAIL: a live logged-in session is not found by its tunnel address\n");
		return 1;
	}
	printf("PASS\n");
	return 0;
}
