#!/bin/sh
# usage: run.sh <iodine source tree root>
# exit 0 = PASS (property holds), 1 = FAIL (property violated)
TREE=${1:?usage: run.sh <tree>}
HERE=$(cd "$(dirname "$0")" && pwd)
TMP=$(mktemp -d) || exit 2
trap 'rm -rf "$TMP"' EXIT
SRC="$TREE/src"

# base64u.c is a generated file (see src/Makefile); make our own copy
{ echo '/* generated */'
  sed -e 's/\([Bb][Aa][Ss][Ee]64\)/\1u/g ; s/0123456789+/0123456789_/' < "$SRC/base64.c"
} > "$TMP/base64u.c"

CFLAGS="-std=c99 -D_GNU_SOURCE -DLINUX -DGITREVISION=\"demo\" -O1 -w -I$SRC"
OBJS=""
for f in tun dns read encoding login base32 base64 base128 md5 common user fw_query; do
	cc $CFLAGS -c "$SRC/$f.c" -o "$TMP/$f.o" || { echo "build failed: $f.c"; exit 2; }
	OBJS="$OBJS $TMP/$f.o"
done
cc $CFLAGS -c "$TMP/base64u.c" -o "$TMP/base64u.o" || { echo "build failed: base64u.c"; exit 2; }
cc $CFLAGS -c "$HERE/idle60.c" -o "$TMP/idle60.o" || { echo "build failed: idle60.c"; exit 2; }
cc -o "$TMP/idle60" "$TMP/idle60.o" $OBJS "$TMP/base64u.o" \
	-Wl,--wrap=time -Wl,--wrap=read_tun -lz || { echo "link failed"; exit 2; }
"$TMP/idle60"
rc=$?
[ $rc -eq 0 ] && exit 0
exit 1
