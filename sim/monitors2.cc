// Oracles C16 (re-delivered queries are never processed twice) and
// C15 (downstream fragments never exceed the negotiated size; numbering; last flag).
#include "scen.h"
#include <zlib.h>
#include <algorithm>

static bool is_raw(const Bytes &b) { return b.size() >= 4 && b[0] == 0x10 && b[1] == 0xd1 && b[2] == 0x9e; }
static std::string lower(std::string s) { for (auto &c : s) c = (char)tolower((unsigned char)c); return s; }

static bool is_refusal(const Bytes &p)
{
	std::string s(p.begin(), p.end());
	return s == "BADIP" || s == "BADLEN" || s == "BADCODEC" || s == "BADFRAG" || s == "LNAK" || s == "x";
}

// ================================================================== C16
// Re-deliveries are injected by `redeliv` fates (kernel); every copy shares the serial of its
// original.  The monitor (a) gates copies to the window the property quantifies over,
// (b) checks that a step which processed only a re-delivery left the session's stream
// positions untouched, (c) checks what that step answered: the cached payload for a verbatim
// repeat still in the 4-entry answer cache, otherwise only the 1-byte marker / a refusal /
// nothing - never fresh tunnel data computed from processing the query again.
struct C16Redeliver : Monitor {
	World *w;
	struct Orig {
		uint64_t serial; std::string name; uint16_t type = 0, id = 0; std::string src; char kind = 0; int uid = -1;
		bool processed = false, answered = false; Bytes answer; uint64_t n_data_after = 0, n_ping_after = 0; uint64_t t = 0;
		bool tracked = false;
		std::string name_as_received; uint16_t id_as_received = 0;   // after the path's transformation
	};
	std::map<uint64_t, Orig> origs;                 // by serial, client->server p/d queries
	std::deque<uint64_t> recent;                    // serials in arrival order (bounded)
	std::deque<std::pair<std::string, Bytes>> cache; // model of the answer cache: (name as received, payload), last 4 distinct answers
	bool no_check_ip;
	// current step
	int step_n = 0; bool step_tun = false; Dgram step_d; bool step_is_redeliv = false; uint64_t step_serial = 0;
	struct Pos { int il, io, is, ifr, ol, oo, os, ofr, oq; bool operator!=(const Pos &o) const { return memcmp(this, &o, sizeof *this) != 0; } };
	Pos before; bool have_before = false; int step_uid = -1;
	std::vector<Bytes> step_answers;                // payloads of answers sent to the step's asker with its id
	int step_other_answers = 0;
	bool in_cache_at_recv = false; Bytes cached_payload;
	bool answered_at_recv = false;
	std::string step_name;                          // question name of the step's datagram, exactly as received

	C16Redeliver(World *w) : w(w)
	{
		no_check_ip = w->cfg.getb("no_check_ip");
		C16Redeliver *self = this;
		w->S.redeliver_gate = [self](const Dgram &c) { return self->gate(c); };
	}

	static Pos pos_of(int uid)
	{
		UserView v; Pos p; memset(&p, 0, sizeof p);
		if (peek_user(uid, v)) { p.il = v.in.len; p.io = v.in.offset; p.is = v.in.seqno; p.ifr = v.in.fragment; p.ol = v.out.len; p.oo = v.out.offset; p.os = v.out.seqno; p.ofr = v.out.fragment; p.oq = v.outq_filled; }
		return p;
	}

	bool classify(const Bytes &data, Orig &o)
	{
		DnsMsg m; UpQuery u;
		if (is_raw(data) || !dns_parse_strict(data, m).empty() || m.qr || m.qd.empty()) return false;
		if (!decode_upquery(m.qd[0].name.dotted(), w->domain, u)) return false;
		if (u.cmd != 'p' && u.cmd != 'd') return false;
		o.name = m.qd[0].name.dotted(); o.type = m.qd[0].type; o.id = m.id; o.kind = u.cmd; o.uid = u.userid;
		return true;
	}

	// the window the property quantifies over: the original is still pending, or it was answered and fewer than
	// 15 data / 30 ping queries were answered since (margins: 12 / 26 received since)
	bool gate(const Dgram &c)
	{
		auto it = origs.find(c.serial);
		if (it == origs.end()) return true;          // not a ping/data query: nothing to gate
		Orig &o = it->second;
		if (!o.processed) return true;               // cannot happen (copies are scheduled after the original) - let the monitor see it
		if (o.kind == 'd') return o.n_data_after <= 12;
		return o.n_ping_after <= 26;
	}

	std::deque<uint16_t> cli_ids;                   // ids of the client's last three queries
	void on_deliver(const Dgram &d, Sock *s) override
	{
		// an answer with tunnel data reaching the client under an id that is no longer among its last three queries is discarded by design
		if (!s || !s->owner || s->owner == w->srv || d.src.port != 53 || is_raw(d.data) || d.data.size() < 12) return;
		uint16_t id = (uint16_t)((d.data[0] << 8) | d.data[1]);
		for (auto x : cli_ids) if (x == id) return;
		DnsMsg m; Bytes pl;
		if (dns_parse_strict(d.data, m).empty() && answer_payload(m, pl) && pl.size() > 2 && (pl[0] & 0x80)) w->probes["c16.client_discarded_nonrecent"]++;
	}
	void on_send(const Dgram &d, Sock *s) override
	{
		if (s && s->owner && s->owner != w->srv && d.dst.port == 53 && d.data.size() >= 2 && !is_raw(d.data)) { cli_ids.push_back((uint16_t)((d.data[0] << 8) | d.data[1])); if (cli_ids.size() > 3) cli_ids.pop_front(); }
		if (s && s->owner && s->owner != w->srv && d.dst.port == 53) {
			// a client's query on its way out: remember ping/data queries by serial
			Orig o; o.serial = d.serial;
			if (classify(d.data, o)) { o.src = d.src.str(); o.t = w->S.now; o.tracked = true; origs[d.serial] = o; recent.push_back(d.serial); if (recent.size() > 400) { origs.erase(recent.front()); recent.pop_front(); } }
			return;
		}
		if (!s || s->owner != w->srv || is_raw(d.data)) return;
		if (d.dst.fam == AF_INET && d.dst.a[0] == 127) return;
		DnsMsg m; Bytes pl;
		if (!dns_parse_strict(d.data, m).empty() || m.qd.empty()) return;
		bool has = answer_payload(m, pl);
		UpQuery u;
		if (!decode_upquery(m.qd[0].name.dotted(), w->domain, u)) return;
		// an accepted N drops the server's cached answers (they were cut for the old size): so does the model
		if (u.cmd == 'n' && has && pl.size() == 2 && u.b32.size() >= 3 && pl[0] == u.b32[1] && pl[1] == u.b32[2]) { cache.clear(); return; }
		if (u.cmd != 'p' && u.cmd != 'd') return;
		std::string qn = m.qd[0].name.dotted();
		// answers emitted in this step to the step's asker
		if (step_n >= 1 && d.dst.str() == step_d.src.str() && step_d.data.size() >= 2 && m.id == (uint16_t)((step_d.data[0] << 8) | step_d.data[1]) && qn == step_name) step_answers.push_back(has ? pl : Bytes());
		else step_other_answers++;
		if (!has || is_refusal(pl) || pl.size() < 2) return;
		// the model of the 4-entry answer cache: a fresh tunnel answer enters it; an answer equal to an entry is a replay
		{
			bool replay = false;
			for (auto &c : cache) if (c.first == qn && c.second == pl) replay = true;
			if (!replay) { cache.push_back({qn, pl}); if (cache.size() > 4) cache.pop_front(); }
		}
		// mark the oldest matching unanswered original as answered
		for (uint64_t ser : recent) {
			auto it = origs.find(ser);
			if (it == origs.end()) continue;
			Orig &o = it->second;
			if (o.answered || !o.processed) continue;
			if (o.type == m.qd[0].type && o.name_as_received == qn) { o.answered = true; o.answer = pl; break; }
		}
	}

	void on_recv(Task &t, const Dgram &d) override
	{
		if (&t != w->srv) return;
		if (d.src.fam == AF_INET && d.src.a[0] == 127) return;
		step_n++;
		if (step_n > 1) return;
		step_d = d; step_is_redeliv = d.redelivery; step_serial = d.serial; have_before = false; step_uid = -1;
		step_answers.clear(); step_other_answers = 0; in_cache_at_recv = false; answered_at_recv = false; step_name.clear();
		Orig cur;
		if (!classify(d.data, cur)) { step_is_redeliv = false; return; }
		step_uid = cur.uid; step_name = cur.name;
		auto it = origs.find(d.serial);
		if (!d.redelivery) {
			// the original (as transformed by the path) reaches the server
			if (it != origs.end()) {
				Orig &o = it->second;
				o.processed = true; o.name_as_received = cur.name; o.id_as_received = cur.id;
				for (auto &p : origs) if (p.second.processed && p.first != d.serial) { if (cur.kind == 'd') p.second.n_data_after++; else p.second.n_ping_after++; }
			}
			return;
		}
		if (it == origs.end() || !it->second.processed) { step_is_redeliv = false; return; }
		Orig &o = it->second;
		w->probes["c16.redelivered"]++;
		before = pos_of(cur.uid); have_before = true;
		answered_at_recv = o.answered;
		// is the repeat identical (name, type) to an entry of the model cache?
		for (auto &c : cache) if (c.first == cur.name) { in_cache_at_recv = true; cached_payload = c.second; }
		w->probes[o.answered ? "c16.repeat_of_answered" : "c16.repeat_of_pending"]++;
		if (cur.name != o.name_as_received) w->probes["c16.recased"]++;
		if (cur.id != o.id_as_received) w->probes["c16.newid"]++;
		if (d.src.str() != o.src) w->probes["c16.altsrc"]++;
	}

	void on_tun_read(Task &t, const Bytes &) override { if (&t == w->srv) step_tun = true; }

	void on_block(Task &t) override
	{
		if (&t != w->srv) return;
		finish_step();
		step_n = 0; step_tun = false; step_is_redeliv = false; have_before = false;
	}

	void finish_step()
	{
		if (step_n == 1 && step_is_redeliv && have_before && !step_tun && step_uid >= 0) {
			auto it = origs.find(step_serial);
			bool foreign = it != origs.end() && step_d.src.str() != it->second.src && !no_check_ip;
			Pos after = pos_of(step_uid);
			char b[400];
			if (after != before) {
				snprintf(b, sizeof b, "re-delivery of %s query (uid %d, %s, %s%s) changed the session's stream positions: in len/off/seq/frag %d/%d/%d/%d -> %d/%d/%d/%d, out len/off/seq/frag/queue %d/%d/%d/%d/%d -> %d/%d/%d/%d/%d",
					 it != origs.end() && it->second.kind == 'p' ? "a ping" : "a data", step_uid, answered_at_recv ? "already answered" : "still pending", foreign ? "foreign source, " : "",
					 in_cache_at_recv ? "in answer cache" : "not in answer cache",
					 before.il, before.io, before.is, before.ifr, after.il, after.io, after.is, after.ifr, before.ol, before.oo, before.os, before.ofr, before.oq, after.ol, after.oo, after.os, after.ofr, after.oq);
				w->S.violate("C16", answered_at_recv ? "state.changed.answered" : "state.changed.pending", b);
			}
			if (foreign) {
				for (auto &a : step_answers) if (!(a.size() == 5 && !memcmp(a.data(), "BADIP", 5))) { w->S.violate("C16", "foreign.answered", "a repeat arriving from a foreign address was answered with something other than BADIP"); break; }
				w->probes["c16.foreign_refused"]++;
			} else if (answered_at_recv) {
				// what may this step say to the asker?
				for (auto &a : step_answers) {
					bool marker = a.size() == 1 && a[0] == 'x';
					if (in_cache_at_recv) {
						if (a == cached_payload) { w->probes["c16.cache_hit_same_payload"]++; continue; }
						snprintf(b, sizeof b, "identical repeat of a query whose answer is among the last 4 got %s instead of the original payload (%zu bytes, original %zu)", marker ? "the duplicate marker" : "a different payload", a.size(), cached_payload.size());
						w->S.violate("C16", "cache.payload", b);
					} else {
						if (marker) { w->probes["c16.marker"]++; continue; }
						if (a.empty() || is_refusal(a)) continue;
						snprintf(b, sizeof b, "repeat of an already answered %s query (not in the answer cache) was answered with %zu bytes of tunnel payload: processed as a new query", it != origs.end() && it->second.kind == 'p' ? "ping" : "data", a.size());
						w->S.violate("C16", "reprocessed", b);
					}
				}
			}
		}
	}

	void on_end() override
	{
		w->probes["c16.tracked"] = (int64_t)origs.size();
	}
};
Monitor *mk_c16_redeliver(World *w) { return new C16Redeliver(w); }

// ================================================================== C15
// Wire-only oracle on everything the real server emits: size of every data answer against the
// fragment size in force for that session (100 until an N is accepted), consecutive numbering
// from 0 per downstream packet, last-fragment flag exactly on the final fragment.
// returns 1 = a complete zlib stream ending exactly at the end, 0 = valid so far but incomplete, -1 = not a zlib stream / trailing bytes
static int zlib_state(const Bytes &b)
{
	if (b.empty()) return 0;
	z_stream z; memset(&z, 0, sizeof z);
	if (inflateInit(&z) != Z_OK) return -1;
	std::vector<uint8_t> out(1 << 16);
	z.next_in = (Bytef *)b.data(); z.avail_in = (uInt)b.size();
	int rc = Z_OK;
	for (;;) {
		z.next_out = out.data(); z.avail_out = (uInt)out.size();
		rc = inflate(&z, Z_NO_FLUSH);
		if (rc == Z_STREAM_END) break;
		if (rc == Z_BUF_ERROR && z.avail_in == 0) { rc = Z_OK; break; }     // needs more input
		if (rc != Z_OK) break;
		if (z.avail_in == 0 && z.avail_out != 0) break;
	}
	int res;
	if (rc == Z_STREAM_END) res = z.avail_in == 0 ? 1 : -1;
	else if (rc == Z_OK) res = 0;
	else res = -1;
	inflateEnd(&z);
	return res;
}

struct C15Fragsize : Monitor {
	World *w;
	struct Sess {
		int F = 100; bool n_seen = false;
		int seq = -1, frag = -1; Bytes buf, cur; bool last_seen = false, off_track = false; int nfrag = 0;
		std::map<std::string, Bytes> answered; std::deque<std::string> order;
	};
	std::map<int, Sess> sess;
	C15Fragsize(World *w) : w(w) {}

	void on_send(const Dgram &d, Sock *s) override
	{
		if (!s || s->owner != w->srv || is_raw(d.data)) return;
		if (d.dst.fam == AF_INET && d.dst.a[0] == 127) return;
		DnsMsg m; Bytes pl; UpQuery u;
		if (!dns_parse_strict(d.data, m).empty() || m.qd.empty()) return;
		if (!decode_upquery(m.qd[0].name.dotted(), w->domain, u)) return;
		if (!answer_payload(m, pl)) return;
		if (u.cmd == 'v') { if (pl.size() >= 9 && !memcmp(pl.data(), "VACK", 4)) sess[pl[8]] = Sess(); return; }
		if (u.cmd == 'n') {
			if (is_refusal(pl) || pl.size() != 2 || u.b32.size() < 3) return;
			int f = (pl[0] << 8) | pl[1];
			int asked = (u.b32[1] << 8) | u.b32[2];
			if (f < 2) { w->S.violate("C15", "accepted.below2", "the server accepted fragment size " + std::to_string(f) + " for session " + std::to_string(u.userid)); return; }
			if (f != asked) return;       // not an acceptance echo
			Sess &x = sess[u.userid];
			x.F = f; x.n_seen = true;
			w->probes["c15.n_accepted"]++;
			if (f > 4094) w->probes["c15.n_huge"]++;
			if (f < 10) w->probes["c15.n_tiny"]++;
			return;
		}
		if (u.cmd != 'p' && u.cmd != 'd') return;
		if (is_refusal(pl) || pl.size() < 2) return;
		auto it = sess.find(u.userid);
		if (it == sess.end()) return;     // never saw this session start: nothing to compare with
		Sess &x = it->second;
		size_t len = pl.size() - 2;
		w->probes["c15.data_answers"]++;
		if (!x.n_seen && len > 0) w->probes["c15.data_before_n"]++;
		if ((int)len > x.F) {
			char b[200]; snprintf(b, sizeof b, "answer to session %d carries %zu payload bytes, fragment size in force is %d%s", u.userid, len, x.F, x.n_seen ? "" : " (default, no N accepted yet)");
			w->S.violate("C15", x.n_seen ? "size.exceeds_negotiated" : "size.exceeds_default", b);
		}
		if (len == 0) return;
		std::string qn = m.qd[0].name.dotted();
		auto an = x.answered.find(qn);
		if (an != x.answered.end() && an->second == pl) { w->probes["c15.replays_skipped"]++; return; }
		x.answered[qn] = pl; x.order.push_back(qn);
		if (x.order.size() > 64) { x.answered.erase(x.order.front()); x.order.pop_front(); }
		int seq = (pl[1] >> 5) & 7, frag = (pl[1] >> 1) & 15, last = pl[1] & 1;
		Bytes data(pl.begin() + 2, pl.end());
		char b[240];
		if (seq != x.seq || x.seq < 0) {
			if (frag != 0) { snprintf(b, sizeof b, "session %d: downstream packet seq %d starts with fragment %d", u.userid, seq, frag); w->S.violate("C15", "numbering.start", b); }
			x.seq = seq; x.frag = frag; x.buf.clear(); x.cur = data; x.last_seen = false; x.off_track = frag != 0; x.nfrag = 1;
			w->probes["c15.packets"]++;
		} else if (x.off_track) {
			return;
		} else if (frag == x.frag) {
			// resend of the current fragment: same offset, so one slice is a prefix of the other (F may have changed)
			size_t n = std::min(data.size(), x.cur.size());
			if (memcmp(data.data(), x.cur.data(), n)) { snprintf(b, sizeof b, "session %d: re-sent fragment %d/%d does not start at the same offset of the packet", u.userid, seq, frag); w->S.violate("C15", "numbering.resend_offset", b); }
			x.cur = data;
			w->probes["c15.resends"]++;
		} else if (frag == ((x.frag + 1) & 15) && x.frag == 15) {
			x.off_track = true; w->probes["c15.over16"]++; return;       // does not fit 16 fragments: outside the statement
		} else if (frag == x.frag + 1) {
			if (x.last_seen) { snprintf(b, sizeof b, "session %d: fragment %d/%d follows a fragment that carried the last-fragment flag", u.userid, seq, frag); w->S.violate("C15", "last.not_final", b); }
			x.buf.insert(x.buf.end(), x.cur.begin(), x.cur.end()); x.cur = data; x.frag = frag; x.nfrag++;
			if (x.nfrag > 1) w->probes["c15.multifrag"]++;
		} else {
			snprintf(b, sizeof b, "session %d: fragment number went from %d to %d within downstream packet %d", u.userid, x.frag, frag, seq); w->S.violate("C15", "numbering.gap", b);
			x.off_track = true; return;
		}
		x.last_seen = last;
		// hostname-type answers silently cut a fragment that exceeds what one answer can carry (C09: a proper prefix); with a
		// fragment size above that capacity the wire shows prefixes, so stream completeness cannot be judged from it
		{
			int qt = m.qd[0].type;
			int cap = (qt == QT_CNAME || qt == QT_A) ? 120 : (qt == QT_MX || qt == QT_SRV) ? 900 : 4094;
			if (x.F > cap) { w->probes["c15.last_unjudged_over_capacity"]++; return; }
		}
		Bytes all = x.buf; all.insert(all.end(), x.cur.begin(), x.cur.end());
		int zs = zlib_state(all);
		if (zs < 0) { w->probes["c15.not_zlib"]++; return; }             // forwarded client data that is not a valid stream: content unknown
		if (last && zs == 0) { snprintf(b, sizeof b, "session %d: fragment %d/%d carries the last-fragment flag but the packet is incomplete (%zu bytes so far)", u.userid, seq, frag, all.size()); w->S.violate("C15", "last.early", b); }
		if (!last && zs == 1) { snprintf(b, sizeof b, "session %d: fragment %d/%d completes the packet (%zu bytes) but carries no last-fragment flag", u.userid, seq, frag, all.size()); w->S.violate("C15", "last.missing", b); }
	}
};
Monitor *mk_c15_fragsize(World *w) { return new C15Fragsize(w); }
