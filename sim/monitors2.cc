// Oracles C16 (re-delivered queries are never processed twice) and
// C15 (downstream fragments never exceed the negotiated size; numbering; last flag).
#include "scen.h"
#include <zlib.h>
#include <algorithm>

static bool is_raw(const Bytes &b) { return b.size() >= 4 && b[0] == 0x10 && b[1] == 0xd1 && b[2] == 0x9e; }
static std::string lower(std::string s) { for (auto &c : s) c = (char)tolower((unsigned char)c); return s; }

static bool is_refusal(const Bytes &p)
{
	std::string s(p.begin(), p.end());
	return s == "BADIP" || s == "BADLEN" || s == "BADCODEC" || s == "BADFRAG" || s == "LNAK" || s == "x";
}

// ================================================================== C16
// Re-deliveries are injected by `redeliv` fates (kernel); every copy shares the serial of its
// original.  The monitor (a) gates copies to the window the property quantifies over,
// (b) checks that a step which processed only a re-delivery left the session's stream
// positions untouched, (c) checks what that step answered: the cached payload for a verbatim
// repeat still in the 4-entry answer cache, otherwise only the 1-byte marker / a refusal /
// nothing - never fresh tunnel data computed from processing the query again.
struct C16Redeliver : Monitor {
	World *w;
	struct Orig {
		uint64_t serial; std::string name; uint16_t type = 0, id = 0; std::string src; char kind = 0; int uid = -1;
		bool processed = false, answered = false; Bytes answer; uint64_t n_data_after = 0, n_ping_after = 0; uint64_t t = 0;
		bool tracked = false;
		std::string name_as_received; uint16_t id_as_received = 0;   // after the path's transformation
		Dgram as_received;                                            // the datagram the server picked up (for triggered re-deliveries)
	};
	std::map<uint64_t, Orig> origs;                 // by serial, client->server p/d queries
	std::deque<uint64_t> recent;                    // serials in arrival order (bounded)
	struct CacheEntry { std::vector<std::string> names; Bytes pl; };   // names: the spelling it was answered under first, and the spellings of copies answered with it
	std::deque<CacheEntry> cache;                    // model of the answer cache: last 4 distinct answers
	bool no_check_ip;
	// current step
	int step_n = 0; bool step_tun = false; Dgram step_d; bool step_is_redeliv = false; uint64_t step_serial = 0;
	struct Pos { int il, io, is, ifr, ol, oo, os, ofr, oq; bool operator!=(const Pos &o) const { return memcmp(this, &o, sizeof *this) != 0; } };
	Pos before; bool have_before = false; int step_uid = -1; int dc_before = 0;
	std::vector<Bytes> step_answers;                // payloads of answers sent to the step's asker with its id
	int step_other_answers = 0;
	bool in_cache_at_recv = false; Bytes cached_payload; std::vector<Bytes> respelled_at_recv;   // (cache content when the step's datagram arrived)
	bool answered_at_recv = false;
	std::string step_name;                          // question name of the step's datagram, exactly as received

	C16Redeliver(World *w) : w(w)
	{
		no_check_ip = w->cfg.getb("no_check_ip");
		C16Redeliver *self = this;
		w->S.redeliver_gate = [self](const Dgram &c) { return self->gate(c); };
	}

	static Pos pos_of(int uid)
	{
		UserView v; Pos p; memset(&p, 0, sizeof p);
		if (peek_user(uid, v)) { p.il = v.in.len; p.io = v.in.offset; p.is = v.in.seqno; p.ifr = v.in.fragment; p.ol = v.out.len; p.oo = v.out.offset; p.os = v.out.seqno; p.ofr = v.out.fragment; p.oq = v.outq_filled; }
		return p;
	}

	bool classify(const Bytes &data, Orig &o)
	{
		DnsMsg m; UpQuery u;
		if (is_raw(data) || !dns_parse_strict(data, m).empty() || m.qr || m.qd.empty()) return false;
		if (!decode_upquery(m.qd[0].name.dotted(), w->domain, u)) return false;
		if (u.cmd != 'p' && u.cmd != 'd') return false;
		o.name = m.qd[0].name.dotted(); o.type = m.qd[0].type; o.id = m.id; o.kind = u.cmd; o.uid = u.userid;
		return true;
	}

	// the window the property quantifies over: the original is still pending, or it was answered and fewer than
	// 15 data / 30 ping queries were answered since (margins: 12 / 26 received since)
	bool gate(const Dgram &c)
	{
		auto it = origs.find(c.serial);
		if (it == origs.end()) return true;          // not a ping/data query: nothing to gate
		Orig &o = it->second;
		if (!o.processed) return true;               // cannot happen (copies are scheduled after the original) - let the monitor see it
		if (o.kind == 'd') return o.n_data_after <= 12;
		return o.n_ping_after <= 26;
	}

	std::deque<uint16_t> cli_ids;                   // ids of the client's last 16 queries (what client.c accepts answers for)
	void on_deliver(const Dgram &d, Sock *s) override
	{
		// an answer with tunnel data reaching the client under an id that is no longer among its last 16 queries is discarded by design
		if (!s || !s->owner || s->owner == w->srv || d.src.port != 53 || is_raw(d.data) || d.data.size() < 12) return;
		uint16_t id = (uint16_t)((d.data[0] << 8) | d.data[1]);
		for (auto x : cli_ids) if (x == id) return;
		DnsMsg m; Bytes pl;
		if (dns_parse_strict(d.data, m).empty() && answer_payload(m, pl) && pl.size() > 2 && (pl[0] & 0x80)) w->probes["c16.client_discarded_nonrecent"]++;
	}
	int up_seq = -1, up_frag = -1, up_sends = 0;
	void on_send(const Dgram &d, Sock *s) override
	{
		if (s && s->owner && s->owner != w->srv && d.dst.port == 53 && !is_raw(d.data)) {
			// the client gives an upstream packet up after sending the same chunk four times (client.c, outchunkresent); duplicate
			// answers re-acking the previous chunk make it re-send at once, so the limit can be reached within milliseconds
			DnsMsg m0; UpQuery u0;
			if (dns_parse_strict(d.data, m0).empty() && !m0.qd.empty() && decode_upquery(m0.qd[0].name.dotted(), w->domain, u0) && u0.cmd == 'd') {
				if (u0.up_seq == up_seq && u0.up_frag == up_frag) { if (++up_sends >= 4) w->probes["c16.client_resend_limit_reached"]++; }
				else { up_seq = u0.up_seq; up_frag = u0.up_frag; up_sends = 1; }
			}
		}
		if (s && s->owner && s->owner != w->srv && d.dst.port == 53 && d.data.size() >= 2 && !is_raw(d.data)) { cli_ids.push_back((uint16_t)((d.data[0] << 8) | d.data[1])); if (cli_ids.size() > 16) cli_ids.pop_front(); }
		if (s && s->owner && s->owner != w->srv && d.dst.port == 53) {
			// a client's query on its way out: remember ping/data queries by serial
			Orig o; o.serial = d.serial;
			if (classify(d.data, o)) { o.src = d.src.str(); o.t = w->S.now; o.tracked = true; origs[d.serial] = o; recent.push_back(d.serial); if (recent.size() > 400) { origs.erase(recent.front()); recent.pop_front(); } }
			return;
		}
		if (!s || s->owner != w->srv || is_raw(d.data)) return;
		if (d.dst.fam == AF_INET && d.dst.a[0] == 127) return;
		DnsMsg m; Bytes pl;
		if (!dns_parse_strict(d.data, m).empty() || m.qd.empty()) return;
		bool has = answer_payload(m, pl);
		UpQuery u;
		if (!decode_upquery(m.qd[0].name.dotted(), w->domain, u)) return;
		// an accepted N drops the server's cached answers (they were cut for the old size): so does the model
		if (u.cmd == 'n' && has && pl.size() == 2 && u.b32.size() >= 3 && pl[0] == u.b32[1] && pl[1] == u.b32[2]) { cache.clear(); return; }
		if (u.cmd != 'p' && u.cmd != 'd') return;
		std::string qn = m.qd[0].name.dotted();
		// answers emitted in this step to the step's asker
		if (step_n >= 1 && d.dst.str() == step_d.src.str() && step_d.data.size() >= 2 && m.id == (uint16_t)((step_d.data[0] << 8) | step_d.data[1]) && qn == step_name) step_answers.push_back(has ? pl : Bytes());
		else step_other_answers++;
		if (!has || is_refusal(pl) || pl.size() < 2) return;
		// the model of the 4-entry answer cache: a fresh tunnel answer enters it; an answer equal to an entry is a replay
		{
			bool replay = false;
			// (the second answer to a remembered re-cased duplicate carries the duplicate's spelling: same entry)
			// ... and the copy is a query that has been answered, too: an identical repeat of IT is owed the same payload while the entry lasts
			for (auto &c : cache) if (c.pl == pl && c.names[0].size() == qn.size() && !strcasecmp(c.names[0].c_str(), qn.c_str())) { replay = true; if (std::find(c.names.begin(), c.names.end(), qn) == c.names.end()) c.names.push_back(qn); }
			if (!replay) { cache.push_back({{qn}, pl}); if (cache.size() > 4) cache.pop_front(); }
		}
		// mark the oldest matching unanswered original as answered
		for (uint64_t ser : recent) {
			auto it = origs.find(ser);
			if (it == origs.end()) continue;
			Orig &o = it->second;
			if (o.answered || !o.processed) continue;
			if (o.type == m.qd[0].type && o.name_as_received == qn) { o.answered = true; o.answer = pl; break; }
		}
	}

	// A query that was waiting at the server when a (late) raw login datagram arrived: iodined used to overwrite it without answering
	// it, so that it was in none of its duplicate memories.  The copy of such a query is re-delivered at the moment it can do harm:
	// when the server has just sent the fragment the query's stale ack names (3-bit sequence numbers come round every 8 packets).
	struct Forgotten { uint64_t serial; int uid, dn_seq, dn_frag; int shots; int fed = 0; bool big = false; uint64_t t_last = 0; };
	int fed_ser = 0;
	void feed(int len)
	{
		// aimed workload: small downstream packets until the sequence number is about to come round, then a multi-fragment one
		J op = J::obj(); op.set("op", "tun"); op.set("at", "srv"); op.set("ser", (long long)(w->S.seed % 1000 * 100000 + 90000 + ++fed_ser)); op.set("len", len); op.set("body", "rnd"); op.set("dst", "c0"); op.set("src", "ext");
		World *ww = w; w->S.at(w->S.now + 2000, [ww, op]() { ww->do_op(op); });
		w->S.count("op.tun.aimed_seqno_round");
	}
	std::vector<Forgotten> forgotten;
	std::map<int, std::pair<int, int>> last_out;    // uid -> (seq, frag) at the previous block
	void note_raw_login(const Dgram &d)
	{
		if (!w->S.faults.rawlate || d.data.size() < 4 || (d.data[3] >> 4) != 1) return;
		int u = d.data[3] & 15; UserView v;
		if (!peek_user(u, v) || !v.active || !v.q_id) return;
		for (auto it = recent.rbegin(); it != recent.rend(); ++it) {
			auto f = origs.find(*it);
			if (f == origs.end() || !f->second.processed || f->second.answered || f->second.uid != u || f->second.id_as_received != (uint16_t)v.q_id) continue;
			DnsMsg m; UpQuery q;
			if (!dns_parse_strict(f->second.as_received.data, m).empty() || m.qd.empty() || !decode_upquery(m.qd[0].name.dotted(), w->domain, q)) break;
			forgotten.push_back({*it, u, q.dn_seq, q.dn_frag, 0}); w->probes["c16.query_waiting_at_raw_login"]++;
			break;
		}
	}
	void forgotten_redelivery()
	{
		for (auto &f : forgotten) {
			UserView v;
			if (!peek_user(f.uid, v) || !v.active) continue;
			std::pair<int, int> cur{v.out.seqno, v.out.fragment}; bool moved = last_out[f.uid] != cur; last_out[f.uid] = cur;
			if (!f.big && f.fed < 14 && v.out.len == 0 && v.outq_filled == 0 && v.conn == 1 && w->S.now - f.t_last > 40000 && w->S.U("trig.forgot.feed", f.serial) < 0.8) {
				f.t_last = w->S.now; f.fed++;
				if (((v.out.seqno + 1) & 7) == f.dn_seq) { feed(std::max(200, v.fragsize) * (f.dn_frag + 3)); f.big = true; }
				else feed(40 + (int)(w->S.D("trig.forgot.len", f.serial * 31 + f.fed) % 40));
			}
			if (!moved || f.shots >= 3 || v.out.len == 0 || v.out.sentlen == 0 || v.out.seqno != f.dn_seq || v.out.fragment != f.dn_frag) continue;
			if (v.out.offset + v.out.sentlen >= v.out.len) continue;      // a last fragment: an early ack only ends the packet
			auto o = origs.find(f.serial);
			if (o == origs.end()) continue;
			Dgram c = o->second.as_received; c.redelivery = true; f.shots++;
			Sim *S = &w->S;
			S->at(S->now + 1 + S->R("trig.forgot.dt", f.serial * 7 + f.shots, 0, 300), [S, c]() { if (S->redeliver_gate && !S->redeliver_gate(c)) return; S->deliver(c); });
			w->S.count("fault.redeliver.forgotten_at_ack_match");
		}
	}

	void on_recv(Task &t, const Dgram &d) override
	{
		if (&t != w->srv) return;
		if (d.src.fam == AF_INET && d.src.a[0] == 127) return;
		if (is_raw(d.data)) note_raw_login(d);
		step_n++;
		if (step_n > 1) return;
		step_d = d; step_is_redeliv = d.redelivery; step_serial = d.serial; have_before = false; step_uid = -1;
		step_answers.clear(); step_other_answers = 0; in_cache_at_recv = false; answered_at_recv = false; step_name.clear();
		Orig cur;
		if (!classify(d.data, cur)) { step_is_redeliv = false; return; }
		step_uid = cur.uid; step_name = cur.name;
		auto it = origs.find(d.serial);
		// every ping/data datagram the server picks up may end up in its duplicate memory (a copy that is processed as a new query
		// - re-cased while the original is pending - is remembered as well), so all of them age the entries of earlier queries
		for (auto &p : origs) if (p.second.processed && p.first != d.serial) { if (cur.kind == 'd') p.second.n_data_after++; else p.second.n_ping_after++; }
		if (!d.redelivery) {
			// the original (as transformed by the path) reaches the server
			if (it != origs.end()) {
				Orig &o = it->second;
				o.processed = true; o.name_as_received = cur.name; o.id_as_received = cur.id; o.as_received = d;
			}
			return;
		}
		if (it == origs.end() || !it->second.processed) { step_is_redeliv = false; return; }
		if (d.retyped) { step_is_redeliv = false; w->probes["c16.retyped_copies_not_judged"]++; return; }   // another question, not a repeat of a query the server has seen
		Orig &o = it->second;
		w->probes["c16.redelivered"]++;
		before = pos_of(cur.uid); have_before = true;
		{ UserView v; dc_before = peek_user(cur.uid, v) ? v.dnscache_last : 0; }
		answered_at_recv = o.answered;
		// is the repeat identical (name, type) to an entry of the model cache?
		respelled_at_recv.clear();
		for (auto &c : cache) if (c.names[0].size() == cur.name.size() && !strcasecmp(c.names[0].c_str(), cur.name.c_str())) respelled_at_recv.push_back(c.pl);
		for (auto &c : cache) for (auto &nm : c.names) if (nm == cur.name) { in_cache_at_recv = true; cached_payload = c.pl; if (&nm != &c.names[0]) w->probes["c16.repeat_of_answered_copy_in_cache"]++; }
		w->probes[o.answered ? "c16.repeat_of_answered" : "c16.repeat_of_pending"]++;
		if (cur.name != o.name_as_received) w->probes["c16.recased"]++;
		if (cur.id != o.id_as_received) w->probes["c16.newid"]++;
		if (d.src.str() != o.src) w->probes[d.src.str().substr(0, d.src.str().rfind(':')) == o.src.substr(0, o.src.rfind(':')) ? "c16.altport" : "c16.altsrc"]++;
	}

	void on_tun_read(Task &t, const Bytes &) override { if (&t == w->srv) step_tun = true; }

	void on_block(Task &t) override
	{
		if (&t != w->srv) return;
		// duplicate answers make the client ping faster than its acks travel; each fresh ping makes the server send the current
		// fragment again, and after six sends without an ack it gives the packet up (by design).  That loss is caused by fresh
		// queries, not by processing a re-delivered one: runs in which the limit was reached only demand order downstream.
		for (int u = 0, n = peek_nusers(); u < n; u++) { UserView v; if (peek_user(u, v) && v.active && v.outfragresent >= 5) w->probes["c16.client_discarded_nonrecent"]++, w->probes["c16.server_resend_limit_reached"]++; }
		finish_step();
		triggered_redelivery();
		forgotten_redelivery();
		step_n = 0; step_tun = false; step_is_redeliv = false; have_before = false;
	}

	void finish_step()
	{
		if (step_n == 1 && step_is_redeliv && have_before && !step_tun && step_uid >= 0) {
			auto it = origs.find(step_serial);
			auto ip_of = [](const std::string &a) { size_t c = a.rfind(':'); return c == std::string::npos ? a : a.substr(0, c); };
			bool foreign = it != origs.end() && ip_of(step_d.src.str()) != ip_of(it->second.src) && !no_check_ip;   // the server checks the address, not the port
			Pos after = pos_of(step_uid);
			char b[400];
			if (before.ofr > 15 || after.ofr > 15) w->probes["c16.over16_not_judged"]++;     // a downstream packet beyond 16 fragments is stuck anyway
			else if (after != before) {
				snprintf(b, sizeof b, "re-delivery of %s query (uid %d, %s, %s%s) changed the session's stream positions: in len/off/seq/frag %d/%d/%d/%d -> %d/%d/%d/%d, out len/off/seq/frag/queue %d/%d/%d/%d/%d -> %d/%d/%d/%d/%d",
					 it != origs.end() && it->second.kind == 'p' ? "a ping" : "a data", step_uid, answered_at_recv ? "already answered" : "still pending", foreign ? "foreign source, " : "",
					 in_cache_at_recv ? "in answer cache" : "not in answer cache",
					 before.il, before.io, before.is, before.ifr, after.il, after.io, after.is, after.ifr, before.ol, before.oo, before.os, before.ofr, before.oq, after.ol, after.oo, after.os, after.ofr, after.oq);
				w->S.violate("C16", answered_at_recv ? "state.changed.answered" : "state.changed.pending", b);
			}
			if (!foreign && !answered_at_recv) {
				// a copy of a query that is still waiting is remembered and answered together with the original by ONE answer
				// operation (or not yet at all); it is never a query of its own
				UserView v; int dc_after = peek_user(step_uid, v) ? v.dnscache_last : dc_before;
				int gained = (dc_after - dc_before + 4) % 4;
				if (gained >= 2) {
					snprintf(b, sizeof b, "re-delivered copy of a still waiting %s query (uid %d) was answered as a query of its own: %d answer operations in the step that processed nothing but the copy", it != origs.end() && it->second.kind == 'p' ? "ping" : "data", step_uid, gained);
					w->S.violate("C16", "pending.answered_as_new", b);
				}
			}
			if (foreign) {
				for (auto &a : step_answers) if (!(a.size() == 5 && !memcmp(a.data(), "BADIP", 5))) { w->S.violate("C16", "foreign.answered", "a repeat arriving from a foreign address was answered with something other than BADIP"); break; }
				w->probes["c16.foreign_refused"]++;
			} else if (answered_at_recv) {
				// what may this step say to the asker?
				for (auto &a : step_answers) {
					bool marker = a.size() == 1 && a[0] == 'x';
					if (in_cache_at_recv) {
						if (a == cached_payload) { w->probes["c16.cache_hit_same_payload"]++; continue; }
						snprintf(b, sizeof b, "identical repeat of a query whose answer is among the last 4 got %s instead of the original payload (%zu bytes, original %zu)", marker ? "the duplicate marker" : "a different payload", a.size(), cached_payload.size());
						w->S.violate("C16", "cache.payload", b);
					} else {
						if (marker) { w->probes["c16.marker"]++; continue; }
						if (a.empty() || is_refusal(a)) continue;
						// a re-spelled repeat may be served from the answer cache as well (case-insensitive lookup): the payload the
						// original was answered with is not "processed again"
						{ bool replayed = false; for (auto &cp : respelled_at_recv) if (cp == a) replayed = true; if (replayed) { w->probes["c16.cache_hit_respelled"]++; continue; } }
						snprintf(b, sizeof b, "repeat of an already answered %s query (not in the answer cache) was answered with %zu bytes of tunnel payload: processed as a new query", it != origs.end() && it->second.kind == 'p' ? "ping" : "data", a.size());
						w->S.violate("C16", "reprocessed", b);
					}
				}
			}
		}
	}

	// Fault placement inside an in-flight state: the moment the server parks a query in its 20 ms "send real soon" slot (or holds
	// one in lazy mode), an impatient relay repeats exactly that query 0.3-19 ms later (verbatim or with a new id).
	std::map<int, int> last_qsrs, last_q; uint64_t ntrig = 0;
	void triggered_redelivery()
	{
		double p = w->cfg["faults"].getd("p_trigger_dup");
		if (p <= 0 || !w->all_in_tunnel) return;
		uint64_t tf1 = w->T0 + (uint64_t)w->cfg["faults"].geti("t1_us");
		if (w->S.now > tf1) return;
		for (int u = 0, n = peek_nusers(); u < n; u++) {
			UserView v;
			if (!peek_user(u, v) || !v.active) continue;
			int targets[2] = {0, 0};
			if (v.qsrs_id && v.qsrs_id != last_qsrs[u]) targets[0] = v.qsrs_id;
			if (v.q_id && v.q_id != last_q[u]) targets[1] = v.q_id;      // also in immediate mode: right after a lazy->immediate switch a query is still held
			last_qsrs[u] = v.qsrs_id; last_q[u] = v.q_id;
			for (int k = 0; k < 2; k++) {
				if (!targets[k]) continue;
				uint64_t key = ++ntrig;
				if (w->S.U("trig.dup", key) >= (k == 0 ? p : p * 0.3)) continue;
				// the original of that query
				const Orig *o = nullptr;
				for (auto it = recent.rbegin(); it != recent.rend(); ++it) { auto f = origs.find(*it); if (f != origs.end() && f->second.processed && f->second.id_as_received == (uint16_t)targets[k] && f->second.uid == u) { o = &f->second; break; } }
				if (!o) continue;
				Dgram c = o->as_received; c.redelivery = true;
				if (w->S.U("trig.newid", key) < 0.5 && c.data.size() >= 2) {
					uint16_t oid = (uint16_t)((c.data[0] << 8) | c.data[1]), id = (uint16_t)(oid ^ (1 + w->S.D("trig.idv", key) % 65535)); if (!id) id = 1;
					c.data[0] = id >> 8; c.data[1] = id & 255; w->S.rd_idmap[{c.src.str(), id}] = oid;
				}
				if (w->S.U("trig.port", key) < 0.3) { Addr orig = c.src; c.src.port = (uint16_t)(c.src.port ^ 0x2aaa); if (c.src.port < 1024) c.src.port = (uint16_t)(c.src.port + 20000); w->S.rd_altmap[c.src.str()] = orig; w->S.count("fault.redeliver.altport"); }
				uint64_t dt = k == 0 ? w->S.R("trig.dt", key, 300, 19000) : w->S.R("trig.dt", key, 300, 400000);
				Sim *S = &w->S;
				S->at(S->now + dt, [S, c]() { if (S->redeliver_gate && !S->redeliver_gate(c)) return; S->deliver(c); });
				w->S.count(k == 0 ? "fault.redeliver.in_realsoon_window" : "fault.redeliver.of_held_query");
			}
		}
	}
	void on_end() override
	{
		w->probes["c16.tracked"] = (int64_t)origs.size();
	}
};
Monitor *mk_c16_redeliver(World *w) { return new C16Redeliver(w); }

// ================================================================== stale duplicates (fault injector for C01)
// The client tells a new downstream packet from a repeat by a 3-bit sequence number: "current or up to 3 back" is a repeat,
// anything else is new.  A copy of an answer from 4-7 packets back therefore starts a "new" packet.  This injector delivers such a
// copy (as a duplicating, delaying path would) right after the first fragment of a multi-fragment packet has reached the client.
struct StaleDup : Monitor {
	World *w;
	struct Old { int seq; Dgram d; uint16_t id; uint64_t t; };
	std::deque<Old> hist;
	uint64_t n = 0;
	double p;
	double p8 = 0;
	StaleDup(World *w) : w(w) { p = w->cfg["faults"].getd("p_stale"); p8 = w->cfg["faults"].getd("p_stale8"); }
	// exactly eight packets back: the copy has the sequence number of the packet that is starting now and is delivered BEFORE it
	void on_send(const Dgram &d, Sock *s) override
	{
		if (p8 <= 0 || !s || s->owner != w->srv || !w->all_in_tunnel || d.data.size() < 12) return;
		DnsMsg m; Bytes pl; UpQuery u;
		if (!dns_parse_strict(d.data, m).empty() || m.qd.empty() || !answer_payload(m, pl) || pl.size() <= 2 || !(pl[0] & 0x80)) return;
		if (!decode_upquery(m.qd[0].name.dotted(), w->domain, u) || (u.cmd != 'p' && u.cmd != 'd')) return;
		int seq = (pl[1] >> 5) & 7, frag = (pl[1] >> 1) & 15, last = pl[1] & 1;
		if (frag != 0 || last) return;
		// is this the first time this fragment 0 goes out?  (a re-send of it is not the start of the packet)
		Bytes key8(pl.begin() + 1, pl.end());
		if (seen8.count(key8)) return;
		seen8.insert(key8);
		for (auto it = hist.rbegin(); it != hist.rend(); ++it) {
			if (it->seq != seq) continue;
			DnsMsg m2; Bytes p2;
			if (!dns_parse_strict(it->d.data, m2).empty() || !answer_payload(m2, p2) || p2.size() <= 2) continue;
			if (((p2[1] >> 1) & 15) != 0 || (p2[1] & 1)) continue;          // fragment 0 of a multi-fragment packet
			if (w->S.U("stale8.do", ++n8) >= p8) break;
			Dgram c = it->d; c.redelivery = true;
			w->S.deliver(c);
			w->S.count("fault.stale_dup8");
			break;
		}
	}
	std::set<Bytes> seen8; uint64_t n8 = 0;
	void on_deliver(const Dgram &d, Sock *s) override
	{
		if (!s || !s->owner || !w->client_of(s->owner) || d.redelivery) return;
		if (d.data.size() < 12 || (d.data.size() >= 3 && d.data[0] == 0x10 && d.data[1] == 0xd1 && d.data[2] == 0x9e)) return;
		DnsMsg m; Bytes pl; UpQuery u;
		if (!dns_parse_strict(d.data, m).empty() || m.qd.empty() || !answer_payload(m, pl) || pl.size() <= 2 || !(pl[0] & 0x80)) return;
		if (!decode_upquery(m.qd[0].name.dotted(), w->domain, u) || (u.cmd != 'p' && u.cmd != 'd')) return;
		int seq = (pl[1] >> 5) & 7, frag = (pl[1] >> 1) & 15, last = pl[1] & 1;
		if (frag == 0 && !last && p > 0 && w->all_in_tunnel) {
			uint64_t key = ++n;
			if (w->S.U("stale.do", key) < p) {
				// candidates: data answers whose sequence number is 4..7 back and whose id the client may still accept
				auto &ids = w->recent_ids[s->owner->name];
				std::vector<const Old *> cand;
				for (auto &o : hist) {
					int back = (seq - o.seq) & 7;
					if (back < 4) continue;
					bool idok = false; size_t k = 0;
					for (auto it = ids.rbegin(); it != ids.rend() && k < 16; ++it, ++k) if (*it == o.id) idok = true;
					if (idok || w->S.U("stale.anyid", key) < 0.2) cand.push_back(&o);
				}
				if (!cand.empty()) {
					Dgram c = cand[w->S.D("stale.pick", key) % cand.size()]->d; c.redelivery = true;
					Sim *S = &w->S;
					S->after(w->S.R("stale.dt", key, 50, 3000), [S, c]() { S->deliver(c); });
					w->S.count("fault.stale_dup");
				} else w->S.count("fault.stale_dup.no_candidate");
			}
		}
		hist.push_back({seq, d, m.id, w->S.now});
		if (hist.size() > 40) hist.pop_front();
	}
	// the same towards the server: an old upstream data query (beyond the server's duplicate memory of 15 data queries and 4-7
	// sequence numbers back) arrives again right after the first fragment of a multi-fragment upstream packet
	struct OldQ { int seq; Dgram d; uint64_t idx; };
	std::deque<OldQ> qhist; uint64_t nq = 0, nup = 0;
	void on_recv(Task &t, const Dgram &d) override
	{
		if (&t != w->srv || d.redelivery || d.data.size() < 12) return;
		DnsMsg m; UpQuery u;
		if (!dns_parse_strict(d.data, m).empty() || m.qd.empty() || m.qr) return;
		if (!decode_upquery(m.qd[0].name.dotted(), w->domain, u) || u.cmd != 'd') return;
		uint64_t idx = ++nq;
		{
			// decoded size of this chunk (the client's codec is whatever the server currently uses for the session)
			UserView v;
			if (peek_user(u.userid, v)) { int c = codec_from_name(v.encoder); if (c) { size_t n = codec_decode(c, u.enc_payload).size(); if (n > w->up_chunk) w->up_chunk = n; } }
		}
		if (u.up_frag == 0 && !u.last && p > 0 && w->all_in_tunnel) {
			uint64_t key = ++nup;
			if (w->S.U("staleq.do", key) < p) {
				std::vector<const OldQ *> cand;
				for (auto &o : qhist) if (((u.up_seq - o.seq) & 7) >= 4 && idx - o.idx >= 16) cand.push_back(&o);
				if (!cand.empty()) {
					Dgram c = cand[w->S.D("staleq.pick", key) % cand.size()]->d; c.redelivery = true;
					Sim *S = &w->S;
					S->after(w->S.R("staleq.dt", key, 50, 3000), [S, c]() { S->deliver(c); });
					w->S.count("fault.stale_dup_up");
				} else w->S.count("fault.stale_dup_up.no_candidate");
			}
		}
		qhist.push_back({u.up_seq, d, idx});
		if (qhist.size() > 80) qhist.pop_front();
	}
};
Monitor *mk_stale_dup(World *w) { return new StaleDup(w); }

// ================================================================== C15
// Wire-only oracle on everything the real server emits: size of every data answer against the
// fragment size in force for that session (100 until an N is accepted), consecutive numbering
// from 0 per downstream packet, last-fragment flag exactly on the final fragment.
// returns 1 = a complete zlib stream ending exactly at the end, 0 = valid so far but incomplete, -1 = not a zlib stream / trailing bytes
static int zlib_state(const Bytes &b)
{
	if (b.empty()) return 0;
	z_stream z; memset(&z, 0, sizeof z);
	if (inflateInit(&z) != Z_OK) return -1;
	std::vector<uint8_t> out(1 << 16);
	z.next_in = (Bytef *)b.data(); z.avail_in = (uInt)b.size();
	int rc = Z_OK;
	for (;;) {
		z.next_out = out.data(); z.avail_out = (uInt)out.size();
		rc = inflate(&z, Z_NO_FLUSH);
		if (rc == Z_STREAM_END) break;
		if (rc == Z_BUF_ERROR && z.avail_in == 0) { rc = Z_OK; break; }     // needs more input
		if (rc != Z_OK) break;
		if (z.avail_in == 0 && z.avail_out != 0) break;
	}
	int res;
	if (rc == Z_STREAM_END) res = z.avail_in == 0 ? 1 : -1;
	else if (rc == Z_OK) res = 0;
	else res = -1;
	inflateEnd(&z);
	return res;
}

struct C15Fragsize : Monitor {
	World *w;
	struct Sess {
		int F = 100; bool n_seen = false;
		int seq = -1, frag = -1; Bytes buf, cur; bool last_seen = false, off_track = false; int nfrag = 0; bool pkt_cut = false;
		std::map<std::string, Bytes> answered; std::deque<std::string> order;
	};
	std::map<int, Sess> sess;
	C15Fragsize(World *w) : w(w) {}

	void on_send(const Dgram &d, Sock *s) override
	{
		if (!s || s->owner != w->srv || is_raw(d.data)) return;
		if (d.dst.fam == AF_INET && d.dst.a[0] == 127) return;
		DnsMsg m; Bytes pl; UpQuery u;
		if (!dns_parse_strict(d.data, m).empty() || m.qd.empty()) return;
		if (!decode_upquery(m.qd[0].name.dotted(), w->domain, u)) return;
		if (!answer_payload(m, pl)) return;
		if (u.cmd == 'v') { if (pl.size() >= 9 && !memcmp(pl.data(), "VACK", 4)) sess[pl[8]] = Sess(); return; }
		if (u.cmd == 'n') {
			if (is_refusal(pl) || pl.size() != 2 || u.b32.size() < 3) return;
			int f = (pl[0] << 8) | pl[1];
			int asked = (u.b32[1] << 8) | u.b32[2];
			if (f < 2) { w->S.violate("C15", "accepted.below2", "the server accepted fragment size " + std::to_string(f) + " for session " + std::to_string(u.userid)); return; }
			if (f != asked) return;       // not an acceptance echo
			Sess &x = sess[u.userid];
			x.F = f; x.n_seen = true;
			w->probes["c15.n_accepted"]++;
			if (f > 4094) w->probes["c15.n_huge"]++;
			if (f < 10) w->probes["c15.n_tiny"]++;
			return;
		}
		if (u.cmd != 'p' && u.cmd != 'd') return;
		if (is_refusal(pl) || pl.size() < 2) return;
		auto it = sess.find(u.userid);
		if (it == sess.end()) return;     // never saw this session start: nothing to compare with
		Sess &x = it->second;
		size_t len = pl.size() - 2;
		w->probes["c15.data_answers"]++;
		if (!x.n_seen && len > 0) w->probes["c15.data_before_n"]++;
		if ((int)len > x.F) {
			char b[200]; snprintf(b, sizeof b, "answer to session %d carries %zu payload bytes, fragment size in force is %d%s", u.userid, len, x.F, x.n_seen ? "" : " (default, no N accepted yet)");
			w->S.violate("C15", x.n_seen ? "size.exceeds_negotiated" : "size.exceeds_default", b);
		}
		if (len == 0) return;
		// (the server's answer cache matches names without regard to letter case: the repeat of a relay's re-cased copy is owed the
		// cached answer as well, and two different queries of one client never differ in case only)
		std::string qn = m.qd[0].name.dotted(); for (auto &ch : qn) ch = (char)tolower((unsigned char)ch);
		auto an = x.answered.find(qn);
		if (an != x.answered.end() && an->second == pl) { w->probes["c15.replays_skipped"]++; return; }
		x.answered[qn] = pl; x.order.push_back(qn);
		if (x.order.size() > 64) { x.answered.erase(x.order.front()); x.order.pop_front(); }
		int seq = (pl[1] >> 5) & 7, frag = (pl[1] >> 1) & 15, last = pl[1] & 1;
		Bytes data(pl.begin() + 2, pl.end());
		char b[240];
		if (seq != x.seq || x.seq < 0) {
			if (frag != 0) { snprintf(b, sizeof b, "session %d: downstream packet seq %d starts with fragment %d", u.userid, seq, frag); w->S.violate("C15", "numbering.start", b); }
			x.seq = seq; x.frag = frag; x.buf.clear(); x.cur = data; x.last_seen = false; x.off_track = frag != 0; x.nfrag = 1; x.pkt_cut = false;
			w->probes["c15.packets"]++;
		} else if (x.off_track) {
			return;
		} else if (frag == x.frag) {
			// resend of the current fragment: same offset, so one slice is a prefix of the other (F may have changed)
			size_t n = std::min(data.size(), x.cur.size());
			if (memcmp(data.data(), x.cur.data(), n)) { snprintf(b, sizeof b, "session %d: re-sent fragment %d/%d does not start at the same offset of the packet", u.userid, seq, frag); w->S.violate("C15", "numbering.resend_offset", b); }
			x.cur = data;
			w->probes["c15.resends"]++;
		} else if (frag == ((x.frag + 1) & 15) && x.frag == 15) {
			x.off_track = true; w->probes["c15.over16"]++; return;       // does not fit 16 fragments: outside the statement
		} else if (frag == x.frag + 1) {
			if (x.last_seen) { snprintf(b, sizeof b, "session %d: fragment %d/%d follows a fragment that carried the last-fragment flag", u.userid, seq, frag); w->S.violate("C15", "last.not_final", b); }
			x.buf.insert(x.buf.end(), x.cur.begin(), x.cur.end()); x.cur = data; x.frag = frag; x.nfrag++;
			if (x.nfrag > 1) w->probes["c15.multifrag"]++;
		} else {
			snprintf(b, sizeof b, "session %d: fragment number went from %d to %d within downstream packet %d", u.userid, x.frag, frag, seq); w->S.violate("C15", "numbering.gap", b);
			x.off_track = true; return;
		}
		x.last_seen = last;
		// hostname-type answers silently cut a fragment that exceeds what one answer can carry (C09: a proper prefix); with a
		// fragment size above that capacity the wire shows prefixes, so stream completeness cannot be judged from it
		{
			int qt = m.qd[0].type;
			int cap = (qt == QT_CNAME || qt == QT_A) ? 120 : (qt == QT_MX || qt == QT_SRV) ? 900 : 4094;
			if (x.F > cap) x.pkt_cut = true;        // sticks for the rest of this downstream packet (F may be lowered in mid-packet)
			if (x.pkt_cut) { w->probes["c15.last_unjudged_over_capacity"]++; return; }
		}
		Bytes all = x.buf; all.insert(all.end(), x.cur.begin(), x.cur.end());
		int zs = zlib_state(all);
		if (zs < 0) { w->probes["c15.not_zlib"]++; return; }             // forwarded client data that is not a valid stream: content unknown
		if (last && zs == 0) { snprintf(b, sizeof b, "session %d: fragment %d/%d carries the last-fragment flag but the packet is incomplete (%zu bytes so far)", u.userid, seq, frag, all.size()); w->S.violate("C15", "last.early", b); }
		if (!last && zs == 1) { snprintf(b, sizeof b, "session %d: fragment %d/%d completes the packet (%zu bytes) but carries no last-fragment flag", u.userid, seq, frag, all.size()); w->S.violate("C15", "last.missing", b); }
	}
};
Monitor *mk_c15_fragsize(World *w) { return new C15Fragsize(w); }

// ================================================================== C08
// Every query name the real client emits: legal, within -M, under the tunnel domain; data chunks
// carry exactly the next contiguous, non-empty slice of compress2(packet); the server's
// reassembly buffer holds exactly those bytes after it processed the chunk.
struct C08Names : Monitor {
	World *w;
	int L;
	Bytes pend_pkt; bool have_pend = false;           // last packet the client read from its tun
	Bytes Z; size_t off = 0, cur_n = 0; int seq = -1, frag = -1; bool tracking = false; std::string cur_slice_enc;
	int up_codec = 5;                                 // upstream codec in force (from the server's answer to 's')
	uint32_t challenge = 0; bool have_challenge = false; int userid = -1;
	struct SrvCheck { bool armed = false; int uid = 0; Bytes want; int seq = 0, frag = 0; } sc;
	std::set<std::pair<int, int>> srv_seen;           // (seq, frag) the server has already received for the current packet

	C08Names(World *w) : w(w)
	{
		L = 255;
		if (!w->cfg["clients"].a.empty() && w->cfg["clients"].a[0].geti("maxlen")) L = (int)w->cfg["clients"].a[0].geti("maxlen");
	}

	void viol(const std::string &clause, const std::string &d) { w->S.violate("C08", clause, d); }

	void on_tun_read(Task &t, const Bytes &p) override
	{
		if (w->clients.empty() || &t != w->clients[0].task) return;
		pend_pkt = p; have_pend = true;
	}

	void on_send(const Dgram &d, Sock *s) override
	{
		if (!s || !s->owner) return;
		if (s->owner == w->srv) { from_server(d); return; }
		if (w->clients.empty() || s->owner != w->clients[0].task || is_raw(d.data)) return;
		DnsMsg m;
		std::string e = dns_parse_strict(d.data, m);
		if (!e.empty() || m.qd.size() != 1) { viol("name.malformed", "client query does not parse strictly: " + e); return; }
		const DnsName &n = m.qd[0].name;
		std::string dotted = n.dotted();
		w->probes["c08.names"]++;
		char b[300];
		// legal name: labels 1..63 (the strict parser rejects 0 and >63), wire <= 255, presentation <= L
		if (n.wire_len > 255) { snprintf(b, sizeof b, "name is %zu bytes on the wire", n.wire_len); viol("name.wire_len", b); }
		std::string data0; char c0 = 0;
		if (strip_domain(dotted, w->domain, data0) && !data0.empty()) c0 = (char)tolower((unsigned char)data0[0]);
		bool limited = c0 == 'v' || c0 == 'l' || c0 == 'n' || c0 == 'p' || c0 == 'r' || (c0 >= '0' && c0 <= '9') || (c0 >= 'a' && c0 <= 'f');   // the message kinds the -M limit is stated for
		if (limited && (int)dotted.size() > L) { snprintf(b, sizeof b, "name has %zu characters, the configured limit is %d: %s", dotted.size(), L, dotted.substr(0, 60).c_str()); viol("name.over_limit", b); }
		if ((int)dotted.size() >= L - 3) w->probes["c08.near_limit"]++;
		std::string data;
		if (!strip_domain(dotted, w->domain, data)) { viol("name.domain", "query name does not end in the tunnel domain at a label boundary: " + dotted.substr(0, 80)); return; }
		for (auto &l : n.labels) if (l.size() == 63) w->probes["c08.label63"]++;
		UpQuery u;
		if (!decode_upquery(dotted, w->domain, u)) { viol("name.undecodable", "query name carries no decodable tunnel message: " + dotted.substr(0, 80)); return; }
		switch (u.cmd) {
		case 'v':
			{ static const uint8_t ver[4] = {0, 0, 5, 2};
			  if (u.b32.empty() || u.b32.size() > 6 || memcmp(u.b32.data(), ver, std::min<size_t>(4, u.b32.size()))) viol("fields.version", "version message is not a non-empty prefix of protocol 0x00000502 + CMC"); }
			w->probes["c08.v"]++; break;
		case 'l':
			w->probes["c08.l"]++;
			if (u.b32.empty() || u.b32.size() > 19) { viol("fields.login", "login message decodes to " + std::to_string(u.b32.size()) + " bytes, expected a non-empty prefix of 19"); break; }
			if (u.b32.size() < 19) w->probes["c08.login_truncated_by_limit"]++;
			if (have_challenge) {
				uint8_t h[17]; h[0] = (uint8_t)userid; ref_login(w->cfg["clients"].a[0].gets("password", w->password), challenge, h + 1);
				if (memcmp(u.b32.data(), h, std::min<size_t>(17, u.b32.size()))) viol("fields.login", "login message is not a prefix of userid + MD5 response for the challenge received");
			}
			break;
		case 'n': {
			w->probes["c08.n"]++;
			if (u.b32.size() != 5) { if (u.b32.empty() || u.b32.size() > 5) viol("fields.setfrag", "set-fragsize message decodes to " + std::to_string(u.b32.size()) + " bytes, expected 5"); break; }
			int f = (u.b32[1] << 8) | u.b32[2];
			int want = (int)w->cfg["clients"].a[0].geti("fragsize");
			if (want && f != want) { snprintf(b, sizeof b, "set-fragsize message asks for %d, the client was started with -m %d", f, want); viol("fields.setfrag", b); }
			if (userid >= 0 && u.b32[0] != userid) viol("fields.setfrag", "set-fragsize message names another userid");
			break; }
		case 'p':
			w->probes["c08.p"]++;
			if (u.b32.empty() || u.b32.size() > 4) viol("fields.ping", "ping decodes to " + std::to_string(u.b32.size()) + " bytes, expected 4");
			else if (userid >= 0 && u.b32[0] != userid) viol("fields.ping", "ping names another userid");
			break;
		case 'r': w->probes["c08.r"]++; if (userid >= 0 && u.userid != (userid & 15)) viol("fields.probe", "fragsize probe names another userid"); break;
		case 'd': data_chunk(u, dotted); break;
		default: break;
		}
	}

	void data_chunk(const UpQuery &u, const std::string &dotted)
	{
		char b[300];
		w->probes["c08.d"]++;
		Bytes slice = codec_decode(up_codec, u.enc_payload);
		if (slice.empty()) { viol("data.empty", "data query carries no payload bytes: " + dotted.substr(0, 60)); return; }
		// round trip of the encoded text through the reference codec: detects text outside the alphabet / lossy tails
		if (codec_encode(up_codec, slice) != (up_codec == 5 ? [&]() { std::string s = u.enc_payload; for (auto &c : s) c = (char)tolower((unsigned char)c); return s; }() : u.enc_payload)) w->probes["c08.noncanonical_tail"]++;
		bool fresh_packet = !tracking || u.up_seq != seq;
		if (fresh_packet) {
			if (!have_pend) { w->probes["c08.untracked_packet"]++; tracking = false; return; }
			Z = z_compress(pend_pkt); have_pend = false;
			off = 0; seq = u.up_seq; frag = u.up_frag; tracking = true; srv_seen.clear();
			if (u.up_frag != 0) { snprintf(b, sizeof b, "first chunk of upstream packet %d is numbered %d", seq, u.up_frag); viol("data.first_fragment", b); }
			w->probes["c08.packets"]++;
		} else if (u.up_frag == frag) {
			// re-send of the current chunk: must be the same slice
		} else if (u.up_frag == ((frag + 1) & 15)) {
			if (frag == 15) w->probes["c08.over16"]++;     // the 4-bit counter wraps: beyond what fits, but each name still has to carry the next slice
			off += cur_n; frag = u.up_frag;
		} else { snprintf(b, sizeof b, "chunk number went from %d to %d within upstream packet %d", frag, u.up_frag, seq); viol("data.numbering", b); tracking = false; return; }
		cur_n = slice.size();
		if (off + cur_n > Z.size() || memcmp(slice.data(), Z.data() + off, cur_n)) {
			snprintf(b, sizeof b, "chunk %d/%d decodes to %zu bytes that are not the bytes %zu.. of the compressed packet (%zu bytes)", seq, frag, cur_n, off, Z.size());
			viol("data.slice", b); tracking = false; return;
		}
		bool is_last = off + cur_n == Z.size();
		if ((bool)u.last != is_last) { snprintf(b, sizeof b, "chunk %d/%d ends at byte %zu of %zu but its last-fragment flag is %d", seq, frag, off + cur_n, Z.size(), u.last); viol("data.last_flag", b); }
		if (!is_last) w->probes["c08.full_chunks"]++; else w->probes["c08.tail_chunks"]++;
		w->probes["c08.tail_mod." + std::to_string(cur_n % 8)]++;
	}

	void from_server(const Dgram &d)
	{
		if (is_raw(d.data)) return;
		DnsMsg m; Bytes pl; UpQuery u;
		if (!dns_parse_strict(d.data, m).empty() || m.qd.empty() || !answer_payload(m, pl)) return;
		if (!decode_upquery(m.qd[0].name.dotted(), w->domain, u)) return;
		if (u.cmd == 'v' && pl.size() >= 9 && !memcmp(pl.data(), "VACK", 4)) { challenge = ((uint32_t)pl[4] << 24) | (pl[5] << 16) | (pl[6] << 8) | pl[7]; userid = pl[8]; have_challenge = true; }
		if (u.cmd == 's') { std::string s(pl.begin(), pl.end()); int c = codec_from_name(s); if (c) { up_codec = c; w->probes["c08.codec." + s]++; } }
	}

	void on_recv(Task &t, const Dgram &d) override
	{
		if (&t != w->srv || !tracking || is_raw(d.data)) return;
		DnsMsg m; UpQuery u;
		if (!dns_parse_strict(d.data, m).empty() || m.qd.empty() || !decode_upquery(m.qd[0].name.dotted(), w->domain, u) || u.cmd != 'd') return;
		if (u.up_seq != seq || u.up_frag != frag) return;                     // only the chunk currently tracked
		if (u.last) {
			// the last chunk of the tracked packet: when the server holds everything before it, accepting this chunk means the packet
			// goes out on the server's tun in this very step (a last chunk that is dropped - say because it carries a single byte -
			// loses the packet although every name decoded to what was sent)
			UserView v; Bytes got = peek_inpacket(u.userid);
			bool holds = peek_user(u.userid, v) && v.in.seqno == seq && (frag == 0 ? true : v.in.fragment == frag - 1) && got.size() == off && std::equal(got.begin(), got.end(), Z.begin());
			if (frag == 0) holds = holds || (peek_user(u.userid, v) && v.in.seqno != seq);
			if (holds && srv_seen.insert({u.up_seq, u.up_frag}).second && z_uncompress(Z, lastchk.pkt)) { lastchk.armed = true; lastchk.written = false; lastchk.n = cur_n; lastchk.seq = seq; lastchk.frag = frag; }
			return;
		}
		if (!srv_seen.insert({u.up_seq, u.up_frag}).second) return;
		sc.armed = true; sc.uid = u.userid; sc.seq = seq; sc.frag = frag;
		sc.want.assign(Z.begin(), Z.begin() + off + cur_n);
	}

	struct LastChk { bool armed = false, written = false; Bytes pkt; size_t n = 0; int seq = 0, frag = 0; } lastchk;
	void on_tun_write(Task &t, const Bytes &p) override { if (&t == w->srv && lastchk.armed && p == lastchk.pkt) lastchk.written = true; }
	void on_block(Task &t) override
	{
		if (&t == w->srv && lastchk.armed) {
			lastchk.armed = false;
			w->probes["c08.srv_last_chunk_checked"]++;
			if (lastchk.n == 1) w->probes["c08.srv_last_chunk_of_one_byte"]++;
			if (!lastchk.written) { char b[200]; snprintf(b, sizeof b, "the last chunk %d/%d (%zu bytes) of an upstream packet reached the server, which held everything before it, but the packet was not written to the server's tun", lastchk.seq, lastchk.frag, lastchk.n); viol("server.last_chunk", b); }
		}
		if (&t != w->srv || !sc.armed) return;
		sc.armed = false;
		UserView v;
		if (!peek_user(sc.uid, v) || v.in.seqno != sc.seq || v.in.fragment != sc.frag) return;   // the server moved on within the same step
		Bytes got = peek_inpacket(sc.uid);
		w->probes["c08.srv_prefix_checked"]++;
		if (got != sc.want) {
			char b[240]; snprintf(b, sizeof b, "after chunk %d/%d the server's reassembly buffer holds %zu bytes, the chunks sent so far carry %zu%s", sc.seq, sc.frag, got.size(), sc.want.size(),
					      got.size() == sc.want.size() ? " (different bytes)" : "");
			viol("server.extraction", b);
		}
	}
};
Monitor *mk_c08_names(World *w) { return new C08Names(w); }

// ================================================================== C09 (client half, direct): the autoprobe's verdicts
// The real client probes fragment sizes by binary search and then requests max_ok - 2 with N.  Every probe reply that reaches
// it is also decoded by the reference decoder; the size it settles on must be the largest probed size whose reply arrived
// exactly (right length, right pattern) - anything else means the client extracted something different from what was sent.
struct C09ProbeJudge : Monitor {
	World *w;
	std::map<int, int> verdict;      // probed F -> 1 exact reply seen first, 0 inexact reply seen first (no entry: no reply with that ack)
	std::vector<int> order;
	bool done = false;
	C09ProbeJudge(World *w) : w(w) {}
	void on_send(const Dgram &d, Sock *s) override
	{
		if (done || !s || w->clients.empty() || s->owner != w->clients[0].task || is_raw(d.data)) return;
		DnsMsg m; UpQuery u;
		if (!dns_parse_strict(d.data, m).empty() || m.qd.empty() || !decode_upquery(m.qd[0].name.dotted(), w->domain, u)) return;
		if (u.cmd == 'r' && u.raw.size() >= 3) {
			int F = ((std::max(0, b32val(u.raw[0])) & 1) << 10) | ((std::max(0, b32val(u.raw[1])) & 31) << 5) | (std::max(0, b32val(u.raw[2])) & 31);
			if (order.empty() || order.back() != F) order.push_back(F);
		} else if (u.cmd == 'n' && u.b32.size() >= 3 && !order.empty()) {
			done = true;
			int asked = (u.b32[1] << 8) | u.b32[2];
			int best = 0;
			for (auto &v : verdict) if (v.second == 1) best = std::max(best, v.first);
			w->probes["c09.autoprobe_judged"]++;
			if (best > 2 && asked != best - 2) {
				char b[260]; snprintf(b, sizeof b, "the client settled on fragment size %d; the largest probed size whose reply reached it exactly (reference decoder) was %d, so %d was expected (%zu sizes probed)", asked, best, best - 2, order.size());
				w->S.violate("C09", "probe.misjudged", b);
			}
		}
	}
	void on_deliver(const Dgram &d, Sock *s) override
	{
		if (done || !s || w->clients.empty() || s->owner != w->clients[0].task || d.src.port != 53 || is_raw(d.data)) return;
		DnsMsg m; UpQuery u; Bytes pl;
		if (!dns_parse_strict(d.data, m).empty() || m.qd.empty() || !decode_upquery(m.qd[0].name.dotted(), w->domain, u) || u.cmd != 'r') return;
		if (order.empty() || !answer_payload(m, pl) || pl.size() < 2) return;
		int acked = (pl[0] << 8) | pl[1];
		if (acked != order.back() || verdict.count(acked)) return;        // late answer to an earlier probe, or already judged
		bool ok = (int)pl.size() == acked && pl.size() >= 3 && pl[2] == 107;
		for (size_t i = 4; ok && i < pl.size(); i++) if ((uint8_t)(pl[i] - pl[i - 1]) != 107) ok = false;
		verdict[acked] = ok ? 1 : 0;
	}
};
Monitor *mk_c09_probe_judge(World *w) { return new C09ProbeJudge(w); }

// ================================================================== second session on the same slot (C11)
// After a restart the path may be a different one and the new client negotiates afresh.  Once it is in tunnel mode on a clean
// path, every (small, fitting) packet read from its tun must come out of the server's tun and vice versa.
struct SecondSession : Monitor {
	World *w;
	struct E { Bytes p; uint64_t t; bool done = false; };
	std::vector<E> up, dn;
	SecondSession(World *w) : w(w)
	{
		SecondSession *self = this;
		w->result_hooks.insert(w->result_hooks.begin(), [self](J &) { self->finish(); });
	}
	bool second(Task &t) const { return w->clients.size() >= 2 && &t == w->clients[1].task; }
	void on_tun_read(Task &t, const Bytes &p) override
	{
		if (w->clients.size() < 2 || !w->clients[1].in_tunnel || p.size() < 24 || p.size() > 400) return;
		if (second(t)) { up.push_back({p, w->S.now}); w->probes["c11.second.up_offered"]++; }
		else if (&t == w->srv) {
			uint32_t dst = ((uint32_t)p[20] << 24) | (p[21] << 16) | (p[22] << 8) | p[23];
			if (dst == w->clients[1].tun_ip_h) { dn.push_back({p, w->S.now}); w->probes["c11.second.dn_offered"]++; }
		}
	}
	void on_tun_write(Task &t, const Bytes &p) override
	{
		if (&t == w->srv) { for (auto &e : up) if (!e.done && e.p == p) { e.done = true; break; } }
		else if (second(t)) { for (auto &e : dn) if (!e.done && e.p == p) { e.done = true; break; } }
	}
	void finish()
	{
		if (w->S.capped || w->clients.size() < 2 || !w->clients[1].in_tunnel) return;
		if (w->clients[1].task->state == T_EXITED) return;
		uint64_t end = w->S.now;
		int lu = 0, ld = 0;
		for (auto &e : up) if (!e.done && end - e.t > 15000000ull) lu++;
		for (auto &e : dn) if (!e.done && end - e.t > 15000000ull) ld++;
		if (lu + ld) {
			char b[300]; snprintf(b, sizeof b, "second session on the same slot (new path, fresh negotiation): %d of %zu upstream and %d of %zu downstream packets offered on a clean path were never delivered", lu, up.size(), ld, dn.size());
			w->S.violations.push_back({"C11", "second_session.lost", b});
		} else if (!up.empty() || !dn.empty()) w->probes["c11.second.delivered_all"]++;
	}
};
Monitor *mk_second_session(World *w) { return new SecondSession(w); }
