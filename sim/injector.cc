// C09 pairing (ii): reference encoder -> real client.  An on-path party takes over the (idle) downstream data channel of a
// real session: it slices its own compressed packets into fragments of ARBITRARY lengths in arbitrary order, numbers them per
// the protocol, encodes them with the reference encoder in the session's answer format and waits for the client's ack (read
// from the client's next queries) before moving on.  Oracle: the real client writes exactly those packets to its tun, once each,
// in order - whatever the length of any fragment and whatever answer (with more or fewer records) came before it.
#include "scen.h"
#include "gen.h"
#include <algorithm>

struct DownInjector : Monitor {
	World *w;
	std::deque<Bytes> queue;                 // frames waiting to be sent
	std::vector<Bytes> started, finished;    // frames whose transfer began / was fully acknowledged
	std::vector<uint64_t> t_started;
	Bytes Z; size_t off = 0, cur_n = 0; int seq = 0, frag = 0; bool active = false; bool cur_chosen = false;
	uint64_t key = 0, nfr = 0;
	std::vector<Bytes> written;
	DownInjector(World *w) : w(w) { key = splitmix64(w->S.seed ^ 0x1a9ec7); }

	static bool is_raw(const Bytes &b) { return b.size() >= 4 && b[0] == 0x10 && b[1] == 0xd1 && b[2] == 0x9e; }

	int capacity(uint16_t qt) const
	{
		// the statement's range is 2..4096 for every type whose answer format can hold that much (hostname answers cannot)
		switch (qt) { case QT_NULL: case QT_PRIVATE: case QT_TXT: case QT_MX: case QT_SRV: return 4090; default: return 110; }
	}

	// called from the path for every datagram
	bool filter(Dgram &d)
	{
		if (is_raw(d.data) || d.data.size() < 12) return true;
		DnsMsg m; UpQuery u;
		if (!dns_parse_strict(d.data, m).empty() || m.qd.size() != 1) return true;
		std::string qn = m.qd[0].name.dotted();
		if (!decode_upquery(qn, w->domain, u) || (u.cmd != 'p' && u.cmd != 'd')) return true;
		if (!m.qr) {
			// the client's query: read its downstream ack
			int as, af;
			if (u.cmd == 'd') { as = u.dn_seq; af = u.dn_frag; }
			else { if (u.b32.size() < 2) return true; as = (u.b32[1] >> 4) & 7; af = u.b32[1] & 15; }
			if (active && cur_chosen && as == seq && af == frag) {
				off += cur_n; cur_chosen = false;
				if (off >= Z.size()) { active = false; finished.push_back(started.back()); w->probes["c09.inj_packets_acked"]++; }
				else frag++;
			}
			return true;
		}
		// an answer of the real server to a ping/data query
		Bytes pl;
		if (m.rcode || !answer_payload(m, pl) || pl.size() < 2 || !(pl[0] & 0x80)) return true;
		if (pl.size() > 2) return true;          // the real server sends data of its own: leave it alone (not generated in this mode)
		// whenever no fragment is substituted the downstream header still has to be the injector's (last seqno/fragment, no data),
		// as the real server's would be: the real server's own idle header (0/0) must never reach the client
		auto idle = [&]() {
			Bytes np(2); np[0] = pl[0]; np[1] = (uint8_t)(((seq & 7) << 5) | ((frag & 15) << 1));
			int used = 0;
			Bytes nb = build_answer(m.id, qn, m.qd[0].type, np, 'T', &used);
			if (used == 2) { d.data = nb; w->S.count("relay.inj_idle_header"); } else w->S.count("relay.inj_idle_header_failed");
			return true;
		};
		if (!active && queue.empty()) return idle();
		if (!active) {
			started.push_back(queue.front()); t_started.push_back(w->S.now);
			Z = z_compress(queue.front()); queue.pop_front();
			off = 0; frag = 0; seq = (seq + 1) & 7; active = true; cur_chosen = false;
		}
		uint16_t qt = m.qd[0].type;
		if (!cur_chosen) {
			// length of this fragment: anything from 1 byte to what the format carries, but the packet must finish within 16 fragments
			size_t remaining = Z.size() - off;
			size_t cap = (size_t)capacity(qt);
			size_t must = (remaining + (15 - frag)) / (16 - frag);          // at least this much now
			if (frag >= 15) must = remaining;
			uint64_t h = splitmix64(key ^ (++nfr * 0x9e3779b97f4a7c15ull));
			size_t n;
			switch (h % 6) {
			case 0: n = 1 + (h >> 8) % 8; break;                             // tiny
			case 1: n = 1 + (h >> 8) % std::max<size_t>(1, cap / 8); break;
			case 2: n = cap - (h >> 8) % std::max<size_t>(1, cap / 16); break; // as big as it gets
			default: n = 1 + (h >> 8) % cap;
			}
			n = std::max(n, must); n = std::min(n, remaining); n = std::min(n, cap);
			// never a one-fragment packet: the real server sends those once without waiting for an ack (a re-sent copy would be
			// written twice by the client, client.c "weird situation"), and this sender re-sends until acknowledged
			if (frag == 0 && n >= remaining) n = remaining - 1;
			if (n < must) {
				// cannot fit in 16 fragments: give the packet up.  Nothing of it was sent if this is fragment 0, so the sequence number is
				// handed back (the protocol's seqno advances by one per packet; a jump would look like an old duplicate to the client)
				if (frag == 0) seq = (seq + 7) & 7;
				active = false; started.pop_back(); t_started.pop_back(); w->probes["c09.inj_skipped_too_big"]++; return idle();
			}
			cur_n = n; cur_chosen = true;
			w->probes["c09.inj_fragments"]++;
			if (n <= 8) w->probes["c09.inj_tiny"]++;
			if (n >= cap - cap / 16) w->probes["c09.inj_full"]++;
		}
		bool last = off + cur_n >= Z.size();
		Bytes np(2 + cur_n);
		np[0] = pl[0]; np[1] = (uint8_t)(((seq & 7) << 5) | ((frag & 15) << 1) | (last ? 1 : 0));
		memcpy(&np[2], Z.data() + off, cur_n);
		char enc = "TSUV"[(nfr + frag) % 4];
		if (qt == QT_TXT && ((nfr >> 2) % 5) == 0) enc = 'R';
		int used = 0;
		Bytes nb = build_answer(m.id, qn, qt, np, enc, &used);
		if (used < (int)np.size()) {
			// the reference layout carries less than planned: shrink this fragment to what fits (still a legal fragment)
			if (used <= 2) return idle();
			cur_n = (size_t)used - 2; last = off + cur_n >= Z.size();
			np.resize(2 + cur_n); np[1] = (uint8_t)(((seq & 7) << 5) | ((frag & 15) << 1) | (last ? 1 : 0));
			nb = build_answer(m.id, qn, qt, np, enc, &used);
			if (used < (int)np.size()) return idle();
		}
		d.data = nb;
		w->S.count("relay.injected_fragment");
		return true;
	}

	void on_tun_write(Task &t, const Bytes &p) override
	{
		if (w->clients.empty() || &t != w->clients[0].task) return;
		written.push_back(p);
	}
	void on_end() override
	{
		if (w->S.capped || !w->all_in_tunnel) return;
		// written must be: the started packets in order, each at most once, and every packet started more than 20 s before the end
		size_t wi = 0;
		char b[260];
		for (size_t i = 0; i < started.size(); i++) {
			bool due = t_started[i] + 20ull * 1000000 <= w->S.now;
			if (wi < written.size() && written[wi] == started[i]) { wi++; continue; }
			if (!due) continue;
			snprintf(b, sizeof b, "packet %zu of the injected downstream stream (%zu bytes, started at %.1f s) was not written to the client's tun%s", i, started[i].size(), t_started[i] / 1e6,
				 wi < written.size() ? "; the client wrote something else instead" : "");
			w->S.violate("C09", "client.extraction", b);
			return;
		}
		if (wi < written.size()) {
			bool known = false; for (auto &s : started) if (s == written[wi]) known = true;
			snprintf(b, sizeof b, "the client wrote a %zu-byte packet %s", written[wi].size(), known ? "a second time / out of order" : "that was never sent");
			w->S.violate("C09", known ? "client.duplicate" : "client.fabricated", b);
		}
		w->probes["c09.inj_written"] = (int64_t)written.size();
	}
};

Monitor *install_injector(World *w)
{
	DownInjector *inj = new DownInjector(w);
	auto prev = w->S.path_filter;
	w->S.path_filter = [inj, prev](Dgram &d) { if (prev && !prev(d)) return false; return inj->filter(d); };
	w->op_hook = [inj, w](const J &op) {
		if (op.gets("op") != "inj") return false;
		inj->queue.push_back(w->make_packet(op));
		w->S.count("op.inj");
		return true;
	};
	return inj;
}
