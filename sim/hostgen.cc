// Hostile input generators.  Layered: random bytes, DNS-shaped with structural
// anomalies, tunnel commands with adversarial arguments, raw frames, hostile answers.
#include "hostgen.h"
#include <algorithm>

static const uint16_t QTYPES[] = {QT_NULL, QT_PRIVATE, QT_TXT, QT_SRV, QT_MX, QT_CNAME, QT_A, QT_NS, 255, 28, 6, 0, 41};

static Bytes rnd_alpha(Rng &r, size_t n, int cls)
{
	// cls: 0 base32 chars, 1 base64-ish, 2 any non-dot non-zero byte, 3 high bytes, 4 any byte
	Bytes b(n);
	for (auto &c : b) {
		switch (cls) {
		case 0: c = "abcdefghijklmnopqrstuvwxyz012345"[r.range(0, 31)]; break;
		case 1: c = "abcdefghijklmnopqrstuvwxyzABCDEFGHIJKLMNOPQRSTUVWXYZ-0123456789+_"[r.range(0, 64)]; break;
		case 2: do c = (uint8_t)r.range(1, 255); while (c == '.'); break;
		case 3: c = (uint8_t)r.range(0x80, 0xff); break;
		default: c = (uint8_t)r.range(0, 255);
		}
	}
	return b;
}

static void hdr(Bytes &b, uint16_t id, uint16_t flags, uint16_t qd, uint16_t an, uint16_t ns, uint16_t ar)
{
	put16(b, id); put16(b, flags); put16(b, qd); put16(b, an); put16(b, ns); put16(b, ar);
}

// labels from a flat byte string, cut every `cut` bytes
static void put_labels(Bytes &b, const Bytes &flat, size_t cut)
{
	for (size_t i = 0; i < flat.size(); i += cut) {
		size_t l = std::min(cut, flat.size() - i);
		b.push_back((uint8_t)l);
		b.insert(b.end(), flat.begin() + i, flat.begin() + i + l);
	}
}

Bytes hostile_wire_name(Rng &r, const std::string &suffix, int anomaly)
{
	Bytes b;
	switch (anomaly) {
	case 0: { // plain random labels + suffix
		put_labels(b, rnd_alpha(r, r.range(1, 200), (int)r.range(0, 4)), r.range(1, 63));
		Bytes s; put_name(s, suffix); b.insert(b.end(), s.begin(), s.end());
		break; }
	case 1: // label length beyond 63 (reserved bits) then bytes
		b.push_back((uint8_t)r.range(64, 191)); { Bytes x = rnd_alpha(r, r.range(0, 100), 4); b.insert(b.end(), x.begin(), x.end()); }
		break;
	case 2: // pointer to itself / loop (offset 12 is the usual name start)
		b.push_back(0xc0); b.push_back(12);
		break;
	case 3: // pointer far past the end
		b.push_back((uint8_t)(0xc0 | r.range(0, 63))); b.push_back((uint8_t)r.range(0, 255));
		break;
	case 4: { // label that claims more bytes than remain (no terminator)
		b.push_back((uint8_t)r.range(1, 63));
		Bytes x = rnd_alpha(r, r.range(0, 5), 4); b.insert(b.end(), x.begin(), x.end());
		break; }
	case 5: { // very long name, > 255 bytes
		put_labels(b, rnd_alpha(r, r.range(256, 1500), (int)r.range(0, 3)), 63);
		Bytes s; put_name(s, suffix); b.insert(b.end(), s.begin(), s.end());
		break; }
	case 6: { // labels then a pointer back into the middle of the header
		put_labels(b, rnd_alpha(r, r.range(1, 60), 2), r.range(1, 63));
		b.push_back(0xc0); b.push_back((uint8_t)r.range(0, 30));
		break; }
	case 7: { // mutual pointer loop 12 -> 14 -> 12
		b.push_back(0xc0); b.push_back(14); b.push_back(0xc0); b.push_back(12);
		break; }
	case 8: { // NUL and dots inside labels
		Bytes x = rnd_alpha(r, r.range(2, 40), 2);
		x[r.range(0, x.size() - 1)] = 0; x[r.range(0, x.size() - 1)] = '.';
		put_labels(b, x, r.range(1, 63));
		Bytes s; put_name(s, suffix); b.insert(b.end(), s.begin(), s.end());
		break; }
	default: { // empty name
		b.push_back(0);
		break; }
	}
	return b;
}

Bytes hostile_query_random(Rng &r)
{
	size_t n;
	switch (r.range(0, 9)) { case 0: n = 0; break; case 1: n = r.range(1, 11); break; case 2: n = 12; break; case 3: n = r.range(2000, 65507); break; default: n = r.range(12, 600); }
	Bytes b = r.bytes(n);
	if (n >= 3 && r.chance(0.5)) b[2] &= 0x7f;    // look like a query
	if (n >= 6 && r.chance(0.5)) { b[4] = 0; b[5] = 1; }
	return b;
}

Bytes hostile_query_dnsshaped(Rng &r, const std::string &domain)
{
	Bytes b;
	uint16_t flags = r.chance(0.8) ? 0x0100 : (uint16_t)r.range(0, 65535);
	uint16_t qd = r.chance(0.8) ? 1 : (uint16_t)(r.chance(0.5) ? r.range(0, 3) : 65535);
	hdr(b, (uint16_t)r.range(0, 65535), flags, qd, (uint16_t)(r.chance(0.9) ? 0 : r.range(0, 65535)), 0, (uint16_t)(r.chance(0.7) ? 0 : 1));
	int nq = qd > 3 ? 2 : qd;
	for (int i = 0; i < std::max(1, nq); i++) {
		Bytes n = hostile_wire_name(r, r.chance(0.7) ? domain : "other.example", (int)r.range(0, 9));
		b.insert(b.end(), n.begin(), n.end());
		put16(b, QTYPES[r.range(0, 12)]); put16(b, r.chance(0.9) ? 1 : (uint16_t)r.range(0, 65535));
	}
	if (r.chance(0.3)) { b.push_back(0); put16(b, QT_OPT); put16(b, 4096); put32(b, 0x8000); put16(b, (uint16_t)(r.chance(0.5) ? 0 : r.range(0, 2000))); }
	if (r.chance(0.3)) b.resize(r.range(0, b.size()));               // truncate anywhere
	if (r.chance(0.1)) { Bytes x = r.bytes(r.range(1, 300)); b.insert(b.end(), x.begin(), x.end()); }
	return b;
}

Bytes hostile_query_name(Rng &r, uint16_t id, const std::string &name, uint16_t qtype, bool edns)
{
	(void)r;
	return dns_build_query(id, name, qtype, edns);
}

// tunnel commands with adversarial arguments; `name` is a raw label string (may contain any byte)
Bytes hostile_query_command(Rng &r, const std::string &domain, int nusers, int own_uid)
{
	static const char cmds[] = "vVlLiIzZsSoOyYrRnNpP0123456789abcdefABCDEFwWxX";
	char c = cmds[r.range(0, sizeof(cmds) - 2)];
	bool own = own_uid >= 0 && own_uid < 16 && r.chance(0.85);
	if (own && isxdigit((unsigned char)c)) c = (r.chance(0.8) ? "0123456789abcdef" : "0123456789ABCDEF")[own_uid];
	if (own && r.chance(0.3)) c = (r.chance(0.8) ? "0123456789abcdef" : "0123456789ABCDEF")[own_uid];      // an insider mostly sends data
	Bytes body;
	body.push_back((uint8_t)c);
	size_t alen;
	switch (r.range(0, 7)) {
	case 0: alen = r.range(0, 5); break;
	case 1: alen = r.range(5, 17); break;
	case 2: alen = r.range(14, 19); break;
	case 3: alen = r.range(50, 63); break;
	case 4: alen = r.range(100, 240); break;
	default: alen = r.range(0, 60);
	}
	int cls = (int)r.range(0, 4);
	Bytes args = rnd_alpha(r, alen, cls);
	// userid position: real slot numbers, out-of-range, high bytes
	if (!args.empty()) {
		switch (r.range(0, 5)) {
		case 0: args[0] = (uint8_t)b32chr((int)r.range(0, std::max(0, nusers - 1))); break;
		case 1: args[0] = (uint8_t)b32chr((int)r.range(0, 31)); break;
		case 2: args[0] = (uint8_t)r.range(0x80, 0xff); break;
		default: break;
		}
		if (own) args[0] = (uint8_t)b32chr(tolower((unsigned char)c) == 'r' ? ((own_uid << 1) | (int)r.range(0, 1)) : own_uid);
	}
	char lc = (char)tolower((unsigned char)c);
	if ((lc == 'v' || lc == 'l' || lc == 'n' || lc == 'p') && r.chance(0.7)) {
		// properly Base32-encoded structured body with hostile field values
		Bytes raw;
		if (lc == 'v') { uint32_t ver = r.chance(0.6) ? 0x00000502 : (uint32_t)r.next(); raw = {(uint8_t)(ver >> 24), (uint8_t)(ver >> 16), (uint8_t)(ver >> 8), (uint8_t)ver}; Bytes x = r.bytes(r.range(0, 4)); raw.insert(raw.end(), x.begin(), x.end()); }
		else if (lc == 'l') { raw.push_back((uint8_t)(r.chance(0.7) ? r.range(0, 17) : r.range(0, 255))); Bytes x = r.bytes(r.range(0, 24)); raw.insert(raw.end(), x.begin(), x.end()); }
		else if (lc == 'n') { raw.push_back((uint8_t)(r.chance(0.7) ? r.range(0, 17) : r.range(0, 255))); uint16_t f = (uint16_t)(r.chance(0.5) ? r.range(0, 3) : r.range(0, 65535)); raw.push_back(f >> 8); raw.push_back(f & 255); Bytes x = r.bytes(r.range(0, 3)); raw.insert(raw.end(), x.begin(), x.end()); }
		else { raw.push_back((uint8_t)(r.chance(0.7) ? r.range(0, 17) : r.range(0, 255))); Bytes x = r.bytes(r.range(0, 6)); raw.insert(raw.end(), x.begin(), x.end()); }
		if (own && lc != 'v' && !raw.empty()) raw[0] = (uint8_t)own_uid;
		std::string e = codec_encode(5, raw);
		args.assign(e.begin(), e.end());
	}
	if (((lc >= '0' && lc <= '9') || (lc >= 'a' && lc <= 'f')) && r.chance(0.7)) {
		// data: 3 header chars + cmc + payload in some alphabet, long
		Bytes h = rnd_alpha(r, 4, r.chance(0.8) ? 0 : 3);
		Bytes pl = rnd_alpha(r, r.range(0, 220), (int)r.range(0, 4));
		if (own && r.chance(0.5)) {
			// a well-formed fragment header (so that the reassembly really runs): seq/frag/last chosen freely, junk or compressed payload
			int us = (int)r.range(0, 7), uf = (int)r.range(0, 15), ds = (int)r.range(0, 7), df = (int)r.range(0, 15), last = (int)r.range(0, 1);
			h[0] = (uint8_t)b32chr((us << 2) | (uf >> 2)); h[1] = (uint8_t)b32chr(((uf & 3) << 3) | ds); h[2] = (uint8_t)b32chr((df << 1) | last);
			if (r.chance(0.5)) { Bytes x((size_t)r.range(1, 70000), (uint8_t)r.range(0, 255)); Bytes z = z_compress(x); if (z.size() > 120) z.resize(120); std::string e = codec_encode(5, z); pl.assign(e.begin(), e.end()); }
		}
		args = h; args.insert(args.end(), pl.begin(), pl.end());
	}
	body.insert(body.end(), args.begin(), args.end());
	Bytes b;
	hdr(b, (uint16_t)(r.chance(0.05) ? 0 : r.range(1, 65535)), 0x0100, 1, 0, 0, 0);
	size_t cut = r.chance(0.7) ? 57 : (size_t)r.range(1, 63);
	put_labels(b, body, cut);
	Bytes s; put_name(s, domain); b.insert(b.end(), s.begin(), s.end());
	put16(b, QTYPES[r.range(0, 7)]); put16(b, 1);
	if (r.chance(0.1)) b.resize(r.range(12, b.size()));
	return b;
}

Bytes hostile_raw_frame(Rng &r)
{
	Bytes b = {0x10, 0xd1, 0x9e, (uint8_t)r.range(0, 255)};
	if (r.chance(0.7)) b[3] = (uint8_t)((r.range(1, 3) << 4) | r.range(0, 15));
	size_t n;
	switch (r.range(0, 6)) { case 0: n = 0; break; case 1: n = r.range(1, 15); break; case 2: n = 16; break; case 3: n = r.range(4000, 20000); break; default: n = r.range(0, 1500); }
	Bytes pl;
	switch (r.range(0, 3)) {
	case 0: pl = r.bytes(n); break;
	case 1: { Bytes x(n ? n : 1, 0x41); pl = z_compress(x); break; }                      // valid zlib
	case 2: { Bytes x(60000, 0); pl = z_compress(x); break; }                             // expands to 60 KB
	default: { Bytes x(70000, 0x55); pl = z_compress(x); break; }                         // expands beyond the 64 KB buffer
	}
	b.insert(b.end(), pl.begin(), pl.end());
	if (r.chance(0.1)) b.resize(r.range(0, 3));
	return b;
}

Bytes hostile_tun_packet(Rng &r, uint32_t dst)
{
	size_t n;
	// a Linux tun device always delivers the 4-byte frame header, so 4 is the shortest possible read
	switch (r.range(0, 6)) { case 0: n = 4; break; case 1: n = r.range(5, 23); break; case 2: n = r.range(24, 40); break; case 3: n = r.range(20000, 65000); break; default: n = r.range(24, 1600); }
	Bytes p = r.bytes(n);
	if (n >= 4) { p[0] = 0; p[1] = 0; p[2] = 8; p[3] = 0; }
	if (n >= 24 && r.chance(0.8)) { p[4] = 0x45; p[20] = dst >> 24; p[21] = dst >> 16; p[22] = dst >> 8; p[23] = dst; }
	return p;
}

// ------------------------------------------------------------------ hostile answers for the client
std::string hostile_login_reply(Rng &r)
{
	static const char *frag[] = {" ", "\t", "\n", "'", "\"", ";", "|", "&", "$(id)", "`id`", "\\", "; reboot ;", " && touch /tmp/pwned", "$IFS", "-", "..", "0x7f.1", "017700000001",
		"1", "10.0.0.2 ;id", "10.0.0.2\n", "999.999.999.999", "1.2.3", "1.2", "\xff\xfe", "AAAAAAAAAAAAAAAAAAAAAAAAAAAAAAAAAAAAAAAAAAAAAAAAAAAAAAAAAAAAAAAAAAAAAAAAAAAAAA", "%s%n", ""};
	auto field_ip = [&]() {
		std::string s;
		if (r.chance(0.15)) s = std::to_string(r.range(100, 255)) + "." + std::to_string(r.range(100, 255)) + "." + std::to_string(r.range(100, 255)) + "." + std::to_string(r.range(100, 255));     // 15 characters: the longest a dotted quad gets (fixed-size copies and comparisons end here)
		else if (r.chance(0.4)) s = std::to_string(r.range(0, 255)) + "." + std::to_string(r.range(0, 255)) + "." + std::to_string(r.range(0, 255)) + "." + std::to_string(r.range(0, 255));
		else if (r.chance(0.3)) s = "10.0.0.2";
		if (r.chance(0.7)) { int n = (int)r.range(1, 3); for (int i = 0; i < n; i++) s += frag[r.range(0, 27)]; }
		return s;
	};
	auto field_num = [&]() {
		static const char *nums[] = {"0", "200", "201", "1500", "1501", "-1", "2147483648", "33", "32", "31", "8", "30", "1130", "27", "4294967295", "-2147483648", "99999999999999999999",
			"65737", "66736", "67036", "131273", "-64336", "4294902960", "4294968496", "65536", "65535", "-65335"};     // in range only modulo 2^16 / 2^32
		std::string s = nums[r.range(0, 26)];
		if (r.chance(0.3)) s += frag[r.range(0, 27)];
		return s;
	};
	auto near_ip = [&]() {
		// spellings close to a dotted quad: what a lenient parser (inet_addr, sscanf %d) accepts and a strict one must not
		static const char *odd[] = {"010.1.1.1", "10.1.1.1 ", " 10.1.1.1", "+10.1.1.1", "10.1.1.1.", "0x0a.1.1.1", "10.1.1.256", "10.1.1.04", "10.1.1", "10.1.1.1/8", "10.1.1.1\t", "10.01.1.1", "10.1.1.-1", "10.1.1.1e0", "1.1.1.1,2", "10.1.1.0x1", "00010.1.1.1", "10..1.1", ".10.1.1.1", "10.1.1.1\r", "99999999999.1.1.1", "10.1.1.4294967297", "10.1.18446744073709551617.1", "2147483648.1.1.1"};
		if (r.chance(0.5)) return std::string(odd[r.range(0, 23)]);
		return std::to_string(r.range(0, 255)) + "." + std::to_string(r.range(0, 255)) + "." + std::to_string(r.range(0, 255)) + "." + std::to_string(r.range(0, 255));
	};
	if (r.chance(0.3)) return near_ip() + "-" + near_ip() + "-" + field_num() + "-" + field_num();
	std::string s = field_ip() + "-" + field_ip() + "-" + field_num() + "-" + field_num();
	if (r.chance(0.1)) s += "-" + field_num();
	return s;
}

Bytes hostile_payload_for(Rng &r, char cmd, int uid)
{
	Bytes p;
	auto S2B = [](const std::string &s) { return Bytes(s.begin(), s.end()); };
	switch (tolower((unsigned char)cmd)) {
	case 'v': {
		static const char *w[] = {"VACK", "VNAK", "VFUL", "VAC", "XXXX"};
		p = S2B(w[r.range(0, 4)]);
		Bytes x = r.bytes(r.range(0, 8)); p.insert(p.end(), x.begin(), x.end());
		if (p.size() >= 9 && r.chance(0.5)) p[8] = (uint8_t)r.range(0, 255);
		break; }
	case 'l': {
		switch (r.range(0, 3)) { case 0: p = S2B("LNAK"); break; case 1: p = S2B("BADIP"); break; default: p = S2B(hostile_login_reply(r)); }
		break; }
	case 'i': { p.push_back('I'); Bytes x = r.bytes(r.chance(0.4) ? 4 : r.chance(0.5) ? 16 : r.range(0, 40)); p.insert(p.end(), x.begin(), x.end()); break; }
	case 's': case 'o': {
		static const char *w[] = {"BADLEN", "BADIP", "BADCODEC", "Base32", "Base64", "Base64u", "Base128", "Raw", "Lazy", "Immediate", ""};
		p = S2B(w[r.range(0, 10)]);
		if (r.chance(0.3)) { Bytes x = r.bytes(r.range(1, 4096)); p.insert(p.end(), x.begin(), x.end()); }
		break; }
	case 'y': { static const uint8_t chk[48] = {0,0,0,0,255,255,255,255,0x55,0x55,0x55,0x55,0xaa,0xaa,0xaa,0xaa,0x81,0x63,0xc8,0xd2,0xc7,0x7c,0xb2,0x17,0x5f,0x4f,0xce,0xc9,0x49,0x2d,0x52,0x21,0x61,0xa9,0x71,0x20,0x25,0xb3,0x06,0x73,0xe6,0xd8,0x44,0x30,0x79,0x50,0x57,0xbf};
		p.assign(chk, chk + 48);
		if (r.chance(0.5)) p[r.range(0, 47)] ^= (uint8_t)r.range(1, 255);
		if (r.chance(0.3)) p.resize(r.range(0, 47));
		break; }
	case 'z': { p = r.bytes(r.range(0, 300)); break; }
	case 'r': {
		size_t n = r.chance(0.5) ? (size_t)r.range(2, 2047) : (size_t)r.range(0, 4200);
		p.assign(n, 0);
		if (n >= 2) { size_t claim = r.chance(0.7) ? n : (size_t)r.range(0, 2047); p[0] = claim >> 8; p[1] = claim & 255; }
		if (n >= 3) p[2] = r.chance(0.8) ? 107 : (uint8_t)r.range(0, 255);
		unsigned v = (unsigned)r.range(0, 255);
		for (size_t i = 3; i < n; i++, v = (v + 107) & 255) p[i] = (uint8_t)v;
		if (n > 10 && r.chance(0.4)) p[r.range(3, n - 1)] ^= 1;
		break; }
	case 'n': { p = r.chance(0.5) ? S2B("BADFRAG") : r.bytes(r.range(0, 6)); break; }
	default: {
		// ping/data answer: 2-byte header + fragment
		uint8_t h0 = (uint8_t)r.range(0, 255), h1 = (uint8_t)r.range(0, 255);
		p = {h0, h1};
		size_t n;
		switch (r.range(0, 5)) { case 0: n = 0; break; case 1: n = r.range(1, 50); break; case 2: n = r.range(3000, 4094); break; default: n = r.range(1, 1200); }
		Bytes body;
		if (r.chance(0.3)) { Bytes x(60000, 0); body = z_compress(x); }
		else body = r.bytes(n);
		p.insert(p.end(), body.begin(), body.end());
		if (r.chance(0.1)) p = S2B("BADIP");
		if (r.chance(0.05)) p = {'x'};
		break; }
	}
	(void)uid;
	return p;
}

static void rr_head(Bytes &b, uint16_t type, uint32_t ttl = 0) { put16(b, 0xc00c); put16(b, type); put16(b, 1); put32(b, ttl); }

Bytes hostile_answer(Rng &r, const Bytes &orig, int uid)
{
	// recover id and question from the original (query or answer)
	uint16_t id = orig.size() >= 2 ? (uint16_t)((orig[0] << 8) | orig[1]) : (uint16_t)r.range(0, 65535);
	std::string qname = "pabc.t.example.com"; uint16_t qtype = QT_NULL;
	size_t qend = 12;
	{
		// lenient walk of the first question
		size_t p = 12; bool ok = orig.size() > 12;
		std::string nm;
		while (ok && p < orig.size()) {
			uint8_t l = orig[p];
			if (l == 0) { p++; break; }
			if (l & 0xc0) { ok = false; break; }
			if (p + 1 + l > orig.size()) { ok = false; break; }
			if (!nm.empty()) nm += '.';
			nm.append((const char *)&orig[p + 1], l);
			p += 1 + l;
		}
		if (ok && p + 4 <= orig.size()) { qname = nm; qtype = (orig[p] << 8) | orig[p + 1]; qend = p + 4; }
	}
	char cmd = qname.empty() ? 'p' : qname[0];
	if (r.chance(0.1)) id = (uint16_t)(id + r.range(1, 7));                       // wrong id
	int mode = (int)r.range(0, 12);
	if (mode == 12) {
		// a name that ends in the FIRST octet of a compression pointer, and that octet is the last one of the datagram: the
		// second octet of the pointer would have to come from whatever lies behind the datagram. In the question, in the owner
		// name, or inside RDATA (CNAME target, MX/SRV exchange) - the places that are parsed by different code.
		Bytes b;
		int where = (int)r.range(0, 3);
		hdr(b, id, 0x8400, 1, 1, 0, 0);
		Bytes lab; { Bytes flat = rnd_alpha(r, r.range(1, 60), (int)r.range(0, 3)); flat[0] = "hijkHIJKtsuvr"[r.range(0, 12)]; put_labels(lab, flat, 63); }
		if (where == 0) { b.insert(b.end(), lab.begin(), lab.end()); b.push_back(0xc0); return b; }
		if (qend > 12) b.insert(b.end(), orig.begin() + 12, orig.begin() + qend); else { put_labels(b, Bytes{'p', 'a'}, 63); b.push_back(0); put16(b, qtype); put16(b, 1); }
		if (where == 1) { b.insert(b.end(), lab.begin(), lab.end()); b.push_back(0xc0); return b; }
		uint16_t t = where == 2 ? QT_CNAME : (r.chance(0.5) ? QT_MX : QT_SRV);
		rr_head(b, t);
		Bytes rd;
		if (t != QT_CNAME) { put16(rd, 10); if (t == QT_SRV) { put16(rd, 10); put16(rd, 5060); } }
		rd.insert(rd.end(), lab.begin(), lab.end()); rd.push_back(0xc0);
		put16(b, (uint16_t)(rd.size() + (r.chance(0.5) ? 1 : 0)));     // RDLENGTH as if the pointer were complete, or exact
		b.insert(b.end(), rd.begin(), rd.end());
		return b;
	}
	if (mode <= 3) {
		// well-formed DNS, hostile tunnel payload
		Bytes pl = hostile_payload_for(r, r.chance(0.85) ? cmd : "vlisoyzrnp0"[r.range(0, 10)], uid);
		static const char encs[] = "TSUVR";
		return build_answer(id, qname, qtype, pl, encs[r.range(0, 4)]);
	}
	Bytes b;
	uint16_t flags = 0x8400 | (uint16_t)(r.chance(0.15) ? r.range(1, 5) : 0);
	if (r.chance(0.05)) flags &= 0x7fff;
	hdr(b, id, flags, r.chance(0.9) ? 1 : (uint16_t)r.range(0, 3), 1, 0, 0);
	if (qend > 12 && r.chance(0.9)) b.insert(b.end(), orig.begin() + 12, orig.begin() + qend);
	else { Bytes n = hostile_wire_name(r, "t.example.com", (int)r.range(0, 9)); b.insert(b.end(), n.begin(), n.end()); put16(b, qtype); put16(b, 1); }
	int an = 1;
	switch (mode) {
	case 4: { // NULL/any: RDLENGTH games
		uint16_t t = r.chance(0.7) ? qtype : QTYPES[r.range(0, 7)];
		rr_head(b, t);
		static const int lens[] = {0, 1, 2, 3, 4095, 4096, 4097, 5000, 65535, 100};
		int claim = lens[r.range(0, 9)];
		int actual = r.chance(0.5) ? claim : (int)r.range(0, 5000);
		if (actual > 60000) actual = 60000;
		put16(b, (uint16_t)claim);
		Bytes x = r.bytes(actual); b.insert(b.end(), x.begin(), x.end());
		break; }
	case 5: { // TXT with bad chunking
		rr_head(b, QT_TXT);
		Bytes rd;
		int chunks = (int)r.range(0, 40);
		for (int i = 0; i < chunks; i++) { int l = (int)r.range(0, 255); rd.push_back((uint8_t)l); Bytes x = rnd_alpha(r, r.chance(0.8) ? l : (int)r.range(0, l), (int)r.range(0, 4)); rd.insert(rd.end(), x.begin(), x.end()); }
		if (!rd.empty() && r.chance(0.5)) rd[1 < rd.size() ? 1 : 0] = "tsuvrTSUVRx"[r.range(0, 10)];
		put16(b, (uint16_t)(r.chance(0.7) ? rd.size() : r.range(0, 6000)));
		b.insert(b.end(), rd.begin(), rd.end());
		break; }
	case 6: { // CNAME with hostile name
		rr_head(b, QT_CNAME);
		Bytes n = hostile_wire_name(r, "ab", (int)r.range(0, 9));
		if (r.chance(0.5) && !n.empty() && n[0] < 64 && n.size() > 1) n[1] = "hijkHIJKx"[r.range(0, 8)];
		put16(b, (uint16_t)(r.chance(0.7) ? n.size() : r.range(0, 600)));
		b.insert(b.end(), n.begin(), n.end());
		break; }
	case 7: case 8: { // MX/SRV: many records, odd preferences, long names, pointer expansion
		uint16_t t = (qtype == QT_SRV || (qtype != QT_MX && r.chance(0.5))) ? QT_SRV : QT_MX;
		an = (int)(r.chance(0.5) ? r.range(1, 20) : r.range(200, 300));
		size_t firstname = 0;
		for (int i = 0; i < an && b.size() < 64000; i++) {
			rr_head(b, t);
			Bytes rd;
			uint16_t pref;
			switch (r.range(0, 5)) { case 0: pref = (uint16_t)(10 * (i + 1)); break; case 1: pref = (uint16_t)r.range(0, 65535); break; case 2: pref = (uint16_t)(2490 + r.range(0, 30)); break; case 3: pref = 10; break; default: pref = (uint16_t)(10 * r.range(1, 250)); }
			put16(rd, pref);
			if (t == QT_SRV) { put16(rd, 10); put16(rd, 5060); }
			Bytes n;
			if (firstname && r.chance(0.5)) {
				// long label run then pointer to an earlier long name: expands to > 255 when followed
				put_labels(n, rnd_alpha(r, r.range(60, 180), 0), 63);
				n.push_back(0xc0 | (firstname >> 8)); n.push_back(firstname & 0xff);
			} else {
				Bytes flat = rnd_alpha(r, r.range(1, 245), (int)r.range(0, 3));
				flat[0] = "hijk"[r.range(0, 3)];
				put_labels(n, flat, 63); n.push_back(0);
				if (!firstname && b.size() + 12 + rd.size() < 0x3fff) firstname = b.size() + 2 + rd.size();
			}
			rd.insert(rd.end(), n.begin(), n.end());
			put16(b, (uint16_t)(r.chance(0.9) ? rd.size() : r.range(0, 400)));
			b.insert(b.end(), rd.begin(), rd.end());
		}
		break; }
	case 9: { // ancount lies, no records
		an = (int)r.range(1, 65535);
		break; }
	case 10: { // everything random after the question
		Bytes x = r.bytes(r.range(0, 3000)); b.insert(b.end(), x.begin(), x.end());
		break; }
	default: { // truncated valid answer
		Bytes v = build_answer(id, qname, qtype, hostile_payload_for(r, cmd, uid), 'T');
		v.resize(r.range(0, v.size()));
		return v; }
	}
	b[6] = an >> 8; b[7] = an & 0xff;
	if (r.chance(0.1)) b.resize(r.range(0, b.size()));
	return b;
}
