// Hostile datagram generators (used by hostile_srv / hostile_cli / auth scenarios).
#pragma once
#include "gen.h"
#include "ref.h"

// a DNS name in wire form with optional anomalies
Bytes hostile_wire_name(Rng &r, const std::string &suffix_dotted, int anomaly);
// datagrams aimed at iodined's DNS socket
Bytes hostile_query_random(Rng &r);                                      // L0
Bytes hostile_query_dnsshaped(Rng &r, const std::string &domain);        // L1
Bytes hostile_query_command(Rng &r, const std::string &domain, int nusers_hint, int own_uid = -1); // L2; own_uid: an insider that mostly uses its own user id
Bytes hostile_raw_frame(Rng &r);                                         // L4
Bytes hostile_tun_packet(Rng &r, uint32_t dst_ip_h);
// answers aimed at the iodine client: keeps id+question of `orig` when usable
Bytes hostile_answer(Rng &r, const Bytes &orig_answer_or_query, int userid_hint);
Bytes hostile_payload_for(Rng &r, char cmd, int userid_hint);             // tunnel-level hostile payloads
std::string hostile_login_reply(Rng &r);                                 // C13 grammar
Bytes hostile_query_name(Rng &r, uint16_t id, const std::string &name, uint16_t qtype, bool edns);
