// Scenarios "hostile_srv" (C05) and "hostile_cli" (C06/C13): real programs under
// ASan/UBSan receive generated hostile datagrams inside live sessions.
#include "scen.h"
#include "model.h"
#include <memory>
#include "gen.h"
#include "hostgen.h"
#include <algorithm>

static void canary_traffic(Rng &r, J &ops, double t_from, double t_to, double period, uint64_t &ser, int fit)
{
	for (double t = t_from; t < t_to; t += period) {
		for (int side = 0; side < 2; side++) {
			J op = J::obj();
			op.set("t", (long long)((t + side * period * 0.41) * 1e6)); op.set("op", "tun"); op.set("at", side ? "srv" : "c0"); op.set("ser", (long long)++ser);
			op.set("len", (int)r.range(40, fit)); op.set("body", "rnd"); op.set("dst", side ? "c0" : "srv"); op.set("src", side ? "ext" : "c0");
			ops.push(op);
		}
	}
}

static int fit_len(const J &c0, size_t domlen)
{
	int fit = 300;
	int M = c0.geti("maxlen") ? (int)c0.geti("maxlen") : 255;
	int space = M - (int)domlen - 8; space -= space / 57;
	int up = space * 5 / 8 * 16 - 30;
	if (up < fit) fit = up;
	if (c0.geti("fragsize")) { int dn = (int)c0.geti("fragsize") * 16 - 30; if (dn < fit) fit = dn; }
	return fit < 40 ? 40 : fit;
}

// ================================================================== hostile_srv
J gen_hostile_srv(uint64_t seed, const J &ov)
{
	Rng r(seed, "hostile_srv");
	J plan = J::obj(), cfg = J::obj(), ops = J::arr();
	plan.set("scenario", "hostile_srv"); plan.set("seed", (long long)seed);
	std::string dom = gen_domain(r);
	cfg.set("domain", dom);
	if (r.chance(0.3)) { size_t dot = dom.find('.'); cfg.set("srv_domain", "*" + dom.substr(dot)); }
	cfg.set("password", gen_password(r));
	int bits = (int)r.range(24, 30);
	cfg.set("tun_bits", bits);
	cfg.set("tun_ip", "10." + std::to_string(r.range(0, 255)) + "." + std::to_string(r.range(0, 255)) + ".1");
	cfg.set("residue", (int)r.range(0, 4));
	bool v6 = r.chance(0.3);
	cfg.set("srv_v6", v6);
	if (r.chance(0.3)) cfg.set("bind_port", (int)r.range(1024, 60000));
	if (r.chance(0.2)) cfg.set("no_check_ip", true);
	J cl = J::arr();
	{ J c = J::obj(); gen_client_cfg(r, c, false, false, (int)dom.size(), 20); c.set("raw", false); cl.push(c); }
	bool second = r.chance(0.4);
	double H = 5 + r.uniform() * 15;     // hostile phase length
	if (second) { J c = J::obj(); gen_client_cfg(r, c, true, true, (int)dom.size(), 2); c.set("late", true); c.set("start_us", (long long)((2 + r.uniform() * H) * 1e6)); cl.push(c); }
	cfg.set("clients", cl);
	int fit = fit_len(cl.a[0], dom.size());
	int nusers = std::min(16, (1 << (32 - bits)) - 3);

	// hostile datagrams
	int N = ov.has("n_hostile") ? (int)ov.geti("n_hostile") : (int)(r.chance(0.7) ? r.range(30, 200) : r.range(200, 600));
	uint32_t canary_ip = 0;   // resolved at run time for tun packets: use dst "c0" via tun op instead
	(void)canary_ip;
	for (int i = 0; i < N; i++) {
		J op = J::obj();
		double t = 1 + r.uniform() * H;
		op.set("t", (long long)(t * 1e6));
		int layer = (int)r.range(0, 9);
		if (layer == 9) {
			op.set("op", "tunhex"); op.set("at", "srv");
			// destination: an address inside the tunnel subnet so that some of them match the canary
			uint32_t base = Addr::v4(cfg.gets("tun_ip").c_str(), 0).v4_hostorder();
			op.set("hex", hexs(hostile_tun_packet(r, (base & ~0xffu) | (uint32_t)r.range(0, 20))));
			ops.push(op);
			continue;
		}
		Bytes d;
		if (layer == 0) d = hostile_query_random(r);
		else if (layer <= 2) d = hostile_query_dnsshaped(r, dom);
		else if (layer <= 6) d = hostile_query_command(r, dom, nusers);
		else d = hostile_raw_frame(r);
		op.set("op", "dgram");
		int a = (int)r.range(0, 2);
		op.set("from", "atk" + std::to_string(a));
		op.set("from_ip", "10.9.2." + std::to_string(1 + a));
		if (v6) { op.set("from_ip6", "fd00::2:" + std::to_string(1 + a)); if (r.chance(0.3)) op.set("v6", true); }
		op.set("sport", (int)r.range(1024, 65535));
		op.set("to", "srv");
		op.set("hex", hexs(d));
		ops.push(op);
	}
	// an insider: a model client that knows the password, logs in (sometimes also raw) and then misbehaves from its own address
	if (r.chance(0.6)) {
		J models = J::arr(); J m = J::obj();
		m.set("name", "h0"); m.set("ip", "10.9.4.1"); m.set("auto", true); m.set("start_us", (long long)((0.2 + r.uniform() * 2) * 1e6));
		m.set("ping_period", 0.5 + r.uniform() * 3);
		static const char *qts[] = {"NULL", "TXT", "CNAME", "MX", "SRV", "A", "PRIVATE"};
		m.set("qtype", qts[r.range(0, 6)]);
		if (r.chance(0.4)) m.set("fragsize", (int)r.range(2, 2000));
		if (r.chance(0.4)) { static const int ue[] = {6, 26, 7}; m.set("upenc", ue[r.range(0, 2)]); }
		m.set("lazy", r.chance(0.5));
		models.push(m); cfg.set("models", models);
		bool rawl = r.chance(0.3);
		if (rawl) {
			double tl = 3 + r.uniform() * 2;
			J op = J::obj(); op.set("ref", "abs"); op.set("t", (long long)(tl * 1e6)); op.set("op", "mc"); op.set("who", "h0"); op.set("act", "rawlogin"); op.set("mode", "good"); ops.push(op);
			// runts right behind it (and behind later raw frames of the insider): from the insider's own address and from a third party
			int nr = (int)r.range(1, 6);
			for (int i = 0; i < nr; i++) {
				J o2 = J::obj(); o2.set("ref", "abs"); o2.set("t", (long long)((tl + (i == 0 ? 0.0005 + r.uniform() * 0.01 : r.uniform() * (H + 5))) * 1e6)); o2.set("op", "mc"); o2.set("who", "h0"); o2.set("act", "rawrunt");
				o2.set("key", (long long)(r.next() >> 1));
				if (r.chance(0.6)) o2.set("spoof_ip", "10.9.2." + std::to_string(r.range(1, 3)));
				ops.push(o2);
			}
		}
		if (r.chance(0.35)) {
			J op = J::obj(); op.set("ref", "abs"); op.set("t", (long long)((5 + r.uniform() * H) * 1e6)); op.set("op", "mc"); op.set("who", "h0"); op.set("act", "upflood");
			op.set("n", (int)(r.chance(0.5) ? r.range(100, 600) : r.range(600, 1600))); op.set("seq", (int)r.range(0, 7)); op.set("per_seq", (int)(r.chance(0.7) ? 16 : r.range(1, 16)));
			op.set("bytes", (int)r.range(60, 125)); op.set("gap_us", (int)r.range(300, 4000)); op.set("key", (long long)(r.next() >> 1));
			ops.push(op);
		}
		int k = (int)r.range(20, 300);
		for (int i = 0; i < k; i++) {
			J op = J::obj(); op.set("ref", "abs"); op.set("t", (long long)((4 + r.uniform() * (H + 10)) * 1e6)); op.set("op", "mc"); op.set("who", "h0"); op.set("act", "hostile"); op.set("key", (long long)(r.next() >> 1));
			ops.push(op);
		}
	}
	// on-path mutation of the sessions' own traffic during the hostile phase
	J f = J::obj();
	f.set("ref", "T0"); f.set("t0_us", (long long)1000000); f.set("t1_us", (long long)((1 + H) * 1e6));
	f.set("p_trunc", r.chance(0.5) ? r.uniform() * 0.1 : 0.0);
	f.set("p_flip", r.chance(0.5) ? r.uniform() * 0.1 : 0.0);
	f.set("p_dup", r.chance(0.3) ? r.uniform() * 0.1 : 0.0);
	cfg.set("faults", f);
	uint64_t ser = seed % 1000 * 100000;
	double period = 0.3 + r.uniform() * 3;
	double tend = 1 + H + 60 + 40;
	canary_traffic(r, ops, 0.2, tend, period, ser, fit);
	cfg.set("dur_s", (int)(tend + 25));
	cfg.set("tmax_s", 900);
	cfg.set("max_events", 2000000);
	cfg.set("mode", "recover");
	plan.set("cfg", cfg); plan.set("ops", ops);
	return plan;
}

// server must still be selecting after every hostile datagram
struct ServerAlive : Monitor {
	World *w;
	ServerAlive(World *w) : w(w) {}
	void on_exit(Task &t) override
	{
		if (&t == w->srv) w->S.violate("C05", "server.exit", "iodined terminated with code " + std::to_string(t.exit_code) + " at " + std::to_string(w->S.now / 1e6) + "s");
	}
	void on_deliver(const Dgram &d, Sock *s) override
	{
		if (s && s->owner == w->srv && d.src_host >= 0 && w->S.hosts[d.src_host].name.rfind("atk", 0) == 0) {
			w->probes["c05.hostile_delivered"]++;
			if (d.data.size() >= 4 && d.data[0] == 0x10 && d.data[1] == 0xd1 && d.data[2] == 0x9e) { w->probes["c05.raw_frames"]++; return; }
			DnsMsg m; UpQuery u;
			if (dns_parse_strict(d.data, m).empty() && !m.qd.empty() && decode_upquery(m.qd[0].name.dotted(), w->domain, u)) {
				std::string k = "c05.cmd."; k += u.cmd;
				w->probes[k]++;
			}
		}
	}
};

World *build_hostile_srv(const J &plan)
{
	World *w = new World();
	w->plan = plan;
	w->build_common();
	if (w->cfg.has("models")) { Models *ms = new Models(); ms->w = w; w->models = ms; for (auto &m : w->cfg["models"].a) ms->add(m.gets("name"), m); }
	if (!w->models && !w->cfg.getb("no_check_ip")) w->add(mk_c01_integrity(w));      // an insider is a legitimate sender: what it makes the server write is its own; with -c anybody who names a logged-in user is
	                                                                                   // accepted as that user by design
	// with a second (late) client the C02 monitor watches only client 0 (it requires clients.size()==1): use a view
	w->add(mk_c02_delivery(w, false, true));
	w->add(mk_c14_ledger(w, false));
	w->add(mk_probes(w));
	w->add(new ServerAlive(w));
	w->sig = "hostile_srv|" + w->cfg["clients"].a[0].gets("qtype", "auto") + "/" + w->cfg["clients"].a[0].gets("downenc", "auto") + (w->cfg.geti("bind_port") ? "/fw" : "") + (w->cfg.getb("srv_v6") ? "/v6" : "");
	World *ww = w;
	w->result_hooks.push_back([ww](J &r) { r.set("nontriv", ww->all_in_tunnel && ww->probes["c05.hostile_delivered"] >= 10); });
	return w;
}

// ================================================================== hostile_cli
// Real client against the real server behind a hostile on-path party that mutates or
// replaces answers, plus off-path spoofers.  Used by C06 and (login replies) C13.
J gen_hostile_cli(uint64_t seed, const J &ov)
{
	Rng r(seed, "hostile_cli");
	J plan = J::obj(), cfg = J::obj(), ops = J::arr();
	plan.set("scenario", "hostile_cli"); plan.set("seed", (long long)seed);
	std::string dom = gen_domain(r);
	cfg.set("domain", dom);
	cfg.set("password", gen_password(r));
	cfg.set("tun_bits", (int)r.range(24, 29));
	cfg.set("tun_ip", "10." + std::to_string(r.range(0, 255)) + "." + std::to_string(r.range(0, 255)) + ".1");
	cfg.set("residue", (int)r.range(0, 4));
	J cl = J::arr();
	J c = J::obj(); gen_client_cfg(r, c, true, true, (int)dom.size(), 2);
	if (ov.has("raw")) c.set("raw", ov.getb("raw"));
	cl.push(c);
	cfg.set("clients", cl);
	// hostile on-path party: which answers (server->client ordinals) get replaced and how
	J h = J::obj();
	std::string focus = ov.gets("focus", "");
	if (focus.empty()) { static const char *f[] = {"any", "any", "login", "handshake", "tunnel"}; focus = f[r.range(0, 4)]; }
	h.set("focus", focus);
	h.set("p", focus == "login" ? 1.0 : focus == "spoof" ? 0.0 : 0.02 + r.uniform() * 0.3);
	bool spoof_raw = focus == "spoof" && ov.getb("raw", false);
	if (focus == "spoof") { J &c0 = cl.a[0]; c0.set("raw", spoof_raw); if (c0.gets("qtype").empty() && r.chance(0.8)) c0.set("qtype", "NULL"); cfg.set("clients", cl); }
	h.set("keep_orig", r.chance(0.5));     // also deliver the genuine answer afterwards (racing spoofer) or suppress it (on-path)
	h.set("key", (long long)(r.next() >> 1));
	// fragment flood: from some tunnel answer on, every answer becomes the next fragment (same seqno, ascending numbers, no last
	// flag) of one never-ending downstream packet, as large as the answer format allows
	if ((focus == "any" || focus == "tunnel") && r.chance(0.25)) { h.set("flood_from", (int)r.range(0, 60)); h.set("flood_len", (int)r.range(3, 40)); h.set("flood_size", (int)(r.chance(0.5) ? r.range(15000, 30000) : r.range(2000, 15000))); h.set("flood_seq", (int)r.range(0, 7)); }
	cfg.set("hostile", h);
	// off-path spoofers: forged answers from the server's address to the client's port
	int nsp = (int)(r.chance(0.5) ? 0 : r.range(5, 80));
	if (focus == "spoof") nsp = (int)r.range(50, 400);
	for (int i = 0; i < nsp; i++) {
		J op = J::obj();
		op.set("ref", "abs");
		op.set("t", (long long)((0.1 + r.uniform() * (focus == "spoof" ? 38 : 20)) * 1e6));
		if (focus == "spoof") op.set("unmatched", true);
		op.set("op", "dgram"); op.set("from", "atk0"); op.set("from_ip", "10.9.2.1"); op.set("to", "c0"); op.set("dport", "auto");
		op.set("spoof_ip", "10.9.0.1"); op.set("sport", 53);
		Bytes q = dns_build_query((uint16_t)r.range(0, 65535), std::string(1, "pPvVlLyYzZrRnNoOsSiI0a"[r.range(0, 21)]) + "abc." + dom, QT_NULL, false);
		op.set("hex", hexs(hostile_answer(r, q, 0)));
		if (spoof_raw && r.chance(0.6)) {
			// raw-mode frames that are not for this client: shorter than the 4-byte header (down to the bare ident), a wrong
			// ident, or another user's id (the only client of this scenario is user 0); valid compressed payloads behind them
			Bytes pl; { Bytes x = r.bytes((size_t)r.range(20, 600)); x[0] = 0; x[1] = 0; x[2] = 8; x[3] = 0; pl = z_compress(x); }
			Bytes f = {0x10, 0xd1, 0x9e, (uint8_t)((2 << 4) | 0)};
			switch (r.range(0, 5)) {
			case 0: f.resize((size_t)r.range(0, 3)); break;
			case 1: f.resize(3); break;
			case 2: f[(size_t)r.range(0, 2)] ^= (uint8_t)(1 << r.range(0, 7)); f.insert(f.end(), pl.begin(), pl.end()); break;
			case 3: f[3] = (uint8_t)((2 << 4) | r.range(1, 15)); f.insert(f.end(), pl.begin(), pl.end()); break;
			case 4: f[3] = (uint8_t)((r.range(1, 3) << 4) | r.range(1, 15)); break;
			default: f[3] = (uint8_t)((2 << 4) | r.range(1, 15)); f.insert(f.end(), pl.begin(), pl.begin() + (long)std::min<size_t>(pl.size(), (size_t)r.range(0, 8))); break;
			}
			op.set("hex", hexs(f)); op.set("unmatched", false);
			if (r.chance(0.25)) {
				// ... and complete, well-formed frames for THIS client (data and ping, user 0) that come from a host which is not the
				// server and does not pretend to be: a raw-mode client knows who it logged in to
				J o2 = J::obj(); o2.set("ref", "abs"); o2.set("t", op["t"]); o2.set("op", "dgram"); o2.set("from", "atk0"); o2.set("from_ip", "10.9.2.1"); o2.set("to", "c0"); o2.set("dport", "auto"); o2.set("sport", (int)(r.chance(0.5) ? 53 : r.range(1024, 65000)));
				Bytes g = {0x10, 0xd1, 0x9e, (uint8_t)(((r.chance(0.8) ? 2 : 3) << 4) | 0)};
				if ((g[3] >> 4) == 2) g.insert(g.end(), pl.begin(), pl.end());
				o2.set("hex", hexs(g)); o2.set("unmatched", false);
				ops.push(o2);
				continue;
			}
		}
		ops.push(op);
	}
	if (focus == "spoof" && !spoof_raw && r.chance(0.4)) {
		// aimed guesses: well-formed data answers (complete one-fragment packets) under the DNS id one step before the client's first
		// query - the start value of its id sequence, which never went out - during the first tunnel queries
		int na = (int)r.range(1, 4);
		for (int i = 0; i < na; i++) {
			// ... or under DNS id 0, the value of the still unused entries of the client's table of recent ids after a short handshake
			J op = J::obj(); op.set("ref", "T0"); op.set("t", (long long)((0.002 + r.uniform() * (r.chance(0.5) ? 0.2 : 2.0)) * 1e6)); op.set("aim", r.chance(0.6) ? "before_first" : "zero_id");
			op.set("op", "dgram"); op.set("from", "atk0"); op.set("from_ip", "10.9.2.1"); op.set("to", "c0"); op.set("dport", "auto"); op.set("spoof_ip", "10.9.0.1"); op.set("sport", 53);
			Bytes x = r.bytes((size_t)r.range(28, 200)); x[0] = 0; x[1] = 0; x[2] = 8; x[3] = 0; x[4] = 0x45;
			Bytes pl = {(uint8_t)((r.range(0, 7) << 5) | 1), (uint8_t)r.range(0, 255)}; Bytes z = z_compress(x); pl.insert(pl.end(), z.begin(), z.end());
			std::string qt = cl.a[0].gets("qtype"); uint16_t t = qt == "TXT" ? QT_TXT : qt == "PRIVATE" ? QT_PRIVATE : QT_NULL;
			op.set("hex", hexs(build_answer(0, std::string("p") + "abcde." + dom, t, pl, 'R')));
			ops.push(op);
		}
	}
	uint64_t ser = seed % 1000 * 100000;
	std::string junk = focus == "spoof" ? (r.chance(0.15) ? "idle" : r.chance(0.18) ? "handshake" : "") : "";
	if (!junk.empty()) {
		// a steady trickle of datagrams that match nothing (one every 0.3-0.9 s for more than a minute), (a) into an idle tunnel,
		// (b) from the very start while the client's first query is lost: being ignored includes not keeping the client from
		// sending its keep-alive pings or from re-sending a handshake query
		ops = J::arr();
		double gap = junk == "idle" ? 0.3 + r.uniform() * 0.35 : 0.4 + r.uniform() * 0.5;
		for (double t = junk == "idle" ? 1.0 : 0.02; t < 75; t += gap * (0.8 + 0.4 * r.uniform())) {
			J op = J::obj(); op.set("ref", junk == "idle" ? "T0" : "abs"); op.set("t", (long long)(t * 1e6)); op.set("unmatched", true);
			op.set("op", "dgram"); op.set("from", "atk0"); op.set("from_ip", "10.9.2.1"); op.set("to", "c0"); op.set("dport", "auto"); op.set("spoof_ip", "10.9.0.1"); op.set("sport", 53);
			if (r.chance(0.5)) { Bytes q = dns_build_query((uint16_t)r.range(0, 65535), "www.example.org", QT_A, false); op.set("hex", hexs(hostile_answer(r, q, 0))); }
			else op.set("hex", hexs(r.bytes((size_t)r.range(12, 60))));
			ops.push(op);
		}
		if (junk == "handshake") { J f = J::obj(); f.set("ref", "abs"); f.set("start_drought_us", (long long)r.range(200000, 900000)); cfg.set("faults", f); }
		cfg.set("junk", junk);
		canary_traffic(r, ops, junk == "idle" ? 80 : 70, junk == "idle" ? 95 : 85, 0.5 + r.uniform(), ser, 200);
		cfg.set("dur_s", junk == "idle" ? 105 : 40);
		cfg.set("tmax_s", 300);
		cfg.set("max_events", 600000);
		plan.set("cfg", cfg); plan.set("ops", ops);
		return plan;
	}
	canary_traffic(r, ops, 0.2, 30, 0.3 + r.uniform() * 2, ser, 200);
	cfg.set("dur_s", 40);
	cfg.set("tmax_s", 200);
	cfg.set("max_events", 600000);
	plan.set("cfg", cfg); plan.set("ops", ops);
	return plan;
}

// every system() argument built by the client must consist of fixed words, strict
// dotted quads and in-range decimal integers only (C13)
static bool strict_quad(const std::string &t)
{
	int parts = 0; size_t i = 0;
	while (i < t.size()) {
		size_t j = i; int v = 0;
		while (j < t.size() && isdigit((unsigned char)t[j]) && j - i < 4) { v = v * 10 + (t[j] - '0'); j++; }
		if (j == i || j - i > 3 || v > 255) return false;
		if (j - i > 1 && t[i] == '0') return false;      // "010" is eight to ifconfig and inet_addr(): not the address that was validated
		parts++;
		if (j == t.size()) break;
		if (t[j] != '.') return false;
		i = j + 1;
		if (i == t.size()) return false;
	}
	return parts == 4;
}
struct SystemArgs : Monitor {
	World *w;
	SystemArgs(World *w) : w(w) {}
	void on_system(Task &t, const std::string &cmd) override
	{
		if (!w->client_of(&t)) return;
		w->probes["c13.system_calls"]++;
		for (unsigned char ch : cmd) if (!(isalnum(ch) || strchr("=/:._- ", ch))) {
			w->S.violate("C13", "shell.metachar", t.name + " ran: " + cmd);
			return;
		}
		// tokenise
		std::vector<std::string> tok; std::string cur;
		for (char ch : cmd) { if (ch == ' ') { if (!cur.empty()) tok.push_back(cur); cur.clear(); } else cur += ch; }
		if (!cur.empty()) tok.push_back(cur);
		Tun *u = w->S.tun_of(&t);
		std::string ifn = u ? u->ifname : "dns0";
		bool mtu_next = false;
		for (auto &k : tok) {
			if (mtu_next) {
				mtu_next = false;
				bool num = !k.empty() && k.size() <= 4; for (char ch : k) if (!isdigit((unsigned char)ch)) num = false;
				int v = num ? atoi(k.c_str()) : -1;
				if (v < 201 || v > 1500) { w->S.violate("C13", "mtu.range", t.name + " ran: " + cmd); return; }
				continue;
			}
			if (k == "PATH=/sbin:/bin" || k == "ifconfig" || k == "route" || k == "add" || k == "netmask" || k == ifn) continue;
			if (k == "mtu") { mtu_next = true; continue; }
			if (strict_quad(k)) continue;
			size_t sl = k.find('/');
			if (sl != std::string::npos && strict_quad(k.substr(0, sl))) { std::string b = k.substr(sl + 1); if (!b.empty() && b.size() <= 2 && isdigit((unsigned char)b[0])) continue; }
			w->S.violate("C13", "token", t.name + " ran '" + cmd + "': token '" + k + "' is neither a fixed word, a dotted quad nor a valid number");
			return;
		}
	}
};
Monitor *mk_c13_system(World *w) { return new SystemArgs(w); }

World *build_hostile_cli(const J &plan)
{
	World *w = new World();
	w->plan = plan;
	w->build_common();
	// no C01 monitor here: an on-path party that forges answers can forge packets by design
	w->add(mk_c14_ledger(w, false));
	w->add(mk_probes(w));
	w->add(new SystemArgs(w));
	const J &h = w->cfg["hostile"];
	if (h.gets("focus") == "spoof") {
		// only off-path answers that match none of the client's queries, on an otherwise clean path: they must be ignored, i.e.
		// the handshake completes and both tun streams are exact (C06, last clause)
		w->add(mk_c01_integrity(w));
		w->add(mk_c02_delivery(w, true, false, "C06"));
		World *w2 = w;
		if (w->cfg.gets("junk") == "handshake") w->result_hooks.push_back([w2](J &) {
			// one lost query and a trickle of unrelated datagrams: the handshake takes a few seconds longer, not as long as the trickle lasts
			if (!w2->S.capped && w2->all_in_tunnel && w2->T0 > 30ull * 1000000) { char b[160]; snprintf(b, sizeof b, "the handshake took %.1f s while unmatched datagrams kept arriving (one query lost at the start)", w2->T0 / 1e6); w2->S.violations.push_back({"C06", "spoof.handshake_stalled", b}); }
		});
		w->result_hooks.push_back([w2](J &) { if (!w2->S.capped && !w2->all_in_tunnel) w2->S.violations.push_back({"C06", "spoof.handshake_failed", "the client did not reach tunnel mode although only unmatched off-path answers were injected on a clean path"}); });
	}
	std::string focus = h.gets("focus", "any");
	double p = h.getd("p", 0.1);
	bool keep = h.getb("keep_orig");
	uint64_t key = (uint64_t)h.geti("key");
	World *ww = w;
	int srvh = w->srv_host;
	int flood_from = h.has("flood_from") ? (int)h.geti("flood_from") : -1, flood_len = (int)h.geti("flood_len"), flood_size = (int)h.geti("flood_size"), flood_seq = (int)h.geti("flood_seq");
	auto flood_n = std::make_shared<int>(0);
	auto tun_answers = std::make_shared<int>(0);
	if (!plan.getb("explicit_fates", false)) {
		w->S.gen_mutator = [ww, focus, p, keep, key, srvh, flood_from, flood_len, flood_size, flood_seq, flood_n, tun_answers](const Dgram &d, Fate &f) {
			if (d.src_host != srvh || d.data.size() < 12) return;
			if (flood_from >= 0 && !(d.data[0] == 0x10 && d.data[1] == 0xd1) && d.data.size() > 13) {
				char c0 = (char)tolower(d.data[13]);
				bool tunq = c0 == 'p' || (c0 >= '0' && c0 <= '9') || (c0 >= 'a' && c0 <= 'f');
				if (tunq && ww->all_in_tunnel) {
					int k = (*tun_answers)++;
					if (k >= flood_from && *flood_n < flood_len) {
						f.synth_size = flood_size; f.synth_seq = flood_seq; f.synth_frag = (*flood_n) & 15; f.synth_last = 0; f.synth_key = key ^ (uint64_t)k; f.synth_enc = "TSUV"[k % 4];
						(*flood_n)++;
						ww->probes["c06.flood_fragments"]++;
						return;
					}
				}
			}
			if (d.data[0] == 0x10 && d.data[1] == 0xd1) {
				// raw frame towards the client: occasionally mangle
				Rng rr(key ^ d.ordinal, "rawmut");
				if (rr.chance(p)) { f.has_replace = true; f.replace = hostile_raw_frame(rr); ww->probes["c06.raw_replaced"]++; }
				return;
			}
			// command letter of the question
			char cmd = d.data.size() > 13 ? (char)tolower(d.data[13]) : 0;
			bool hs = strchr("vlisoyzrn", cmd) != nullptr;
			if (focus == "login" && cmd != 'l') return;
			if (focus == "handshake" && !hs) return;
			if (focus == "tunnel" && hs) return;
			Rng rr(key ^ (d.ordinal * 0x9e3779b97f4a7c15ull), "ansmut");
			if (!rr.chance(p)) return;
			Bytes rep;
			if (cmd == 'l' && rr.chance(0.8)) {
				// well-formed answer carrying a hostile login reply in the session's downstream encoding
				std::string lr = hostile_login_reply(rr);
				DnsMsg m;
				if (dns_parse_strict(d.data, m).empty() && !m.qd.empty()) rep = build_answer(m.id, m.qd[0].name.dotted(), m.qd[0].type, Bytes(lr.begin(), lr.end()), "TSUVR"[rr.range(0, 4)]);
				ww->probes["c06.login_replaced"]++;
			}
			if (rep.empty()) rep = hostile_answer(rr, d.data, 0);
			f.has_replace = true; f.replace = rep;
			if (keep) { f.dup = 0; }
			std::string k = "c06.replaced."; k += (cmd ? cmd : '?');
			ww->probes[k]++;
		};
	}
	w->sig = "hostile_cli|" + focus + "|" + w->cfg["clients"].a[0].gets("qtype", "auto") + "/" + w->cfg["clients"].a[0].gets("downenc", "auto") + (w->cfg["clients"].a[0].getb("raw") ? "/raw" : "");
	w->result_hooks.push_back([ww](J &r) {
		int64_t n = 0;
		for (auto &p : ww->probes) if (p.first.rfind("c06.replaced.", 0) == 0 || p.first == "c06.raw_replaced") n += p.second;
		n += ww->S.counters.count("op.dgram") ? ww->S.counters["op.dgram"] : 0;
		r.set("nontriv", n >= 1);
	});
	return w;
}
