// Scenario "fakesrv": the real iodine client against a model of a hostile (or merely broken) iodined.
//
// The on-path mutator of hostile_cli can only replace single answers of the real server, so a client that was told something
// odd at step k is usually refused by the real server at step k+1 and never gets further.  Here the peer itself is the
// adversary: a protocol-aware model server that knows the password, answers every handshake step of doc/proto_00000502.txt so
// that the client keeps going - and at each step picks, from the run's keyed PRNG, either the plausible reply, a plausible
// reply with hostile field values (any userid byte in VACK, any address/MTU in the login reply, any address in the raw-address
// reply, any codec name, probe replies of any length ...), or one of the generated hostile payloads/answers.  In tunnel mode it
// runs a downstream sender that is sometimes correct and sometimes lies about sequence numbers, fragment numbers and lengths,
// and speaks raw mode when the client asks for it.  Oracle (C06): no sanitizer report, crash, or hang of the client; (C13) every
// system() argument stays within the strict grammar.
#include "scen.h"
#include "gen.h"
#include "hostgen.h"
#include <algorithm>

Monitor *mk_c13_system(World *w);
Monitor *mk_probes(World *w);

static void fk_canary(Rng &r, J &ops, double t_from, double t_to, double period, uint64_t &ser)
{
	for (double t = t_from; t < t_to; t += period) {
		J op = J::obj();
		op.set("t", (long long)(t * 1e6)); op.set("op", "tun"); op.set("at", "c0"); op.set("ser", (long long)++ser);
		op.set("len", (int)r.range(40, 1200)); op.set("body", "rnd"); op.set("dst", "srv"); op.set("src", "c0");
		ops.push(op);
	}
}

J gen_fakesrv(uint64_t seed, const J &ov)
{
	Rng r(seed, "fakesrv");
	J plan = J::obj(), cfg = J::obj(), ops = J::arr();
	plan.set("scenario", "fakesrv"); plan.set("seed", (long long)seed);
	std::string dom = gen_domain(r);
	cfg.set("domain", dom);
	cfg.set("password", gen_password(r));
	cfg.set("tun_bits", 24);
	cfg.set("tun_ip", "10.77.1.1");
	cfg.set("residue", (int)r.range(0, 4));
	cfg.set("no_server", true);
	J cl = J::arr();
	J c = J::obj(); gen_client_cfg(r, c, true, true, (int)dom.size(), 2);
	if (ov.has("raw")) c.set("raw", ov.getb("raw"));
	cl.push(c);
	cfg.set("clients", cl);
	J f = J::obj();
	f.set("key", (long long)(r.next() >> 1));
	// how often a step is answered with hostile field values / with a generated hostile payload / with a malformed answer
	f.set("p_fields", r.chance(0.2) ? 0.0 : 0.05 + r.uniform() * 0.5);
	f.set("p_payload", r.chance(0.3) ? 0.0 : 0.02 + r.uniform() * 0.2);
	f.set("p_answer", r.chance(0.4) ? 0.0 : 0.02 + r.uniform() * 0.15);
	f.set("p_silent", r.chance(0.5) ? 0.0 : r.uniform() * 0.2);
	// the userid byte of the version reply: the only place the client learns it
	switch (r.range(0, 9)) { case 0: f.set("userid", (int)r.range(16, 127)); break; case 1: f.set("userid", (int)r.range(128, 255)); break; case 2: f.set("userid", (int)r.range(0, 255)); break; default: f.set("userid", (int)r.range(0, 15)); }
	f.set("raw_ok", r.chance(0.6));
	if (ov.gets("focus") == "login") { f.set("login_odd", 1.0); f.set("userid", (int)r.range(0, 15)); f.set("p_silent", 0.0); }
	f.set("p_down", 0.1 + r.uniform() * 0.7);          // share of tunnel answers that carry a downstream fragment
	f.set("p_down_lie", r.chance(0.4) ? 0.0 : r.uniform() * 0.4);
	if (r.chance(0.5)) { f.set("p_hold", 0.05 + r.uniform() * 0.5); f.set("hold_max_us", (long long)(r.chance(0.5) ? r.range(2000, 200000) : r.range(200000, 4000000))); }
	cfg.set("fake", f);
	uint64_t ser = seed % 1000 * 100000;
	fk_canary(r, ops, 0.2, 30, 0.3 + r.uniform() * 2, ser);
	cfg.set("dur_s", 40);
	cfg.set("tmax_s", 240);
	cfg.set("max_events", 600000);
	plan.set("cfg", cfg); plan.set("ops", ops);
	return plan;
}

struct FakeSrv : Monitor {
	World *w;
	Sock *sock = nullptr;
	uint64_t key = 0, nq = 0;
	double p_fields, p_payload, p_answer, p_silent, p_down, p_down_lie;
	int userid; bool raw_ok; double login_odd = 0;
	uint32_t seed = 0;
	char downenc = 'T';
	// downstream sender
	Bytes Z; size_t off = 0, cur_n = 0; int seq = 0, frag = 0; bool active = false, sent_cur = false;
	int up_seq = 0, up_frag = 0;

	FakeSrv(World *w) : w(w)
	{
		const J &f = w->cfg["fake"];
		key = (uint64_t)f.geti("key");
		p_fields = f.getd("p_fields"); p_payload = f.getd("p_payload"); p_answer = f.getd("p_answer"); p_silent = f.getd("p_silent");
		p_down = f.getd("p_down"); p_down_lie = f.getd("p_down_lie");
		userid = (int)f.geti("userid"); raw_ok = f.getb("raw_ok"); login_odd = f.getd("login_odd");
		p_hold = f.getd("p_hold"); hold_max = (uint64_t)f.geti("hold_max_us", 1000000);
		seed = (uint32_t)splitmix64(key ^ 0x5eed);
		// the login challenge is any 32-bit value the server likes, including the ones next to the sign change and the wrap
		{ static const uint32_t edge[] = {0x7fffffffu, 0x80000000u, 0xffffffffu, 0u, 1u, 0x80000001u, 0x7ffffffeu}; if (splitmix64(key ^ 0xed6e) % 4 == 0) seed = edge[splitmix64(key ^ 0xed6f) % 7]; }
		FakeSrv *self = this;
		sock = w->S.model_socket(w->srv_host, AF_INET, 53, [self](const Dgram &d) { self->on_rx(d); });
	}
	static bool is_raw(const Bytes &b) { return b.size() >= 3 && b[0] == 0x10 && b[1] == 0xd1 && b[2] == 0x9e; }
	static Bytes S2B(const std::string &s) { return Bytes(s.begin(), s.end()); }

	Bytes next_packet(Rng &rr)
	{
		Bytes x = rr.bytes((size_t)(rr.chance(0.2) ? rr.range(1500, 9000) : rr.range(24, 1400)));
		x[0] = 0; x[1] = 0; x[2] = 8; x[3] = 0; if (x.size() > 4) x[4] = 0x45;
		if (rr.chance(0.3)) std::fill(x.begin() + 5, x.end(), (uint8_t)0x41);   // compresses well: few fragments, large expansion
		return z_compress(x);
	}

	// answers may be held back and so overtake each other (a lazy-mode server, a slow relay)
	double p_hold = 0; uint64_t hold_max = 0, nrep = 0;
	void reply(const Dgram &d, const Bytes &b)
	{
		uint64_t n = ++nrep;
		if (p_hold > 0 && w->S.U("fake.hold", n) < p_hold) {
			uint64_t dt = w->S.R("fake.holddt", n, 1000, (int64_t)hold_max);
			Sim *S = &w->S; Sock *so = sock; Addr to = d.src; Bytes data = b;
			S->after(dt, [S, so, to, data]() { S->send_from(so, to, data); });
			w->probes["fake.held_replies"]++;
			return;
		}
		w->S.send_from(sock, d.src, b);
	}

	void on_raw(const Dgram &d, Rng &rr)
	{
		w->probes["fake.raw_frames"]++;
		if (d.data.size() < 4) return;
		int cmd = d.data[3] >> 4;
		if (rr.chance(p_answer + p_payload)) { reply(d, hostile_raw_frame(rr)); w->probes["fake.raw_hostile"]++; return; }
		if (cmd == 1) {
			if (!raw_ok) return;
			uint8_t h[16]; ref_login(w->password, seed - 1, h);
			Bytes pl(h, h + 16);
			if (rr.chance(p_fields)) pl.resize((size_t)rr.range(0, 40), 0x41);
			reply(d, raw_frame(1, userid, pl));
			w->probes["fake.raw_login_ok"]++;
		} else if (cmd == 2 || cmd == 3) {
			// data or ping: send a data frame back (valid packet, or as large as a datagram may be)
			if (!rr.chance(p_down)) { reply(d, raw_frame(3, userid, Bytes())); return; }
			Bytes z = next_packet(rr);
			int uid = rr.chance(p_fields) ? (int)rr.range(0, 15) : userid;
			if (rr.chance(p_down_lie)) z.resize((size_t)rr.range(0, (int64_t)z.size()));
			reply(d, raw_frame(2, uid, z));
			w->probes["fake.raw_data"]++;
		}
	}

	// the plausible payload for a handshake command (may carry hostile field values when `odd`)
	Bytes plausible(const UpQuery &u, const DnsMsg &m, const std::string &qn, Rng &rr, bool odd, char &enc)
	{
		enc = 'T';
		switch (u.cmd) {
		case 'v': {
			Bytes p = S2B("VACK");
			put32(p, seed); p.push_back((uint8_t)userid);
			if (odd) switch (rr.range(0, 4)) { case 0: p = S2B("VNAK"); put32(p, (uint32_t)rr.next()); p.push_back(0); break; case 1: p = S2B("VFUL"); put32(p, 0); p.push_back((uint8_t)rr.range(0, 255)); break; case 2: p.resize((size_t)rr.range(4, 8)); break; case 3: { Bytes x = rr.bytes((size_t)rr.range(1, 600)); p.insert(p.end(), x.begin(), x.end()); break; } default: p[8] = (uint8_t)rr.range(0, 255); }
			return p; }
		case 'l': {
			if (odd) return S2B(rr.chance(0.15) ? std::string("LNAK") : rr.chance(0.1) ? std::string("BADIP") : hostile_login_reply(rr));
			char b[96]; snprintf(b, sizeof b, "10.77.1.1-10.77.1.%d-%d-%d", (int)rr.range(2, 30), (int)rr.range(500, 1400), (int)rr.range(8, 30));
			return S2B(b); }
		case 'i': {
			Bytes p = {'I'};
			if (odd) { Bytes x = rr.bytes(rr.chance(0.4) ? 4 : rr.chance(0.5) ? 16 : (size_t)rr.range(0, 40)); p.insert(p.end(), x.begin(), x.end()); return p; }
			p.push_back(10); p.push_back(9); p.push_back(0); p.push_back(1);
			return p; }
		case 'z': {
			// case check / upstream codec test: the server echoes the name as it received it
			Bytes p = S2B(qn);
			if (odd) switch (rr.range(0, 3)) { case 0: for (auto &c : p) c = (uint8_t)tolower(c); break; case 1: p.resize((size_t)rr.range(0, (int64_t)p.size())); break; case 2: p[(size_t)rr.range(0, (int64_t)p.size() - 1)] ^= 0x80; break; default: { Bytes x = rr.bytes((size_t)rr.range(1, 300)); p.insert(p.end(), x.begin(), x.end()); } }
			return p; }
		case 's': {
			int bits = u.raw.size() >= 2 ? b32val(u.raw[1]) : -1;
			const char *n = bits == 5 ? "Base32" : bits == 6 ? "Base64" : bits == 26 ? "Base64u" : bits == 7 ? "Base128" : "BADCODEC";
			if (odd) { static const char *alt[] = {"BADLEN", "BADIP", "BADCODEC", "Base32", "Base64", "Base64u", "Base128", "Raw", "Lazy", ""}; n = alt[rr.range(0, 9)]; }
			Bytes p = S2B(n);
			if (odd && rr.chance(0.4) && p.size() > 1) p.resize((size_t)rr.range(1, (int64_t)p.size() - 1));     // a reply cut short: "BAD", "BADC", "Base" ...
			if (odd && rr.chance(0.3)) { Bytes x = rr.bytes((size_t)rr.range(1, 4096)); p.insert(p.end(), x.begin(), x.end()); }
			return p; }
		case 'o': {
			char o = u.raw.size() >= 2 ? (char)tolower((unsigned char)u.raw[1]) : 0;
			const char *n = o == 't' ? "Base32" : o == 's' ? "Base64" : o == 'u' ? "Base64u" : o == 'v' ? "Base128" : o == 'r' ? "Raw" : o == 'l' ? "Lazy" : o == 'i' ? "Immediate" : "BADCODEC";
			if (odd) { static const char *alt[] = {"BADLEN", "BADIP", "BADCODEC", "Base32", "Base64", "Base64u", "Base128", "Raw", "Lazy", "Immediate", ""}; n = alt[rr.range(0, 10)]; }
			else if (strchr("tsuvr", o) && o) downenc = (char)toupper((unsigned char)o);
			Bytes p = S2B(n);
			if (odd && rr.chance(0.4) && p.size() > 1) p.resize((size_t)rr.range(1, (int64_t)p.size() - 1));     // "La", "Laz", "Imm", "BADL" ...
			if (odd && rr.chance(0.3)) { Bytes x = rr.bytes((size_t)rr.range(1, 4096)); p.insert(p.end(), x.begin(), x.end()); }
			return p; }
		case 'y': {
			static const uint8_t chk[48] = {0,0,0,0,255,255,255,255,0x55,0x55,0x55,0x55,0xaa,0xaa,0xaa,0xaa,0x81,0x63,0xc8,0xd2,0xc7,0x7c,0xb2,0x17,0x5f,0x4f,0xce,0xc9,0x49,0x2d,0x52,0x21,0x61,0xa9,0x71,0x20,0x25,0xb3,0x06,0x73,0xe6,0xd8,0x44,0x30,0x79,0x50,0x57,0xbf};
			Bytes p(chk, chk + 48);
			char c = u.raw.size() >= 1 ? (char)toupper((unsigned char)u.raw[0]) : 'T';
			uint16_t qt = m.qd[0].type;
			bool text = qt == QT_TXT || qt == QT_SRV || qt == QT_MX || qt == QT_CNAME || qt == QT_A;
			bool ok = (strchr("TSUV", c) && text) || (c == 'R' && (qt == QT_NULL || qt == QT_PRIVATE || qt == QT_TXT));
			if (!ok) return S2B("BADCODEC");
			enc = c;
			if (odd) { if (rr.chance(0.5)) p[(size_t)rr.range(0, 47)] ^= (uint8_t)rr.range(1, 255); else p.resize((size_t)rr.range(0, 200), 0x55); }
			return p; }
		case 'r': {
			int v1 = u.raw.size() >= 3 ? b32val(u.raw[0]) : 0, v2 = u.raw.size() >= 3 ? b32val(u.raw[1]) : 0, v3 = u.raw.size() >= 3 ? b32val(u.raw[2]) : 0;
			int req = ((v1 & 1) << 10) | ((v2 & 31) << 5) | (v3 & 31);
			size_t n = (size_t)req;
			enc = downenc;
			if (odd) n = rr.chance(0.2) ? (size_t)rr.range(0, 3) : rr.chance(0.5) ? (size_t)rr.range(0, 4200) : n + (size_t)rr.range(0, 3) - 1;
			if (n > 4200) n = 4200;
			if (req < 2 && !odd) return S2B("BADFRAG");
			Bytes p(n, 0);
			size_t claim = odd && rr.chance(0.5) ? (size_t)rr.range(0, 2047) : (size_t)req;
			if (n >= 2) { p[0] = (uint8_t)(claim >> 8); p[1] = (uint8_t)claim; }
			if (n >= 3) p[2] = 107;
			unsigned v = (unsigned)rr.range(0, 255);
			for (size_t i = 3; i < n; i++, v = (v + 107) & 255) p[i] = (uint8_t)v;
			if (odd && n > 10 && rr.chance(0.4)) p[(size_t)rr.range(3, (int64_t)n - 1)] ^= 1;
			return p; }
		case 'n': {
			enc = downenc;
			Bytes p;
			if (u.b32.size() >= 3) { p.push_back(u.b32[1]); p.push_back(u.b32[2]); }
			if (odd) p = rr.chance(0.5) ? S2B("BADFRAG") : rr.bytes((size_t)rr.range(0, 6));
			if (odd && rr.chance(0.4) && p.size() > 1) p.resize((size_t)rr.range(1, (int64_t)p.size() - 1));
			return p; }
		default: break;
		}
		return Bytes();
	}

	Bytes tunnel_payload(const UpQuery &u, Rng &rr, bool odd)
	{
		// the client's ack of our downstream, and its upstream position
		int as, af;
		if (u.cmd == 'd') { as = u.dn_seq; af = u.dn_frag; up_seq = u.up_seq; up_frag = u.up_frag; }
		else { as = u.b32.size() >= 2 ? (u.b32[1] >> 4) & 7 : 0; af = u.b32.size() >= 2 ? u.b32[1] & 15 : 0; }
		if (active && sent_cur && as == seq && af == frag) {
			off += cur_n; sent_cur = false;
			if (off >= Z.size()) { active = false; w->probes["fake.down_packets_acked"]++; } else frag++;
		}
		Bytes p(2);
		p[0] = (uint8_t)(0x80 | ((up_seq & 7) << 4) | (up_frag & 15));
		if (!active && rr.chance(p_down)) { Z = next_packet(rr); off = 0; seq = (seq + 1) & 7; frag = 0; active = true; sent_cur = false; }
		if (active) {
			if (!sent_cur) cur_n = (size_t)rr.range(1, (int64_t)std::min<size_t>(Z.size() - off, (size_t)(rr.chance(0.5) ? 200 : 1200)));
			bool last = off + cur_n >= Z.size();
			p[1] = (uint8_t)(((seq & 7) << 5) | ((frag & 15) << 1) | (last ? 1 : 0));
			p.insert(p.end(), Z.begin() + (long)off, Z.begin() + (long)(off + cur_n));
			sent_cur = true;
			w->probes["fake.down_fragments"]++;
		} else p[1] = (uint8_t)(((seq & 7) << 5) | ((frag & 15) << 1));
		if (odd) {
			// a sender that lies: other sequence/fragment numbers, a last flag in the middle, none at the end, junk or huge fragments
			switch (rr.range(0, 5)) {
			case 0: p[1] = (uint8_t)rr.range(0, 255); break;
			case 1: p[1] ^= 1; break;
			case 2: p[0] = (uint8_t)rr.range(0, 255); break;
			case 3: { Bytes x = rr.bytes((size_t)rr.range(1, 4000)); p.resize(2); p.insert(p.end(), x.begin(), x.end()); break; }
			case 4: p.resize((size_t)rr.range(0, 2)); break;
			default: p[1] = (uint8_t)((p[1] & 0xe1) | (rr.range(0, 15) << 1)); break;
			}
			w->probes["fake.down_lies"]++;
		}
		return p;
	}

	void on_rx(const Dgram &d)
	{
		uint64_t n = ++nq;
		Rng rr(key ^ (n * 0x9e3779b97f4a7c15ull), "fake");
		if (is_raw(d.data)) { on_raw(d, rr); return; }
		if (d.data.size() < 12 || (d.data[2] & 0x80)) return;
		if (rr.chance(p_silent)) { w->probes["fake.silent"]++; return; }
		DnsMsg m; UpQuery u;
		if (!dns_parse_strict(d.data, m).empty() || m.qd.size() != 1) { w->probes["fake.unparsed_query"]++; return; }
		std::string qn = m.qd[0].name.dotted();
		if (rr.chance(p_answer)) { reply(d, hostile_answer(rr, d.data, userid & 15)); w->probes["fake.hostile_answer"]++; return; }
		if (!decode_upquery(qn, w->domain, u)) { w->probes["fake.undecoded_query"]++; reply(d, hostile_answer(rr, d.data, 0)); return; }
		char enc = 'T';
		Bytes p;
		std::string k = "fake.step."; k += u.cmd;
		w->probes[k]++;
		if (rr.chance(p_payload)) { p = hostile_payload_for(rr, u.cmd == 'd' ? 'p' : u.cmd, userid & 15); enc = "TTSUVR"[rr.range(0, 5)]; if (u.cmd == 'p' || u.cmd == 'd' || u.cmd == 'r' || u.cmd == 'n') enc = rr.chance(0.7) ? downenc : enc; w->probes["fake.hostile_payload"]++; }
		else if (u.cmd == 'p' || u.cmd == 'd') { p = tunnel_payload(u, rr, rr.chance(p_down_lie)); enc = downenc; }
		else {
			bool odd = rr.chance(p_fields);
			if (u.cmd == 'v') odd = odd && rr.chance(0.3);
			if (u.cmd == 'l' && login_odd > 0) odd = rr.chance(login_odd);       // the userid byte is hostile anyway; keep most runs going
			if (odd) { std::string k2 = "fake.odd."; k2 += u.cmd; w->probes[k2]++; }
			p = plausible(u, m, qn, rr, odd, enc);
		}
		// a reply that is the beginning of the previous reply to the same command: whatever that one left behind in the client's
		// buffer completes it again (the client must compare only what this reply brought)
		if (u.cmd != 'p' && u.cmd != 'd' && u.cmd != 'v' && u.cmd != 'l') {
			auto lp = last_payload.find(u.cmd);
			if (lp != last_payload.end() && lp->second.size() >= 3 && rr.chance(p_fields * 0.5)) { p.assign(lp->second.begin(), lp->second.begin() + (long)rr.range(1, (int64_t)lp->second.size() - 1)); w->probes["fake.prefix_of_previous"]++; }
			else last_payload[u.cmd] = p;
		}
		reply(d, build_answer(m.id, qn, m.qd[0].type, p, enc));
	}
	std::map<char, Bytes> last_payload;
};

World *build_fakesrv(const J &plan)
{
	World *w = new World();
	w->plan = plan;
	w->build_common();
	w->add(mk_probes(w));
	w->add(mk_c13_system(w));
	FakeSrv *f = new FakeSrv(w);
	w->add(f);
	const J &fk = w->cfg["fake"];
	char b[96]; snprintf(b, sizeof b, "|uid=%d|raw=%d", (int)fk.geti("userid") >> 5, (int)fk.getb("raw_ok"));
	w->sig = "fakesrv|" + w->cfg["clients"].a[0].gets("qtype", "auto") + "/" + w->cfg["clients"].a[0].gets("downenc", "auto") + b;
	World *ww = w;
	w->result_hooks.push_back([ww](J &r) {
		int64_t steps = 0; for (auto &p : ww->probes) if (p.first.rfind("fake.step.", 0) == 0) steps += p.second;
		r.set("nontriv", steps >= 3);
	});
	return w;
}
