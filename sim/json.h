// Minimal JSON value, parser and writer (plans, replay files, result lines).
#pragma once
#include <string>
#include <vector>
#include <map>
#include <stdint.h>
#include <stdio.h>
#include <stdlib.h>
#include <string.h>

struct J {
	enum K { NUL, BOOL, NUM, STR, ARR, OBJ } k = NUL;
	bool b = false;
	double n = 0;
	int64_t i = 0;
	bool is_int = false;
	std::string s;
	std::vector<J> a;
	std::vector<std::pair<std::string, J>> o;   // insertion ordered

	J() {}
	J(bool v) : k(BOOL), b(v) {}
	J(int v) : k(NUM), n(v), i(v), is_int(true) {}
	J(unsigned v) : k(NUM), n(v), i(v), is_int(true) {}
	J(long v) : k(NUM), n(v), i(v), is_int(true) {}
	J(long long v) : k(NUM), n(v), i(v), is_int(true) {}
	J(unsigned long v) : k(NUM), n(v), i((int64_t)v), is_int(true) {}
	J(unsigned long long v) : k(NUM), n(v), i((int64_t)v), is_int(true) {}
	J(double v) : k(NUM), n(v), i((int64_t)v), is_int(false) {}
	J(const char *v) : k(STR), s(v) {}
	J(const std::string &v) : k(STR), s(v) {}
	static J arr() { J j; j.k = ARR; return j; }
	static J obj() { J j; j.k = OBJ; return j; }

	bool has(const std::string &key) const { for (auto &p : o) if (p.first == key) return true; return false; }
	const J &operator[](const std::string &key) const { static J nul; for (auto &p : o) if (p.first == key) return p.second; return nul; }
	J &set(const std::string &key, const J &v) { k = OBJ; for (auto &p : o) if (p.first == key) { p.second = v; return *this; } o.push_back({key, v}); return *this; }
	J &at(const std::string &key) { k = OBJ; for (auto &p : o) if (p.first == key) return p.second; o.push_back({key, J()}); return o.back().second; }
	void push(const J &v) { k = ARR; a.push_back(v); }
	int64_t num(int64_t d = 0) const { return k == NUM ? (is_int ? i : (int64_t)n) : (k == BOOL ? b : d); }
	double dbl(double d = 0) const { return k == NUM ? n : d; }
	std::string str(const std::string &d = "") const { return k == STR ? s : d; }
	bool tru(bool d = false) const { return k == BOOL ? b : (k == NUM ? n != 0 : d); }
	int64_t geti(const std::string &key, int64_t d = 0) const { return has(key) ? (*this)[key].num(d) : d; }
	double getd(const std::string &key, double d = 0) const { return has(key) ? (*this)[key].dbl(d) : d; }
	std::string gets(const std::string &key, const std::string &d = "") const { return has(key) ? (*this)[key].str(d) : d; }
	bool getb(const std::string &key, bool d = false) const { return has(key) ? (*this)[key].tru(d) : d; }

	static void esc(std::string &out, const std::string &v) {
		out += '"';
		for (unsigned char c : v) {
			if (c == '"') out += "\\\""; else if (c == '\\') out += "\\\\";
			else if (c == '\n') out += "\\n"; else if (c == '\t') out += "\\t"; else if (c == '\r') out += "\\r";
			else if (c < 0x20 || c >= 0x7f) { char b[8]; snprintf(b, sizeof b, "\\u%04x", c); out += b; }
			else out += (char)c;
		}
		out += '"';
	}
	void dump(std::string &out) const {
		switch (k) {
		case NUL: out += "null"; break;
		case BOOL: out += b ? "true" : "false"; break;
		case NUM: { char buf[40]; if (is_int) snprintf(buf, sizeof buf, "%lld", (long long)i); else snprintf(buf, sizeof buf, "%.9g", n); out += buf; break; }
		case STR: esc(out, s); break;
		case ARR: out += '['; for (size_t x = 0; x < a.size(); x++) { if (x) out += ','; a[x].dump(out); } out += ']'; break;
		case OBJ: out += '{'; for (size_t x = 0; x < o.size(); x++) { if (x) out += ','; esc(out, o[x].first); out += ':'; o[x].second.dump(out); } out += '}'; break;
		}
	}
	std::string dump() const { std::string s2; dump(s2); return s2; }

	// ---- parser (bytes in strings: \u00XX decodes to a single byte XX)
	struct P { const char *p, *e; bool ok = true; };
	static void ws(P &p) { while (p.p < p.e && (*p.p == ' ' || *p.p == '\n' || *p.p == '\t' || *p.p == '\r')) p.p++; }
	static J parse_val(P &p) {
		ws(p);
		J j;
		if (p.p >= p.e) { p.ok = false; return j; }
		char c = *p.p;
		if (c == '{') {
			p.p++; j.k = OBJ; ws(p);
			if (p.p < p.e && *p.p == '}') { p.p++; return j; }
			while (p.ok) {
				ws(p); J key = parse_val(p); if (key.k != STR) { p.ok = false; break; }
				ws(p); if (p.p >= p.e || *p.p != ':') { p.ok = false; break; } p.p++;
				J v = parse_val(p); j.o.push_back({key.s, v});
				ws(p); if (p.p < p.e && *p.p == ',') { p.p++; continue; }
				if (p.p < p.e && *p.p == '}') { p.p++; break; }
				p.ok = false;
			}
		} else if (c == '[') {
			p.p++; j.k = ARR; ws(p);
			if (p.p < p.e && *p.p == ']') { p.p++; return j; }
			while (p.ok) {
				j.a.push_back(parse_val(p));
				ws(p); if (p.p < p.e && *p.p == ',') { p.p++; continue; }
				if (p.p < p.e && *p.p == ']') { p.p++; break; }
				p.ok = false;
			}
		} else if (c == '"') {
			p.p++; j.k = STR;
			while (p.p < p.e && *p.p != '"') {
				if (*p.p == '\\' && p.p + 1 < p.e) {
					p.p++;
					char d = *p.p++;
					if (d == 'n') j.s += '\n'; else if (d == 't') j.s += '\t'; else if (d == 'r') j.s += '\r';
					else if (d == 'u' && p.p + 4 <= p.e) { char h[5] = {p.p[0], p.p[1], p.p[2], p.p[3], 0}; j.s += (char)strtol(h, 0, 16); p.p += 4; }
					else j.s += d;
				} else j.s += *p.p++;
			}
			if (p.p < p.e) p.p++; else p.ok = false;
		} else if (!strncmp(p.p, "true", 4)) { p.p += 4; j.k = BOOL; j.b = true; }
		else if (!strncmp(p.p, "false", 5)) { p.p += 5; j.k = BOOL; j.b = false; }
		else if (!strncmp(p.p, "null", 4)) { p.p += 4; }
		else {
			char *end = 0; j.k = NUM;
			const char *st = p.p; bool isint = true;
			for (const char *q = st; q < p.e && (strchr("+-0123456789.eE", *q)); q++) if (*q == '.' || *q == 'e' || *q == 'E') isint = false;
			j.n = strtod(st, &end);
			if (end == st) { p.ok = false; return j; }
			j.is_int = isint; j.i = isint ? strtoll(st, 0, 10) : (int64_t)j.n;
			p.p = end;
		}
		return j;
	}
	static bool parse(const std::string &text, J &out) { P p{text.data(), text.data() + text.size()}; out = parse_val(p); return p.ok; }
};
