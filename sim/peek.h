// Read-only view of the server's public session table (users[] in user.h).
#pragma once
#include "sim.h"

struct PktView { int len, sentlen, offset, seqno, fragment; };
struct UserView {
	int id;
	int active, authenticated, authenticated_raw, options_locked, disabled;
	int64_t last_pkt;
	uint32_t seed;
	uint32_t tun_ip_net;       // network byte order as stored
	Addr host;
	int conn;                  // 0 raw, 1 dns
	int lazy, fragsize;
	char downenc;
	std::string encoder;       // "Base32"...
	int q_id, q_id2, qsrs_id, qsrs_id2, qsrs_new;
	PktView in, out;
	int outfragresent;
	int outq_filled, outq_next;
	int dnscache_last;
};
int peek_nusers();
bool peek_user(int u, UserView &v);
// compressed bytes currently held for user u: current outpacket and queue entries
void peek_outpackets(int u, std::vector<Bytes> &out);
Bytes peek_inpacket(int u);
// digest of the security relevant fields of all sessions (C03/C04)
uint64_t peek_secdigest(int u);
uint64_t peek_fulldigest(int u);   // everything protocol relevant (C16)
