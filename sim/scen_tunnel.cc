// Scenario "tunnel": real iodined + 1..3 real iodine clients, bidirectional tun
// traffic, optional faults.  Modes: clean (C02a), faulty (C01), recover (C02b).
#include "scen.h"
#include "gen.h"
#include "relay.h"
#include <algorithm>

static const char *TYPES[7] = {"NULL", "PRIVATE", "TXT", "SRV", "MX", "CNAME", "A"};
static const char *ENCS[5] = {"base32", "base64", "base64u", "base128", "raw"};

// largest forced -m that the answer format can carry (reference arithmetic, see DESIGN 2)
int fragsize_capacity(const std::string &qtype, const std::string &enc)
{
	if (qtype == "CNAME" || qtype == "A") {
		if (enc == "base64" || enc == "base64u") return 170;
		if (enc == "base128") return 200;
		return 140;
	}
	if (qtype == "MX" || qtype == "SRV") return 1000;
	return 1200;
}

void gen_client_cfg(Rng &r, J &c, bool allow_raw, bool allow_auto_type, int domlen, int min_frag)
{
	std::string qt;
	int ti = (int)r.range(0, allow_auto_type ? 8 : 6);
	if (ti < 7) qt = TYPES[ti];
	c.set("qtype", qt);
	std::string enc;
	if (r.chance(0.7)) enc = ENCS[r.range(0, 4)];
	c.set("downenc", enc);
	c.set("lazy", (int)r.range(0, 1));
	if (r.chance(0.3)) c.set("interval", (int)r.range(1, 6));
	// fragment size: autoprobe or forced within capacity
	if (r.chance(0.6)) {
		std::string t = qt.empty() ? "NULL" : qt;
		int cap = fragsize_capacity(t, enc);
		int f;
		switch (r.range(0, 3)) { case 0: f = (int)r.range(2, 30); break; case 1: f = (int)r.range(30, 120); break; default: f = (int)r.range(50, cap); }
		if (f > cap) f = cap;
		if (f < min_frag) f = min_frag;
		c.set("fragsize", f);
	}
	// -M: the documented precondition is at least 24 characters left after the domain
	if (r.chance(0.5)) c.set("maxlen", (int)r.range(std::max(100, domlen + 24), 255));
	c.set("raw", allow_raw && r.chance(0.15));
	c.set("lat_up_us", (long long)r.pick_latency());
	c.set("lat_dn_us", (long long)r.pick_latency());
}

static void gen_traffic(Rng &r, J &ops, const std::string &at, const std::string &dst, int n, double t_from, double t_to, uint64_t &ser, int maxlen, bool unique_only)
{
	double t = t_from;
	for (int i = 0; i < n; i++) {
		J op = J::obj();
		double gap = r.chance(0.4) ? r.uniform() * 0.01 : r.uniform() * 2.0 * (t_to - t_from) / std::max(1, n);
		t += gap;
		if (t > t_to) t = t_from + r.uniform() * (t_to - t_from);
		op.set("t", (long long)(t * 1e6)); op.set("op", "tun"); op.set("at", at); op.set("ser", (long long)++ser);
		int len;
		switch (r.range(0, 9)) {
		case 0: len = unique_only ? 40 : (int)r.range(1, 39); break;
		case 1: case 2: len = (int)r.range(40, 90); break;
		case 3: case 4: case 5: len = (int)r.range(90, 600); break;
		case 6: case 7: len = (int)r.range(600, std::min(maxlen, 1504)); break;
		case 8: len = (int)r.range(1400, std::min(maxlen, 1504)); break;
		default: len = r.chance(0.3) ? (int)r.range(1504, maxlen) : (int)r.range(40, 1200);
		}
		if (len > maxlen) len = maxlen;
		op.set("len", len);
		static const char *bodies[4] = {"rnd", "zero", "ff", "text"};
		op.set("body", bodies[r.range(0, 3)]);
		op.set("dst", dst); op.set("src", at == "srv" ? "ext" : at);
		if (r.chance(0.07)) { static const char *shapes[] = {"v6", "short_iplen", "long_iplen", "noip"}; op.set("shape", shapes[r.range(0, 3)]); }
		else if (r.chance(0.12)) { static const int ks[] = {1, 2, 3, 8, 15, 16, 16, 17}; op.set("kfrag", ks[r.range(0, 7)]); op.set("dfrag", (int)r.range(-1, 1)); }   // sized at run time to k fragments +-1 byte
		ops.push(op);
	}
}

J gen_tunnel(uint64_t seed, const J &ov)
{
	Rng r(seed, "tunnel");
	std::string mode = ov.gets("mode", "faulty");
	J plan = J::obj(), cfg = J::obj(), ops = J::arr();
	plan.set("scenario", "tunnel"); plan.set("seed", (long long)seed);
	cfg.set("mode", mode);
	int ncli = mode == "faulty" ? (int)r.range(1, 3) : 1;
	if (ov.has("nclients")) ncli = (int)ov.geti("nclients");
	bool wildcard = r.chance(0.2);
	std::string dom = gen_domain(r);
	int names_L = 0;
	if (mode == "names") {
		// L over 100..255 (boundaries favoured), domain length 3..min(128, L-24)
		names_L = (int)(r.chance(0.3) ? (r.chance(0.5) ? 255 : r.range(100, 104)) : r.range(100, 255));
		int maxdom = std::min(128, names_L - 24);
		// most runs leave room for the 32-character login message (so the session gets going); the rest sit at the documented minimum of 24
		int roomy = std::max(3, std::min(128, names_L - 46));
		int dl = (int)(r.chance(0.15) ? r.range(std::max(3, maxdom - 2), maxdom) : r.chance(0.3) ? r.range(std::max(3, roomy - 3), roomy) : r.range(3, roomy));
		dom = gen_domain(r, dl);
	}
	cfg.set("domain", dom);
	if (wildcard) { size_t dot = dom.find('.'); cfg.set("srv_domain", "*" + dom.substr(dot)); }
	cfg.set("password", gen_password(r));
	int bits = (int)r.range(24, 29);
	cfg.set("tun_bits", bits);
	cfg.set("tun_ip", "10." + std::to_string(r.range(0, 255)) + "." + std::to_string(r.range(0, 255)) + ".1");
	if (r.chance(0.3)) cfg.set("srv_mtu", (int)r.range(300, 1400));
	cfg.set("residue", (int)r.range(0, 4));
	J cl = J::arr();
	for (int i = 0; i < ncli; i++) { J c = J::obj(); gen_client_cfg(r, c, true, mode != "clean" || r.chance(0.2), (int)dom.size(), mode == "recover" ? 20 : mode == "redeliver" ? 100 : 2); cl.push(c); }
	if (ov.has("qtype")) for (auto &c : cl.a) c.set("qtype", ov.gets("qtype"));
	if (ov.has("downenc")) for (auto &c : cl.a) c.set("downenc", ov.gets("downenc"));
	if (ov.has("lazy")) for (auto &c : cl.a) c.set("lazy", (int)ov.geti("lazy"));
	if (ov.has("raw")) for (auto &c : cl.a) c.set("raw", ov.getb("raw"));
	if (ov.has("fragsize")) for (auto &c : cl.a) c.set("fragsize", (int)ov.geti("fragsize"));
	if (mode == "redeliver") for (auto &c : cl.a) c.set("raw", false);
	if (mode == "inject9") for (auto &c : cl.a) { c.set("raw", false); static const char *ty[] = {"NULL", "PRIVATE", "TXT", "TXT", "SRV", "SRV", "MX", "MX", "CNAME", "A"}; c.set("qtype", ty[r.range(0, 9)]); }
	if (mode == "clean9") {
		// half of the runs re-encode answers with the reference encoder; 40% have an answer size limit (so that the autoprobe's
		// binary search goes down as well as up); neither changes what a correct decoder extracts
		J rl = J::obj();
		if (r.chance(0.5)) rl.set("ref_reencode", true);
		if (r.chance(0.4)) { static const int sz[] = {512, 600, 768, 1000, 1232, 1500}; rl.set("maxans", sz[r.range(0, 5)]); rl.set("big", r.chance(0.4) ? "drop" : r.chance(0.5) ? "trim" : "servfail"); }
		if (!rl.o.empty()) cfg.set("relay", rl);
	}
	if (mode == "clean9") for (auto &c : cl.a) {
		// C09: every answer format, fragment sizes up to what one answer can carry (and autoprobe, whose probes sweep lengths)
		static const char *ty[] = {"TXT", "TXT", "SRV", "MX", "CNAME", "A", "NULL", "PRIVATE"};
		std::string qt = ty[r.range(0, 7)];
		c.set("qtype", qt); c.set("raw", false);
		std::string enc = ENCS[r.range(0, 4)];
		if (enc == "raw" && qt != "TXT" && qt != "NULL" && qt != "PRIVATE") enc = "base128";
		c.set("downenc", r.chance(0.15) ? "" : enc);
		int cap = fragsize_capacity(qt, c.gets("downenc"));
		if (cfg["relay"].geti("maxans")) c.set("fragsize", 0);       // a forced size above the path's limit would be the operator's mistake: autoprobe
		else if (r.chance(0.35)) c.set("fragsize", 0);
		else c.set("fragsize", (int)(r.chance(0.5) ? r.range(std::max(2, cap - 40), cap) : r.range(20, cap)));
	}
	if (mode == "names") for (auto &c : cl.a) {
		c.set("raw", false); c.set("maxlen", names_L);
		if (r.chance(0.7)) c.set("qtype", "NULL");
		if (r.chance(0.5)) c.set("fragsize", 0);       // autoprobe: fragsize probe names are then emitted too
	}
	if (mode == "relayfam") for (auto &c : cl.a) {
		// everything the property calls "automatic": codecs and fragment size always autodetected, the type in ~60% of runs
		c.set("raw", false); c.set("downenc", ""); c.set("fragsize", 0);
		// ... and in a quarter of the runs the user forces a downstream codec (-O) and/or a fragment size (-m): a forced codec that
		// does not survive the path may make the handshake fail, but never complete with settings that do not work
		// (never both: with -O and -m forced the client tests nothing at all, and nothing is promised)
		if (r.chance(0.25)) { static const char *de[] = {"base32", "base64", "base64u", "base128", "raw"}; c.set("downenc", de[r.range(0, 4)]); }
		else if (r.chance(0.15)) c.set("fragsize", (int)r.range(50, 100));     // a size every type, codec and 512-byte limit can carry
		if (ov.has("downenc")) { c.set("downenc", ov.gets("downenc")); c.set("fragsize", 0); }     // ad-hoc sweeps: one forced codec in every run
		if (r.chance(0.6)) c.set("qtype", "");
		else if (c.gets("qtype").empty()) c.set("qtype", TYPES[r.range(0, 6)]);
		if (ov.has("qtype")) c.set("qtype", ov.gets("qtype"));
		c.set("lat_up_us", (long long)r.range(100, 5000)); c.set("lat_dn_us", (long long)r.range(100, 5000));
		if (r.chance(0.3)) { long long l = r.range(10000, 120000); c.set("lat_up_us", l + r.range(0, 5000)); c.set("lat_dn_us", l + r.range(0, 5000)); }    // a path as long as real ones: 20-250 ms round trip
	}
	if (mode == "clean" && dom.size() >= 12 && r.chance(0.06)) {
		// a hostname limit too small for this domain (-M accepts 10..255 whatever the domain): the tunnel cannot carry anything
		// useful then, but what the client emits must still be DNS (C10)
		cl.a[0].set("maxlen", (int)std::max<int64_t>(10, (int64_t)dom.size() + r.range(-4, 10)));
		cfg.set("tiny_M", true);
	}
	cfg.set("clients", cl);

	uint64_t ser = seed % 1000 * 100000;
	if (mode == "clean" || mode == "clean9") {
		double W = 10 + r.uniform() * 25;
		int maxlen = r.chance(0.8) ? 1200 : 4000;
		if (mode == "clean" && r.chance(0.15)) {
			// busy in both directions on a path with a realistic round trip: a stream of small packets down, multi-fragment packets up
			J cl2 = cfg["clients"]; long long l = r.range(20000, 70000); cl2.a[0].set("lat_up_us", l); cl2.a[0].set("lat_dn_us", l + r.range(0, 3000)); cl2.a[0].set("raw", false); cfg.set("clients", cl2);
			W = 8 + r.uniform() * 8;
			double gd = 0.008 + r.uniform() * 0.03, gu = 0.1 + r.uniform() * 0.3;
			for (double t = 0.3; t < W; t += gd) { J op = J::obj(); op.set("t", (long long)(t * 1e6)); op.set("op", "tun"); op.set("at", "srv"); op.set("ser", (long long)++ser); op.set("len", (int)r.range(44, 90)); op.set("body", "rnd"); op.set("dst", "c0"); op.set("src", "ext"); ops.push(op); }
			for (double t = 0.35; t < W; t += gu) { J op = J::obj(); op.set("t", (long long)(t * 1e6)); op.set("op", "tun"); op.set("at", "c0"); op.set("ser", (long long)++ser); op.set("len", (int)r.range(60, 900)); op.set("body", "rnd"); op.set("dst", "srv"); op.set("src", "c0"); ops.push(op); }
			cfg.set("busy_duplex", true);
			cfg.set("dur_s", (int)(W + 45));
			cfg.set("tmax_s", 600);
			cfg.set("max_events", 3000000);
		} else if (mode == "clean" && r.chance(0.3)) {
			// a long steady flow in ONE direction only (a UDP stream, a download without acks): nothing but the programs' own
			// keepalives crosses the other way for more than both 60 s timeouts
			W = 70 + r.uniform() * 50;
			bool up = r.chance(0.5);
			double t = 0.2, gap = 0.3 + r.uniform() * (r.chance(0.5) ? 3 : 15);
			while (t < W) {
				J op = J::obj(); op.set("t", (long long)(t * 1e6)); op.set("op", "tun"); op.set("at", up ? "c0" : "srv"); op.set("ser", (long long)++ser);
				op.set("len", (int)r.range(60, 600)); op.set("body", "rnd"); op.set("dst", up ? "srv" : "c0"); op.set("src", up ? "c0" : "ext");
				ops.push(op);
				t += gap * (0.5 + r.uniform());
			}
			// ... and afterwards both directions must still work
			gen_traffic(r, ops, "c0", "srv", 6, W + 2, W + 12, ser, 600, true);
			gen_traffic(r, ops, "srv", "c0", 6, W + 2, W + 12, ser, 600, true);
			cfg.set("one_way", up ? "up" : "down");
			cfg.set("dur_s", (int)(W + 40));
			cfg.set("tmax_s", 600);
		} else {
		gen_traffic(r, ops, "c0", r.chance(0.5) ? "srv" : "ext", (int)r.range(20, 45), 0.1, W, ser, maxlen, true);
		gen_traffic(r, ops, "srv", "c0", (int)r.range(20, 45), 0.1, W, ser, maxlen, true);
		cfg.set("dur_s", (int)(W + 45));
		cfg.set("tmax_s", 600);
		}
	} else if (mode == "faulty") {
		double W = 10 + r.uniform() * 40;
		int maxlen = r.chance(0.7) ? 1504 : 60000;
		for (int i = 0; i < ncli; i++) {
			std::string me = "c" + std::to_string(i);
			std::string dst = "srv";
			if (ncli > 1 && r.chance(0.5)) dst = "c" + std::to_string((i + 1) % ncli);
			gen_traffic(r, ops, me, dst, (int)r.range(5, 30), 0.1, W, ser, maxlen, false);
			if (r.chance(0.5)) gen_traffic(r, ops, me, "ext", (int)r.range(1, 10), 0.1, W, ser, maxlen, false);
			gen_traffic(r, ops, "srv", me, (int)r.range(5, 30), 0.1, W, ser, maxlen, false);
		}
		// pairs of frames that an Adler-32 cannot tell apart once they are spliced (same first part but for a +1/-2/+1 tweak, different
		// rest), offered back to back: any mix-up of two packets in flight passes the decompressor
		{
			int np = (int)r.range(0, 4);
			for (int i = 0; i < np; i++) {
				std::string at = r.chance(0.6) ? "c0" : "srv";
				double tp = 0.3 + r.uniform() * W; long long pair = (long long)(r.next() % 60000 + 1); int alen = (int)r.range(300, 1200);
				for (int v = 0; v < 2; v++) {
					J op = J::obj(); op.set("t", (long long)((tp + v * (0.002 + r.uniform() * 0.05)) * 1e6)); op.set("op", "tun"); op.set("at", at); op.set("ser", (long long)++ser);
					op.set("len", alen); op.set("body", "adler"); op.set("pair", pair); op.set("variant", v ? "b" : "a");
					op.set("dst", at == "srv" ? "c0" : "srv"); op.set("src", at == "srv" ? "ext" : "c0");
					ops.push(op);
				}
			}
		}
		if (ncli <= 2 && r.chance(0.15)) {
			J op = J::obj(); op.set("t", (long long)((2 + r.uniform() * W) * 1e6)); op.set("op", "restart"); op.set("task", "c" + std::to_string(r.range(0, ncli - 1)));
			op.set("after_us", (long long)r.range(1000, 3000000));
			ops.push(op);
		}
		J f = J::obj();
		f.set("ref", r.chance(0.7) ? "T0" : "abs");
		double t0 = r.uniform() * W * 0.5, t1 = t0 + 1 + r.uniform() * W;
		if (f.gets("ref") == "abs") { t0 = r.uniform() * 5; t1 = t0 + 2 + r.uniform() * 30; }
		f.set("t0_us", (long long)(t0 * 1e6)); f.set("t1_us", (long long)(t1 * 1e6));
		// swarm: each kind enabled with probability 1/2, at a modest rate
		f.set("p_drop", r.chance(0.6) ? r.uniform() * 0.25 : 0.0);
		f.set("p_dup", r.chance(0.5) ? r.uniform() * 0.25 : 0.0);
		f.set("p_delay", r.chance(0.5) ? r.uniform() * 0.3 : 0.0);
		f.set("max_delay_us", (long long)(r.chance(0.5) ? r.range(1000, 300000) : r.range(300000, 30000000)));
		if (ov.getb("trunc")) { f.set("p_trunc", r.uniform() * 0.3); f.set("p_flip", r.chance(0.5) ? r.uniform() * 0.1 : 0.0); }
		cfg.set("faults", f);
		// in a quarter of the runs the path also transforms what it carries (id rewriting, case randomisation, refused types, size
		// limits ...): negotiation may then fail or pick other settings, but whatever gets through must still be what was sent
		if (!ov.getb("trunc") && r.chance(0.25)) cfg.set("relay", gen_relay(r));
		cfg.set("dur_s", (int)(W + 40));
		cfg.set("tmax_s", 700);
	} else if (mode == "stale8") {
		// the known, unrepaired limit of the 3-bit sequence numbers (known_findings.json, C01): a copy of the answer that carried
		// fragment 0 of the packet EIGHT packets back - same sequence number as the packet now starting - reaches the client first;
		// the real fragment 0 then counts as a repeat, and fragment 1.. is appended to the old fragment 0.  With a frame pair whose
		// difference an Adler-32 does not see, the spliced stream inflates: a frame nobody sent.
		int F = (int)r.range(80, 160);
		{ J cl2 = cfg["clients"]; cl2.a[0].set("fragsize", F); cl2.a[0].set("raw", false); cl2.a[0].set("lazy", 0); cl2.a[0].set("interval", 1); cl2.a[0].set("lat_up_us", 1000); cl2.a[0].set("lat_dn_us", 1000); if (cl2.a[0].gets("qtype") != "NULL" && cl2.a[0].gets("qtype") != "TXT" && cl2.a[0].gets("qtype") != "PRIVATE") cl2.a[0].set("qtype", "NULL"); cfg.set("clients", cl2); }
		double t = 1.0;
		int cycles = (int)r.range(1, 3);
		for (int c = 0; c < cycles; c++) {
			int alen = (int)r.range(2 * F + 30, 3 * F - 20);
			long long pair = (long long)(r.next() % 60000 + 1);
			for (int i = 0; i < 9; i++) {
				J op = J::obj(); op.set("t", (long long)(t * 1e6)); op.set("op", "tun"); op.set("at", "srv"); op.set("ser", (long long)++ser); op.set("dst", "c0"); op.set("src", "ext");
				if (i == 0 || i == 8) { op.set("len", alen); op.set("body", "adler"); op.set("pair", pair); op.set("variant", i == 0 ? "a" : "b"); }
				else { op.set("len", (int)r.range(40, std::max(41, F - 40))); op.set("body", "rnd"); }
				ops.push(op);
				t += 0.0055 + r.uniform() * 0.002;      // back to back: the ping that acks one packet fetches the next, ~1 query per packet
			}
			t += 3;
		}
		J f = J::obj();
		f.set("ref", "T0"); f.set("t0_us", (long long)0); f.set("t1_us", (long long)((t + 5) * 1e6));
		f.set("p_stale8", 1.0);
		cfg.set("faults", f);
		cfg.set("dur_s", (int)(t + 20));
		cfg.set("tmax_s", 600);
	} else if (mode == "stale") {
		// C01 under *old* duplicates: a clean path except that an answer carrying data of a packet 4-7 sequence numbers back (which
		// the 3-bit numbering cannot tell from a new one) is delivered again between two fragments of a multi-fragment packet.
		// The frames include incompressible ones that carry complete zlib streams aligned with the fragment boundaries, so that a
		// packet re-assembled without its beginning would still inflate.
		double W = 15 + r.uniform() * 25;
		int F = (int)(r.chance(0.7) ? r.range(40, 200) : r.range(200, 600));
		{ J cl2 = cfg["clients"]; cl2.a[0].set("fragsize", F); cl2.a[0].set("raw", false); cfg.set("clients", cl2); }
		int n = (int)r.range(25, 70);
		double t = 0.2;
		for (int i = 0; i < n; i++) {
			t += r.chance(0.5) ? r.uniform() * 0.3 : r.uniform() * 1.5;
			if (t > W) t = 0.2 + r.uniform() * W;
			J op = J::obj(); op.set("t", (long long)(t * 1e6)); op.set("op", "tun"); op.set("at", "srv"); op.set("ser", (long long)++ser);
			op.set("dst", "c0"); op.set("src", "ext");
			if (r.chance(0.45)) { op.set("len", (int)r.range(2 * F + 20, std::min(14 * F, 1500))); op.set("body", "nested"); if (r.chance(0.8)) op.set("align", r.chance(0.5) ? J("auto") : J(F)); if (F <= 90 && r.chance(0.35)) { op.set("align", F); op.set("tail17", true); } }
			else { op.set("len", (int)r.range(40, std::max(41, F - 30))); static const char *bodies[4] = {"rnd", "zero", "ff", "text"}; op.set("body", bodies[r.range(0, 3)]); }
			ops.push(op);
		}
		// upstream: many multi-fragment frames, the later ones aligned with the client's chunk size as observed on the wire
		n = (int)r.range(15, 50);
		t = 0.2;
		for (int i = 0; i < n; i++) {
			t += r.chance(0.5) ? r.uniform() * 0.3 : r.uniform() * 1.5;
			if (t > W) t = 0.2 + r.uniform() * W;
			J op = J::obj(); op.set("t", (long long)(t * 1e6)); op.set("op", "tun"); op.set("at", "c0"); op.set("ser", (long long)++ser);
			op.set("dst", "srv"); op.set("src", "c0");
			op.set("len", (int)r.range(300, 1400)); op.set("body", "nested"); if (r.chance(0.85)) op.set("align", "auto_up");
			ops.push(op);
		}
		J f = J::obj();
		f.set("ref", "T0"); f.set("t0_us", (long long)0); f.set("t1_us", (long long)(W * 1e6));
		f.set("p_stale", 0.3 + r.uniform() * 0.7);
		cfg.set("faults", f);
		cfg.set("dur_s", (int)(W + 30));
		cfg.set("tmax_s", 600);
	} else if (mode == "inject9") {
		// C09 pairing (ii): the downstream data channel is driven by the reference encoder (sim/injector.cc); the real client's
		// own upstream traffic continues so that both header bytes are in use
		double W = 25 + r.uniform() * 20;
		int n = (int)r.range(10, 40);
		for (int i = 0; i < n; i++) {
			J op = J::obj(); op.set("t", (long long)((0.2 + r.uniform() * W) * 1e6)); op.set("op", "inj"); op.set("ser", (long long)++ser);
			op.set("len", (int)(r.chance(0.3) ? r.range(40, 200) : r.chance(0.5) ? r.range(200, 1400) : r.range(1400, 6000)));
			static const char *bodies[] = {"rnd", "rnd", "text", "zero"};
			op.set("body", bodies[r.range(0, 3)]); op.set("src", "ext"); op.set("dst", "c0");
			ops.push(op);
		}
		gen_traffic(r, ops, "c0", "srv", (int)r.range(0, 15), 0.1, W, ser, 800, true);
		cfg.set("dur_s", (int)(W + 40));
		cfg.set("tmax_s", 600);
	} else if (mode == "names") {
		// C08: short sessions over (L, domain length, upstream codec); upstream packets of all sizes and tail residues
		double W = 4 + r.uniform() * 6;
		static const char *force[] = {"base32", "base64", "base64u", "base128"};
		std::string fu = force[r.range(0, 3)];
		if (ov.has("up")) fu = ov.gets("up");
		if (fu != "base128") cfg.set("relay", gen_relay(r, fu));
		cfg.set("force_up", fu);
		int n = (int)r.range(8, 30);
		double t = 0.1;
		for (int i = 0; i < n; i++) {
			t += r.chance(0.5) ? r.uniform() * 0.02 : r.uniform() * 2 * W / n;
			J op = J::obj(); op.set("t", (long long)(t * 1e6)); op.set("op", "tun"); op.set("at", "c0"); op.set("ser", (long long)++ser);
			int len = (int)(r.chance(0.3) ? r.range(40, 120) : r.chance(0.5) ? r.range(120, 600) : r.range(600, 1400));
			op.set("len", len); op.set("body", r.chance(0.8) ? "rnd" : "text"); op.set("dst", "srv"); op.set("src", "c0");
			ops.push(op);
		}
		gen_traffic(r, ops, "srv", "c0", (int)r.range(0, 6), 0.1, W, ser, 600, true);
		cfg.set("dur_s", (int)(W + 20));
		cfg.set("tmax_s", 600);
	} else if (mode == "relayfam") {
		// C11: full autodetection (type forced in some runs) through a relay with a fixed transformation; otherwise lossless
		double W = 8 + r.uniform() * 15;
		J rl = gen_relay(r);
		for (auto &kv : ov.o) if (kv.first.rfind("relay_", 0) == 0) rl.set(kv.first.substr(6), kv.second);     // ad-hoc sweeps: relay_<factor>=<level>
		cfg.set("relay", rl);
		{
			// forced -O together with forced -m only where the path garbles the server's confirmation of that codec visibly
			// (case folding vs Base64/Base64u, 8-bit stripping vs Base128/Raw): the client has something to notice then
			J cl2 = cfg["clients"]; std::string de = cl2.a[0].gets("downenc");
			bool visible = (de == "base64" || de == "base64u") && rl.gets("case_a", "keep") != "keep" && (rl.gets("case_a") == "lower" || rl.gets("case_a") == "upper");     // "QmFzZTY0" folded is not "Base64" any more
			if (visible && r.chance(0.7)) { cl2.a[0].set("fragsize", (int)r.range(50, 100)); cfg.set("clients", cl2); }
		}
		gen_traffic(r, ops, "c0", r.chance(0.5) ? "srv" : "ext", (int)r.range(8, 25), 0.1, W, ser, 1200, true);
		gen_traffic(r, ops, "srv", "c0", (int)r.range(8, 25), 0.1, W, ser, 1200, true);
		cfg.set("dur_s", (int)(W + 45));
		cfg.set("tmax_s", 1200);
		cfg.set("max_events", 1500000);
		if (ov.has("two") ? ov.getb("two") : r.chance(0.2)) {
			// two sessions on one slot over two different paths: the client is stopped, the slot expires, the path changes, a new
			// client negotiates afresh; whatever the first session selected must not survive in the server's slot
			cfg.set("two_sessions", true);
			{
				J r2 = gen_relay(r); J cl3 = cfg["clients"];
				// forced -O with forced -m: the second path must garble the confirmation visibly as well (see above)
				if (cl3.a[0].has("fragsize") && cl3.a[0].gets("downenc", "") != "" && cl3.a[0].gets("downenc") != "base32") r2.set("case_a", r.chance(0.5) ? "upper" : "lower");
				cfg.set("relay2", r2);
			}
			double tr = W + 20, after = 62 + r.uniform() * 8;
			{ J op = J::obj(); op.set("t", (long long)(tr * 1e6)); op.set("op", "restart"); op.set("task", "c0"); op.set("after_us", (long long)(after * 1e6)); ops.push(op); }
			{ J op = J::obj(); op.set("t", (long long)((tr + 1) * 1e6)); op.set("op", "relay_switch"); ops.push(op); }
			double t2 = tr + after + 50;
			for (int i = 0; i < 12; i++) {
				J op = J::obj(); op.set("t", (long long)((t2 + i * 0.7 + r.uniform() * 0.3) * 1e6)); op.set("op", "tun"); op.set("ser", (long long)++ser);
				op.set("len", (int)r.range(40, 300)); op.set("body", r.chance(0.7) ? "rnd" : "text");
				if (i % 2) { op.set("at", "c0"); op.set("dst", "srv"); op.set("src", "c0"); } else { op.set("at", "srv"); op.set("dst", "c0"); op.set("src", "ext"); }
				ops.push(op);
			}
			cfg.set("dur_s", (int)(t2 + 30));
		}
	} else if (mode == "redeliver") {
		// C16: otherwise clean path; the only fault kind is re-delivery of queries (verbatim, new id, re-cased, other source)
		double W = 10 + r.uniform() * 30;
		int maxlen = 1200;       // every packet fits 16 fragments of >= 100 bytes: what happens to packets that cannot be delivered at all is not C16's subject
		bool b32 = r.chance(0.55);
		if (b32) cfg.set("relay", gen_relay(r, "base32"));
		else if (r.chance(0.3)) cfg.set("relay", gen_relay(r, r.chance(0.5) ? "base64" : "base64u"));
		cfg.set("no_check_ip", r.chance(0.12));
		// a fifth of the runs begin with ten seconds in which no answer gets back to a lazy client with a 1 s interval: it concludes
		// that the relay cannot hold queries and switches the session to immediate mode in mid-flight (with a query still waiting)
		double t_start = 0.1;
		bool lazyoff = r.chance(0.2);
		if (lazyoff) {
			J cl2 = cfg["clients"]; cl2.a[0].set("lazy", 1); cl2.a[0].set("interval", 1); cl2.a[0].set("raw", false); cfg.set("clients", cl2);
			t_start = 14;
		}
		gen_traffic(r, ops, "c0", r.chance(0.5) ? "srv" : "ext", (int)r.range(15, 45), t_start, t_start + W, ser, maxlen, true);
		gen_traffic(r, ops, "srv", "c0", (int)r.range(15, 45), t_start, t_start + W, ser, maxlen, true);
		if (lazyoff) W += 14;
		J f = J::obj();
		if (lazyoff) { f.set("drought_t0_us", (long long)100000); f.set("drought_t1_us", (long long)((9.5 + r.uniform() * 2) * 1e6)); }
		f.set("ref", "T0"); f.set("t0_us", (long long)200000); f.set("t1_us", (long long)((W + 5) * 1e6));
		f.set("p_redeliv", r.chance(0.4) ? 0.005 + r.uniform() * 0.05 : 0.03 + r.uniform() * (r.chance(0.3) ? 0.6 : 0.2));
		f.set("p_rd_newid", r.chance(0.7) ? r.uniform() : 0.0);
		f.set("p_rd_recase", b32 && r.chance(0.7) ? r.uniform() * 0.8 : (!b32 && r.chance(0.25)) ? r.uniform() * 0.3 : 0.0);    // re-cased copies also in sessions whose codec is case-sensitive (one relay of several re-cases its retries)
		f.set("p_rd_altsrc", r.chance(0.4) ? r.uniform() * 0.3 : 0.0);
		f.set("p_rd_again", r.chance(0.5) ? 0.2 + r.uniform() * 0.6 : 0.0);     // the relay repeats one of its copies unchanged
		f.set("p_rd_altport", r.chance(0.5) ? r.uniform() * 0.5 : 0.0);
		// copies that ask the same name with ANOTHER query type are new questions, not repeats: only in the jobs of C10/C14
		// (every answer must echo the id/name/type of a distinct received query), never under the C16 oracles
		if (ov.getb("retype")) f.set("p_rd_retype", r.chance(0.7) ? 0.05 + r.uniform() * 0.4 : 0.0);
		f.set("rd_max_delay_us", (long long)(r.chance(0.5) ? r.range(1000, 200000) : r.range(200000, 3000000)));
		f.set("p_trigger_dup", r.chance(0.6) ? 0.1 + r.uniform() * 0.6 : 0.0);      // repeats aimed at the 20 ms send-real-soon window / held queries
		// a client that tried raw mode first: the server's raw replies never arrive, so the session runs in DNS mode, and late copies
		// of the client's raw login datagrams (valid for the whole session: the hash depends on the login challenge only) reach
		// the server while pings and data queries are waiting there. Direct paths only: behind a relay the raw login comes from
		// another address than the DNS queries and re-binds the session (findings/r5/C02-finding3, another matter)
		if (!cfg.has("relay") && !lazyoff && r.chance(0.4)) {
			J cl2 = cfg["clients"]; cl2.a[0].set("raw", true); cfg.set("clients", cl2);
			f.set("rawlate", true); f.set("rawlate_min_us", (long long)(3e6 + r.uniform() * 10e6)); f.set("rawlate_max_us", (long long)(15e6 + r.uniform() * 40e6));
		}
		cfg.set("faults", f);
		cfg.set("dur_s", (int)(W + 45));
		cfg.set("tmax_s", 600);
	} else { // recover
		double p = 0.1 + r.uniform() * 4.9;             // offered packet period after the faults
		if (r.chance(0.3)) p = 0.1 + r.uniform() * 0.9;
		double fdur = 2 + r.uniform() * 38;
		J f = J::obj();
		f.set("ref", "T0"); f.set("t0_us", (long long)1000000); f.set("t1_us", (long long)((1 + fdur) * 1e6));
		bool hs = ov.getb("hs");
		if (hs) {
			// extended scope: the same fates while the handshake is running; the oracle applies if the client reaches tunnel mode
			fdur = 2 + r.uniform() * 25;
			f.set("ref", "abs"); f.set("t0_us", (long long)150000); f.set("t1_us", (long long)((0.15 + fdur) * 1e6));
			cfg.set("hs", true);
			// Raw mode behind a resolver: the DNS queries reach iodined from the relay's address, the raw login from the client's own.
			// Only in the job rawrelay (there: always, and the server's raw replies never arrive - findings/r5/C02-finding3, a known
			// finding); the general job never lets a client behind a relay try raw mode.
			J cl2 = cfg["clients"];
			if (ov.getb("rawrelay")) {
				J rl = cfg.has("relay") ? cfg["relay"] : J::obj(); rl.set("nat", true); cfg.set("relay", rl);
				cl2.a[0].set("raw", true); f.set("rawlate", true); f.set("rawlate_min_us", (long long)30000000); f.set("rawlate_max_us", (long long)50000000);
				cfg.set("rawrelay", true);
			} else if (cfg.has("relay")) cl2.a[0].set("raw", false);
			cfg.set("clients", cl2);
		}
		f.set("p_drop", r.chance(0.8) ? r.uniform() * (r.chance(0.2) ? (hs ? 0.6 : 1.0) : (hs ? 0.3 : 0.5)) : 0.0);
		f.set("p_dup", r.chance(0.6) ? r.uniform() * 0.4 : 0.0);
		f.set("p_delay", r.chance(0.6) ? r.uniform() * 0.5 : 0.0);
		long long md = (long long)r.range(1000, 5000000);
		double settle = 0;
		if (hs && r.chance(0.3)) {
			// late, not lost: datagrams (and copies of them) held back for longer than the client's patience with a handshake step
			// (1+2+3+4+5 s), so that requests of a step the client has given up arrive after the requests of the step that replaced it.
			// The whole period of trouble stays below 40 s; the recovery clock starts when the last held datagram has arrived.
			md = (long long)r.range(5000000, 20000000);
			if (fdur + md / 1e6 > 38) { fdur = 38 - md / 1e6; f.set("t1_us", (long long)((0.15 + fdur) * 1e6)); }
			settle = md / 1e6;
			f.set("settle_us", md);
			if (r.chance(0.5)) { f.set("p_delay", 0.2 + r.uniform() * 0.6); f.set("p_dup", r.uniform() * 0.5); }
		} else if (hs && r.chance(0.3)) {
			// the same, aimed: every request (or every reply, or both) of ONE handshake step is held back for 6-20 s, everything else
			// passes under the run's ordinary fates - the step is given up or repeated and its stragglers arrive during later steps
			static const char steps[] = "soynrzlvi";
			std::string st(1, steps[r.range(0, 8)]);
			long long hd = (long long)r.range(6000000, 20000000);
			f.set("hold_cmd", st); f.set("hold_delay_us", hd); f.set("hold_dir", (int)r.range(0, 2));
			if (fdur + hd / 1e6 > 38) { fdur = 38 - hd / 1e6; f.set("t1_us", (long long)((0.15 + fdur) * 1e6)); }
			settle = hd / 1e6 + 3.5;
			f.set("settle_us", (long long)(settle * 1e6));
		}
		f.set("max_delay_us", md);
		cfg.set("faults", f);
		// packets that must be deliverable: fit in 16 fragments both ways (reference arithmetic, Base32 worst case upstream)
		int fit = 300;
		{
			const J &c0 = cl.a[0];
			int M = c0.geti("maxlen") ? (int)c0.geti("maxlen") : 255;
			int space = M - (int)dom.size() - 8; space -= space / 57;
			int up = space * 5 / 8 * 16 - 30;
			if (up < fit) fit = up;
			if (c0.geti("fragsize")) { int dn = (int)c0.geti("fragsize") * 16 - 30; if (dn < fit) fit = dn; }
			if (fit < 40) fit = 40;
		}
		cfg.set("fit_len", fit);
		// traffic during the fault window (creates in-flight state) ...
		gen_traffic(r, ops, "c0", "srv", (int)r.range(5, 40), 0.1, 1 + fdur, ser, 1200, true);
		gen_traffic(r, ops, "srv", "c0", (int)r.range(5, 40), 0.1, 1 + fdur, ser, 1200, true);
		// ... and continuing periodic traffic afterwards, both sides
		// ... every p seconds; in a fifth of the runs sparsely (one packet every 8-30 s per side, the way an idle login session or a
		// monitoring probe uses a tunnel): recovery must not cost a number of offered packets, however few are offered
		if (!hs && r.chance(0.2)) { p = 8 + r.uniform() * 22; cfg.set("sparse", true); }
		double tend = 1 + fdur + settle + 60 + std::max(45.0, 4.5 * p);
		cfg.set("period_s", p);
		for (double t = 1 + fdur + r.uniform() * p; t < tend; t += p) {
			for (int side = 0; side < 2; side++) {
				J op = J::obj();
				op.set("t", (long long)((t + side * p * 0.37) * 1e6)); op.set("op", "tun"); op.set("at", side ? "srv" : "c0"); op.set("ser", (long long)++ser);
				op.set("len", (int)r.range(40, fit)); op.set("body", "rnd"); op.set("dst", side ? "c0" : "srv"); op.set("src", side ? "ext" : "c0");
				ops.push(op);
			}
		}
		cfg.set("dur_s", (int)(tend + 25));
		cfg.set("tmax_s", 900);
		cfg.set("max_events", 1500000);
	}
	plan.set("cfg", cfg);
	plan.set("ops", ops);
	return plan;
}

World *build_tunnel(const J &plan)
{
	World *w = new World();
	w->plan = plan;
	w->build_common();
	std::string mode = w->cfg.gets("mode", "faulty");
	Relay *relay = nullptr;
	if (w->cfg.has("relay")) relay = install_relay(w, w->cfg["relay"]);
	if (mode != "inject9") w->add(mk_c01_integrity(w));      // inject9: an on-path party forges the downstream stream by design
	if (mode == "redeliver") { w->add(mk_c02_delivery(w, true, false, "C16")); w->add(mk_c16_redeliver(w)); }
	else if (mode == "relayfam") w->add(mk_c02_delivery(w, true, false, "C11"));
	else if (mode == "inject9") w->add(install_injector(w));
	else if (mode == "stale" || mode == "stale8") w->add(mk_stale_dup(w));
	else if (mode == "clean9") { w->add(mk_c02_delivery(w, true, false, "C09")); w->add(mk_c09_probe_judge(w)); }
	else if (mode == "names") { w->add(mk_c02_delivery(w, true, false, "C02")); w->add(mk_c08_names(w)); }
	else w->add(mk_c02_delivery(w, mode == "clean" && !w->cfg.getb("tiny_M"), mode == "recover"));     // with -M too small for the domain no delivery is promised
	if (mode != "stale" && mode != "stale8") w->add(mk_c15_fragsize(w));     // stale: replays of old cached answers interleave with the current packet on the wire; C15 is judged elsewhere
	bool dupish = w->cfg["faults"].getd("p_dup") > 0 || w->cfg["faults"].getd("p_redeliv") > 0;
	w->add(mk_c14_ledger(w, !dupish));
	w->add(mk_probes(w));
	// signature: the configuration cell this run visited
	std::string s = mode;
	for (auto &c : w->cfg["clients"].a)
		s += "|" + c.gets("qtype", "auto") + "/" + c.gets("downenc", "auto") + "/L" + std::to_string(c.geti("lazy", 1)) + (c.getb("raw") ? "/raw" : "") + (c.geti("fragsize") ? "/m" : "/auto");
	if (relay) s += "|relay:" + relay->sig();
	w->sig = s;
	World *ww = w;
	bool two = mode == "relayfam" && relay && w->cfg.getb("two_sessions");
	if (two) {
		Relay *rl = relay; J cfg2 = w->cfg["relay2"];
		auto sig1 = std::make_shared<std::string>(relay->sig());
		w->op_hook = [rl, cfg2, ww](const J &op) { if (op.gets("op") != "relay_switch") return false; *rl = [&]() { Relay n; n.S = rl->S; n.srv_host = rl->srv_host; n.configure(cfg2); return n; }(); ww->S.count("op.relay_switch"); return true; };
		w->add(mk_second_session(w));
		w->result_hooks.push_back([ww, rl, sig1](J &r) {
			(void)r;
			if (ww->S.capped || ww->clients.size() < 2) return;
			const J &c0 = ww->cfg["clients"].a[0];
			std::string ft = c0.gets("qtype");
			static const int qts[7] = {QT_NULL, QT_PRIVATE, QT_TXT, QT_SRV, QT_MX, QT_CNAME, QT_A};
			bool some_type = false;
			for (int i = 0; i < 7; i++) { if (!ft.empty() && ft != TYPES[i]) continue; if (rl->passes_type(qts[i])) some_type = true; }
			bool must = some_type && (rl->maxans == 0 || rl->maxans >= 512) && (c0.gets("downenc").empty() || c0.gets("downenc") == "base32");
			ww->probes[must ? "c11.second.must_succeed" : "c11.second.may_fail"]++;
			if (ww->clients[1].in_tunnel) ww->probes["c11.second.handshake_ok"]++;
			else if (must && ww->clients[0].in_tunnel) ww->S.violations.push_back({"C11", "negotiation.failed.second", "second session on the same slot: the new path passes Base32 names, answers up to 512 bytes and a usable record type (" + rl->sig() + "; the first session ran over " + *sig1 + "), but the new client's handshake did not complete"});
		});
	}
	if (mode == "relayfam" && relay && !two) {
		Relay *rl = relay;
		w->result_hooks.push_back([ww, rl](J &r) {
			(void)r;
			if (ww->S.capped || ww->clients.empty()) return;
			const J &c0 = ww->cfg["clients"].a[0];
			std::string ft = c0.gets("qtype");
			static const int qts[7] = {QT_NULL, QT_PRIVATE, QT_TXT, QT_SRV, QT_MX, QT_CNAME, QT_A};
			bool some_type = false;
			for (int i = 0; i < 7; i++) { if (!ft.empty() && ft != TYPES[i]) continue; if (rl->passes_type(qts[i])) some_type = true; }
			bool size_ok = rl->maxans == 0 || rl->maxans >= 512;
			bool must = some_type && size_ok && (c0.gets("downenc").empty() || c0.gets("downenc") == "base32");     // a forced codec the path damages may end the handshake
			ww->probes[must ? "c11.must_succeed" : "c11.may_fail"]++;
			if (ww->all_in_tunnel) {
				ww->probes["c11.handshake_ok"]++;
				// which settings were selected (reach): read from the session table
				UserView v;
				if (peek_user(0, v)) { ww->probes["c11.up." + v.encoder]++; ww->probes[std::string("c11.down.") + (v.downenc ? std::string(1, v.downenc) : "?")]++; ww->probes["c11.frag." + std::string(v.fragsize < 200 ? "lt200" : v.fragsize < 600 ? "lt600" : v.fragsize < 1200 ? "lt1200" : "ge1200")]++; }
			} else if (must) {
				ww->S.violations.push_back({"C11", "negotiation.failed", "the path passes Base32 names, answers up to 512 bytes and at least one usable record type (" + rl->sig() + "), but the client's handshake did not complete (client " + (ww->clients[0].task->state == T_EXITED ? "exited" : "still negotiating") + ")"});
			}
		});
	}
	w->result_hooks.push_back([ww](J &r) {
		int64_t wr = ww->probes["c01.written"];
		bool fault = false;
		for (auto &p : ww->S.counters) if (p.first.rfind("fault.", 0) == 0 && p.second > 0) fault = true;
		std::string mode = ww->cfg.gets("mode");
		bool nt = ww->all_in_tunnel && wr > 0;
		if (mode == "faulty") nt = nt && fault;
		if (mode == "clean" || mode == "clean9") nt = nt && ww->probes["c02.acc_c"] >= 5 && ww->probes["c02.acc_s"] >= 5;
		if (mode == "recover") nt = nt && fault;
		if (mode == "stale8") nt = ww->all_in_tunnel && ww->S.counters.count("fault.stale_dup8") && ww->S.counters["fault.stale_dup8"] >= 1;
		if (mode == "stale") nt = ww->all_in_tunnel && ww->S.counters.count("fault.stale_dup") && ww->S.counters["fault.stale_dup"] >= 1;
		if (mode == "redeliver") nt = nt && ww->probes["c16.redelivered"] >= 1;
		if (mode == "inject9") nt = ww->all_in_tunnel && ww->probes["c09.inj_packets_acked"] >= 3;
		if (mode == "names") nt = ww->all_in_tunnel && ww->probes["c08.full_chunks"] >= 1 && ww->probes["c08.tail_chunks"] >= 1;
		if (mode == "relayfam") nt = ww->all_in_tunnel && ((ww->probes["c02.acc_c"] >= 3 && ww->probes["c02.acc_s"] >= 3) || ww->probes["c11.second.handshake_ok"] >= 1);
		r.set("nontriv", nt);
	});
	return w;
}
