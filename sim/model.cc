// Model protocol client (from doc/proto_00000502.txt) and its op interface.
#include "model.h"
#include "hostgen.h"
#include <algorithm>

static std::string dotify(const std::string &s, size_t cut = 57)
{
	std::string o;
	for (size_t i = 0; i < s.size(); i += cut) { if (i) o += '.'; o += s.substr(i, cut); }
	return o;
}

Bytes ModelClient::login_hash(uint32_t challenge) const
{
	uint8_t h[16];
	ref_login(password, challenge, h);
	return Bytes(h, h + 16);
}

void ModelClient::start(uint64_t at)
{
	ModelClient *self = this;
	w->S.at(at, [self]() { if (self->autopilot && !self->stopped) { self->do_version(); self->tick(); } });
}

uint16_t ModelClient::send_name(const std::string &data_part, uint16_t qt, const Addr *spoof, int force_id)
{
	uint16_t id = force_id >= 0 ? (uint16_t)force_id : next_id;
	if (force_id < 0) { next_id = (uint16_t)(next_id + 7727); if (!next_id) next_id = 7727; }
	std::string qn = data_part + "." + domain;
	Bytes q = dns_build_query(id, qn, qt ? qt : qtype, false);
	pending[id] = Pending{data_part.empty() ? (char)0 : (char)tolower((unsigned char)data_part[0]), qn, w->S.now};
	if (pending.size() > 200) pending.erase(pending.begin());
	Sock *s = (use_v6 && sock6) ? sock6 : sock;
	Addr dst = (use_v6 && sock6) ? w->S.hosts[w->srv_host].ip6 : w->S.hosts[w->srv_host].ip4;
	dst.port = 53;
	if (spoof) w->S.inject(*spoof, host, dst, q);
	else w->S.send_from(s, dst, q);
	return id;
}

uint16_t ModelClient::send_b32(char cmd, const Bytes &body, const Addr *spoof)
{
	return send_name(std::string(1, cmd) + dotify(codec_encode(5, body)), 0, spoof);
}

void ModelClient::do_version(uint32_t ver)
{
	cmc++;
	send_b32('v', Bytes{(uint8_t)(ver >> 24), (uint8_t)(ver >> 16), (uint8_t)(ver >> 8), (uint8_t)ver, (uint8_t)(cmc >> 8), (uint8_t)cmc});
}

void ModelClient::do_login(const std::string &mode, int uid, const Addr *spoof)
{
	cmc++;
	Bytes b;
	b.push_back((uint8_t)(uid >= 0 ? uid : userid));
	Bytes h;
	if (mode == "good" && knows_password) h = login_hash(seed);
	else if (mode == "off_by_one") h = login_hash(seed + 1);
	else if (mode == "zero") h.assign(16, 0);
	else if (mode.rfind("hex:", 0) == 0) { h = unhex(mode.substr(4)); h.resize(16); }
	else { h = login_hash(seed); h[(cmc * 7) % 16] ^= (uint8_t)(1 + cmc % 255); }   // wrong
	if (mode == "short") h.resize(8);
	b.insert(b.end(), h.begin(), h.end());
	b.push_back(cmc >> 8); b.push_back(cmc & 255);
	send_b32('l', b, spoof);
}

void ModelClient::do_ping(const Addr *spoof, int uid)
{
	cmc++;
	Bytes body{(uint8_t)(uid >= 0 ? uid : userid), (uint8_t)(((in_seq & 7) << 4) | (in_frag & 15)), (uint8_t)(cmc >> 8), (uint8_t)cmc};
	if (!spoof && uid < 0) { ping_parts.push_back("p" + dotify(codec_encode(5, body))); if (ping_parts.size() > 6) ping_parts.pop_front(); }
	send_b32('p', body, spoof);
}

void ModelClient::do_simple(char cmd, const std::string &args, const Addr *spoof)
{
	cmc++;
	std::string c3; c3 += b32chr((cmc >> 10) & 31); c3 += b32chr((cmc >> 5) & 31); c3 += b32chr(cmc & 31);
	send_name(std::string(1, cmd) + args + c3, 0, spoof);
}

void ModelClient::do_setfrag(int f, int uid)
{
	cmc++;
	send_b32('n', Bytes{(uint8_t)(uid >= 0 ? uid : userid), (uint8_t)(f >> 8), (uint8_t)f, (uint8_t)(cmc >> 8), (uint8_t)cmc});
}

void ModelClient::do_probe(int f, int fillchars)
{
	cmc++;
	std::string s = "r";
	s += b32chr(((userid & 15) << 1) | ((f >> 10) & 1)); s += b32chr((f >> 5) & 31); s += b32chr(f & 31); s += 'd';
	std::string fill;
	for (int i = 0; i < fillchars; i++) fill += b32chr((cmc + i * 7) & 31);
	send_name(dotify(s + fill, 57));
}

void ModelClient::do_rawlogin(const std::string &mode, const Addr *spoof)
{
	used_raw = true;
	Bytes h;
	if (mode == "good" && knows_password) h = login_hash(seed + 1);
	else if (mode == "dnshash") h = login_hash(seed);
	else if (mode.rfind("hex:", 0) == 0) { h = unhex(mode.substr(4)); h.resize(16); }
	else { h = login_hash(seed + 1); h[3] ^= 0x40; }
	if (mode == "short") h.resize(10);
	Bytes f = raw_frame(1, userid, h);
	Addr dst = w->S.hosts[w->srv_host].ip4; dst.port = 53;
	if (spoof) w->S.inject(*spoof, host, dst, f); else w->S.send_from(sock, dst, f);
}
void ModelClient::do_rawping()
{
	used_raw = true;
	Addr dst = w->S.hosts[w->srv_host].ip4; dst.port = 53;
	w->S.send_from(sock, dst, raw_frame(3, userid, Bytes()));
}
void ModelClient::do_rawdata(const Bytes &pkt)
{
	used_raw = true;
	Addr dst = w->S.hosts[w->srv_host].ip4; dst.port = 53;
	w->S.send_from(sock, dst, raw_frame(2, userid, z_compress(pkt)));
}

void ModelClient::send_packet(const Bytes &frame)
{
	out_q.push_back(frame);
	if (!out_active && autopilot && logged_in && !upenc_pending) { out_cur = z_compress(out_q.front()); out_off = 0; out_frag = 0; out_seq = (out_seq + 1) & 7; out_active = true; out_resend = 0; send_chunk(false); }
}

void ModelClient::send_chunk(bool resend)
{
	if (!out_active) return;
	size_t cap = chunk_cap ? (size_t)chunk_cap : 60;
	size_t n = std::min(cap, out_cur.size() - out_off);
	out_sent = n;
	bool last = out_off + n >= out_cur.size();
	std::string s;
	s += "0123456789abcdef"[userid & 15];
	s += b32chr(((out_seq & 7) << 2) | ((out_frag & 15) >> 2));
	s += b32chr(((out_frag & 3) << 3) | (in_seq & 7));
	s += b32chr(((in_frag & 15) << 1) | (last ? 1 : 0));
	if (!resend) cmc++;
	s += "abcdefghijklmnopqrstuvwxyz0123456789"[cmc % 36];
	s += dotify(codec_encode(up_codec, Bytes(out_cur.begin() + out_off, out_cur.begin() + out_off + n)), 57);
	// first label holds 5 header chars + up to 57: keep labels <= 63
	send_name(s);
	out_gen = w->S.now;
}

void ModelClient::handle_data_reply(const MReply &r)
{
	const Bytes &p = r.payload;
	if (p.size() == 5 && !memcmp(p.data(), "BADIP", 5)) { w->probes["mc.badip"]++; return; }
	if (p.size() < 2) return;
	int up_seq = (p[0] >> 4) & 7, up_frag = p[0] & 15;
	int dn_seq = (p[1] >> 5) & 7, dn_frag = (p[1] >> 1) & 15, last = p[1] & 1;
	bool got_data = false;
	if (p.size() > 2) {
		bool take = false;
		if (!in_active || dn_seq != in_seq) {
			if (dn_seq != in_seq || !in_active) { in_seq = dn_seq; in_frag = dn_frag; in_buf.clear(); in_active = true; take = true; }
		} else if (dn_frag == in_frag + 1) { in_frag = dn_frag; take = true; }
		if (take) {
			in_buf.insert(in_buf.end(), p.begin() + 2, p.end());
			got_data = true;
			if (last) {
				Bytes out;
				if (z_uncompress(in_buf, out)) { received.push_back(out); w->probes["mc.received"]++; }
				else w->probes["mc.bad_zlib"]++;
				in_buf.clear();
				in_active = false;
				// keep in_seq/in_frag so that duplicates of this packet are recognised
			}
		} else got_data = true;   // duplicate: still ack
	} else if (dn_seq != in_seq && !in_active) { in_seq = dn_seq; in_frag = dn_frag; }
	if (out_active && up_seq == (out_seq & 7) && up_frag == (out_frag & 15)) {
		out_off += out_sent;
		if (out_off >= out_cur.size()) {
			sent_ok.push_back(out_q.front()); out_q.pop_front(); out_active = false;
			if (!out_q.empty()) { out_cur = z_compress(out_q.front()); out_off = 0; out_frag = 0; out_seq = (out_seq + 1) & 7; out_active = true; out_resend = 0; send_chunk(false); return; }
		} else { out_frag++; out_resend = 0; send_chunk(false); return; }
	}
	if (got_data && autopilot && !stopped) do_ping();
}

void ModelClient::on_rx(const Dgram &d)
{
	if (d.data.size() >= 4 && !memcmp(d.data.data(), RAW_MAGIC, 3)) {
		MReply r; r.t = w->S.now; r.cmd = 'R'; r.payload = d.data; r.has_payload = true;
		replies.push_back(r);
		int cmd = d.data[3] >> 4;
		if (cmd == 1 && d.data.size() >= 20) {
			Bytes want = login_hash(seed - 1);
			if (knows_password && !memcmp(&d.data[4], want.data(), 16)) { raw = true; w->probes["mc.raw_established"]++; }
		} else if (cmd == 2) {
			Bytes out;
			if (z_uncompress(Bytes(d.data.begin() + 4, d.data.end()), out)) { received.push_back(out); w->probes["mc.received"]++; }
		}
		return;
	}
	DnsMsg m;
	if (!dns_parse_strict(d.data, m).empty() || !m.qr) return;
	MReply r; r.t = w->S.now; r.id = m.id; r.rcode = m.rcode;
	auto it = pending.find(m.id);
	if (it == pending.end()) { w->probes["mc.unmatched_reply"]++; return; }
	r.cmd = it->second.cmd; r.qname = it->second.qname;
	pending.erase(it);
	r.has_payload = answer_payload(m, r.payload);
	replies.push_back(r);
	if (replies.size() > 5000) replies.erase(replies.begin(), replies.begin() + 1000);
	if (!r.has_payload) return;
	const Bytes &p = r.payload;
	switch (r.cmd) {
	case 'v':
		if (p.size() >= 9 && !memcmp(p.data(), "VACK", 4)) {
			seed = ((uint32_t)p[4] << 24) | (p[5] << 16) | (p[6] << 8) | p[7]; userid = p[8]; have_seed = true; logged_in = false; raw = false; up_codec = 5; upenc_pending = false;
			w->probes["mc.vack"]++;
			if (autopilot && !stopped) do_login(knows_password ? "good" : "bad");
		} else if (p.size() >= 4 && !memcmp(p.data(), "VFUL", 4)) w->probes["mc.vful"]++;
		break;
	case 'l': {
		std::string s(p.begin(), p.end());
		unsigned a, b, c, dd, e, f, g, h; int mtu, bits;
		if (sscanf(s.c_str(), "%u.%u.%u.%u-%u.%u.%u.%u-%d-%d", &a, &b, &c, &dd, &e, &f, &g, &h, &mtu, &bits) == 10) {
			logged_in = true;
			char ip[32]; snprintf(ip, sizeof ip, "%u.%u.%u.%u", e, f, g, h); tun_ip = ip; tun_ip_h = (e << 24) | (f << 16) | (g << 8) | h;
			w->probes["mc.login_ok"]++;
			if (autopilot && !stopped) {
				if (!replay_from.empty() && w->models) {
					// the previous owner of this slot asked these very names; from the new owner they are new pings of the new session
					ModelClient *prev = w->models->get(replay_from);
					if (prev && prev != this && prev->userid == userid && prev->qtype == qtype) {
						for (auto &part : prev->ping_parts) { send_name(part); w->probes["mc.replayed_predecessor_ping"]++; }
					}
				}
				if (fragsize) do_setfrag(fragsize);
				if (want_upenc && want_upenc != 5) { do_simple('s', std::string(1, b32chr(userid)) + std::string(1, b32chr(want_upenc))); upenc_pending = true; upenc_sent_at = w->S.now; }
				if (want_downenc) do_simple('o', std::string(1, b32chr(userid)) + std::string(1, want_downenc));
				if (lazy) do_simple('o', std::string(1, b32chr(userid)) + "l");
				do_ping();
				if (!out_q.empty() && !out_active && !upenc_pending) { Bytes f0 = out_q.front(); out_q.pop_front(); send_packet(f0); }
			}
		} else if (s == "LNAK") w->probes["mc.lnak"]++;
		else if (s == "BADIP") w->probes["mc.login_badip"]++;
		break; }
	case 's': {
		int c = codec_from_name(std::string(p.begin(), p.end()));
		if (c) { up_codec = c; w->probes["mc.upenc_switched"]++; }
		upenc_pending = false;
		if (autopilot && !stopped && logged_in && !out_active && !out_q.empty()) { Bytes f0 = out_q.front(); out_q.pop_front(); send_packet(f0); }
		break; }
	case 'p': case 'd':
		handle_data_reply(r);
		break;
	default: break;
	}
}

void ModelClient::tick()
{
	if (stopped || !autopilot || w->S.now > auto_until) return;
	if (logged_in && upenc_pending && w->S.now - upenc_sent_at >= 2000000) { do_simple('s', std::string(1, b32chr(userid)) + std::string(1, b32chr(want_upenc))); upenc_sent_at = w->S.now; }
	if (logged_in) {
		if (out_active && w->S.now - out_gen >= 900000) {
			if (++out_resend > 3) { out_q.pop_front(); out_active = false; w->probes["mc.up_gave_up"]++; }
			else send_chunk(true);
		} else if (!out_active) do_ping();
	} else if (have_seed && w->S.now % 3 == 0) {
		// keep the handshake going if a reply was lost
	}
	ModelClient *self = this;
	w->S.after((uint64_t)(ping_period * 1e6), [self]() { self->tick(); });
}

// ------------------------------------------------------------------ registry + ops
ModelClient *Models::add(const std::string &name, const J &c)
{
	auto mc = std::make_unique<ModelClient>();
	mc->w = w; mc->name = name;
	std::string ip = c.gets("ip", "10.9.3.1");
	Host *h = w->S.host_by_name(name);
	if (!h) { int id = w->S.add_host(name, ip.c_str(), c.has("ip6") ? c.gets("ip6").c_str() : nullptr); h = &w->S.hosts[id]; }
	mc->host = h->id;
	ModelClient *raw = mc.get();
	mc->sock = w->S.model_socket(h->id, AF_INET, (uint16_t)c.geti("port", 30000 + (long)clients.size()), [raw](const Dgram &d) { raw->on_rx(d); });
	if (h->ip6.fam) mc->sock6 = w->S.model_socket(h->id, AF_INET6, (uint16_t)c.geti("port", 30000 + (long)clients.size()), [raw](const Dgram &d) { raw->on_rx(d); });
	mc->use_v6 = c.getb("use_v6");
	mc->domain = c.gets("domain", w->domain);
	mc->password = c.gets("password", w->password);
	mc->knows_password = c.getb("knows_password", true);
	if (!mc->knows_password) mc->password = "wrong-" + mc->password;
	std::string qt = c.gets("qtype", "NULL");
	mc->qtype = qt == "TXT" ? QT_TXT : qt == "CNAME" ? QT_CNAME : qt == "A" ? QT_A : qt == "MX" ? QT_MX : qt == "SRV" ? QT_SRV : qt == "PRIVATE" ? QT_PRIVATE : QT_NULL;
	mc->autopilot = c.getb("auto", false);
	mc->ping_period = c.getd("ping_period", 1.0);
	mc->lazy = c.getb("lazy", false);
	mc->fragsize = (int)c.geti("fragsize", 0);
	std::string de = c.gets("downenc"); if (!de.empty()) mc->want_downenc = de[0];
	mc->want_upenc = (int)c.geti("upenc", 0);
	mc->chunk_cap = (int)c.geti("chunk_cap", 0);
	mc->replay_from = c.gets("replay_from");
	mc->next_id = (uint16_t)(1000 + clients.size() * 977);
	if (c.has("auto_until_s")) mc->auto_until = (uint64_t)(c.getd("auto_until_s") * 1e6);
	if (mc->autopilot) mc->start((uint64_t)c.geti("start_us", 200000));
	clients[name] = std::move(mc);
	w->S.latency[{h->id, w->srv_host}] = (uint64_t)c.geti("lat_up_us", 1000);
	w->S.latency[{w->srv_host, h->id}] = (uint64_t)c.geti("lat_dn_us", 1000);
	return raw;
}

void Models::do_op(const J &op)
{
	ModelClient *m = get(op.gets("who"));
	if (!m) { w->S.count("op.mc.nobody"); return; }
	std::string act = op.gets("act");
	Addr spoof; const Addr *sp = nullptr;
	if (op.has("spoof_ip")) { spoof = Addr::v4(op.gets("spoof_ip").c_str(), (uint16_t)op.geti("spoof_port", 4444)); sp = &spoof; }
	if (op.has("spoof_ip6")) { spoof = Addr::v6(op.gets("spoof_ip6").c_str(), (uint16_t)op.geti("spoof_port", 4444)); sp = &spoof; }
	if (op.has("uid")) { /* explicit userid override for this message */ }
	int uid = op.has("uid") ? (int)op.geti("uid") : -1;
	w->S.count("op.mc." + act);
	if (act == "v") m->do_version(op.has("version") ? (uint32_t)op.geti("version") : 0x502);
	else if (act == "l") m->do_login(op.gets("mode", "good"), uid, sp);
	else if (act == "p") m->do_ping(sp, uid);
	else if (act == "n") m->do_setfrag((int)op.geti("f", 100), uid);
	else if (act == "r") m->do_probe((int)op.geti("f", 100), (int)op.geti("fill", 40));
	else if (act == "i" || act == "s" || act == "o" || act == "y" || act == "z") {
		std::string args = op.gets("args");
		if (args.empty()) {
			int u = uid >= 0 ? uid : m->userid;
			if (act == "i") args = std::string(1, b32chr(u));
			else if (act == "s") args = std::string(1, b32chr(u)) + std::string(1, b32chr((int)op.geti("bits", 6)));
			else if (act == "o") args = std::string(1, b32chr(u)) + op.gets("opt", "t");
			else if (act == "y") args = op.gets("codec", "t") + std::string(1, b32chr(1));
			else args = "aAbBcC";
		}
		m->do_simple(act[0], args, sp);
	}
	else if (act == "upflood") {
		// an insider that never finishes a packet: well-formed upstream data fragments 0..15 of one sequence number, then the next
		// sequence number, and so on - as many as the name length allows per query, never with the last-fragment flag
		int n = (int)op.geti("n", 600), seq = (int)op.geti("seq", 1), per = (int)op.geti("per_seq", 16);
		size_t bytes = (size_t)op.geti("bytes", 120);
		Rng hr((uint64_t)op.geti("key"), "upflood");
		for (int i = 0; i < n; i++) {
			int frag = i % per; if (i && frag == 0) seq = (seq + 1) & 7;
			std::string q;
			q += "0123456789abcdef"[m->userid & 15];
			q += b32chr(((seq & 7) << 2) | ((frag & 15) >> 2));
			q += b32chr(((frag & 3) << 3) | (m->in_seq & 7));
			q += b32chr(((m->in_frag & 15) << 1));
			m->cmc++;
			q += "abcdefghijklmnopqrstuvwxyz0123456789"[m->cmc % 36];
			q += dotify(codec_encode(m->up_codec, hr.bytes(bytes)), 57);
			std::string name = q; ModelClient *mc = m;
			w->S.after((uint64_t)i * (uint64_t)op.geti("gap_us", 1500), [mc, name]() { mc->send_name(name); });
		}
		w->probes["mc.upflood_fragments"] += n;
	}
	else if (act == "rawrunt") {
		// a raw frame that names this session but carries fewer bytes than its kind needs (header only, half a hash, ...), from a
		// third party: whatever the server does may depend only on these bytes, not on what the previous datagram left behind
		Rng hr((uint64_t)op.geti("key"), "rawrunt");
		int cmd = (int)hr.range(1, 3);
		Bytes pl;
		if (cmd == 1) { pl = m->login_hash(m->seed + 1); pl.resize((size_t)hr.range(0, 15)); }
		else if (cmd == 2) { pl = z_compress(hr.bytes((size_t)hr.range(30, 200))); pl.resize((size_t)hr.range(0, 8)); }
		Bytes f = raw_frame(cmd, m->userid, pl);
		if (hr.chance(0.2)) f.resize(3);
		Addr dst = w->S.hosts[w->srv_host].ip4; dst.port = 53;
		if (sp) w->S.inject(*sp, m->host, dst, f); else w->S.send_from(m->sock, dst, f);
		w->probes["mc.raw_runt"]++;
	}
	else if (act == "hostile") {
		// an insider: logged in with the right password, then sends generated hostile commands from its own address, mostly
		// with its own user id (so that they pass the server's address check)
		Rng hr((uint64_t)op.geti("key"), "insider");
		if (m->raw && hr.chance(0.5)) {
			Bytes f = hostile_raw_frame(hr);
			if (f.size() >= 4 && hr.chance(0.8)) f[3] = (uint8_t)((f[3] & 0xf0) | (m->userid & 15));
			w->S.send_from(m->sock, [&]() { Addr a = w->S.hosts[w->srv_host].ip4; a.port = 53; return a; }(), f);
		} else {
			Bytes q = hostile_query_command(hr, m->domain, 16, m->logged_in ? m->userid : -1);
			Addr a = w->S.hosts[w->srv_host].ip4; a.port = 53;
			w->S.send_from(m->sock, a, q);
		}
		w->probes["mc.insider_hostile"]++;
	}
	else if (act == "name") m->send_name(op.gets("data"), (uint16_t)op.geti("qtype", 0), sp, op.has("id") ? (int)op.geti("id") : -1);
	else if (act == "rawlogin") m->do_rawlogin(op.gets("mode", "good"), sp);
	else if (act == "rawping") m->do_rawping();
	else if (act == "rawdata") m->do_rawdata(w->make_packet(op));
	else if (act == "pkt") m->send_packet(w->make_packet(op));
	else if (act == "stop") m->stop();
	else if (act == "resume") { m->stopped = false; m->tick(); }
	else if (act == "start") { m->autopilot = true; m->stopped = false; m->do_version(); m->tick(); }
}
